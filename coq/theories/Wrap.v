(* Wrap.v -- executable model of how pyiron_workflow turns definitions into node classes (C17).

   Part 1  values, hints, the channel type check (channels.py DataChannel._type_check_new_value).
   Part 2  the *description* of a python function (parameters with optional default and
           annotation; return statements with the source text of every returned expression;
           return annotation; declared labels; validation flag) and what
           mixin/preview.py ScrapesIO + output_parser.py ParseOutput + nodes/function.py
           Function._build_outputs_preview derive from it -- step by step, in source order.
   Part 3  node classes and instances: nodes/static_io.py StaticNode._setup_node,
           io.py HasIO.set_input_values, node.py Node.__call__/run/_before_run (cache test,
           readiness gate), mixin/run.py Runnable._run/_finish_run, process_run_result of
           Function / FromManyInputs / ToManyOutputs, Node._run_finally (cache write).
   Part 4  nodes/transform.py: inputs_to_list, list_to_outputs, inputs_to_dict,
           inputs_to_dataframe, dataclass nodes, and the public constructor functions with
           their python signatures.
   Part 5  the reference: python's own argument binding for non-variadic signatures, and the
           plain "call the definition" machine the theorems compare with.
   Part 6  printing to Base.obs for the correspondence check.

   The wrapped function's behaviour is a Section variable [sem] in the theorems; the
   correspondence check instantiates it with [sem_of] (evaluation of the generated body). *)
From Coq Require Import Ascii DecimalString.
From PW Require Import Base.
Open Scope nat_scope.

(* ================================================================================== *)
(* Part 1: values, exceptions, hints                                                   *)
Inductive val :=
| VNotData                                  (* the NOT_DATA singleton *)
| VNone
| VInt (z : Z)
| VStr (s : string)
| VTup (l : list val)
| VList (l : list val)
| VMap (tag : string) (kv : list (string * val)).
   (* tag "dict": a dict; "DotDict"; "DataFrame": column -> VList; otherwise an instance of
      the dataclass of that name, field -> value *)

Inductive exc := ValueErr | TypeErr | ReadinessErr | AttributeErr | KeyErr.
Definition exc_name (e : exc) : string :=
  match e with
  | ValueErr => "ValueError" | TypeErr => "TypeError" | ReadinessErr => "ReadinessError"
  | AttributeErr => "AttributeError" | KeyErr => "KeyError"
  end.

Inductive res (A : Type) := Ok (a : A) | Err (e : exc).
Arguments Ok {A} a.
Arguments Err {A} e.

Definition sassoc {B} (k : string) (d : list (string * B)) : option B := assoc String.eqb k d.
Definition supd {B} (k : string) (v : B) (d : list (string * B)) := upd String.eqb k v d.
Definition keys {B} (d : list (string * B)) : list string := map fst d.

(* python `==` on the values of the model (structural; dicts compared with their order --
   the generator never produces two dicts equal up to order, see harness ASSUMPTIONS) *)
Fixpoint val_eqb (a b : val) {struct a} : bool :=
  match a, b with
  | VNotData, VNotData => true
  | VNone, VNone => true
  | VInt x, VInt y => Z.eqb x y
  | VStr x, VStr y => String.eqb x y
  | VTup xs, VTup ys | VList xs, VList ys =>
      (fix go (xs ys : list val) {struct xs} : bool :=
         match xs, ys with
         | [], [] => true
         | x :: xs', y :: ys' => val_eqb x y && go xs' ys'
         | _, _ => false
         end) xs ys
  | VMap t xs, VMap u ys =>
      String.eqb t u &&
      (fix go (xs ys : list (string * val)) {struct xs} : bool :=
         match xs, ys with
         | [], [] => true
         | (k, x) :: xs', (k', y) :: ys' => String.eqb k k' && val_eqb x y && go xs' ys'
         | _, _ => false
         end) xs ys
  | _, _ => false
  end.

Fixpoint env_eqb (a b : list (string * val)) : bool :=
  match a, b with
  | [], [] => true
  | (k, x) :: a', (k', y) :: b' => String.eqb k k' && val_eqb x y && env_eqb a' b'
  | _, _ => false
  end.

Definition is_data (v : val) : bool := match v with VNotData => false | _ => true end.

(* bool(v) *)
Definition truthy (v : val) : bool :=
  match v with
  | VNotData => true
  | VNone => false
  | VInt z => negb (Z.eqb z 0)
  | VStr s => negb (String.eqb s "")
  | VTup l | VList l => negb (Nat.eqb (List.length l) 0)
  | VMap _ kv => negb (Nat.eqb (List.length kv) 0)
  end.

(* ---- hints ---------------------------------------------------------------------- *)
Inductive atom := AInt | AStr | ANoneT | AListT | ATupleT | ADictT | ACls (name : string).

Inductive hint :=
| HAtoms (l : list atom)           (* a class ([a]) or a union of classes, any spelling *)
| HTuple (items : list (list atom)) (* tuple[u1, ..., un], every ui a class or union *)
| HText (s : string).              (* a string annotation nobody resolved *)

Definition atom_admits (a : atom) (v : val) : bool :=
  match a, v with
  | AInt, VInt _ => true
  | AStr, VStr _ => true
  | ANoneT, VNone => true
  | AListT, VList _ => true
  | ATupleT, VTup _ => true
  | ADictT, VMap t _ => String.eqb t "dict" || String.eqb t "DotDict"
  | ACls n, VMap t _ => String.eqb t n
  | _, _ => false
  end.

Definition union_admits (u : list atom) (v : val) : bool := existsb (fun a => atom_admits a v) u.

Fixpoint all2 {A B} (f : A -> B -> bool) (xs : list A) (ys : list B) : bool :=
  match xs, ys with
  | [], [] => true
  | x :: xs', y :: ys' => f x y && all2 f xs' ys'
  | _, _ => false
  end.

(* type_hinting.valid_value: isinstance, else typeguard (tuple[...] checks arity and items;
   a string hint is skipped with a warning) *)
Definition admits (h : hint) (v : val) : bool :=
  match h with
  | HAtoms u => union_admits u v
  | HTuple items => match v with VTup l => all2 union_admits items l | _ => false end
  | HText _ => true
  end.

(* DataChannel._type_check_new_value with strict_hints = True: True = the value is taken *)
Definition chan_accepts (h : option hint) (v : val) : bool :=
  match h with
  | None => true
  | Some h' => negb (is_data v) || admits h' v
  end.

(* typing.get_args of a hint object *)
Definition get_args (h : hint) : list hint :=
  match h with
  | HAtoms [_] => []
  | HAtoms u => map (fun a => HAtoms [a]) u
  | HTuple items => map HAtoms items
  | HText _ => []
  end.

(* ================================================================================== *)
(* Part 2: the description of a function and what the class factory derives from it    *)
Inductive ann := AnnNone (* the literal None *) | AnnH (h : hint).

(* preview.py: `elif value.annotation is None: type_hint = type(None)` *)
Definition hint_of_ann (a : ann) : hint :=
  match a with AnnNone => HAtoms [ANoneT] | AnnH h => h end.

Record param := { p_name : string; p_default : option val; p_ann : option ann }.

(* returned expressions: enough structure to evaluate them, and their source text as the
   list of line fragments the ast node spans (first line from col_offset, middle lines
   whole, last line up to end_col_offset) *)
Inductive rexpr :=
| EParam (x : string)
| EConst (v : val)
| ETup (l : list rexpr)
| ELst (l : list rexpr)
| EIs (x : string) (v : val) (a b : rexpr).
   (* `a if x is <the object v> else b`: identity against a default object (a sentinel
      `_S = object()`, printed as VMap "object" [("id", name)], or a module-level list); the
      scenarios never pass an equal-but-distinct object, so identity is equality of the model values *)

Record rsrc := { r_frags : list string; r_expr : rexpr }.

Inductive rstmt :=
| RBare                    (* `return` *)
| RSingle (e : rsrc)       (* `return <expr>` whose ast node is not a Tuple *)
| RTuple (es : list rsrc). (* `return e1, ..., en` or `return (e1, ..., en)` *)

Inductive rann := RAnn (a : ann) | RTupAnn (items : list (list atom)).
Definition hint_of_rann (r : rann) : hint :=
  match r with RAnn a => hint_of_ann a | RTupAnn items => HTuple items end.

Record fdesc := {
  f_params : list param;
  f_body : list rstmt;          (* the return statements ast.walk finds, in order *)
  f_ret : option rann;
  f_declared : option (list string);  (* as_function_node("a", "b") ; None = scrape *)
  f_validate : bool }.

(* output_parser._remove_spaces_until_character: re.sub(r"\s+(?=\s)", "", s) deletes every
   white-space character that is followed by a white-space character *)
Definition is_ws (c : Ascii.ascii) : bool := Ascii.eqb c " "%char.
Fixpoint squeeze (s : string) : string :=
  match s with
  | EmptyString => EmptyString
  | String c r =>
      match r with
      | String d _ => if is_ws c && is_ws d then squeeze r else String c (squeeze r)
      | EmptyString => String c EmptyString
      end
  end.

(* ParseOutput.get_string: the squeezed fragments, concatenated without separator *)
Definition label_of (e : rsrc) : string := String.concat "" (map squeeze (r_frags e)).

Fixpoint strs_eqb (a b : list string) : bool :=
  match a, b with
  | [], [] => true
  | x :: a', y :: b' => String.eqb x y && strs_eqb a' b'
  | _, _ => false
  end.

(* ParseOutput(function).output : ValueError with more than one return statement *)
Definition parse_output (body : list rstmt) : res (option (list string)) :=
  match body with
  | [] => Ok None
  | [RBare] => Ok None
  | [RTuple es] => Ok (Some (map label_of es))
  | [RSingle e] =>
      let out := [label_of e] in
      if strs_eqb out ["None"] then Ok None else Ok (Some out)
  | _ => Err ValueErr
  end.

(* ScrapesIO._get_output_labels *)
Definition get_output_labels (d : fdesc) : res (option (list string)) :=
  match f_declared d with
  | Some l => Ok (Some l)
  | None => parse_output (f_body d)
  end.

(* ScrapesIO._validate = _validate_degeneracy ; _validate_return_count *)
Definition validate (d : fdesc) : res unit :=
  match get_output_labels d with
  | Err e => Err e
  | Ok labels =>
      if match labels with Some l => negb (nodupb String.eqb l) | None => false end
      then Err ValueErr
      else
        match parse_output (f_body d) with
        | Err e => Err e
        | Ok returns =>
            match labels, returns with
            | None, None => Ok tt
            | Some l, Some r =>
                if Nat.eqb (List.length l) (List.length r) then Ok tt else Err ValueErr
            | _, _ => Err TypeErr    (* len(None) *)
            end
        end
  end.

(* dict(zip(labels, hints, strict=False)) *)
Fixpoint dict_zip {B} (acc : list (string * B)) (ls : list string) (hs : list B) : list (string * B) :=
  match ls, hs with
  | l :: ls', h :: hs' => dict_zip (supd l h acc) ls' hs'
  | _, _ => acc
  end.

(* ScrapesIO._build_outputs_preview *)
Definition scrapes_outputs_preview (d : fdesc) : res (list (string * option hint)) :=
  match (if f_validate d then validate d else Ok tt) with
  | Err e => Err e
  | Ok _ =>
      match get_output_labels d with
      | Err e => Err e
      | Ok labels =>
          let l := match labels with Some l => l | None => [] end in
          match f_ret d with
          | None => Ok (dict_zip [] l (repeat None (List.length l)))
          | Some ra =>
              let h := hint_of_rann ra in
              if Nat.ltb 1 (List.length l) then
                let args := get_args h in
                if Nat.eqb (List.length args) (List.length l)
                then Ok (dict_zip [] l (map Some args))
                else Err ValueErr
              else Ok (dict_zip [] l [Some h])
          end
      end
  end.

(* Function._build_outputs_preview: "facilitates functions with no return value" *)
Definition function_outputs_preview (d : fdesc) : res (list (string * option hint)) :=
  match scrapes_outputs_preview d with
  | Err e => Err e
  | Ok [] => Ok [("None", Some (HAtoms [ANoneT]))]
  | Ok p => Ok p
  end.

(* ScrapesIO._get_init_keywords: list(inspect.signature(cls.__init__).parameters), then the
   parameters of cls.run that are not among them (input is passed by keyword to run as well) *)
Definition init_keywords : list string :=
  ["self"; "args"; "label"; "parent"; "delete_existing_savefiles"; "autoload"; "autorun";
   "checkpoint"; "kwargs"].
Definition run_keywords : list string :=
  ["run_data_tree"; "run_parent_trees_too"; "fetch_input"; "check_readiness";
   "raise_run_exceptions"; "emit_ran_signal"].
Definition reserved_keywords : list string := init_keywords ++ run_keywords.

Definition input_entry (p : param) : string * (option hint * val) :=
  (p_name p,
   (match p_ann p with None => None | Some a => Some (hint_of_ann a) end,
    match p_default p with None => VNotData | Some v => v end)).

(* ScrapesIO._build_inputs_preview: the loop over the signature's parameters *)
Fixpoint inputs_preview_loop (acc : list (string * (option hint * val))) (ps : list param)
  : res (list (string * (option hint * val))) :=
  match ps with
  | [] => Ok acc
  | p :: r =>
      if mems (p_name p) reserved_keywords then Err ValueErr
      else inputs_preview_loop (supd (p_name p) (snd (input_entry p)) acc) r
  end.
Definition inputs_preview (d : fdesc) := inputs_preview_loop [] (f_params d).

(* ================================================================================== *)
(* Part 3: node classes and instances                                                  *)
Inductive runner :=
| RunFn                    (* Function._on_run: node_function( **kwargs) *)
| RunToList                (* InputsToList *)
| RunToDict                (* InputsToDict *)
| RunToFrame               (* InputsToDataframe *)
| RunDataclass (name : string)
| RunFromList (n : nat).   (* ListToOutputs of length n *)

Inductive kind := KFunction | KFromMany (out : string) | KToMany.

Record nclass := {
  k_inputs : list (string * (option hint * val));   (* preview_inputs() *)
  k_outputs : list (string * option hint);          (* preview_outputs() *)
  k_runner : runner;
  k_kind : kind;
  k_cache : bool;                                   (* use_cache *)
  k_factories : list (string * val) }.              (* dataclass default factories *)

Record chan := { c_label : string; c_hint : option hint; c_value : val }.
Definition set_value (c : chan) (v : val) : chan :=
  {| c_label := c_label c; c_hint := c_hint c; c_value := v |}.

Record node := {
  n_cls : nclass;
  n_in : list chan;
  n_out : list chan;
  n_failed : bool;
  n_cached : option (list (string * val)) }.

Definition labels (cs : list chan) : list string := map c_label cs.
Definition value_dict (cs : list chan) : list (string * val) :=
  map (fun c => (c_label c, c_value c)) cs.

(* `panel[k] = v` for a non-channel value: AttributeError when there is no such channel,
   TypeError when the channel's hint refuses it, else the value is stored *)
Fixpoint assign1 (cs : list chan) (k : string) (v : val) : res (list chan) :=
  match cs with
  | [] => Err AttributeErr
  | c :: r =>
      if String.eqb (c_label c) k then
        if chan_accepts (c_hint c) v then Ok (set_value c v :: r) else Err TypeErr
      else match assign1 r k v with Ok r' => Ok (c :: r') | Err e => Err e end
  end.

(* `for k, v in kwargs.items(): self.inputs[k] = v` -- stops at the first exception and
   leaves the earlier keys assigned *)
Fixpoint assign_all (cs : list chan) (kvs : list (string * val)) : list chan * option exc :=
  match kvs with
  | [] => (cs, None)
  | (k, v) :: r =>
      match assign1 cs k v with
      | Err e => (cs, Some e)
      | Ok cs' => assign_all cs' r
      end
  end.

(* io.py HasIO.set_input_values( *args, **kwargs) *)
Definition set_input_values (cs : list chan) (pos : list val) (kw : list (string * val))
  : list chan * option exc :=
  if Nat.ltb (List.length (labels cs)) (List.length pos) then (cs, Some ValueErr)
  else
    let keyed := combine (labels cs) pos in          (* dict(zip(labels, args)) *)
    if existsb (fun k => mems k (keys kw)) (keys keyed) then (cs, Some ValueErr)
    else
      let all := kw ++ keyed in                      (* kwargs.update(keyed_args) *)
      if negb (forallb (fun k => mems k (labels cs)) (keys all)) then (cs, Some ValueErr)
      else assign_all cs all.

(* InputData(label, owner, default, type_hint): `self.value = default` type-checks *)
Fixpoint make_inputs (pre : list (string * (option hint * val))) : res (list chan) :=
  match pre with
  | [] => Ok []
  | (l, (h, dflt)) :: r =>
      if chan_accepts h dflt then
        match make_inputs r with
        | Ok cs => Ok ({| c_label := l; c_hint := h; c_value := dflt |} :: cs)
        | Err e => Err e
        end
      else Err TypeErr
  end.

Definition make_outputs (pre : list (string * option hint)) : list chan :=
  map (fun lh => {| c_label := fst lh; c_hint := snd lh; c_value := VNotData |}) pre.

(* DataclassNode._setup_node: default factories fill the channels that have no data *)
Fixpoint apply_factories (facs : list (string * val)) (todo cs : list chan) : res (list chan) :=
  match todo with
  | [] => Ok cs
  | c :: r =>
      match c_value c, sassoc (c_label c) facs with
      | VNotData, Some v =>
          match assign1 cs (c_label c) v with
          | Ok cs' => apply_factories facs r cs'
          | Err e => Err e
          end
      | _, _ => apply_factories facs r cs
      end
  end.

(* cls( *args, **kwargs): _setup_node, then _after_node_setup -> set_input_values *)
Definition instantiate (k : nclass) (pos : list val) (kw : list (string * val)) : res node :=
  match make_inputs (k_inputs k) with
  | Err e => Err e
  | Ok ins =>
      match apply_factories (k_factories k) ins ins with
      | Err e => Err e
      | Ok ins1 =>
          match set_input_values ins1 pos kw with
          | (_, Some e) => Err e
          | (ins2, None) =>
              Ok {| n_cls := k; n_in := ins2; n_out := make_outputs (k_outputs k);
                    n_failed := false; n_cached := None |}
          end
      end
  end.

(* ---- running ---------------------------------------------------------------------- *)
Definition chan_ready (c : chan) : bool :=
  is_data (c_value c) && match c_hint c with None => true | Some h => admits h (c_value c) end.

(* iterating a python value (zip(self.outputs, function_output)) *)
Fixpoint chars (s : string) : list val :=
  match s with EmptyString => [] | String c r => VStr (String c EmptyString) :: chars r end.
Definition iterate (v : val) : res (list val) :=
  match v with
  | VTup l | VList l => Ok l
  | VStr s => Ok (chars s)
  | VMap _ kv => Ok (map (fun kv => VStr (fst kv)) kv)
  | _ => Err TypeErr
  end.

(* `for out, value in zip(outputs, values): out.value = value` *)
Fixpoint store_zip (outs : list chan) (vs : list val) : list chan * option exc :=
  match outs, vs with
  | c :: r, v :: vs' =>
      if chan_accepts (c_hint c) v then
        let (r', e) := store_zip r vs' in (set_value c v :: r', e)
      else (c :: r, Some TypeErr)
  | _, _ => (outs, None)
  end.

(* Function._outputs_to_run_return *)
Definition fn_return (outs : list chan) : val :=
  match outs with
  | [c] => c_value c
  | _ => VTup (map c_value outs)
  end.

(* `for k, v in run_output.items(): self.outputs[k].value = v` -- the same loop as above *)
Definition store_items (outs : list chan) (kvs : list (string * val)) : list chan * option exc :=
  assign_all outs kvs.

(* process_run_result of the three families: new outputs, and the value run() returns *)
Definition process_run_result (k : kind) (outs : list chan) (v : val) : list chan * res val :=
  match k with
  | KFunction =>
      match (if Nat.eqb (List.length outs) 1 then Ok [v] else iterate v) with
      | Err e => (outs, Err e)
      | Ok vs =>
          match store_zip outs vs with
          | (outs', Some e) => (outs', Err e)
          | (outs', None) => (outs', Ok (fn_return outs'))
          end
      end
  | KFromMany name =>
      match assign1 outs name v with
      | Err e => (outs, Err e)
      | Ok outs' => (outs', Ok v)
      end
  | KToMany =>
      match v with
      | VMap _ kvs =>
          match store_items outs kvs with
          | (outs', Some e) => (outs', Err e)
          | (outs', None) => (outs', Ok v)
          end
      | _ => (outs, Err AttributeErr)
      end
  end.

(* what a cache hit returns, _outputs_to_run_return of the three families: the tuple of
   outputs (or the single one); the value of the one output; the plain dict of the outputs *)
Definition hit_return (k : kind) (outs : list chan) : val :=
  match k with
  | KFunction => fn_return outs
  | KFromMany name =>
      match find (fun c => String.eqb (c_label c) name) outs with
      | Some c => c_value c
      | None => VNotData
      end
  | KToMany => VMap "dict" (value_dict outs)
  end.

(* InputsToDataframe._on_run: the column dictionary, then DataFrame(df_dict) *)
Fixpoint add_row (first : bool) (cols : list (string * list val)) (row : list (string * val))
  : res (list (string * list val)) :=
  match row with
  | [] => Ok cols
  | (k, v) :: r =>
      if first then add_row first (supd k [v] cols) r
      else match sassoc k cols with
           | None => Err KeyErr
           | Some c => add_row first (supd k (c ++ [v]) cols) r
           end
  end.
Fixpoint frame_cols (i : nat) (cols : list (string * list val)) (rows : list val)
  : res (list (string * list val)) :=
  match rows with
  | [] => Ok cols
  | VMap _ row :: r =>
      match add_row (Nat.eqb i 0) cols row with
      | Ok cols' => frame_cols (S i) cols' r
      | Err e => Err e
      end
  | _ :: _ => Err AttributeErr
  end.
Definition same_lengths (cols : list (string * list val)) : bool :=
  match cols with
  | [] => true
  | (_, c) :: r => forallb (fun kc => Nat.eqb (List.length (snd kc)) (List.length c)) r
  end.
Definition to_frame (rows : list val) : res val :=
  match frame_cols 0 [] rows with
  | Err e => Err e
  | Ok cols =>
      if same_lengths cols then Ok (VMap "DataFrame" (map (fun kc => (fst kc, VList (snd kc))) cols))
      else Err ValueErr     (* "All arrays must be of the same length" *)
  end.

Fixpoint enumerate_items (i : nat) (l : list val) : list (string * val) :=
  match l with
  | [] => []
  | v :: r => (("item_" ++ NilZero.string_of_uint (Nat.to_uint i))%string, v) :: enumerate_items (S i) r
  end.

Section Machine.
  Variable sem : list (string * val) -> val.     (* the wrapped function on its keyword arguments *)

  (* self.on_run( *run_args): what each family computes from the input values *)
  Definition on_run (r : runner) (ins : list chan) : res val :=
    let env := value_dict ins in
    match r with
    | RunFn => Ok (sem env)
    | RunToList => Ok (VList (map snd env))
    | RunToDict => Ok (VMap "dict" env)
    | RunToFrame => to_frame (map snd env)
    | RunDataclass name => Ok (VMap name env)
    | RunFromList n =>
        match env with
        | [(_, v)] => match iterate v with
                      | Ok l => if Nat.eqb (List.length l) n        (* the length check *)
                                then Ok (VMap "dict" (enumerate_items 0 l))
                                else Err ValueErr
                      | Err e => Err e
                      end
        | _ => Err TypeErr
        end
    end.

  (* keyword names that collide with the flags node.__call__ -> pull -> run passes on *)
  Definition run_flags : list string :=
    ["run_data_tree"; "run_parent_trees_too"; "fetch_input"; "check_readiness"; "emit_ran_signal"].

  (* node( *args, **kwargs) for a parentless, unconnected node *)
  Definition call (n : node) (pos : list val) (kw : list (string * val)) : node * res val :=
    if existsb (fun k => mems k run_flags) (keys kw) then (n, Err TypeErr)  (* multiple values for keyword *)
    else
      match set_input_values (n_in n) pos kw with
      | (ins, Some e) =>
          ({| n_cls := n_cls n; n_in := ins; n_out := n_out n; n_failed := n_failed n;
              n_cached := n_cached n |}, Err e)
      | (ins, None) =>
          let n1 := {| n_cls := n_cls n; n_in := ins; n_out := n_out n; n_failed := n_failed n;
                       n_cached := n_cached n |} in
          let k := n_cls n in
          let env := value_dict ins in
          if k_cache k && negb (n_failed n) &&
             match n_cached n with Some c => env_eqb env c | None => false end
          then (n1, Ok (hit_return (k_kind k) (n_out n)))                   (* cache hit *)
          else if n_failed n || negb (forallb chan_ready ins) then (n1, Err ReadinessErr)
          else
            match on_run (k_runner k) ins with
            | Err e =>                                                      (* _run_exception *)
                ({| n_cls := k; n_in := ins; n_out := n_out n; n_failed := true;
                    n_cached := n_cached n |}, Err e)
            | Ok v =>
                match process_run_result (k_kind k) (n_out n) v with
                | (outs, Err e) =>
                    ({| n_cls := k; n_in := ins; n_out := outs; n_failed := true;
                        n_cached := n_cached n |}, Err e)
                | (outs, Ok r) =>                                           (* _run_finally *)
                    ({| n_cls := k; n_in := ins; n_out := outs; n_failed := false;
                        n_cached := if k_cache k then Some env else n_cached n |}, Ok r)
                end
            end
      end.

  Fixpoint calls (n : node) (ops : list (list val * list (string * val))) : list (node * res val) :=
    match ops with
    | [] => []
    | (pos, kw) :: r => let (n', x) := call n pos kw in (n', x) :: calls n' r
    end.
End Machine.

(* ---- the function node class: as_function_node( *labels)(f) -> preview_io() --------- *)
Definition function_class (d : fdesc) : res nclass :=
  match inputs_preview d with
  | Err e => Err e
  | Ok ins =>
      match function_outputs_preview d with
      | Err e => Err e
      | Ok outs =>
          Ok {| k_inputs := ins; k_outputs := outs; k_runner := RunFn; k_kind := KFunction;
                k_cache := true; k_factories := [] |}
      end
  end.

(* ---- hand-written classes: `class B(Function)` with a `node_function` staticmethod, and
   `class D(B)` overriding it.  Every class scrapes its OWN signature and return statement (the
   memo functions are keyed by the class; ScrapesIO._get_output_labels returns the scrape without
   storing it on the class).  Class attributes are inherited: a D that declares no
   `_output_labels` gets B's declared ones.  Whether B was previewed or instantiated before D
   ([base_first]) makes no difference. *)
Definition inherited_labels (base_first : bool) (b : fdesc) : option (list string) := f_declared b.
Definition derive (base_first : bool) (b d : fdesc) : fdesc :=
  {| f_params := f_params d; f_body := f_body d; f_ret := f_ret d;
     f_declared := match f_declared d with Some l => Some l | None => inherited_labels base_first b end;
     f_validate := f_validate d |}.

(* evaluation of a generated body (the correspondence check's instance of [sem]) *)
Fixpoint eval (env : list (string * val)) (e : rexpr) {struct e} : val :=
  match e with
  | EParam x => match sassoc x env with Some v => v | None => VNotData end
  | EConst v => v
  | ETup l => VTup ((fix go (l : list rexpr) := match l with [] => [] | x :: r => eval env x :: go r end) l)
  | ELst l => VList ((fix go (l : list rexpr) := match l with [] => [] | x :: r => eval env x :: go r end) l)
  | EIs x v a b =>
      if val_eqb (match sassoc x env with Some w => w | None => VNotData end) v then eval env a else eval env b
  end.
Definition eval_stmt (env : list (string * val)) (s : rstmt) : val :=
  match s with
  | RBare => VNone
  | RSingle e => eval env (r_expr e)
  | RTuple es => VTup (map (fun e => eval env (r_expr e)) es)
  end.
(* bodies with several returns are generated as
     if <first parameter> is None: return s1
     return s_last *)
Definition sem_of (d : fdesc) (env : list (string * val)) : val :=
  match f_body d with
  | [] => VNone
  | [s] => eval_stmt env s
  | s1 :: r =>
      let c := match env with (_, VNone) :: _ => true | [] => true | _ => false end in
      if c then eval_stmt env s1 else eval_stmt env (last r s1)
  end.

(* ================================================================================== *)
(* Part 4: transformers                                                                *)
Definition numbered (prefix : string) (i : nat) : string :=
  (prefix ++ NilZero.string_of_uint (Nat.to_uint i))%string.

(* {f"item_{i}": (None, NOT_DATA) for i in range(n)} *)
Fixpoint range_from (i n : nat) : list nat :=
  match n with 0 => [] | S n' => i :: range_from (S i) n' end.

Definition to_list_class (n : nat) : nclass :=
  {| k_inputs := map (fun i => (numbered "item_" i, (None, VNotData))) (range_from 0 n);
     k_outputs := [("list", Some (HAtoms [AListT]))];
     k_runner := RunToList; k_kind := KFromMany "list"; k_cache := true; k_factories := [] |}.

Definition from_list_class (n : nat) : nclass :=
  {| k_inputs := [("list", (Some (HAtoms [AListT]), VNotData))];
     k_outputs := map (fun i => (numbered "item_" i, None)) (range_from 0 n);
     k_runner := RunFromList n; k_kind := KToMany; k_cache := true; k_factories := [] |}.

Definition to_frame_class (n : nat) (use_cache : bool) : nclass :=
  {| k_inputs := map (fun i => (numbered "row_" i, (Some (HAtoms [ADictT]), VNotData))) (range_from 0 n);
     k_outputs := [("df", Some (HAtoms [ACls "DataFrame"]))];
     k_runner := RunToFrame; k_kind := KFromMany "df"; k_cache := use_cache; k_factories := [] |}.

Inductive dspec :=
| SNames (l : list string)                              (* list[str] *)
| SFull (l : list (string * (option hint * val))).      (* {key: (hint, default)} *)

(* dict.fromkeys(names, (None, NOT_DATA)) *)
Fixpoint fromkeys {B} (acc : list (string * B)) (ks : list string) (b : B) : list (string * B) :=
  match ks with [] => acc | k :: r => fromkeys (supd k b acc) r b end.

Definition to_dict_class (s : dspec) : nclass :=
  {| k_inputs := match s with SNames l => fromkeys [] l (None, VNotData) | SFull l => l end;
     k_outputs := [("dict", Some (HAtoms [ADictT]))];
     k_runner := RunToDict; k_kind := KFromMany "dict"; k_cache := true; k_factories := [] |}.

(* dataclass fields *)
Inductive fdefault := FRequired | FDefault (v : val) | FFactory (v : val) (* what the factory returns *).
Record field := { fd_name : string; fd_type : hint; fd_default : fdefault }.
Record dcdesc := { dc_name : string; dc_fields : list field }.

(* a class deriving from a dataclass (or from another node's `.dataclass`) and cast with
   dataclasses.dataclass -- what dataclass_node_factory does with EVERY class it is given, also
   one that already passes is_dataclass by inheritance: the fields of the base come first, a
   field the derived class declares again keeps its place with the new type and default, its
   new fields are appended in the order written *)
Fixpoint put_field (f : field) (fs : list field) : list field :=
  match fs with
  | [] => [f]
  | g :: r => if String.eqb (fd_name g) (fd_name f) then f :: r else g :: put_field f r
  end.
Definition merge_fields (parent child : list field) : list field :=
  fold_left (fun acc f => put_field f acc) child parent.

(* dataclasses.dataclass itself: "non-default argument follows default argument" *)
Fixpoint dc_order_ok (seen_default : bool) (fs : list field) : bool :=
  match fs with
  | [] => true
  | f :: r =>
      match fd_default f with
      | FRequired => negb seen_default && dc_order_ok seen_default r
      | _ => dc_order_ok true r
      end
  end.

Definition dataclass_class (d : dcdesc) (use_cache : bool) : res nclass :=
  if dc_order_ok false (dc_fields d) then
    Ok {| k_inputs := map (fun f => (fd_name f, (Some (fd_type f),
                               match fd_default f with FDefault v => v | _ => VNotData end)))
                          (dc_fields d);
          k_outputs := [("dataclass", Some (HAtoms [ACls (dc_name d)]))];
          k_runner := RunDataclass (dc_name d); k_kind := KFromMany "dataclass";
          k_cache := use_cache;
          k_factories := flat_map (fun f => match fd_default f with
                                            | FFactory v => [(fd_name f, v)] | _ => [] end)
                                  (dc_fields d) |}
  else Err TypeErr.

(* the public constructor functions, with their python signatures (use_cache is keyword-only
   in all of them and reaches the class factory; it is not part of the scenarios):
     inputs_to_list(n, /, *node_args, use_cache=True, **node_kwargs)
     list_to_outputs(n, /, *node_args, use_cache=True, **node_kwargs)
     inputs_to_dict(spec, *node_args, class_name_suffix=None, use_cache=True, **node_kwargs)
     inputs_to_dataframe(n, /, *node_args, use_cache=True, **node_kwargs)
     dataclass_node(dataclass, /, *node_args, use_cache=True, **node_kwargs) *)
Definition ctor_to_list (n : nat) pos kw := instantiate (to_list_class n) pos kw.
Definition ctor_from_list (n : nat) pos kw := instantiate (from_list_class n) pos kw.
Definition ctor_to_dict (s : dspec) pos kw := instantiate (to_dict_class s) pos kw.
Definition ctor_to_frame (n : nat) (pos : list val) kw := instantiate (to_frame_class n true) pos kw.
Definition ctor_dataclass (d : dcdesc) (pos : list val) kw :=
  match dataclass_class d true with
  | Ok k => instantiate k pos kw
  | Err e => Err e
  end.

(* ================================================================================== *)
(* Part 5: the reference -- python's own binding, and "call the definition"            *)

(* Binding of f( *pos, **kw) for a signature of positional-or-keyword parameters, before
   defaults: parameter by parameter, positional arguments first, left to right; TypeError
   (None) for too many positionals, multiple values for one parameter, unexpected keywords *)
Fixpoint py_fill (params : list string) (pos : list val) (kw : list (string * val))
  : option (list (string * option val)) :=
  match params with
  | [] => match pos with [] => Some [] | _ :: _ => None end
  | x :: ps =>
      match pos with
      | v :: pos' =>
          if mems x (keys kw) then None
          else option_map (cons (x, Some v)) (py_fill ps pos' kw)
      | [] => option_map (cons (x, sassoc x kw)) (py_fill ps [] kw)
      end
  end.
Definition py_bind (params : list string) (pos : list val) (kw : list (string * val)) :=
  if forallb (fun k => mems k params) (keys kw) then py_fill params pos kw else None.

(* an environment updated by a partial binding: an argument that was given replaces, by
   name, what is there *)
Definition override (env : list (string * val)) (b : list (string * option val)) : list (string * val) :=
  map (fun xo => (fst xo, match sassoc (fst xo) b with Some (Some v) => v | _ => snd xo end)) env.

Definition all_data (env : list (string * val)) : bool := forallb (fun kv => is_data (snd kv)) env.

Section Reference.
  Variable F : list (string * val) -> val.     (* the definition, on complete keyword arguments *)
  (* one python-level call against the accumulated arguments: the new accumulated arguments
     and what calling the definition with them gives (None: python raises) *)
  Definition ref_call (env : list (string * val)) (pos : list val) (kw : list (string * val))
    : list (string * val) * option val :=
    match py_bind (keys env) pos kw with
    | None => (env, None)
    | Some b =>
        let env' := override env b in
        (env', if all_data env' then Some (F env') else None)   (* missing argument: TypeError *)
    end.
  (* a history of calls *)
  Fixpoint ref_run (env : list (string * val)) (ops : list (list val * list (string * val)))
    : list (list (string * val) * option val) :=
    match ops with
    | [] => []
    | (pos, kw) :: r => let (env', o) := ref_call env pos kw in (env', o) :: ref_run env' r
    end.
End Reference.

(* the dataclass's own constructor DC( *pos, **kw): defaults and factories for what is not given *)
Definition dc_defaults (d : dcdesc) : list (string * val) :=
  map (fun f => (fd_name f, match fd_default f with
                            | FRequired => VNotData | FDefault v => v | FFactory v => v end))
      (dc_fields d).
Definition dc_construct (d : dcdesc) (pos : list val) (kw : list (string * val)) : option val :=
  match py_bind (map fd_name (dc_fields d)) pos kw with
  | None => None
  | Some b => let env := override (dc_defaults d) b in
              if all_data env then Some (VMap (dc_name d) env) else None
  end.

(* ================================================================================== *)
(* Part 6: printing                                                                    *)
Fixpoint oval (v : val) : obs :=
  match v with
  | VNotData => OL [OS "nd"]
  | VNone => OL [OS "n"]
  | VInt z => OL [OS "i"; OZ z]
  | VStr s => OL [OS "s"; OS s]
  | VTup l => OL [OS "t"; OL ((fix go (l : list val) := match l with [] => [] | x :: r => oval x :: go r end) l)]
  | VList l => OL [OS "l"; OL ((fix go (l : list val) := match l with [] => [] | x :: r => oval x :: go r end) l)]
  | VMap t kv =>
      OL [OS "m"; OS t;
          OL ((fix go (l : list (string * val)) :=
                 match l with [] => [] | (k, x) :: r => OL [OS k; oval x] :: go r end) kv)]
  end.

Definition atom_name (a : atom) : string :=
  match a with
  | AInt => "int" | AStr => "str" | ANoneT => "NoneType" | AListT => "list" | ATupleT => "tuple"
  | ADictT => "dict" | ACls n => n
  end.
Definition ohint (h : option hint) : obs :=
  match h with
  | None => OL []
  | Some (HAtoms u) => OL [OS "u"; OL (map (fun a => OS (atom_name a)) u)]
  | Some (HTuple items) => OL [OS "t"; OL (map (fun u => OL (map (fun a => OS (atom_name a)) u)) items)]
  | Some (HText s) => OL [OS "x"; OS s]
  end.

Definition oclass (k : nclass) : obs :=
  OL [OL (map (fun e => OL [OS (fst e); ohint (fst (snd e)); oval (snd (snd e))]) (k_inputs k));
      OL (map (fun e => OL [OS (fst e); ohint (snd e)]) (k_outputs k))].
Definition ochans (cs : list chan) : obs :=
  OL (map (fun c => OL [OS (c_label c); ohint (c_hint c); oval (c_value c)]) cs).
Definition onode (n : node) : obs := OL [ochans (n_in n); ochans (n_out n); ob (n_failed n)].
Definition ores (r : res val) : obs :=
  match r with Ok v => OL [OS "ok"; oval v] | Err e => OL [OS "err"; OS (exc_name e)] end.

(* a whole scenario: class creation, construction with the first argument split, then calls *)
Definition oscenario (sem : list (string * val) -> val) (mk : res nclass)
  (inst : nclass -> res node) (ops : list (list val * list (string * val))) : obs :=
  match mk with
  | Err e => OL [OL [OS "err"; OS (exc_name e)]]
  | Ok k =>
      match inst k with
      | Err e => OL [OL [OS "ok"; oclass k]; OL [OS "err"; OS (exc_name e)]]
      | Ok n =>
          OL (OL [OS "ok"; oclass k] :: OL [OS "ok"; onode n]
              :: map (fun nx => OL [ores (snd nx); onode (fst nx)]) (calls sem n ops))
      end
  end.
