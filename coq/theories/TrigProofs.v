(* TrigProofs.v -- the all-of trigger fires exactly when its round is complete. *)
From PW Require Import Base Trig.

(* the specification, phrased over emitter IDENTITIES and the arrivals since the last fire/reset *)
Definition round_complete (conns arr : list emitter) : bool :=
  forallb (fun c => memb emitter_eqb c arr) conns.

Fixpoint trig_spec (conns arr : list emitter) (ops : list top) : list bool :=
  match ops with
  | [] => []
  | Arrive e :: r =>
      let arr' := e :: arr in
      if round_complete conns arr' then true :: trig_spec conns [] r else false :: trig_spec conns arr' r
  | Bare :: r =>
      if round_complete conns arr then true :: trig_spec conns [] r else false :: trig_spec conns arr r
  | Connect e :: r => false :: trig_spec (if memb emitter_eqb e conns then conns else e :: conns) arr r
  | Disconnect e :: r => false :: trig_spec (remove1 emitter_eqb e conns) arr r
  | Reset :: r => false :: trig_spec conns [] r
  end.

Definition op_emitters (o : top) : list emitter :=
  match o with Arrive e | Connect e | Disconnect e => [e] | _ => [] end.

(* scoped labels identify emitters: what sibling-label uniqueness gives inside one parent *)
Definition keys_faithful (U : list emitter) : Prop :=
  forall a b, In a U -> In b U -> (e_key a = e_key b <-> e_id a = e_id b).

Definition linked (s : acc) (conns arr : list emitter) : Prop :=
  a_conns s = conns /\ forall k, mems k (a_recv s) = true <-> exists e, In e arr /\ e_key e = k.

Lemma memb_emitter x l : memb emitter_eqb x l = true <-> exists y, In y l /\ e_id x = e_id y.
Proof.
  induction l as [|z r IH]; cbn; [split; [discriminate|intros [y [[] _]]]|].
  rewrite orb_true_iff, IH. unfold emitter_eqb. rewrite Nat.eqb_eq. split.
  - intros [H|[y [Hy E]]]; [exists z; auto | exists y; auto].
  - intros [y [[<-|Hy] E]]; [left; exact E | right; exists y; auto].
Qed.

Lemma remove1_subset {A} eqb (x : A) l y : In y (remove1 eqb x l) -> In y l.
Proof. induction l as [|z r IH]; cbn; [tauto|]. destruct (eqb x z); cbn; intuition. Qed.

Lemma forallb_ext_in {A} (f g : A -> bool) l : (forall x, In x l -> f x = g x) -> forallb f l = forallb g l.
Proof. induction l as [|a r IH]; cbn; intros H; [reflexivity|]. rewrite H, IH; auto. Qed.

Lemma complete_spec U s conns arr : keys_faithful U -> linked s conns arr ->
  (forall e, In e conns -> In e U) -> (forall e, In e arr -> In e U) ->
  complete s = round_complete conns arr.
Proof.
  intros KF [Hc Hr] HcU HaU. unfold complete, round_complete. rewrite Hc.
  apply forallb_ext_in. intros c Hcin.
  apply eq_true_iff_eq. rewrite Hr, memb_emitter. split.
  - intros [e [He Hk]]. exists e. split; [exact He|].
    apply (proj1 (KF c e (HcU _ Hcin) (HaU _ He))). symmetry. exact Hk.
  - intros [e [He Hid]]. exists e. split; [exact He|]. symmetry.
    apply (proj2 (KF c e (HcU _ Hcin) (HaU _ He))). exact Hid.
Qed.

Theorem allof_fires_iff_round_complete U : keys_faithful U ->
  forall ops s conns arr, linked s conns arr ->
  (forall e, In e conns -> In e U) -> (forall e, In e arr -> In e U) ->
  (forall o e, In o ops -> In e (op_emitters o) -> In e U) ->
  snd (trun s ops) = trig_spec conns arr ops.
Proof.
  intros KF. induction ops as [|o r IH]; intros s conns arr L HcU HaU HoU; [reflexivity|].
  assert (HrU : forall o e, In o r -> In e (op_emitters o) -> In e U) by (intros; eapply HoU; [right|]; eauto).
  destruct o as [e| |e|e|]; cbn [trun tstep trig_spec].
  - (* Arrive *)
    assert (He : In e U) by (apply (HoU (Arrive e)); cbn; auto).
    unfold acc_call.
    set (s1 := {| a_conns := a_conns s; a_recv := if mems (e_key e) (a_recv s) then a_recv s else e_key e :: a_recv s |}).
    assert (L1 : linked s1 conns (e :: arr)).
    { destruct L as [Hc Hr]. split; [exact Hc|]. intros k. cbn [s1 a_recv].
      destruct (mems (e_key e) (a_recv s)) eqn:Em.
      - rewrite Hr. split.
        + intros [x [Hx Hk]]. exists x. split; [right; exact Hx|exact Hk].
        + intros [x [[<-|Hx] Hk]]; [subst k; apply Hr; exact Em | exists x; auto].
      - cbn [mems memb]. rewrite orb_true_iff, String.eqb_eq. fold (mems k (a_recv s)). rewrite Hr. split.
        + intros [->|[x [Hx Hk]]]; [exists e; cbn; auto | exists x; cbn; auto].
        + intros [x [[<-|Hx] Hk]]; [left; auto | right; exists x; auto]. }
    assert (HaU1 : forall x, In x (e :: arr) -> In x U) by (intros x [<-|Hx]; auto).
    rewrite (complete_spec U s1 conns (e :: arr) KF L1 HcU HaU1).
    destruct (round_complete conns (e :: arr)).
    + destruct (trun _ r) as [s2 fs] eqn:E. cbn. f_equal.
      change fs with (snd (s2, fs)). rewrite <- E. apply IH; auto.
      * destruct L1 as [Hc _]. split; [exact Hc|]. intros k. cbn. split; [discriminate|intros [x [[] _]]].
      * intros x [].
    + destruct (trun s1 r) as [s2 fs] eqn:E. cbn. f_equal.
      change fs with (snd (s2, fs)). rewrite <- E. apply IH; auto.
  - (* Bare *)
    unfold acc_call. rewrite (complete_spec U s conns arr KF L HcU HaU).
    destruct (round_complete conns arr).
    + destruct (trun _ r) as [s2 fs] eqn:E. cbn. f_equal.
      change fs with (snd (s2, fs)). rewrite <- E. apply IH; auto.
      * destruct L as [Hc _]. split; [exact Hc|]. intros k. cbn. split; [discriminate|intros [x [[] _]]].
      * intros x [].
    + destruct (trun s r) as [s2 fs] eqn:E. cbn. f_equal.
      change fs with (snd (s2, fs)). rewrite <- E. apply IH; auto.
  - (* Connect *)
    assert (He : In e U) by (apply (HoU (Connect e)); cbn; auto).
    destruct L as [Hc Hr]. rewrite Hc.
    destruct (trun _ r) as [s2 fs] eqn:E. cbn. f_equal.
    change fs with (snd (s2, fs)). rewrite <- E. apply IH; auto.
    + destruct (memb emitter_eqb e conns); split; auto.
    + intros x Hx. destruct (memb emitter_eqb e conns); [auto|]. destruct Hx as [<-|Hx]; auto.
  - (* Disconnect *)
    destruct L as [Hc Hr]. rewrite Hc.
    destruct (trun _ r) as [s2 fs] eqn:E. cbn. f_equal.
    change fs with (snd (s2, fs)). rewrite <- E. apply IH; auto.
    + split; auto.
    + intros x Hx. apply HcU. eapply remove1_subset; eauto.
  - (* Reset *)
    destruct L as [Hc Hr].
    destruct (trun _ r) as [s2 fs] eqn:E. cbn. f_equal.
    change fs with (snd (s2, fs)). rewrite <- E. apply IH; auto.
    + split; [exact Hc|]. intros k. cbn. split; [discriminate|intros [x [[] _]]].
    + intros x [].
Qed.

(* after firing, the received set is empty: a fresh round *)
Theorem allof_fresh s o s' : tstep s o = (s', true) -> a_recv s' = [].
Proof.
  destruct o; cbn; unfold acc_call; try (intros H; inversion H; fail).
  - destruct (complete _); intros H; inversion H; reflexivity.
  - destruct (complete _); intros H; inversion H; reflexivity.
Qed.

Theorem anyof_once_per_call calls : List.length (filter (fun b => b) (anyof_call calls)) = List.length calls.
Proof. unfold anyof_call. induction calls; cbn; auto. Qed.
