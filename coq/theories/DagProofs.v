(* DagProofs.v -- C01: the edge-token invariant and its consequences. *)
From PW Require Import Base Dag.
Set Implicit Arguments.

Section DagProofs.
Variable N : nat.
Variable ups : nat -> list nat.
Variable sem : nat -> (nat -> Z) -> Z.
Variable remote : nat -> bool.

(* acyclicity (topological numbering) and distinct upstream owners *)
Hypothesis ups_lt : forall n u, In u (ups n) -> u < n.
Hypothesis ups_nodup : forall n, NoDup (ups n).
(* a node function only reads the outputs of its upstream nodes *)
Hypothesis sem_local : forall n e e', (forall u, In u (ups n) -> e u = e' u) -> sem n e = sem n e'.

Notation state := (state).
Notation finish := (finish N ups sem).
Notation fire := (@fire).
Notation start := (start N ups sem remote).
Notation deliver := (deliver N ups sem remote).
Notation complete := (complete N ups sem).
Notation step := (step N ups sem remote).
Notation run := (run N ups sem remote).
Notation downs := (downs N ups).
Notation init := (init N ups sem remote).

Definition pair_dec : forall a b : nat * nat, {a = b} + {a <> b}.
Proof. decide equality; apply Nat.eq_dec. Defined.
Definition cnt (e : nat * nat) (l : list (nat * nat)) := count_occ pair_dec l e.
Definition b2n (b : bool) := if b then 1 else 0.
Definition isDone (x : st) := st_eqb x Done.
Definition notIdle (x : st) := negb (st_eqb x Idle).

Definition before (a b : logev) (l : list logev) : Prop :=
  exists l1 l2, l = l1 ++ b :: l2 /\ In a l1.

Record Inv_ (ex : option nat) (s : state) : Prop := {
  inv_edge : forall n u, n < N -> In u (ups n) ->
     cnt (u, n) (pend s) + b2n (memn u (recv s n)) + b2n (notIdle (status s n)) = b2n (isDone (status s u));
  inv_pend : forall u n, In (u, n) (pend s) -> n < N /\ In u (ups n);
  inv_recv : forall n u, In u (recv s n) -> In u (ups n);
  (* an idle node's trigger is incomplete ([ex]: the node whose trigger is being served) *)
  inv_wait : forall n, n < N -> ex <> Some n -> status s n = Idle -> ups n <> [] ->
     forallb (fun x => memn x (recv s n)) (ups n) = false;
  inv_range : forall n, N <= n -> status s n = Idle;
  (* logs mirror the statuses; each node starts / finishes at most once *)
  inv_ls : forall n, In (LStart n) (log s) <-> status s n <> Idle;
  inv_lf : forall n, In (LFinish n) (log s) <-> status s n = Done;
  inv_nodup_s : forall l1 l2 n, log s = l1 ++ LStart n :: l2 -> ~ In (LStart n) l1 /\ ~ In (LStart n) l2;
  inv_nodup_f : forall l1 l2 n, log s = l1 ++ LFinish n :: l2 -> ~ In (LFinish n) l1 /\ ~ In (LFinish n) l2;
  (* finish-before-start along every data edge *)
  inv_order : forall n u, In u (ups n) -> In (LStart n) (log s) -> before (LFinish u) (LStart n) (log s);
  (* outputs of finished nodes are the node function of the upstream outputs *)
  inv_val : forall n, status s n = Done -> out s n = sem n (out s) /\ forall u, In u (ups n) -> status s u = Done;
}.
Notation Inv := (Inv_ None).

Lemma updf_same {A} (f : nat -> A) k v : updf f k v k = v.
Proof. unfold updf. now rewrite Nat.eqb_refl. Qed.
Lemma updf_other {A} (f : nat -> A) k v x : x <> k -> updf f k v x = f x.
Proof. unfold updf. intros H. apply Nat.eqb_neq in H. now rewrite H. Qed.

Lemma cnt_app e l m : cnt e (l ++ m) = cnt e l + cnt e m.
Proof. unfold cnt. apply count_occ_app. Qed.

Lemma downs_spec n m : In m (downs n) <-> m < N /\ In n (ups m).
Proof. unfold Dag.downs. rewrite <- in_rev, filter_In, in_seq, memn_In. split; intros [A B]; split; auto; lia. Qed.
Lemma downs_nodup n : NoDup (downs n).
Proof. unfold Dag.downs. apply NoDup_rev, NoDup_filter, seq_NoDup. Qed.

Lemma cnt_map_pairs u n k (l : list nat) : NoDup l ->
  cnt (u, n) (map (fun m => (k, m)) l) = if Nat.eqb u k then b2n (memn n l) else 0.
Proof.
  unfold cnt. induction l as [|m l IH]; intros ND; cbn [map count_occ].
  - destruct (Nat.eqb u k); reflexivity.
  - inversion ND as [|? ? Hnot ND']; subst. specialize (IH ND').
    unfold memn in *. cbn [memb].
    destruct (pair_dec (k, m) (u, n)) as [E|E].
    + inversion E; subst. rewrite Nat.eqb_refl in *. cbn [orb b2n].
      destruct (memb Nat.eqb n l) eqn:Hm.
      * exfalso. apply Hnot. apply memn_In. exact Hm.
      * rewrite IH. rewrite Nat.eqb_refl. reflexivity.
    + rewrite IH. destruct (Nat.eqb u k) eqn:Euk; [|reflexivity].
      apply Nat.eqb_eq in Euk; subst.
      destruct (Nat.eqb n m) eqn:Enm; [apply Nat.eqb_eq in Enm; subst; congruence|]. reflexivity.
Qed.
Lemma cnt_map_downs u n k :
  cnt (u, n) (map (fun m => (k, m)) (downs k)) = if Nat.eqb u k then b2n (memn n (downs k)) else 0.
Proof. apply cnt_map_pairs, downs_nodup. Qed.

Lemma before_app a b l x : before a b l -> before a b (l ++ x).
Proof. intros [l1 [l2 [E H]]]. exists l1, (l2 ++ x). subst. rewrite <- app_assoc. split; auto. Qed.

Lemma snoc_split {A} (l : list A) x l1 l2 y : l ++ [x] = l1 ++ y :: l2 ->
  (exists l2', l2 = l2' ++ [x] /\ l = l1 ++ y :: l2') \/ (l2 = [] /\ l = l1 /\ x = y).
Proof.
  revert l1. induction l as [|a l IH]; intros [|b l1] E; cbn in *.
  - inversion E; subst. right; auto.
  - inversion E; subst. destruct l1; discriminate.
  - inversion E; subst. left. exists l. auto.
  - inversion E; subst. destruct (IH l1 H1) as [[l2' [E2 E3]]|[E2 [E3 E4]]].
    + left. exists l2'. split; auto. now rewrite E3.
    + right. subst. auto.
Qed.

Lemma in_snoc {A} (x y : A) l : In x (l ++ [y]) <-> In x l \/ x = y.
Proof. rewrite in_app_iff. cbn. intuition. Qed.

(* ---- finish preserves the invariant --------------------------------------------------- *)
Lemma finish_inv ex s n : Inv_ ex s -> n < N -> status s n = Out -> (forall u, In u (ups n) -> status s u = Done) ->
  Inv_ ex (finish s n).
Proof.
  intros [He Hp Hr Hw Hrg Hls Hlf Hns Hnf Hord Hval] Hn Hs Hups.
  constructor; cbn [Dag.finish status recv pend out log].
  - intros m u Hm Hu. rewrite cnt_app, cnt_map_downs.
    specialize (He m u Hm Hu).
    assert (u < m) by (apply ups_lt; exact Hu).
    destruct (Nat.eq_dec u n) as [->|Hun].
    + rewrite Nat.eqb_refl, updf_same.
      assert (m <> n) by lia. rewrite updf_other by assumption.
      rewrite Hs in He. cbn in He.
      assert (memn m (downs n) = true) as -> by (apply memn_In, downs_spec; auto).
      cbn. cbn in He. lia.
    + assert (Nat.eqb u n = false) as -> by (apply Nat.eqb_neq; exact Hun).
      rewrite (updf_other _ _ Hun).
      destruct (Nat.eq_dec m n) as [->|Hmn].
      * rewrite updf_same. rewrite Hs in He. cbn in *. lia.
      * rewrite (updf_other _ _ Hmn). lia.
  - intros u m Hin. apply in_app_or in Hin as [Hin|Hin]; [apply Hp; exact Hin|].
    apply in_map_iff in Hin as [x [E Hx]]. inversion E; subst. apply downs_spec in Hx. exact Hx.
  - exact Hr.
  - intros m Hm Hex Hst Hne. destruct (Nat.eq_dec m n) as [->|Hmn].
    + rewrite updf_same in Hst. discriminate.
    + rewrite (updf_other _ _ Hmn) in Hst. apply Hw; assumption.
  - intros m Hm. assert (m <> n) by lia. rewrite updf_other by assumption. apply Hrg; exact Hm.
  - intros m. rewrite in_snoc. destruct (Nat.eq_dec m n) as [->|Hmn].
    + rewrite updf_same. split; [discriminate|]. intros _. left. apply Hls. rewrite Hs. discriminate.
    + rewrite (updf_other _ _ Hmn). rewrite Hls. split; [intros [H|H]; [exact H|discriminate]|auto].
  - intros m. rewrite in_snoc. destruct (Nat.eq_dec m n) as [->|Hmn].
    + rewrite updf_same. split; auto.
    + rewrite (updf_other _ _ Hmn). rewrite Hlf. split; [intros [H|H]; [exact H|congruence]|auto].
  - intros l1 l2 m E. apply snoc_split in E. destruct E as [[l2' [-> E]]|[-> [E E']]]; [|discriminate].
    destruct (Hns _ _ _ E) as [A B]. split; [exact A|]. rewrite in_snoc. intros [H|H]; [auto|discriminate].
  - intros l1 l2 m E. apply snoc_split in E. destruct E as [[l2' [-> E]]|[-> [E E']]].
    + destruct (Hnf _ _ _ E) as [A B]. split; [exact A|]. rewrite in_snoc. intros [H|H]; [auto|].
      inversion H; subst m. assert (status s n = Done) by (apply Hlf; rewrite E; apply in_elt). congruence.
    + inversion E'; subst m l1. split; [|intros []]. intros H. apply Hlf in H. congruence.
  - intros m u Hu Hin. apply in_snoc in Hin. destruct Hin as [Hin|Hin]; [|discriminate].
    apply before_app. apply Hord; assumption.
  - intros m Hst. destruct (Nat.eq_dec m n) as [->|Hmn].
    + rewrite updf_same. split.
      * apply sem_local. intros u Hu. assert (u <> n) by (apply ups_lt in Hu; lia).
        now rewrite updf_other.
      * intros u Hu. assert (u <> n) by (apply ups_lt in Hu; lia). rewrite updf_other by assumption. auto.
    + rewrite (updf_other _ _ Hmn) in Hst. destruct (Hval m Hst) as [Hv Hu]. rewrite (updf_other _ _ Hmn). split.
      * rewrite Hv. apply sem_local. intros u Hu'.
        destruct (Nat.eq_dec u n) as [->|Hun]; [specialize (Hu n Hu'); congruence|]. now rewrite updf_other.
      * intros u Hu'. destruct (Nat.eq_dec u n) as [->|Hun]; [apply updf_same|]. rewrite updf_other by assumption. auto.
Qed.

Lemma cnt_pos e l : In e l -> cnt e l >= 1.
Proof. intros H. unfold cnt. apply (count_occ_In pair_dec) in H. lia. Qed.
Lemma cnt_remove_nth e e' i l : nth_error l i = Some e ->
  cnt e' (remove_nth i l) + (if pair_dec e e' then 1 else 0) = cnt e' l.
Proof.
  unfold cnt. revert i. induction l as [|x l IH]; intros [|i] H; cbn in *; try discriminate.
  - inversion H; subst. destruct (pair_dec e e'); lia.
  - specialize (IH i H). destruct (pair_dec x e'); lia.
Qed.
Lemma in_remove_nth {A} (x : A) i l : In x (remove_nth i l) -> In x l.
Proof. revert i; induction l as [|y l IH]; intros [|i] H; cbn in *; auto. destruct H; auto. right; eauto. Qed.
Lemma forallb_memn l r : forallb (fun x => memn x r) l = true <-> (forall x, In x l -> In x r).
Proof. rewrite forallb_forall. split; intros H x Hx; specialize (H x Hx); apply memn_In; exact H. Qed.

(* a node whose trigger has every upstream in its received set may fire *)
Lemma fire_inv s n : Inv_ (Some n) s -> n < N -> status s n = Idle ->
  (forall u, In u (ups n) -> status s u = Done /\ cnt (u, n) (pend s) = 0) ->
  Inv (fire s n) /\ status (fire s n) n = Out /\ (forall u, In u (ups n) -> status (fire s n) u = Done).
Proof.
  intros [He Hp Hr Hw Hrg Hls Hlf Hns Hnf Hord Hval] Hn Hidle Hups.
  split; [|split; [cbn; apply updf_same | intros u Hu; cbn; assert (u <> n) by (apply ups_lt in Hu; lia);
                                          rewrite updf_other by assumption; apply Hups; exact Hu]].
  constructor; cbn [Dag.fire status recv pend out log].
  - intros m v Hm Hv. pose proof (He m v Hm Hv) as Hmv.
    destruct (Nat.eq_dec m n) as [->|Hmn].
    + rewrite !updf_same. cbn [memn memb b2n notIdle st_eqb negb].
      assert (v <> n) by (apply ups_lt in Hv; lia). rewrite (updf_other _ _ H).
      destruct (Hups v Hv) as [Hd Hc]. rewrite Hd, Hc. reflexivity.
    + rewrite !(updf_other _ _ Hmn).
      destruct (Nat.eq_dec v n) as [->|Hvn].
      * rewrite updf_same. rewrite Hidle in Hmv. cbn in *. lia.
      * rewrite (updf_other _ _ Hvn). lia.
  - exact Hp.
  - intros m v. destruct (Nat.eq_dec m n) as [->|Hmn]; [rewrite updf_same; intros []|].
    rewrite (updf_other _ _ Hmn). apply Hr.
  - intros m Hm _ Hst Hne. destruct (Nat.eq_dec m n) as [->|Hmn]; [rewrite updf_same in Hst; discriminate|].
    rewrite (updf_other _ _ Hmn) in Hst. rewrite (updf_other _ _ Hmn). apply Hw; try assumption. congruence.
  - intros m Hm. assert (m <> n) by lia. rewrite updf_other by assumption. apply Hrg; exact Hm.
  - intros m. rewrite in_snoc. destruct (Nat.eq_dec m n) as [->|Hmn].
    + rewrite updf_same. split; [discriminate|auto].
    + rewrite (updf_other _ _ Hmn). rewrite Hls. split; [intros [H|H]; [exact H|congruence]|auto].
  - intros m. rewrite in_snoc. destruct (Nat.eq_dec m n) as [->|Hmn].
    + rewrite updf_same. rewrite Hlf. split; [intros [H|H]; [congruence|discriminate]|discriminate].
    + rewrite (updf_other _ _ Hmn). rewrite Hlf. split; [intros [H|H]; [exact H|discriminate]|auto].
  - intros l1 l2 m E. apply snoc_split in E. destruct E as [[l2' [-> E]]|[-> [E E']]].
    + destruct (Hns _ _ _ E) as [A B]. split; [exact A|]. rewrite in_snoc. intros [H|H]; [auto|].
      inversion H; subst m. assert (status s n <> Idle) by (apply Hls; rewrite E; apply in_elt). congruence.
    + inversion E'; subst m l1. split; [|intros []]. intros H. apply Hls in H. congruence.
  - intros l1 l2 m E. apply snoc_split in E. destruct E as [[l2' [-> E]]|[-> [E E']]]; [|discriminate].
    destruct (Hnf _ _ _ E) as [A B]. split; [exact A|]. rewrite in_snoc. intros [H|H]; [auto|discriminate].
  - intros m u Hu Hin. apply in_snoc in Hin. destruct Hin as [Hin|Hin].
    + apply before_app. apply Hord; assumption.
    + inversion Hin; subst m. exists (log s), []. split; [reflexivity|].
      apply Hlf. apply Hups. exact Hu.
  - intros m Hst. destruct (Nat.eq_dec m n) as [->|Hmn]; [rewrite updf_same in Hst; discriminate|].
    rewrite (updf_other _ _ Hmn) in Hst. destruct (Hval m Hst) as [Hv Hu]. split; [exact Hv|].
    intros u Hu'. destruct (Nat.eq_dec u n) as [->|Hun]; [specialize (Hu n Hu'); congruence|].
    rewrite updf_other by assumption. auto.
Qed.

Lemma start_inv s n : Inv_ (Some n) s -> n < N -> status s n = Idle ->
  (forall u, In u (ups n) -> status s u = Done /\ cnt (u, n) (pend s) = 0) -> Inv (start s n).
Proof.
  intros HI Hn Hidle Hups. destruct (fire_inv HI Hn Hidle Hups) as [Hf [Ho Hd]].
  unfold Dag.start. destruct (remote n); [exact Hf|]. apply finish_inv; assumption.
Qed.

Lemma deliver_inv s i s' : Inv s -> deliver s i = Some s' -> Inv s'.
Proof.
  intros HI Hd. pose proof HI as [He Hp Hr Hw Hrg Hls Hlf Hns Hnf Hord Hval]. unfold Dag.deliver in Hd.
  destruct (nth_error (pend s) i) as [[u n]|] eqn:Hnth; [|discriminate].
  assert (Hin : In (u, n) (pend s)) by (eapply nth_error_In; eauto).
  destruct (Hp _ _ Hin) as [Hn Hu].
  pose proof (He n u Hn Hu) as Heq. pose proof (cnt_pos _ _ Hin) as Hc.
  assert (Hmu : memn u (recv s n) = false).
  { destruct (memn u (recv s n)); [cbn in Heq; destruct (isDone (status s u)); cbn in Heq; lia | reflexivity]. }
  assert (Hidle : status s n = Idle).
  { destruct (status s n) eqn:E; [reflexivity| |]; cbn in Heq; destruct (isDone (status s u)); cbn in Heq; lia. }
  set (r := u :: recv s n) in *.
  set (s1 := {| status := status s; recv := updf (recv s) n r; pend := remove_nth i (pend s); out := out s;
                log := log s |}) in *.
  (* the intermediate state s1 satisfies the invariant, except that n's trigger may now be complete *)
  assert (HI1 : Inv_ (Some n) s1).
  { constructor; cbn [s1 status recv pend out log]; auto.
    - intros m v Hm Hv. pose proof (@cnt_remove_nth (u, n) (v, m) i (pend s) Hnth) as Hrm.
      pose proof (He m v Hm Hv) as Hmv.
      destruct (Nat.eq_dec m n) as [->|Hmn].
      + rewrite updf_same. subst r. cbn [memn memb].
        destruct (pair_dec (u, n) (v, n)) as [E|E].
        { inversion E; subst. rewrite Nat.eqb_refl. cbn. rewrite Hmu in Hmv. cbn in Hmv. lia. }
        assert (Nat.eqb v u = false) as -> by (apply Nat.eqb_neq; congruence). cbn [orb].
        fold (memn v (recv s n)). lia.
      + rewrite (updf_other _ _ Hmn).
        destruct (pair_dec (u, n) (v, m)) as [E|E]; [inversion E; congruence|]. lia.
    - intros a b Hab. apply Hp. eapply in_remove_nth; eauto.
    - intros m v. destruct (Nat.eq_dec m n) as [->|Hmn].
      + rewrite updf_same. subst r. intros [<-|H]; [exact Hu|apply Hr; exact H].
      + rewrite (updf_other _ _ Hmn). apply Hr.
    - intros m Hm Hex Hst Hne. destruct (Nat.eq_dec m n) as [->|Hmn]; [congruence|].
      rewrite (updf_other _ _ Hmn). apply Hw; try assumption. discriminate. }
  destruct (forallb (fun x => memn x r) (ups n)) eqn:Hall; inversion Hd; subst s'; clear Hd.
  - (* the trigger is complete: n fires *)
    apply start_inv; auto.
    intros v Hv.
    pose proof (@inv_edge _ _ HI1 n v Hn Hv) as Hv1. cbn [s1 status recv pend] in Hv1. rewrite updf_same in Hv1.
    apply forallb_memn with (x := v) in Hall; [|exact Hv]. apply memn_In in Hall.
    rewrite Hall, Hidle in Hv1. cbn in Hv1.
    cbn [s1 status pend]. destruct (status s v); cbn in Hv1; try lia. split; [reflexivity|lia].
  - (* still waiting *)
    destruct HI1 as [He1 Hp1 Hr1 Hw1 Hrg1 Hls1 Hlf1 Hns1 Hnf1 Hord1 Hval1].
    constructor; auto.
    intros m Hm _ Hst Hne. destruct (Nat.eq_dec m n) as [->|Hmn].
    + cbn [s1 recv]. rewrite updf_same. exact Hall.
    + apply Hw1; auto. congruence.
Qed.

Lemma inv_weaken s n : Inv s -> Inv_ (Some n) s.
Proof. intros [He Hp Hr Hw Hrg Hls Hlf Hns Hnf Hord Hval]. constructor; auto. intros m Hm _. apply Hw; auto. discriminate. Qed.

Lemma out_ups_done ex s n : Inv_ ex s -> n < N -> status s n = Out -> forall u, In u (ups n) -> status s u = Done.
Proof.
  intros HI Hn Hs u Hu. pose proof (@inv_edge _ _ HI n u Hn Hu) as He. rewrite Hs in He. cbn in He.
  destruct (status s u); cbn in He; try lia. reflexivity.
Qed.

Lemma complete_inv s n s' : Inv s -> complete s n = Some s' -> Inv s'.
Proof.
  intros HI Hc. unfold Dag.complete in Hc.
  destruct (Nat.ltb n N) eqn:Hn; [|discriminate]. apply Nat.ltb_lt in Hn.
  destruct (status s n) eqn:Hs; cbn in Hc; try discriminate. inversion Hc; subst.
  apply finish_inv; auto. eapply out_ups_done; eauto.
Qed.

Lemma step_inv s e s' : Inv s -> step s e = Some s' -> Inv s'.
Proof. destruct e; cbn; [apply deliver_inv | apply complete_inv]. Qed.

Lemma run_inv es : forall s s', Inv s -> run s es = Some s' -> Inv s'.
Proof.
  induction es as [|e es IH]; cbn; intros s s' HI H; [inversion H; subst; exact HI|].
  destruct (step s e) as [s1|] eqn:E; [|discriminate]. eapply IH; [eapply step_inv; eauto|exact H].
Qed.

(* ---- the log only grows ------------------------------------------------------------------ *)
Lemma start_log s n : exists l, log (start s n) = log s ++ LStart n :: l.
Proof. unfold Dag.start. destruct (remote n); cbn; [exists []; reflexivity|]. exists [LFinish n]. rewrite <- app_assoc. reflexivity. Qed.

Lemma step_log s e s' : step s e = Some s' -> exists l, log s' = log s ++ l.
Proof.
  destruct e as [i|n]; cbn.
  - unfold Dag.deliver. destruct (nth_error (pend s) i) as [[u m]|]; [|discriminate].
    destruct (forallb _ _); intros H; inversion H; subst.
    + match goal with |- context [start ?x m] => destruct (start_log x m) as [l Hl] end.
      rewrite Hl. cbn. eexists; reflexivity.
    + exists []. cbn. now rewrite app_nil_r.
  - unfold Dag.complete. destruct (_ && _); [|discriminate]. intros H; inversion H; subst. cbn. eexists; reflexivity.
Qed.

Lemma run_log es : forall s s', run s es = Some s' -> exists l, log s' = log s ++ l.
Proof.
  induction es as [|e es IH]; cbn; intros s s' H; [inversion H; subst; exists []; now rewrite app_nil_r|].
  destruct (step s e) as [s1|] eqn:E; [|discriminate].
  destruct (step_log _ _ E) as [l1 H1]. destruct (IH _ _ H) as [l2 H2]. exists (l1 ++ l2). rewrite H2, H1. now rewrite app_assoc.
Qed.

(* ---- initial state: the starting nodes (= nodes without upstream), in any order ---------- *)
Lemma empty_inv : Inv (empty).
Proof.
  constructor; cbn.
  - intros n u _ _. reflexivity.
  - intros u n [].
  - intros n u [].
  - intros n _ _ _ Hne. destruct (ups n); [congruence|reflexivity].
  - reflexivity.
  - intros n. split; [intros []|congruence].
  - intros n. split; [intros []|discriminate].
  - intros [|? ?] ? ? E; discriminate.
  - intros [|? ?] ? ? E; discriminate.
  - intros n u _ [].
  - discriminate.
Qed.

Lemma init_inv order : NoDup order -> (forall n, In n order -> n < N /\ ups n = []) ->
  Inv (init order) /\ (forall n, status (init order) n <> Idle <-> In n order).
Proof.
  unfold Dag.init.
  enough (G : forall s, Inv s -> forall done, (forall n, status s n <> Idle <-> In n done) ->
            NoDup (done ++ order) -> (forall n, In n order -> n < N /\ ups n = []) ->
            Inv (fold_left start order s) /\
            (forall n, status (fold_left start order s) n <> Idle <-> In n (done ++ order))).
  { intros ND Hsrc. destruct (G empty empty_inv [] ) as [A B]; auto. cbn. intros n; split; [congruence|tauto]. }
  induction order as [|a order IH]; intros s HI done Hdone ND Hsrc; cbn [fold_left].
  - rewrite app_nil_r. auto.
  - destruct (Hsrc a (or_introl eq_refl)) as [Ha Hua].
    assert (Hidle : status s a = Idle).
    { destruct (status s a) eqn:E; auto; exfalso;
        (assert (In a done) by (apply Hdone; congruence));
        apply NoDup_remove_2 in ND; apply ND; apply in_or_app; auto. }
    assert (HI' : Inv (start s a)).
    { apply start_inv; auto using inv_weaken. intros u Hu. rewrite Hua in Hu. destruct Hu. }
    replace (done ++ a :: order) with ((done ++ [a]) ++ order) in * by (rewrite <- app_assoc; reflexivity).
    apply IH; auto.
    + intros n. destruct (start_log s a) as [l Hl].
      rewrite in_app_iff. cbn [In].
      rewrite <- (inv_ls HI'), Hl, in_app_iff. cbn [In].
      rewrite (inv_ls HI), Hdone.
      split.
      * intros [H|[H|H]]; [left; exact H | inversion H; auto |].
        exfalso. unfold Dag.start in Hl. destruct (remote a); cbn in Hl.
        -- apply app_inv_head in Hl. inversion Hl; subst. destruct H.
        -- rewrite <- app_assoc in Hl. apply app_inv_head in Hl. inversion Hl; subst.
           destruct H as [H|[]]. discriminate.
      * intros [H|[H|[]]]; [left; exact H | right; left; subst; reflexivity].
    + intros n Hn. apply Hsrc. right. exact Hn.
Qed.

(* ---- quiescence means everything ran ---------------------------------------------------------- *)
Theorem quiescent_all_done s :
  Inv s -> quiescent N s -> (forall n, n < N -> ups n = [] -> status s n <> Idle) ->
  forall n, n < N -> status s n = Done.
Proof.
  intros HI [Hpe Hno] Hsrc n. induction n as [n IH] using lt_wf_ind. intros Hn.
  destruct (status s n) eqn:Est; [exfalso| exfalso; eapply Hno; eauto | reflexivity].
  destruct (ups n) as [|u0 us] eqn:Eups; [eapply Hsrc; eauto|].
  assert (Hne : ups n <> []) by (rewrite Eups; discriminate).
  pose proof (@inv_wait _ _ HI n Hn ltac:(discriminate) Est Hne) as Hw.
  assert (forallb (fun x => memn x (recv s n)) (ups n) = true); [|congruence].
  apply forallb_memn. intros u Hu. apply memn_In.
  pose proof (@inv_edge _ _ HI n u Hn Hu) as Heq. rewrite Hpe, Est in Heq. cbn in Heq.
  assert (u < n) by (apply ups_lt; exact Hu).
  rewrite (IH u H ltac:(lia)) in Heq. cbn in Heq.
  destruct (memn u (recv s n)); [reflexivity| cbn in Heq; lia].
Qed.

(* ---- values: the outputs are the unique solution of the data-flow equations ------------------- *)
Fixpoint eval_upto (k : nat) : nat -> Z :=
  match k with O => fun _ => 0%Z | S k' => let e := eval_upto k' in updf e k' (sem k' e) end.
Definition denote : nat -> Z := eval_upto N.

Lemma eval_upto_fix k : forall n, n < k -> eval_upto k n = sem n (eval_upto k).
Proof.
  induction k as [|k IH]; intros n Hn; [lia|]. cbn [eval_upto].
  destruct (Nat.eq_dec n k) as [->|Hnk].
  - rewrite updf_same. apply sem_local. intros u Hu. apply ups_lt in Hu. rewrite updf_other by lia. reflexivity.
  - rewrite (updf_other _ _ Hnk). rewrite IH by lia. apply sem_local. intros u Hu. apply ups_lt in Hu.
    rewrite updf_other by lia. reflexivity.
Qed.

Lemma solution_unique (e1 e2 : nat -> Z) k :
  (forall n, n < k -> e1 n = sem n e1) -> (forall n, n < k -> e2 n = sem n e2) ->
  forall n, n < k -> e1 n = e2 n.
Proof.
  intros H1 H2 n. induction n as [n IH] using lt_wf_ind. intros Hn.
  rewrite H1, H2 by assumption. apply sem_local. intros u Hu. apply ups_lt in Hu. apply IH; lia.
Qed.

(* ---- the main theorem -------------------------------------------------------------------------- *)
Definition once (x : logev) (l : list logev) : Prop :=
  exists l1 l2, l = l1 ++ x :: l2 /\ ~ In x l1 /\ ~ In x l2.

Theorem dag_run_correct order es s :
  NoDup order -> (forall n, In n order <-> n < N /\ ups n = []) ->
  run (init order) es = Some s -> quiescent N s ->
  (* (a) every child executes exactly once, and nothing else does *)
  (forall n, n < N -> once (LStart n) (log s) /\ once (LFinish n) (log s)) /\
  (forall n, N <= n -> ~ In (LStart n) (log s)) /\
  (* (b) never before all nodes it takes data from have finished *)
  (forall n u, n < N -> In u (ups n) -> before (LFinish u) (LStart n) (log s)) /\
  (* (c) outputs equal plain composition *)
  (forall n, n < N -> out s n = denote n) /\
  (* (d) nothing is left running *)
  (forall n, status s n <> Out).
Proof.
  intros ND Hord Hrun Hq.
  destruct (init_inv ND) as [HI0 Hst0]; [intros n Hn; apply Hord; exact Hn|].
  pose proof (run_inv _ HI0 Hrun) as HI.
  assert (Hsrc : forall n, n < N -> ups n = [] -> status s n <> Idle).
  { intros n Hn Hu. apply (inv_ls HI). destruct (run_log _ _ Hrun) as [l Hl]. rewrite Hl.
    apply in_or_app. left. apply (inv_ls HI0). apply Hst0. apply Hord. auto. }
  pose proof (quiescent_all_done HI Hq Hsrc) as Hdone.
  repeat split.
  - assert (Hin : In (LStart n) (log s)) by (apply (inv_ls HI); rewrite Hdone by assumption; discriminate).
    apply in_split in Hin. destruct Hin as [l1 [l2 E]]. exists l1, l2. split; [exact E|]. eapply inv_nodup_s; eauto.
  - assert (Hin : In (LFinish n) (log s)) by (apply (inv_lf HI); auto).
    apply in_split in Hin. destruct Hin as [l1 [l2 E]]. exists l1, l2. split; [exact E|]. eapply inv_nodup_f; eauto.
  - intros n Hn Hin. apply (inv_ls HI) in Hin. apply Hin. apply (inv_range HI). exact Hn.
  - intros n u Hn Hu. apply (inv_order HI); auto. apply (inv_ls HI). rewrite Hdone by assumption. discriminate.
  - intros n Hn. apply (@solution_unique (out s) denote N); auto.
    + intros m Hm. apply (inv_val HI). auto.
    + intros m Hm. apply eval_upto_fix. exact Hm.
  - intros n Hn. destruct (Nat.lt_ge_cases n N) as [H|H]; [rewrite Hdone in Hn by assumption; discriminate|].
    rewrite (inv_range HI) in Hn by assumption. discriminate.
Qed.

(* in EVERY reachable state (not only quiescent ones): a node that has started had all its upstream
   nodes finished -- so a node that never finishes (its function raised, C06) has no running descendant *)
Theorem started_only_after_upstream order es s :
  NoDup order -> (forall n, In n order -> n < N /\ ups n = []) ->
  run (init order) es = Some s ->
  forall n u, In (LStart n) (log s) -> In u (ups n) -> before (LFinish u) (LStart n) (log s).
Proof.
  intros ND Hsrc Hrun n u Hn Hu.
  destruct (init_inv ND Hsrc) as [HI0 _]. pose proof (run_inv _ HI0 Hrun) as HI.
  apply (inv_order HI); assumption.
Qed.

(* ---- termination: every enabled step strictly decreases a measure bounded by 2|V| + |E| ------- *)
Definition outdeg (n : nat) : nat := List.length (downs n).
Definition wgt (x : st) (n : nat) : nat :=
  match x with Idle => 2 + outdeg n | Out => 1 + outdeg n | Done => 0 end.
Fixpoint fsum (f : nat -> nat) (k : nat) : nat := match k with O => 0 | S k' => fsum f k' + f k' end.
Definition mu (s : state) : nat := fsum (fun n => wgt (status s n) n) N + List.length (pend s).

Lemma fsum_ext f g k : (forall n, n < k -> f n = g n) -> fsum f k = fsum g k.
Proof. induction k as [|k IH]; intros H; cbn; [reflexivity|]. rewrite IH, H; auto. Qed.

Lemma fsum_upd f g k n : n < k -> (forall m, m <> n -> g m = f m) -> fsum g k + f n = fsum f k + g n.
Proof.
  induction k as [|k IH]; intros Hn H; [lia|]. cbn.
  destruct (Nat.eq_dec n k) as [->|Hnk].
  - rewrite (@fsum_ext g f k); [lia|]. intros m Hm. apply H. lia.
  - rewrite (H k) by auto. specialize (IH ltac:(lia) H). lia.
Qed.

Lemma mu_status s s' n x : n < N -> status s' = updf (status s) n x ->
  fsum (fun m => wgt (status s' m) m) N + wgt (status s n) n = fsum (fun m => wgt (status s m) m) N + wgt x n.
Proof.
  intros Hn E. rewrite (@fsum_upd (fun m => wgt (status s m) m) (fun m => wgt (status s' m) m) N n Hn).
  - rewrite E, updf_same. reflexivity.
  - intros m Hm. rewrite E, updf_other by assumption. reflexivity.
Qed.

Lemma mu_finish s n : n < N -> status s n = Out -> mu (finish s n) + 1 = mu s.
Proof.
  intros Hn Hs. unfold mu. cbn [Dag.finish pend status].
  pose proof (@mu_status s (finish s n) n Done Hn eq_refl) as H. cbn [Dag.finish status] in H.
  rewrite Hs in H. cbn [wgt] in H. rewrite app_length, map_length. fold (outdeg n). lia.
Qed.

Lemma mu_fire s n : n < N -> status s n = Idle -> mu (fire s n) + 1 = mu s.
Proof.
  intros Hn Hs. unfold mu. cbn [Dag.fire pend status].
  pose proof (@mu_status s (fire s n) n Out Hn eq_refl) as H. cbn [Dag.fire status] in H.
  rewrite Hs in H. cbn [wgt] in H. lia.
Qed.

Lemma mu_start s n : n < N -> status s n = Idle -> mu (start s n) < mu s.
Proof.
  intros Hn Hs. unfold Dag.start. pose proof (mu_fire s Hn Hs).
  destruct (remote n); [lia|].
  assert (status (fire s n) n = Out) by (cbn; apply updf_same).
  pose proof (mu_finish (fire s n) Hn H0). lia.
Qed.

Lemma length_remove_nth {A} i (l : list A) x : nth_error l i = Some x -> List.length (remove_nth i l) + 1 = List.length l.
Proof. revert i; induction l as [|y l IH]; intros [|i] H; cbn in *; try discriminate; [lia|]. specialize (IH i H). lia. Qed.

Lemma step_mu s e s' : Inv s -> step s e = Some s' -> mu s' < mu s.
Proof.
  intros HI. destruct e as [i|n]; cbn.
  - unfold Dag.deliver. destruct (nth_error (pend s) i) as [[u n]|] eqn:Hnth; [|discriminate].
    assert (Hin : In (u, n) (pend s)) by (eapply nth_error_In; eauto).
    destruct (inv_pend HI _ _ Hin) as [Hn Hu].
    pose proof (@inv_edge _ _ HI n u Hn Hu) as Heq. pose proof (cnt_pos _ _ Hin) as Hc.
    assert (Hidle : status s n = Idle).
    { destruct (status s n) eqn:E; [reflexivity| |]; cbn in Heq; destruct (isDone (status s u)); cbn in Heq;
        destruct (memn u (recv s n)); cbn in Heq; lia. }
    pose proof (length_remove_nth _ _ Hnth) as Hlen.
    set (s1 := {| status := status s; recv := updf (recv s) n (u :: recv s n); pend := remove_nth i (pend s);
                  out := out s; log := log s |}).
    assert (Hmu1 : mu s1 + 1 = mu s) by (unfold mu; cbn [s1 status pend]; lia).
    destruct (forallb _ _); intros H; inversion H; subst; [|lia].
    pose proof (@mu_start s1 n Hn Hidle). lia.
  - unfold Dag.complete. destruct (Nat.ltb n N) eqn:Hn; [|discriminate]. apply Nat.ltb_lt in Hn.
    destruct (status s n) eqn:Hs; cbn; try discriminate. intros H; inversion H; subst.
    pose proof (mu_finish s Hn Hs). lia.
Qed.

Theorem run_bounded es : forall s s', Inv s -> run s es = Some s' -> List.length es + mu s' <= mu s.
Proof.
  induction es as [|e es IH]; cbn; intros s s' HI H; [inversion H; subst; lia|].
  destruct (step s e) as [s1|] eqn:E; [|discriminate].
  pose proof (step_mu _ HI E). pose proof (IH _ _ (step_inv _ HI E) H). lia.
Qed.

Lemma mu_empty : mu empty = fsum (fun n => 2 + outdeg n) N.
Proof. unfold mu. cbn. lia. Qed.

Lemma init_mu order : NoDup order -> (forall n, In n order -> n < N /\ ups n = []) -> mu (init order) <= mu empty.
Proof.
  intros ND Hsrc. unfold Dag.init.
  enough (G : forall s done, Inv s -> (forall n, status s n <> Idle <-> In n done) -> NoDup (done ++ order) ->
                mu (fold_left start order s) <= mu s).
  { apply (G empty []); auto using empty_inv. cbn. intros n; split; [congruence|tauto]. }
  induction order as [|a order IH]; intros s done HI Hdone ND'; cbn [fold_left]; [lia|].
  destruct (Hsrc a (or_introl eq_refl)) as [Ha Hua].
  assert (Hidle : status s a = Idle).
  { destruct (status s a) eqn:E; auto; exfalso;
      (assert (In a done) by (apply Hdone; congruence));
      apply NoDup_remove_2 in ND'; apply ND'; apply in_or_app; auto. }
  assert (HI' : Inv (start s a)).
  { apply start_inv; auto using inv_weaken. intros u Hu. rewrite Hua in Hu. destruct Hu. }
  pose proof (mu_start s Ha Hidle).
  assert (NDo : NoDup order) by (inversion ND; auto).
  assert (Hs2 : forall n, In n order -> n < N /\ ups n = []) by (intros n Hn; apply Hsrc; right; exact Hn).
  specialize (IH NDo Hs2 (start s a) (done ++ [a]) HI').
  rewrite <- app_assoc in IH. cbn in IH.
  assert (mu (fold_left start order (start s a)) <= mu (start s a)); [|lia].
  apply IH; auto.
  intros n. destruct (start_log s a) as [l Hl].
  rewrite in_app_iff. cbn [In].
  rewrite <- (inv_ls HI'), Hl, in_app_iff. cbn [In].
  rewrite (inv_ls HI), Hdone.
  split.
  - intros [H0|[H0|H0]]; [left; exact H0 | inversion H0; auto |].
    exfalso. unfold Dag.start in Hl. destruct (remote a); cbn in Hl.
    + apply app_inv_head in Hl. inversion Hl; subst. destruct H0.
    + rewrite <- app_assoc in Hl. apply app_inv_head in Hl. inversion Hl; subst.
      destruct H0 as [H0|[]]. discriminate.
  - intros [H0|[H0|[]]]; [left; exact H0 | right; left; subst; reflexivity].
Qed.

(* every run from the initial state has at most 2|V| + |E| events *)
Theorem dag_terminates order es s :
  NoDup order -> (forall n, In n order <-> n < N /\ ups n = []) ->
  run (init order) es = Some s -> List.length es <= fsum (fun n => 2 + outdeg n) N.
Proof.
  intros ND Hord Hrun.
  assert (Hsrc : forall n, In n order -> n < N /\ ups n = []) by (intros n Hn; apply Hord; exact Hn).
  destruct (init_inv ND Hsrc) as [HI0 _].
  pose proof (run_bounded _ HI0 Hrun). pose proof (init_mu ND Hsrc). rewrite mu_empty in *. lia.
Qed.

(* no deadlock: a state that is not quiescent has an enabled event *)
Theorem dag_progress s : quiescentb N s = false -> exists e s', step s e = Some s'.
Proof.
  unfold Dag.quiescentb. destruct (pend s) as [|[u n] r] eqn:Ep.
  - intros H. apply Bool.not_true_iff_false in H.
    assert (exists n, In n (seq 0 N) /\ st_eqb (status s n) Out = true) as [n [Hn Ho]].
    { clear Ep. induction (seq 0 N) as [|a l IH]; cbn in H; [congruence|].
      destruct (st_eqb (status s a) Out) eqn:E; [exists a; cbn; auto|].
      cbn in H. destruct IH as [n [A B]]; auto. exists n; cbn; auto. }
    apply in_seq in Hn. exists (Complete n). cbn. unfold Dag.complete.
    assert (Nat.ltb n N = true) as -> by (apply Nat.ltb_lt; lia). rewrite Ho. cbn. eauto.
  - intros _. exists (Deliver 0). cbn. unfold Dag.deliver. rewrite Ep. cbn. eauto.
Qed.

Lemma quiescentb_spec s : quiescentb N s = true <-> quiescent N s.
Proof.
  unfold Dag.quiescentb, Dag.quiescent. destruct (pend s) as [|p r].
  - rewrite forallb_forall. split.
    + intros H. split; [reflexivity|]. intros n Hn Ho. specialize (H n ltac:(apply in_seq; lia)).
      rewrite Ho in H. discriminate.
    + intros [_ H] n Hn. apply in_seq in Hn. specialize (H n ltac:(lia)).
      destruct (status s n); auto; congruence.
  - split; [discriminate|]. intros [H _]. discriminate.
Qed.

(* the code-shaped scheduler only takes machine steps *)
Lemma sched_is_run fuel : forall oracle s s', sched N ups sem remote fuel oracle s = Some s' ->
  quiescent N s' /\ exists es, run s es = Some s'.
Proof.
  induction fuel as [|fuel IH]; intros oracle s s'; cbn [Dag.sched].
  - destruct (quiescentb N s) eqn:Q; [|discriminate]. intros H; inversion H; subst.
    split; [apply quiescentb_spec; exact Q|]. exists []. reflexivity.
  - destruct (pend s) as [|p r] eqn:Ep.
    + destruct (quiescentb N s) eqn:Q.
      * intros H; inversion H; subst. split; [apply quiescentb_spec; exact Q|]. exists []. reflexivity.
      * match goal with |- context [complete s ?n] => set (n0 := n) end.
        destruct (complete s n0) as [s1|] eqn:E; [|discriminate]. intros H.
        destruct (IH _ _ _ H) as [A [es B]]. split; [exact A|]. exists (Complete n0 :: es). cbn. rewrite E. exact B.
    + destruct (deliver s 0) as [s1|] eqn:E; [|discriminate]. intros H.
      destruct (IH _ _ _ H) as [A [es B]]. split; [exact A|]. exists (Deliver 0 :: es). cbn. rewrite E. exact B.
Qed.
End DagProofs.
