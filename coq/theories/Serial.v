(* Serial.v -- executable model of the __getstate__/__setstate__ chain of pyiron_workflow AS THE
   CODE IS after commit 5ff4163 (data connections restored in reverse, signals in stored order):

     channels.py    Channel.__getstate__      connections := []
                    DataChannel.__getstate__  _value_receiver := None
                    NotData.__reduce__        the singleton stays the singleton (slot NotData)
     mixin/lexical  Lexical.__getstate__      _parent := None, detached path := parent's lexical path
                    LexicalParent.__getstate__/__setstate__   children inlined under their labels,
                                              re-adopted (child.parent = self) on load
     mixin/run      Runnable.__getstate__     future := None, live executor := None (instructions stay)
     nodes/composite Composite.__getstate__   _child_data_connections, _child_signal_connections
                                              ((input owner, input), (output owner, output)) label
                                              pairs in iteration order, _starting_node_labels
                    Composite.__setstate__    starting nodes looked up by label, then
                                              _restore_data_connections_from_strings (REVERSED list),
                                              _restore_signal_connections_from_strings (stored order),
                                              each pair by Channel.connect (skip if present, else
                                              PREPEND on both sides)
     nodes/macro, nodes/for_loop  __getstate__ adds _input_value_links/_output_value_links,
                                              __setstate__ re-forges them through the
                                              value_receiver setter, which PUSHES the sender's value
                                              into the receiver (InputData.value: refuses when the
                                              owner is running; forwards down the receiver chain)
     node.py        Node.load                 self.__setstate__(inst.__getstate__()): a second,
                                              top-level-only get/set cycle on the unpickled instance;
                                              the adopted channels stay owned by that instance
     storage.py     PickleStorage             pickle / cloudpickle = identity on state dictionaries

   A node's OWN channels carry the connections it has in its parent's scope (to siblings, as
   (sibling label, channel label) pairs, ORDERED, on both sides).  Values are opaque observation
   trees.  `pickle` itself is trusted to be the identity on [snode].

   Second part: the plain FIFO execution of a flat hand-wired workflow of function nodes
   (Composite._on_run / _run_while_children_or_signals_exist with local children, caches off),
   used for the clause "run again ... same outputs in the same execution order".

   Third part: the operations that build graphs (reachability). *)
From PW Require Import Base.

(* ------------------------------------------------------------------ vocabulary *)
Definition cref := (string * string)%type.            (* (owner label, channel label) *)
Definition cref_eqb (a b : cref) : bool := String.eqb (fst a) (fst b) && String.eqb (snd a) (snd b).

Inductive slot := NotData | Data (v : obs).
Inductive recv := RNone | RChild (c l : string) | RParent (l : string).
Inductive exe := ENone | EInstr (d : obs) | ELive.
Inductive kind := KLeaf | KWf | KLinked | KComp.        (* KLinked: Macro / For (value links) *)
Inductive err := KeyErr | Locked | AttrErr.
Inductive res (A : Type) := Ok (a : A) | Err (e : err).
Arguments Ok {A} a.
Arguments Err {A} e.

Definition bind {A B} (r : res A) (f : A -> res B) : res B :=
  match r with Ok a => f a | Err e => Err e end.

Record dchan := mkD { dlab : string; dval : slot; dcon : list cref; drcv : recv }.
Record schan := mkS { slab : string; scon : list cref; srcvd : list string }.

Inductive node := Node {
  nlab : string; nkind : kind; ncls : string; nfailed : bool; nrunning : bool; nexe : exe;
  nins : list dchan; nouts : list dchan; nsin : list schan; nsout : list schan;
  nkids : list node; nstart : list string; nprov : list string }.

(* what a root node knows about its surroundings *)
Record ctx := mkC { cpar : option string;     (* lexical path of the parent, if it has one *)
                    cdet : option string;     (* _detached_parent_path *)
                    cown : bool }.            (* its own channels name it as their owner *)

Definition is_comp (k : kind) : bool := match k with KLeaf => false | _ => true end.
Definition is_linked (k : kind) : bool := match k with KLinked => true | _ => false end.

(* field updates *)
Definition set_nins (n : node) (x : list dchan) : node :=
  Node (nlab n) (nkind n) (ncls n) (nfailed n) (nrunning n) (nexe n) x (nouts n) (nsin n) (nsout n)
       (nkids n) (nstart n) (nprov n).
Definition set_nouts (n : node) (x : list dchan) : node :=
  Node (nlab n) (nkind n) (ncls n) (nfailed n) (nrunning n) (nexe n) (nins n) x (nsin n) (nsout n)
       (nkids n) (nstart n) (nprov n).
Definition set_nsin (n : node) (x : list schan) : node :=
  Node (nlab n) (nkind n) (ncls n) (nfailed n) (nrunning n) (nexe n) (nins n) (nouts n) x (nsout n)
       (nkids n) (nstart n) (nprov n).
Definition set_nsout (n : node) (x : list schan) : node :=
  Node (nlab n) (nkind n) (ncls n) (nfailed n) (nrunning n) (nexe n) (nins n) (nouts n) (nsin n) x
       (nkids n) (nstart n) (nprov n).
Definition set_nkids (n : node) (x : list node) : node :=
  Node (nlab n) (nkind n) (ncls n) (nfailed n) (nrunning n) (nexe n) (nins n) (nouts n) (nsin n) (nsout n)
       x (nstart n) (nprov n).

Definition set_dcon (c : dchan) (l : list cref) : dchan := mkD (dlab c) (dval c) l (drcv c).
Definition set_dval (c : dchan) (v : slot) : dchan := mkD (dlab c) v (dcon c) (drcv c).
Definition set_drcv (c : dchan) (r : recv) : dchan := mkD (dlab c) (dval c) (dcon c) r.
Definition set_scon (c : schan) (l : list cref) : schan := mkS (slab c) l (srcvd c).

(* ------------------------------------------------------------------ connection views of one level *)
Definition table := list (cref * list cref).            (* channel key -> its ordered connections *)

Definition din (K : list node) : table :=
  flat_map (fun k => map (fun c => ((nlab k, dlab c), dcon c)) (nins k)) K.
Definition dout (K : list node) : table :=
  flat_map (fun k => map (fun c => ((nlab k, dlab c), dcon c)) (nouts k)) K.
Definition sinv (K : list node) : table :=
  flat_map (fun k => map (fun c => ((nlab k, slab c), scon c)) (nsin k)) K.
Definition soutv (K : list node) : table :=
  flat_map (fun k => map (fun c => ((nlab k, slab c), scon c)) (nsout k)) K.

Definition look (E : table) (k : cref) : list cref :=
  match assoc cref_eqb k E with Some l => l | None => [] end.
Definition has_key (E : table) (k : cref) : bool :=
  match assoc cref_eqb k E with Some _ => true | None => false end.

(* Composite._get_connections_as_strings: for child, for inp in panel, for out in inp.connections *)
Definition pairs (E : table) : list (cref * cref) :=
  flat_map (fun e => map (pair (fst e)) (snd e)) E.

(* ------------------------------------------------------------------ Channel.connect at one level *)
Definition upd_din (K : list node) (i o : cref) : list node :=
  map (fun k => if String.eqb (nlab k) (fst i)
                then set_nins k (map (fun c => if String.eqb (dlab c) (snd i) then set_dcon c (o :: dcon c) else c) (nins k))
                else k) K.
Definition upd_dout (K : list node) (o i : cref) : list node :=
  map (fun k => if String.eqb (nlab k) (fst o)
                then set_nouts k (map (fun c => if String.eqb (dlab c) (snd o) then set_dcon c (i :: dcon c) else c) (nouts k))
                else k) K.
Definition upd_sin (K : list node) (i o : cref) : list node :=
  map (fun k => if String.eqb (nlab k) (fst i)
                then set_nsin k (map (fun c => if String.eqb (slab c) (snd i) then set_scon c (o :: scon c) else c) (nsin k))
                else k) K.
Definition upd_sout (K : list node) (o i : cref) : list node :=
  map (fun k => if String.eqb (nlab k) (fst o)
                then set_nsout k (map (fun c => if String.eqb (slab c) (snd o) then set_scon c (i :: scon c) else c) (nsout k))
                else k) K.

(* inp.connect(out): unknown owner / channel -> KeyError; already connected -> nothing;
   else prepend on both sides *)
Definition connect_d (K : list node) (io : cref * cref) : res (list node) :=
  match assoc cref_eqb (fst io) (din K), assoc cref_eqb (snd io) (dout K) with
  | Some ci, Some _ =>
      if memb cref_eqb (snd io) ci then Ok K
      else Ok (upd_dout (upd_din K (fst io) (snd io)) (snd io) (fst io))
  | _, _ => Err KeyErr
  end.
Definition connect_s (K : list node) (io : cref * cref) : res (list node) :=
  match assoc cref_eqb (fst io) (sinv K), assoc cref_eqb (snd io) (soutv K) with
  | Some ci, Some _ =>
      if memb cref_eqb (snd io) ci then Ok K
      else Ok (upd_sout (upd_sin K (fst io) (snd io)) (snd io) (fst io))
  | _, _ => Err KeyErr
  end.

(* Composite._restore_connections_from_strings *)
Fixpoint relink (conn : list node -> cref * cref -> res (list node)) (P : list (cref * cref)) (K : list node)
  : res (list node) :=
  match P with
  | [] => Ok K
  | p :: r => match conn K p with Ok K' => relink conn r K' | Err e => Err e end
  end.

(* ------------------------------------------------------------------ the serialised form *)
Inductive snode := SNode {
  s_lab : string; s_kind : kind; s_cls : string; s_failed : bool; s_running : bool; s_exe : exe;
  s_det : option string;
  s_ins : list (string * slot); s_outs : list (string * slot);
  s_sin : list (string * list string); s_sout : list (string * list string);
  s_kids : list snode;
  s_dconns : list (cref * cref); s_sconns : list (cref * cref);
  s_start : list string; s_prov : list string;
  s_ilinks : list (string * cref); s_olinks : list (cref * string) }.

Definition slash (p l : string) : string := String.append p (String.append "/" l).

(* Macro._input_value_links: c.value_receiver.owner.label of a missing receiver -> AttributeError *)
Fixpoint ilinks_of (ins : list dchan) : res (list (string * cref)) :=
  match ins with
  | [] => Ok []
  | c :: r =>
      match drcv c with
      | RChild k l => bind (ilinks_of r) (fun t => Ok ((dlab c, (k, l)) :: t))
      | RParent l => bind (ilinks_of r) (fun t => Ok ((dlab c, ("..", l)) :: t))
      | RNone => Err AttrErr
      end
  end.

(* Macro._output_value_links: for child, for c in child.outputs if c.value_receiver is not None *)
Definition recv_label (r : recv) : option string :=
  match r with RNone => None | RChild _ l => Some l | RParent l => Some l end.
Definition olinks_of (K : list node) : list (cref * string) :=
  flat_map (fun k => flat_map (fun c => match recv_label (drcv c) with
                                         | Some l => [((nlab k, dlab c), l)] | None => [] end) (nouts k)) K.

Definition drop_live (e : exe) : exe := match e with ELive => ENone | x => x end.

(* __getstate__ of a node whose lexical path is [path]; [det] is what Lexical.__getstate__
   leaves in _detached_parent_path *)
Fixpoint dump (det : option string) (path : string) (n : node) {struct n} : res snode :=
  match n with
  | Node lab kd cls fl rn ex ins outs sin sout kids start prov =>
      let kidsr :=
        (fix go (ks : list node) : res (list snode) :=
           match ks with
           | [] => Ok []
           | k :: r => match dump (Some path) (slash path (nlab k)) k with
                       | Ok s => match go r with Ok t => Ok (s :: t) | Err e => Err e end
                       | Err e => Err e
                       end
           end) kids in
      match kidsr with
      | Err e => Err e
      | Ok sk =>
          let mk il ol :=
            SNode lab kd cls fl rn (drop_live ex) det
                  (map (fun c => (dlab c, dval c)) ins) (map (fun c => (dlab c, dval c)) outs)
                  (map (fun c => (slab c, srcvd c)) sin) (map (fun c => (slab c, srcvd c)) sout)
                  sk
                  (if is_comp kd then pairs (din kids) else [])
                  (if is_comp kd then pairs (sinv kids) else [])
                  start prov il ol in
          if is_linked kd then
            match ilinks_of ins with
            | Ok il => Ok (mk il (olinks_of kids))
            | Err e => Err e
            end
          else Ok (mk [] [])
      end
  end.

(* the lexical path of a root and the detached path its __getstate__ records *)
Definition root_prefix (c : ctx) : string :=
  match cpar c with Some p => p | None => match cdet c with Some d => d | None => "" end end.
Definition root_det (c : ctx) : option string :=
  match cpar c with Some p => Some p | None => cdet c end.
Definition dump_root (c : ctx) (n : node) : res snode :=
  dump (root_det c) (slash (root_prefix c) (nlab n)) n.

(* ------------------------------------------------------------------ value links *)
Definition findd (l : string) (cs : list dchan) : option dchan :=
  find (fun c => String.eqb (dlab c) l) cs.
Definition findn (l : string) (ks : list node) : option node :=
  find (fun k => String.eqb (nlab k) l) ks.
Definition setval (l : string) (v : slot) (cs : list dchan) : list dchan :=
  map (fun c => if String.eqb (dlab c) l then set_dval c v else c) cs.
Definition setrcv (l : string) (r : recv) (cs : list dchan) : list dchan :=
  map (fun c => if String.eqb (dlab c) l then set_drcv c r else c) cs.

(* InputData.value = v on input [l] of node [n]: locked while the owner runs; forwards to the
   channel's own value receiver (a child's input) first, then stores *)
Fixpoint push_in (n : node) (l : string) (v : slot) {struct n} : res node :=
  match n with
  | Node lab kd cls fl rn ex ins outs sin sout kids start prov =>
      if rn then Err Locked else
      match findd l ins with
      | None => Err AttrErr
      | Some c =>
          match drcv c with
          | RChild c2 l2 =>
              match (fix go (ks : list node) : res (list node) :=
                       match ks with
                       | [] => Ok []
                       | k :: r =>
                           if String.eqb (nlab k) c2
                           then match push_in k l2 v with Ok k' => Ok (k' :: r) | Err e => Err e end
                           else match go r with Ok r' => Ok (k :: r') | Err e => Err e end
                       end) kids with
              | Ok kids' => Ok (Node lab kd cls fl rn ex (setval l v ins) outs sin sout kids' start prov)
              | Err e => Err e
              end
          | _ => Ok (Node lab kd cls fl rn ex (setval l v ins) outs sin sout kids start prov)
          end
      end
  end.

Fixpoint push_kid (ks : list node) (c l : string) (v : slot) : res (list node) :=
  match ks with
  | [] => Err KeyErr
  | k :: r =>
      if String.eqb (nlab k) c
      then match push_in k l v with Ok k' => Ok (k' :: r) | Err e => Err e end
      else match push_kid r c l v with Ok r' => Ok (k :: r') | Err e => Err e end
  end.

(* self.inputs[inp].value_receiver = self.children[child].inputs[child_inp] *)
Definition forge_in (n : node) (lk : string * cref) : res node :=
  match findd (fst lk) (nins n) with
  | None => Err AttrErr
  | Some c =>
      match findn (fst (snd lk)) (nkids n) with
      | None => Err KeyErr
      | Some k =>
          match findd (snd (snd lk)) (nins k) with
          | None => Err AttrErr
          | Some _ =>
              match push_kid (nkids n) (fst (snd lk)) (snd (snd lk)) (dval c) with
              | Ok kids' =>
                  Ok (set_nkids (set_nins n (setrcv (fst lk) (RChild (fst (snd lk)) (snd (snd lk))) (nins n))) kids')
              | Err e => Err e
              end
          end
      end
  end.

(* self.children[child].outputs[child_out].value_receiver = self.outputs[out] *)
Definition forge_out (n : node) (lk : cref * string) : res node :=
  match findn (fst (fst lk)) (nkids n) with
  | None => Err KeyErr
  | Some k =>
      match findd (snd (fst lk)) (nouts k) with
      | None => Err AttrErr
      | Some c =>
          match findd (snd lk) (nouts n) with
          | None => Err AttrErr
          | Some _ =>
              let kids' := map (fun k' => if String.eqb (nlab k') (fst (fst lk))
                                          then set_nouts k' (setrcv (snd (fst lk)) (RParent (snd lk)) (nouts k'))
                                          else k') (nkids n) in
              Ok (set_nkids (set_nouts n (setval (snd lk) (dval c) (nouts n))) kids')
          end
      end
  end.

Fixpoint forge_ins (n : node) (ls : list (string * cref)) : res node :=
  match ls with [] => Ok n | l :: r => match forge_in n l with Ok n' => forge_ins n' r | Err e => Err e end end.
Fixpoint forge_outs (n : node) (ls : list (cref * string)) : res node :=
  match ls with [] => Ok n | l :: r => match forge_out n l with Ok n' => forge_outs n' r | Err e => Err e end end.

(* ------------------------------------------------------------------ __setstate__ *)
(* the composite part, on kids that are already rebuilt and carry no connections:
   starting nodes by label (KeyError), data connections in REVERSE, signals in stored order,
   then (Macro / For) the value links *)
Definition setstate_level (n0 : node) (dconns sconns : list (cref * cref))
           (il : list (string * cref)) (ol : list (cref * string)) : res node :=
  if is_comp (nkind n0) then
    if forallb (fun l => match findn l (nkids n0) with Some _ => true | None => false end) (nstart n0) then
      match relink connect_d (rev dconns) (nkids n0) with
      | Err e => Err e
      | Ok k1 =>
          match relink connect_s sconns k1 with
          | Err e => Err e
          | Ok k2 =>
              let n1 := set_nkids n0 k2 in
              if is_linked (nkind n0) then
                match forge_ins n1 il with
                | Ok n2 => forge_outs n2 ol
                | Err e => Err e
                end
              else Ok n1
          end
      end
    else Err KeyErr
  else Ok n0.

Fixpoint restore (s : snode) {struct s} : res node :=
  match s with
  | SNode lab kd cls fl rn ex det ins outs sin sout skids dconns sconns start prov il ol =>
      match (fix go (ks : list snode) : res (list node) :=
               match ks with
               | [] => Ok []
               | k :: r => match restore k with
                           | Ok k' => match go r with Ok r' => Ok (k' :: r') | Err e => Err e end
                           | Err e => Err e
                           end
               end) skids with
      | Err e => Err e
      | Ok kids0 =>
          setstate_level
            (Node lab kd cls fl rn ex
                  (map (fun c => mkD (fst c) (snd c) [] RNone) ins)
                  (map (fun c => mkD (fst c) (snd c) [] RNone) outs)
                  (map (fun c => mkS (fst c) [] (snd c)) sin)
                  (map (fun c => mkS (fst c) [] (snd c)) sout)
                  kids0 start prov)
            dconns sconns il ol
      end
  end.

(* When the root's own channels are owned by another object (the throw-away instance of an
   earlier Node.load, which kept the channels but lost its children), pickling the root drags
   that object along through channel.owner; its __setstate__ runs first and, for a Macro / For
   with inputs, looks the link targets up among children it no longer has: KeyError. *)
Definition ghost_fails (c : ctx) (n : node) : bool :=
  negb (cown c) && is_linked (nkind n) && match nins n with [] => false | _ => true end.

(* one pickle round trip of a root *)
Definition trip_pickle (cn : ctx * node) : res (ctx * node) :=
  match dump_root (fst cn) (snd cn) with
  | Err e => Err e
  | Ok s =>
      if ghost_fails (fst cn) (snd cn) then Err KeyErr else
      match restore s with
      | Ok n' => Ok (mkC None (s_det s) (cown (fst cn)), n')
      | Err e => Err e
      end
  end.

(* ------------------------------------------------------------------ Node.load: self.__setstate__(inst.__getstate__()) *)
Definition clear_own (k : node) : node :=
  Node (nlab k) (nkind k) (ncls k) (nfailed k) (nrunning k) (nexe k)
       (map (fun c => set_dcon c []) (nins k)) (map (fun c => set_dcon c []) (nouts k))
       (map (fun c => set_scon c []) (nsin k)) (map (fun c => set_scon c []) (nsout k))
       (nkids k) (nstart k) (nprov k).

(* top-level get/set cycle on the live instance: its children are the live objects; adopting
   them removes each from the instance (Composite.remove_child -> child.disconnect()), then the
   connections and links are re-made from the strings taken before *)
Definition adopt (n : node) : res node :=
  let dconns := if is_comp (nkind n) then pairs (din (nkids n)) else [] in
  let sconns := if is_comp (nkind n) then pairs (sinv (nkids n)) else [] in
  let n0 := Node (nlab n) (nkind n) (ncls n) (nfailed n) (nrunning n) (drop_live (nexe n))
                 (nins n) (nouts n) (nsin n) (nsout n) (map clear_own (nkids n)) (nstart n) (nprov n) in
  if is_linked (nkind n) then
    match ilinks_of (nins n) with
    | Ok il => setstate_level n0 dconns sconns il (olinks_of (nkids n))
    | Err e => Err e
    end
  else setstate_level n0 dconns sconns [] [].

Definition trip_file (cn : ctx * node) : res (ctx * node) :=
  match trip_pickle cn with
  | Err e => Err e
  | Ok (c', n1) => match adopt n1 with
                   | Ok n2 => Ok (mkC None (cdet c') false, n2)
                   | Err e => Err e
                   end
  end.

Inductive backend := BPickle | BFile.
Definition trip (b : backend) : ctx * node -> res (ctx * node) :=
  match b with BPickle => trip_pickle | BFile => trip_file end.
Fixpoint trips (k : nat) (b : backend) (cn : ctx * node) : res (ctx * node) :=
  match k with
  | O => Ok cn
  | S k' => match trip b cn with Ok cn' => trips k' b cn' | Err e => Err e end
  end.

(* ------------------------------------------------------------------ observation *)
Definition oslot (v : slot) : obs := match v with NotData => OL [OS "nd"] | Data x => OL [OS "d"; x] end.
Definition ocref (c : cref) : obs := OL [OS (fst c); OS (snd c)].
Definition orecv (r : recv) : obs :=
  match r with RNone => OL [] | RChild c l => OL [OS "c"; OS c; OS l] | RParent l => OL [OS "p"; OS l] end.
Definition oexe (e : exe) : obs := match e with ENone => OL [] | EInstr d => d | ELive => OL [OS "live"] end.
Definition okind (k : kind) : obs :=
  OS (match k with KLeaf => "leaf" | KWf => "wf" | KLinked => "linked" | KComp => "comp" end).
Definition odchan (c : dchan) : obs := OL [OS (dlab c); oslot (dval c); OL (map ocref (dcon c)); orecv (drcv c)].
Definition osin (c : schan) : obs := OL [OS (slab c); OL (map ocref (scon c)); OL (map OS (srcvd c))].
Definition osout (c : schan) : obs := OL [OS (slab c); OL (map ocref (scon c))].
Definition oostr (o : option string) : obs := match o with None => OL [] | Some s => OL [OS s] end.

Fixpoint onode (par : obs) (n : node) {struct n} : obs :=
  match n with
  | Node lab kd cls fl rn ex ins outs sin sout kids start prov =>
      OL [OS lab; okind kd; OS cls; OL [ob fl; ob rn]; oexe ex; par;
          OL (map odchan ins); OL (map odchan outs); OL (map osin sin); OL (map osout sout);
          OL ((fix go (ks : list node) : list obs :=
                 match ks with [] => [] | k :: r => onode (OL [OZ 1; OL []; OZ 1]) k :: go r end) kids);
          OL (map OS start); OL (map OS prov)]
  end.

Definition opar (c : ctx) : obs :=
  OL [ob (match cpar c with Some _ => true | None => false end); oostr (cdet c); ob (cown c)].
Definition oroot (cn : ctx * node) : obs := onode (opar (fst cn)) (snd cn).
Definition oerr (e : err) : obs :=
  OL [OS "ERR"; OS (match e with KeyErr => "KeyError" | Locked => "RuntimeError" | AttrErr => "AttributeError" end)].
Definition ores (r : res (ctx * node)) : obs := match r with Ok cn => oroot cn | Err e => oerr e end.

(* ------------------------------------------------------------------ well-formed states (the invariant) *)
Definition keys (E : table) : list cref := map fst E.
(* every listed partner exists and lists me back *)
Definition sym_half (E F : table) : bool :=
  forallb (fun e => forallb (fun o => match assoc cref_eqb o F with
                                      | Some l => memb cref_eqb (fst e) l
                                      | None => false end) (snd e)) E.
Definition table_ok (E : table) : bool :=
  nodupb cref_eqb (keys E) && forallb (fun e => nodupb cref_eqb (snd e)) E.
Definition level_ok (K : list node) : bool :=
  table_ok (din K) && table_ok (dout K) && table_ok (sinv K) && table_ok (soutv K)
  && sym_half (din K) (dout K) && sym_half (dout K) (din K)
  && sym_half (sinv K) (soutv K) && sym_half (soutv K) (sinv K).

Fixpoint wfb (n : node) {struct n} : bool :=
  match n with
  | Node lab kd cls fl rn ex ins outs sin sout kids start prov =>
      (fix go (ks : list node) : bool := match ks with [] => true | k :: r => wfb k && go r end) kids
      && level_ok kids
      && nodupb String.eqb (map nlab kids)
      && forallb (fun l => mems l (map nlab kids)) start
      && (is_comp kd || match kids with [] => true | _ => false end)
  end.

(* a root: additionally its own channel labels are unique per panel (they key the links) *)
Definition own_ok (n : node) : bool :=
  nodupb String.eqb (map dlab (nins n)) && nodupb String.eqb (map dlab (nouts n)).

(* ------------------------------------------------------------------ guards on value links *)
Definition slot_eqb (a b : slot) : bool :=
  match a, b with NotData, NotData => true | Data x, Data y => obs_eqb x y | _, _ => false end.

(* the hops a value pushed into input [l] of [n] takes: (owner running?, value held) *)
Fixpoint chain (n : node) (l : string) {struct n} : list (bool * slot) :=
  match n with
  | Node lab kd cls fl rn ex ins outs sin sout kids start prov =>
      match findd l ins with
      | None => []
      | Some c =>
          (rn, dval c) ::
          match drcv c with
          | RChild c2 l2 =>
              (fix go (ks : list node) : list (bool * slot) :=
                 match ks with
                 | [] => []
                 | k :: r => if String.eqb (nlab k) c2 then chain k l2 else go r
                 end) kids
          | _ => []
          end
      end
  end.
Definition chain_kid (ks : list node) (c l : string) : list (bool * slot) :=
  match findn c ks with Some k => chain k l | None => [] end.

Definition has_in (ks : list node) (c l : string) : bool :=
  match findn c ks with Some k => match findd l (nins k) with Some _ => true | None => false end | None => false end.
Definition has_d (cs : list dchan) (l : string) : bool :=
  match findd l cs with Some _ => true | None => false end.

(* every link can be stored and found again; nothing that is not stored carries a link *)
Definition resolve_here (n : node) : bool :=
  if is_linked (nkind n) then
    forallb (fun c => match drcv c with RChild k l => has_in (nkids n) k l | _ => false end) (nins n)
    && forallb (fun k => forallb (fun c => match drcv c with
                                            | RNone => true
                                            | RParent o => has_d (nouts n) o
                                            | RChild _ _ => false end) (nouts k)) (nkids n)
  else
    forallb (fun c => match drcv c with RNone => true | _ => false end) (nins n)
    && forallb (fun k => forallb (fun c => match drcv c with RNone => true | _ => false end) (nouts k)) (nkids n).
Definition unlocked_here (n : node) : bool :=
  forallb (fun c => match drcv c with
                    | RChild k l => forallb (fun h => negb (fst h)) (chain_kid (nkids n) k l)
                    | _ => true end) (nins n).
Definition synced_here (n : node) : bool :=
  forallb (fun c => match drcv c with
                    | RChild k l => forallb (fun h => slot_eqb (snd h) (dval c)) (chain_kid (nkids n) k l)
                    | _ => true end) (nins n)
  && forallb (fun k => forallb (fun c => match drcv c with
                                          | RParent o => match findd o (nouts n) with
                                                         | Some c' => slot_eqb (dval c') (dval c)
                                                         | None => true end
                                          | _ => true end) (nouts k)) (nkids n).

Fixpoint allb (p : node -> bool) (n : node) {struct n} : bool :=
  match n with
  | Node lab kd cls fl rn ex ins outs sin sout kids start prov =>
      p n && (fix go (ks : list node) : bool := match ks with [] => true | k :: r => allb p k && go r end) kids
  end.
Definition links_resolve := allb resolve_here.
Definition links_unlocked := allb unlocked_here.
Definition links_synced := allb synced_here.
Definition links_ok (n : node) : bool := links_resolve n && links_unlocked n && links_synced n.

(* fan-out of every output signal is in the order a restore produces: reverse order of its
   receivers in the traversal (child order, then channel order) *)
Definition canon (E : table) (o : cref) : list cref :=
  map fst (filter (fun e => memb cref_eqb o (snd e)) E).
Definition list_eqb {A} (eqb : A -> A -> bool) : list A -> list A -> bool :=
  fix go (a b : list A) : bool :=
    match a, b with [] , [] => true | x :: a', y :: b' => eqb x y && go a' b' | _, _ => false end.
Definition sig_canon_level (K : list node) : bool :=
  forallb (fun e => list_eqb cref_eqb (snd e) (rev (canon (sinv K) (fst e)))) (soutv K).
Definition sig_canonical := allb (fun n => sig_canon_level (nkids n)).

(* ------------------------------------------------------------------ execution of a flat hand-wired workflow *)
Definition M : Z := 1000003.
Definition vtab := list (cref * slot).
Record store := mkSt { st_in : vtab; st_out : vtab; st_rc : list (cref * list string);
                       st_q : list (cref * cref); st_prov : list string; st_calls : list obs }.
Record wiring := mkW { w_din : table; w_sout : table; w_sin : table; w_shape : list (string * list string) }.

Definition vget (t : vtab) (k : cref) : slot := match assoc cref_eqb k t with Some v => v | None => NotData end.
Definition vset (t : vtab) (k : cref) (v : slot) : vtab := upd cref_eqb k v t.
Definition rget (t : list (cref * list string)) (k : cref) : list string :=
  match assoc cref_eqb k t with Some v => v | None => [] end.

Definition scoped (c : cref) : string := String.append (fst c) (String.append "__" (snd c)).

(* InputData.fetch: first connection holding data *)
Fixpoint first_data (outs : vtab) (cs : list cref) : option slot :=
  match cs with
  | [] => None
  | o :: r => match vget outs o with Data v => Some (Data v) | NotData => first_data outs r end
  end.
Definition fetch (W : wiring) (st : store) (c : string) (labs : list string) : vtab :=
  fold_left (fun t l => match first_data (st_out st) (look (w_din W) (c, l)) with
                        | Some v => vset t (c, l) v | None => t end) labs (st_in st).

Fixpoint zsum (i : Z) (l : list Z) : Z := match l with [] => 0 | a :: r => i * a + zsum (i + 1) r end%Z.
Fixpoint ints (l : list slot) : option (list Z) :=
  match l with
  | [] => Some []
  | Data (OZ z) :: r => match ints r with Some t => Some (z :: t) | None => None end
  | _ => None
  end.

Inductive xerr := XNotReady | XUnsupported.

(* Node.run of child c while the parent runs (caches off, local): fetch, readiness gate,
   register start, call, store the output, enqueue `ran` for each of its connections in order *)
Definition run_kid (W : wiring) (st : store) (c : string) : store + xerr :=
  match assoc String.eqb c (w_shape W) with
  | None => inr XUnsupported
  | Some labs =>
      let tin := fetch W st c labs in
      match ints (map (fun l => vget tin (c, l)) labs) with
      | Some (tag :: k :: args) =>
          let y := ((k + zsum 1 args) mod M)%Z in
          inl (mkSt tin (vset (st_out st) (c, "y") (Data (OZ y))) (st_rc st)
                    (st_q st ++ map (pair (c, "ran")) (look (w_sout W) (c, "ran")))
                    (st_prov st ++ [c])
                    (st_calls st ++ [OL [OZ tag; OL (map OZ args)]]))
      | Some _ => inr XUnsupported
      | None =>
          if forallb (fun l => match vget tin (c, l) with Data _ => true | NotData => false end) labs
          then inr XUnsupported else inr XNotReady
      end
  end.

Definition add_str (s : string) (l : list string) : list string := if mems s l then l else s :: l.

(* receiving(firing) *)
Definition deliver (W : wiring) (st : store) (fr : cref * cref) : store + xerr :=
  let (f, r) := fr in
  if String.eqb (snd r) "run" then run_kid W st (fst r)
  else if String.eqb (snd r) "accumulate_and_run" then
    let rc := add_str (scoped f) (rget (st_rc st) r) in
    if forallb (fun e => mems (scoped e) rc) (look (w_sin W) r)
    then run_kid W (mkSt (st_in st) (st_out st) (upd cref_eqb r [] (st_rc st)) (st_q st) (st_prov st) (st_calls st)) (fst r)
    else inl (mkSt (st_in st) (st_out st) (upd cref_eqb r rc (st_rc st)) (st_q st) (st_prov st) (st_calls st))
  else inr XUnsupported.

Inductive xres := XOk (st : store) | XStart | XQueue | XFuel | XUns.

Fixpoint loop (fuel : nat) (W : wiring) (st : store) : xres :=
  match st_q st with
  | [] => XOk st
  | fr :: q =>
      match fuel with
      | O => XFuel
      | S f =>
          match deliver W (mkSt (st_in st) (st_out st) (st_rc st) q (st_prov st) (st_calls st)) fr with
          | inl st' => loop f W st'
          | inr XNotReady => XQueue
          | inr XUnsupported => XUns
          end
      end
  end.

Fixpoint starts (W : wiring) (st : store) (ls : list string) : store + xerr :=
  match ls with
  | [] => inl st
  | c :: r => match run_kid W st c with inl st' => starts W st' r | inr e => inr e end
  end.

Definition wiring_of (K : list node) : wiring :=
  mkW (din K) (soutv K) (sinv K) (map (fun k => (nlab k, map dlab (nins k))) K).
Definition vals_in (K : list node) : vtab :=
  flat_map (fun k => map (fun c => ((nlab k, dlab c), dval c)) (nins k)) K.
Definition vals_out (K : list node) : vtab :=
  flat_map (fun k => map (fun c => ((nlab k, dlab c), dval c)) (nouts k)) K.
Definition rcvd_of (K : list node) : list (cref * list string) :=
  flat_map (fun k => map (fun c => ((nlab k, slab c), srcvd c)) (nsin k)) K.

(* the workflow's own readiness: every unconnected child input holds data *)
Definition root_ready (K : list node) : bool :=
  forallb (fun k => forallb (fun c => match dcon c, dval c with [], NotData => false | _, _ => true end) (nins k)) K.

Definition exec (fuel : nat) (n : node) : xres :=
  let K := nkids n in
  if root_ready K then
    let W := wiring_of K in
    (* Composite._on_run, "start fresh" branch (since /repo 13dd065): every child's all-of trigger is
       reset before the starting nodes run, so no received signal survives from an earlier run or
       from the pickled image *)
    match starts W (mkSt (vals_in K) (vals_out K) [] [] [] []) (nstart n) with
    | inl st => loop fuel W st
    | inr XNotReady => XStart
    | inr XUnsupported => XUns
    end
  else XStart.

Definition flatb (n : node) : bool :=
  forallb (fun k => match nkind k with KLeaf => true | _ => false end
                    && list_eqb String.eqb (map dlab (nouts k)) ["y"]
                    && match nins k with _ :: _ :: _ => true | _ => false end) (nkids n).

Definition oexec (n : node) (r : xres) : obs :=
  match r with
  | XOk st => OL [OL [OS "ok"];
                  OL (map (fun k => OL [OS (nlab k); OS "y"; oslot (vget (st_out st) (nlab k, "y"))]) (nkids n));
                  OL [OL [OS (nlab n); OL (map OS (st_prov st))]];
                  OL (st_calls st)]
  | XStart => OL [OL [OS "err"; OS "ReadinessError"]]
  | XQueue => OL [OL [OS "err"; OS "FailedChildError"]]
  | XFuel => OL [OL [OS "fuel"]]
  | XUns => OL [OL [OS "unsupported"]]
  end.

(* the observation of one harness case: well-formedness of the input state, the state after
   k trips, and (when asked for and the load worked) the re-runs of original and reloaded graph *)
Definition obs_case (k : nat) (b : backend) (rerun : bool) (fuel : nat) (cn : ctx * node) : obs :=
  let r := trips k b cn in
  OL [ob (wfb (snd cn) && own_ok (snd cn)); ores r;
      match r with
      | Ok cn' => if rerun then OL [oexec (snd cn) (exec fuel (snd cn));
                                    oexec (snd cn') (exec fuel (snd cn'))]
                  else OL []
      | Err _ => OL []
      end].

(* ------------------------------------------------------------------ building graphs (reachability) *)
Definition spec_d (l : string * slot) : dchan := mkD (fst l) (snd l) [] RNone.
Definition spec_s (l : string) : schan := mkS l [] [].

Inductive op :=
| OAdd (path : list string) (lab : string) (kd : kind) (cls : string)
       (ins outs : list (string * slot)) (sin sout : list string)
| OConnD (path : list string) (i o : cref)
| ODiscD (path : list string) (i o : cref)
| OConnS (path : list string) (i o : cref)
| ODiscS (path : list string) (i o : cref)
| OSetIn (path : list string) (l : string) (v : slot)
| OSetOut (path : list string) (l : string) (v : slot)
| OFlags (path : list string) (failed running : bool)
| OExe (path : list string) (e : exe)
| ORcvd (path : list string) (l : string) (r : list string)
| OStart (path : list string) (ls : list string)
| OProv (path : list string) (ls : list string)
| OLinkIn (path : list string) (l c l2 : string)
| OLinkOut (path : list string) (c l out : string)
| OUnlinkIn (path : list string) (l : string).

(* apply f to the node addressed by path (labels from the root down); unknown path: no change *)
Fixpoint at_path (path : list string) (f : node -> node) (n : node) {struct path} : node :=
  match path with
  | [] => f n
  | l :: r => set_nkids n (map (fun k => if String.eqb (nlab k) l then at_path r f k else k) (nkids n))
  end.

Definition rm_con (x : cref) (l : list cref) : list cref := remove1 cref_eqb x l.
Definition disc_d (K : list node) (i o : cref) : list node :=
  map (fun k =>
         let k1 := if String.eqb (nlab k) (fst i)
                   then set_nins k (map (fun c => if String.eqb (dlab c) (snd i) then set_dcon c (rm_con o (dcon c)) else c) (nins k))
                   else k in
         if String.eqb (nlab k1) (fst o)
         then set_nouts k1 (map (fun c => if String.eqb (dlab c) (snd o) then set_dcon c (rm_con i (dcon c)) else c) (nouts k1))
         else k1) K.
Definition disc_s (K : list node) (i o : cref) : list node :=
  map (fun k =>
         let k1 := if String.eqb (nlab k) (fst i)
                   then set_nsin k (map (fun c => if String.eqb (slab c) (snd i) then set_scon c (rm_con o (scon c)) else c) (nsin k))
                   else k in
         if String.eqb (nlab k1) (fst o)
         then set_nsout k1 (map (fun c => if String.eqb (slab c) (snd o) then set_scon c (rm_con i (scon c)) else c) (nsout k1))
         else k1) K.

Definition fresh_ok (lab : string) (ins outs : list (string * slot)) (sin sout : list string) (n : node) : bool :=
  is_comp (nkind n) && negb (mems lab (map nlab (nkids n)))
  && nodupb String.eqb (map fst ins) && nodupb String.eqb (map fst outs)
  && nodupb String.eqb sin && nodupb String.eqb sout.

Definition apply_op (o : op) (n : node) : node :=
  match o with
  | OAdd p lab kd cls ins outs sin sout =>
      at_path p (fun m => if fresh_ok lab ins outs sin sout m
                          then set_nkids m (nkids m ++ [Node lab kd cls false false ENone (map spec_d ins) (map spec_d outs)
                                                             (map spec_s sin) (map spec_s sout) [] [] []])
                          else m) n
  | OConnD p i o => at_path p (fun m => match connect_d (nkids m) (i, o) with Ok K => set_nkids m K | Err _ => m end) n
  | ODiscD p i o => at_path p (fun m => if has_key (din (nkids m)) i && has_key (dout (nkids m)) o
                                        then set_nkids m (disc_d (nkids m) i o) else m) n
  | OConnS p i o => at_path p (fun m => match connect_s (nkids m) (i, o) with Ok K => set_nkids m K | Err _ => m end) n
  | ODiscS p i o => at_path p (fun m => if has_key (sinv (nkids m)) i && has_key (soutv (nkids m)) o
                                        then set_nkids m (disc_s (nkids m) i o) else m) n
  | OSetIn p l v => at_path p (fun m => if nrunning m then m else set_nins m (setval l v (nins m))) n
  | OSetOut p l v => at_path p (fun m => set_nouts m (setval l v (nouts m))) n
  | OFlags p f r => at_path p (fun m => Node (nlab m) (nkind m) (ncls m) f r (nexe m) (nins m) (nouts m) (nsin m)
                                             (nsout m) (nkids m) (nstart m) (nprov m)) n
  | OExe p e => at_path p (fun m => Node (nlab m) (nkind m) (ncls m) (nfailed m) (nrunning m) e (nins m) (nouts m)
                                         (nsin m) (nsout m) (nkids m) (nstart m) (nprov m)) n
  | ORcvd p l r => at_path p (fun m => set_nsin m (map (fun c => if String.eqb (slab c) l then mkS (slab c) (scon c) r else c) (nsin m))) n
  | OStart p ls => at_path p (fun m => if forallb (fun l => mems l (map nlab (nkids m))) ls
                                       then Node (nlab m) (nkind m) (ncls m) (nfailed m) (nrunning m) (nexe m) (nins m)
                                                 (nouts m) (nsin m) (nsout m) (nkids m) ls (nprov m)
                                       else m) n
  | OProv p ls => at_path p (fun m => Node (nlab m) (nkind m) (ncls m) (nfailed m) (nrunning m) (nexe m) (nins m)
                                           (nouts m) (nsin m) (nsout m) (nkids m) (nstart m) ls) n
  | OLinkIn p l c l2 => at_path p (fun m => set_nins m (setrcv l (RChild c l2) (nins m))) n
  | OLinkOut p c l out =>
      at_path p (fun m => set_nkids m (map (fun k => if String.eqb (nlab k) c
                                                      then set_nouts k (setrcv l (RParent out) (nouts k)) else k) (nkids m))) n
  | OUnlinkIn p l => at_path p (fun m => set_nins m (setrcv l RNone (nins m))) n
  end.

Definition build (root : node) (ops : list op) : node := fold_left (fun n o => apply_op o n) ops root.

(* an empty root: a workflow or macro without children and connections, or a lone function node *)
Definition root0 (lab : string) (kd : kind) (cls : string) (ins outs : list (string * slot)) (sin sout : list string) : node :=
  Node lab kd cls false false ENone (map spec_d ins) (map spec_d outs) (map spec_s sin) (map spec_s sout) [] [] [].
Definition root_ok (ins outs : list (string * slot)) : bool :=
  nodupb String.eqb (map fst ins) && nodupb String.eqb (map fst outs).

Definition obs_build (root : node) (ops : list op) : obs :=
  let n := build root ops in
  OL [ob (wfb n); onode (OL [OZ 0; OL []; OZ 1]) n].
