(* Resume.v -- failure, recovery image, checkpoint image and resumption of a DAG composite
   with nested macros (C08).  One tree carries the static wiring and the dynamic state of
   every node; the functions follow the CURRENT code of

     Node.run / Node._before_run        fetch (value setter refuses while the owner runs) ->
                                        cache hit (never for a running or failed node) ->
                                        readiness gate
     Runnable.run / _run / _finish_run  running := True -> on_run -> running := False
     Runnable._run_exception            running := False; failed := True
     Node._run_finally                  cache key written iff not failed -> (checkpoint: the whole
                                        graph is saved from its root) -> emit -> recovery file iff
                                        failed and the node is the root of its graph
     Composite._on_run                  children that are marked running are run first ("start from
                                        a broken process"); otherwise the starting nodes; then the
                                        signal loop (errors of triggered children are collected and
                                        FailedChildError is raised at the end, an exception of a
                                        starting node leaves at once)
     Node.load / Composite.__setstate__ the state is taken over; re-adopting the children resets
       / Macro.__setstate__             the cache key of every composite; re-forging a value link
                                        assigns the macro input's value to the linked child input,
                                        which raises when that child is marked running
     macro value links                  a value set on a macro input is pushed to the linked child
                                        input (here: the child takes it over when the parent's loop
                                        reaches or skips it -- nothing reads it earlier); the output
                                        of the returned child is the macro's.

   Children of a composite are LISTED IN THE ORDER IN WHICH THE PARENT'S LOOP VISITS THEM (the
   FIFO discipline of C01 yields one such order per composite; data edges point to earlier
   positions), so one left-to-right pass is the loop.  A node is triggered iff every upstream
   sibling emitted `ran` in this run (all-of trigger).  A checkpoint image is obtained by
   cutting the run right after the save ([cut] = the checkpointing node): nothing after that
   point happens, which is what the file holds.  Stdlib only. *)
From PW Require Import Base.

(* where an input channel gets its value from: its own stored value only / the output of the
   sibling at position u (data connection) / input g of the enclosing macro (value link) *)
Inductive src := SOwn | SUp (u : nat) | SPar (g : nat).
Definition input := (src * option Z)%type.       (* the channel's current value (None = NOT_DATA) *)

Record nst := { outv : option Z;                        (* output channel value *)
                cached : option (list (option Z));      (* _cached_inputs       *)
                failed : bool; running : bool }.

Inductive node :=
| Leaf (k : Z) (inp : list input) (st : nst)
| Macro (inp : list input) (ret : nat) (st : nst) (kids : list node).

Definition path := list nat.
Inductive ev := ECall (p : path) | ESave (p : path) (img : node).
Inductive exc := EUser | EIntr | EReady | ELocked | EChild.     (* EIntr: KeyboardInterrupt raised inside a node function *)
Inductive vres := ROk | RExc (e : exc) | RCut.
Inductive lres := LGo (errs : bool) | LAbort (e : exc) | LCut.

(* ---- the node function: lin, raising when an argument is negative ------------------- *)
Definition MODULUS : Z := 1000003.
Fixpoint lin_sum (i : Z) (args : list Z) : Z :=
  match args with [] => 0 | a :: r => (i * a + lin_sum (i + 1) r)%Z end.
Inductive res := RVal (z : Z) | RRaise (e : exc).
(* harness/nodes.py chk: -7, -8, -9 raise ordinary exceptions (of particular classes), then -6 is a Ctrl-C landing in
   the body (a KeyboardInterrupt), any other negative argument an ordinary exception *)
Definition chk (c : Z) (args : list Z) : res :=
  if existsb (fun a => (a <? 0)%Z) args then
    if existsb (fun a => (a =? -7)%Z || (a =? -8)%Z || (a =? -9)%Z) args then RRaise EUser
    else if existsb (fun a => (a =? -6)%Z) args then RRaise EIntr else RRaise EUser
  else RVal ((c + lin_sum 1 args) mod MODULUS)%Z.
(* an exception the signal loop's `except Exception` does not collect *)
Definition is_intr (e : exc) : bool := match e with EIntr => true | _ => false end.

(* ---- small helpers ------------------------------------------------------------------- *)
Definition st_of (n : node) : nst := match n with Leaf _ _ st => st | Macro _ _ st _ => st end.
Definition inp_of (n : node) : list input := match n with Leaf _ i _ => i | Macro i _ _ _ => i end.
Definition out_of (n : node) : option Z := outv (st_of n).
Definition is_some {A} (o : option A) : bool := match o with Some _ => true | None => false end.
Definition vals (i : list input) : list (option Z) := map snd i.

Fixpoint all_some (l : list (option Z)) : option (list Z) :=
  match l with
  | [] => Some []
  | Some v :: r => match all_some r with Some vs => Some (v :: vs) | None => None end
  | None :: _ => None
  end.

Fixpoint slots_eqb (a b : list (option Z)) : bool :=
  match a, b with
  | [], [] => true
  | Some x :: a', Some y :: b' => Z.eqb x y && slots_eqb a' b'
  | None :: a', None :: b' => slots_eqb a' b'
  | _, _ => false
  end.

Fixpoint path_eqb (a b : path) : bool :=
  match a, b with
  | [], [] => true
  | x :: a', y :: b' => Nat.eqb x y && path_eqb a' b'
  | _, _ => false
  end.

Definition ups_of (i : list input) : list nat :=
  flat_map (fun x => match fst x with SUp u => [u] | _ => [] end) i.

(* InputData.fetch: a connected input takes the upstream value when that is data *)
Definition fetch1 (outs : list (option Z)) (x : input) : input :=
  match fst x with
  | SUp u => match nth u outs None with Some v => (fst x, Some v) | None => x end
  | _ => x
  end.
(* a value arriving through the value link: [pu] lists, per input of the PARENT, the value the parent
   pushes in this step (None = nothing pushed) *)
Definition recv1 (pu : list (option Z)) (x : input) : input :=
  match fst x with
  | SPar g => match nth g pu None with Some v => (fst x, Some v) | None => x end
  | _ => x
  end.
(* some connected input would be assigned: the value setter raises while the owner is running *)
Definition fetchable (outs : list (option Z)) (i : list input) : bool :=
  existsb (fun x => match fst x with SUp u => is_some (nth u outs None) | _ => false end) i.
(* what a macro pushes on to its children when its inputs are fetched from [outs] / receive [pu] *)
Definition pushed (outs pu : list (option Z)) (i : list input) : list (option Z) :=
  map (fun x => match fst x with SUp u => nth u outs None | SPar g => nth g pu None | SOwn => None end) i.

Definition with_out (st : nst) (o : option Z) : nst :=
  {| outv := o; cached := cached st; failed := failed st; running := running st |}.

(* a node that only receives pushed values (it is not run in this step) *)
Fixpoint recv_push (pu : list (option Z)) (n : node) : node :=
  match n with
  | Leaf k i st => Leaf k (map (recv1 pu) i) st
  | Macro i r st kids => Macro (map (recv1 pu) i) r st (map (recv_push (pushed [] pu i)) kids)
  end.

(* Node.cache_hit / Runnable.ready + inputs.ready *)
Definition hitb (st : nst) (i : list (option Z)) : bool :=
  negb (running st || failed st) && match cached st with Some c => slots_eqb i c | None => false end.
Definition readyb (st : nst) (i : list (option Z)) : bool :=
  negb (running st || failed st) && forallb is_some i.
Definition cut_here (cut : option path) (p : path) : bool :=
  match cut with Some c => path_eqb c p | None => false end.
Definition is_root (p : path) : bool := match p with [] => true | _ => false end.

Definition st_ok (i : list (option Z)) (o : option Z) : nst :=
  {| outv := o; cached := Some i; failed := false; running := false |}.
Definition st_failed (st : nst) (o : option Z) : nst :=
  {| outv := o; cached := cached st; failed := true; running := false |}.
Definition st_running (st : nst) (o : option Z) : nst :=
  {| outv := o; cached := cached st; failed := failed st; running := true |}.

(* ---- Composite._on_run + _run_while_children_or_signals_exist, over the visit of one child ---- *)
Section Loop.
  Variable V : path -> list (option Z) -> node -> node * list ev * vres.   (* run a child           *)
  Variable R : node -> node.                  (* a child that is not run only receives pushed values *)
  Variable resume : bool.                     (* some child is marked running                        *)
  Variable p : path.

  Fixpoint loopF (idx : nat) (ks : list node) (os : list (option Z)) (oks : list bool) (errs : bool)
    {struct ks} : list node * list ev * lres :=
    match ks with
    | [] => ([], [], LGo errs)
    | kid :: rest =>
        if if resume then running (st_of kid) else forallb (fun u => nth u oks false) (ups_of (inp_of kid)) then
          let '(kid', e1, x) := V (p ++ [idx]) os kid in
          match x with
          | ROk => let '(rest', e2, lr) := loopF (S idx) rest (os ++ [out_of kid']) (oks ++ [true]) errs in
                   (kid' :: rest', e1 ++ e2, lr)
          | RCut => (kid' :: map R rest, e1, LCut)
          | RExc e =>
              (* the running children of a broken process and the starting nodes are run directly by
                 _on_run: their exception leaves at once; triggered children are run by the signal loop,
                 which collects their exceptions -- those that are an Exception: a KeyboardInterrupt
                 passes through the loop and leaves at once as well *)
              if resume || is_intr e || match ups_of (inp_of kid) with [] => true | _ => false end
              then (kid' :: map R rest, e1, LAbort e)
              else let '(rest', e2, lr) := loopF (S idx) rest (os ++ [out_of kid']) (oks ++ [false]) true in
                   (kid' :: rest', e1 ++ e2, lr)
          end
        else let '(rest', e2, lr) := loopF (S idx) rest (os ++ [out_of kid]) (oks ++ [false]) errs in
             (R kid :: rest', e2, lr)
    end.
End Loop.

(* ---- one run of a node inside its (running) parent, or of the root -------------------- *)
Fixpoint visit (cut : option path) (p : path) (outs pu : list (option Z)) (n : node) {struct n}
  : node * list ev * vres :=
  match n with
  | Leaf k i0 st =>
      if running st && fetchable outs i0 then (recv_push pu n, [], RExc ELocked) else
      let i := map (fetch1 outs) (map (recv1 pu) i0) in
      if hitb st (vals i) then (Leaf k i st, [], ROk) else
      if negb (readyb st (vals i)) then (Leaf k i st, [], RExc EReady) else
      match all_some (vals i) with
      | None => (Leaf k i st, [], RExc EReady)
      | Some args =>
          match chk k args with
          | RVal v => (Leaf k i (st_ok (vals i) (Some v)), [ECall p], if cut_here cut p then RCut else ROk)
          | RRaise e =>     (* Runnable._run: except (Exception, KeyboardInterrupt): the same epilogue for both *)
              let n' := Leaf k i (st_failed st (outv st)) in
              if cut_here cut p then (n', [ECall p], RCut)
              else (n', ECall p :: (if is_root p then [ESave p n'] else []), RExc e)
          end
      end
  | Macro i0 r st kids =>
      if running st && fetchable outs i0 then (recv_push pu n, [], RExc ELocked) else
      let i := map (fetch1 outs) (map (recv1 pu) i0) in
      let pu' := pushed outs pu i0 in
      if hitb st (vals i) then (Macro i r st (map (recv_push pu') kids), [], ROk) else
      if negb (readyb st (vals i)) then (Macro i r st (map (recv_push pu') kids), [], RExc EReady) else
      let resume := existsb (fun kid => running (st_of kid)) kids in
      let '(kids1, evs, lr) :=
        loopF (fun q os kid => visit cut q os pu' kid) (recv_push pu') resume p 0 kids [] [] false in
      let o := match nth_error kids1 r with
               | Some kid => match out_of kid with Some v => Some v | None => outv st end
               | None => outv st
               end in
      let fail e :=
        let n' := Macro i r (st_failed st o) kids1 in
        if cut_here cut p then (n', evs, RCut)
        else (n', evs ++ (if is_root p then [ESave p n'] else []), RExc e) in
      match lr with
      | LCut => (Macro i r (st_running st o) kids1, evs, RCut)
      | LAbort e => fail e
      | LGo true => fail EChild
      | LGo false => (Macro i r (st_ok (vals i) o) kids1, evs, if cut_here cut p then RCut else ROk)
      end
  end.

Definition attempt (cut : option path) (t : node) : node * list ev * vres := visit cut [] [] [] t.

(* ---- the user's side of the protocol ---------------------------------------------------- *)
Definition clear_failed (st : nst) : nst :=
  {| outv := outv st; cached := cached st; failed := false; running := running st |}.
Definition clear_run (st : nst) : nst :=
  {| outv := outv st; cached := cached st; failed := failed st; running := false |}.
Definition clear_cache (st : nst) : nst :=
  {| outv := outv st; cached := None; failed := failed st; running := running st |}.

(* removing the cause: an unconnected input holding a negative value gets [fixv] of it *)
Definition fix1 (fixv : Z -> Z) (x : input) : input :=
  match x with
  | (SOwn, Some v) => (SOwn, Some (if (v <? 0)%Z then fixv v else v))
  | _ => x
  end.

(* fix the cause on the failed nodes and clear every failure flag *)
Fixpoint recover (fixv : Z -> Z) (n : node) : node :=
  match n with
  | Leaf k i st => if failed st then Leaf k (map (fix1 fixv) i) (clear_failed st) else n
  | Macro i r st kids => Macro i r (clear_failed st) (map (recover fixv) kids)
  end.
Fixpoint clear_running (n : node) : node :=
  match n with
  | Leaf k i st => Leaf k i (clear_run st)
  | Macro i r st kids => Macro i r (clear_run st) (map clear_running kids)
  end.
Definition clear_root_running (n : node) : node :=
  match n with
  | Leaf k i st => Leaf k i (clear_run st)
  | Macro i r st kids => Macro i r (clear_run st) kids
  end.

(* Node.load: the state of the file, except that (Composite.__setstate__) adopting the children
   resets each composite's key and (Macro.__setstate__) re-forging a value link assigns the macro
   input's value to the linked child input -- which raises when that child is marked running *)
Definition relink1 (pv : list (option Z)) (x : input) : input :=
  match fst x with SPar g => (fst x, nth g pv None) | _ => x end.
Fixpoint load_p (pv : list (option Z)) (n : node) : node :=
  match n with
  | Leaf k i st => Leaf k (map (relink1 pv) i) st
  | Macro i r st kids =>
      let i' := map (relink1 pv) i in
      Macro i' r (clear_cache st) (map (load_p (vals i')) kids)
  end.
Definition load (n : node) : node := load_p [] n.
Definition linked (n : node) : bool :=
  existsb (fun x => match fst x with SPar _ => true | _ => false end) (inp_of n).
Fixpoint loadable (n : node) : bool :=
  match n with
  | Leaf _ _ _ => true
  | Macro _ _ _ kids => forallb (fun kid => negb (running (st_of kid) && linked kid) && loadable kid) kids
  end.

(* what Node.load gives for a file holding [n]: nothing when re-forging a link raises *)
Definition load_file (n : node) : option node := if loadable n then Some (load n) else None.

(* ---- the recovery file on disk: PickleStorage._save / _load --------------------------------------
   A save first tries plain pickle (.pckl) and falls back to cloudpickle (.cpckl); a successful save of
   one flavour unlinks the file of the other flavour; a failed pickle attempt leaves nothing behind.  A
   load looks for .pckl first.  Plain pickle fails iff (a) some channel holds a value it cannot handle: here
   the function of a leaf with 1000 <= k < 2000 returns its number wrapped in a closure (consumers unwrap
   it), or (b) the class of some node cannot be imported: a leaf with 2000 <= k has a class made by a
   factory function (it lives in <locals>; the graph is not import_ready).  The directory may already hold
   the files of an earlier generation of the same-labelled graph. *)
Definition is_clo (k : Z) : bool := (1000 <=? k)%Z && (k <? 2000)%Z.
Definition is_loc (k : Z) : bool := (2000 <=? k)%Z.
Fixpoint needs_cloud (n : node) : bool :=
  match n with
  | Leaf k _ st => is_loc k || (is_clo k && is_some (outv st))
  | Macro _ _ _ kids => existsb needs_cloud kids
  end.
Record store := { f_pckl : option node; f_cpckl : option node }.
Definition store0 : store := {| f_pckl := None; f_cpckl := None |}.
Definition store_save (s : store) (img : node) : store :=
  if needs_cloud img then {| f_pckl := None; f_cpckl := Some img |}
  else {| f_pckl := Some img; f_cpckl := None |}.
Definition store_read (s : store) : option node :=
  match f_pckl s with Some i => Some i | None => f_cpckl s end.

(* the graph with every cause removed from the start (the uninterrupted twin) *)
Fixpoint fixall (fixv : Z -> Z) (n : node) : node :=
  match n with
  | Leaf k i st => Leaf k (map (fix1 fixv) i) st
  | Macro i r st kids => Macro i r st (map (fixall fixv) kids)
  end.

Inductive proto := PStated | PAll | PRoot.
Definition apply_proto (pr : proto) (n : node) : node :=
  match pr with PStated => n | PAll => clear_running n | PRoot => clear_root_running n end.

(* ---- views ---------------------------------------------------------------------------------- *)
Definition calls (l : list ev) : list path := flat_map (fun e => match e with ECall p => [p] | _ => [] end) l.
Definition saves (l : list ev) : list (path * node) :=
  flat_map (fun e => match e with ESave p i => [(p, i)] | _ => [] end) l.

(* paths (below p) of the leaves / of all nodes whose state satisfies f, in visiting order *)
Section Where.
  Variable f : nst -> bool.
  Variable W : path -> node -> list path.
  Fixpoint kids_where (p : path) (idx : nat) (ks : list node) : list path :=
    match ks with [] => [] | kid :: r => W (p ++ [idx]) kid ++ kids_where p (S idx) r end.
End Where.
Fixpoint leaves_where (f : nst -> bool) (p : path) (n : node) {struct n} : list path :=
  match n with
  | Leaf _ _ st => if f st then [p] else []
  | Macro _ _ _ kids => kids_where (fun q kid => leaves_where f q kid) p 0 kids
  end.
Fixpoint nodes_where (f : nst -> bool) (p : path) (n : node) {struct n} : list path :=
  match n with
  | Leaf _ _ st => if f st then [p] else []
  | Macro _ _ st kids => (if f st then [p] else []) ++ kids_where (fun q kid => nodes_where f q kid) p 0 kids
  end.
Definition done_leaves (n : node) : list path := leaves_where (fun st => is_some (cached st)) [] n.
Definition undone_leaves (n : node) : list path := leaves_where (fun st => negb (is_some (cached st))) [] n.
Definition failed_nodes (n : node) : list path := nodes_where failed [] n.
Definition running_nodes (n : node) : list path := nodes_where running [] n.

Fixpoint outputs (n : node) : list (option Z) :=
  match n with
  | Leaf _ _ st => [outv st]
  | Macro _ _ st kids => outv st :: flat_map outputs kids
  end.

(* ---- observations (correspondence with the implementation) ------------------------------------ *)
Definition obs_slot (o : option Z) : obs := match o with None => OS "nd" | Some z => OZ z end.
Definition obs_path (p : path) : obs := OL (map on p).
Fixpoint obs_node (n : node) : obs :=
  match n with
  | Leaf _ i st => OL [obs_slot (outv st); match cached st with None => OS "none" | Some c => OL (map obs_slot c) end;
                       ob (failed st); ob (running st); OL (map obs_slot (vals i))]
  | Macro i _ st kids => OL [obs_slot (outv st); ob (is_some (cached st)); ob (failed st); ob (running st);
                             OL (map obs_slot (vals i)); OL (map obs_node kids)]
  end.
Definition obs_res (r : vres) : obs :=
  match r with
  | ROk => OS "ok" | RCut => OS "cut"
  | RExc EUser => OS "UserExc" | RExc EIntr => OS "KeyboardInterrupt" | RExc EReady => OS "ReadinessError"
  | RExc ELocked => OS "RuntimeError" | RExc EChild => OS "FailedChildError"
  end.

(* one attempt after another IN ONE DIRECTORY: verdict, calls, the recovery files present afterwards,
   the graph in memory, the graph loaded from `recovery`; then fix, clear, run again *)
Definition obs_store (s : store) : obs :=
  OL ((if is_some (f_cpckl s) then [OL [obs_path []; OS "cpckl"]] else []) ++
      (if is_some (f_pckl s) then [OL [obs_path []; OS "pckl"]] else [])).
Fixpoint rounds (fixv : Z -> Z) (fuel : nat) (s : store) (t : node) : list obs :=
  match fuel with
  | O => []
  | S fuel' =>
      let '(t1, evs, r) := attempt None t in
      let s' := fold_left (fun acc x => store_save acc (snd x)) (saves evs) s in
      let row := [obs_res r; OL (map obs_path (calls evs)); obs_store s'; obs_node t1] in
      match r, store_read s' with
      | RExc _, Some img =>
          match load_file img with
          | Some l => OL (row ++ [obs_node l]) :: rounds fixv fuel' s' (recover fixv l)
          | None => [OL (row ++ [OS "unloadable"])]
          end
      | _, _ => [OL row]
      end
  end.

Definition twin (fixv : Z -> Z) (t : node) : obs :=
  let '(t1, evs, r) := attempt None (fixall fixv t) in OL [obs_res r; obs_node t1].

(* what an earlier generation [g1] of the same-labelled graph left in the directory: the recovery file of its
   failed run / the checkpoint its node [c] wrote *)
Definition prior_fail (g1 : option node) : store :=
  match g1 with
  | None => store0
  | Some g => let '(_, evs, _) := attempt None g in
              fold_left (fun acc x => store_save acc (snd x)) (saves evs) store0
  end.
Definition prior_ckpt (c : path) (g1 : option node) : store :=
  match g1 with
  | None => store0
  | Some g => let '(t1, _, r) := attempt (Some c) g in
              match r with RCut => store_save store0 t1 | _ => store0 end
  end.

Definition obs_fail (fuel : nat) (g1 : option node) (t : node) : obs :=
  OL [OL (rounds Z.opp fuel (prior_fail g1) t); twin Z.opp t].

(* the checkpoint is loaded BY NAME from the directory it was written to *)
Definition obs_ckpt (fuel : nat) (pr : proto) (c : path) (g1 : option node) (t : node) : obs :=
  let '(t1, evs, r) := attempt (Some c) t in
  match r with
  | RCut =>
      let s := store_save (prior_ckpt c g1) t1 in
      match store_read s with
      | Some img =>
          match load_file img with
          | Some l => OL [OS "cut"; OL (map obs_path (calls evs)); obs_store s; obs_node l;
                          OL (rounds Z.opp fuel store0 (apply_proto pr (recover Z.opp l))); twin Z.opp t]
          | None => OL [OS "cut"; OL (map obs_path (calls evs)); obs_store s; OS "unloadable"]
          end
      | None => OL [OS "cut"; OL (map obs_path (calls evs)); obs_store s; OS "nofile"]
      end
  | _ => OL [OS "nocut"; obs_res r]
  end.
