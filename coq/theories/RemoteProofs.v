(* RemoteProofs.v -- proofs about Remote.v (C10). *)
From PW Require Import Base Remote.

Local Open Scope nat_scope.

(* ------------------------------------------------------------------ association lists keyed by nat *)
Lemma assoc_upd_eq {B} k (v : B) l : assoc Nat.eqb k (upd Nat.eqb k v l) = Some v.
Proof.
  induction l as [|[k' v'] r IH]; simpl.
  - now rewrite Nat.eqb_refl.
  - destruct (Nat.eqb k k') eqn:E; simpl.
    + now rewrite Nat.eqb_refl.
    + now rewrite E.
Qed.

Lemma assoc_upd_neq {B} k k' (v : B) l : k <> k' -> assoc Nat.eqb k' (upd Nat.eqb k v l) = assoc Nat.eqb k' l.
Proof.
  intros N. induction l as [|[k2 v2] r IH]; simpl.
  - destruct (Nat.eqb k' k) eqn:E; [apply Nat.eqb_eq in E; congruence|reflexivity].
  - destruct (Nat.eqb k k2) eqn:E; simpl.
    + apply Nat.eqb_eq in E; subst k2.
      destruct (Nat.eqb k' k) eqn:E2; [apply Nat.eqb_eq in E2; congruence|reflexivity].
    + destruct (Nat.eqb k' k2); [reflexivity|exact IH].
Qed.

(* ------------------------------------------------------------------ heap access *)
Lemma nd_setn_eq h i n : nd (setn h i n) i = n.
Proof. unfold nd, setn; simpl. now rewrite assoc_upd_eq. Qed.
Lemma nd_setn_neq h i j n : i <> j -> nd (setn h i n) j = nd h j.
Proof. intros N. unfold nd, setn; simpl. now rewrite assoc_upd_neq. Qed.
Lemma ch_setn h i n c : ch (setn h i n) c = ch h c.
Proof. reflexivity. Qed.
Lemma nd_setc h c x i : nd (setc h c x) i = nd h i.
Proof. reflexivity. Qed.
Lemma ch_setc_eq h c x : ch (setc h c x) c = x.
Proof. unfold ch, setc; simpl. now rewrite assoc_upd_eq. Qed.
Lemma ch_setc_neq h c d x : c <> d -> ch (setc h c x) d = ch h d.
Proof. intros N. unfold ch, setc; simpl. now rewrite assoc_upd_neq. Qed.

Lemma ch_set_conns_eq h a l : ch (set_conns h a l) a = c_with_conns (ch h a) l.
Proof. unfold set_conns. apply ch_setc_eq. Qed.
Lemma ch_set_conns_neq h a l d : a <> d -> ch (set_conns h a l) d = ch h d.
Proof. unfold set_conns. apply ch_setc_neq. Qed.
Lemma nd_set_conns h a l i : nd (set_conns h a l) i = nd h i.
Proof. reflexivity. Qed.

Lemma conns_set_conns h a l d :
  c_conns (ch (set_conns h a l) d) = if Nat.eqb a d then l else c_conns (ch h d).
Proof.
  destruct (Nat.eqb a d) eqn:E.
  - apply Nat.eqb_eq in E; subst. now rewrite ch_set_conns_eq.
  - apply Nat.eqb_neq in E. now rewrite ch_set_conns_neq.
Qed.

(* the part of a channel that no connection / value operation ever changes *)
Definition csig (x : chan) := (c_owner x, c_label x, c_panel x).
Lemma csig_set_conns h a l d : csig (ch (set_conns h a l) d) = csig (ch h d).
Proof.
  destruct (Nat.eq_dec a d) as [->|N].
  - now rewrite ch_set_conns_eq.
  - now rewrite ch_set_conns_neq.
Qed.

Lemma memn_true x l : memn x l = true <-> In x l.
Proof. apply memn_In. Qed.
Lemma memn_false x l : memn x l = false <-> ~ In x l.
Proof. rewrite <- memn_In. destruct (memn x l); split; intros; congruence. Qed.

(* ------------------------------------------------------------------ operations that only move values *)
Definition struct_eq (h h' : heap) : Prop :=
  (forall i, nd h' i = nd h i) /\
  (forall c, csig (ch h' c) = csig (ch h c) /\ c_conns (ch h' c) = c_conns (ch h c)).

Lemma struct_eq_refl h : struct_eq h h.
Proof. split; intros; auto. Qed.
Lemma struct_eq_trans a b c : struct_eq a b -> struct_eq b c -> struct_eq a c.
Proof.
  intros [N1 C1] [N2 C2]. split.
  - intros i. now rewrite N2, N1.
  - intros x. destruct (C1 x) as [A1 B1], (C2 x) as [A2 B2]. split; congruence.
Qed.

Lemma struct_eq_setc_val h c v : struct_eq h (setc h c (c_with_val (ch h c) v)).
Proof.
  split; [reflexivity|]. intros d. destruct (Nat.eq_dec c d) as [->|N].
  - rewrite ch_setc_eq. now split.
  - rewrite ch_setc_neq by exact N. now split.
Qed.
Lemma struct_eq_setc_recv h c r : struct_eq h (setc h c (c_with_recv (ch h c) r)).
Proof.
  split; [reflexivity|]. intros d. destruct (Nat.eq_dec c d) as [->|N].
  - rewrite ch_setc_eq. now split.
  - rewrite ch_setc_neq by exact N. now split.
Qed.

Lemma set_val_struct fuel : forall h c v h1, set_val fuel h c v = Some h1 -> struct_eq h h1.
Proof.
  induction fuel as [|f IH]; simpl; intros h c v h1 E.
  - injection E as <-. apply struct_eq_refl.
  - destruct (locked h c); [discriminate|].
    destruct (c_recv (ch h c)) as [r|].
    + destruct (set_val f h r v) as [h2|] eqn:E2; [|discriminate]. injection E as <-.
      eapply struct_eq_trans; [eapply IH; exact E2|apply struct_eq_setc_val].
    + injection E as <-. apply struct_eq_setc_val.
Qed.

Lemma set_val'_struct h c v : struct_eq h (set_val' h c v).
Proof.
  unfold set_val'. destruct (set_val VFUEL h c v) eqn:E; [eapply set_val_struct; exact E|apply struct_eq_refl].
Qed.

Lemma set_receiver_struct h a b : struct_eq h (set_receiver h a b).
Proof.
  unfold set_receiver. eapply struct_eq_trans; [apply set_val'_struct|apply struct_eq_setc_recv].
Qed.

Lemma fold_struct {A} (f : heap -> A -> heap) :
  (forall h a, struct_eq h (f h a)) -> forall l h, struct_eq h (fold_left f l h).
Proof.
  intros F l. induction l as [|a r IH]; simpl; intros h; [apply struct_eq_refl|].
  eapply struct_eq_trans; [apply F|apply IH].
Qed.

(* lookups only read the structure *)
Lemma find_ext {A} (f g : A -> bool) l : (forall x, f x = g x) -> find f l = find g l.
Proof. intros E. induction l as [|x r IH]; simpl; [reflexivity|]. now rewrite E, IH. Qed.
Lemma filter_ext' {A} (f g : A -> bool) l : (forall x, f x = g x) -> filter f l = filter g l.
Proof. intros E. induction l as [|x r IH]; simpl; [reflexivity|]. now rewrite E, IH. Qed.

Definition sig_eq (h h' : heap) : Prop := forall c, csig (ch h' c) = csig (ch h c).

Lemma csig_panel h h' c : csig (ch h' c) = csig (ch h c) -> c_panel (ch h' c) = c_panel (ch h c).
Proof. unfold csig. congruence. Qed.
Lemma csig_label h h' c : csig (ch h' c) = csig (ch h c) -> c_label (ch h' c) = c_label (ch h c).
Proof. unfold csig. congruence. Qed.
Lemma csig_owner h h' c : csig (ch h' c) = csig (ch h c) -> c_owner (ch h' c) = c_owner (ch h c).
Proof. unfold csig. congruence. Qed.

Lemma find_chan_ext h h' i p l :
  sig_eq h h' -> n_chans (nd h' i) = n_chans (nd h i) -> find_chan h' i p l = find_chan h i p l.
Proof.
  intros S N. unfold find_chan. rewrite N. apply find_ext. intros c.
  now rewrite (csig_panel _ _ _ (S c)), (csig_label _ _ _ (S c)).
Qed.
Lemma chans_of_ext h h' i p :
  sig_eq h h' -> n_chans (nd h' i) = n_chans (nd h i) -> chans_of h' i p = chans_of h i p.
Proof.
  intros S N. unfold chans_of. rewrite N. apply filter_ext'. intros c.
  now rewrite (csig_panel _ _ _ (S c)).
Qed.
Lemma struct_sig h h' : struct_eq h h' -> sig_eq h h'.
Proof. intros [_ C] c. apply C. Qed.

Lemma forge_in_struct h i l : struct_eq h (forge_in h i l).
Proof.
  unfold forge_in. destruct (find_chan h i PIn (fst l)); [|apply struct_eq_refl].
  destruct (find_child h i (fst (snd l))); [|apply struct_eq_refl].
  destruct (find_chan h n0 PIn (snd (snd l))); [apply set_receiver_struct|apply struct_eq_refl].
Qed.
Lemma forge_out_struct h i l : struct_eq h (forge_out h i l).
Proof.
  unfold forge_out. destruct (find_child h i (fst (fst l))); [|apply struct_eq_refl].
  destruct (find_chan h i POut (snd l)); [|apply struct_eq_refl].
  destruct (find_chan h n POut (snd (fst l))); [apply set_receiver_struct|apply struct_eq_refl].
Qed.
Lemma forge_links_struct h i a b : struct_eq h (forge_links h i a b).
Proof.
  unfold forge_links. eapply struct_eq_trans.
  - apply (fold_struct (fun h l => forge_in h i l)). intros; apply forge_in_struct.
  - apply (fold_struct (fun h l => forge_out h i l)). intros; apply forge_out_struct.
Qed.

Lemma relink_one_struct h i o : struct_eq h (relink_one h i o).
Proof.
  unfold relink_one. destruct o as [[[orig lab] p] L].
  destruct (find_chan h i p lab) as [new|]; [|apply struct_eq_refl].
  set (h1 := match c_recv (ch h orig) with
             | Some r => match n_parent (nd h i) with
                         | Some pp => if Nat.eqb (c_owner (ch h r)) pp then set_receiver h new r else h
                         | None => h end
             | None => h end).
  assert (S1 : struct_eq h h1).
  { unfold h1. destruct (c_recv (ch h orig)); [|apply struct_eq_refl].
    destruct (n_parent (nd h i)); [|apply struct_eq_refl].
    destruct (Nat.eqb _ _); [apply set_receiver_struct|apply struct_eq_refl]. }
  destruct (n_parent (nd h i)) as [pp|]; [|exact S1].
  destruct (has_links _); [|exact S1].
  eapply struct_eq_trans; [exact S1|]. apply fold_struct. intros h2 pc.
  destruct (c_recv (ch h2 pc)); [|apply struct_eq_refl].
  destruct (Nat.eqb _ _); [|apply struct_eq_refl].
  destruct RELINK_PUSH; [apply set_receiver_struct|apply struct_eq_setc_recv].
Qed.

(* ------------------------------------------------------------------ grafting (Macro._parse_remotely_executed_self, 2nd half) *)
Definition sub1 (orig new c : nat) : nat := if Nat.eqb c orig then new else c.

Definition repoint (orig new : nat) (h : heap) (o : nat) : heap :=
  set_conns h o (map (sub1 orig new) (c_conns (ch h o))).

Lemma sub1_idem orig new c : new <> orig -> sub1 orig new (sub1 orig new c) = sub1 orig new c.
Proof.
  intros N. unfold sub1. destruct (Nat.eqb c orig) eqn:E; [|now rewrite E].
  destruct (Nat.eqb new orig) eqn:E2; [apply Nat.eqb_eq in E2; congruence|reflexivity].
Qed.

Lemma repoint_fold orig new : new <> orig -> forall L h,
  let h' := fold_left (repoint orig new) L h in
  (forall i, nd h' i = nd h i) /\ sig_eq h h' /\
  (forall x, c_conns (ch h' x) = if memn x L then map (sub1 orig new) (c_conns (ch h x)) else c_conns (ch h x)).
Proof.
  intros N L. induction L as [|o r IH]; simpl; intros h.
  - repeat split; auto.
  - destruct (IH (repoint orig new h o)) as (A & B & C). split; [|split].
    + intros i. now rewrite A.
    + intros c. rewrite B. unfold repoint. apply csig_set_conns.
    + intros x. rewrite C. unfold repoint at 1 2. rewrite !conns_set_conns.
      unfold memn; simpl. fold (memn x r). rewrite (Nat.eqb_sym x o).
      destruct (Nat.eqb o x) eqn:E; simpl.
      * apply Nat.eqb_eq in E; subst x. destruct (memn o r); [|reflexivity].
        rewrite map_map. apply map_ext. intros c. now apply sub1_idem.
      * reflexivity.
Qed.

(* one resolved grafting step: new.connections := L ; every member of L re-pointed *)
Definition graft_res (h : heap) (e : nat * nat * list nat) : heap :=
  match e with (orig, new, L) => fold_left (repoint orig new) L (set_conns h new L) end.

Lemma graft_res_spec h orig new L : new <> orig -> ~ In new L ->
  let h' := graft_res h (orig, new, L) in
  (forall i, nd h' i = nd h i) /\ sig_eq h h' /\
  (forall x, c_conns (ch h' x) =
             if Nat.eqb new x then L
             else if memn x L then map (sub1 orig new) (c_conns (ch h x)) else c_conns (ch h x)).
Proof.
  intros N NI. simpl. destruct (repoint_fold orig new N L (set_conns h new L)) as (A & B & C).
  split; [|split].
  - intros i. now rewrite A.
  - intros c. rewrite B. apply csig_set_conns.
  - intros x. rewrite C, conns_set_conns. destruct (Nat.eqb new x) eqn:E.
    + apply Nat.eqb_eq in E; subst x. apply memn_false in NI. now rewrite NI.
    + reflexivity.
Qed.

Definition e_orig (e : nat * nat * list nat) := fst (fst e).
Definition e_new (e : nat * nat * list nat) := snd (fst e).
Definition e_L (e : nat * nat * list nat) := snd e.

Fixpoint sub_all (es : list (nat * nat * list nat)) (c : nat) : nat :=
  match es with
  | [] => c
  | e :: r => if Nat.eqb c (e_orig e) then e_new e else sub_all r c
  end.

Lemma sub_all_notin es c : ~ In c (map e_orig es) -> sub_all es c = c.
Proof.
  induction es as [|e r IH]; simpl; intros N; [reflexivity|].
  destruct (Nat.eqb c (e_orig e)) eqn:E.
  - apply Nat.eqb_eq in E. subst c. tauto.
  - apply IH. tauto.
Qed.

(* the whole grafting loop over resolved entries *)
Lemma graft_all_spec : forall es h,
  NoDup (map e_new es) ->
  (forall e e', In e es -> In e' es -> e_new e <> e_orig e') ->          (* fresh channels are not old ones   *)
  (forall e e', In e es -> In e' es -> ~ In (e_new e) (e_L e')) ->       (* ... nor anybody's neighbour       *)
  (forall e e', In e es -> In e' es -> ~ In (e_orig e) (e_L e')) ->      (* no connection between own channels *)
  (forall e x, In e es -> In (e_orig e) (c_conns (ch h x)) -> In x (e_L e)) ->   (* who lists an old channel is listed by it *)
  let h' := fold_left graft_res es h in
  (forall i, nd h' i = nd h i) /\ sig_eq h h' /\
  (forall x, ~ In x (map e_new es) -> c_conns (ch h' x) = map (sub_all es) (c_conns (ch h x))) /\
  (forall e, In e es -> c_conns (ch h' (e_new e)) = e_L e).
Proof.
  induction es as [|e r IH]; intros h ND NO NL OL SY; simpl.
  - repeat split; auto. intros x _. now rewrite map_id. intros e [].
  - destruct e as [[orig new] L]. simpl in ND. inversion ND as [|? ? NIn ND']; subst.
    assert (N1 : new <> orig) by (apply (NO (orig, new, L) (orig, new, L)); left; reflexivity).
    assert (N2 : ~ In new L) by (apply (NL (orig, new, L) (orig, new, L)); left; reflexivity).
    destruct (graft_res_spec h orig new L N1 N2) as (A & B & C).
    set (h1 := graft_res h (orig, new, L)) in *.
    assert (SY1 : forall e x, In e r -> In (e_orig e) (c_conns (ch h1 x)) -> In x (e_L e)).
    { intros e x Ie. rewrite C. destruct (Nat.eqb new x) eqn:E1.
      - intros HI. exfalso. apply (OL e (orig, new, L)); [right; exact Ie|left; reflexivity|exact HI].
      - destruct (memn x L) eqn:E2.
        + rewrite in_map_iff. intros (y & Hy & Iy). apply (SY e x); [right; exact Ie|].
          unfold sub1 in Hy. destruct (Nat.eqb y orig) eqn:E3.
          * exfalso. apply (NO (orig, new, L) e); [left; reflexivity|right; exact Ie|exact Hy].
          * now subst y.
        + intros HI. apply (SY e x); [right; exact Ie|exact HI]. }
    destruct (IH h1 ND') as (A' & B' & C' & D').
    { intros e e' I I'. apply NO; right; assumption. }
    { intros e e' I I'. apply NL; right; assumption. }
    { intros e e' I I'. apply OL; right; assumption. }
    { exact SY1. }
    split; [|split; [|split]].
    + intros i. now rewrite A', A.
    + intros c. now rewrite B', B.
    + intros x NX. simpl in NX. assert (new <> x) by tauto. assert (~ In x (map e_new r)) by tauto.
      rewrite C' by assumption. rewrite C. apply Nat.eqb_neq in H. rewrite H.
      destruct (memn x L) eqn:E2.
      * rewrite map_map. apply map_ext. intros y. unfold sub1. simpl. unfold e_orig, e_new; simpl.
        destruct (Nat.eqb y orig) eqn:E3; [|reflexivity].
        apply sub_all_notin. intros HI. apply in_map_iff in HI. destruct HI as (e' & He' & Ie').
        apply (NO (orig, new, L) e'); [left; reflexivity|right; exact Ie'|now rewrite He'].
      * apply map_ext_in. intros y Iy. simpl. unfold e_orig at 1; simpl.
        destruct (Nat.eqb y orig) eqn:E3; [|reflexivity]. apply Nat.eqb_eq in E3; subst y. exfalso.
        apply memn_false in E2. apply E2. apply (SY (orig, new, L) x); [left; reflexivity|exact Iy].
    + intros e [<-|Ie].
      * unfold e_new, e_L; simpl. rewrite C' by exact NIn. rewrite C, Nat.eqb_refl.
        rewrite <- (map_id L) at 2. apply map_ext_in. intros y Iy. apply sub_all_notin.
        intros HI. apply in_map_iff in HI. destruct HI as (e' & He' & Ie').
        apply (OL e' (orig, new, L)); [right; exact Ie'|left; reflexivity|now rewrite He'].
      * apply D'. exact Ie.
Qed.

(* ------------------------------------------------------------------ connect / disconnect stay inside a closed set *)
Definition off_eq (KS : list nat) (h h' : heap) : Prop := forall x, ~ In x KS -> ch h' x = ch h x.
Definition closed (KS : list nat) (h : heap) : Prop :=
  forall a b, In a KS -> In b (c_conns (ch h a)) -> In b KS.
Definition nodes_eq (h h' : heap) : Prop := forall i, nd h' i = nd h i.

Record ks_rel (KS : list nat) (h h' : heap) : Prop := mkKs {
  ks_nodes : nodes_eq h h';
  ks_sig : sig_eq h h';
  ks_off : off_eq KS h h' }.

Lemma ks_refl KS h : ks_rel KS h h.
Proof. split; intro; intros; auto. Qed.
Lemma ks_trans KS a b c : ks_rel KS a b -> ks_rel KS b c -> ks_rel KS a c.
Proof.
  intros [N1 S1 O1] [N2 S2 O2]. split.
  - intros i. now rewrite N2, N1.
  - intros x. now rewrite S2, S1.
  - intros x Hx. now rewrite O2, O1.
Qed.

Lemma ks_set_conns KS h a l : In a KS -> ks_rel KS h (set_conns h a l).
Proof.
  intros Ia. split.
  - intros i. reflexivity.
  - intros c. apply csig_set_conns.
  - intros x Hx. apply ch_set_conns_neq. intros ->. tauto.
Qed.

Lemma remove1_incl x l : incl (remove1 Nat.eqb x l) l.
Proof.
  induction l as [|y r IH]; simpl; [apply incl_refl|].
  destruct (Nat.eqb x y); [apply incl_tl, incl_refl|].
  intros z [->|Hz]; [left; reflexivity|right; apply IH, Hz].
Qed.

Definition shrinks (h h' : heap) : Prop := forall x, incl (c_conns (ch h' x)) (c_conns (ch h x)).
Lemma shrinks_refl h : shrinks h h. Proof. intros x. apply incl_refl. Qed.
Lemma shrinks_trans a b c : shrinks a b -> shrinks b c -> shrinks a c.
Proof. intros A B x. eapply incl_tran; [apply B|apply A]. Qed.
Lemma shrinks_set_conns h a l : incl l (c_conns (ch h a)) -> shrinks h (set_conns h a l).
Proof.
  intros I x. rewrite conns_set_conns. destruct (Nat.eqb a x) eqn:E; [|apply incl_refl].
  apply Nat.eqb_eq in E; now subst.
Qed.
Lemma closed_shrinks KS h h' : closed KS h -> shrinks h h' -> closed KS h'.
Proof. intros C S a b Ia Ib. apply (C a b Ia). apply (S a), Ib. Qed.

Lemma disconnect_ks KS h a b : In a KS -> In b KS ->
  ks_rel KS h (disconnect h a b) /\ shrinks h (disconnect h a b).
Proof.
  intros Ia Ib. unfold disconnect. destruct (memn b (c_conns (ch h a))); [|split; [apply ks_refl|apply shrinks_refl]].
  split.
  - eapply ks_trans; apply ks_set_conns; assumption.
  - eapply shrinks_trans; apply shrinks_set_conns; apply remove1_incl.
Qed.

Lemma fold_ks_shrinks {A} KS (f : heap -> A -> heap) (P : A -> Prop) :
  (forall h a, P a -> ks_rel KS h (f h a) /\ shrinks h (f h a)) ->
  forall l h, (forall a, In a l -> P a) -> ks_rel KS h (fold_left f l h) /\ shrinks h (fold_left f l h).
Proof.
  intros F l. induction l as [|a r IH]; simpl; intros h HP; [split; [apply ks_refl|apply shrinks_refl]|].
  destruct (F h a (HP a (or_introl eq_refl))) as [K1 S1].
  destruct (IH (f h a) (fun x Hx => HP x (or_intror Hx))) as [K2 S2].
  split; [eapply ks_trans; eassumption|eapply shrinks_trans; eassumption].
Qed.

Lemma disconnect_all_ks KS h a : In a KS -> closed KS h ->
  ks_rel KS h (disconnect_all h a) /\ shrinks h (disconnect_all h a).
Proof.
  intros Ia C. unfold disconnect_all.
  apply (fold_ks_shrinks KS (fun h b => disconnect h a b) (fun b => In b KS)).
  - intros h0 b Ib. now apply disconnect_ks.
  - intros b Ib. apply (C a b Ia Ib).
Qed.

Lemma node_disconnect_ks KS : forall l h, (forall a, In a l -> In a KS) -> closed KS h ->
  ks_rel KS h (fold_left disconnect_all l h) /\ shrinks h (fold_left disconnect_all l h).
Proof.
  induction l as [|a r IH]; simpl; intros h HI C; [split; [apply ks_refl|apply shrinks_refl]|].
  destruct (disconnect_all_ks KS h a (HI a (or_introl eq_refl)) C) as [K1 S1].
  destruct (IH (disconnect_all h a) (fun x Hx => HI x (or_intror Hx)) (closed_shrinks _ _ _ C S1)) as [K2 S2].
  split; [eapply ks_trans; eassumption|eapply shrinks_trans; eassumption].
Qed.

Lemma connect_ks KS h a b : In a KS -> In b KS -> closed KS h ->
  ks_rel KS h (connect h a b) /\ closed KS (connect h a b).
Proof.
  intros Ia Ib C. unfold connect. destruct (memn b (c_conns (ch h a))); [split; [apply ks_refl|exact C]|].
  split.
  - eapply ks_trans; apply ks_set_conns; assumption.
  - intros x y Ix. rewrite !conns_set_conns.
    destruct (Nat.eqb b x) eqn:E1.
    + intros [<-|Hy]; [exact Ia|]. revert Hy.
      destruct (Nat.eqb a b) eqn:E2.
      * intros [<-|Hy]; [exact Ib|apply (C a y Ia Hy)].
      * apply (C b y Ib).
    + destruct (Nat.eqb a x) eqn:E2.
      * apply Nat.eqb_eq in E2; subst x. intros [<-|Hy]; [exact Ib|apply (C a y Ia Hy)].
      * apply (C x y Ix).
Qed.

(* ------------------------------------------------------------------ re-adopting the copy's children *)
Section Adopt.
  Variables (KS : list nat) (i c2 : nat).
  Hypothesis Hic : i <> c2.

  Record ainv (h0 h : heap) (kids : list nat) : Prop := mkAinv {
    ai_off : off_eq KS h0 h;
    ai_closed : closed KS h;
    ai_sig : sig_eq h0 h;
    ai_other : forall j, j <> c2 -> ~ In j kids -> nd h j = nd h0 j;
    ai_kid : forall k, In k kids ->
               exists p d, nd h k = n_with_parent (nd h0 k) p d /\ (p = Some c2 \/ p = Some i) }.

  Lemma with_parent_twice n p d p' d' : n_with_parent (n_with_parent n p d) p' d' = n_with_parent n p' d'.
  Proof. reflexivity. Qed.

  Lemma adopt_step h0 h kids k :
    ainv h0 h kids -> In k kids -> ~ In c2 kids -> k <> i ->
    (forall a, In a (n_chans (nd h0 k)) -> In a KS) ->
    let h' := adopt h i k in
    ainv h0 h' kids /\ n_parent (nd h' k) = Some i /\
    (forall k', k' <> k -> k' <> c2 -> nd h' k' = nd h k').
  Proof.
    intros [Off Cl Sg Ot Kd] Ik Nc2 Nki Sub. simpl.
    assert (Nkc : k <> c2) by (intros ->; tauto).
    destruct (Kd k Ik) as (p & d & Ek & Par). unfold adopt.
    assert (Pk : n_parent (nd h k) = p) by (rewrite Ek; reflexivity).
    assert (Chk : n_chans (nd h k) = n_chans (nd h0 k)) by (rewrite Ek; reflexivity).
    rewrite Pk. destruct Par as [-> | ->].
    2:{ rewrite Nat.eqb_refl. split; [split; assumption|]. split; [exact Pk|reflexivity]. }
    destruct (Nat.eqb c2 i) eqn:E; [apply Nat.eqb_eq in E; congruence|].
    set (h1 := if memn k (n_children (nd h c2)) then release_from h c2 k else h).
    assert (H1 : (forall x, ~ In x KS -> ch h1 x = ch h x) /\ closed KS h1 /\ sig_eq h h1 /\
                 (forall j, j <> c2 -> j <> k -> nd h1 j = nd h j) /\
                 exists p' d', nd h1 k = n_with_parent (nd h0 k) p' d').
    { unfold h1. destruct (memn k (n_children (nd h c2))).
      2:{ split; [reflexivity|]. split; [exact Cl|]. split; [intro; reflexivity|]. split; [reflexivity|].
          now exists (Some c2), d. }
      unfold release_from.
      set (hA := setn h c2 _). set (hB := setn hA k _).
      assert (ChB : forall x, ch hB x = ch h x) by reflexivity.
      assert (NkB : nd hB k = n_with_parent (nd h0 k) None None).
      { unfold hB. rewrite nd_setn_eq. unfold hA. rewrite nd_setn_neq by congruence. rewrite Ek. reflexivity. }
      assert (ClB : closed KS hB) by (intros a b; rewrite ChB; apply Cl).
      unfold node_disconnect.
      destruct (node_disconnect_ks KS (n_chans (nd hB k)) hB) as [[Nn Ss Oo] Sh].
      { rewrite NkB. exact Sub. }
      { exact ClB. }
      repeat split.
      - intros x Hx. now rewrite Oo, ChB.
      - eapply closed_shrinks; eassumption.
      - intros x. rewrite Ss. unfold csig. now rewrite ChB.
      - intros j J1 J2. rewrite Nn. unfold hB, hA. rewrite !nd_setn_neq by congruence. reflexivity.
      - exists None, None. rewrite Nn. exact NkB. }
    destruct H1 as (O1 & C1 & S1 & N1 & (p' & d' & K1)).
    split; [split|split].
    - intros x Hx. rewrite ch_setn, O1 by exact Hx. now apply Off.
    - intros a b. rewrite !ch_setn. apply C1.
    - intros x. rewrite ch_setn. now rewrite S1, Sg.
    - intros j J1 J2. assert (j <> k) by (intros ->; tauto).
      rewrite nd_setn_neq by congruence. rewrite N1 by assumption. now apply Ot.
    - intros k' Ik'. destruct (Nat.eq_dec k' k) as [->|Nk].
      + rewrite nd_setn_eq. exists (Some i), None. rewrite K1. split; [reflexivity|now right].
      + rewrite nd_setn_neq by congruence.
        destruct (Nat.eq_dec k' c2) as [->|Nc]; [tauto|].
        rewrite N1 by assumption. apply Kd, Ik'.
    - now rewrite nd_setn_eq.
    - intros k' Nk Nc. rewrite nd_setn_neq by congruence. now apply N1.
  Qed.

  Lemma adopt_fold h0 kids : ~ In c2 kids -> ~ In i kids ->
    (forall k a, In k kids -> In a (n_chans (nd h0 k)) -> In a KS) ->
    forall l h, incl l kids -> ainv h0 h kids ->
    let h' := fold_left (fun h k => adopt h i k) l h in
    ainv h0 h' kids /\
    (forall k, In k l -> n_parent (nd h' k) = Some i) /\
    (forall k, In k kids -> n_parent (nd h k) = Some i -> n_parent (nd h' k) = Some i) /\
    (forall j, ~ In j kids -> j <> c2 -> nd h' j = nd h j).
  Proof.
    intros Nc2 Ni Sub l. induction l as [|k r IH]; simpl; intros h Inc Inv.
    - repeat split; auto; try apply Inv. intros k [].
    - assert (Ik : In k kids) by (apply Inc; left; reflexivity).
      assert (Nki : k <> i) by (intros ->; tauto).
      destruct (adopt_step h0 h kids k Inv Ik Nc2 Nki (fun a => Sub k a Ik)) as (Inv1 & P1 & Oth1).
      destruct (IH (adopt h i k) (fun x Hx => Inc x (or_intror Hx)) Inv1) as (Inv2 & P2 & Keep2 & Oth2).
      split; [exact Inv2|split; [|split]].
      + intros k0 [<-|Hk]; [apply Keep2; assumption|apply P2, Hk].
      + intros k0 Ik0 Pk0. apply Keep2; [exact Ik0|].
        destruct (Nat.eq_dec k0 k) as [->|Nk]; [exact P1|].
        rewrite Oth1; [exact Pk0|exact Nk|intros ->; tauto].
      + intros j Nj Njc. rewrite Oth2 by assumption. apply Oth1; [intros ->; tauto|exact Njc].
  Qed.
End Adopt.

(* ------------------------------------------------------------------ restoring the children's connections *)
Lemma find_child_in h i l k : find_child h i l = Some k -> In k (n_children (nd h i)).
Proof. unfold find_child. intros E. apply find_some in E. tauto. Qed.

Lemma find_chan_in h i p l c : find_chan h i p l = Some c ->
  In c (n_chans (nd h i)) /\ c_panel (ch h c) = p /\ c_label (ch h c) = l.
Proof.
  unfold find_chan. intros E. apply find_some in E. destruct E as [I E].
  apply andb_true_iff in E. destruct E as [E1 E2]. split; [exact I|]. split.
  - destruct (c_panel (ch h c)), p; simpl in E1; congruence.
  - now apply String.eqb_eq.
Qed.

Definition kids_in (KS : list nat) (h : heap) (i : nat) : Prop :=
  forall k a, In k (n_children (nd h i)) -> In a (n_chans (nd h k)) -> In a KS.

Lemma kids_in_nodes KS h h' i : nodes_eq h h' -> kids_in KS h i -> kids_in KS h' i.
Proof. intros N K k a. rewrite !N. apply K. Qed.

Lemma connect_by_labels_ks KS pi po h i io : kids_in KS h i -> closed KS h ->
  ks_rel KS h (connect_by_labels pi po h i io) /\ closed KS (connect_by_labels pi po h i io).
Proof.
  intros K C. unfold connect_by_labels.
  destruct (find_child h i (fst (fst io))) as [ki|] eqn:E1; [|split; [apply ks_refl|exact C]].
  destruct (find_child h i (fst (snd io))) as [ko|] eqn:E2; [|split; [apply ks_refl|exact C]].
  destruct (find_chan h ki pi (snd (fst io))) as [a|] eqn:E3; [|split; [apply ks_refl|exact C]].
  destruct (find_chan h ko po (snd (snd io))) as [b|] eqn:E4; [|split; [apply ks_refl|exact C]].
  apply connect_ks; [| |exact C].
  - apply (K ki a); [eapply find_child_in; eassumption|eapply find_chan_in; eassumption].
  - apply (K ko b); [eapply find_child_in; eassumption|eapply find_chan_in; eassumption].
Qed.

Lemma connect_fold_ks KS pi po i : forall l h, kids_in KS h i -> closed KS h ->
  let h' := fold_left (fun h io => connect_by_labels pi po h i io) l h in
  ks_rel KS h h' /\ closed KS h'.
Proof.
  induction l as [|io r IH]; simpl; intros h K C; [split; [apply ks_refl|exact C]|].
  destruct (connect_by_labels_ks KS pi po h i io K C) as [R1 C1].
  destruct (IH _ (kids_in_nodes _ _ _ _ (ks_nodes _ _ _ R1) K) C1) as [R2 C2].
  split; [eapply ks_trans; eassumption|exact C2].
Qed.

Lemma restore_conns_ks KS h i d s : kids_in KS h i -> closed KS h ->
  ks_rel KS h (restore_conns h i d s) /\ closed KS (restore_conns h i d s).
Proof.
  intros K C. unfold restore_conns.
  destruct (connect_fold_ks KS PIn POut i (rev d) h K C) as [R1 C1].
  destruct (connect_fold_ks KS SIn SOut i s _ (kids_in_nodes _ _ _ _ (ks_nodes _ _ _ R1) K) C1) as [R2 C2].
  split; [eapply ks_trans; eassumption|exact C2].
Qed.

(* ------------------------------------------------------------------ small stages of the merge *)
Lemma unparent_fold : forall l h,
  let h' := fold_left (fun h k => setn h k (n_with_parent (nd h k) None None)) l h in
  (forall x, ch h' x = ch h x) /\ (forall j, ~ In j l -> nd h' j = nd h j).
Proof.
  induction l as [|k r IH]; simpl; intros h; [split; reflexivity|].
  destruct (IH (setn h k (n_with_parent (nd h k) None None))) as [A B]. split.
  - intros x. now rewrite A.
  - intros j Nj. rewrite B by tauto. apply nd_setn_neq. intros ->. tauto.
Qed.

Lemma owner_fold i : forall l h,
  let h' := fold_left (fun h c => setc h c (c_with_owner (ch h c) i)) l h in
  (forall j, nd h' j = nd h j) /\
  (forall x, c_conns (ch h' x) = c_conns (ch h x) /\ c_label (ch h' x) = c_label (ch h x) /\
             c_panel (ch h' x) = c_panel (ch h x)) /\
  (forall x, In x l -> c_owner (ch h' x) = i) /\
  (forall x, c_owner (ch h x) = i -> c_owner (ch h' x) = i).
Proof.
  induction l as [|c r IH]; simpl; intros h.
  - repeat split; auto. intros x [].
  - destruct (IH (setc h c (c_with_owner (ch h c) i))) as (A & B & C & D).
    assert (E : forall x, c_conns (ch (setc h c (c_with_owner (ch h c) i)) x) = c_conns (ch h x) /\
                          c_label (ch (setc h c (c_with_owner (ch h c) i)) x) = c_label (ch h x) /\
                          c_panel (ch (setc h c (c_with_owner (ch h c) i)) x) = c_panel (ch h x)).
    { intros x. destruct (Nat.eq_dec c x) as [->|N]; [rewrite ch_setc_eq|rewrite ch_setc_neq by exact N]; auto. }
    split; [|split; [|split]].
    + intros j. now rewrite A.
    + intros x. destruct (B x) as (B1 & B2 & B3), (E x) as (E1 & E2 & E3). repeat split; congruence.
    + intros x [<-|Hx]; [|apply C, Hx]. apply D. now rewrite ch_setc_eq.
    + intros x Hx. apply D. destruct (Nat.eq_dec c x) as [->|N]; [now rewrite ch_setc_eq|].
      now rewrite ch_setc_neq by exact N.
Qed.

Lemma node_eta n : n_with_parent n (n_parent n) (n_detached n) = n.
Proof. destruct n; reflexivity. Qed.

Lemma find_chan_ext2 h h' i j p l :
  sig_eq h h' -> n_chans (nd h' i) = n_chans (nd h j) -> find_chan h' i p l = find_chan h j p l.
Proof.
  intros S N. unfold find_chan. rewrite N. apply find_ext. intros c.
  now rewrite (csig_panel _ _ _ (S c)), (csig_label _ _ _ (S c)).
Qed.

(* graft_one with a resolved fresh channel is graft_res *)
Lemma graft_one_res h i orig lab p L new :
  find_chan h i p lab = Some new -> graft_one h i (orig, lab, p, L) = graft_res h (orig, new, L).
Proof. intros E. unfold graft_one. rewrite E. reflexivity. Qed.

Definition local_data (h : heap) (i : nat) : list (nat * string * panel * list nat) :=
  map (fun c => (c, c_label (ch h c), c_panel (ch h c), c_conns (ch h c))) (n_chans (nd h i)).

(* the fresh counterpart of an old channel: same panel and label in the copy's panels *)
Definition fresh_of (h : heap) (c2 : nat) (c : nat) : nat :=
  match find_chan h c2 (c_panel (ch h c)) (c_label (ch h c)) with Some n => n | None => c end.

Definition resolved (h : heap) (c2 : nat) (origs : list nat) : list (nat * nat * list nat) :=
  map (fun o => (o, fresh_of h c2 o, c_conns (ch h o))) origs.

Lemma graft_res_frame h e : (forall j, nd (graft_res h e) j = nd h j) /\ sig_eq h (graft_res h e).
Proof.
  destruct e as [[orig new] L]. simpl.
  assert (G : forall l h1, (forall j, nd (fold_left (repoint orig new) l h1) j = nd h1 j) /\
                           sig_eq h1 (fold_left (repoint orig new) l h1)).
  { induction l as [|o r IH]; simpl; intros h1; [split; [reflexivity|intro; reflexivity]|].
    destruct (IH (repoint orig new h1 o)) as [A B]. split.
    - intros j. now rewrite A.
    - intros c. rewrite B. apply csig_set_conns. }
  destruct (G L (set_conns h new L)) as [A B]. split.
  - intros j. now rewrite A.
  - intros c. rewrite B. apply csig_set_conns.
Qed.

Lemma graft_fold_res h0 c2 i : forall origs h,
  (forall o, In o origs -> exists n, find_chan h0 c2 (c_panel (ch h0 o)) (c_label (ch h0 o)) = Some n) ->
  sig_eq h0 h -> n_chans (nd h i) = n_chans (nd h0 c2) ->
  fold_left (fun h o => graft_one h i o)
            (map (fun c => (c, c_label (ch h0 c), c_panel (ch h0 c), c_conns (ch h0 c))) origs) h
  = fold_left graft_res (resolved h0 c2 origs) h.
Proof.
  induction origs as [|o r IH]; simpl; intros h M S N; [reflexivity|].
  destruct (M o (or_introl eq_refl)) as [n En].
  assert (F : find_chan h i (c_panel (ch h0 o)) (c_label (ch h0 o)) = Some n).
  { rewrite (find_chan_ext2 h0 h i c2) by assumption. exact En. }
  rewrite F. replace (fresh_of h0 c2 o) with n by (unfold fresh_of; now rewrite En).
  destruct (graft_res_frame h (o, n, c_conns (ch h0 o))) as [A B].
  change (fold_left (repoint o n) (c_conns (ch h0 o)) (set_conns h n (c_conns (ch h0 o))))
    with (graft_res h (o, n, c_conns (ch h0 o))).
  change (fold_left (fun (h1 : heap) (o0 : nat) =>
                       set_conns h1 o0 (map (fun c : nat => if Nat.eqb c o then n else c) (c_conns (ch h1 o0))))
                    (c_conns (ch h0 o)) (set_conns h n (c_conns (ch h0 o))))
    with (graft_res h (o, n, c_conns (ch h0 o))).
  apply IH.
  - intros; apply M; now right.
  - intros c. now rewrite B, S.
  - now rewrite A.
Qed.

(* ------------------------------------------------------------------ the merge, for every heap *)

(* i: the local composite; c2: the copy that came back (a separate object graph) *)
Record merge_pre (h : heap) (i c2 : nat) : Prop := mkMP {
  mp_ne : i <> c2;
  mp_kids_c2 : ~ In c2 (n_children (nd h c2));
  mp_kids_i : ~ In i (n_children (nd h c2));
  mp_old : forall k, In k (n_children (nd h i)) -> k <> i /\ k <> c2 /\ ~ In k (n_children (nd h c2));
  mp_par : forall k, In k (n_children (nd h c2)) -> n_parent (nd h k) = Some c2;
  mp_closed : closed (kidchans h c2) h;
  mp_disj_o : forall o, In o (n_chans (nd h i)) -> ~ In o (kidchans h c2) /\ ~ In o (n_chans (nd h c2));
  mp_disj_n : forall n, In n (n_chans (nd h c2)) -> ~ In n (kidchans h c2);
  mp_nb : forall o x, In o (n_chans (nd h i)) -> In x (c_conns (ch h o)) ->
            ~ In x (kidchans h c2) /\ ~ In x (n_chans (nd h c2)) /\ ~ In x (n_chans (nd h i));
  mp_sym : forall o x, In o (n_chans (nd h i)) -> In o (c_conns (ch h x)) -> In x (c_conns (ch h o));
  mp_match : forall o, In o (n_chans (nd h i)) ->
               exists n, find_chan h c2 (c_panel (ch h o)) (c_label (ch h o)) = Some n;
  mp_keys : NoDup (map (ckey h) (n_chans (nd h i))) }.

Definition grafts (mode : mmode) (k : nkind) : bool :=
  match mode, k with AsWritten, _ => true | Unpatched, KMacro => true | _, _ => false end.

Definition fresh_sub (h : heap) (i c2 : nat) (c : nat) : nat :=
  if memn c (n_chans (nd h i)) then fresh_of h c2 c else c.

Lemma sub_all_resolved h c2 : forall origs c,
  sub_all (resolved h c2 origs) c = if memn c origs then fresh_of h c2 c else c.
Proof.
  induction origs as [|o r IH]; intros c; simpl; [reflexivity|].
  unfold e_orig, e_new; simpl. unfold memn; simpl. fold (memn c r).
  destruct (Nat.eqb c o) eqn:E; simpl.
  - apply Nat.eqb_eq in E. now subst.
  - apply IH.
Qed.

Lemma fresh_of_spec h c2 o n : find_chan h c2 (c_panel (ch h o)) (c_label (ch h o)) = Some n ->
  fresh_of h c2 o = n /\ In n (n_chans (nd h c2)) /\ ckey h n = ckey h o.
Proof.
  intros E. unfold fresh_of. rewrite E. split; [reflexivity|].
  apply find_chan_in in E. destruct E as (I & P & L). split; [exact I|]. unfold ckey. now rewrite P, L.
Qed.

Lemma NoDup_map_from {A B C} (f : A -> B) (g : A -> C) (k : B -> C) l :
  (forall x, In x l -> k (f x) = g x) -> NoDup (map g l) -> NoDup (map f l).
Proof.
  intros E ND. apply (NoDup_map_inv k). rewrite map_map.
  rewrite (map_ext_in _ g); [exact ND|exact E].
Qed.

(* the merge cut into its stages (definitionally the same function) *)
Definition m_h1 (h : heap) (i : nat) : heap :=
  fold_left (fun h k => setn h k (n_with_parent (nd h k) None None)) (n_children (nd h i)) h.
Definition m_h2 (h : heap) (i c2 : nat) : heap :=
  set_flags (m_h1 h i) c2 false (n_failed (nd (m_h1 h i) c2)).
Definition m_h3 (mode : mmode) (h : heap) (i c2 : nat) : heap :=
  let h2 := m_h2 h i c2 in
  let n := nd h i in
  let o := nd h2 c2 in
  setn h2 i (mkNode (n_label o) (n_kind n) (n_parent n)
                    (match mode with Unpatched => n_detached o | AsWritten => n_detached n end)
                    (n_exec n) (n_running o) (n_failed o) (n_children o) (n_chans o)
                    (lookup_children h2 (n_children o) (map (fun s => n_label (nd h2 s)) (n_starting o)))).
Definition m_h4 (mode : mmode) (h : heap) (i c2 : nat) : heap :=
  fold_left (fun h k => adopt h i k) (n_children (nd (m_h2 h i c2) c2)) (m_h3 mode h i c2).
Definition m_h5 (mode : mmode) (h : heap) (i c2 : nat) : heap :=
  let h2 := m_h2 h i c2 in
  restore_conns (m_h4 mode h i c2) i (conn_strings h2 (n_children (nd h2 c2)) PIn)
                (conn_strings h2 (n_children (nd h2 c2)) SIn).
Definition m_h6 (mode : mmode) (h : heap) (i c2 : nat) : heap :=
  let h2 := m_h2 h i c2 in
  let o := nd h2 c2 in
  if has_links (n_kind (nd h i))
  then forge_links (m_h5 mode h i c2) i
         (if has_links (n_kind o) then match links_in h2 (chans_of h2 c2 PIn) with Some l => l | None => [] end else [])
         (if has_links (n_kind o) then links_out h2 (n_children o) else [])
  else m_h5 mode h i c2.
Definition m_h7 (mode : mmode) (h : heap) (i c2 : nat) : heap :=
  if grafts mode (n_kind (nd h i))
  then fold_left (fun h o => graft_one h i o) (local_data h i) (m_h6 mode h i c2)
  else m_h6 mode h i c2.
Definition m_final (mode : mmode) (h : heap) (i c2 : nat) : heap :=
  match mode with
  | Unpatched => m_h7 mode h i c2
  | AsWritten =>
      let h7 := m_h7 mode h i c2 in
      let h8 := fold_left (fun h c => setc h c (c_with_owner (ch h c) i)) (n_chans (nd h7 i)) h7 in
      fold_left (fun h o => relink_one h i o) (local_data h i) h8
  end.

Lemma merge_remote_staged mode h i c2 : merge_remote mode h i c2 = m_final mode h i c2.
Proof.
  unfold merge_remote, m_final, m_h7, m_h6, m_h5, m_h4, m_h3, m_h2, m_h1, local_data, grafts.
  destruct mode, (n_kind (nd h i)); reflexivity.
Qed.

Section MergeStages.
  Variables (mode : mmode) (h : heap) (i c2 : nat).
  Hypothesis MP : merge_pre h i c2.
  Let KS := kidchans h c2.
  Let kids := n_children (nd h c2).

  Lemma st1 : (forall x, ch (m_h1 h i) x = ch h x) /\
              (forall j, ~ In j (n_children (nd h i)) -> nd (m_h1 h i) j = nd h j).
  Proof. apply unparent_fold. Qed.

  Lemma not_old_i : ~ In i (n_children (nd h i)).
  Proof. intros I. destruct (mp_old _ _ _ MP i I) as [N _]. congruence. Qed.
  Lemma not_old_c2 : ~ In c2 (n_children (nd h i)).
  Proof. intros I. destruct (mp_old _ _ _ MP c2 I) as (_ & N & _). congruence. Qed.
  Lemma not_old_kid k : In k kids -> ~ In k (n_children (nd h i)).
  Proof. intros Ik I. destruct (mp_old _ _ _ MP k I) as (_ & _ & N). exact (N Ik). Qed.

  Lemma st2_c2 : nd (m_h2 h i c2) c2 = n_with_flags (nd h c2) false (n_failed (nd h c2)).
  Proof.
    unfold m_h2, set_flags. rewrite nd_setn_eq. destruct st1 as [_ B]. now rewrite (B c2 not_old_c2).
  Qed.
  Lemma st2_other j : j <> c2 -> ~ In j (n_children (nd h i)) -> nd (m_h2 h i c2) j = nd h j.
  Proof.
    intros N NI. unfold m_h2, set_flags. rewrite nd_setn_neq by congruence. destruct st1 as [_ B]. now apply B.
  Qed.
  Lemma st2_ch x : ch (m_h2 h i c2) x = ch h x.
  Proof. unfold m_h2, set_flags. rewrite ch_setn. apply st1. Qed.

  Lemma st2_kids : n_children (nd (m_h2 h i c2) c2) = kids.
  Proof. now rewrite st2_c2. Qed.

  Lemma st3_i : nd (m_h3 mode h i c2) i =
    mkNode (n_label (nd h c2)) (n_kind (nd h i)) (n_parent (nd h i))
           (match mode with Unpatched => n_detached (nd h c2) | AsWritten => n_detached (nd h i) end)
           (n_exec (nd h i)) false (n_failed (nd h c2)) kids (n_chans (nd h c2))
           (lookup_children (m_h2 h i c2) kids
              (map (fun s => n_label (nd (m_h2 h i c2) s)) (n_starting (nd h c2)))).
  Proof. unfold m_h3. rewrite nd_setn_eq, st2_c2. reflexivity. Qed.
  Lemma st3_other j : j <> i -> nd (m_h3 mode h i c2) j = nd (m_h2 h i c2) j.
  Proof. intros N. unfold m_h3. now rewrite nd_setn_neq by congruence. Qed.
  Lemma st3_ch x : ch (m_h3 mode h i c2) x = ch h x.
  Proof. unfold m_h3. rewrite ch_setn. apply st2_ch. Qed.

  Lemma st3_kid k : In k kids -> nd (m_h3 mode h i c2) k = nd h k.
  Proof.
    intros Ik. assert (k <> i) by (intros ->; exact (mp_kids_i _ _ _ MP Ik)).
    assert (k <> c2) by (intros ->; exact (mp_kids_c2 _ _ _ MP Ik)).
    rewrite st3_other by assumption. apply st2_other; [assumption|now apply not_old_kid].
  Qed.

  Lemma st3_inv : ainv KS i c2 (m_h3 mode h i c2) (m_h3 mode h i c2) kids.
  Proof.
    split.
    - intros x _. reflexivity.
    - intros a b. rewrite !st3_ch. apply (mp_closed _ _ _ MP).
    - intros c. reflexivity.
    - reflexivity.
    - intros k Ik. exists (Some c2), (n_detached (nd (m_h3 mode h i c2) k)). split; [|now left].
      rewrite <- (node_eta (nd (m_h3 mode h i c2) k)) at 1. f_equal.
      rewrite st3_kid by exact Ik. now apply (mp_par _ _ _ MP).
  Qed.

  Lemma kid_chans_in k a : In k kids -> In a (n_chans (nd (m_h3 mode h i c2) k)) -> In a KS.
  Proof.
    intros Ik Ia. rewrite st3_kid in Ia by exact Ik. unfold KS, kidchans. apply in_flat_map. now exists k.
  Qed.

  Lemma st4 :
    let h4 := m_h4 mode h i c2 in
    ainv KS i c2 (m_h3 mode h i c2) h4 kids /\
    (forall k, In k kids -> n_parent (nd h4 k) = Some i) /\
    nd h4 i = nd (m_h3 mode h i c2) i /\
    (forall j, ~ In j kids -> j <> c2 -> nd h4 j = nd (m_h3 mode h i c2) j).
  Proof.
    unfold m_h4. rewrite st2_kids.
    destruct (adopt_fold KS i c2 (mp_ne _ _ _ MP) (m_h3 mode h i c2) kids (mp_kids_c2 _ _ _ MP) (mp_kids_i _ _ _ MP)
                kid_chans_in kids (m_h3 mode h i c2) (incl_refl _) st3_inv) as (A & B & _ & D).
    split; [exact A|split; [exact B|split; [|exact D]]]. apply D; [exact (mp_kids_i _ _ _ MP)|exact (mp_ne _ _ _ MP)].
  Qed.

  Lemma st4_kids_in : kids_in KS (m_h4 mode h i c2) i.
  Proof.
    destruct st4 as (A & _ & E & _). intros k a. rewrite E, st3_i. simpl. intros Ik Ia.
    destruct (ai_kid _ _ _ _ _ _ A k Ik) as (p & d & Ek & _). rewrite Ek in Ia.
    apply (kid_chans_in k a Ik Ia).
  Qed.

  Lemma st5 :
    let h5 := m_h5 mode h i c2 in
    ks_rel KS (m_h4 mode h i c2) h5 /\ closed KS h5.
  Proof.
    unfold m_h5. apply restore_conns_ks; [exact st4_kids_in|]. destruct st4 as (A & _). apply A.
  Qed.

  Lemma st6_struct : struct_eq (m_h5 mode h i c2) (m_h6 mode h i c2).
  Proof. unfold m_h6. destruct (has_links _); [apply forge_links_struct|apply struct_eq_refl]. Qed.

  (* everything the grafting needs to know about the state it starts from *)
  Lemma st6 :
    let h6 := m_h6 mode h i c2 in
    (forall x, ~ In x KS -> c_conns (ch h6 x) = c_conns (ch h x)) /\
    sig_eq h h6 /\
    nd h6 i = nd (m_h3 mode h i c2) i /\
    closed KS h6 /\
    (forall k, In k kids -> n_parent (nd h6 k) = Some i /\
                            n_running (nd h6 k) = n_running (nd h k) /\ n_failed (nd h6 k) = n_failed (nd h k)) /\
    (forall j, j <> i -> j <> c2 -> ~ In j kids -> ~ In j (n_children (nd h i)) -> nd h6 j = nd h j).
  Proof.
    destruct st4 as (A4 & P4 & I4 & F4). destruct st5 as ([N5 S5 O5] & C5). destruct st6_struct as [N6 C6].
    simpl. split; [|split; [|split; [|split; [|split]]]].
    - intros x Hx. destruct (C6 x) as [_ ->]. rewrite O5 by exact Hx.
      rewrite (ai_off _ _ _ _ _ _ A4 x Hx). now rewrite st3_ch.
    - intros c. destruct (C6 c) as [-> _]. rewrite S5. rewrite (ai_sig _ _ _ _ _ _ A4 c). now rewrite st3_ch.
    - now rewrite N6, N5.
    - intros a b Ia. destruct (C6 a) as [_ ->]. now apply C5.
    - intros k Ik. rewrite N6, N5. split; [now apply P4|].
      destruct (ai_kid _ _ _ _ _ _ A4 k Ik) as (p & d & Ek & _). rewrite Ek, st3_kid by exact Ik. split; reflexivity.
    - intros j J1 J2 J3 J4. rewrite N6, N5, F4 by assumption. rewrite st3_other by exact J1. now apply st2_other.
  Qed.
End MergeStages.

Lemma in_resolved h c2 origs e : In e (resolved h c2 origs) ->
  exists o, In o origs /\ e = (o, fresh_of h c2 o, c_conns (ch h o)).
Proof. unfold resolved. rewrite in_map_iff. intros (o & E & I). exists o. split; [exact I|now symmetry]. Qed.

Section MergeGraft.
  Variables (mode : mmode) (h : heap) (i c2 : nat).
  Hypothesis MP : merge_pre h i c2.
  Hypothesis GR : grafts mode (n_kind (nd h i)) = true.
  Let KS := kidchans h c2.
  Let origs := n_chans (nd h i).
  Let news := n_chans (nd h c2).

  Lemma fresh_in o : In o origs -> In (fresh_of h c2 o) news /\ ckey h (fresh_of h c2 o) = ckey h o.
  Proof.
    intros Io. destruct (mp_match _ _ _ MP o Io) as [n En].
    destruct (fresh_of_spec h c2 o n En) as (-> & I & K). now split.
  Qed.

  Lemma st7 :
    let h7 := m_h7 mode h i c2 in
    (forall j, nd h7 j = nd (m_h6 mode h i c2) j) /\ sig_eq h h7 /\
    (forall x, ~ In x KS -> ~ In x news -> c_conns (ch h7 x) = map (fresh_sub h i c2) (c_conns (ch h x))) /\
    (forall o, In o origs -> c_conns (ch h7 (fresh_of h c2 o)) = c_conns (ch h o)).
  Proof.
    destruct (st6 mode h i c2 MP) as (F1 & F2 & F3 & F4 & F5 & _). fold KS in F1, F4.
    unfold m_h7. rewrite GR. unfold local_data.
    rewrite (graft_fold_res h c2 i (n_chans (nd h i)) (m_h6 mode h i c2)). fold origs.
    2:{ exact (mp_match _ _ _ MP). }
    2:{ exact F2. }
    2:{ rewrite F3, st3_i by exact MP. reflexivity. }
    destruct (graft_all_spec (resolved h c2 origs) (m_h6 mode h i c2)) as (G1 & G2 & G3 & G4).
    - unfold resolved. rewrite map_map. simpl.
      apply (NoDup_map_from (fresh_of h c2) (ckey h) (ckey h)); [|exact (mp_keys _ _ _ MP)].
      intros o Io. apply fresh_in, Io.
    - intros e e' Ie Ie'. apply in_resolved in Ie, Ie'. destruct Ie as (o & Io & ->), Ie' as (o' & Io' & ->).
      unfold e_new, e_orig; simpl. intros E. destruct (fresh_in o Io) as [I _]. rewrite E in I.
      destruct (mp_disj_o _ _ _ MP o' Io') as [_ N]. exact (N I).
    - intros e e' Ie Ie'. apply in_resolved in Ie, Ie'. destruct Ie as (o & Io & ->), Ie' as (o' & Io' & ->).
      unfold e_new, e_L; simpl. intros I. destruct (mp_nb _ _ _ MP o' _ Io' I) as (_ & N & _).
      apply N. apply fresh_in, Io.
    - intros e e' Ie Ie'. apply in_resolved in Ie, Ie'. destruct Ie as (o & Io & ->), Ie' as (o' & Io' & ->).
      unfold e_orig, e_L; simpl. intros I. destruct (mp_nb _ _ _ MP o' _ Io' I) as (_ & _ & N). exact (N Io).
    - intros e x Ie. apply in_resolved in Ie. destruct Ie as (o & Io & ->). unfold e_orig, e_L; simpl.
      destruct (in_dec Nat.eq_dec x KS) as [Ix|Nx].
      + intros I. exfalso. destruct (mp_disj_o _ _ _ MP o Io) as [N _]. apply N. exact (F4 x o Ix I).
      + rewrite F1 by exact Nx. apply (mp_sym _ _ _ MP o x Io).
    - simpl. split; [exact G1|split; [|split]].
      + intros c. now rewrite G2, F2.
      + intros x Nx Nn. rewrite G3.
        * rewrite F1 by exact Nx. apply map_ext. intros c. unfold fresh_sub. apply sub_all_resolved.
        * unfold resolved. rewrite map_map. simpl. intros I. apply in_map_iff in I. destruct I as (o & <- & Io).
          apply Nn. apply fresh_in, Io.
      + intros o Io. apply (G4 (o, fresh_of h c2 o, c_conns (ch h o))).
        unfold resolved. apply in_map_iff. now exists o.
  Qed.
End MergeGraft.

(* what holds after the merge (both disciplines) *)
Definition merge_post (h : heap) (i c2 : nat) (h' : heap) : Prop :=
  (* the node keeps its parent, its executor setting, its class; it is not running *)
  (n_parent (nd h' i) = n_parent (nd h i) /\ n_exec (nd h' i) = n_exec (nd h i) /\
   n_kind (nd h' i) = n_kind (nd h i) /\ n_running (nd h' i) = false /\ n_label (nd h' i) = n_label (nd h c2)) /\
  (* it holds the copy's children and IO panels; every new child names it as parent, flags as delivered *)
  (n_children (nd h' i) = n_children (nd h c2) /\ n_chans (nd h' i) = n_chans (nd h c2)) /\
  (forall k, In k (n_children (nd h c2)) ->
     n_parent (nd h' k) = Some i /\ n_running (nd h' k) = n_running (nd h k) /\ n_failed (nd h' k) = n_failed (nd h k)) /\
  (* every old IO channel has a fresh counterpart (same panel, same label) in the node's panels, and that one
     carries the old channel's connection list unchanged (order kept) *)
  (forall o, In o (n_chans (nd h i)) ->
     In (fresh_of h c2 o) (n_chans (nd h' i)) /\ ckey h' (fresh_of h c2 o) = ckey h o /\
     c_conns (ch h' (fresh_of h c2 o)) = c_conns (ch h o)) /\
  (* every channel outside the copy lists the fresh channel exactly where it listed the old one *)
  (forall x, ~ In x (kidchans h c2) -> ~ In x (n_chans (nd h c2)) ->
     c_conns (ch h' x) = map (fresh_sub h i c2) (c_conns (ch h x))) /\
  (* no other node is touched: only the node, the copy, the copy's children and the released old children *)
  (forall j, j <> i -> j <> c2 -> ~ In j (n_children (nd h c2)) -> ~ In j (n_children (nd h i)) -> nd h' j = nd h j).

Lemma ckey_sig h h' c : csig (ch h' c) = csig (ch h c) -> ckey h' c = ckey h c.
Proof. unfold csig, ckey. intros E. congruence. Qed.

Theorem merge_spec mode h i c2 :
  merge_pre h i c2 -> grafts mode (n_kind (nd h i)) = true ->
  let h' := merge_remote mode h i c2 in
  merge_post h i c2 h' /\
  match mode with
  | Unpatched => n_detached (nd h' i) = n_detached (nd h c2)
  | AsWritten => n_detached (nd h' i) = n_detached (nd h i) /\
                forall n, In n (n_chans (nd h' i)) -> c_owner (ch h' n) = i
  end.
Proof.
  intros MP GR. simpl. rewrite merge_remote_staged.
  destruct (st7 mode h i c2 MP GR) as (N7 & S7 & C7 & D7).
  destruct (st6 mode h i c2 MP) as (_ & _ & I6 & _ & K6 & FR6).
  assert (I7 : nd (m_h7 mode h i c2) i = nd (m_h3 mode h i c2) i) by (now rewrite N7).
  pose proof (st3_i mode h i c2 MP) as E3.
  (* the statement for any heap that agrees with h7 on nodes, connections, labels and panels *)
  assert (POST : forall h', (forall j, nd h' j = nd (m_h7 mode h i c2) j) ->
                            (forall x, c_conns (ch h' x) = c_conns (ch (m_h7 mode h i c2) x) /\
                                       c_label (ch h' x) = c_label (ch (m_h7 mode h i c2) x) /\
                                       c_panel (ch h' x) = c_panel (ch (m_h7 mode h i c2) x)) ->
                            merge_post h i c2 h').
  { intros h' Nn Cc. unfold merge_post. rewrite !Nn, I7, E3. simpl.
    split; [repeat split|split; [split; reflexivity|split; [|split; [|split]]]].
    - intros k Ik. rewrite Nn, N7. apply K6, Ik.
    - intros o Io. destruct (fresh_in h i c2 MP o Io) as [If Kf]. split; [exact If|]. split.
      + unfold ckey. destruct (Cc (fresh_of h c2 o)) as (_ & -> & ->).
        change (ckey (m_h7 mode h i c2) (fresh_of h c2 o) = ckey h o).
        rewrite <- Kf. apply ckey_sig. apply S7.
      + destruct (Cc (fresh_of h c2 o)) as (-> & _). now apply D7.
    - intros x Nx Nn'. destruct (Cc x) as (-> & _). now apply C7.
    - intros j J1 J2 J3 J4. rewrite Nn, N7. now apply FR6. }
  destruct mode.
  - unfold m_final. split; [apply POST; [reflexivity|intros; repeat split]|].
    rewrite I7, E3. reflexivity.
  - unfold m_final.
    set (h7 := m_h7 AsWritten h i c2) in *.
    set (h8 := fold_left (fun h0 c => setc h0 c (c_with_owner (ch h0 c) i)) (n_chans (nd h7 i)) h7).
    destruct (owner_fold i (n_chans (nd h7 i)) h7) as (A8 & B8 & C8 & _). fold h8 in A8, B8, C8.
    assert (R : struct_eq h8 (fold_left (fun h0 o => relink_one h0 i o) (local_data h i) h8)).
    { apply (fold_struct (fun h0 o => relink_one h0 i o)). intros; apply relink_one_struct. }
    destruct R as [Nr Cr]. set (h9 := fold_left _ (local_data h i) h8) in *.
    split; [apply POST|split].
    + intros j. now rewrite Nr, A8.
    + intros x. destruct (Cr x) as [Sx Cx], (B8 x) as (B1 & B2 & B3).
      rewrite Cx, B1. unfold csig in Sx. repeat split; congruence.
    + rewrite Nr, A8, I7, E3. reflexivity.
    + intros n In'. rewrite Nr, A8 in In'. destruct (Cr n) as [Sx _]. unfold csig in Sx.
      replace (c_owner (ch h9 n)) with (c_owner (ch h8 n)) by congruence. now apply C8.
Qed.

(* ------------------------------------------------------------------ the hypotheses, decidably (for examples and for
   checking that the states the harness reflects meet them) *)
Lemma key_eqb_eq a b : key_eqb a b = true <-> a = b.
Proof.
  destruct a as [p s], b as [q t]. unfold key_eqb; simpl. rewrite andb_true_iff, String.eqb_eq. split.
  - intros [E ->]. destruct p, q; simpl in E; congruence.
  - intros E. injection E as -> ->. split; [destruct q; reflexivity|reflexivity].
Qed.

Lemma memb_In {A} (eqb : A -> A -> bool) (spec : forall a b, eqb a b = true <-> a = b) x l :
  memb eqb x l = true <-> In x l.
Proof.
  induction l as [|y r IH]; simpl; [split; [discriminate|tauto]|].
  rewrite orb_true_iff, IH, spec. split; intros [H|H]; auto.
Qed.
Lemma nodupb_NoDup {A} (eqb : A -> A -> bool) (spec : forall a b, eqb a b = true <-> a = b) l :
  nodupb eqb l = true -> NoDup l.
Proof.
  induction l as [|x r IH]; simpl; intros E; [constructor|].
  apply andb_true_iff in E. destruct E as [E1 E2]. constructor; [|apply IH, E2].
  intros I. apply (memb_In eqb spec) in I. rewrite I in E1. discriminate.
Qed.

Lemma notin_spec x l : notin x l = true <-> ~ In x l.
Proof. unfold notin. rewrite negb_true_iff. apply memn_false. Qed.


Lemma assoc_none_notin {B} k (l : list (nat * B)) : ~ In k (map fst l) -> assoc Nat.eqb k l = None.
Proof.
  induction l as [|[k' v] r IH]; simpl; intros N; [reflexivity|].
  destruct (Nat.eqb k k') eqn:E; [apply Nat.eqb_eq in E; subst; tauto|apply IH; tauto].
Qed.

Lemma merge_preb_sound h i c2 : merge_preb h i c2 = true -> merge_pre h i c2.
Proof.
  unfold merge_preb. rewrite !andb_true_iff.
  intros (((((((((((A1 & A2) & A3) & A4) & A5) & A6) & A7) & A8) & A9) & A10) & A11) & A12).
  rewrite forallb_forall in A4, A5, A6, A7, A8, A9, A10, A11.
  split.
  - apply negb_true_iff, Nat.eqb_neq in A1. exact A1.
  - now apply notin_spec.
  - now apply notin_spec.
  - intros k Ik. specialize (A4 k Ik). rewrite !andb_true_iff, !negb_true_iff, !Nat.eqb_neq in A4.
    destruct A4 as [[B1 B2] B3]. apply notin_spec in B3. tauto.
  - intros k Ik. specialize (A5 k Ik). destruct (n_parent (nd h k)); [|discriminate].
    apply Nat.eqb_eq in A5. now subst.
  - intros a b Ia Ib. specialize (A6 a Ia). rewrite forallb_forall in A6. apply memn_true, A6, Ib.
  - intros o Io. specialize (A7 o Io). rewrite andb_true_iff, !notin_spec in A7. exact A7.
  - intros n In'. apply notin_spec, A8, In'.
  - intros o x Io Ix. specialize (A9 o Io). rewrite forallb_forall in A9. specialize (A9 x Ix).
    rewrite !andb_true_iff, !notin_spec in A9. tauto.
  - intros o x Io Ix. specialize (A10 o Io). rewrite forallb_forall in A10.
    destruct (in_dec Nat.eq_dec x (map fst (h_chans h))) as [I|N].
    + specialize (A10 x I). rewrite orb_true_iff, negb_true_iff in A10. destruct A10 as [B|B].
      * apply memn_false in B. tauto.
      * now apply memn_true.
    + exfalso. unfold ch in Ix. rewrite (assoc_none_notin _ _ N) in Ix. exact Ix.
  - intros o Io. specialize (A11 o Io). destruct (find_chan h c2 _ _) as [n|]; [now exists n|discriminate].
  - apply (nodupb_NoDup key_eqb key_eqb_eq), A12.
Qed.

(* ------------------------------------------------------------------ nothing is left running: for EVERY heap *)
Lemma disconnect_nodes h a b j : nd (disconnect h a b) j = nd h j.
Proof. unfold disconnect. destruct (memn b (c_conns (ch h a))); reflexivity. Qed.
Lemma fold_nodes {A} (f : heap -> A -> heap) : (forall h a j, nd (f h a) j = nd h j) ->
  forall l h j, nd (fold_left f l h) j = nd h j.
Proof. intros F l. induction l as [|a r IH]; simpl; intros h j; [reflexivity|]. now rewrite IH, F. Qed.
Lemma disconnect_all_nodes h a j : nd (disconnect_all h a) j = nd h j.
Proof. unfold disconnect_all. apply (fold_nodes (fun h b => disconnect h a b)). intros; apply disconnect_nodes. Qed.
Lemma node_disconnect_nodes h k j : nd (node_disconnect h k) j = nd h j.
Proof. unfold node_disconnect. apply (fold_nodes disconnect_all). intros; apply disconnect_all_nodes. Qed.
Lemma connect_nodes h a b j : nd (connect h a b) j = nd h j.
Proof. unfold connect. destruct (memn b (c_conns (ch h a))); reflexivity. Qed.
Lemma connect_by_labels_nodes pi po h i io j : nd (connect_by_labels pi po h i io) j = nd h j.
Proof.
  unfold connect_by_labels. destruct (find_child h i (fst (fst io))); [|reflexivity].
  destruct (find_child h i (fst (snd io))); [|reflexivity].
  destruct (find_chan h n pi (snd (fst io))); [|reflexivity].
  destruct (find_chan h n0 po (snd (snd io))); [apply connect_nodes|reflexivity].
Qed.
Lemma restore_conns_nodes h i d s j : nd (restore_conns h i d s) j = nd h j.
Proof.
  unfold restore_conns.
  rewrite (fold_nodes (fun h io => connect_by_labels SIn SOut h i io)) by (intros; apply connect_by_labels_nodes).
  apply (fold_nodes (fun h io => connect_by_labels PIn POut h i io)). intros; apply connect_by_labels_nodes.
Qed.
Lemma graft_one_nodes h i o j : nd (graft_one h i o) j = nd h j.
Proof.
  destruct o as [[[orig lab] p] L]. unfold graft_one. destruct (find_chan h i p lab) as [new|]; [|reflexivity].
  rewrite (fold_nodes (fun h o => set_conns h o (map (fun c => if Nat.eqb c orig then new else c) (c_conns (ch h o)))));
    [reflexivity|intros; reflexivity].
Qed.

Definition running_eq (h h' : heap) : Prop := forall j, n_running (nd h' j) = n_running (nd h j).

Lemma adopt_running h i k : running_eq h (adopt h i k).
Proof.
  intros j. unfold adopt. destruct (n_parent (nd h k)) as [old|].
  - destruct (Nat.eqb old i); [reflexivity|].
    set (h1 := if memn k (n_children (nd h old)) then release_from h old k else h).
    assert (R : n_running (nd h1 j) = n_running (nd h j) /\ n_running (nd h1 k) = n_running (nd h k)).
    { unfold h1. destruct (memn k (n_children (nd h old))); [|split; reflexivity].
      unfold release_from. rewrite !node_disconnect_nodes.
      assert (G : forall x, n_running (nd (setn (setn h old (n_with_children (nd h old) (remove1 Nat.eqb k (n_children (nd h old)))
                                                         (remove1 Nat.eqb k (n_starting (nd h old))))) k
                              (n_with_parent (nd (setn h old (n_with_children (nd h old) (remove1 Nat.eqb k (n_children (nd h old)))
                                                         (remove1 Nat.eqb k (n_starting (nd h old))))) k) None None)) x)
                            = n_running (nd h x)).
      { intros x. destruct (Nat.eq_dec k x) as [->|N1].
        - rewrite nd_setn_eq. simpl. destruct (Nat.eq_dec old x) as [->|N2].
          + now rewrite nd_setn_eq.
          + now rewrite nd_setn_neq by exact N2.
        - rewrite nd_setn_neq by exact N1. destruct (Nat.eq_dec old x) as [->|N2].
          + now rewrite nd_setn_eq.
          + now rewrite nd_setn_neq by exact N2. }
      split; apply G. }
    destruct R as [R1 R2]. destruct (Nat.eq_dec k j) as [->|N].
    + rewrite nd_setn_eq. simpl. exact R2.
    + rewrite nd_setn_neq by exact N. exact R1.
  - destruct (Nat.eq_dec k j) as [->|N].
    + now rewrite nd_setn_eq.
    + now rewrite nd_setn_neq by exact N.
Qed.

Lemma fold_running {A} (f : heap -> A -> heap) : (forall h a, running_eq h (f h a)) ->
  forall l h, running_eq h (fold_left f l h).
Proof.
  intros F l. induction l as [|a r IH]; simpl; intros h j; [reflexivity|]. now rewrite IH, F.
Qed.

Theorem merge_not_running mode h i c2 : n_running (nd (merge_remote mode h i c2) i) = false.
Proof.
  rewrite merge_remote_staged.
  assert (H3 : n_running (nd (m_h3 mode h i c2) i) = false).
  { unfold m_h3. rewrite nd_setn_eq. simpl. unfold m_h2, set_flags. now rewrite nd_setn_eq. }
  assert (H4 : n_running (nd (m_h4 mode h i c2) i) = false).
  { unfold m_h4. rewrite (fold_running (fun h k => adopt h i k)) by (intros; apply adopt_running). exact H3. }
  assert (H5 : n_running (nd (m_h5 mode h i c2) i) = false).
  { unfold m_h5. now rewrite restore_conns_nodes. }
  assert (H6 : n_running (nd (m_h6 mode h i c2) i) = false).
  { destruct (st6_struct mode h i c2) as [N _]. now rewrite N. }
  assert (H7 : n_running (nd (m_h7 mode h i c2) i) = false).
  { unfold m_h7. destruct (grafts mode (n_kind (nd h i))); [|exact H6].
    rewrite (fold_nodes (fun h o => graft_one h i o)) by (intros; apply graft_one_nodes). exact H6. }
  unfold m_final. destruct mode; [exact H7|].
  destruct (fold_struct (fun h0 o => relink_one h0 i o) (fun h0 o => relink_one_struct h0 i o) (local_data h i)
              (fold_left (fun h0 c => setc h0 c (c_with_owner (ch h0 c) i)) (n_chans (nd (m_h7 AsWritten h i c2) i))
                         (m_h7 AsWritten h i c2))) as [N _].
  rewrite N. destruct (owner_fold i (n_chans (nd (m_h7 AsWritten h i c2) i)) (m_h7 AsWritten h i c2)) as (A & _).
  now rewrite A.
Qed.

(* ------------------------------------------------------------------ the input lock *)
Arguments body : simpl never.
Arguments run_node : simpl never.
Arguments restore : simpl never.
Arguments dump : simpl never.
Arguments merge_remote : simpl never.
Arguments emit_ran : simpl never.

Lemma set_val_locked f h c v : locked h c = true -> set_val (S f) h c v = None.
Proof. intros L. simpl. now rewrite L. Qed.

(* whatever the graph state: an input channel whose OWNER is running refuses, nothing changes *)
Theorem lock_refuses mode X s l v c :
  find_chan (c_heap s) X PIn l = Some c ->
  n_running (nd (c_heap s) (c_owner (ch (c_heap s) c))) = true ->
  step mode X s (OSet l v) = log s (c_heap s) (c_jobs s) "RuntimeError".
Proof.
  intros F R. unfold step. rewrite F. unfold VFUEL. rewrite set_val_locked; [reflexivity|].
  unfold locked, is_data_in. destruct (find_chan_in _ _ _ _ _ F) as (_ & -> & _). simpl. exact R.
Qed.

(* ... and conversely the only thing that refuses is a running owner somewhere down the receiver chain *)
Lemma set_val_unlocked_one f h c v : locked h c = false -> c_recv (ch h c) = None ->
  set_val (S f) h c v = Some (setc h c (c_with_val (ch h c) v)).
Proof. intros L R. simpl. now rewrite L, R. Qed.

Definition job_node (j : job) : nat := match j with JSame i => i | JPick i _ => i end.

Lemma set_flags_running h i r f : n_running (nd (set_flags h i r f) i) = r.
Proof. unfold set_flags. now rewrite nd_setn_eq. Qed.

Lemma set_outputs_nodes h i v j : nd (set_outputs h i v) j = nd h j.
Proof.
  unfold set_outputs. destruct (chans_of h i POut); [reflexivity|].
  destruct (set_val'_struct h n (Some v)) as [N _]. apply N.
Qed.

(* after the done-callback the node is not running -- success, failure, merge or plain value, any heap *)
Theorem complete_unlocks mode h j :
  n_running (nd (fst (complete_job mode h j)) (job_node j)) = false.
Proof.
  unfold complete_job. destruct j as [i|i sd]; cbn [job_node].
  - destruct (body mode RFUEL h i) as [h1 r]. destruct r; cbn [fst]; apply set_flags_running.
  - destruct (restore h sd) as [h1 c1]. destruct (body mode RFUEL h1 c1) as [h2 r].
    destruct r; cbn [fst]; try apply set_flags_running.
    destruct (is_comp (n_kind (nd h2 i))).
    + destruct (dump DFUEL h2 c1) as [sd2|]; cbn [fst]; [|apply set_flags_running].
      destruct (restore h2 sd2) as [h3 c2]. cbn [fst]. apply merge_not_running.
    + cbn [fst]. rewrite set_outputs_nodes. apply set_flags_running.
Qed.

(* hence nothing owned by that node is locked any more *)
Corollary complete_unlocks_inputs mode h j c :
  c_owner (ch (fst (complete_job mode h j)) c) = job_node j -> locked (fst (complete_job mode h j)) c = false.
Proof. intros O. unfold locked. rewrite O, complete_unlocks. apply andb_false_r. Qed.

(* ------------------------------------------------------------------ transparency of the schedule: with C01 (Dag.v) *)
From PW Require Dag DagProofs.

(* Dag.v: children 0..N-1 of a DAG-wired composite, [sem n] ANY function of the upstream outputs (a function
   node, or a macro child whose own run is plain composition one level down by the same theorem),
   [remote] ANY assignment of children to executors, the events deliver-any-pending-signal and
   complete-ANY-outstanding-job.  Every quiescent run yields [denote]; hence so does the all-local one. *)
Theorem remote_equals_local (N : nat) (ups : nat -> list nat) (sem : nat -> (nat -> Z) -> Z)
  (acyclic : forall n u, In u (ups n) -> u < n)
  (loc : forall n e e', (forall u, In u (ups n) -> e u = e' u) -> sem n e = sem n e') :
  forall (remote : nat -> bool) order es s order' es' s',
    NoDup order -> (forall n, In n order <-> n < N /\ ups n = []) ->
    NoDup order' -> (forall n, In n order' <-> n < N /\ ups n = []) ->
    Dag.run N ups sem remote (Dag.init N ups sem remote order) es = Some s -> Dag.quiescent N s ->
    Dag.run N ups sem (fun _ => false) (Dag.init N ups sem (fun _ => false) order') es' = Some s' ->
    Dag.quiescent N s' ->
    (forall n, n < N -> Dag.out s n = Dag.out s' n) /\ (forall n, Dag.status s n <> Dag.Out).
Proof.
  intros remote order es s order' es' s' ND O ND' O' R Q R' Q'.
  destruct (@DagProofs.dag_run_correct N ups sem remote acyclic loc order es s ND O R Q) as (_ & _ & _ & V & NR).
  destruct (@DagProofs.dag_run_correct N ups sem (fun _ => false) acyclic loc order' es' s' ND' O' R' Q')
    as (_ & _ & _ & V' & _).
  split; [|exact NR]. intros n Hn. now rewrite V, V'.
Qed.

(* ------------------------------------------------------------------ concrete states (reflected from real object graphs by
   harness/props/c10.py: workflow wf{ n0 -> n1 -> n2 } with n1 the macro MA = {a -> b}; ids = enumeration order) *)
Definition demo_child : heap :=
  (mkHeap [(0%nat, mkNode "wf"%string KWf None None ExNone false false [1%nat; 2%nat; 5%nat] [0%nat; 1%nat; 2%nat; 3%nat] [1%nat]);
   (1%nat, mkNode "n0"%string (KLeaf FLin) (Some 0%nat) None ExNone false false [] [4%nat; 5%nat; 6%nat; 7%nat; 8%nat; 9%nat; 10%nat; 11%nat] []);
   (2%nat, mkNode "n1"%string KMacro (Some 0%nat) None (ExInst 1%nat) false false [3%nat; 4%nat] [12%nat; 13%nat; 14%nat; 15%nat; 16%nat; 17%nat] [3%nat]);
   (3%nat, mkNode "a"%string (KLeaf FLin) (Some 2%nat) None ExNone false false [] [18%nat; 19%nat; 20%nat; 21%nat; 22%nat; 23%nat; 24%nat; 25%nat] []);
   (4%nat, mkNode "b"%string (KLeaf FLin) (Some 2%nat) None ExNone false false [] [26%nat; 27%nat; 28%nat; 29%nat; 30%nat; 31%nat; 32%nat; 33%nat] []);
   (5%nat, mkNode "n2"%string (KLeaf FLin) (Some 0%nat) None ExNone false false [] [34%nat; 35%nat; 36%nat; 37%nat; 38%nat; 39%nat; 40%nat; 41%nat] [])] [(0%nat, mkChan 0%nat "run"%string SIn [] None None);
   (1%nat, mkChan 0%nat "accumulate_and_run"%string SIn [] None None);
   (2%nat, mkChan 0%nat "ran"%string SOut [] None None);
   (3%nat, mkChan 0%nat "failed"%string SOut [] None None);
   (4%nat, mkChan 1%nat "tag"%string PIn [] (Some (0)%Z) None);
   (5%nat, mkChan 1%nat "k"%string PIn [] (Some (1)%Z) None);
   (6%nat, mkChan 1%nat "a"%string PIn [] (Some (3)%Z) None);
   (7%nat, mkChan 1%nat "y"%string POut [12%nat] (Some (4)%Z) None);
   (8%nat, mkChan 1%nat "run"%string SIn [] None None);
   (9%nat, mkChan 1%nat "accumulate_and_run"%string SIn [] None None);
   (10%nat, mkChan 1%nat "ran"%string SOut [15%nat] None None);
   (11%nat, mkChan 1%nat "failed"%string SOut [] None None);
   (12%nat, mkChan 2%nat "x"%string PIn [7%nat] None (Some 20%nat));
   (13%nat, mkChan 2%nat "out"%string POut [36%nat] None None);
   (14%nat, mkChan 2%nat "run"%string SIn [] None None);
   (15%nat, mkChan 2%nat "accumulate_and_run"%string SIn [10%nat] None None);
   (16%nat, mkChan 2%nat "ran"%string SOut [39%nat] None None);
   (17%nat, mkChan 2%nat "failed"%string SOut [] None None);
   (18%nat, mkChan 3%nat "tag"%string PIn [] (Some (100)%Z) None);
   (19%nat, mkChan 3%nat "k"%string PIn [] (Some (1)%Z) None);
   (20%nat, mkChan 3%nat "a"%string PIn [] None None);
   (21%nat, mkChan 3%nat "y"%string POut [28%nat] None None);
   (22%nat, mkChan 3%nat "run"%string SIn [] None None);
   (23%nat, mkChan 3%nat "accumulate_and_run"%string SIn [] None None);
   (24%nat, mkChan 3%nat "ran"%string SOut [31%nat] None None);
   (25%nat, mkChan 3%nat "failed"%string SOut [] None None);
   (26%nat, mkChan 4%nat "tag"%string PIn [] (Some (101)%Z) None);
   (27%nat, mkChan 4%nat "k"%string PIn [] (Some (2)%Z) None);
   (28%nat, mkChan 4%nat "a"%string PIn [21%nat] None None);
   (29%nat, mkChan 4%nat "y"%string POut [] None (Some 13%nat));
   (30%nat, mkChan 4%nat "run"%string SIn [] None None);
   (31%nat, mkChan 4%nat "accumulate_and_run"%string SIn [24%nat] None None);
   (32%nat, mkChan 4%nat "ran"%string SOut [] None None);
   (33%nat, mkChan 4%nat "failed"%string SOut [] None None);
   (34%nat, mkChan 5%nat "tag"%string PIn [] (Some (2)%Z) None);
   (35%nat, mkChan 5%nat "k"%string PIn [] (Some (5)%Z) None);
   (36%nat, mkChan 5%nat "a"%string PIn [13%nat] None None);
   (37%nat, mkChan 5%nat "y"%string POut [] None None);
   (38%nat, mkChan 5%nat "run"%string SIn [] None None);
   (39%nat, mkChan 5%nat "accumulate_and_run"%string SIn [16%nat] None None);
   (40%nat, mkChan 5%nat "ran"%string SOut [] None None);
   (41%nat, mkChan 5%nat "failed"%string SOut [] None None)] 42%nat []).

Definition demo_alone : heap :=
  (mkHeap [(0%nat, mkNode "n0"%string KMacro None None (ExInst 1%nat) false false [1%nat; 2%nat] [0%nat; 1%nat; 2%nat; 3%nat; 4%nat; 5%nat] [1%nat]);
   (1%nat, mkNode "a"%string (KLeaf FLin) (Some 0%nat) None ExNone false false [] [6%nat; 7%nat; 8%nat; 9%nat; 10%nat; 11%nat; 12%nat; 13%nat] []);
   (2%nat, mkNode "b"%string (KLeaf FLin) (Some 0%nat) None ExNone false false [] [14%nat; 15%nat; 16%nat; 17%nat; 18%nat; 19%nat; 20%nat; 21%nat] [])] [(0%nat, mkChan 0%nat "x"%string PIn [] (Some (3)%Z) (Some 8%nat));
   (1%nat, mkChan 0%nat "out"%string POut [] None None);
   (2%nat, mkChan 0%nat "run"%string SIn [] None None);
   (3%nat, mkChan 0%nat "accumulate_and_run"%string SIn [] None None);
   (4%nat, mkChan 0%nat "ran"%string SOut [] None None);
   (5%nat, mkChan 0%nat "failed"%string SOut [] None None);
   (6%nat, mkChan 1%nat "tag"%string PIn [] (Some (100)%Z) None);
   (7%nat, mkChan 1%nat "k"%string PIn [] (Some (1)%Z) None);
   (8%nat, mkChan 1%nat "a"%string PIn [] (Some (3)%Z) None);
   (9%nat, mkChan 1%nat "y"%string POut [16%nat] None None);
   (10%nat, mkChan 1%nat "run"%string SIn [] None None);
   (11%nat, mkChan 1%nat "accumulate_and_run"%string SIn [] None None);
   (12%nat, mkChan 1%nat "ran"%string SOut [19%nat] None None);
   (13%nat, mkChan 1%nat "failed"%string SOut [] None None);
   (14%nat, mkChan 2%nat "tag"%string PIn [] (Some (101)%Z) None);
   (15%nat, mkChan 2%nat "k"%string PIn [] (Some (2)%Z) None);
   (16%nat, mkChan 2%nat "a"%string PIn [9%nat] None None);
   (17%nat, mkChan 2%nat "y"%string POut [] None (Some 1%nat));
   (18%nat, mkChan 2%nat "run"%string SIn [] None None);
   (19%nat, mkChan 2%nat "accumulate_and_run"%string SIn [12%nat] None None);
   (20%nat, mkChan 2%nat "ran"%string SOut [] None None);
   (21%nat, mkChan 2%nat "failed"%string SOut [] None None)] 22%nat []).

Definition demo_links : heap :=
  (mkHeap [(0%nat, mkNode "wf"%string KWf None None ExNone false false [1%nat; 2%nat; 6%nat] [0%nat; 1%nat; 2%nat; 3%nat] [1%nat]);
   (1%nat, mkNode "n0"%string (KLeaf FLin) (Some 0%nat) None ExNone false false [] [4%nat; 5%nat; 6%nat; 7%nat; 8%nat; 9%nat; 10%nat; 11%nat] []);
   (2%nat, mkNode "n1"%string KMacro (Some 0%nat) None ExNone false false [3%nat] [12%nat; 13%nat; 14%nat; 15%nat; 16%nat; 17%nat] [3%nat]);
   (3%nat, mkNode "inner"%string KMacro (Some 2%nat) None (ExInst 1%nat) false false [4%nat; 5%nat] [18%nat; 19%nat; 20%nat; 21%nat; 22%nat; 23%nat] [4%nat]);
   (4%nat, mkNode "a"%string (KLeaf FLin) (Some 3%nat) None ExNone false false [] [24%nat; 25%nat; 26%nat; 27%nat; 28%nat; 29%nat; 30%nat; 31%nat] []);
   (5%nat, mkNode "b"%string (KLeaf FLin) (Some 3%nat) None ExNone false false [] [32%nat; 33%nat; 34%nat; 35%nat; 36%nat; 37%nat; 38%nat; 39%nat] []);
   (6%nat, mkNode "n2"%string (KLeaf FLin) (Some 0%nat) None ExNone false false [] [40%nat; 41%nat; 42%nat; 43%nat; 44%nat; 45%nat; 46%nat; 47%nat] [])] [(0%nat, mkChan 0%nat "run"%string SIn [] None None);
   (1%nat, mkChan 0%nat "accumulate_and_run"%string SIn [] None None);
   (2%nat, mkChan 0%nat "ran"%string SOut [] None None);
   (3%nat, mkChan 0%nat "failed"%string SOut [] None None);
   (4%nat, mkChan 1%nat "tag"%string PIn [] (Some (0)%Z) None);
   (5%nat, mkChan 1%nat "k"%string PIn [] (Some (1)%Z) None);
   (6%nat, mkChan 1%nat "a"%string PIn [] (Some (3)%Z) None);
   (7%nat, mkChan 1%nat "y"%string POut [12%nat] None None);
   (8%nat, mkChan 1%nat "run"%string SIn [] None None);
   (9%nat, mkChan 1%nat "accumulate_and_run"%string SIn [] None None);
   (10%nat, mkChan 1%nat "ran"%string SOut [15%nat] None None);
   (11%nat, mkChan 1%nat "failed"%string SOut [] None None);
   (12%nat, mkChan 2%nat "x"%string PIn [7%nat] None (Some 18%nat));
   (13%nat, mkChan 2%nat "out"%string POut [42%nat] None None);
   (14%nat, mkChan 2%nat "run"%string SIn [] None None);
   (15%nat, mkChan 2%nat "accumulate_and_run"%string SIn [10%nat] None None);
   (16%nat, mkChan 2%nat "ran"%string SOut [45%nat] None None);
   (17%nat, mkChan 2%nat "failed"%string SOut [] None None);
   (18%nat, mkChan 3%nat "x"%string PIn [] None (Some 26%nat));
   (19%nat, mkChan 3%nat "out"%string POut [] None (Some 13%nat));
   (20%nat, mkChan 3%nat "run"%string SIn [] None None);
   (21%nat, mkChan 3%nat "accumulate_and_run"%string SIn [] None None);
   (22%nat, mkChan 3%nat "ran"%string SOut [] None None);
   (23%nat, mkChan 3%nat "failed"%string SOut [] None None);
   (24%nat, mkChan 4%nat "tag"%string PIn [] (Some (100)%Z) None);
   (25%nat, mkChan 4%nat "k"%string PIn [] (Some (1)%Z) None);
   (26%nat, mkChan 4%nat "a"%string PIn [] None None);
   (27%nat, mkChan 4%nat "y"%string POut [34%nat] None None);
   (28%nat, mkChan 4%nat "run"%string SIn [] None None);
   (29%nat, mkChan 4%nat "accumulate_and_run"%string SIn [] None None);
   (30%nat, mkChan 4%nat "ran"%string SOut [37%nat] None None);
   (31%nat, mkChan 4%nat "failed"%string SOut [] None None);
   (32%nat, mkChan 5%nat "tag"%string PIn [] (Some (101)%Z) None);
   (33%nat, mkChan 5%nat "k"%string PIn [] (Some (2)%Z) None);
   (34%nat, mkChan 5%nat "a"%string PIn [27%nat] None None);
   (35%nat, mkChan 5%nat "y"%string POut [] None (Some 19%nat));
   (36%nat, mkChan 5%nat "run"%string SIn [] None None);
   (37%nat, mkChan 5%nat "accumulate_and_run"%string SIn [30%nat] None None);
   (38%nat, mkChan 5%nat "ran"%string SOut [] None None);
   (39%nat, mkChan 5%nat "failed"%string SOut [] None None);
   (40%nat, mkChan 6%nat "tag"%string PIn [] (Some (2)%Z) None);
   (41%nat, mkChan 6%nat "k"%string PIn [] (Some (5)%Z) None);
   (42%nat, mkChan 6%nat "a"%string PIn [13%nat] None None);
   (43%nat, mkChan 6%nat "y"%string POut [] None None);
   (44%nat, mkChan 6%nat "run"%string SIn [] None None);
   (45%nat, mkChan 6%nat "accumulate_and_run"%string SIn [16%nat] None None);
   (46%nat, mkChan 6%nat "ran"%string SOut [] None None);
   (47%nat, mkChan 6%nat "failed"%string SOut [] None None)] 48%nat []).

Definition demo_wfroot : heap :=
  (mkHeap [(0%nat, mkNode "wf"%string KWf None None (ExInst 1%nat) false false [1%nat] [0%nat; 1%nat; 2%nat; 3%nat] [1%nat]);
   (1%nat, mkNode "n0"%string (KLeaf FLin) (Some 0%nat) None ExNone false false [] [4%nat; 5%nat; 6%nat; 7%nat; 8%nat; 9%nat; 10%nat; 11%nat] [])] [(0%nat, mkChan 0%nat "run"%string SIn [] None None);
   (1%nat, mkChan 0%nat "accumulate_and_run"%string SIn [] None None);
   (2%nat, mkChan 0%nat "ran"%string SOut [] None None);
   (3%nat, mkChan 0%nat "failed"%string SOut [] None None);
   (4%nat, mkChan 1%nat "tag"%string PIn [] (Some (0)%Z) None);
   (5%nat, mkChan 1%nat "k"%string PIn [] (Some (1)%Z) None);
   (6%nat, mkChan 1%nat "a"%string PIn [] (Some (3)%Z) None);
   (7%nat, mkChan 1%nat "y"%string POut [] None None);
   (8%nat, mkChan 1%nat "run"%string SIn [] None None);
   (9%nat, mkChan 1%nat "accumulate_and_run"%string SIn [] None None);
   (10%nat, mkChan 1%nat "ran"%string SOut [] None None);
   (11%nat, mkChan 1%nat "failed"%string SOut [] None None)] 12%nat []).

(* Node.run() up to the submit: fetch, running := True *)
Definition submitted (h : heap) (i : nat) : heap :=
  match fetch h i with Some h1 => set_flags h1 i true false | None => h end.

(* the state in which the result of a boundary-crossing run of composite i is merged, and the copy *)
Definition merge_site (mode : mmode) (h : heap) (i : nat) : heap * nat :=
  match dump DFUEL h i with
  | None => (h, i)
  | Some sd =>
      let (h1, c1) := restore h sd in
      let (h2, r) := body mode RFUEL h1 c1 in
      match dump DFUEL h2 c1 with
      | Some sd2 => let (h3, c2) := restore h2 sd2 in (set_flags h3 i false false, c2)
      | None => (h, i)
      end
  end.

Definition site_child := merge_site Unpatched (submitted demo_child 2) 2.
Definition as_for (h : heap) (i : nat) : heap :=
  let n := nd h i in
  setn h i (mkNode (n_label n) KFor (n_parent n) (n_detached n) (n_exec n) (n_running n) (n_failed n)
                   (n_children n) (n_chans n) (n_starting n)).
Definition site_for := merge_site Unpatched (as_for (submitted demo_child 2) 2) 2.

Definition is_none {A} (o : option A) : bool := match o with None => true | Some _ => false end.

(* S15: the merged macro has a parent AND the copy's detached path: its lexical path raises *)
Theorem merge_path_refuted : exists h i c2,
  merge_pre h i c2 /\ n_kind (nd h i) = KMacro /\ n_parent (nd h i) <> None /\
  lpath PFUEL h i = Some "/wf/n1" /\ lpath PFUEL (merge_remote Unpatched h i c2) i = None.
Proof.
  exists (fst site_child), 2, (snd site_child). split; [apply merge_preb_sound; vm_compute; reflexivity|].
  split; [vm_compute; reflexivity|]. split; [vm_compute; discriminate|]. split; vm_compute; reflexivity.
Qed.

(* the fresh IO channels are owned by the discarded copy, not by the node *)
Theorem merge_owner_refuted : exists h i c2,
  merge_pre h i c2 /\ n_kind (nd h i) = KMacro /\
  forallb (fun c => Nat.eqb (c_owner (ch h c)) i) (n_chans (nd h i)) = true /\
  let h' := merge_remote Unpatched h i c2 in
  forallb (fun c => Nat.eqb (c_owner (ch h' c)) c2) (n_chans (nd h' i)) = true /\ n_chans (nd h' i) <> [].
Proof.
  exists (fst site_child), 2, (snd site_child). split; [apply merge_preb_sound; vm_compute; reflexivity|].
  split; [vm_compute; reflexivity|]. split; [vm_compute; reflexivity|]. split; [vm_compute; reflexivity|vm_compute; discriminate].
Qed.

(* a For node (Composite's variant, no grafting): the fresh channels have no connections, the neighbours go on
   listing the dead ones *)
Theorem merge_for_refuted : exists h i c2 o x,
  merge_pre h i c2 /\ n_kind (nd h i) = KFor /\ In o (n_chans (nd h i)) /\ In x (c_conns (ch h o)) /\
  let h' := merge_remote Unpatched h i c2 in
  c_conns (ch h' (fresh_of h c2 o)) = [] /\ In o (c_conns (ch h' x)) /\ ~ In o (n_chans (nd h' i)).
Proof.
  exists (fst site_for), 2, (snd site_for), 12, 7. split; [apply merge_preb_sound; vm_compute; reflexivity|].
  split; [vm_compute; reflexivity|]. split; [vm_compute; tauto|]. split; [vm_compute; tauto|].
  split; [vm_compute; reflexivity|]. split; [vm_compute; tauto|]. vm_compute. intuition discriminate.
Qed.

(* value links between the merged macro and its PARENT macro are not carried over: the parent's output is never
   delivered (the patched discipline delivers it) *)
Theorem merge_links_refuted :
  let out := match find_chan demo_links 2 POut "out" with Some c => c | None => 0 end in
  n_kind (nd demo_links 2) = KMacro /\ c_owner (ch demo_links out) = 2 /\
  c_val (ch (fst (run_node Unpatched RFUEL demo_links 0)) out) = None /\
  c_val (ch (fst (run_node AsWritten RFUEL demo_links 0)) out) = Some 7%Z.
Proof. vm_compute. repeat split; reflexivity. Qed.

(* the lock after a merge: the second time the macro is out, its inputs are no longer frozen *)
Theorem lock_refuted_after_merge :
  let X := 0 in
  let s := run_ops Unpatched X demo_alone [ORun; OComplete; ORun] in
  n_running (nd (c_heap s) X) = true /\ c_jobs s <> [] /\
  c_log (step Unpatched X s (OSet "x" 9%Z)) = [OS "Future"; OS "done"; OS "Future"; OS "ok"] /\
  c_log (step AsWritten X (run_ops AsWritten X demo_alone [ORun; OComplete; ORun]) (OSet "x" 9%Z))
    = [OS "Future"; OS "done"; OS "Future"; OS "RuntimeError"].
Proof. vm_compute. repeat split; try reflexivity. discriminate. Qed.

(* a workflow that is out: its inputs are its children's channels, and those are not locked *)
Theorem lock_refuted_workflow : exists h wf c,
  n_kind (nd h wf) = KWf /\ n_running (nd h wf) = true /\ crosses (n_exec (nd h wf)) = true /\
  In c (shown_inputs h wf) /\ locked h c = false /\ c_owner (ch h c) <> wf.
Proof.
  exists (submitted demo_wfroot 0), 0, 6. vm_compute. repeat split; try reflexivity; try tauto. discriminate.
Qed.

(* ------------------------------------------------------------------ corollaries in the property's own words *)
(* mutual, pointing at the fresh channel, at the same position; the dead channel is not listed any more *)
Corollary neighbours_repointed mode h i c2 : merge_pre h i c2 -> grafts mode (n_kind (nd h i)) = true ->
  forall o x, In o (n_chans (nd h i)) -> In x (c_conns (ch h o)) ->
  let h' := merge_remote mode h i c2 in
  let f := fresh_of h c2 o in
  In f (n_chans (nd h' i)) /\ ckey h' f = ckey h o /\
  c_conns (ch h' f) = c_conns (ch h o) /\                                   (* our side: same list, same order *)
  c_conns (ch h' x) = map (fresh_sub h i c2) (c_conns (ch h x)) /\          (* their side: replaced in place   *)
  (In o (c_conns (ch h x)) -> In f (c_conns (ch h' x))) /\ ~ In o (c_conns (ch h' x)).
Proof.
  intros MP GR o x Io Ix. simpl.
  destruct (merge_spec mode h i c2 MP GR) as [(_ & _ & _ & F & N & _) _].
  destruct (F o Io) as (F1 & F2 & F3). destruct (mp_nb _ _ _ MP o x Io Ix) as (N1 & N2 & N3).
  specialize (N x N1 N2). repeat split; try assumption.
  - intros I. rewrite N. apply in_map_iff. exists o. split; [|exact I].
    unfold fresh_sub. apply memn_true in Io. now rewrite Io.
  - rewrite N. intros I. apply in_map_iff in I. destruct I as (y & E & Iy). unfold fresh_sub in E.
    destruct (memn y (n_chans (nd h i))) eqn:M.
    + apply memn_true in M. destruct (fresh_in h i c2 MP y M) as [Inw _]. rewrite E in Inw.
      destruct (mp_disj_o _ _ _ MP o Io) as [_ D]. exact (D Inw).
    + apply memn_false in M. subst y. exact (M Io).
Qed.

(* a node without parent never ends with an unusable lexical path, whatever the copy carried *)
Corollary merge_path_partial h i c2 : merge_pre h i c2 -> n_kind (nd h i) = KMacro -> n_parent (nd h i) = None ->
  forall f, lpath (S f) (merge_remote Unpatched h i c2) i <> None.
Proof.
  intros MP K P f. assert (GR : grafts Unpatched (n_kind (nd h i)) = true) by (rewrite K; reflexivity).
  destruct (merge_spec Unpatched h i c2 MP GR) as [((Pp & _) & _) _].
  simpl. rewrite Pp, P. destruct (n_detached _); discriminate.
Qed.

(* the patched merge gives the lock back: every channel of the node's panels is owned by the node *)
Corollary repaired_lock_again h i c2 s l v c X :
  merge_pre h i c2 -> c_heap s = merge_remote AsWritten h i c2 -> X = i ->
  find_chan (c_heap s) X PIn l = Some c -> n_running (nd (c_heap s) X) = true ->
  step AsWritten X s (OSet l v) = log s (c_heap s) (c_jobs s) "RuntimeError".
Proof.
  intros MP E -> F R. apply (lock_refuses AsWritten i s l v c F).
  destruct (merge_spec AsWritten h i c2 MP eq_refl) as [_ [_ O]]. simpl in O.
  destruct (find_chan_in _ _ _ _ _ F) as (I & _). rewrite E in I |- *. rewrite (O c I). rewrite <- E. exact R.
Qed.

(* ------------------------------------------------------------------ a function node across the boundary: what is
   pickled, what comes back, and that it belongs to the inputs the node shows *)

(* ---- allocation *)
Lemma ch_alloc_chan_new h x : ch (fst (alloc_chan h x)) (h_next h) = x.
Proof. unfold alloc_chan, ch; simpl. now rewrite Nat.eqb_refl. Qed.
Lemma ch_alloc_chan_old h x c : c <> h_next h -> ch (fst (alloc_chan h x)) c = ch h c.
Proof.
  intros N. unfold alloc_chan, ch; simpl. destruct (Nat.eqb c (h_next h)) eqn:E; [apply Nat.eqb_eq in E; congruence|reflexivity].
Qed.
Lemma nd_alloc_chan h x j : nd (fst (alloc_chan h x)) j = nd h j.
Proof. reflexivity. Qed.

Lemma alloc_chans_spec owner : forall l h h' cs, alloc_chans h owner l = (h', cs) ->
  (forall c, c < h_next h -> ch h' c = ch h c) /\
  h_next h <= h_next h' /\
  (forall j, nd h' j = nd h j) /\
  map (ch h') cs = map (fun t => match t with (lab, p, v) => mkChan owner lab p [] v None end) l /\
  (forall c, In c cs -> h_next h <= c).
Proof.
  induction l as [|[[lab p] v] r IH]; intros h h' cs E.
  - simpl in E. injection E as <- <-. repeat split; auto. intros c [].
  - cbn [alloc_chans] in E.
    remember (alloc_chan h (mkChan owner lab p [] v None)) as ac eqn:Eac. destruct ac as [h1 c].
    assert (Hc : c = h_next h) by (unfold alloc_chan in Eac; now injection Eac as _ ->).
    assert (Hh1 : h1 = fst (alloc_chan h (mkChan owner lab p [] v None))) by now rewrite <- Eac.
    assert (Hn : h_next h1 = S (h_next h)) by (rewrite Hh1; reflexivity).
    destruct (alloc_chans h1 owner r) as [h2 cs'] eqn:E2. injection E as <- <-.
    destruct (IH h1 h2 cs' E2) as (A & B & C & D & F). repeat split.
    + intros x Hx. rewrite A by lia. rewrite Hh1. apply ch_alloc_chan_old. lia.
    + lia.
    + intros j. rewrite C, Hh1. apply nd_alloc_chan.
    + cbn [map]. f_equal; [|exact D]. rewrite A by lia. subst c. rewrite Hh1. apply ch_alloc_chan_new.
    + intros x [<-|Hx]; [lia|]. specialize (F x Hx). lia.
Qed.

Lemma nd_alloc_node_new h n : nd (fst (alloc_node h n)) (h_next h) = n.
Proof. unfold alloc_node, nd; simpl. now rewrite Nat.eqb_refl. Qed.
Lemma nd_alloc_node_old h n j : j <> h_next h -> nd (fst (alloc_node h n)) j = nd h j.
Proof.
  intros N. unfold alloc_node, nd; simpl. destruct (Nat.eqb j (h_next h)) eqn:E; [apply Nat.eqb_eq in E; congruence|reflexivity].
Qed.

Lemma lookup_children_nil h labels : lookup_children h [] labels = [].
Proof. unfold lookup_children. induction labels as [|l r IH]; simpl; [reflexivity|exact IH]. Qed.

Definition mk_of (owner : nat) (t : string * panel * option Z) : chan :=
  match t with (lab, p, v) => mkChan owner lab p [] v None end.

(* unpickling a function node: a fresh node with fresh channels carrying the pickled labels, panels, values *)
Lemma restore_leaf h label f det ex run fail chans starting :
  forall h' c1, restore h (SD label (KLeaf f) det ex run fail chans [] [] [] starting [] []) = (h', c1) ->
  c1 = h_next h /\
  n_kind (nd h' c1) = KLeaf f /\
  map (ch h') (n_chans (nd h' c1)) = map (mk_of (h_next h)) chans /\
  (forall c, c < h_next h -> ch h' c = ch h c) /\
  (forall j, j <> h_next h -> nd h' j = nd h j) /\
  (forall c, In c (n_chans (nd h' c1)) -> h_next h < c).
Proof.
  intros h' c1. unfold restore. cbv beta iota. fold restore.
  remember (alloc_node h (mkNode label (KLeaf f) None det ex run fail [] [] [])) as an eqn:Ean.
  destruct an as [h0 i].
  assert (Hi : i = h_next h) by (unfold alloc_node in Ean; now injection Ean as _ ->).
  assert (Hh0 : h0 = fst (alloc_node h (mkNode label (KLeaf f) None det ex run fail [] [] []))) by now rewrite <- Ean.
  assert (Hn0 : h_next h0 = S (h_next h)) by (rewrite Hh0; reflexivity).
  destruct (alloc_chans h0 i chans) as [h1 cs] eqn:E1.
  destruct (alloc_chans_spec i chans h0 h1 cs E1) as (A & B & C & D & F).
  cbn [fold_left has_links restore_conns rev]. rewrite lookup_children_nil.
  intros E. injection E as <- <-.
  split; [exact Hi|]. split; [now rewrite nd_setn_eq|]. split; [|split; [|split]].
  - rewrite nd_setn_eq. cbn [n_chans]. subst i. exact D.
  - intros c Hc. rewrite ch_setn, A by lia. rewrite Hh0. reflexivity.
  - intros j Hj. rewrite nd_setn_neq by congruence. rewrite C, Hh0. now apply nd_alloc_node_old.
  - intros c. rewrite nd_setn_eq. cbn [n_chans]. intros Hc. specialize (F c Hc). lia.
Qed.


Definition triple_of (h : heap) (c : nat) : string * panel * option Z := (c_label (ch h c), c_panel (ch h c), c_val (ch h c)).

Lemma dump_leaf k h X f sd : n_kind (nd h X) = KLeaf f -> n_children (nd h X) = [] ->
  dump (S k) h X = Some sd ->
  exists d ex' st, sd = SD (n_label (nd h X)) (KLeaf f) d ex' (n_running (nd h X)) (n_failed (nd h X))
                          (map (triple_of h) (n_chans (nd h X))) [] [] [] st [] [].
Proof.
  intros K C. lazy beta iota fix delta [dump]. fold dump. cbv zeta. rewrite K, C. cbn [has_links dump_list conn_strings flat_map].
  destruct (match n_parent (nd h X) with
            | Some p => match lpath PFUEL h p with Some s => Some (Some s) | None => None end
            | None => Some (n_detached (nd h X)) end) as [d|]; [|discriminate].
  intros E. injection E as <-. now exists d, (strip_exec (n_exec (nd h X))), (map (fun s => n_label (nd h s)) (n_starting (nd h X))).
Qed.

(* the values of a list of channel records' data inputs / the first data output *)
Definition pin_vals (l : list chan) : list (option Z) := map c_val (filter (fun x => panel_eqb (c_panel x) PIn) l).

Lemma filter_map_comm {A B} (g : A -> B) (p : B -> bool) l : map g (filter (fun a => p (g a)) l) = filter p (map g l).
Proof. induction l as [|a r IH]; simpl; [reflexivity|]. destruct (p (g a)); simpl; now rewrite IH. Qed.

Lemma input_vals_eq h i : input_vals h i = all_some (pin_vals (map (ch h) (n_chans (nd h i)))).
Proof.
  unfold input_vals, pin_vals, chans_of. f_equal.
  rewrite <- (filter_map_comm (ch h) (fun x => panel_eqb (c_panel x) PIn)). now rewrite map_map.
Qed.

Lemma pin_vals_mk owner h l : pin_vals (map (mk_of owner) (map (triple_of h) l)) = pin_vals (map (ch h) l).
Proof.
  unfold pin_vals. induction l as [|c r IH]; simpl; [reflexivity|].
  destruct (panel_eqb (c_panel (ch h c)) PIn); simpl; now rewrite IH.
Qed.

Lemma body_leaf mode k h i f : n_kind (nd h i) = KLeaf f ->
  body mode (S k) h i = match input_vals h i with
                        | Some vals => match apply_fun f vals with
                                       | Some v => (set_outputs h i v, ROk)
                                       | None => (h, RFail) end
                        | None => (h, RFail) end.
Proof. intros K. lazy beta iota fix delta [body]. now rewrite K. Qed.


Lemma set_val'_plain h c v : locked h c = false -> c_recv (ch h c) = None ->
  set_val' h c v = setc h c (c_with_val (ch h c) v).
Proof. intros L R. unfold set_val', VFUEL. now rewrite (set_val_unlocked_one _ h c v L R). Qed.

Lemma locked_out h c : c_panel (ch h c) = POut -> locked h c = false.
Proof. intros P. unfold locked, is_data_in. now rewrite P. Qed.

Lemma chans_of_in h i p c : In c (chans_of h i p) -> In c (n_chans (nd h i)) /\ c_panel (ch h c) = p.
Proof.
  unfold chans_of. rewrite filter_In. intros [I E]. split; [exact I|].
  destruct (c_panel (ch h c)), p; simpl in E; congruence.
Qed.

Lemma chans_of_agree h h' i j p :
  n_chans (nd h' j) = n_chans (nd h i) -> (forall c, In c (n_chans (nd h i)) -> c_panel (ch h' c) = c_panel (ch h c)) ->
  chans_of h' j p = chans_of h i p.
Proof.
  intros N P. unfold chans_of. rewrite N. apply filter_ext_in. intros c Ic. now rewrite P.
Qed.

Lemma filter_mk owner h p l :
  filter (fun x => panel_eqb (c_panel x) p) (map (mk_of owner) (map (triple_of h) l))
  = map (mk_of owner) (map (triple_of h) (filter (fun c => panel_eqb (c_panel (ch h c)) p) l)).
Proof.
  induction l as [|c r IH]; simpl; [reflexivity|].
  destruct (panel_eqb (c_panel (ch h c)) p); simpl; now rewrite IH.
Qed.

(* What crosses the boundary for a function node and what comes back: the value of its function on the inputs
   it had when it was pickled -- which are the inputs it still shows if nothing touched them meanwhile. *)
Theorem leaf_delivery mode h X f sd h' vals v o rest :
  n_kind (nd h X) = KLeaf f -> n_children (nd h X) = [] ->
  dump DFUEL h X = Some sd ->
  nd h' X = nd h X -> (forall c, In c (n_chans (nd h X)) -> ch h' c = ch h c) ->
  X < h_next h' -> (forall c, In c (n_chans (nd h X)) -> c < h_next h') ->
  input_vals h X = Some vals -> apply_fun f vals = Some v ->
  chans_of h X POut = o :: rest -> c_recv (ch h o) = None ->
  snd (complete_job mode h' (JPick X sd)) = true /\
  c_val (ch (fst (complete_job mode h' (JPick X sd))) o) = Some v.
Proof.
  intros K C D NX CX LX LC IV AF PO RO.
  unfold DFUEL in D. destruct (dump_leaf _ h X f sd K C D) as (d & ex' & st & ->).
  unfold complete_job.
  destruct (restore h' _) as [h1 c1] eqn:ER.
  destruct (restore_leaf _ _ _ _ _ _ _ _ _ _ _ ER) as (Hc1 & K1 & M1 & Old1 & Nd1 & Fresh1).
  unfold RFUEL. rewrite (body_leaf mode _ h1 c1 f K1).
  assert (IV1 : input_vals h1 c1 = Some vals).
  { rewrite input_vals_eq, M1, pin_vals_mk, <- input_vals_eq. exact IV. }
  rewrite IV1, AF.
  (* the copy's output channel *)
  assert (OC : exists oc rest', chans_of h1 c1 POut = oc :: rest' /\ ch h1 oc = mk_of (h_next h') (triple_of h o)).
  { assert (E : map (ch h1) (chans_of h1 c1 POut) = map (mk_of (h_next h')) (map (triple_of h) (chans_of h X POut))).
    { unfold chans_of.
      rewrite (filter_map_comm (ch h1) (fun x => panel_eqb (c_panel x) POut)), M1.
      apply filter_mk. }
    rewrite PO in E. destruct (chans_of h1 c1 POut) as [|oc rest']; [discriminate|].
    cbn [map] in E. injection E as E _. now exists oc, rest'. }
  destruct OC as (oc & rest' & POc & Hoc).
  assert (Poc : c_panel (ch h1 oc) = POut).
  { rewrite Hoc. unfold mk_of, triple_of. simpl. apply (chans_of_in h X POut o). rewrite PO. now left. }
  assert (SO1 : set_outputs h1 c1 v = setc h1 oc (c_with_val (ch h1 oc) (Some v))).
  { unfold set_outputs. rewrite POc. apply set_val'_plain; [now apply locked_out|]. rewrite Hoc. reflexivity. }
  set (h2 := set_outputs h1 c1 v) in *.
  assert (NX2 : nd h2 X = nd h X).
  { unfold h2. rewrite set_outputs_nodes, Nd1 by lia. exact NX. }
  rewrite NX2, K. cbn [is_comp fst snd]. split; [reflexivity|].
  assert (In1 : In oc (n_chans (nd h1 c1))) by (apply (chans_of_in h1 c1 POut oc); rewrite POc; now left).
  assert (CV : copy_value h2 c1 = v).
  { unfold copy_value.
    assert (E2 : chans_of h2 c1 POut = chans_of h1 c1 POut).
    { apply chans_of_agree.
      - unfold h2. now rewrite set_outputs_nodes.
      - intros c _. rewrite SO1. destruct (Nat.eq_dec oc c) as [->|N]; [now rewrite ch_setc_eq|now rewrite ch_setc_neq]. }
    rewrite E2, POc, SO1, ch_setc_eq. reflexivity. }
  rewrite CV.
  set (h3 := set_flags h2 X false (n_failed (nd h X))).
  assert (CH3 : forall c, In c (n_chans (nd h X)) -> ch h3 c = ch h c).
  { intros c Ic. unfold h3, set_flags. rewrite ch_setn, SO1.
    assert (oc <> c) by (specialize (Fresh1 oc In1); specialize (LC c Ic); lia).
    rewrite ch_setc_neq by assumption. rewrite Old1 by (apply LC, Ic). now apply CX. }
  assert (N3 : n_chans (nd h3 X) = n_chans (nd h X)).
  { unfold h3, set_flags. rewrite nd_setn_eq. cbn [n_chans n_with_flags]. now rewrite NX2. }
  assert (Io : In o (n_chans (nd h X)) /\ c_panel (ch h o) = POut) by (apply chans_of_in; rewrite PO; now left).
  unfold set_outputs. rewrite (chans_of_agree h h3 X X POut N3) by (intros c Ic; now rewrite CH3).
  rewrite PO. rewrite set_val'_plain.
  - now rewrite ch_setc_eq.
  - apply locked_out. rewrite CH3 by apply Io. apply Io.
  - rewrite CH3 by apply Io. exact RO.
Qed.

(* ---- while the node is out, assignments bounce: the heap does not move *)
Definition is_set (o : op) : Prop := match o with OSet _ _ => True | _ => False end.

Lemma sets_frozen mode X : forall sets s, Forall is_set sets ->
  n_running (nd (c_heap s) X) = true ->
  (forall c, In c (chans_of (c_heap s) X PIn) -> c_owner (ch (c_heap s) c) = X) ->
  c_heap (fold_left (step mode X) sets s) = c_heap s /\ c_jobs (fold_left (step mode X) sets s) = c_jobs s.
Proof.
  induction sets as [|o r IH]; intros s F R O; [split; reflexivity|].
  inversion F as [|? ? Ho Fr]; subst. destruct o as [l v| | | |i0 l v| |]; try contradiction. cbn [fold_left].
  assert (E : c_heap (step mode X s (OSet l v)) = c_heap s /\ c_jobs (step mode X s (OSet l v)) = c_jobs s).
  { destruct (find_chan (c_heap s) X PIn l) as [c|] eqn:Fc.
    - rewrite (lock_refuses mode X s l v c Fc); [split; reflexivity|].
      destruct (find_chan_in _ _ _ _ _ Fc) as (I & P & _).
      rewrite O; [exact R|]. unfold chans_of. apply filter_In. split; [exact I|]. now rewrite P.
    - unfold step. rewrite Fc. split; reflexivity. }
  destruct E as [E1 E2]. destruct (IH (step mode X s (OSet l v)) Fr) as [A B].
  - now rewrite E1.
  - intros c. rewrite E1. apply O.
  - split; congruence.
Qed.

Lemma set_val_next fuel : forall h c v h1, set_val fuel h c v = Some h1 -> h_next h1 = h_next h.
Proof.
  induction fuel as [|f IH]; simpl; intros h c v h1 E; [now injection E as <-|].
  destruct (locked h c); [discriminate|]. destruct (c_recv (ch h c)) as [r|].
  - destruct (set_val f h r v) as [h2|] eqn:E2; [|discriminate]. injection E as <-. simpl. eapply IH; exact E2.
  - now injection E as <-.
Qed.

Lemma fetch_list_frame : forall cs h h1, fetch_list h cs = Some h1 -> struct_eq h h1 /\ h_next h1 = h_next h.
Proof.
  induction cs as [|c r IH]; simpl; intros h h1 E.
  - injection E as <-. split; [apply struct_eq_refl|reflexivity].
  - destruct (fetch_one h c) as [h2|] eqn:E2; [|discriminate].
    assert (S2 : struct_eq h h2 /\ h_next h2 = h_next h).
    { unfold fetch_one in E2. destruct (find _ _) as [o|].
      - split; [eapply set_val_struct; exact E2|eapply set_val_next; exact E2].
      - injection E2 as <-. split; [apply struct_eq_refl|reflexivity]. }
    destruct S2 as [Sa Sb]. destruct (IH h2 h1 E) as [Sc Sd]. split; [eapply struct_eq_trans; eassumption|congruence].
Qed.

(* The clause "so the outputs delivered belong to the inputs the node shows", for a function node that crosses
   a pickle boundary: run(), then ANY assignments to its inputs, then the job ends. *)
Theorem delivered_belongs_to_shown mode X f h h1 sets vals v o rest :
  n_kind (nd h X) = KLeaf f -> n_children (nd h X) = [] -> crosses (n_exec (nd h X)) = true ->
  fetch h X = Some h1 -> n_running (nd h X) = false -> n_failed (nd h X) = false ->
  (forall c, In c (n_chans (nd h X)) -> c_owner (ch h c) = X /\ c < h_next h) -> X < h_next h ->
  dump DFUEL (set_flags h1 X true false) X <> None ->
  Forall is_set sets ->
  input_vals h1 X = Some vals -> apply_fun f vals = Some v ->
  chans_of h1 X POut = o :: rest -> c_recv (ch h1 o) = None ->
  let s2 := fold_left (step mode X) (ORun :: sets) (mkC h [] []) in
  exists sd, c_jobs s2 = [JPick X sd] /\
             input_vals (c_heap s2) X = Some vals /\
             snd (complete_job mode (c_heap s2) (JPick X sd)) = true /\
             c_val (ch (fst (complete_job mode (c_heap s2) (JPick X sd))) o) = Some v.
Proof.
  intros K C Cr Fe Ru Fa Own LX Du Fs IV AF PO RO. cbn [fold_left].
  destruct (fetch_list_frame _ _ _ Fe) as [[N1 C1] Nx1].
  set (h2 := set_flags h1 X true false).
  destruct (dump DFUEL h2 X) as [sd|] eqn:ED; [|exfalso; apply Du; exact ED].
  assert (S1 : step mode X (mkC h [] []) ORun = log (mkC h [] []) h2 [JPick X sd] "Future").
  { unfold step, submit, submit_with. cbn [c_heap c_jobs]. rewrite Fe. rewrite !N1, Ru, Fa.
    unfold inputs_ready. rewrite IV. cbn [orb negb andb].
    assert (HE : has_exec (n_exec (nd h X)) = true) by (destruct (n_exec (nd h X)); [discriminate|reflexivity|reflexivity]).
    rewrite HE, Cr. fold h2. rewrite ED. reflexivity. }
  rewrite S1.
  assert (NX2 : nd h2 X = n_with_flags (nd h X) true false) by (unfold h2, set_flags; now rewrite nd_setn_eq, N1).
  assert (CH2 : forall c, ch h2 c = ch h1 c) by reflexivity.
  destruct (sets_frozen mode X sets (log (mkC h [] []) h2 [JPick X sd] "Future") Fs) as [A B].
  - cbn [c_heap log]. now rewrite NX2.
  - cbn [c_heap log]. intros c Ic. apply chans_of_in in Ic. destruct Ic as [Ic _].
    rewrite NX2 in Ic. cbn [n_chans n_with_flags] in Ic. rewrite CH2. destruct (C1 c) as [Sg _].
    rewrite (csig_owner _ _ _ Sg). apply Own, Ic.
  - cbn [c_heap c_jobs log] in A, B. exists sd. rewrite A, B. split; [reflexivity|].
    assert (IV2 : input_vals h2 X = Some vals).
    { rewrite input_vals_eq. rewrite NX2. cbn [n_chans n_with_flags]. rewrite <- IV, input_vals_eq, N1. reflexivity. }
    split; [exact IV2|].
    apply (leaf_delivery mode h2 X f sd h2 vals v o rest).
    + now rewrite NX2.
    + now rewrite NX2.
    + exact ED.
    + reflexivity.
    + reflexivity.
    + unfold h2, set_flags. cbn [h_next setn]. lia.
    + intros c Ic. rewrite NX2 in Ic. cbn [n_chans n_with_flags] in Ic. unfold h2, set_flags. cbn [h_next setn].
      rewrite Nx1. apply Own, Ic.
    + exact IV2.
    + exact AF.
    + rewrite <- PO. apply chans_of_agree; [now rewrite NX2, N1|reflexivity].
    + exact RO.
Qed.


(* ------------------------------------------------------------------ the code as it is now: corollaries *)
Inductive reach (h : heap) : nat -> nat -> Prop :=
| reach_refl j : reach h j j
| reach_step j p m : n_parent (nd h j) = Some p -> reach h p m -> reach h j m.

Lemma lpath_frame f : forall h h' j,
  (forall m, reach h j m -> n_label (nd h' m) = n_label (nd h m) /\ n_parent (nd h' m) = n_parent (nd h m) /\
                            n_detached (nd h' m) = n_detached (nd h m)) ->
  lpath f h' j = lpath f h j.
Proof.
  induction f as [|f IH]; intros h h' j H; [reflexivity|]. simpl.
  destruct (H j (reach_refl h j)) as (L & P & D). rewrite L, P, D.
  destruct (n_parent (nd h j)) as [p|] eqn:Ep; [|reflexivity].
  destruct (n_detached (nd h j)); [reflexivity|].
  rewrite (IH h h' p); [reflexivity|]. intros m R. apply H. now apply (reach_step h j p m).
Qed.

(* the lexical path of the merged node is what it was (pickling keeps the label; the node's ancestors are none of
   the objects the merge touches -- true of any tree) *)
Theorem merge_path_kept h i c2 : merge_pre h i c2 -> n_label (nd h c2) = n_label (nd h i) ->
  (forall m, reach h i m -> m = i \/ (m <> c2 /\ ~ In m (n_children (nd h c2)) /\ ~ In m (n_children (nd h i)))) ->
  forall f, lpath f (merge_remote AsWritten h i c2) i = lpath f h i.
Proof.
  intros MP L A f. apply lpath_frame. intros m R.
  destruct (merge_spec AsWritten h i c2 MP eq_refl) as [((P & _ & _ & _ & Lb) & _ & _ & _ & _ & FR) [D _]].
  destruct (A m R) as [->|(M1 & M2 & M3)].
  - rewrite Lb, L, P, D. auto.
  - destruct (Nat.eq_dec m i) as [->|Ni]; [rewrite Lb, L, P, D; auto|].
    rewrite (FR m Ni M1 M2 M3). auto.
Qed.

Definition site_now := merge_site AsWritten (submitted demo_child 2) 2.
Definition site_for_now := merge_site AsWritten (as_for (submitted demo_child 2) 2) 2.


(* ------------------------------------------------------------------ a refused assignment leaves NOTHING changed *)
(* whichever channel of the receiver chain is locked -- the assigned one, or the input of ANOTHER node it forwards
   into -- the setter refuses before anything is stored *)
Lemma set_val_refused_chain : forall fuel h c v,
  existsb (locked h) (chain fuel h c) = true -> set_val fuel h c v = None.
Proof.
  induction fuel as [|f IH]; intros h c v E; [discriminate|]. simpl in *.
  destruct (locked h c) eqn:L; [reflexivity|]. simpl in E.
  destruct (c_recv (ch h c)) as [r|]; [|discriminate]. now rewrite (IH h r v E).
Qed.

Theorem refused_changes_nothing mode X s i l v c :
  find_chan (c_heap s) i PIn l = Some c ->
  existsb (locked (c_heap s)) (chain VFUEL (c_heap s) c) = true ->
  step mode X s (OSetOn i l v) = log s (c_heap s) (c_jobs s) "RuntimeError".
Proof. intros F E. unfold step. rewrite F. now rewrite (set_val_refused_chain VFUEL _ c (Some v) E). Qed.

(* ... and an accepted one walked a chain on which nobody was locked *)
Lemma set_val_accepted_chain : forall fuel h c v h1,
  set_val fuel h c v = Some h1 -> existsb (locked h) (chain fuel h c) = false.
Proof.
  induction fuel as [|f IH]; intros h c v h1 E; [reflexivity|]. simpl in *.
  destruct (locked h c); [discriminate|]. simpl.
  destruct (c_recv (ch h c)) as [r|]; [|reflexivity].
  destruct (set_val f h r v) as [h2|] eqn:E2; [|discriminate]. now apply (IH h r v h2).
Qed.

(* ------------------------------------------------------------------ a macro nested in an IDLE macro whose input forwards
   straight into it (reflected from the real graph  wf{ n0 = MF(x=1){ inner = MA(x) } }, inner on the
   pickle-boundary executor; node 1 = the enclosing macro n0, node 2 = inner) *)
Definition demo_nested : heap :=
  (mkHeap [(0%nat, mkNode "wf"%string KWf None None ExNone false false [1%nat] [0%nat; 1%nat; 2%nat; 3%nat] [1%nat]);
   (1%nat, mkNode "n0"%string KMacro (Some 0%nat) None ExNone false false [2%nat] [4%nat; 5%nat; 6%nat; 7%nat; 8%nat; 9%nat] [2%nat]);
   (2%nat, mkNode "inner"%string KMacro (Some 1%nat) None (ExInst 1%nat) false false [3%nat; 4%nat] [10%nat; 11%nat; 12%nat; 13%nat; 14%nat; 15%nat] [3%nat]);
   (3%nat, mkNode "a"%string (KLeaf FLin) (Some 2%nat) None ExNone false false [] [16%nat; 17%nat; 18%nat; 19%nat; 20%nat; 21%nat; 22%nat; 23%nat] []);
   (4%nat, mkNode "b"%string (KLeaf FLin) (Some 2%nat) None ExNone false false [] [24%nat; 25%nat; 26%nat; 27%nat; 28%nat; 29%nat; 30%nat; 31%nat] [])] [(0%nat, mkChan 0%nat "run"%string SIn [] None None);
   (1%nat, mkChan 0%nat "accumulate_and_run"%string SIn [] None None);
   (2%nat, mkChan 0%nat "ran"%string SOut [] None None);
   (3%nat, mkChan 0%nat "failed"%string SOut [] None None);
   (4%nat, mkChan 1%nat "x"%string PIn [] (Some (1)%Z) (Some 10%nat));
   (5%nat, mkChan 1%nat "out"%string POut [] None None);
   (6%nat, mkChan 1%nat "run"%string SIn [] None None);
   (7%nat, mkChan 1%nat "accumulate_and_run"%string SIn [] None None);
   (8%nat, mkChan 1%nat "ran"%string SOut [] None None);
   (9%nat, mkChan 1%nat "failed"%string SOut [] None None);
   (10%nat, mkChan 2%nat "x"%string PIn [] (Some (1)%Z) (Some 18%nat));
   (11%nat, mkChan 2%nat "out"%string POut [] None (Some 5%nat));
   (12%nat, mkChan 2%nat "run"%string SIn [] None None);
   (13%nat, mkChan 2%nat "accumulate_and_run"%string SIn [] None None);
   (14%nat, mkChan 2%nat "ran"%string SOut [] None None);
   (15%nat, mkChan 2%nat "failed"%string SOut [] None None);
   (16%nat, mkChan 3%nat "tag"%string PIn [] (Some (100)%Z) None);
   (17%nat, mkChan 3%nat "k"%string PIn [] (Some (1)%Z) None);
   (18%nat, mkChan 3%nat "a"%string PIn [] (Some (1)%Z) None);
   (19%nat, mkChan 3%nat "y"%string POut [26%nat] None None);
   (20%nat, mkChan 3%nat "run"%string SIn [] None None);
   (21%nat, mkChan 3%nat "accumulate_and_run"%string SIn [] None None);
   (22%nat, mkChan 3%nat "ran"%string SOut [29%nat] None None);
   (23%nat, mkChan 3%nat "failed"%string SOut [] None None);
   (24%nat, mkChan 4%nat "tag"%string PIn [] (Some (101)%Z) None);
   (25%nat, mkChan 4%nat "k"%string PIn [] (Some (2)%Z) None);
   (26%nat, mkChan 4%nat "a"%string PIn [19%nat] None None);
   (27%nat, mkChan 4%nat "y"%string POut [] None (Some 11%nat));
   (28%nat, mkChan 4%nat "run"%string SIn [] None None);
   (29%nat, mkChan 4%nat "accumulate_and_run"%string SIn [22%nat] None None);
   (30%nat, mkChan 4%nat "ran"%string SOut [] None None);
   (31%nat, mkChan 4%nat "failed"%string SOut [] None None)] 32%nat []).

Definition chan_val (h : heap) (i : nat) (p : panel) (l : string) : option Z :=
  match find_chan h i p l with Some c => c_val (ch h c) | None => None end.

(* while inner is out, an assignment at the ENCLOSING macro's input bounces and leaves the whole heap as it was;
   inner comes back showing the input it was sent out with, and its output belongs to it *)
Lemma nested_refused_example :
  let s1 := run_ops AsWritten 2 demo_nested [ORun] in
  let s2 := step AsWritten 2 s1 (OSetOn 1 "x" 10%Z) in
  c_log s2 = [OS "Future"; OS "RuntimeError"] /\
  render (c_heap s2) 0 = render (c_heap s1) 0 /\
  let s3 := step AsWritten 2 (step AsWritten 2 s2 (OSet "x" 10%Z)) OComplete in
  chan_val (c_heap s3) 1 PIn "x" = Some 1%Z /\ chan_val (c_heap s3) 2 PIn "x" = Some 1%Z /\
  chan_val (c_heap s3) 2 POut "out" = Some 4%Z.
Proof. vm_compute. repeat split; reflexivity. Qed.

(* an input assigned at the nested node's own level (links are one-directional: the enclosing input keeps 1) is what
   the node is sent out with, what it shows when it comes back, and what its output belongs to; the enclosing
   macro's link points at the fresh input channel *)
Lemma relink_keeps_shown :
  RELINK_PUSH = false /\
  let s := run_ops AsWritten 2 demo_nested [OSet "x" 5%Z; ORun; OComplete] in
  c_log s = [OS "ok"; OS "Future"; OS "done"] /\
  chan_val (c_heap s) 2 PIn "x" = Some 5%Z /\ chan_val (c_heap s) 2 POut "out" = Some 8%Z /\
  chan_val (c_heap s) 1 PIn "x" = Some 1%Z /\
  match find_chan (c_heap s) 1 PIn "x" with Some c => c_recv (ch (c_heap s) c) | None => None end
    = find_chan (c_heap s) 2 PIn "x".
Proof. vm_compute. repeat split; reflexivity. Qed.

(* ------------------------------------------------------------------ out again with the failed flag still set *)
(* execute() / run(check_readiness=False) skip the readiness gate -- the only place that looks at `failed`: the node
   goes out with running AND failed set.  The lock looks at `running` alone. *)
Theorem gateless_submit_goes_out mode X s sd (fetching : bool) h1 :
  (if fetching then fetch (c_heap s) X else Some (c_heap s)) = Some h1 ->
  crosses (n_exec (nd h1 X)) = true ->
  dump DFUEL (set_flags h1 X true (n_failed (nd h1 X))) X = Some sd ->
  let s1 := step mode X s (if fetching then ORunX else OExec) in
  n_running (nd (c_heap s1) X) = true /\ n_failed (nd (c_heap s1) X) = n_failed (nd h1 X) /\
  c_jobs s1 = c_jobs s ++ [JPick X sd].
Proof.
  intros F Cr D.
  assert (HE : has_exec (n_exec (nd h1 X)) = true) by (destruct (n_exec (nd h1 X)); [discriminate|reflexivity|reflexivity]).
  destruct fetching.
  - cbn [step]. unfold submit_with. rewrite F. cbn [andb]. rewrite HE, Cr, D. cbn [c_heap c_jobs log].
    split; [apply set_flags_running|split; [unfold set_flags; now rewrite nd_setn_eq|reflexivity]].
  - injection F as <-. cbn [step]. unfold submit_with. cbn [andb]. rewrite HE, Cr, D. cbn [c_heap c_jobs log].
    split; [apply set_flags_running|split; [unfold set_flags; now rewrite nd_setn_eq|reflexivity]].
Qed.

(* reflected from the real graph  wf{ n0 = Chk1(tag 0, k 3, a 3) on the pickle-boundary executor } *)
Definition demo_chk : heap :=
  (mkHeap [(0%nat, mkNode "wf"%string KWf None None ExNone false false [1%nat] [0%nat; 1%nat; 2%nat; 3%nat] [1%nat]);
   (1%nat, mkNode "n0"%string (KLeaf FChk) (Some 0%nat) None (ExInst 1%nat) false false [] [4%nat; 5%nat; 6%nat; 7%nat; 8%nat; 9%nat; 10%nat; 11%nat] [])] [(0%nat, mkChan 0%nat "run"%string SIn [] None None);
   (1%nat, mkChan 0%nat "accumulate_and_run"%string SIn [] None None);
   (2%nat, mkChan 0%nat "ran"%string SOut [] None None);
   (3%nat, mkChan 0%nat "failed"%string SOut [] None None);
   (4%nat, mkChan 1%nat "tag"%string PIn [] (Some (0)%Z) None);
   (5%nat, mkChan 1%nat "k"%string PIn [] (Some (3)%Z) None);
   (6%nat, mkChan 1%nat "a"%string PIn [] (Some (3)%Z) None);
   (7%nat, mkChan 1%nat "y"%string POut [] None None);
   (8%nat, mkChan 1%nat "run"%string SIn [] None None);
   (9%nat, mkChan 1%nat "accumulate_and_run"%string SIn [] None None);
   (10%nat, mkChan 1%nat "ran"%string SOut [] None None);
   (11%nat, mkChan 1%nat "failed"%string SOut [] None None)] 12%nat []).

(* fail on the executor (a = -2), repair (a = 9), execute(): out with failed still set; assignments bounce and
   change nothing; the delivered output belongs to a = 9; the failed flag is still set afterwards (sticky) *)
Lemma failed_then_out_example :
  let s := run_ops AsWritten 1 demo_chk [OSet "a" (-2)%Z; ORun; OComplete; OSet "a" 9%Z; OExec] in
  n_running (nd (c_heap s) 1) = true /\ n_failed (nd (c_heap s) 1) = true /\
  let s' := step AsWritten 1 (step AsWritten 1 s (OSet "a" 25%Z)) (OSet "k" 20%Z) in
  c_log s' = [OS "ok"; OS "Future"; OS "done"; OS "ok"; OS "Future"; OS "RuntimeError"; OS "RuntimeError"] /\
  c_heap s' = c_heap s /\
  let s'' := step AsWritten 1 s' OComplete in
  chan_val (c_heap s'') 1 PIn "a" = Some 9%Z /\ chan_val (c_heap s'') 1 POut "y" = Some 12%Z /\
  n_running (nd (c_heap s'') 1) = false /\ n_failed (nd (c_heap s'') 1) = true.
Proof. vm_compute. repeat split; reflexivity. Qed.
