(* ForPrim.v -- the primitives that tools/py2gallina_for.py targets when it regenerates
   for_loop.py's dictionary_to_index_maps (ForGen.v).  One primitive per accepted Python idiom:

     [len(data[key]) for key in K]  /  (len(data[key]) for key in K)     lengths data K   (first exception wins)
     math.prod(L)                        prod L            min(<the generator above>)    rmap minl (...)
     len(L)                              List.length L     K is None                     isnone K
     itertools.product( *[range(n) for n in L])            product L
     itertools.product(A, B)             py_product2 A B   range(n)                      seq 0 n
     {K[i]: x for i, x in enumerate(X)}  dict_enum K X     dict.fromkeys(K, v)           dict_fromkeys K v
     d1.update(d2); return d1            dict_update d1 d2 tuple(f(x) for x in X)        map f X
   A `try: X = E  except TypeError as e: raise TypeError(...) from e` wrapper is X = E (the class is kept). *)
From PW Require Import Base ForLoop.
Open Scope nat_scope.

Definition bind {A B} (r : res A) (k : A -> res B) : res B := match r with Ok a => k a | Err e => Err e end.
Definition rmap {A B} (f : A -> B) (r : res A) : res B := match r with Ok a => Ok (f a) | Err e => Err e end.
Definition py_product2 {A B} (a : list A) (b : list B) : list (A * B) := flat_map (fun x => map (fun y => (x, y)) b) a.
Definition enumerate {A} (l : list A) : list (nat * A) := combine (seq 0 (List.length l)) l.
(* K[i] for a position the enumeration produces; "" stands for the IndexError that cannot happen when the enumerated
   tuple is no longer than K (proved for every tuple itertools.product yields: gen proofs, product_length) *)
Definition key_at (k : list string) (i : nat) : string := nth i k "".
Definition dict_enum (k : list string) (xs : list nat) : imap :=
  fold_left (fun m (p : nat * nat) => supd (key_at k (fst p)) (snd p) m) (enumerate xs) [].
Definition dict_fromkeys (k : list string) (v : nat) : imap := fold_left (fun m key => supd key v m) k [].
Definition dict_update (d1 d2 : imap) : imap := fold_left (fun m (p : string * nat) => supd (fst p) (snd p) m) d2 d1.
