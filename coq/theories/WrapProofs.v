(* WrapProofs.v -- proofs about the Wrap.v model (C17). *)
From PW Require Import Base Wrap.
Open Scope nat_scope.

(* ================================================================================== *)
(* generic facts: association lists, string membership                                 *)
Lemma mems_false_notin x l : mems x l = false <-> ~ In x l.
Proof.
  split; intro H.
  - intro HI. apply mems_In in HI. congruence.
  - destruct (mems x l) eqn:E; [apply mems_In in E; tauto | reflexivity].
Qed.

Lemma sassoc_none_notin {B} x (l : list (string * B)) : sassoc x l = None <-> ~ In x (keys l).
Proof.
  unfold sassoc, keys. induction l as [|[k v] r IH]; simpl; [tauto|].
  destruct (String.eqb x k) eqn:E.
  - apply String.eqb_eq in E. subst. split; [discriminate | intro H; exfalso; apply H; auto].
  - apply String.eqb_neq in E. rewrite IH. split; intro H; [intros [H1|H1]; [congruence | tauto] | tauto].
Qed.

Lemma sassoc_in_keys {B} x (l : list (string * B)) v : sassoc x l = Some v -> In x (keys l).
Proof.
  intro H. destruct (in_dec string_dec x (keys l)) as [i|n]; [exact i|].
  apply sassoc_none_notin in n. congruence.
Qed.

Lemma sassoc_app {B} x (a b : list (string * B)) :
  sassoc x (a ++ b) = match sassoc x a with Some v => Some v | None => sassoc x b end.
Proof.
  unfold sassoc. induction a as [|[k v] r IH]; simpl; [reflexivity|].
  destruct (String.eqb x k); [reflexivity | exact IH].
Qed.

Lemma keys_app {B} (a b : list (string * B)) : keys (a ++ b) = keys a ++ keys b.
Proof. unfold keys. apply map_app. Qed.

Lemma supd_notin {B} k (v : B) l : ~ In k (keys l) -> supd k v l = l ++ [(k, v)].
Proof.
  unfold supd, keys. induction l as [|[k' v'] r IH]; simpl; intro H; [reflexivity|].
  destruct (String.eqb k k') eqn:E.
  - apply String.eqb_eq in E. subst. exfalso. apply H. auto.
  - f_equal. apply IH. tauto.
Qed.

Lemma NoDup_app_intro {A} (a b : list A) :
  NoDup a -> NoDup b -> (forall x, In x a -> In x b -> False) -> NoDup (a ++ b).
Proof.
  induction a as [|x r IH]; intros Ha Hb Hd; simpl; [exact Hb|].
  inversion Ha; subst. constructor.
  - intro HI. apply in_app_or in HI. destruct HI as [HI|HI]; [contradiction | exact (Hd x (or_introl eq_refl) HI)].
  - apply IH; auto. intros y Hy. apply Hd. right. exact Hy.
Qed.

(* ================================================================================== *)
(* equality of values is sound and complete                                            *)
Fixpoint val_eqb_refl (a : val) : val_eqb a a = true.
Proof.
  destruct a as [| |z|s|l|l|t kv]; simpl; try reflexivity.
  - apply Z.eqb_refl.
  - apply String.eqb_refl.
  - induction l as [|x r IHr]; [reflexivity|]. rewrite (val_eqb_refl x). exact IHr.
  - induction l as [|x r IHr]; [reflexivity|]. rewrite (val_eqb_refl x). exact IHr.
  - rewrite String.eqb_refl. simpl.
    induction kv as [|[k x] r IHr]; [reflexivity|].
    rewrite String.eqb_refl, (val_eqb_refl x). exact IHr.
Qed.

Fixpoint val_eqb_eq (a b : val) {struct a} : val_eqb a b = true -> a = b.
Proof.
  destruct a as [| |z|s|l|l|t kv]; destruct b as [| |z'|s'|l'|l'|t' kv']; simpl; try discriminate;
    try reflexivity.
  - intro H. apply Z.eqb_eq in H. congruence.
  - intro H. apply String.eqb_eq in H. congruence.
  - intro H. f_equal. revert l' H. induction l as [|x r IHr]; intros [|y r']; try discriminate; [reflexivity|].
    intro H. apply andb_true_iff in H. destruct H as [H1 H2].
    rewrite (val_eqb_eq x y H1). f_equal. apply IHr. exact H2.
  - intro H. f_equal. revert l' H. induction l as [|x r IHr]; intros [|y r']; try discriminate; [reflexivity|].
    intro H. apply andb_true_iff in H. destruct H as [H1 H2].
    rewrite (val_eqb_eq x y H1). f_equal. apply IHr. exact H2.
  - intro H. apply andb_true_iff in H. destruct H as [Ht H]. apply String.eqb_eq in Ht. subst t'.
    f_equal. revert kv' H. induction kv as [|[k x] r IHr]; intros [|[k' y] r']; try discriminate; [reflexivity|].
    intro H. apply andb_true_iff in H. destruct H as [H1 H3]. apply andb_true_iff in H1. destruct H1 as [H1 H2].
    apply String.eqb_eq in H1. subst k'. rewrite (val_eqb_eq x y H2). f_equal. apply IHr. exact H3.
Qed.

Lemma env_eqb_refl e : env_eqb e e = true.
Proof.
  induction e as [|[k v] r IH]; [reflexivity|]. simpl. rewrite String.eqb_refl, val_eqb_refl. exact IH.
Qed.

Lemma env_eqb_eq a b : env_eqb a b = true -> a = b.
Proof.
  revert b. induction a as [|[k v] r IH]; intros [|[k' v'] r']; simpl; try discriminate; [reflexivity|].
  intro H. apply andb_true_iff in H. destruct H as [H1 H3]. apply andb_true_iff in H1. destruct H1 as [H1 H2].
  apply String.eqb_eq in H1. apply val_eqb_eq in H2. subst. f_equal. apply IH. exact H3.
Qed.

Lemma env_eqb_neq a b : a <> b -> env_eqb a b = false.
Proof. intro H. destruct (env_eqb a b) eqn:E; [apply env_eqb_eq in E; contradiction | reflexivity]. Qed.

(* ================================================================================== *)
(* C17_inputs: one input per parameter, in order                                       *)
Lemma inputs_preview_loop_ok ps : forall acc,
  NoDup (keys acc ++ map p_name ps) ->
  existsb (fun p => mems (p_name p) reserved_keywords) ps = false ->
  inputs_preview_loop acc ps = Ok (acc ++ map input_entry ps).
Proof.
  induction ps as [|p r IH]; intros acc Hnd Hk; simpl.
  - rewrite app_nil_r. reflexivity.
  - simpl in Hk. apply orb_false_iff in Hk. destruct Hk as [Hp Hr]. rewrite Hp.
    assert (Hnot : ~ In (p_name p) (keys acc)).
    { intro HI. apply NoDup_remove_2 in Hnd. apply Hnd. apply in_or_app. left. exact HI. }
    rewrite (supd_notin _ _ _ Hnot). rewrite IH.
    + rewrite <- app_assoc. reflexivity.
    + rewrite keys_app. simpl. rewrite <- app_assoc. simpl.
      simpl in Hnd. exact Hnd.
    + exact Hr.
Qed.

Lemma inputs_preview_loop_reserved ps : forall acc,
  existsb (fun p => mems (p_name p) reserved_keywords) ps = true ->
  inputs_preview_loop acc ps = Err ValueErr.
Proof.
  induction ps as [|p r IH]; intros acc Hk; simpl in *; [discriminate|].
  destruct (mems (p_name p) reserved_keywords); [reflexivity|]. apply IH. exact Hk.
Qed.

Theorem inputs_preview_spec d :
  NoDup (map p_name (f_params d)) ->
  inputs_preview d =
    if existsb (fun p => mems (p_name p) reserved_keywords) (f_params d)
    then Err ValueErr else Ok (map input_entry (f_params d)).
Proof.
  intro Hnd. unfold inputs_preview.
  destruct (existsb _ (f_params d)) eqn:E.
  - apply inputs_preview_loop_reserved. exact E.
  - rewrite inputs_preview_loop_ok; [reflexivity | exact Hnd | exact E].
Qed.

(* the channels a fresh instance gets: label and hint of the preview, in order *)
Definition chan_view (c : chan) : string * (option hint * val) := (c_label c, (c_hint c, c_value c)).
Definition chan_sig (c : chan) : string * option hint := (c_label c, c_hint c).

Lemma make_inputs_view pre : forall cs, make_inputs pre = Ok cs -> map chan_view cs = pre.
Proof.
  induction pre as [|[l [h dflt]] r IH]; intros cs H; simpl in H.
  - inversion H. reflexivity.
  - destruct (chan_accepts h dflt); [|discriminate].
    destruct (make_inputs r) as [cs'|e] eqn:E; [|discriminate]. inversion H. subst. simpl.
    rewrite (IH cs' eq_refl). reflexivity.
Qed.

Lemma make_inputs_accepts pre : forall cs, make_inputs pre = Ok cs ->
  forall c, In c cs -> chan_accepts (c_hint c) (c_value c) = true.
Proof.
  induction pre as [|[l [h dflt]] r IH]; intros cs H c HI; simpl in H.
  - inversion H. subst. destruct HI.
  - destruct (chan_accepts h dflt) eqn:A; [|discriminate].
    destruct (make_inputs r) as [cs'|e] eqn:E; [|discriminate]. inversion H. subst.
    destruct HI as [HI|HI]; [subst; exact A | exact (IH cs' eq_refl c HI)].
Qed.

Lemma make_inputs_ok pre :
  (forall l h v, In (l, (h, v)) pre -> chan_accepts h v = true) ->
  exists cs, make_inputs pre = Ok cs.
Proof.
  induction pre as [|[l [h dflt]] r IH]; intro H; simpl; [eexists; reflexivity|].
  rewrite (H l h dflt (or_introl eq_refl)).
  destruct IH as [cs Hcs]; [intros; eapply H; right; eauto|]. rewrite Hcs. eexists; reflexivity.
Qed.

(* ================================================================================== *)
(* C17_binding: set_input_values against python's own binding                           *)
Definition apply_bind (cs : list chan) (b : list (string * option val)) : list chan :=
  map (fun c => match sassoc (c_label c) b with Some (Some v) => set_value c v | _ => c end) cs.

Definition bind_admitted (cs : list chan) (b : list (string * option val)) : Prop :=
  forall c v, In c cs -> sassoc (c_label c) b = Some (Some v) -> chan_accepts (c_hint c) v = true.

Lemma keys_combine_in (ls : list string) (pos : list val) x : In x (keys (combine ls pos)) -> In x ls.
Proof.
  revert pos. induction ls as [|l r IH]; intros [|v pos]; simpl; try tauto.
  intros [H|H]; [auto | right; eapply IH; eauto].
Qed.

Lemma keys_combine_nodup (ls : list string) (pos : list val) : NoDup ls -> NoDup (keys (combine ls pos)).
Proof.
  revert pos. induction ls as [|l r IH]; intros [|v pos] H; simpl; try constructor.
  - inversion H; subst. intro HI. apply keys_combine_in in HI. contradiction.
  - inversion H; subst. apply IH. assumption.
Qed.

(* py_fill fails exactly on too many positionals or a parameter given twice *)
Lemma py_fill_none ls : forall pos kw,
  py_fill ls pos kw = None ->
  List.length ls < List.length pos \/
  existsb (fun k => mems k (keys kw)) (keys (combine ls pos)) = true.
Proof.
  induction ls as [|x r IH]; intros pos kw H; simpl in H.
  - destruct pos; [discriminate|]. left. simpl. lia.
  - destruct pos as [|v pos'].
    + destruct (py_fill r [] kw) eqn:E; [discriminate|].
      destruct (IH [] kw E) as [Hl|Hc]; [simpl in Hl; lia|].
      destruct r; simpl in Hc; discriminate.
    + simpl. destruct (mems x (keys kw)) eqn:M; [right; reflexivity|].
      destruct (py_fill r pos' kw) eqn:E; [discriminate|].
      destruct (IH pos' kw E) as [Hl|Hc]; [left; lia | right; exact Hc].
Qed.

Lemma py_fill_some ls : forall pos kw b,
  py_fill ls pos kw = Some b ->
  List.length pos <= List.length ls /\
  existsb (fun k => mems k (keys kw)) (keys (combine ls pos)) = false /\
  keys b = ls.
Proof.
  induction ls as [|x r IH]; intros pos kw b H; simpl in H.
  - destruct pos; [|discriminate]. inversion H. subst. simpl. auto.
  - destruct pos as [|v pos'].
    + destruct (py_fill r [] kw) as [b'|] eqn:E; [|discriminate]. inversion H; subst.
      destruct (IH [] kw b' E) as [_ [_ Hk]]. simpl. rewrite Hk. repeat split; auto; lia.
    + destruct (mems x (keys kw)) eqn:M; [discriminate|].
      destruct (py_fill r pos' kw) as [b'|] eqn:E; [|discriminate]. inversion H; subst.
      destruct (IH pos' kw b' E) as [Hl [Hc Hk]]. simpl. rewrite M, Hc, Hk. repeat split; auto; lia.
Qed.

Lemma py_fill_total ls : forall pos kw,
  List.length pos <= List.length ls ->
  existsb (fun k => mems k (keys kw)) (keys (combine ls pos)) = false ->
  exists b, py_fill ls pos kw = Some b.
Proof.
  intros pos kw Hl Hc. destruct (py_fill ls pos kw) as [b|] eqn:E; [eauto|].
  destruct (py_fill_none ls pos kw E) as [H|H]; [lia | congruence].
Qed.

(* what the binding gives a parameter: the positional value, else the keyword value *)
Lemma py_fill_assoc ls : forall pos kw b x,
  py_fill ls pos kw = Some b -> NoDup ls -> In x ls ->
  sassoc x b = Some (match sassoc x (combine ls pos) with Some v => Some v | None => sassoc x kw end).
Proof.
  induction ls as [|y r IH]; intros pos kw b x H Hnd HI; [destruct HI|].
  simpl in H. inversion Hnd as [|? ? Hny Hnr]; subst.
  destruct pos as [|v pos'].
  - destruct (py_fill r [] kw) as [b'|] eqn:E; [|discriminate]. inversion H; subst.
    unfold sassoc at 1. simpl. fold (sassoc x b').
    destruct (String.eqb x y) eqn:Exy.
    + apply String.eqb_eq in Exy. subst. reflexivity.
    + destruct HI as [HI|HI]; [subst; rewrite String.eqb_refl in Exy; discriminate|].
      rewrite (IH [] kw b' x E Hnr HI). destruct r; reflexivity.
  - destruct (mems y (keys kw)) eqn:M; [discriminate|].
    destruct (py_fill r pos' kw) as [b'|] eqn:E; [|discriminate]. inversion H; subst.
    unfold sassoc at 1 2. simpl. fold (sassoc x b'). fold (sassoc x (combine r pos')).
    destruct (String.eqb x y) eqn:Exy; [reflexivity|].
    destruct HI as [HI|HI]; [subst; rewrite String.eqb_refl in Exy; discriminate|].
    exact (IH pos' kw b' x E Hnr HI).
Qed.

Lemma assign1_ok cs : forall k v,
  NoDup (labels cs) -> In k (labels cs) ->
  (forall c, In c cs -> c_label c = k -> chan_accepts (c_hint c) v = true) ->
  assign1 cs k v = Ok (map (fun c => if String.eqb (c_label c) k then set_value c v else c) cs).
Proof.
  induction cs as [|c r IH]; intros k v Hnd HI Hacc; [destruct HI|].
  simpl. simpl in Hnd. inversion Hnd as [|? ? Hn Hr]; subst.
  destruct (String.eqb (c_label c) k) eqn:E.
  - apply String.eqb_eq in E. rewrite (Hacc c (or_introl eq_refl) E). f_equal. f_equal.
    (* the rest is untouched: no other channel has this label *)
    clear IH Hacc HI Hnd. induction r as [|c' r' IHr]; [reflexivity|]. simpl.
    destruct (String.eqb (c_label c') k) eqn:E'.
    + apply String.eqb_eq in E'. exfalso. apply Hn. simpl. left. congruence.
    + f_equal. apply IHr.
      * intro H. apply Hn. simpl. right. exact H.
      * simpl in Hr. inversion Hr. assumption.
  - apply String.eqb_neq in E. destruct HI as [HI|HI]; [contradiction|].
    rewrite (IH k v Hr HI); [reflexivity|]. intros c' Hc'. apply Hacc. right. exact Hc'.
Qed.

Lemma labels_map_set cs (f : chan -> chan) :
  (forall c, c_label (f c) = c_label c) -> labels (map f cs) = labels cs.
Proof. intro H. unfold labels. rewrite map_map. apply map_ext. exact H. Qed.

(* sequential assignment of distinct, known, admitted keys = pointwise override *)
Lemma assign_all_override l : forall cs,
  NoDup (labels cs) -> NoDup (keys l) ->
  (forall k, In k (keys l) -> In k (labels cs)) ->
  (forall c v, In c cs -> sassoc (c_label c) l = Some v -> chan_accepts (c_hint c) v = true) ->
  assign_all cs l =
    (map (fun c => match sassoc (c_label c) l with Some v => set_value c v | None => c end) cs, None).
Proof.
  induction l as [|[k v] r IH]; intros cs Hnd Hndl Hin Hacc; simpl.
  - f_equal. symmetry. apply map_id.
  - simpl in Hndl. inversion Hndl as [|? ? Hk Hr]; subst.
    rewrite assign1_ok; [|exact Hnd|apply Hin; simpl; auto|].
    2:{ intros c Hc El. apply (Hacc c v Hc). unfold sassoc. simpl. rewrite <- El, String.eqb_refl. reflexivity. }
    set (g := fun c => if String.eqb (c_label c) k then set_value c v else c).
    assert (Hlab : forall c, c_label (g c) = c_label c).
    { intro c. unfold g. destruct (String.eqb (c_label c) k); reflexivity. }
    rewrite IH.
    + f_equal. rewrite map_map. apply map_ext. intro c. unfold g.
      unfold sassoc at 2. simpl. fold (sassoc (c_label c) r).
      destruct (String.eqb (c_label c) k) eqn:E.
      * simpl. apply String.eqb_eq in E. rewrite E.
        assert (Hn : sassoc k r = None) by (apply sassoc_none_notin; exact Hk).
        rewrite Hn. reflexivity.
      * reflexivity.
    + rewrite (labels_map_set cs g Hlab). exact Hnd.
    + exact Hr.
    + intros k' Hk'. rewrite (labels_map_set cs g Hlab). apply Hin. simpl. auto.
    + intros c' v' Hc' Ha. apply in_map_iff in Hc'. destruct Hc' as [c [Ec Hc]]. subst c'.
      rewrite Hlab in Ha.
      assert (Hh : c_hint (g c) = c_hint c) by (unfold g; destruct (String.eqb (c_label c) k); reflexivity).
      rewrite Hh. apply (Hacc c v' Hc). unfold sassoc. simpl. fold (sassoc (c_label c) r).
      destruct (String.eqb (c_label c) k) eqn:E; [|exact Ha].
      apply String.eqb_eq in E. rewrite E in Ha.
      assert (Hn : sassoc k r = None) by (apply sassoc_none_notin; exact Hk). congruence.
Qed.

Lemma existsb_clash_false (ks : list string) (kw : list string) :
  existsb (fun k => mems k kw) ks = false -> forall k, In k ks -> ~ In k kw.
Proof.
  intros H k Hk HI. rewrite <- not_true_iff_false in H. apply H. apply existsb_exists.
  exists k. split; [exact Hk | apply mems_In; exact HI].
Qed.

(* rejected calls assign nothing *)
Theorem set_input_values_rejected cs pos kw :
  py_bind (labels cs) pos kw = None ->
  set_input_values cs pos kw = (cs, Some ValueErr).
Proof.
  intro H. unfold set_input_values.
  destruct (Nat.ltb (List.length (labels cs)) (List.length pos)) eqn:L; [reflexivity|].
  destruct (existsb (fun k => mems k (keys kw)) (keys (combine (labels cs) pos))) eqn:C; [reflexivity|].
  destruct (forallb (fun k => mems k (labels cs)) (keys (kw ++ combine (labels cs) pos))) eqn:U;
    [|reflexivity].
  exfalso. unfold py_bind in H. rewrite keys_app, forallb_app in U. apply andb_true_iff in U.
  destruct U as [U _]. rewrite U in H.
  apply Nat.ltb_ge in L. destruct (py_fill_total (labels cs) pos kw L C) as [b Hb]. congruence.
Qed.

(* accepted calls set exactly what python binds, and nothing else *)
Theorem set_input_values_accepted cs pos kw b :
  NoDup (labels cs) -> NoDup (keys kw) ->
  py_bind (labels cs) pos kw = Some b ->
  bind_admitted cs b ->
  set_input_values cs pos kw = (apply_bind cs b, None).
Proof.
  intros Hnd Hkw H Hadm. unfold py_bind in H.
  destruct (forallb (fun k => mems k (labels cs)) (keys kw)) eqn:U; [|discriminate].
  destruct (py_fill_some _ _ _ _ H) as [Hl [Hc Hk]].
  unfold set_input_values.
  assert (L : Nat.ltb (List.length (labels cs)) (List.length pos) = false) by (apply Nat.ltb_ge; exact Hl).
  rewrite L, Hc.
  set (keyed := combine (labels cs) pos) in *.
  assert (U2 : forallb (fun k => mems k (labels cs)) (keys (kw ++ keyed)) = true).
  { rewrite keys_app, forallb_app, U. simpl. apply forallb_forall. intros k Hk'. apply mems_In.
    eapply keys_combine_in. exact Hk'. }
  rewrite U2. simpl.
  assert (Hagree : forall x, In x (labels cs) ->
            sassoc x (kw ++ keyed) = match sassoc x b with Some (Some v) => Some v | _ => None end).
  { intros x Hx. rewrite (py_fill_assoc _ _ _ _ x H Hnd Hx). rewrite sassoc_app. fold keyed.
    destruct (sassoc x keyed) as [v|] eqn:Ek.
    - assert (Hn : ~ In x (keys kw)).
      { eapply existsb_clash_false; [exact Hc|]. eapply sassoc_in_keys. exact Ek. }
      apply sassoc_none_notin in Hn. rewrite Hn. reflexivity.
    - destruct (sassoc x kw); reflexivity. }
  rewrite assign_all_override.
  - f_equal. unfold apply_bind. apply map_ext_in. intros c Hc'.
    rewrite Hagree; [|unfold labels; apply in_map; exact Hc'].
    destruct (sassoc (c_label c) b) as [[v|]|]; reflexivity.
  - exact Hnd.
  - rewrite keys_app. apply NoDup_app_intro; [exact Hkw | apply keys_combine_nodup; exact Hnd |].
    intros x Hx1 Hx2. exact (existsb_clash_false _ _ Hc x Hx2 Hx1).
  - intros k Hk'. apply mems_In. rewrite forallb_forall in U2. apply U2. exact Hk'.
  - intros c v Hc' Ha. apply (Hadm c v Hc'). rewrite Hagree in Ha; [|unfold labels; apply in_map; exact Hc'].
    destruct (sassoc (c_label c) b) as [[v'|]|]; congruence.
Qed.

(* ================================================================================== *)
(* C17_outputs: labels                                                                 *)
Lemma nodupb_NoDup l : nodupb String.eqb l = true -> NoDup l.
Proof.
  induction l as [|x r IH]; simpl; intro H; [constructor|].
  apply andb_true_iff in H. destruct H as [H1 H2]. constructor; [|apply IH; exact H2].
  intro HI. apply mems_In in HI. unfold mems in HI. rewrite HI in H1. discriminate.
Qed.

Lemma dict_zip_fresh {B} (ls : list string) : forall (hs : list B) acc,
  NoDup (keys acc ++ ls) -> List.length hs = List.length ls ->
  dict_zip acc ls hs = acc ++ combine ls hs.
Proof.
  induction ls as [|l r IH]; intros hs acc Hnd Hlen; destruct hs as [|h hs']; simpl in *; try discriminate.
  - rewrite app_nil_r. reflexivity.
  - assert (Hn : ~ In l (keys acc)).
    { intro HI. apply NoDup_remove_2 in Hnd. apply Hnd. apply in_or_app. auto. }
    rewrite (supd_notin _ _ _ Hn). rewrite IH.
    + rewrite <- app_assoc. reflexivity.
    + rewrite keys_app, <- app_assoc. exact Hnd.
    + lia.
Qed.

Lemma keys_combine_eq {B} (ls : list string) : forall (hs : list B),
  List.length hs = List.length ls -> keys (combine ls hs) = ls.
Proof.
  induction ls as [|l r IH]; intros [|h hs] H; simpl in *; try discriminate; [reflexivity|].
  f_equal. apply IH. lia.
Qed.

(* the labels the definition asks for: declared ones, else the scraped ones *)
Definition wanted_labels (d : fdesc) : option (list string) :=
  match f_declared d with
  | Some l => Some l
  | None => match parse_output (f_body d) with Ok x => x | Err _ => None end
  end.

Lemma validate_ok d : validate d = Ok tt ->
  exists labels returns,
    get_output_labels d = Ok labels /\ parse_output (f_body d) = Ok returns /\
    match labels with Some l => NoDup l | None => True end /\
    match labels, returns with
    | None, None => True
    | Some l, Some r => List.length l = List.length r
    | _, _ => False
    end.
Proof.
  unfold validate. intro H.
  destruct (get_output_labels d) as [labels|e]; [|discriminate].
  destruct (parse_output (f_body d)) as [returns|e] eqn:EP.
  - exists labels, returns. repeat split; auto.
    + destruct labels as [l|]; [|exact I]. apply nodupb_NoDup.
      destruct (nodupb String.eqb l); [reflexivity | simpl in H; discriminate].
    + destruct labels as [l|]; destruct returns as [r|].
      * destruct (negb (nodupb String.eqb l)); [discriminate|].
        destruct (Nat.eqb (List.length l) (List.length r)) eqn:E; [apply Nat.eqb_eq in E; exact E | discriminate].
      * destruct (negb (nodupb String.eqb l)); discriminate.
      * discriminate.
      * exact I.
  - destruct (match labels with Some l => negb (nodupb String.eqb l) | None => false end); discriminate.
Qed.

Lemma scraped_keys d l p :
  NoDup l ->
  match f_ret d with
  | None => Ok (dict_zip [] l (repeat None (List.length l)))
  | Some ra =>
      if Nat.ltb 1 (List.length l) then
        if Nat.eqb (List.length (get_args (hint_of_rann ra))) (List.length l)
        then Ok (dict_zip [] l (map Some (get_args (hint_of_rann ra))))
        else Err ValueErr
      else Ok (dict_zip [] l [Some (hint_of_rann ra)])
  end = Ok p -> keys p = l.
Proof.
  intros Hnd Hp. destruct (f_ret d) as [ra|].
  - destruct (Nat.ltb 1 (List.length l)) eqn:L1.
    + destruct (Nat.eqb (List.length (get_args (hint_of_rann ra))) (List.length l)) eqn:E; [|discriminate].
      apply Nat.eqb_eq in E. inversion Hp. rewrite dict_zip_fresh; simpl; auto.
      * apply keys_combine_eq. rewrite map_length. exact E.
      * rewrite map_length. exact E.
    + apply Nat.ltb_ge in L1. inversion Hp. destruct l as [|x [|y r]]; simpl in *; try lia; reflexivity.
  - inversion Hp. rewrite dict_zip_fresh; simpl; auto.
    + apply keys_combine_eq. apply repeat_length.
    + apply repeat_length.
Qed.

Theorem output_labels_spec d outs :
  f_validate d = true ->
  function_outputs_preview d = Ok outs ->
  keys outs = match wanted_labels d with Some (x :: r) => x :: r | _ => ["None"] end /\
  (forall l, f_declared d = Some l ->
     exists r, parse_output (f_body d) = Ok (Some r) /\ List.length r = List.length l) /\
  (forall e, parse_output (f_body d) <> Err e).
Proof.
  intros Hv H. unfold function_outputs_preview, scrapes_outputs_preview in H. rewrite Hv in H.
  destruct (validate d) as [[]|e] eqn:EV; [|discriminate].
  destruct (validate_ok d EV) as [labels [returns [EL [EP [Hnd Hcnt]]]]].
  rewrite EL in H.
  assert (Hw : wanted_labels d = labels).
  { unfold wanted_labels. unfold get_output_labels in EL. destruct (f_declared d); [inversion EL; reflexivity|].
    rewrite EP in *. inversion EL. reflexivity. }
  rewrite Hw. split; [|split].
  - set (l := match labels with Some l => l | None => [] end) in *.
    assert (Hndl : NoDup l) by (unfold l; destruct labels; [exact Hnd | constructor]).
    match type of H with
    | match ?X with _ => _ end = _ => destruct X as [p|e] eqn:EZ; [|discriminate]
    end.
    pose proof (scraped_keys d l p Hndl EZ) as Hk.
    destruct p as [|p0 pr].
    + injection H as <-. simpl in Hk. unfold l in Hk. destruct labels as [[|x r]|]; try discriminate; reflexivity.
    + injection H as <-. rewrite Hk. unfold l in Hk |- *. destruct labels as [[|x r]|]; simpl in *; try discriminate; reflexivity.
  - intros l Hl. unfold get_output_labels in EL. rewrite Hl in EL. injection EL as EL'.
    rewrite <- EL' in Hcnt. destruct returns as [r|]; [|contradiction]. exists r. split; [exact EP | lia].
  - intros e. rewrite EP. discriminate.
Qed.

(* ================================================================================== *)
(* C17_outputs: storing the result                                                      *)
Definition sig := (string * option hint)%type.
Definition mk_chan (s : sig) (v : val) : chan :=
  {| c_label := fst s; c_hint := snd s; c_value := v |}.
Definition fill (sigs : list sig) (vs : list val) : list chan :=
  map (fun sv => mk_chan (fst sv) (snd sv)) (combine sigs vs).

(* the value suits the outputs: one output takes the whole value; n outputs take an n-tuple *)
Definition fits (sigs : list sig) (v : val) : Prop :=
  match sigs with
  | [s] => chan_accepts (snd s) v = true
  | _ => exists l, v = VTup l /\ Forall2 (fun s x => chan_accepts (snd s) x = true) sigs l
  end.
(* ... and this is what the outputs must then hold *)
Definition expected_out (sigs : list sig) (v : val) : list chan :=
  match sigs with
  | [s] => [mk_chan s v]
  | _ => match v with VTup l => fill sigs l | _ => [] end
  end.

Lemma store_zip_fill outs : forall vs,
  Forall2 (fun s x => chan_accepts (snd s) x = true) (map chan_sig outs) vs ->
  store_zip outs vs = (fill (map chan_sig outs) vs, None).
Proof.
  induction outs as [|c r IH]; intros vs H; inversion H; subst; simpl; [reflexivity|].
  simpl in H2. rewrite H2. rewrite (IH _ H4). reflexivity.
Qed.

Lemma fill_values sigs : forall vs, List.length sigs = List.length vs -> map c_value (fill sigs vs) = vs.
Proof.
  induction sigs as [|s r IH]; intros [|v vs] H; simpl in *; try discriminate; [reflexivity|].
  f_equal. apply IH. lia.
Qed.

Lemma fill_sigs sigs : forall vs, List.length sigs = List.length vs -> map chan_sig (fill sigs vs) = sigs.
Proof.
  induction sigs as [|[l h] r IH]; intros [|v vs] H; simpl in *; try discriminate; [reflexivity|].
  f_equal. apply IH. lia.
Qed.

Lemma Forall2_length {A B} (P : A -> B -> Prop) l l' : Forall2 P l l' -> List.length l = List.length l'.
Proof. induction 1; simpl; auto. Qed.

Lemma expected_sigs sigs v : fits sigs v -> map chan_sig (expected_out sigs v) = sigs.
Proof.
  unfold fits, expected_out. destruct sigs as [|[l h] [|s2 r]].
  - intros [vs [-> H]]. inversion H. reflexivity.
  - reflexivity.
  - intros [vs [-> H]]. apply fill_sigs. exact (Forall2_length _ _ _ H).
Qed.

Lemma fn_return_expected sigs v : fits sigs v -> fn_return (expected_out sigs v) = v.
Proof.
  unfold fits, expected_out. destruct sigs as [|s1 [|s2 r]].
  - intros [vs [-> H]]. inversion H. reflexivity.
  - reflexivity.
  - intros [vs [-> H]]. pose proof (Forall2_length _ _ _ H) as HL.
    destruct vs as [|x1 [|x2 vs']]; simpl in HL; try discriminate.
    unfold fn_return. cbn [fill combine map].
    f_equal. change (map c_value (fill (s1 :: s2 :: r) (x1 :: x2 :: vs')) = x1 :: x2 :: vs').
    apply fill_values. exact HL.
Qed.

(* Function.process_run_result: single output <- the whole value, n outputs <- the n components;
   what run returns is the function's value *)
Theorem process_function outs sigs v :
  map chan_sig outs = sigs -> fits sigs v ->
  process_run_result KFunction outs v = (expected_out sigs v, Ok v).
Proof.
  intros Hs Hf. pose proof (fn_return_expected sigs v Hf) as Hret.
  unfold process_run_result. subst sigs.
  destruct outs as [|c1 [|c2 r]].
  - destruct Hf as [vs [-> H]]. inversion H. reflexivity.
  - simpl in Hf |- *. rewrite Hf. reflexivity.
  - assert (E : Nat.eqb (List.length (c1 :: c2 :: r)) 1 = false) by reflexivity. rewrite E.
    destruct Hf as [vs [-> H]]. cbn [iterate].
    rewrite (store_zip_fill _ _ H).
    unfold expected_out in *. cbn [map] in *. rewrite Hret. reflexivity.
Qed.

(* FromManyInputs.process_run_result *)
Theorem process_from_many name h c v :
  chan_sig c = (name, h) -> chan_accepts h v = true ->
  process_run_result (KFromMany name) [c] v = (expected_out [(name, h)] v, Ok v).
Proof.
  intros Hs Ha. unfold process_run_result, assign1. unfold chan_sig in Hs. inversion Hs; subst.
  rewrite String.eqb_refl, Ha. reflexivity.
Qed.

Definition kind_ok (k : nclass) : Prop :=
  k_kind k = KFunction \/ exists name h, k_kind k = KFromMany name /\ k_outputs k = [(name, h)].

Lemma process_ok k outs v :
  kind_ok k -> map chan_sig outs = k_outputs k -> fits (k_outputs k) v ->
  process_run_result (k_kind k) outs v = (expected_out (k_outputs k) v, Ok v).
Proof.
  intros [Hk|[name [h [Hk Ho]]]] Hs Hf.
  - rewrite Hk. apply process_function; assumption.
  - rewrite Hk, Ho in *. destruct outs as [|c [|c2 r]]; try discriminate.
    simpl in Hs. assert (Hc : chan_sig c = (name, h)) by congruence.
    apply process_from_many; [exact Hc | exact Hf].
Qed.

(* ================================================================================== *)
(* C17_run: a history of calls against the python-level reference                       *)
Lemma keys_value_dict cs : keys (value_dict cs) = labels cs.
Proof. unfold keys, value_dict, labels. rewrite map_map. reflexivity. Qed.

Lemma labels_of_sigs cs : labels cs = map fst (map chan_sig cs).
Proof. unfold labels. rewrite map_map. reflexivity. Qed.

Lemma apply_bind_sigs cs b : map chan_sig (apply_bind cs b) = map chan_sig cs.
Proof.
  unfold apply_bind. rewrite map_map. apply map_ext. intro c.
  destruct (sassoc (c_label c) b) as [[v|]|]; reflexivity.
Qed.

Lemma apply_bind_values cs b : value_dict (apply_bind cs b) = override (value_dict cs) b.
Proof.
  unfold apply_bind, value_dict, override. rewrite !map_map. apply map_ext. intro c. simpl.
  destruct (sassoc (c_label c) b) as [[v|]|]; reflexivity.
Qed.

Lemma apply_bind_accepts cs b :
  (forall c, In c cs -> chan_accepts (c_hint c) (c_value c) = true) -> bind_admitted cs b ->
  forall c, In c (apply_bind cs b) -> chan_accepts (c_hint c) (c_value c) = true.
Proof.
  intros Ha Hb c Hc. unfold apply_bind in Hc. apply in_map_iff in Hc. destruct Hc as [c0 [E Hc0]]. subst c.
  destruct (sassoc (c_label c0) b) as [[v|]|] eqn:Es; [|apply Ha; exact Hc0|apply Ha; exact Hc0].
  simpl. apply (Hb c0 v Hc0 Es).
Qed.

Lemma ready_is_data cs :
  (forall c, In c cs -> chan_accepts (c_hint c) (c_value c) = true) ->
  forallb chan_ready cs = all_data (value_dict cs).
Proof.
  induction cs as [|c r IH]; intro H; [reflexivity|]. simpl.
  rewrite IH; [|intros; apply H; right; assumption]. f_equal.
  specialize (H c (or_introl eq_refl)). unfold chan_ready, chan_accepts in *.
  destruct (c_hint c) as [h|]; [|apply andb_true_r].
  destruct (is_data (c_value c)); simpl in *; [rewrite H|]; reflexivity.
Qed.

(* one call of the node against one call of the reference: same accumulated arguments; the node
   refuses exactly when python raises; otherwise it returns the definition's value and the
   outputs hold it (whole, or by component) *)
Definition step_fn (sigs : list sig) (nr : node * res val) (ref : list (string * val) * option val) : Prop :=
  let '(n', r) := nr in
  let '(env', o) := ref in
  value_dict (n_in n') = env' /\
  match o with
  | None => exists e, r = Err e
  | Some v => n_out n' = expected_out sigs v /\ r = Ok v
  end.

Section Generic.
  Variable sem : list (string * val) -> val.
  Variable k : nclass.
  Variable F : list (string * val) -> val.        (* what the definition computes *)

  Definition in_sigs : list sig := map (fun e => (fst e, fst (snd e))) (k_inputs k).
  Hypothesis Hrun : forall ins, map chan_sig ins = in_sigs ->
    on_run sem (k_runner k) ins = Ok (F (value_dict ins)).
  Hypothesis Hkind : kind_ok k.
  Hypothesis Hfits : forall env, fits (k_outputs k) (F env).
  Hypothesis Hnd : NoDup (keys (k_inputs k)).
  Hypothesis Hflags : forall x, In x (keys (k_inputs k)) -> ~ In x run_flags.

  Definition Inv (n : node) (env : list (string * val)) (last : option (list (string * val))) : Prop :=
    n_cls n = k /\ map chan_sig (n_in n) = in_sigs /\ value_dict (n_in n) = env /\
    (forall c, In c (n_in n) -> chan_accepts (c_hint c) (c_value c) = true) /\
    n_failed n = false /\ map chan_sig (n_out n) = k_outputs k /\
    n_cached n = (if k_cache k then last else None) /\
    (forall c, last = Some c -> all_data c = true /\ n_out n = expected_out (k_outputs k) (F c)).

  (* the values an op passes suit the hints of the channels they are bound to *)
  Definition op_admitted (op : list val * list (string * val)) : Prop :=
    NoDup (keys (snd op)) /\
    forall b, py_bind (keys (k_inputs k)) (fst op) (snd op) = Some b ->
      forall x v h, sassoc x b = Some (Some v) -> In (x, h) in_sigs -> chan_accepts h v = true.

  Lemma keys_in_sigs : map fst in_sigs = keys (k_inputs k).
  Proof. unfold in_sigs, keys. rewrite map_map. reflexivity. Qed.

  Lemma inv_labels n env last : Inv n env last -> labels (n_in n) = keys (k_inputs k) /\ keys env = keys (k_inputs k).
  Proof.
    intros [_ [Hs [Hv _]]]. split.
    - rewrite labels_of_sigs, Hs. apply keys_in_sigs.
    - rewrite <- Hv, keys_value_dict, labels_of_sigs, Hs. apply keys_in_sigs.
  Qed.

  (* a cache hit returns what the run returned *)
  Lemma hit_return_expected v : fits (k_outputs k) v ->
    hit_return (k_kind k) (expected_out (k_outputs k) v) = v.
  Proof.
    intro Hf. destruct Hkind as [Hk|[name [h [Hk Ho]]]]; rewrite Hk.
    - apply fn_return_expected. exact Hf.
    - rewrite Ho. simpl. rewrite String.eqb_refl. reflexivity.
  Qed.

  Ltac inv_tac Hlast :=
    repeat split; auto;
    try (match goal with H : _ = Some _ |- _ => destruct (Hlast _ H); assumption end).

  Ltac fin Hlast :=
    inv_tac Hlast;
    try (cbn; repeat match goal with E : k_cache _ = _ |- _ => rewrite E end; reflexivity);
    try (apply expected_sigs; apply Hfits);
    try (match goal with
         | E : _ = ?c, H : value_dict ?i = _ |- value_dict ?i = ?c => rewrite <- E; exact H
         end);
    try (match goal with
         | H : Some _ = Some _ |- _ => injection H as <-; first [assumption | reflexivity]
         end);
    try discriminate.

  Lemma step n env last pos kw :
    Inv n env last -> op_admitted (pos, kw) ->
    let env' := fst (ref_call F env pos kw) in
    let o := snd (ref_call F env pos kw) in
    let last' := match o with Some _ => Some env' | None => last end in
    Inv (fst (call sem n pos kw)) env' last' /\ step_fn (k_outputs k) (call sem n pos kw) (env', o).
  Proof.
    intros HI [Hkw Hadm]. simpl in Hkw, Hadm.
    destruct (inv_labels n env last HI) as [Hlab Hkeys].
    destruct HI as [Hc [Hs [Hv [Hacc [Hnf [Hos [Hca Hlast]]]]]]].
    unfold ref_call. rewrite Hkeys. unfold call.
    destruct (existsb (fun key => mems key run_flags) (keys kw)) eqn:Efl.
    { (* a keyword named like a run flag: it is no parameter, python refuses as well *)
      assert (Hb : py_bind (keys (k_inputs k)) pos kw = None).
      { unfold py_bind. apply existsb_exists in Efl. destruct Efl as [key [Hk1 Hk2]]. apply mems_In in Hk2.
        assert (Hfa : forallb (fun x => mems x (keys (k_inputs k))) (keys kw) = false).
        { apply not_true_iff_false. intro Hall. rewrite forallb_forall in Hall.
          specialize (Hall key Hk1). apply mems_In in Hall. exact (Hflags key Hall Hk2). }
        rewrite Hfa. reflexivity. }
      rewrite Hb. simpl. split.
      - inv_tac Hlast.
      - split; [exact Hv | eexists; reflexivity]. }
    destruct (py_bind (keys (k_inputs k)) pos kw) as [b|] eqn:Eb.
    2:{ rewrite set_input_values_rejected; [|rewrite Hlab; exact Eb]. simpl. split.
        - inv_tac Hlast.
        - split; [exact Hv | eexists; reflexivity]. }
    assert (Hba : bind_admitted (n_in n) b).
    { intros c v Hcin Ha. apply (Hadm b eq_refl (c_label c) v (c_hint c) Ha).
      rewrite <- Hs. change (c_label c, c_hint c) with (chan_sig c). apply in_map. exact Hcin. }
    rewrite (set_input_values_accepted (n_in n) pos kw b); [|rewrite Hlab; exact Hnd|exact Hkw|rewrite Hlab; exact Eb|exact Hba].
    set (ins := apply_bind (n_in n) b).
    assert (Hv' : value_dict ins = override env b) by (unfold ins; rewrite apply_bind_values, Hv; reflexivity).
    assert (Hs' : map chan_sig ins = in_sigs) by (unfold ins; rewrite apply_bind_sigs; exact Hs).
    assert (Hacc' : forall c, In c ins -> chan_accepts (c_hint c) (c_value c) = true)
      by (apply apply_bind_accepts; assumption).
    rewrite Hnf, Hca, Hc. cbn [negb andb orb fst snd].
    rewrite (ready_is_data ins Hacc'), Hv'.
    set (env' := override env b) in *.
    destruct (k_cache k) eqn:Ecache; cbn [andb].
    - (* caching node *)
      destruct last as [c|].
      + destruct (Hlast c eq_refl) as [Hdc Houtc].
        destruct (env_eqb env' c) eqn:Eeq.
        * (* cache hit *)
          apply env_eqb_eq in Eeq. rewrite Eeq, Hdc. cbn [fst snd]. split.
          -- fin Hlast.
          -- cbn. split; [rewrite <- Eeq; exact Hv'|]. split; [exact Houtc|].
             rewrite Houtc. rewrite (hit_return_expected _ (Hfits c)). reflexivity.
        * destruct (all_data env') eqn:Ed; cbn [negb fst snd].
          -- rewrite (Hrun ins Hs'), Hv'. fold env'.
             rewrite (process_ok k (n_out n) (F env') Hkind Hos (Hfits env')). cbn. rewrite ?Ecache. split.
             ++ fin Hlast.
             ++ split; [exact Hv'|]. split; reflexivity.
          -- cbn. rewrite ?Ecache. split.
             ++ fin Hlast.
             ++ split; [exact Hv' | eexists; reflexivity].
      + destruct (all_data env') eqn:Ed; cbn [negb fst snd].
        * rewrite (Hrun ins Hs'), Hv'. fold env'.
          rewrite (process_ok k (n_out n) (F env') Hkind Hos (Hfits env')). cbn. rewrite ?Ecache. split.
          -- fin Hlast.
          -- split; [exact Hv'|]. split; reflexivity.
        * cbn. rewrite ?Ecache. split.
          -- fin Hlast.
          -- split; [exact Hv' | eexists; reflexivity].
    - (* use_cache = False *)
      destruct (all_data env') eqn:Ed; cbn [negb fst snd].
      + rewrite (Hrun ins Hs'), Hv'. fold env'.
        rewrite (process_ok k (n_out n) (F env') Hkind Hos (Hfits env')). cbn. rewrite ?Ecache. split.
        * fin Hlast.
        * split; [exact Hv'|]. split; reflexivity.
      + cbn. rewrite ?Ecache. split.
        * fin Hlast.
        * split; [exact Hv' | eexists; reflexivity].
  Qed.

  (* a whole history of calls follows the reference *)
  Theorem history ops : forall n env last,
    Inv n env last -> Forall op_admitted ops ->
    Forall2 (step_fn (k_outputs k)) (calls sem n ops) (ref_run F env ops).
  Proof.
    induction ops as [|[pos kw] r IH]; intros n env last HI Hadm; simpl; [constructor|].
    inversion Hadm as [|? ? Ha Hr]; subst.
    pose proof (step n env last pos kw HI Ha) as Hstep. cbv zeta in Hstep.
    destruct (call sem n pos kw) as [n' x] eqn:Ec.
    destruct (ref_call F env pos kw) as [env' o] eqn:Er.
    simpl in Hstep. destruct Hstep as [HI' Hs]. constructor; [exact Hs|].
    eapply IH; eassumption.
  Qed.

  (* construction: cls( *args, **kwargs) *)
  Definition defaults_accepted : Prop :=
    forall l h v, In (l, (h, v)) (k_inputs k) -> chan_accepts h v = true.

  Lemma make_inputs_sigs ins : make_inputs (k_inputs k) = Ok ins -> map chan_sig ins = in_sigs.
  Proof.
    intro H. apply make_inputs_view in H. unfold in_sigs. rewrite <- H, map_map. reflexivity.
  Qed.

  Lemma instantiate_from ins ins1 pos kw :
    make_inputs (k_inputs k) = Ok ins ->
    apply_factories (k_factories k) ins ins = Ok ins1 ->
    map chan_sig ins1 = in_sigs ->
    (forall c, In c ins1 -> chan_accepts (c_hint c) (c_value c) = true) ->
    op_admitted (pos, kw) ->
    match py_bind (keys (k_inputs k)) pos kw with
    | None => instantiate k pos kw = Err ValueErr
    | Some b => exists n, instantiate k pos kw = Ok n /\ Inv n (override (value_dict ins1) b) None
    end.
  Proof.
    intros Hm Hf Hs Hacc [Hkw Hadm]. simpl in Hkw, Hadm. unfold instantiate. rewrite Hm, Hf.
    assert (Hlab : labels ins1 = keys (k_inputs k)) by (rewrite labels_of_sigs, Hs; apply keys_in_sigs).
    destruct (py_bind (keys (k_inputs k)) pos kw) as [b|] eqn:Eb.
    - assert (Hba : bind_admitted ins1 b).
      { intros c v Hcin Ha. apply (Hadm b eq_refl (c_label c) v (c_hint c) Ha).
        rewrite <- Hs. change (c_label c, c_hint c) with (chan_sig c). apply in_map. exact Hcin. }
      rewrite (set_input_values_accepted ins1 pos kw b); [|rewrite Hlab; exact Hnd|exact Hkw|rewrite Hlab; exact Eb|exact Hba].
      eexists. split; [reflexivity|]. unfold Inv. cbn.
      repeat split.
      + rewrite apply_bind_sigs. exact Hs.
      + apply apply_bind_values.
      + apply apply_bind_accepts; assumption.
      + unfold make_outputs. rewrite map_map. rewrite <- (map_id (k_outputs k)) at 2. apply map_ext.
        intros [l h]. reflexivity.
      + destruct (k_cache k); reflexivity.
      + discriminate.
      + discriminate.
    - rewrite set_input_values_rejected; [reflexivity | rewrite Hlab; exact Eb].
  Qed.
End Generic.

(* ================================================================================== *)
(* instances of the generic theorem                                                    *)
Lemma apply_factories_nil todo : forall cs, apply_factories [] todo cs = Ok cs.
Proof.
  induction todo as [|c r IH]; intro cs; simpl; [reflexivity|].
  destruct (c_value c); apply IH.
Qed.

Definition defaults_of (k : nclass) : list (string * val) :=
  map (fun e => (fst e, snd (snd e))) (k_inputs k).

Lemma make_inputs_values pre cs : make_inputs pre = Ok cs ->
  value_dict cs = map (fun e => (fst e, snd (snd e))) pre.
Proof.
  intro H. apply make_inputs_view in H. rewrite <- H. unfold value_dict. rewrite map_map. reflexivity.
Qed.

(* construction of a node whose class has no default factories *)
Lemma instantiate_plain k F pos kw :
  NoDup (keys (k_inputs k)) -> k_factories k = [] -> defaults_accepted k ->
  op_admitted k (pos, kw) ->
  match py_bind (keys (k_inputs k)) pos kw with
  | None => instantiate k pos kw = Err ValueErr
  | Some b => exists n, instantiate k pos kw = Ok n /\ Inv k F n (override (defaults_of k) b) None
  end.
Proof.
  intros Hnd Hfac Hdef Hadm.
  destruct (make_inputs_ok (k_inputs k) Hdef) as [ins Hins].
  pose proof (instantiate_from k F Hnd ins ins pos kw Hins) as H.
  rewrite Hfac, apply_factories_nil in H.
  rewrite (make_inputs_values _ _ Hins) in H. apply H; auto.
  - apply make_inputs_sigs. exact Hins.
  - apply (make_inputs_accepts _ _ Hins).
Qed.

Lemma Forall2_impl {A B} (P Q : A -> B -> Prop) l l' :
  (forall a b, P a b -> Q a b) -> Forall2 P l l' -> Forall2 Q l l'.
Proof. intros H HF. induction HF; constructor; auto. Qed.

Lemma function_class_fields d k : function_class d = Ok k ->
  inputs_preview d = Ok (k_inputs k) /\ function_outputs_preview d = Ok (k_outputs k) /\
  k_runner k = RunFn /\ k_kind k = KFunction /\ k_factories k = [].
Proof.
  unfold function_class. destruct (inputs_preview d) as [ins|e]; [|discriminate].
  destruct (function_outputs_preview d) as [outs|e]; [|discriminate].
  intro H. inversion H. subst. simpl. auto.
Qed.

Lemma keys_input_entries ps : keys (map input_entry ps) = map p_name ps.
Proof. unfold keys. rewrite map_map. reflexivity. Qed.

Lemma run_flag_reserved x : In x run_flags -> mems x reserved_keywords = true.
Proof. unfold run_flags. simpl. intros [<-|[<-|[<-|[<-|[<-|[]]]]]]; reflexivity. Qed.

(* C17_run for function nodes *)
Theorem function_node_run sem d k :
  function_class d = Ok k ->
  NoDup (map p_name (f_params d)) ->
  (forall env, fits (k_outputs k) (sem env)) ->
  defaults_accepted k ->
  forall pos0 kw0, op_admitted k (pos0, kw0) ->
  match py_bind (map p_name (f_params d)) pos0 kw0 with
  | None => instantiate k pos0 kw0 = Err ValueErr
  | Some b =>
      exists n, instantiate k pos0 kw0 = Ok n /\
        let env0 := override (defaults_of k) b in
        value_dict (n_in n) = env0 /\
        forall ops, Forall (op_admitted k) ops ->
          Forall2 (step_fn (k_outputs k)) (calls sem n ops) (ref_run sem env0 ops)
  end.
Proof.
  intros Hc Hnd Hfit Hdef pos0 kw0 Hadm.
  destruct (function_class_fields d k Hc) as [Hin [Hout [Hr [Hk Hf]]]].
  rewrite (inputs_preview_spec d Hnd) in Hin.
  destruct (existsb _ (f_params d)) eqn:Eres; [discriminate|]. injection Hin as Hin.
  assert (Hfl : forall x, In x (map p_name (f_params d)) -> ~ In x run_flags).
  { intros x Hx Hflag. apply in_map_iff in Hx. destruct Hx as [p [<- Hp]].
    apply not_true_iff_false in Eres. apply Eres. apply existsb_exists. exists p. split; [exact Hp|].
    apply run_flag_reserved. exact Hflag. }
  assert (Hkeys : keys (k_inputs k) = map p_name (f_params d)) by (rewrite <- Hin; apply keys_input_entries).
  assert (Hnd' : NoDup (keys (k_inputs k))) by (rewrite Hkeys; exact Hnd).
  pose proof (instantiate_plain k sem pos0 kw0 Hnd' Hf Hdef Hadm) as HI.
  rewrite Hkeys in HI.
  destruct (py_bind (map p_name (f_params d)) pos0 kw0) as [b|]; [|exact HI].
  destruct HI as [n [Hn HInv]]. exists n. split; [exact Hn|]. cbv zeta. split.
  - destruct HInv as [_ [_ [Hv _]]]. exact Hv.
  - intros ops Hops. apply (history sem k sem) with (last := None); auto.
    + intros ins _. rewrite Hr. reflexivity.
    + left. exact Hk.
    + rewrite Hkeys. exact Hfl.
Qed.

(* ---- numbered labels are pairwise distinct ---------------------------------------- *)
From Coq Require Import Decimal DecimalFacts DecimalNat DecimalString.

Lemma revapp_nonnil d : forall acc, acc <> Nil -> revapp d acc <> Nil.
Proof. induction d; simpl; intros acc H; auto; apply IHd; discriminate. Qed.

Lemma to_uint_nonnil n : Nat.to_uint n <> Nil.
Proof.
  rewrite Unsigned.to_uint_alt. unfold Decimal.rev.
  assert (H : Unsigned.to_lu n <> Nil).
  { destruct n; [discriminate|]. rewrite Unsigned.to_lu_succ. destruct (Unsigned.to_lu n); discriminate. }
  destruct (Unsigned.to_lu n); try contradiction; simpl; apply revapp_nonnil; discriminate.
Qed.

Lemma numbered_inj prefix i j : numbered prefix i = numbered prefix j -> i = j.
Proof.
  unfold numbered. intro H.
  assert (H' : NilZero.string_of_uint (Nat.to_uint i) = NilZero.string_of_uint (Nat.to_uint j)).
  { induction prefix as [|c r IH]; simpl in H; [exact H | injection H as H; exact (IH H)]. }
  apply (f_equal NilZero.uint_of_string) in H'.
  rewrite !NilZero.usu in H' by apply to_uint_nonnil.
  injection H' as H'. apply Unsigned.to_uint_inj. exact H'.
Qed.

Lemma range_from_in i n x : In x (range_from i n) <-> i <= x < i + n.
Proof.
  revert i. induction n as [|n IH]; intro i; simpl; [lia|]. rewrite IH. lia.
Qed.

Lemma range_from_nodup n : forall i, NoDup (range_from i n).
Proof.
  induction n as [|n IH]; intro i; simpl; constructor; [|apply IH].
  rewrite range_from_in. lia.
Qed.

Lemma numbered_nodup prefix n : NoDup (map (numbered prefix) (range_from 0 n)).
Proof.
  assert (H : forall l, NoDup l -> NoDup (map (numbered prefix) l)).
  { induction l as [|x r IH]; intro Hn; simpl; constructor; inversion Hn; subst; auto.
    intro HI. apply in_map_iff in HI. destruct HI as [y [Ey Hy]]. apply numbered_inj in Ey. subst. contradiction. }
  apply H. apply range_from_nodup.
Qed.

(* ---- inputs_to_list(n) ---------------------------------------------------------------- *)
Definition list_of_env (env : list (string * val)) : val := VList (map snd env).

Lemma to_list_keys n : keys (k_inputs (to_list_class n)) = map (numbered "item_") (range_from 0 n).
Proof. unfold keys, to_list_class. simpl. rewrite map_map. reflexivity. Qed.

Lemma item_not_flag i : ~ In (numbered "item_" i) run_flags.
Proof.
  unfold numbered, run_flags. simpl. intros [H|[H|[H|[H|[H|[]]]]]]; discriminate.
Qed.

(* C17_transformers, inputs-to-list: any size, any construction split, any history of call
   splits; [rep] marks the calls that repeat the arguments of the latest successful call *)
Theorem to_list_run n pos0 kw0 :
  NoDup (keys kw0) ->
  match py_bind (map (numbered "item_") (range_from 0 n)) pos0 kw0 with
  | None => instantiate (to_list_class n) pos0 kw0 = Err ValueErr
  | Some b =>
      exists nd, instantiate (to_list_class n) pos0 kw0 = Ok nd /\
        let env0 := override (map (fun i => (numbered "item_" i, VNotData)) (range_from 0 n)) b in
        value_dict (n_in nd) = env0 /\
        forall sem ops, Forall (fun op => NoDup (keys (snd op))) ops ->
          Forall2 (step_fn (k_outputs (to_list_class n))) (calls sem nd ops) (ref_run list_of_env env0 ops)
  end.
Proof.
  intro Hkw0. set (k := to_list_class n).
  assert (Hnd : NoDup (keys (k_inputs k))) by (unfold k; rewrite to_list_keys; apply numbered_nodup).
  assert (Hall : forall op, NoDup (keys (snd op)) -> op_admitted k op).
  { intros op Hop. split; [exact Hop|]. intros b _ x v h _ Hin. unfold in_sigs, k in Hin. simpl in Hin.
    rewrite map_map in Hin. apply in_map_iff in Hin. destruct Hin as [i [Ei _]]. simpl in Ei.
    injection Ei as _ <-. reflexivity. }
  assert (Hdef : defaults_accepted k).
  { intros l h v Hin. unfold k in Hin. simpl in Hin. apply in_map_iff in Hin. destruct Hin as [i [Ei _]].
    injection Ei as _ <- _. reflexivity. }
  pose proof (instantiate_plain k list_of_env pos0 kw0 Hnd eq_refl Hdef (Hall (pos0, kw0) Hkw0)) as HI.
  unfold k in HI at 1. rewrite to_list_keys in HI.
  destruct (py_bind _ pos0 kw0) as [b|]; [|exact HI].
  destruct HI as [nd [Hn HInv]]. exists nd. split; [exact Hn|].
  assert (Hd0 : defaults_of k = map (fun i => (numbered "item_" i, VNotData)) (range_from 0 n)).
  { unfold defaults_of, k. simpl. rewrite map_map. reflexivity. }
  rewrite Hd0 in HInv. cbv zeta. split.
  - destruct HInv as [_ [_ [Hv _]]]. exact Hv.
  - intros sem ops Hops. apply (history sem k list_of_env) with (last := None); [intros ins _; reflexivity| | | exact Hnd | | exact HInv |].
    + right. exists "list", (Some (HAtoms [AListT])). split; reflexivity.
    + intro env. reflexivity.
    + intros x Hx. unfold k in Hx. rewrite to_list_keys in Hx. apply in_map_iff in Hx.
      destruct Hx as [i [<- _]]. apply item_not_flag.
    + eapply Forall_impl; [|exact Hops]. intros op Hop. apply Hall. exact Hop.
Qed.

(* ---- default factories (DataclassNode._setup_node) ------------------------------------ *)
Definition fac_list (facs : list (string * val)) (todo : list chan) : list (string * val) :=
  flat_map (fun c => match c_value c, sassoc (c_label c) facs with
                     | VNotData, Some v => [(c_label c, v)]
                     | _, _ => []
                     end) todo.

Lemma apply_factories_assign facs todo : forall cs,
  apply_factories facs todo cs =
    match assign_all cs (fac_list facs todo) with (cs', None) => Ok cs' | (_, Some e) => Err e end.
Proof.
  induction todo as [|c r IH]; intro cs; simpl; [reflexivity|].
  destruct (c_value c); try apply IH.
  destruct (sassoc (c_label c) facs) as [v|]; [|apply IH].
  simpl. destruct (assign1 cs (c_label c) v) as [cs'|e]; [apply IH | reflexivity].
Qed.

Lemma fac_list_keys facs todo x : In x (keys (fac_list facs todo)) -> In x (labels todo).
Proof.
  induction todo as [|c r IH]; simpl; [tauto|]. unfold fac_list. simpl. fold (fac_list facs r).
  rewrite keys_app. intro H. apply in_app_or in H. destruct H as [H|H]; [|right; apply IH; exact H].
  left. destruct (c_value c); simpl in H; try tauto.
  destruct (sassoc (c_label c) facs); simpl in H; [destruct H as [H|[]]; auto | tauto].
Qed.

Lemma fac_list_nodup facs todo : NoDup (labels todo) -> NoDup (keys (fac_list facs todo)).
Proof.
  induction todo as [|c r IH]; simpl; intro H; [constructor|]. inversion H as [|? ? Hn Hr]; subst.
  unfold fac_list. simpl. fold (fac_list facs r). rewrite keys_app.
  apply NoDup_app_intro; [| apply IH; exact Hr |].
  - destruct (c_value c); try constructor. destruct (sassoc (c_label c) facs); repeat constructor. intros [].
  - intros x H1 H2. apply fac_list_keys in H2.
    assert (x = c_label c).
    { destruct (c_value c); simpl in H1; try tauto.
      destruct (sassoc (c_label c) facs); simpl in H1; [destruct H1 as [H1|[]]; auto | tauto]. }
    subst. contradiction.
Qed.

Lemma fac_list_assoc facs todo : NoDup (labels todo) -> forall c, In c todo ->
  sassoc (c_label c) (fac_list facs todo) =
    match c_value c, sassoc (c_label c) facs with VNotData, Some v => Some v | _, _ => None end.
Proof.
  induction todo as [|c0 r IH]; intros Hnd c Hc; [destruct Hc|].
  simpl in Hnd. inversion Hnd as [|? ? Hn Hr]; subst.
  unfold fac_list. simpl. fold (fac_list facs r). rewrite sassoc_app.
  destruct Hc as [Hc|Hc].
  - subst c0.
    assert (Hnone : sassoc (c_label c) (fac_list facs r) = None).
    { apply sassoc_none_notin. intro HI. apply fac_list_keys in HI. contradiction. }
    destruct (c_value c); simpl; try exact Hnone.
    destruct (sassoc (c_label c) facs) as [v|]; simpl; [|exact Hnone].
    unfold sassoc. simpl. rewrite String.eqb_refl. reflexivity.
  - assert (Hne : c_label c <> c_label c0).
    { intro E. apply Hn. rewrite <- E. unfold labels. apply in_map. exact Hc. }
    assert (Hskip : sassoc (c_label c)
              (match c_value c0, sassoc (c_label c0) facs with
               | VNotData, Some v => [(c_label c0, v)] | _, _ => [] end) = None).
    { destruct (c_value c0); try reflexivity. destruct (sassoc (c_label c0) facs); [|reflexivity].
      unfold sassoc. simpl. apply String.eqb_neq in Hne. rewrite Hne. reflexivity. }
    rewrite Hskip. apply IH; assumption.
Qed.

(* the values of a fresh instance before any argument: defaults, then factories *)
Definition setup_env (k : nclass) : list (string * val) :=
  map (fun e => (fst e, match snd (snd e), sassoc (fst e) (k_factories k) with
                        | VNotData, Some v => v
                        | x, _ => x
                        end)) (k_inputs k).

Definition factories_accepted (k : nclass) : Prop :=
  forall l h dflt v, In (l, (h, dflt)) (k_inputs k) -> sassoc l (k_factories k) = Some v -> chan_accepts h v = true.

Theorem instantiate_spec k F pos kw :
  NoDup (keys (k_inputs k)) -> defaults_accepted k -> factories_accepted k ->
  op_admitted k (pos, kw) ->
  match py_bind (keys (k_inputs k)) pos kw with
  | None => instantiate k pos kw = Err ValueErr
  | Some b => exists n, instantiate k pos kw = Ok n /\ Inv k F n (override (setup_env k) b) None
  end.
Proof.
  intros Hnd Hdef Hfac Hadm.
  destruct (make_inputs_ok (k_inputs k) Hdef) as [ins Hins].
  pose proof (make_inputs_view _ _ Hins) as Hview.
  assert (Hlab : labels ins = keys (k_inputs k)).
  { rewrite <- Hview. unfold labels, keys. rewrite map_map. reflexivity. }
  assert (Hndl : NoDup (labels ins)) by (rewrite Hlab; exact Hnd).
  set (f := fun c => match sassoc (c_label c) (fac_list (k_factories k) ins) with
                     | Some v => set_value c v | None => c end).
  assert (Hf : apply_factories (k_factories k) ins ins = Ok (map f ins)).
  { rewrite apply_factories_assign, assign_all_override; [reflexivity|exact Hndl| | |].
    - apply fac_list_nodup. exact Hndl.
    - apply fac_list_keys.
    - intros c v Hc Ha. rewrite (fac_list_assoc _ _ Hndl c Hc) in Ha.
      destruct (c_value c) eqn:Ev; try discriminate.
      destruct (sassoc (c_label c) (k_factories k)) as [v'|] eqn:Es; [|discriminate]. injection Ha as <-.
      apply (Hfac (c_label c) (c_hint c) (c_value c) v'); [|exact Es].
      rewrite <- Hview. change (c_label c, (c_hint c, c_value c)) with (chan_view c). apply in_map. exact Hc. }
  pose proof (instantiate_from k F Hnd ins (map f ins) pos kw Hins Hf) as H.
  assert (Hsig : forall c, chan_sig (f c) = chan_sig c).
  { intro c. unfold f. destruct (sassoc (c_label c) (fac_list (k_factories k) ins)); reflexivity. }
  assert (Henv : value_dict (map f ins) = setup_env k).
  { unfold setup_env. rewrite <- Hview. unfold value_dict. rewrite !map_map. apply map_ext_in. intros c Hc.
    unfold f. rewrite (fac_list_assoc _ _ Hndl c Hc). simpl.
    destruct (c_value c) eqn:Ev; simpl; rewrite ?Ev; try reflexivity.
    destruct (sassoc (c_label c) (k_factories k)); simpl; rewrite ?Ev; reflexivity. }
  rewrite Henv in H. apply H; auto.
  - rewrite map_map. rewrite (map_ext _ _ Hsig). apply make_inputs_sigs. exact Hins.
  - intros c' Hc'. apply in_map_iff in Hc'. destruct Hc' as [c [<- Hc]].
    unfold f. rewrite (fac_list_assoc _ _ Hndl c Hc).
    destruct (c_value c) eqn:Ev; try (apply (make_inputs_accepts _ _ Hins); exact Hc).
    destruct (sassoc (c_label c) (k_factories k)) as [v'|] eqn:Es;
      [|apply (make_inputs_accepts _ _ Hins); exact Hc].
    simpl. apply (Hfac (c_label c) (c_hint c) (c_value c) v'); [|exact Es].
    rewrite <- Hview. change (c_label c, (c_hint c, c_value c)) with (chan_view c). apply in_map. exact Hc.
Qed.

(* construction + history, for any class meeting the side conditions *)
Theorem class_run k F :
  NoDup (keys (k_inputs k)) -> defaults_accepted k -> factories_accepted k -> kind_ok k ->
  (forall env, fits (k_outputs k) (F env)) ->
  (forall x, In x (keys (k_inputs k)) -> ~ In x run_flags) ->
  forall pos0 kw0, op_admitted k (pos0, kw0) ->
  match py_bind (keys (k_inputs k)) pos0 kw0 with
  | None => instantiate k pos0 kw0 = Err ValueErr
  | Some b =>
      exists n, instantiate k pos0 kw0 = Ok n /\
        let env0 := override (setup_env k) b in
        value_dict (n_in n) = env0 /\
        forall sem,
          (forall ins, map chan_sig ins = in_sigs k -> on_run sem (k_runner k) ins = Ok (F (value_dict ins))) ->
          forall ops, Forall (op_admitted k) ops ->
            Forall2 (step_fn (k_outputs k)) (calls sem n ops) (ref_run F env0 ops)
  end.
Proof.
  intros Hnd Hdef Hfac Hkind Hfits Hfl pos0 kw0 Hadm.
  pose proof (instantiate_spec k F pos0 kw0 Hnd Hdef Hfac Hadm) as HI.
  destruct (py_bind (keys (k_inputs k)) pos0 kw0) as [b|]; [|exact HI].
  destruct HI as [n [Hn HInv]]. exists n. split; [exact Hn|]. cbv zeta. split.
  - destruct HInv as [_ [_ [Hv _]]]. exact Hv.
  - intros sem Hrun ops Hops. apply (history sem k F) with (last := None); assumption.
Qed.

(* ---- inputs_to_dict(spec) -------------------------------------------------------------- *)
Lemma supd_keys {B} k (v : B) acc :
  keys (supd k v acc) = if mems k (keys acc) then keys acc else keys acc ++ [k].
Proof.
  unfold supd, keys, mems. induction acc as [|[k' v'] r IH]; simpl; [reflexivity|].
  destruct (String.eqb k k') eqn:E; simpl.
  - apply String.eqb_eq in E. subst. reflexivity.
  - rewrite IH. destruct (memb String.eqb k (map fst r)); reflexivity.
Qed.

Lemma fromkeys_nodup {B} ks (b : B) : forall acc, NoDup (keys acc) -> NoDup (keys (fromkeys acc ks b)).
Proof.
  induction ks as [|x r IH]; intros acc H; simpl; [exact H|]. apply IH. rewrite supd_keys.
  destruct (mems x (keys acc)) eqn:E; [exact H|].
  apply NoDup_app_intro; [exact H | repeat constructor; intros [] |].
  intros y Hy [<-|[]]. apply mems_false_notin in E. contradiction.
Qed.

Lemma supd_values_in {B} k (v : B) acc e : In e (supd k v acc) -> In e acc \/ e = (k, v).
Proof.
  unfold supd. induction acc as [|[k' v'] r IH]; simpl; [intros [H|[]]; auto|].
  destruct (String.eqb k k'); simpl; intros [H|H]; auto. destruct (IH H); auto.
Qed.

Lemma fromkeys_values {B} ks (b : B) : forall acc e, In e (fromkeys acc ks b) -> In e acc \/ snd e = b.
Proof.
  induction ks as [|x r IH]; intros acc e H; simpl in H; [auto|].
  destruct (IH _ _ H) as [H1|H1]; [|auto]. destruct (supd_values_in _ _ _ _ H1) as [H2|H2]; [auto|].
  subst. auto.
Qed.

Definition dict_of_env (env : list (string * val)) : val := VMap "dict" env.

Definition dspec_ok (s : dspec) : Prop :=
  match s with
  | SNames _ => True
  | SFull l => NoDup (keys l) /\ forall x h v, In (x, (h, v)) l -> chan_accepts h v = true
  end.

Theorem to_dict_run s pos0 kw0 :
  dspec_ok s ->
  (forall x, In x (keys (k_inputs (to_dict_class s))) -> ~ In x run_flags) ->
  op_admitted (to_dict_class s) (pos0, kw0) ->
  match py_bind (keys (k_inputs (to_dict_class s))) pos0 kw0 with
  | None => instantiate (to_dict_class s) pos0 kw0 = Err ValueErr
  | Some b =>
      exists nd, instantiate (to_dict_class s) pos0 kw0 = Ok nd /\
        let env0 := override (defaults_of (to_dict_class s)) b in
        value_dict (n_in nd) = env0 /\
        forall sem ops, Forall (op_admitted (to_dict_class s)) ops ->
          Forall2 (step_fn (k_outputs (to_dict_class s))) (calls sem nd ops) (ref_run dict_of_env env0 ops)
  end.
Proof.
  intros Hs Hfl Hadm. set (k := to_dict_class s) in *.
  assert (Hnd : NoDup (keys (k_inputs k))).
  { unfold k. destruct s as [l|l]; simpl; [apply fromkeys_nodup; constructor | exact (proj1 Hs)]. }
  assert (Hdef : defaults_accepted k).
  { intros l h v Hin. unfold k in Hin. destruct s as [ns|full]; simpl in Hin.
    - destruct (fromkeys_values _ _ _ _ Hin) as [[]|E]. simpl in E. injection E as -> ->. reflexivity.
    - exact (proj2 Hs l h v Hin). }
  assert (Hfac : factories_accepted k) by (intros l h d v _ Hs'; discriminate).
  assert (Hse : setup_env k = defaults_of k).
  { unfold setup_env, defaults_of. apply map_ext. intros [l [h v]]. simpl. destruct v; reflexivity. }
  assert (Hk : kind_ok k) by (right; exists "dict", (Some (HAtoms [ADictT])); split; reflexivity).
  pose proof (class_run k dict_of_env Hnd Hdef Hfac Hk (fun env => eq_refl) Hfl pos0 kw0 Hadm) as H.
  destruct (py_bind (keys (k_inputs k)) pos0 kw0) as [b|]; [|exact H].
  destruct H as [nd [Hn [Hv Hh]]]. exists nd. split; [exact Hn|]. rewrite <- Hse. cbv zeta. split; [exact Hv|].
  intros sem ops Hops. apply Hh; [intros ins _; reflexivity | exact Hops].
Qed.

(* ---- dataclass nodes --------------------------------------------------------------------- *)
Definition dc_facs (fs : list field) : list (string * val) :=
  flat_map (fun f => match fd_default f with FFactory v => [(fd_name f, v)] | _ => [] end) fs.

Lemma dc_facs_keys fs x : In x (keys (dc_facs fs)) -> In x (map fd_name fs).
Proof.
  induction fs as [|f r IH]; simpl; [tauto|]. unfold dc_facs. simpl. fold (dc_facs r). rewrite keys_app.
  intro H. apply in_app_or in H. destruct H as [H|H]; [|right; apply IH; exact H].
  left. destruct (fd_default f); simpl in H; try tauto; destruct H as [H|[]]; auto.
Qed.

Lemma dc_facs_assoc fs : NoDup (map fd_name fs) -> forall f, In f fs ->
  sassoc (fd_name f) (dc_facs fs) = match fd_default f with FFactory v => Some v | _ => None end.
Proof.
  induction fs as [|f0 r IH]; intros Hnd f Hf; [destruct Hf|].
  simpl in Hnd. inversion Hnd as [|? ? Hn Hr]; subst.
  unfold dc_facs. simpl. fold (dc_facs r). rewrite sassoc_app. destruct Hf as [Hf|Hf].
  - subst f0.
    assert (Hnone : sassoc (fd_name f) (dc_facs r) = None).
    { apply sassoc_none_notin. intro HI. apply dc_facs_keys in HI. contradiction. }
    destruct (fd_default f); simpl; try exact Hnone. unfold sassoc. simpl. rewrite String.eqb_refl. reflexivity.
  - assert (Hne : fd_name f <> fd_name f0).
    { intro E. apply Hn. rewrite <- E. apply in_map. exact Hf. }
    assert (Hskip : sassoc (fd_name f) (match fd_default f0 with FFactory v => [(fd_name f0, v)] | _ => [] end) = None).
    { destruct (fd_default f0); try reflexivity. unfold sassoc. simpl. apply String.eqb_neq in Hne. rewrite Hne. reflexivity. }
    rewrite Hskip. apply IH; assumption.
Qed.

Definition record_of (name : string) (env : list (string * val)) : val := VMap name env.

Definition fields_accepted (d : dcdesc) : Prop :=
  forall f, In f (dc_fields d) ->
    match fd_default f with
    | FRequired => True
    | FDefault v | FFactory v => chan_accepts (Some (fd_type f)) v = true
    end.

Lemma dataclass_class_fields d uc k : dataclass_class d uc = Ok k ->
  k_inputs k = map (fun f => (fd_name f, (Some (fd_type f),
                      match fd_default f with FDefault v => v | _ => VNotData end))) (dc_fields d) /\
  k_outputs k = [("dataclass", Some (HAtoms [ACls (dc_name d)]))] /\
  k_runner k = RunDataclass (dc_name d) /\ k_kind k = KFromMany "dataclass" /\
  k_factories k = dc_facs (dc_fields d).
Proof.
  unfold dataclass_class. destruct (dc_order_ok false (dc_fields d)); [|discriminate].
  intro H. injection H as <-. simpl. auto.
Qed.

(* the dataclass's own constructor is one reference call against its defaults *)
Lemma dc_construct_ref d pos kw :
  dc_construct d pos kw = snd (ref_call (record_of (dc_name d)) (dc_defaults d) pos kw).
Proof.
  unfold dc_construct, ref_call.
  assert (Hk : keys (dc_defaults d) = map fd_name (dc_fields d)).
  { unfold keys, dc_defaults. rewrite map_map. reflexivity. }
  rewrite Hk. destruct (py_bind (map fd_name (dc_fields d)) pos kw); reflexivity.
Qed.

Theorem dataclass_run d uc k :
  dataclass_class d uc = Ok k ->
  NoDup (map fd_name (dc_fields d)) -> fields_accepted d ->
  (forall x, In x (map fd_name (dc_fields d)) -> ~ In x run_flags) ->
  forall pos0 kw0, op_admitted k (pos0, kw0) ->
  match py_bind (map fd_name (dc_fields d)) pos0 kw0 with
  | None => instantiate k pos0 kw0 = Err ValueErr
  | Some b =>
      exists nd, instantiate k pos0 kw0 = Ok nd /\
        let env0 := override (dc_defaults d) b in
        value_dict (n_in nd) = env0 /\
        forall sem ops, Forall (op_admitted k) ops ->
          Forall2 (step_fn (k_outputs k)) (calls sem nd ops) (ref_run (record_of (dc_name d)) env0 ops)
  end.
Proof.
  intros Hc Hnd Hacc Hfl pos0 kw0 Hadm.
  destruct (dataclass_class_fields d uc k Hc) as [Hin [Hout [Hr [Hk Hf]]]].
  assert (Hkeys : keys (k_inputs k) = map fd_name (dc_fields d)).
  { rewrite Hin. unfold keys. rewrite map_map. reflexivity. }
  assert (Hnd' : NoDup (keys (k_inputs k))) by (rewrite Hkeys; exact Hnd).
  assert (Hdef : defaults_accepted k).
  { intros l h v HI. rewrite Hin in HI. apply in_map_iff in HI. destruct HI as [f [E Hfi]].
    injection E as <- <- <-. specialize (Hacc f Hfi). destruct (fd_default f); auto. }
  assert (Hfac : factories_accepted k).
  { intros l h dflt v HI Hs. rewrite Hin in HI. apply in_map_iff in HI. destruct HI as [f [E Hfi]].
    injection E as <- <- _. rewrite Hf, (dc_facs_assoc _ Hnd f Hfi) in Hs. specialize (Hacc f Hfi).
    destruct (fd_default f); try discriminate. injection Hs as <-. exact Hacc. }
  assert (Hse : setup_env k = dc_defaults d).
  { unfold setup_env, dc_defaults. rewrite Hin, map_map. apply map_ext_in. intros f Hfi. simpl.
    rewrite Hf, (dc_facs_assoc _ Hnd f Hfi). destruct (fd_default f) as [|v|v]; try reflexivity.
    destruct v; reflexivity. }
  assert (Hko : kind_ok k).
  { right. exists "dataclass", (Some (HAtoms [ACls (dc_name d)])). split; assumption. }
  assert (Hfits : forall env, fits (k_outputs k) (record_of (dc_name d) env)).
  { intro env. rewrite Hout. simpl. rewrite String.eqb_refl. reflexivity. }
  pose proof (class_run k (record_of (dc_name d)) Hnd' Hdef Hfac Hko Hfits) as H.
  rewrite Hkeys in H. specialize (H Hfl pos0 kw0 Hadm).
  destruct (py_bind (map fd_name (dc_fields d)) pos0 kw0) as [b|]; [|exact H].
  destruct H as [nd [Hn [Hv Hh]]]. exists nd. split; [exact Hn|]. rewrite <- Hse. cbv zeta. split; [exact Hv|].
  intros sem ops Hops. apply Hh; [|exact Hops]. intros ins _. rewrite Hr. reflexivity.
Qed.

(* ---- labels and hints of the channels never change ---------------------------------------- *)
Lemma assign1_sigs cs : forall k v cs', assign1 cs k v = Ok cs' -> map chan_sig cs' = map chan_sig cs.
Proof.
  induction cs as [|c r IH]; intros k v cs' H; simpl in H; [discriminate|].
  destruct (String.eqb (c_label c) k).
  - destruct (chan_accepts (c_hint c) v); [|discriminate]. injection H as <-. reflexivity.
  - destruct (assign1 r k v) as [r'|e] eqn:E; [|discriminate]. injection H as <-. simpl.
    rewrite (IH _ _ _ E). reflexivity.
Qed.

Lemma assign_all_sigs l : forall cs, map chan_sig (fst (assign_all cs l)) = map chan_sig cs.
Proof.
  induction l as [|[k v] r IH]; intro cs; simpl; [reflexivity|].
  destruct (assign1 cs k v) as [cs'|e] eqn:E; [|reflexivity].
  rewrite IH. exact (assign1_sigs _ _ _ _ E).
Qed.

Lemma set_input_values_sigs cs pos kw : map chan_sig (fst (set_input_values cs pos kw)) = map chan_sig cs.
Proof.
  unfold set_input_values.
  destruct (Nat.ltb _ _); [reflexivity|]. destruct (existsb _ _); [reflexivity|].
  destruct (negb _); [reflexivity|]. apply assign_all_sigs.
Qed.

Lemma apply_factories_sigs facs todo : forall cs cs',
  apply_factories facs todo cs = Ok cs' -> map chan_sig cs' = map chan_sig cs.
Proof.
  intros cs cs' H. rewrite apply_factories_assign in H.
  pose proof (assign_all_sigs (fac_list facs todo) cs) as Hs.
  destruct (assign_all cs (fac_list facs todo)) as [cs1 [e|]]; [discriminate|]. injection H as <-. exact Hs.
Qed.

(* every instance that gets constructed, whatever the arguments, has one input channel per
   previewed input and one output channel per previewed output, in order, same hints *)
Theorem instantiate_channels k pos kw n : instantiate k pos kw = Ok n ->
  n_cls n = k /\ map chan_sig (n_in n) = in_sigs k /\ map chan_sig (n_out n) = k_outputs k /\
  n_failed n = false /\ n_cached n = None /\ forall c, In c (n_out n) -> c_value c = VNotData.
Proof.
  unfold instantiate. destruct (make_inputs (k_inputs k)) as [ins|e] eqn:Em; [|discriminate].
  destruct (apply_factories (k_factories k) ins ins) as [ins1|e] eqn:Ef; [|discriminate].
  pose proof (set_input_values_sigs ins1 pos kw) as Hs.
  destruct (set_input_values ins1 pos kw) as [ins2 [e|]]; [discriminate|]. intro H. injection H as <-. simpl.
  repeat split.
  - simpl in Hs. rewrite Hs, (apply_factories_sigs _ _ _ _ Ef). apply make_inputs_sigs. exact Em.
  - unfold make_outputs. rewrite map_map. rewrite <- (map_id (k_outputs k)) at 2. apply map_ext. intros [l h]. reflexivity.
  - intros c Hc. unfold make_outputs in Hc. apply in_map_iff in Hc. destruct Hc as [lh [<- _]]. reflexivity.
Qed.

(* ---- list_to_outputs(n) -------------------------------------------------------------------- *)
Lemma enumerate_items_combine l : forall i,
  enumerate_items i l = combine (map (numbered "item_") (range_from i (List.length l))) l.
Proof. induction l as [|v r IH]; intro i; simpl; [reflexivity|]. f_equal. apply IH. Qed.

Lemma sassoc_combine_all (ks : list string) : forall (vs : list val),
  NoDup ks -> List.length ks = List.length vs ->
  map (fun k => sassoc k (combine ks vs)) ks = map Some vs.
Proof.
  induction ks as [|k r IH]; intros [|v vs] Hnd Hl; simpl in *; try discriminate; [reflexivity|].
  inversion Hnd as [|? ? Hn Hr]; subst. unfold sassoc at 1. simpl. rewrite String.eqb_refl. f_equal.
  rewrite <- (IH vs Hr) by lia. apply map_ext_in. intros k' Hk'. unfold sassoc. simpl.
  destruct (String.eqb k' k) eqn:E; [|reflexivity]. apply String.eqb_eq in E. subst. contradiction.
Qed.

Definition items_dict (l : list val) : val := VMap "dict" (enumerate_items 0 l).

(* a list of the node's size: every output gets its item, the run returns the item dict *)
Theorem from_list_store n outs l :
  map chan_sig outs = k_outputs (from_list_class n) -> List.length l = n ->
  process_run_result KToMany outs (items_dict l) =
    (fill (k_outputs (from_list_class n)) l, Ok (items_dict l)).
Proof.
  intros Hs Hl. unfold process_run_result, items_dict, store_items.
  assert (Hlab : labels outs = map (numbered "item_") (range_from 0 n)).
  { rewrite labels_of_sigs, Hs. simpl. rewrite map_map. reflexivity. }
  assert (Hhint : forall c, In c outs -> c_hint c = None).
  { intros c Hc. assert (HI : In (chan_sig c) (map chan_sig outs)) by (apply in_map; exact Hc).
    rewrite Hs in HI. simpl in HI. apply in_map_iff in HI. destruct HI as [i [E _]].
    unfold chan_sig in E. injection E as _ E. symmetry. exact E. }
  rewrite enumerate_items_combine, Hl.
  set (ks := map (numbered "item_") (range_from 0 n)) in *.
  assert (Hnd : NoDup ks) by apply numbered_nodup.
  assert (Hlen : List.length ks = List.length l).
  { unfold ks. rewrite map_length. clear -Hl. revert Hl. generalize 0. revert l.
    induction n as [|n IH]; intros l i Hl; destruct l; simpl in *; try discriminate; [reflexivity|].
    f_equal. apply IH. lia. }
  rewrite assign_all_override.
  - f_equal. rewrite <- Hs.
    (* channel by channel: the i-th output holds the i-th item *)
    assert (Hgen : forall (outs0 : list chan) (vs : list val),
              map (fun c => sassoc (c_label c) (combine ks l)) outs0 = map Some vs ->
              map (fun c => match sassoc (c_label c) (combine ks l) with
                            | Some v => set_value c v | None => c end) outs0
              = fill (map chan_sig outs0) vs).
    { induction outs0 as [|c r IH]; intros [|v vs] H; simpl in *; try discriminate; [reflexivity|].
      injection H as H1 H2. rewrite H1. unfold fill. simpl. f_equal. apply IH. exact H2. }
    apply Hgen. rewrite <- (sassoc_combine_all ks l Hnd Hlen). rewrite <- Hlab. unfold labels.
    rewrite map_map. reflexivity.
  - rewrite Hlab. exact Hnd.
  - rewrite keys_combine_eq; [exact Hnd | lia].
  - intros x Hx. rewrite keys_combine_eq in Hx by lia. rewrite Hlab. exact Hx.
  - intros c v Hc _. rewrite (Hhint c Hc). reflexivity.
Qed.

Definition list_chan (v : val) : chan := {| c_label := "list"; c_hint := Some (HAtoms [AListT]); c_value := v |}.

Lemma fill_value_dict n l : List.length l = n ->
  value_dict (fill (k_outputs (from_list_class n)) l) = enumerate_items 0 l.
Proof.
  intro Hl. subst n. rewrite enumerate_items_combine. simpl k_outputs. generalize 0.
  induction l as [|v l IH]; intro i; simpl; [reflexivity|]. f_equal. apply IH.
Qed.

(* the states a list_to_outputs(n) node goes through while it does not fail *)
Definition from_list_inv (n : nat) (nd : node) : Prop :=
  n_cls nd = from_list_class n /\ (exists v0, n_in nd = [list_chan v0]) /\
  map chan_sig (n_out nd) = k_outputs (from_list_class n) /\ n_failed nd = false /\
  forall c, n_cached nd = Some c ->
    exists l, c = [("list", VList l)] /\ List.length l = n /\
              n_out nd = fill (k_outputs (from_list_class n)) l.

(* node( *args, **kwargs) on a list_to_outputs(n) node, the list given positionally or by keyword,
   in any such state (cache hit or not): a list of the node's size goes to the outputs item by
   item and the item dict is returned; any other length raises ValueError, the outputs stay as
   they are and the node is failed *)
Theorem from_list_call sem n nd l pos kw :
  from_list_inv n nd ->
  NoDup (keys kw) -> py_bind ["list"] pos kw = Some [("list", Some (VList l))] ->
  n_in (fst (call sem nd pos kw)) = [list_chan (VList l)] /\
  (List.length l = n ->
     snd (call sem nd pos kw) = Ok (items_dict l) /\
     n_out (fst (call sem nd pos kw)) = fill (k_outputs (from_list_class n)) l /\
     from_list_inv n (fst (call sem nd pos kw))) /\
  (List.length l <> n ->
     snd (call sem nd pos kw) = Err ValueErr /\
     n_out (fst (call sem nd pos kw)) = n_out nd /\ n_failed (fst (call sem nd pos kw)) = true).
Proof.
  intros [Hc [[v0 Hin] [Hos [Hnf Hca]]]] Hkw Hb. unfold call.
  assert (Hfl : existsb (fun key => mems key run_flags) (keys kw) = false).
  { apply not_true_iff_false. intro H. apply existsb_exists in H. destruct H as [key [H1 H2]].
    unfold py_bind in Hb. destruct (forallb (fun k => mems k ["list"]) (keys kw)) eqn:E; [|discriminate].
    rewrite forallb_forall in E. specialize (E key H1). apply mems_In in E. destruct E as [<-|[]].
    vm_compute in H2. discriminate. }
  rewrite Hfl, Hin.
  rewrite (set_input_values_accepted [list_chan v0] pos kw [("list", Some (VList l))]);
    [|repeat constructor; intros []|exact Hkw|exact Hb|
     intros c v [<-|[]] Ha; cbn in Ha; injection Ha as <-; reflexivity].
  assert (Hab : apply_bind [list_chan v0] [("list", Some (VList l))] = [list_chan (VList l)]) by reflexivity.
  rewrite Hab, Hnf, Hc. cbn [k_cache from_list_class negb andb orb].
  change (value_dict [list_chan (VList l)]) with [("list", VList l)].
  destruct (match n_cached nd with Some c => env_eqb [("list", VList l)] c | None => false end) eqn:Ehit.
  - (* cache hit: the outputs already hold these items *)
    destruct (n_cached nd) as [c|] eqn:Ecache; [|discriminate]. apply env_eqb_eq in Ehit. subst c.
    destruct (Hca _ eq_refl) as [l' [El [Hl Hout]]]. injection El as <-.
    cbn [fst snd n_in n_out]. split; [reflexivity|]. split.
    + intros _. split; [|split; [exact Hout|]].
      * change (k_kind (from_list_class n)) with KToMany. unfold hit_return, items_dict.
        rewrite Hout, (fill_value_dict n l Hl). reflexivity.
      * split; [reflexivity|]. split; [exists (VList l); reflexivity|]. split; [exact Hos|]. split; [reflexivity|].
        cbn [n_cached n_out]. intros c Hc'. injection Hc' as <-. exists l. auto.
    + intro Hne. contradiction.
  - cbn [forallb chan_ready list_chan c_value c_hint is_data admits union_admits existsb atom_admits andb orb negb].
    cbn [on_run k_runner from_list_class value_dict map list_chan c_label c_value iterate].
    destruct (Nat.eqb (List.length l) n) eqn:El.
    + apply Nat.eqb_eq in El. fold (items_dict l). change (k_kind (from_list_class n)) with KToMany.
      rewrite (from_list_store n (n_out nd) l Hos El). cbn [fst snd n_in n_out n_failed].
      split; [reflexivity|]. split; [|intro Hne; contradiction].
      intros _. split; [reflexivity|]. split; [reflexivity|].
      split; [reflexivity|]. split; [exists (VList l); reflexivity|].
      split; [apply fill_sigs; simpl; rewrite map_length; clear -El; revert l El; generalize 0;
              induction n as [|n IH]; intros i [|v l] H; simpl in *; try discriminate; [reflexivity|];
              f_equal; apply IH; lia|].
      split; [reflexivity|]. cbn [n_cached]. intros c Hc'. injection Hc' as <-. exists l. auto.
    + apply Nat.eqb_neq in El. cbn [fst snd n_in n_out n_failed].
      split; [reflexivity|]. split; [intro; contradiction|]. intros _. auto.
Qed.

(* a fresh instance is in such a state *)
Lemma from_list_fresh n pos kw nd : instantiate (from_list_class n) pos kw = Ok nd -> from_list_inv n nd.
Proof.
  intro H. destruct (instantiate_channels _ _ _ _ H) as [Hc [Hs [Ho [Hf [Hcache _]]]]].
  split; [exact Hc|]. split.
  - unfold in_sigs in Hs. simpl in Hs. destruct (n_in nd) as [|c [|c2 r]]; try discriminate.
    destruct c as [lb h v]. simpl in Hs. unfold chan_sig in Hs. simpl in Hs. injection Hs as -> ->.
    exists v. reflexivity.
  - split; [exact Ho|]. split; [exact Hf|]. intros c Hc'. rewrite Hcache in Hc'. discriminate.
Qed.

(* the input signature of a function class, spelled out *)
Lemma function_in_sigs d k : function_class d = Ok k -> NoDup (map p_name (f_params d)) ->
  k_inputs k = map input_entry (f_params d) /\
  in_sigs k = map (fun p => (p_name p, match p_ann p with None => None | Some a => Some (hint_of_ann a) end))
                  (f_params d).
Proof.
  intros Hc Hnd. destruct (function_class_fields d k Hc) as [Hin _].
  rewrite (inputs_preview_spec d Hnd) in Hin. destruct (existsb _ (f_params d)); [discriminate|].
  injection Hin as Hin. split; [symmetry; exact Hin|]. unfold in_sigs. rewrite <- Hin, map_map. reflexivity.
Qed.
(* ---- inputs_to_dataframe(n): rows over the same key set ----------------------------------- *)
Lemma supd_app_notin {B} k (v : B) done l : ~ In k (keys done) -> supd k v (done ++ l) = done ++ supd k v l.
Proof.
  unfold supd, keys. induction done as [|[k' v'] r IH]; simpl; intro H; [reflexivity|].
  destruct (String.eqb k k') eqn:E; [apply String.eqb_eq in E; subst; exfalso; apply H; auto|].
  f_equal. apply IH. tauto.
Qed.

(* the first row opens one column per key *)
Lemma add_row_first row : forall acc,
  NoDup (keys acc ++ keys row) ->
  add_row true acc row = Ok (acc ++ map (fun kv => (fst kv, [snd kv])) row).
Proof.
  induction row as [|[k v] r IH]; intros acc H; simpl; [rewrite List.app_nil_r; reflexivity|].
  assert (Hn : ~ In k (keys acc)).
  { intro HI. simpl in H. apply NoDup_remove_2 in H. apply H. apply in_or_app. auto. }
  rewrite (supd_notin _ _ _ Hn), IH.
  - rewrite <- List.app_assoc. reflexivity.
  - rewrite keys_app, <- List.app_assoc. exact H.
Qed.

Definition cellr (row : list (string * val)) (k : string) : val :=
  match sassoc k row with Some v => v | None => VNotData end.
Definition columns_of (ks : list string) (rows : list (list (string * val))) : list (string * list val) :=
  map (fun k => (k, map (fun row => cellr row k) rows)) ks.

(* a later row whose keys are among the columns extends exactly the columns it names *)
Lemma add_row_extend row : forall cols,
  NoDup (keys cols) -> NoDup (keys row) -> (forall k, In k (keys row) -> In k (keys cols)) ->
  add_row false cols row =
    Ok (map (fun kc => (fst kc, match sassoc (fst kc) row with Some v => snd kc ++ [v] | None => snd kc end)) cols).
Proof.
  induction row as [|[k v] r IH]; intros cols Hnc Hnr Hin; simpl.
  - f_equal. rewrite <- (map_id cols) at 1. apply map_ext. intros [a b]. reflexivity.
  - inversion Hnr as [|? ? Hk Hr]; subst.
    destruct (sassoc k cols) as [c|] eqn:Es.
    2:{ apply sassoc_none_notin in Es. exfalso. apply Es. apply Hin. simpl. auto. }
    assert (Hupd : supd k (c ++ [v]) cols =
              map (fun kc => if String.eqb (fst kc) k then (fst kc, snd kc ++ [v]) else kc) cols).
    { clear IH Hin. unfold supd, sassoc, keys in *. induction cols as [|[k' c'] t IHt]; simpl in *; [discriminate|].
      inversion Hnc as [|? ? Hn Ht]; subst. rewrite String.eqb_sym.
      destruct (String.eqb k' k) eqn:E.
      - apply String.eqb_eq in E. subst k'. rewrite String.eqb_refl in Es. injection Es as <-.
        f_equal. rewrite <- (map_id t) at 1. apply map_ext_in. intros [a b] Hab. simpl.
        destruct (String.eqb a k) eqn:E'; [|reflexivity]. apply String.eqb_eq in E'. subst a.
        exfalso. apply Hn. apply (in_map fst) in Hab. exact Hab.
      - rewrite String.eqb_sym, E in Es. f_equal. apply IHt; assumption. }
    rewrite Hupd. rewrite IH.
    + f_equal. rewrite map_map. apply map_ext. intros [a b]. simpl.
      unfold sassoc at 2. simpl. fold (sassoc a r).
      destruct (String.eqb a k) eqn:E; simpl.
      * apply String.eqb_eq in E. subst a.
        assert (Hn : sassoc k r = None) by (apply sassoc_none_notin; exact Hk). rewrite Hn. reflexivity.
      * reflexivity.
    + unfold keys. rewrite map_map.
      replace (map (fun x => fst (if String.eqb (fst x) k then (fst x, snd x ++ [v]) else x)) cols) with (map fst cols);
        [exact Hnc|]. apply map_ext. intros [a b]. simpl. destruct (String.eqb a k); reflexivity.
    + exact Hr.
    + intros k' Hk'. unfold keys. rewrite map_map.
      replace (map (fun x => fst (if String.eqb (fst x) k then (fst x, snd x ++ [v]) else x)) cols) with (map fst cols);
        [apply Hin; simpl; auto|]. apply map_ext. intros [a b]. simpl. destruct (String.eqb a k); reflexivity.
Qed.

(* rows are well formed when each has the key set of the first one (python dict keys are unique) *)
Definition rows_ok (ks : list string) (rows : list (list (string * val))) : Prop :=
  Forall (fun row => NoDup (keys row) /\ forall k, In k (keys row) <-> In k ks) rows.

Lemma frame_cols_rows ks rows : NoDup ks -> rows_ok ks rows ->
  forall done i, done <> [] -> i = List.length done ->
  frame_cols i (columns_of ks done) (map (VMap "dict") rows) = Ok (columns_of ks (done ++ rows)).
Proof.
  intros Hnd Hr. induction Hr as [|row rows [Hnr Hkeys] Hr IH]; intros done i Hne Hi; simpl.
  - rewrite List.app_nil_r. reflexivity.
  - assert (Ei : Nat.eqb i 0 = false) by (apply Nat.eqb_neq; destruct done; [contradiction | simpl in Hi; lia]).
    rewrite Ei.
    assert (Hk : keys (columns_of ks done) = ks).
    { unfold keys, columns_of. rewrite map_map. simpl. apply map_id. }
    rewrite add_row_extend; [|rewrite Hk; exact Hnd|exact Hnr|intros k Hk'; rewrite Hk; apply Hkeys; exact Hk'].
    assert (Hnext : map (fun kc => (fst kc, match sassoc (fst kc) row with
                                            | Some v => snd kc ++ [v] | None => snd kc end))
                        (columns_of ks done) = columns_of ks (done ++ [row])).
    { unfold columns_of. rewrite map_map. apply map_ext_in. intros k Hkin. simpl. rewrite map_app. simpl.
      unfold cellr. destruct (sassoc k row) eqn:Es; [reflexivity|].
      apply sassoc_none_notin in Es. exfalso. apply Es. apply Hkeys. exact Hkin. }
    rewrite Hnext, IH.
    + rewrite <- List.app_assoc. reflexivity.
    + destruct done; discriminate.
    + rewrite List.app_length. simpl. lia.
Qed.

Definition frame_of (rows : list (list (string * val))) : val :=
  VMap "DataFrame" (match rows with
                    | [] => []
                    | row0 :: _ => map (fun kc => (fst kc, VList (snd kc))) (columns_of (keys row0) rows)
                    end).

Lemma first_row_columns row : NoDup (keys row) ->
  map (fun kv => (fst kv, [snd kv])) row = columns_of (keys row) [row].
Proof.
  intro Hnd. unfold columns_of, keys. rewrite map_map. apply map_ext_in. intros [k v] Hin. simpl.
  unfold cellr. 
  assert (Hs : sassoc k row = Some v).
  { clear -Hnd Hin. unfold sassoc, keys in *. induction row as [|[k' v'] r IH]; [destruct Hin|]. simpl.
    inversion Hnd as [|? ? Hn Hr]; subst. destruct Hin as [E|Hin].
    - injection E as -> ->. rewrite String.eqb_refl. reflexivity.
    - destruct (String.eqb k k') eqn:E; [|apply IH; assumption].
      apply String.eqb_eq in E. subst. exfalso. apply Hn. apply (in_map fst) in Hin. exact Hin. }
  rewrite Hs. reflexivity.
Qed.

(* the table is the transposition: column k (in the key order of the first row) = the k-cells
   of the rows, in row order *)
Theorem to_frame_rows rows :
  match rows with [] => True | row0 :: _ => NoDup (keys row0) /\ rows_ok (keys row0) rows end ->
  to_frame (map (VMap "dict") rows) = Ok (frame_of rows).
Proof.
  unfold to_frame, frame_of. destruct rows as [|row0 rest]; [reflexivity|]. intros [Hnd Hok].
  inversion Hok as [|? ? _ Hrest]; subst. simpl.
  rewrite add_row_first; [|simpl; exact Hnd]. simpl. rewrite (first_row_columns row0 Hnd).
  rewrite (frame_cols_rows (keys row0) rest Hnd Hrest [row0] 1); [|discriminate|reflexivity].
  assert (Hsame : same_lengths (columns_of (keys row0) ([row0] ++ rest)) = true).
  { unfold same_lengths, columns_of. destruct (keys row0) as [|k r]; [reflexivity|]. simpl.
    apply forallb_forall. intros kc Hkc. apply in_map_iff in Hkc. destruct Hkc as [k' [<- _]]. simpl.
    rewrite !map_length. apply Nat.eqb_refl. }
  rewrite Hsame. reflexivity.
Qed.

(* ... as what InputsToDataframe computes from its row inputs and stores in `df` *)
Theorem frame_on_run sem ins rows :
  match rows with [] => True | row0 :: _ => NoDup (keys row0) /\ rows_ok (keys row0) rows end ->
  map c_value ins = map (VMap "dict") rows ->
  on_run sem RunToFrame ins = Ok (frame_of rows).
Proof.
  intros Hok Hv. unfold on_run.
  assert (E : map snd (value_dict ins) = map c_value ins) by (unfold value_dict; rewrite map_map; reflexivity).
  rewrite E, Hv. apply to_frame_rows. exact Hok.
Qed.

Theorem frame_store c rows :
  chan_sig c = ("df", Some (HAtoms [ACls "DataFrame"])) ->
  process_run_result (KFromMany "df") [c] (frame_of rows) =
    (expected_out [("df", Some (HAtoms [ACls "DataFrame"]))] (frame_of rows), Ok (frame_of rows)).
Proof. intro Hs. apply process_from_many; [exact Hs | reflexivity]. Qed.

(* ---- a hint rejection in the middle of the assignment loop (as the code is) ----------------- *)
Lemma assign_all_prefix l : forall cs cs' e,
  assign_all cs l = (cs', Some e) ->
  exists done k v rest, l = done ++ (k, v) :: rest /\ assign_all cs done = (cs', None) /\
                        assign1 cs' k v = Err e.
Proof.
  induction l as [|[k v] r IH]; intros cs cs' e H; simpl in H; [discriminate|].
  destruct (assign1 cs k v) as [cs1|e1] eqn:E.
  - destruct (IH _ _ _ H) as [done [k' [v' [rest [Hl [Hd He]]]]]].
    exists ((k, v) :: done), k', v', rest. split; [rewrite Hl; reflexivity|]. split; [|exact He].
    simpl. rewrite E. exact Hd.
  - injection H as <- <-. exists [], k, v, r. repeat split. exact E.
Qed.

(* set_input_values fails with something else than ValueError only inside the loop: the keys
   before the failing one -- keywords first, then the positional ones -- stay assigned *)
Theorem set_input_values_partial cs pos kw cs' e :
  set_input_values cs pos kw = (cs', Some e) -> e <> ValueErr ->
  exists done k v rest, kw ++ combine (labels cs) pos = done ++ (k, v) :: rest /\
    assign_all cs done = (cs', None) /\ assign1 cs' k v = Err e.
Proof.
  unfold set_input_values. intros H Hne.
  destruct (Nat.ltb _ _); [injection H as _ <-; contradiction|].
  destruct (existsb _ _); [injection H as _ <-; contradiction|].
  destruct (negb _); [injection H as _ <-; contradiction|].
  apply assign_all_prefix. exact H.
Qed.

(* ---- hand-written class hierarchies --------------------------------------------------------- *)
(* a derived class that declares its labels, or whose base declares none, is wrapped exactly as
   its own definition -- whichever of the two classes was used first: every theorem about
   function classes applies to it as it stands *)
Theorem derive_own bf b d :
  f_declared d <> None \/ f_declared b = None -> derive bf b d = d.
Proof.
  destruct d as [ps body ret dec v]. unfold derive, inherited_labels. simpl. intros [H|H].
  - destruct dec; [reflexivity | contradiction].
  - rewrite H. destruct dec; reflexivity.
Qed.

(* declared labels are a class attribute: a derived class without its own inherits its base's *)
Theorem derive_inherits_declared bf b d l :
  f_declared d = None -> f_declared b = Some l -> f_declared (derive bf b d) = Some l.
Proof. intros Hd Hb. unfold derive, inherited_labels. simpl. rewrite Hd, Hb. reflexivity. Qed.

(* the order in which base and derived class are used does not matter *)
Theorem derive_order_irrelevant b d : derive true b d = derive false b d.
Proof. reflexivity. Qed.

(* ---- dataclasses deriving from dataclasses -------------------------------------------------- *)
Lemma put_field_names_old f fs : In (fd_name f) (map fd_name fs) ->
  map fd_name (put_field f fs) = map fd_name fs.
Proof.
  induction fs as [|g r IH]; simpl; [tauto|]. intro H.
  destruct (String.eqb (fd_name g) (fd_name f)) eqn:E.
  - apply String.eqb_eq in E. simpl. rewrite E. reflexivity.
  - simpl. f_equal. apply IH. destruct H as [H|H]; [|exact H].
    apply String.eqb_neq in E. congruence.
Qed.

Lemma put_field_names_new f fs : ~ In (fd_name f) (map fd_name fs) ->
  put_field f fs = fs ++ [f].
Proof.
  induction fs as [|g r IH]; simpl; [reflexivity|]. intro H.
  destruct (String.eqb (fd_name g) (fd_name f)) eqn:E.
  - apply String.eqb_eq in E. exfalso. apply H. auto.
  - f_equal. apply IH. tauto.
Qed.

Lemma put_field_nodup f fs : NoDup (map fd_name fs) -> NoDup (map fd_name (put_field f fs)).
Proof.
  intro H. destruct (in_dec string_dec (fd_name f) (map fd_name fs)) as [i|n].
  - rewrite put_field_names_old; assumption.
  - rewrite (put_field_names_new f fs n), map_app. apply NoDup_app_intro; [exact H | repeat constructor; intros [] |].
    intros x Hx [<-|[]]. contradiction.
Qed.

(* the field a derived class declares again keeps its place and carries the new declaration *)
Lemma put_field_replaces f fs : In (fd_name f) (map fd_name fs) -> In f (put_field f fs).
Proof.
  induction fs as [|g r IH]; simpl; [tauto|]. intro H.
  destruct (String.eqb (fd_name g) (fd_name f)) eqn:E; [left; reflexivity|].
  right. apply IH. destruct H as [H|H]; [apply String.eqb_neq in E; congruence | exact H].
Qed.

(* a derived dataclass has pairwise distinct field names whenever its base has, so C17_dataclass
   applies to every inherited layout *)
Theorem merge_fields_nodup child : forall parent,
  NoDup (map fd_name parent) -> NoDup (map fd_name (merge_fields parent child)).
Proof.
  unfold merge_fields. induction child as [|f r IH]; intros parent H; simpl; [exact H|].
  apply IH. apply put_field_nodup. exact H.
Qed.

Theorem merge_fields_base_first child : forall parent,
  exists extra, map fd_name (merge_fields parent child) = map fd_name parent ++ extra.
Proof.
  unfold merge_fields. induction child as [|f r IH]; intro parent; simpl.
  - exists []. rewrite List.app_nil_r. reflexivity.
  - destruct (IH (put_field f parent)) as [extra He].
    destruct (in_dec string_dec (fd_name f) (map fd_name parent)) as [i|n].
    + rewrite (put_field_names_old f parent i) in He. exists extra. exact He.
    + rewrite (put_field_names_new f parent n) in He |- *. rewrite map_app in He. simpl in He.
      rewrite <- List.app_assoc in He. eexists. exact He.
Qed.
