(* LexProofs.v -- proofs about Lex.v: the tree invariant is preserved by every operation
   outside the guards K1..K4, a refused operation changes nothing, and the guards are
   needed (witnesses). *)
From PW Require Import Base Lex.
From Coq Require Import DecimalString Ascii.
Open Scope nat_scope.

(* ---- strings ------------------------------------------------------------------------ *)
Lemma sapp_assoc a b c : (a +++ b) +++ c = a +++ (b +++ c).
Proof. induction a as [|x a IH]; simpl; [reflexivity | now rewrite IH]. Qed.

Lemma prefix_app a b : prefix a (a +++ b) = true.
Proof.
  induction a as [|x a IH]; simpl.
  - now destruct b.
  - destruct (Ascii.ascii_dec x x); [exact IH | congruence].
Qed.

Lemma prefix_app_r a b c : prefix a b = true -> prefix a (b +++ c) = true.
Proof.
  revert b; induction a as [|x a IH]; intros b H; simpl.
  - now destruct (b +++ c).
  - destruct b as [|y b]; simpl in *; [discriminate|].
    destruct (Ascii.ascii_dec x y); [now apply IH | discriminate].
Qed.

Lemma prefix_length a b : prefix a b = true -> String.length a <= String.length b.
Proof.
  revert b; induction a as [|x a IH]; intros b H; simpl; [lia|].
  destruct b as [|y b]; simpl in *; [discriminate|].
  destruct (Ascii.ascii_dec x y); [apply IH in H; lia | discriminate].
Qed.

Lemma slength_app a b : String.length (a +++ b) = String.length a + String.length b.
Proof. induction a as [|x a IH]; simpl; [reflexivity | now rewrite IH]. Qed.

Lemma sapp_slash a x : a +++ String "/" x = (a +++ "/") +++ x.
Proof. rewrite sapp_assoc. reflexivity. Qed.

(* ---- the bidict ----------------------------------------------------------------------- *)
Lemma key_get_In k c l : key_get k l = Some c -> In (k, c) l.
Proof.
  induction l as [|[k' v] r IH]; simpl; [discriminate|].
  destruct (String.eqb_spec k k'); intros H.
  - injection H as <-; subst; now left.
  - right; auto.
Qed.

Lemma In_key_get k c l : NoDup (map fst l) -> In (k, c) l -> key_get k l = Some c.
Proof.
  induction l as [|[k' v] r IH]; simpl; intros ND H; [contradiction|].
  inversion ND as [|? ? Hn ND']; subst.
  destruct H as [H|H].
  - injection H as -> ->. now rewrite String.eqb_refl.
  - destruct (String.eqb_spec k k'); [subst|auto].
    exfalso; apply Hn. change k' with (fst (k', c)). now apply in_map.
Qed.

Lemma key_get_None k l : key_get k l = None <-> ~ In k (map fst l).
Proof.
  induction l as [|[k' v] r IH]; simpl; [tauto|].
  destruct (String.eqb_spec k k'); [subst; split; [discriminate | tauto]|].
  rewrite IH. split; [intros H [E|E]; congruence | tauto].
Qed.

Lemma val_key_In k c l : val_key c l = Some k -> In (k, c) l.
Proof.
  induction l as [|[k' v] r IH]; simpl; [discriminate|].
  destruct (Nat.eqb_spec v c); intros H.
  - injection H as <-; subst; now left.
  - right; auto.
Qed.

Lemma val_key_None c l : val_key c l = None <-> ~ In c (map snd l).
Proof.
  induction l as [|[k' v] r IH]; simpl; [tauto|].
  destruct (Nat.eqb_spec v c); [subst; split; [discriminate | tauto]|].
  rewrite IH. split; [intros H [E|E]; congruence | tauto].
Qed.

Lemma val_mem_true c l : val_mem c l = true <-> exists k, In (k, c) l.
Proof.
  unfold val_mem. destruct (val_key c l) as [k|] eqn:E.
  - split; [intros _; exists k; now apply val_key_In | reflexivity].
  - split; [discriminate|]. intros [k H]. apply val_key_None in E. exfalso; apply E.
    change c with (snd (k, c)). now apply in_map.
Qed.

Lemma val_mem_false c l : val_mem c l = false <-> ~ In c (map snd l).
Proof.
  unfold val_mem. rewrite <- val_key_None. destruct (val_key c l); split; congruence.
Qed.

Lemma key_mem_true k l : key_mem k l = true <-> In k (map fst l).
Proof.
  unfold key_mem. destruct (key_get k l) as [c|] eqn:E.
  - split; [intros _|reflexivity]. apply key_get_In in E. change k with (fst (k, c)). now apply in_map.
  - apply key_get_None in E. split; [discriminate | contradiction].
Qed.

Lemma val_pop_In x c l : NoDup (map snd l) -> (In x (val_pop c l) <-> In x l /\ snd x <> c).
Proof.
  induction l as [|[k v] r IH]; simpl; intros ND; [tauto|].
  inversion ND as [|? ? Hn ND']; subst.
  destruct (Nat.eqb_spec v c).
  - subst. split.
    + intros H; split; [now right|]. intros E. apply Hn. rewrite <- E. now apply in_map.
    + intros [[H|H] Hx]; [subst; simpl in Hx; congruence | exact H].
  - simpl. rewrite IH by assumption. split.
    + intros [H|[H Hx]]; [subst; simpl; split; [now left | assumption] | split; [now right | assumption]].
    + intros [[H|H] Hx]; [now left | right; now split].
Qed.

Lemma key_pop_val_pop k c l : NoDup (map fst l) -> In (k, c) l -> key_pop k l = val_pop c l \/ ~ NoDup (map snd l).
Proof.
  induction l as [|[k' v] r IH]; simpl; intros ND H; [contradiction|].
  inversion ND as [|? ? Hn ND']; subst.
  destruct H as [H|H].
  - injection H as -> ->. rewrite String.eqb_refl, Nat.eqb_refl. now left.
  - destruct (String.eqb_spec k k').
    + subst. exfalso; apply Hn. change k' with (fst (k', c)). now apply in_map.
    + destruct (Nat.eqb_spec v c).
      * subst. right. intros ND2. inversion ND2 as [|? ? Hn2 _]; subst. apply Hn2.
        change c with (snd (k, c)). now apply in_map.
      * destruct (IH ND' H) as [E|E]; [left; now rewrite E|].
        right. intros ND2. inversion ND2; subst. auto.
Qed.

Lemma map_fst_val_pop c l : incl (map fst (val_pop c l)) (map fst l).
Proof.
  induction l as [|[k v] r IH]; simpl; [apply incl_refl|].
  destruct (v =? c); [apply incl_tl, incl_refl|].
  simpl. apply incl_cons; [now left | now apply incl_tl].
Qed.

Lemma NoDup_fst_val_pop c l : NoDup (map fst l) -> NoDup (map fst (val_pop c l)).
Proof.
  induction l as [|[k v] r IH]; simpl; intros ND; [constructor|].
  inversion ND as [|? ? Hn ND']; subst.
  destruct (v =? c); [assumption|]. simpl. constructor; [|auto].
  intros H. apply Hn. now apply (map_fst_val_pop c r).
Qed.

Lemma NoDup_app_one {A} (l : list A) x : NoDup l -> ~ In x l -> NoDup (l ++ [x]).
Proof.
  induction l as [|y r IH]; simpl; intros ND H; [constructor; [tauto | constructor]|].
  inversion ND; subst. constructor.
  - rewrite in_app_iff; simpl. intuition.
  - apply IH; tauto.
Qed.

Lemma remove1_In x y l : NoDup l -> (In x (remove1 Nat.eqb y l) <-> In x l /\ x <> y).
Proof.
  induction l as [|z r IH]; simpl; intros ND; [tauto|].
  inversion ND as [|? ? Hn ND']; subst.
  destruct (Nat.eqb_spec y z).
  - subst. split; [intros H; split; [now right | intros ->; contradiction] | intros [[H|H] Hx]; congruence].
  - simpl. rewrite IH by assumption. split.
    + intros [H|[H Hx]]; [subst; split; [now left | congruence] | split; [now right | assumption]].
    + intros [[H|H] Hx]; [now left | right; now split].
Qed.

Lemma NoDup_remove1 y l : NoDup l -> NoDup (remove1 Nat.eqb y l).
Proof.
  induction l as [|z r IH]; simpl; intros ND; [constructor|].
  inversion ND as [|? ? Hn ND']; subst.
  destruct (Nat.eqb_spec y z); [assumption|]. constructor; [|auto].
  rewrite remove1_In by assumption. tauto.
Qed.

(* ---- ancestors, paths, the cyclic test ---------------------------------------------------- *)
Inductive anc (s : state) (a : nat) : nat -> Prop :=
| anc_par n : par s n = Some a -> anc s a n
| anc_up n m : par s n = Some m -> anc s a m -> anc s a n.

Definition aos (s : state) (m n : nat) : Prop := m = n \/ anc s m n.

Lemma aos_up s m n p : par s n = Some p -> aos s m p -> anc s m n.
Proof. intros H [->|A]; [now apply anc_par | now apply anc_up with p]. Qed.

Lemma path_mono g g' s n x : path g s n = Some x -> g <= g' -> path g' s n = Some x.
Proof.
  revert g' n x; induction g as [|g IH]; intros g' n x H L; simpl in H; [discriminate|].
  destruct g' as [|g']; [lia|]. simpl.
  destruct (par s n) as [p|]; [|assumption].
  destruct (path g s p) as [pp|] eqn:E; [|discriminate].
  rewrite (IH g' p pp E) by lia. assumption.
Qed.

Lemma path_anc_prefix s c p : anc s c p -> forall g pp, path g s p = Some pp ->
  exists pc, path g s c = Some pc /\ prefix (pc +++ "/") pp = true.
Proof.
  induction 1 as [n Hp | n m Hp A IH]; intros g pp H; destruct g as [|g]; simpl in H; try discriminate;
    rewrite Hp in H.
  - destruct (path g s c) as [pc|] eqn:E; [|discriminate]. injection H as <-.
    exists pc; split; [apply path_mono with g; [assumption | lia]|].
    rewrite (sapp_slash pc (lbl s n)). exact (prefix_app (pc +++ "/") (lbl s n)).
  - destruct (path g s m) as [pm|] eqn:E; [|discriminate]. injection H as <-.
    destruct (IH g pm E) as [pc [H1 H2]].
    exists pc; split; [apply path_mono with g; [assumption | lia]|].
    now apply prefix_app_r.
Qed.

Lemma path_ext s s' : forall g n,
  (forall m, aos s m n -> par s' m = par s m /\ lbl s' m = lbl s m) ->
  path g s' n = path g s n.
Proof.
  induction g as [|g IH]; intros n H; simpl; [reflexivity|].
  destruct (H n (or_introl eq_refl)) as [Hp Hl]. rewrite Hp, Hl.
  destruct (par s n) as [p|] eqn:E; [|reflexivity].
  rewrite IH; [reflexivity|]. intros m A. apply H. right. now apply aos_up with p.
Qed.

Lemma cyclic_none pf s p c : cyclic pf s p c = None ->
  p <> c /\ ~ anc s c p /\ exists pp pc, path pf s p = Some pp /\ path pf s c = Some pc /\ prefix (pc +++ "/") pp = false.
Proof.
  unfold cyclic. destruct (Nat.eqb_spec p c); [discriminate|].
  destruct (path pf s p) as [pp|] eqn:Ep; [|discriminate].
  destruct (path pf s c) as [pc|] eqn:Ec; [|discriminate].
  destruct (prefix (pc +++ "/") pp) eqn:Ex; [discriminate|]. intros _.
  split; [assumption|]. split; [|now exists pp, pc].
  intros A. destruct (path_anc_prefix s c p A pf pp Ep) as [pc' [H1 H2]]. congruence.
Qed.

Lemma prefix_longer a b : prefix ((a +++ b) +++ "/") a = false.
Proof.
  destruct (prefix ((a +++ b) +++ "/") a) eqn:E; [|reflexivity].
  apply prefix_length in E. rewrite !slength_app in E. simpl in E. lia.
Qed.

(* rootedness when one parent pointer changes *)
Lemma rooted_cut s s' c : par s' c = None -> (forall n, n <> c -> par s' n = par s n) ->
  forall n, rooted s n -> rooted s' n.
Proof.
  intros Hc Ho n R. induction R as [n Hn | n p Hn R IH].
  - destruct (Nat.eq_dec n c) as [->|D]; [now apply rooted_root|]. apply rooted_root. now rewrite Ho.
  - destruct (Nat.eq_dec n c) as [->|D]; [now apply rooted_root|].
    apply rooted_step with p; [now rewrite Ho | assumption].
Qed.

Lemma rooted_graft s s' c p : par s' c = Some p -> (forall n, n <> c -> par s' n = par s n) ->
  ~ aos s c p -> (forall n, rooted s n) -> forall n, rooted s' n.
Proof.
  intros Hc Ho NA R.
  assert (Rp : forall n, rooted s n -> ~ aos s c n -> rooted s' n).
  { intros n Rn. induction Rn as [n Hn | n q Hn Rq IH]; intros Na.
    - apply rooted_root. rewrite Ho; [assumption|]. intros ->. apply Na. now left.
    - apply rooted_step with q.
      + rewrite Ho; [assumption|]. intros ->. apply Na. now left.
      + apply IH. intros A. apply Na. right. now apply aos_up with q. }
  intros n. specialize (R n) as Rn. induction Rn as [n Hn | n q Hn Rq IH].
  - destruct (Nat.eq_dec n c) as [->|D].
    + apply rooted_step with p; [assumption | now apply Rp].
    + apply rooted_root. now rewrite Ho.
  - destruct (Nat.eq_dec n c) as [->|D].
    + apply rooted_step with p; [assumption | now apply Rp].
    + apply rooted_step with q; [now rewrite Ho | assumption].
Qed.

Lemma rooted_same_par s s' : (forall n, par s' n = par s n) -> forall n, rooted s n -> rooted s' n.
Proof.
  intros H n R. induction R as [n Hn | n p Hn R IH].
  - apply rooted_root. now rewrite H.
  - apply rooted_step with p; [now rewrite H | assumption].
Qed.

Lemma anc_same_par s s' a : (forall n, par s' n = par s n) -> forall n, anc s a n -> anc s' a n.
Proof.
  intros H n A. induction A as [n Hn | n m Hn A IH].
  - apply anc_par. now rewrite H.
  - apply anc_up with m; [now rewrite H | assumption].
Qed.

(* a rooted node is not its own ancestor *)
Lemma anc_trans s a b c : anc s a b -> anc s b c -> anc s a c.
Proof.
  intros Hab Hbc. induction Hbc as [n Hn | n m Hn A IH].
  - now apply anc_up with b.
  - apply anc_up with m; [assumption | now apply IH].
Qed.

Lemma rooted_not_anc_self s n : rooted s n -> ~ anc s n n.
Proof.
  intros R. induction R as [n Hn | n p Hn R IH]; intros A.
  - inversion A; congruence.
  - apply IH. inversion A as [x Hx | x m Hx Am]; subst.
    + rewrite Hn in Hx. injection Hx as Hx. subst p. now apply anc_par.
    + rewrite Hn in Hx. injection Hx as Hx. subst m.
      apply anc_trans with n; [now apply anc_par | assumption].
Qed.

Lemma NoDup_snd_of_fst (l : bd) : NoDup (map fst l) ->
  (forall k k' c, In (k, c) l -> In (k', c) l -> k = k') -> NoDup (map snd l).
Proof.
  induction l as [|[k v] r IH]; simpl; intros ND H; [constructor|].
  inversion ND as [|? ? Hn ND']; subst. constructor.
  - intros Hv. apply in_map_iff in Hv. destruct Hv as [[k' v'] [E Hin]]. simpl in E; subst v'.
    assert (k = k') by (apply (H k k' v); [now left | now right]). subst k'.
    apply Hn. change k with (fst (k, v)). now apply in_map.
  - apply IH; [assumption|]. intros a b c Ha Hb. apply (H a b c); now right.
Qed.

Ltac eqb_cases :=
  repeat match goal with
  | |- context [Nat.eqb ?a ?b] => destruct (Nat.eqb_spec a b); try subst; try congruence
  | H : context [Nat.eqb ?a ?b] |- _ => destruct (Nat.eqb_spec a b); try subst; try congruence
  end.


Lemma path_ext_off s s' c : (forall m, m <> c -> par s' m = par s m /\ lbl s' m = lbl s m) ->
  forall g n, ~ aos s c n -> path g s' n = path g s n.
Proof.
  intros H g n NA. apply path_ext. intros m A. apply H. intros ->. now apply NA.
Qed.

Lemma path_some_S g s n x : path g s n = Some x -> exists g', g = S g'.
Proof. destruct g; simpl; [discriminate | intros _; now eexists]. Qed.

(* the second cyclic test of an adoption: the child is an orphan that carries its new label *)
Lemma cyc_orphan pf s s' p c pp :
  (forall g, path g s' p = path g s p) -> par s' c = None ->
  p <> c -> path pf s p = Some pp -> prefix ("/" +++ lbl s' c +++ "/") pp = false ->
  cyclic pf s' p c = None.
Proof.
  intros H Hc D Hp Hx. unfold cyclic. destruct (Nat.eqb_spec p c); [contradiction|].
  rewrite H, Hp. destruct (path_some_S _ _ _ _ Hp) as [g ->]. simpl. rewrite Hc.
  cbn [String.append] in Hx |- *. now rewrite Hx.
Qed.

(* the cyclic test once the child already names the composite as parent *)
Lemma cyc_child pf s s' p c pp :
  (forall g, path g s' p = path g s p) -> par s' c = Some p ->
  p <> c -> path pf s p = Some pp ->
  cyclic pf s' p c = None \/ cyclic pf s' p c = Some ERecursion.
Proof.
  intros E Hc D Hp. unfold cyclic. destruct (Nat.eqb_spec p c); [contradiction|].
  rewrite E, Hp. destruct (path_some_S _ _ _ _ Hp) as [g ->]. simpl. rewrite Hc, E.
  destruct (path g s p) as [pp'|] eqn:Eg; [|now right].
  rewrite (path_mono g (S g) s p pp' Eg) in Hp by lia. injection Hp as ->.
  left. replace (pp +++ String "/" (lbl s' c)) with (pp +++ "/" +++ lbl s' c) by reflexivity.
  now rewrite prefix_longer.
Qed.

Lemma anc_transport s s1 c : (forall m, m <> c -> par s1 m = par s m) -> par s1 c = None ->
  forall q, anc s1 c q -> anc s c q.
Proof.
  intros H Hc q A. induction A as [n Hn | n m Hn A IH].
  - apply anc_par. rewrite <- H; [assumption|]. intros ->. congruence.
  - apply anc_up with m; [|assumption]. rewrite <- H; [assumption|]. intros ->. congruence.
Qed.

Section Proofs.
Variable kindof : nat -> kind.
Variable strictof : nat -> bool.
Variable reserved : kind -> string -> bool.
Variable N : nat.
Variable pfuel : nat.

Notation INV := (Inv kindof reserved).

Lemma inv_vals s p : INV s -> NoDup (map snd (kids s p)).
Proof.
  intros I. apply NoDup_snd_of_fst; [apply (inv_keys _ _ _ I)|].
  intros k k' c H1 H2. apply (inv_agree _ _ _ I) in H1, H2. destruct H1, H2; congruence.
Qed.

Lemma inv_listed_comp s p k c : INV s -> In (k, c) (kids s p) -> kindof p <> Leaf.
Proof. intros I H E. destruct (inv_leaf _ _ _ I p E) as [K _]. rewrite K in H. contradiction. Qed.

Lemma inv_child_not_aos s p k c : INV s -> In (k, c) (kids s p) -> ~ aos s c p.
Proof.
  intros I H A. apply (inv_agree _ _ _ I) in H. destruct H as [Hp _].
  apply (rooted_not_anc_self s c (inv_rooted _ _ _ I c)).
  destruct A as [->|A]; [now apply anc_par | now apply anc_up with p].
Qed.

Lemma inv_orphan_unlisted s c : INV s -> par s c = None -> forall p k, ~ In (k, c) (kids s p).
Proof. intros I H p k Hin. apply (inv_agree _ _ _ I) in Hin. destruct Hin; congruence. Qed.

Lemma Inv_same s s' : same s s' -> INV s -> INV s'.
Proof.
  intros (L & P & K & S) I. constructor.
  - intros p k c. rewrite <- K, <- P, <- L. apply (inv_agree _ _ _ I).
  - intros p. rewrite <- K. apply (inv_keys _ _ _ I).
  - intros p k c. rewrite <- K. apply (inv_reserved _ _ _ I).
  - intros n. apply rooted_same_par with s; [intros m; now rewrite P | apply (inv_rooted _ _ _ I)].
  - intros n. rewrite <- P. apply (inv_wf _ _ _ I).
  - intros p c. rewrite <- S, <- K. apply (inv_start _ _ _ I).
  - intros p. rewrite <- S. apply (inv_start_nodup _ _ _ I).
  - intros p. rewrite <- K, <- S. apply (inv_leaf _ _ _ I).
  - intros n. rewrite <- L. apply (inv_slash _ _ _ I).
Qed.

Lemma same_refl s : same s s.
Proof. repeat split. Qed.

Lemma same_sym s s' : same s s' -> same s' s.
Proof. intros (L & P & K & S). repeat split; intros; symmetry; auto. Qed.

Lemma same_trans s s' s'' : same s s' -> same s' s'' -> same s s''.
Proof. intros (L & P & K & S) (L' & P' & K' & S'). repeat split; intros; etransitivity; eauto. Qed.

(* ---- the four state transformers the operations perform ---------------------------------- *)
Definition detach (s : state) (p c : nat) : state :=
  set_strt (set_par (set_kids s p (val_pop c (kids s p))) c None) p (remove1 Nat.eqb c (strt s p)).

Definition attach (s : state) (p c : nat) (l : string) : state :=
  set_par (set_kids (set_lbl s c l) p (kids s p ++ [(l, c)])) c (Some p).

Definition relabel (s : state) (p c : nat) (l : string) : state :=
  set_kids (set_lbl s c l) p (val_pop c (kids s p) ++ [(l, c)]).

Lemma inv_detach s p k c : INV s -> In (k, c) (kids s p) -> INV (detach s p c).
Proof.
  intros I Hin. pose proof (inv_vals s p I) as NDv.
  pose proof (proj1 (inv_agree _ _ _ I p k c) Hin) as [Hpc Hlc].
  constructor; unfold detach; cbn [lbl par kids strt set_lbl set_par set_kids set_strt].
  - intros p' k' c'. destruct (Nat.eqb_spec p' p) as [->|Dp].
    + rewrite val_pop_In by assumption. simpl. rewrite (inv_agree _ _ _ I).
      destruct (Nat.eqb_spec c' c) as [->|Dc]; [split; [tauto | intros [? _]; discriminate] | tauto].
    + rewrite (inv_agree _ _ _ I).
      destruct (Nat.eqb_spec c' c) as [->|Dc]; [|tauto].
      split; [intros [? _]; congruence | intros [? _]; discriminate].
  - intros p'. destruct (Nat.eqb_spec p' p) as [->|Dp]; [apply NoDup_fst_val_pop|]; apply (inv_keys _ _ _ I).
  - intros p' k' c'. destruct (Nat.eqb_spec p' p) as [->|Dp].
    + rewrite val_pop_In by assumption. intros [H _]. now apply (inv_reserved _ _ _ I) in H.
    + apply (inv_reserved _ _ _ I).
  - intros n. apply rooted_cut with s c; cbn; [now rewrite Nat.eqb_refl | | apply (inv_rooted _ _ _ I)].
    intros m D. now destruct (Nat.eqb_spec m c).
  - intros n W. destruct (Nat.eqb_spec n c); [reflexivity | now apply (inv_wf _ _ _ I)].
  - intros p' c'. destruct (Nat.eqb_spec p' p) as [->|Dp].
    + rewrite remove1_In by apply (inv_start_nodup _ _ _ I). intros [H D].
      destruct (inv_start _ _ _ I _ _ H) as [k' Hk]. exists k'. rewrite val_pop_In by assumption. now split.
    + apply (inv_start _ _ _ I).
  - intros p'. destruct (Nat.eqb_spec p' p) as [->|Dp]; [apply NoDup_remove1|]; apply (inv_start_nodup _ _ _ I).
  - intros p' L. destruct (inv_leaf _ _ _ I p' L) as [K S].
    destruct (Nat.eqb_spec p' p) as [->|Dp]; [rewrite K in Hin; contradiction | now split].
  - apply (inv_slash _ _ _ I).
Qed.

Lemma inv_attach s p c l : INV s -> par s c = None -> kindof c <> Wf -> kindof p <> Leaf ->
  ~ aos s c p -> ~ In l (map fst (kids s p)) -> reserved (kindof p) l = false -> has_slash l = false ->
  INV (attach s p c l).
Proof.
  intros I Hc Wc Lp NA Fr Rs Sl.
  pose proof (inv_orphan_unlisted s c I Hc) as Un.
  constructor; unfold attach; cbn [lbl par kids strt set_lbl set_par set_kids set_strt].
  - intros p' k' c'. destruct (Nat.eqb_spec p' p) as [->|Dp].
    + rewrite in_app_iff. simpl. destruct (Nat.eqb_spec c' c) as [->|Dc].
      * split; [intros [H|[H|[]]]; [now apply Un in H | injection H as ->; now split] | intros [_ ->]; right; now left].
      * rewrite (inv_agree _ _ _ I). split; [intros [H|[H|[]]]; [assumption | congruence] | now left].
    + destruct (Nat.eqb_spec c' c) as [->|Dc].
      * split; [intros H; now apply Un in H | intros [H _]; congruence].
      * apply (inv_agree _ _ _ I).
  - intros p'. destruct (Nat.eqb_spec p' p) as [->|Dp]; [|apply (inv_keys _ _ _ I)].
    rewrite map_app. simpl. apply NoDup_app_one; [apply (inv_keys _ _ _ I) | assumption].
  - intros p' k' c'. destruct (Nat.eqb_spec p' p) as [->|Dp]; [|apply (inv_reserved _ _ _ I)].
    rewrite in_app_iff. simpl. intros [H|[H|[]]]; [now apply (inv_reserved _ _ _ I) in H | now injection H as <- _].
  - apply rooted_graft with s c p; cbn; [now rewrite Nat.eqb_refl | | assumption | apply (inv_rooted _ _ _ I)].
    intros m D. now destruct (Nat.eqb_spec m c).
  - intros n W. destruct (Nat.eqb_spec n c) as [->|D]; [contradiction | now apply (inv_wf _ _ _ I)].
  - intros p' c' H. destruct (inv_start _ _ _ I _ _ H) as [k' Hk]. exists k'.
    destruct (Nat.eqb_spec p' p) as [->|Dp]; [rewrite in_app_iff; now left | assumption].
  - apply (inv_start_nodup _ _ _ I).
  - intros p' L. destruct (inv_leaf _ _ _ I p' L) as [K S].
    destruct (Nat.eqb_spec p' p) as [->|Dp]; [contradiction | now split].
  - intros n. destruct (Nat.eqb_spec n c); [assumption | apply (inv_slash _ _ _ I)].
Qed.

Lemma inv_relabel s p k c l : INV s -> In (k, c) (kids s p) ->
  ~ In l (map fst (kids s p)) -> reserved (kindof p) l = false -> has_slash l = false ->
  INV (relabel s p c l).
Proof.
  intros I Hin Fr Rs Sl. pose proof (inv_vals s p I) as NDv.
  pose proof (proj1 (inv_agree _ _ _ I p k c) Hin) as [Hpc Hlc].
  constructor; unfold relabel; cbn [lbl par kids strt set_lbl set_par set_kids set_strt].
  - intros p' k' c'. destruct (Nat.eqb_spec p' p) as [->|Dp].
    + rewrite in_app_iff, val_pop_In by assumption. simpl. destruct (Nat.eqb_spec c' c) as [->|Dc].
      * split; [intros [[_ H]|[H|[]]]; [congruence | injection H as ->; now split] | intros [_ ->]; right; now left].
      * rewrite (inv_agree _ _ _ I). split; [intros [[H _]|[H|[]]]; [assumption | congruence] | intros H; left; now split].
    + rewrite (inv_agree _ _ _ I). destruct (Nat.eqb_spec c' c) as [->|Dc]; [|tauto].
      split; intros [H _]; congruence.
  - intros p'. destruct (Nat.eqb_spec p' p) as [->|Dp]; [|apply (inv_keys _ _ _ I)].
    rewrite map_app. simpl. apply NoDup_app_one; [apply NoDup_fst_val_pop, (inv_keys _ _ _ I)|].
    intros H. apply Fr. now apply (map_fst_val_pop c).
  - intros p' k' c'. destruct (Nat.eqb_spec p' p) as [->|Dp]; [|apply (inv_reserved _ _ _ I)].
    rewrite in_app_iff, val_pop_In by assumption. simpl.
    intros [[H _]|[H|[]]]; [now apply (inv_reserved _ _ _ I) in H | now injection H as <- _].
  - intros n. apply rooted_same_par with s; [reflexivity | apply (inv_rooted _ _ _ I)].
  - apply (inv_wf _ _ _ I).
  - intros p' c' H. destruct (inv_start _ _ _ I _ _ H) as [k' Hk].
    destruct (Nat.eqb_spec p' p) as [->|Dp]; [|now exists k'].
    destruct (Nat.eq_dec c' c) as [->|Dc].
    + exists l. rewrite in_app_iff. right. now left.
    + exists k'. rewrite in_app_iff, val_pop_In by assumption. left. now split.
  - apply (inv_start_nodup _ _ _ I).
  - intros p' L. destruct (inv_leaf _ _ _ I p' L) as [K S].
    destruct (Nat.eqb_spec p' p) as [->|Dp]; [rewrite K in Hin; contradiction | now split].
  - intros n. destruct (Nat.eqb_spec n c); [assumption | apply (inv_slash _ _ _ I)].
Qed.

Lemma inv_set_lbl_orphan s a l : INV s -> par s a = None -> has_slash l = false -> INV (set_lbl s a l).
Proof.
  intros I Ha Sl. pose proof (inv_orphan_unlisted s a I Ha) as Un.
  constructor; cbn [lbl par kids strt set_lbl].
  - intros p k c. destruct (Nat.eqb_spec c a) as [->|D]; [|apply (inv_agree _ _ _ I)].
    split; [intros H; now apply Un in H | intros [H _]; congruence].
  - apply (inv_keys _ _ _ I).
  - apply (inv_reserved _ _ _ I).
  - intros n. apply rooted_same_par with s; [reflexivity | apply (inv_rooted _ _ _ I)].
  - apply (inv_wf _ _ _ I).
  - apply (inv_start _ _ _ I).
  - apply (inv_start_nodup _ _ _ I).
  - apply (inv_leaf _ _ _ I).
  - intros n. destruct (Nat.eqb_spec n a); [assumption | apply (inv_slash _ _ _ I)].
Qed.

Lemma inv_start_append s p k c : INV s -> In (k, c) (kids s p) -> ~ In c (strt s p) ->
  INV (set_strt s p (strt s p ++ [c])).
Proof.
  intros I Hin Nin. constructor; cbn [lbl par kids strt set_strt].
  - apply (inv_agree _ _ _ I).
  - apply (inv_keys _ _ _ I).
  - apply (inv_reserved _ _ _ I).
  - intros n. apply rooted_same_par with s; [reflexivity | apply (inv_rooted _ _ _ I)].
  - apply (inv_wf _ _ _ I).
  - intros p' c'. destruct (Nat.eqb_spec p' p) as [->|Dp]; [|apply (inv_start _ _ _ I)].
    rewrite in_app_iff. simpl. intros [H|[<-|[]]]; [now apply (inv_start _ _ _ I) | now exists k].
  - intros p'. destruct (Nat.eqb_spec p' p) as [->|Dp]; [|apply (inv_start_nodup _ _ _ I)].
    apply NoDup_app_one; [apply (inv_start_nodup _ _ _ I) | assumption].
  - intros p' L. destruct (inv_leaf _ _ _ I p' L) as [K S].
    destruct (Nat.eqb_spec p' p) as [->|Dp]; [rewrite K in Hin; contradiction | now split].
  - apply (inv_slash _ _ _ I).
Qed.


(* ---- executions ---------------------------------------------------------------------------- *)
Notation SP := (sp kindof strictof reserved pfuel).
Notation AC := (ac kindof strictof reserved pfuel).
Notation RC := (rc kindof strictof reserved pfuel).
Notation RP := (rp kindof strictof reserved pfuel).
Notation CYC := (cyclic pfuel).

Lemma sp_S f s c np : SP (S f) s c np = sp_body kindof pfuel (RC f) (AC f) s c np.
Proof. reflexivity. Qed.
Lemma ac_S f s p c lb sn : AC (S f) s p c lb sn = ac_body kindof strictof reserved pfuel (SP f) s p c lb sn.
Proof. reflexivity. Qed.
Lemma rc_S f s p x : RC (S f) s p x = rc_body (SP f) s p x.
Proof. reflexivity. Qed.
Lemma sp_0 s c np : SP 0 s c np = (s, Err ERecursion). Proof. reflexivity. Qed.
Lemma ac_0 s p c lb sn : AC 0 s p c lb sn = (s, Err ERecursion). Proof. reflexivity. Qed.
Lemma rc_0 s p x : RC 0 s p x = (s, Err ERecursion). Proof. reflexivity. Qed.

Lemma val_mem_val_pop c l : NoDup (map snd l) -> val_mem c (val_pop c l) = false.
Proof.
  intros ND. apply val_mem_false. intros H. apply in_map_iff in H. destruct H as [[k v] [E H]].
  simpl in E; subst v. apply val_pop_In in H; [|assumption]. destruct H as [_ H]. now apply H.
Qed.

Lemma key_not_in_val_pop k c l : NoDup (map fst l) -> NoDup (map snd l) -> In (k, c) l ->
  ~ In k (map fst (val_pop c l)).
Proof.
  intros NDk NDv H Hk. apply in_map_iff in Hk. destruct Hk as [[k' v] [E Hv]]. simpl in E; subst k'.
  apply val_pop_In in Hv; [|assumption]. destruct Hv as [Hv D]. simpl in D.
  apply (In_key_get _ _ _ NDk) in H, Hv. congruence.
Qed.

Lemma wf_of_par s c p : INV s -> par s c = Some p -> is_wf kindof c = false.
Proof.
  intros I H. unfold is_wf. destruct (kindof c) eqn:E; try reflexivity.
  rewrite (inv_wf _ _ _ I c E) in H. discriminate.
Qed.

Lemma is_comp_not_leaf p : is_comp kindof p = true -> kindof p <> Leaf.
Proof. unfold is_comp. destruct (kindof p); congruence. Qed.

Lemma is_wf_false_not_wf c : is_wf kindof c = false -> kindof c <> Wf.
Proof. unfold is_wf. destruct (kindof c); congruence. Qed.

Lemma child_labels_keys s p : INV s -> child_labels s p = map fst (kids s p).
Proof.
  intros I. unfold child_labels. apply map_ext_in. intros [k c] H. simpl.
  apply (inv_agree _ _ _ I) in H. now destruct H.
Qed.

Lemma mems_key_mem l ks : mems l (map fst ks) = key_mem l ks.
Proof.
  destruct (key_mem l ks) eqn:E.
  - apply mems_In. now apply key_mem_true.
  - destruct (mems l (map fst ks)) eqn:E2; [|reflexivity].
    apply mems_In, key_mem_true in E2. congruence.
Qed.

Lemma rc_listed s p k c f : INV s -> In (k, c) (kids s p) ->
  is_rec (snd (RC f s p (inr c))) = true \/ RC f s p (inr c) = (detach s p c, Ok).
Proof.
  intros I Hin. pose proof (inv_vals s p I) as NDv.
  pose proof (proj1 (inv_agree _ _ _ I p k c) Hin) as [Hpc Hlc].
  assert (Hm : val_mem c (kids s p) = true) by (apply val_mem_true; now exists k).
  destruct f as [|[|f]]; [left; reflexivity | left | right].
  - rewrite rc_S. unfold rc_body. rewrite Hm, sp_0. reflexivity.
  - rewrite rc_S. unfold rc_body. rewrite Hm, sp_S.
    unfold sp_body. rewrite (wf_of_par s c p I Hpc).
    cbn [lbl par kids strt set_lbl set_par set_kids set_strt]. rewrite Hpc. cbn [oeqb].
    rewrite Nat.eqb_refl, (val_mem_val_pop c _ NDv). reflexivity.
Qed.

Lemma suffix_fresh g s p l : forall i cur x,
  suffix kindof reserved g s p l i cur = Some x -> in_dir kindof reserved s p x = false.
Proof.
  induction g as [|g IH]; intros i cur x; simpl; destruct (in_dir kindof reserved s p cur) eqn:E;
    try discriminate; try (intros H; injection H as <-; assumption).
  apply IH.
Qed.

Lemma unique_label_fresh s p l st l' :
  unique_label kindof reserved pfuel s p l st = inl l' -> in_dir kindof reserved s p l' = false.
Proof.
  unfold unique_label. destruct (in_dir kindof reserved s p l) eqn:E.
  - destruct (mems l (child_labels s p)); [|discriminate]. destruct st; [discriminate|].
    destruct (suffix kindof reserved pfuel s p l 0 l) as [x|] eqn:Es; [|discriminate].
    intros H; injection H as <-. now apply suffix_fresh in Es.
  - intros H; injection H as <-. assumption.
Qed.

Lemma in_dir_false s p l : in_dir kindof reserved s p l = false ->
  reserved (kindof p) l = false /\ ~ In l (map fst (kids s p)).
Proof.
  unfold in_dir. intros H. apply orb_false_iff in H. destruct H as [H1 H2]. split; [assumption|].
  intros H. apply key_mem_true in H. congruence.
Qed.

Lemma already_here_unlisted s p c l : INV s -> (forall k, ~ In (k, c) (kids s p)) ->
  already_here s p c l = inl false.
Proof.
  intros I Un. unfold already_here.
  destruct (String.eqb l (lbl s c) && mems l (child_labels s p)) eqn:E; [|reflexivity].
  apply andb_true_iff in E. destruct E as [_ E]. rewrite (child_labels_keys s p I), mems_key_mem in E.
  unfold key_mem in E. destruct (key_get l (kids s p)) as [v|] eqn:Ek; [|discriminate].
  apply key_get_In in Ek. destruct (Nat.eqb_spec v c) as [->|D]; [now apply Un in Ek | reflexivity].
Qed.

Lemma already_here_listed s p c : INV s -> In (lbl s c, c) (kids s p) -> already_here s p c (lbl s c) = inl true.
Proof.
  intros I H. unfold already_here. rewrite String.eqb_refl, (child_labels_keys s p I), mems_key_mem.
  unfold key_mem. rewrite (In_key_get _ _ _ (inv_keys _ _ _ I p) H). simpl. now rewrite Nat.eqb_refl.
Qed.

Definition dflt {A} (o : option A) (d : A) : A := match o with Some x => x | None => d end.

Lemma ac_orphan s p c lb sn l' pp f :
  INV s -> is_comp kindof p = true -> is_wf kindof c = false -> par s c = None ->
  CYC s p c = None ->
  unique_label kindof reserved pfuel s p (dflt lb (lbl s c)) (dflt sn (strictof p)) = inl l' ->
  has_slash l' = false ->
  path pfuel s p = Some pp -> prefix ("/" +++ l' +++ "/") pp = false ->
  is_rec (snd (AC f s p c lb sn)) = true \/ AC f s p c lb sn = (attach s p c l', Ok).
Proof.
  intros I Cp Wc Hc Hcy Hu Hs Hp Hx.
  pose proof (inv_orphan_unlisted s c I Hc) as Un.
  destruct (cyclic_none _ _ _ _ Hcy) as (Dpc & NA & _).
  destruct (in_dir_false _ _ _ (unique_label_fresh _ _ _ _ _ Hu)) as [Rs Fr].
  destruct f as [|f]; [left; reflexivity|].
  rewrite ac_S. unfold ac_body. rewrite Hcy, Hc.
  change (match lb with Some l => l | None => lbl s c end) with (dflt lb (lbl s c)).
  change (match sn with Some b => b | None => strictof p end) with (dflt sn (strictof p)).
  rewrite (already_here_unlisted s p c _ I (Un p)), Hu, Hs.
  cbn [oeqb andb]. cbn [lbl par kids strt set_lbl set_par set_kids set_strt].
  assert (Hput : bd_put l' c (kids s p) = inl (kids s p ++ [(l', c)])).
  { unfold bd_put. rewrite (proj2 (key_get_None l' (kids s p)) Fr).
    assert (Hv : val_key c (kids s p) = None).
    { apply val_key_None. intros H. apply in_map_iff in H. destruct H as [[k v] [E H]]. simpl in E; subst v.
      now apply Un in H. }
    now rewrite Hv. }
  rewrite Hput.
  set (s3 := set_kids (set_lbl s c l') p (kids s p ++ [(l', c)])).
  assert (H3 : forall g, path g s3 p = path g s p).
  { intros g. apply path_ext_off with c; [|intros [E|A]; [congruence | contradiction]].
    intros m D. unfold s3; cbn. now destruct (Nat.eqb_spec m c). }
  assert (H3c : par s3 c = None) by exact Hc.
  assert (H3l : lbl s3 c = l') by (unfold s3; cbn; now rewrite Nat.eqb_refl).
  destruct f as [|f]; [left; reflexivity|].
  rewrite sp_S. unfold sp_body. rewrite Wc, H3c. cbn [oeqb]. rewrite Cp. cbn [negb].
  rewrite (cyc_orphan pfuel s s3 p c pp H3 H3c Dpc Hp) by (now rewrite H3l).
  set (s4 := set_par s3 c (Some p)).
  assert (H4 : forall g, path g s4 p = path g s p).
  { intros g. apply path_ext_off with c; [|intros [E|A]; [congruence | contradiction]].
    intros m D. unfold s4, s3; cbn. now destruct (Nat.eqb_spec m c). }
  assert (H4c : par s4 c = Some p) by (unfold s4; cbn; now rewrite Nat.eqb_refl).
  destruct f as [|f]; [left; reflexivity|].
  rewrite ac_S. unfold ac_body.
  destruct (cyc_child pfuel s s4 p c pp H4 H4c Dpc Hp) as [Ec|Ec]; rewrite Ec; [|left; reflexivity].
  rewrite H4c, Nat.eqb_refl. cbn [negb].
  assert (Hl4 : lbl s4 c = l') by (unfold s4, s3; cbn; now rewrite Nat.eqb_refl).
  assert (Hah : already_here s4 p c (lbl s4 c) = inl true).
  { unfold already_here. rewrite String.eqb_refl, Hl4.
    assert (Hk : kids s4 p = kids s p ++ [(l', c)]) by (unfold s4, s3; cbn; now rewrite Nat.eqb_refl).
    rewrite Hk.
    assert (Hm : mems l' (child_labels s4 p) = true).
    { apply mems_In. unfold child_labels. rewrite Hk, map_app, in_app_iff. right. simpl. left. exact Hl4. }
    rewrite Hm. simpl.
    assert (Hg : key_get l' (kids s p ++ [(l', c)]) = Some c).
    { clear - Fr. induction (kids s p) as [|[k v] r IH]; simpl in *.
      - now rewrite String.eqb_refl.
      - destruct (String.eqb_spec l' k); [subst; tauto | apply IH; tauto]. }
    now rewrite Hg, Nat.eqb_refl. }
  rewrite Hah. right. reflexivity.
Qed.

(* what an operation must establish: accepted => invariant; refused => nothing changed *)
Definition post (s : state) (x : state * result) : Prop :=
  match snd x with
  | Ok => INV (fst x)
  | Skip => fst x = s
  | Err e => e = ERecursion \/ fst x = s
  end.

Lemma post_rec s x : is_rec (snd x) = true -> post s x.
Proof. unfold post. destruct (snd x) as [|[]|]; simpl; try discriminate. intros _. now left. Qed.

Ltac ac_unf f := destruct f as [|f]; [apply post_rec; reflexivity|]; rewrite ac_S; unfold ac_body.

Lemma ac_top s p c lb sn f : INV s -> is_comp kindof p = true ->
  risky_adopt kindof reserved pfuel s p c (dflt lb (lbl s c)) (dflt sn (strictof p)) = false ->
  post s (AC f s p c lb sn).
Proof.
  intros I Cp Hr.
  unfold risky_adopt in Hr. apply orb_false_iff in Hr. destruct Hr as [Wc Hr].
  destruct (CYC s p c) as [e|] eqn:Hcy; [ac_unf f; rewrite Hcy; right; reflexivity|].
  destruct (par s c) as [o|] eqn:Hc.
  - (* c has a parent *)
    destruct (Nat.eqb_spec o p) as [->|D].
    2:{ ac_unf f. rewrite Hcy, Hc. apply Nat.eqb_neq in D. rewrite D. right; reflexivity. }
    assert (Hin : In (lbl s c, c) (kids s p)) by (apply (inv_agree _ _ _ I); now split).
    pose proof (inv_vals s p I) as NDv.
    ac_unf f. rewrite Hcy, Hc, Nat.eqb_refl. cbn [negb].
    change (match lb with Some l => l | None => lbl s c end) with (dflt lb (lbl s c)).
    change (match sn with Some b => b | None => strictof p end) with (dflt sn (strictof p)).
    destruct (already_here s p c (dflt lb (lbl s c))) as [[|]|e] eqn:Hah; [exact I | | right; reflexivity].
    destruct (unique_label kindof reserved pfuel s p (dflt lb (lbl s c)) (dflt sn (strictof p))) as [l'|e] eqn:Hu;
      [|right; reflexivity].
    destruct (has_slash l') eqn:Hs; [right; reflexivity|].
    destruct (in_dir_false _ _ _ (unique_label_fresh _ _ _ _ _ Hu)) as [Rs Fr].
    cbn [oeqb]. rewrite Nat.eqb_refl.
    destruct (String.eqb_spec l' (lbl s c)) as [E|Dl].
    { exfalso. apply Fr. rewrite E. change (lbl s c) with (fst (lbl s c, c)). now apply in_map. }
    assert (Hm : val_mem c (kids s p) = true) by (apply val_mem_true; now exists (lbl s c)).
    rewrite Hm. cbn [negb andb]. cbn [lbl par kids strt set_lbl set_par set_kids set_strt]. rewrite Nat.eqb_refl.
    assert (Hput : bd_put l' c (val_pop c (kids s p)) = inl (val_pop c (kids s p) ++ [(l', c)])).
    { unfold bd_put.
      assert (Hk : key_get l' (val_pop c (kids s p)) = None).
      { apply key_get_None. intros H. apply Fr. now apply (map_fst_val_pop c). }
      assert (Hv : val_key c (val_pop c (kids s p)) = None).
      { pose proof (val_mem_val_pop c _ NDv) as H. unfold val_mem in H. now destruct (val_key c (val_pop c (kids s p))). }
      now rewrite Hk, Hv. }
    rewrite Hput.
    destruct f as [|f]; [apply post_rec; reflexivity|].
    rewrite sp_S. unfold sp_body. rewrite (wf_of_par s c p I Hc).
    cbn [lbl par kids strt set_lbl set_par set_kids set_strt]. rewrite Hc. cbn [oeqb]. rewrite Nat.eqb_refl.
    unfold post. cbn [fst snd].
    apply Inv_same with (relabel s p c l'); [|now apply inv_relabel with (lbl s c)].
    unfold relabel, same; cbn. repeat split; intros n; try reflexivity.
    destruct (Nat.eqb_spec n p); reflexivity.
  - (* c is an orphan *)
    cbn [oeqb andb] in Hr.
    destruct (unique_label kindof reserved pfuel s p (dflt lb (lbl s c)) (dflt sn (strictof p))) as [l'|e] eqn:Hu.
    2:{ ac_unf f. rewrite Hcy, Hc.
        change (match lb with Some l => l | None => lbl s c end) with (dflt lb (lbl s c)).
        change (match sn with Some b => b | None => strictof p end) with (dflt sn (strictof p)).
        rewrite (already_here_unlisted s p c _ I (inv_orphan_unlisted s c I Hc p)), Hu. right; reflexivity. }
    destruct (has_slash l') eqn:Hs.
    { ac_unf f. rewrite Hcy, Hc.
      change (match lb with Some l => l | None => lbl s c end) with (dflt lb (lbl s c)).
      change (match sn with Some b => b | None => strictof p end) with (dflt sn (strictof p)).
      rewrite (already_here_unlisted s p c _ I (inv_orphan_unlisted s c I Hc p)), Hu, Hs. right; reflexivity. }
    destruct (cyclic_none _ _ _ _ Hcy) as (Dpc & NA & pp & pc & Hp & _ & _).
    rewrite Hp in Hr.
    destruct (in_dir_false _ _ _ (unique_label_fresh _ _ _ _ _ Hu)) as [Rs Fr].
    destruct (ac_orphan s p c lb sn l' pp f I Cp Wc Hc Hcy Hu Hs Hp Hr) as [H|H]; [now apply post_rec|].
    rewrite H. unfold post; cbn [fst snd].
    apply inv_attach; try assumption.
    + now apply is_wf_false_not_wf.
    + now apply is_comp_not_leaf.
    + intros [E|A]; [congruence | contradiction].
Qed.

Lemma sp_none_top s c f : INV s -> post s (SP f s c None).
Proof.
  intros I. destruct f as [|f]; [apply post_rec; reflexivity|].
  rewrite sp_S. unfold sp_body. destruct (is_wf kindof c); [exact I|].
  destruct (par s c) as [o|] eqn:Hc; cbn [oeqb]; [|exact I].
  assert (Hin : In (lbl s c, c) (kids s o)) by (apply (inv_agree _ _ _ I); now split).
  assert (Hm : val_mem c (kids s o) = true) by (apply val_mem_true; now exists (lbl s c)).
  rewrite Hm.
  destruct (rc_listed s o _ c f I Hin) as [H|H].
  - destruct (RC f s o (inr c)) as [s1 r1]. simpl in H. destruct r1 as [|[]|]; try discriminate.
    apply post_rec; reflexivity.
  - rewrite H. unfold post; cbn [fst snd].
    apply Inv_same with (detach s o c); [|now apply inv_detach with (lbl s c)].
    unfold detach, same; cbn. repeat split; intros n; try reflexivity.
    destruct (Nat.eqb_spec n c); reflexivity.
Qed.

Lemma rc_top s p x f : INV s -> post s (RC f s p x).
Proof.
  intros I.
  assert (G : forall c, post s (RC f s p (inr c))).
  { intros c. destruct (val_mem c (kids s p)) eqn:Hm.
    - apply val_mem_true in Hm. destruct Hm as [k Hin].
      destruct (rc_listed s p k c f I Hin) as [H|H]; [now apply post_rec|].
      rewrite H. unfold post; cbn [fst snd]. now apply inv_detach with k.
    - destruct f as [|f]; [apply post_rec; reflexivity|].
      rewrite rc_S. unfold rc_body. rewrite Hm. right; reflexivity. }
  destruct x as [l|c]; [|apply G].
  destruct (key_get l (kids s p)) as [c|] eqn:Hk.
  - assert (E : RC f s p (inl l) = RC f s p (inr c)).
    { destruct f as [|f]; [reflexivity|]. rewrite !rc_S. unfold rc_body. rewrite Hk.
      pose proof (key_get_In _ _ _ Hk) as Hin.
      assert (Hm : val_mem c (kids s p) = true) by (apply val_mem_true; now exists l).
      rewrite Hm.
      destruct (key_pop_val_pop l c (kids s p) (inv_keys _ _ _ I p) Hin) as [->|H]; [reflexivity|].
      exfalso; apply H. now apply inv_vals. }
    rewrite E. apply G.
  - destruct f as [|f]; [apply post_rec; reflexivity|].
    rewrite rc_S. unfold rc_body. rewrite Hk. right; reflexivity.
Qed.

(* ---- parent assignment: c.parent = q ---------------------------------------------------------- *)
Definition post_assign (s : state) (c q : nat) (x : state * result) : Prop :=
  match snd x with
  | Ok => INV (fst x)
  | Skip => False
  | Err e => e = ERecursion \/ risky_assign kindof reserved s c q = true \/ fst x = s
  end.

Section Tail.
Variables (s1 : state) (c q : nat) (pp : string).
Hypothesis I1 : INV s1.
Hypothesis Hc1 : par s1 c = None.
Hypothesis Wc : is_wf kindof c = false.
Hypothesis Cq : is_comp kindof q = true.
Hypothesis Dqc : q <> c.
Hypothesis NA1 : ~ anc s1 c q.
Hypothesis Hp1 : path pfuel s1 q = Some pp.

Let s2 := set_par s1 c (Some q).

Lemma tail_path : forall g, path g s2 q = path g s1 q.
Proof.
  intros g. apply path_ext_off with c; [|intros [E|A]; [congruence | contradiction]].
  intros m D. unfold s2; cbn. now destruct (Nat.eqb_spec m c).
Qed.

Lemma tail_unlisted : forall k, ~ In (k, c) (kids s1 q).
Proof. intros k. apply (inv_orphan_unlisted s1 c I1 Hc1). Qed.

Lemma assign_tail_ok f : in_dir kindof reserved s1 q (lbl s1 c) = false ->
  is_rec (snd (AC f s2 q c None None)) = true \/
  AC f s2 q c None None = (set_kids (set_lbl s2 c (lbl s1 c)) q (kids s1 q ++ [(lbl s1 c, c)]), Ok).
Proof.
  intros Hd. destruct (in_dir_false _ _ _ Hd) as [Rs Fr].
  assert (H2c : par s2 c = Some q) by (unfold s2; cbn; now rewrite Nat.eqb_refl).
  destruct f as [|f]; [left; reflexivity|].
  rewrite ac_S. unfold ac_body.
  destruct (cyc_child pfuel s1 s2 q c pp tail_path H2c Dqc Hp1) as [Ec|Ec]; rewrite Ec; [|left; reflexivity].
  rewrite H2c, Nat.eqb_refl. cbn [negb].
  change (lbl s2 c) with (lbl s1 c).
  change (already_here s2 q c (lbl s1 c)) with (already_here s1 q c (lbl s1 c)).
  rewrite (already_here_unlisted s1 q c _ I1 tail_unlisted).
  assert (Hu : unique_label kindof reserved pfuel s2 q (lbl s1 c) (strictof q) = inl (lbl s1 c)).
  { unfold unique_label. change (in_dir kindof reserved s2 q (lbl s1 c)) with (in_dir kindof reserved s1 q (lbl s1 c)).
    now rewrite Hd. }
  rewrite Hu, (inv_slash _ _ _ I1 c). cbn [oeqb]. rewrite Nat.eqb_refl, String.eqb_refl. cbn [negb andb].
  change (kids (set_lbl s2 c (lbl s1 c)) q) with (kids s1 q).
  assert (Hput : bd_put (lbl s1 c) c (kids s1 q) = inl (kids s1 q ++ [(lbl s1 c, c)])).
  { unfold bd_put. rewrite (proj2 (key_get_None _ (kids s1 q)) Fr).
    assert (Hv : val_key c (kids s1 q) = None).
    { apply val_key_None. intros H. apply in_map_iff in H. destruct H as [[k v] [E H]]. simpl in E; subst v.
      now apply tail_unlisted in H. }
    now rewrite Hv. }
  rewrite Hput.
  destruct f as [|f]; [left; reflexivity|].
  rewrite sp_S. unfold sp_body. rewrite Wc.
  cbn [lbl par kids strt set_lbl set_par set_kids set_strt]. unfold s2; cbn [par set_par].
  rewrite Nat.eqb_refl. cbn [oeqb]. rewrite Nat.eqb_refl. right; reflexivity.
Qed.

Lemma assign_tail_err f : in_dir kindof reserved s1 q (lbl s1 c) = true ->
  exists s' e, AC f s2 q c None None = (s', Err e).
Proof.
  intros Hd.
  assert (H2c : par s2 c = Some q) by (unfold s2; cbn; now rewrite Nat.eqb_refl).
  destruct f as [|f]; [now eexists; eexists|].
  rewrite ac_S. unfold ac_body.
  destruct (CYC s2 q c); [now eexists; eexists|].
  rewrite H2c, Nat.eqb_refl. cbn [negb].
  change (lbl s2 c) with (lbl s1 c).
  change (already_here s2 q c (lbl s1 c)) with (already_here s1 q c (lbl s1 c)).
  rewrite (already_here_unlisted s1 q c _ I1 tail_unlisted).
  unfold unique_label. change (in_dir kindof reserved s2 q (lbl s1 c)) with (in_dir kindof reserved s1 q (lbl s1 c)).
  rewrite Hd.
  destruct (mems (lbl s1 c) (child_labels s2 q)); [|now eexists; eexists].
  destruct (strictof q); [now eexists; eexists|].
  destruct (suffix kindof reserved pfuel s2 q (lbl s1 c) 0 (lbl s1 c)) as [l'|] eqn:Es; [|now eexists; eexists].
  apply suffix_fresh in Es. change (in_dir kindof reserved s2 q l') with (in_dir kindof reserved s1 q l') in Es.
  destruct (has_slash l'); [now eexists; eexists|].
  cbn [oeqb]. rewrite Nat.eqb_refl.
  destruct (String.eqb_spec l' (lbl s1 c)) as [E|D]; [congruence|]. cbn [negb andb].
  change (kids s2 q) with (kids s1 q).
  assert (Hv : val_mem c (kids s1 q) = false).
  { apply val_mem_false. intros H. apply in_map_iff in H. destruct H as [[k v] [E H]]. simpl in E; subst v.
    now apply tail_unlisted in H. }
  rewrite Hv. cbn [negb]. now eexists; eexists.
Qed.

Lemma assign_tail_inv : in_dir kindof reserved s1 q (lbl s1 c) = false ->
  INV (set_kids (set_lbl s2 c (lbl s1 c)) q (kids s1 q ++ [(lbl s1 c, c)])).
Proof.
  intros Hd. destruct (in_dir_false _ _ _ Hd) as [Rs Fr].
  apply Inv_same with (attach s1 q c (lbl s1 c)).
  - unfold attach, same, s2; cbn. repeat split; intros n; reflexivity.
  - apply inv_attach; try assumption.
    + now apply is_wf_false_not_wf.
    + now apply is_comp_not_leaf.
    + intros [E|A]; [congruence | contradiction].
    + apply (inv_slash _ _ _ I1).
Qed.
End Tail.

Lemma sp_some_top s c q f : INV s -> post_assign s c q (SP f s c (Some q)).
Proof.
  intros I. unfold post_assign.
  destruct f as [|f]; [left; reflexivity|].
  rewrite sp_S. unfold sp_body.
  destruct (is_wf kindof c) eqn:Wc; [right; right; reflexivity|].
  destruct (oeqb (Some q) (par s c)) eqn:Hq; [exact I|].
  destruct (is_comp kindof q) eqn:Cq; cbn [negb]; [|right; right; reflexivity].
  destruct (CYC s q c) as [e|] eqn:Hcy; [right; right; reflexivity|].
  destruct (cyclic_none _ _ _ _ Hcy) as (Dqc & NA & pp & pc & Hp & _ & _).
  (* the state after the release from the old parent *)
  assert (REL : forall s1, INV s1 -> par s1 c = None ->
            (forall m, m <> c -> par s1 m = par s m /\ lbl s1 m = lbl s m) -> lbl s1 c = lbl s c ->
            kids s1 q = kids s q ->
            match snd (AC f (set_par s1 c (Some q)) q c None None) with
            | Ok => INV (fst (AC f (set_par s1 c (Some q)) q c None None))
            | Skip => False
            | Err e => e = ERecursion \/ risky_assign kindof reserved s c q = true \/
                       fst (AC f (set_par s1 c (Some q)) q c None None) = s
            end).
  { intros s1 I1 Hc1 Hoff Hl1 Hk1.
    assert (NA1 : ~ anc s1 c q).
    { intros A. apply NA. apply (anc_transport s s1 c); [intros m D; now apply Hoff | assumption | assumption]. }
    assert (Hp1 : path pfuel s1 q = Some pp).
    { rewrite <- Hp. apply path_ext_off with c; [assumption|]. intros [E|A]; [congruence | contradiction]. }
    assert (Hd1 : in_dir kindof reserved s1 q (lbl s1 c) = in_dir kindof reserved s q (lbl s c)).
    { unfold in_dir. now rewrite Hk1, Hl1. }
    destruct (in_dir kindof reserved s q (lbl s c)) eqn:Hd.
    - destruct (assign_tail_err s1 c q I1 Hc1 Wc Cq f Hd1) as (s' & e & E). rewrite E. cbn [fst snd].
      right; left. unfold risky_assign. now rewrite Wc, Hq, Hd.
    - destruct (assign_tail_ok s1 c q pp I1 Hc1 Wc Dqc NA1 Hp1 f Hd1) as [H|H].
      + destruct (AC f (set_par s1 c (Some q)) q c None None) as [s' r']. cbn [fst snd] in *.
        destruct r' as [|[]|]; try discriminate. now left.
      + rewrite H. cbn [fst snd]. exact (assign_tail_inv s1 c q I1 Hc1 Wc Cq Dqc NA1 Hd1). }
  destruct (par s c) as [o|] eqn:Hc.
  - assert (Hin : In (lbl s c, c) (kids s o)) by (apply (inv_agree _ _ _ I); now split).
    assert (Hm : val_mem c (kids s o) = true) by (apply val_mem_true; now exists (lbl s c)).
    rewrite Hm.
    destruct (rc_listed s o _ c f I Hin) as [H|H].
    + destruct (RC f s o (inr c)) as [s1 r1]. simpl in H. destruct r1 as [|[]|]; try discriminate.
      cbn [snd]. now left.
    + rewrite H.
      assert (Dqo : q <> o) by (intros ->; cbn in Hq; now rewrite Nat.eqb_refl in Hq).
      apply REL.
      * now apply inv_detach with (lbl s c).
      * unfold detach; cbn. now rewrite Nat.eqb_refl.
      * intros m D. unfold detach; cbn. now destruct (Nat.eqb_spec m c).
      * reflexivity.
      * unfold detach; cbn. now destruct (Nat.eqb_spec q o).
  - apply REL; try assumption; try reflexivity. intros m D; now split.
Qed.

Lemma oeqb_eq a b : oeqb a b = true -> a = b.
Proof. destruct a, b; simpl; try discriminate; [intros H; apply Nat.eqb_eq in H; now subst | reflexivity]. Qed.

Lemma rp_top s p x r f : INV s -> is_comp kindof p = true ->
  (match (match x with inl l => key_get l (kids s p) | inr o => Some o end) with
   | Some o => risky_replace kindof pfuel s p o r
   | None => false
   end) = false ->
  post s (RP f s p x r).
Proof.
  intros I Cp Hr. unfold rp.
  destruct (match x with inl l => key_get l (kids s p) | inr o => Some o end) as [o|]; [|right; reflexivity].
  destruct (oeqb (par s o) (Some p)) eqn:Ho; cbn [negb]; [|right; reflexivity].
  destruct (oeqb (par s r) None) eqn:Hrp; cbn [negb]; [|right; reflexivity].
  apply oeqb_eq in Ho, Hrp.
  unfold risky_replace in Hr. apply orb_false_iff in Hr. destruct Hr as [Hr Hx].
  apply orb_false_iff in Hr. destruct Hr as [Wr Hcy].
  destruct (CYC s p r) as [e|] eqn:Ecy; [discriminate|]. clear Hcy.
  destruct (cyclic_none _ _ _ _ Ecy) as (Dpr & NA & pp & pr & Hp & _ & _).
  rewrite Hp in Hx.
  assert (Dro : r <> o) by (intros ->; congruence).
  assert (Hin : In (lbl s o, o) (kids s p)) by (apply (inv_agree _ _ _ I); now split).
  pose proof (inv_vals s p I) as NDv.
  destruct (rc_listed s p _ o f I Hin) as [H|H].
  { destruct (RC f s p (inr o)) as [s1 r1]. simpl in H. destruct r1 as [|[]|]; try discriminate.
    apply post_rec; reflexivity. }
  rewrite H. cbv beta iota zeta.
  set (s1 := detach s p o).
  assert (I1 : INV s1) by (now apply inv_detach with (lbl s o)).
  assert (H1r : par s1 r = None).
  { unfold s1, detach; cbn. destruct (Nat.eqb_spec r o); [reflexivity | assumption]. }
  assert (H1o : par s1 o = None) by (unfold s1, detach; cbn; now rewrite Nat.eqb_refl).
  change (lbl s1 o) with (lbl s o). change (lbl s1 r) with (lbl s r).
  set (s2 := set_lbl (set_lbl s1 r (lbl s o)) o (lbl s r)).
  assert (I2 : INV s2).
  { unfold s2. apply inv_set_lbl_orphan; [apply inv_set_lbl_orphan| |]; try assumption;
      apply (inv_slash _ _ _ I). }
  assert (H2r : par s2 r = None) by exact H1r.
  assert (H2l : lbl s2 r = lbl s o).
  { unfold s2; cbn. destruct (Nat.eqb_spec r o); [contradiction | now rewrite Nat.eqb_refl]. }
  assert (Hpath : forall g, path g s2 p = path g s p).
  { intros g. apply path_ext. intros m A.
    assert (m <> o) by (intros ->; now apply (inv_child_not_aos s p _ o I Hin)).
    assert (m <> r) by (intros ->; destruct A as [E|A]; [congruence | contradiction]).
    unfold s2, s1, detach; cbn.
    destruct (Nat.eqb_spec m o); [contradiction|]. destruct (Nat.eqb_spec m r); [contradiction|]. now split. }
  assert (Hcy2 : CYC s2 p r = None).
  { apply cyc_orphan with s pp; try assumption. now rewrite H2l. }
  assert (Hk2 : kids s2 p = val_pop o (kids s p)).
  { unfold s2, s1, detach; cbn. now rewrite Nat.eqb_refl. }
  assert (Fr : ~ In (lbl s o) (map fst (kids s2 p))).
  { rewrite Hk2. apply key_not_in_val_pop; [apply (inv_keys _ _ _ I) | assumption | assumption]. }
  assert (Rs : reserved (kindof p) (lbl s o) = false) by (apply (inv_reserved _ _ _ I p _ o Hin)).
  assert (Hu : unique_label kindof reserved pfuel s2 p (dflt None (lbl s2 r)) (dflt None (strictof p)) = inl (lbl s o)).
  { unfold unique_label, dflt. rewrite H2l. unfold in_dir. rewrite Rs.
    destruct (key_mem (lbl s o) (kids s2 p)) eqn:E; [apply key_mem_true in E; contradiction | reflexivity]. }
  assert (Hp2 : path pfuel s2 p = Some pp) by (now rewrite Hpath).
  destruct (ac_orphan s2 p r None None (lbl s o) pp f I2 Cp Wr H2r Hcy2 Hu (inv_slash _ _ _ I o) Hp2 Hx) as [H3|H3].
  { destruct (AC f s2 p r None None) as [s3 r3]. simpl in H3. destruct r3 as [|[]|]; try discriminate.
    apply post_rec; reflexivity. }
  rewrite H3.
  assert (I3 : INV (attach s2 p r (lbl s o))).
  { destruct (cyclic_none _ _ _ _ Hcy2) as (_ & NA2 & _).
    apply inv_attach; try assumption.
    - now apply is_wf_false_not_wf.
    - now apply is_comp_not_leaf.
    - intros [E|A]; [congruence | contradiction].
    - apply (inv_slash _ _ _ I). }
  unfold post. cbn [fst snd].
  destruct (memn o (strt s p)); [|exact I3].
  apply inv_start_append with (lbl s o); [exact I3 | |].
  - unfold attach; cbn. rewrite Nat.eqb_refl, in_app_iff. right. now left.
  - unfold attach, s2, s1, detach; cbn. rewrite Nat.eqb_refl.
    rewrite remove1_In by apply (inv_start_nodup _ _ _ I). intros [Hs _].
    destruct (inv_start _ _ _ I _ _ Hs) as [k Hk]. apply (inv_agree _ _ _ I) in Hk. destruct Hk; congruence.
Qed.

(* ---- every operation ----------------------------------------------------------------------------- *)
Notation STEP := (step kindof strictof reserved N pfuel).
Notation RISKY := (risky kindof strictof reserved pfuel).

Lemma post_of_assign s c q x : risky_assign kindof reserved s c q = false -> post_assign s c q x -> post s x.
Proof.
  unfold post_assign, post. intros Hr. destruct (snd x) as [|e|]; [auto | | contradiction].
  intros [H|[H|H]]; [now left | congruence | now right].
Qed.

Lemma step_post s o f : INV s -> RISKY s o = false -> post s (STEP f s o).
Proof.
  intros I Hr. destruct o as [p c lb sn | p k c | c l p | c np | p c | p l | p o r | p l r | p c]; cbn [step risky] in *.
  - destruct (is_comp kindof p) eqn:Cp; [|reflexivity]. now apply ac_top.
  - destruct (is_comp kindof p) eqn:Cp; cbn [negb andb] in *; [|reflexivity].
    destruct (is_comp kindof c && String.eqb k "parent") eqn:E1.
    { apply post_of_assign with p c; [assumption | now apply sp_some_top]. }
    destruct (is_comp kindof c && String.eqb k "_parent") eqn:E2; [reflexivity|].
    now apply (ac_top s p c (Some k) None).
  - destruct (fresh_ok kindof N s c && negb (p =? c) && negb (is_comp kindof c && negb (is_comp kindof p))) eqn:Fo;
      [|reflexivity].
    destruct (has_slash l) eqn:Sl; [right; reflexivity|].
    apply andb_true_iff in Fo. destruct Fo as [Fo _].
    apply andb_true_iff in Fo. destruct Fo as [Fo _]. unfold fresh_ok in Fo.
    apply andb_true_iff in Fo. destruct Fo as [Fo _]. apply andb_true_iff in Fo. destruct Fo as [Fo _].
    apply andb_true_iff in Fo. destruct Fo as [Fo _]. apply andb_true_iff in Fo. destruct Fo as [_ Hc].
    apply oeqb_eq in Hc.
    assert (I1 : INV (set_lbl s c l)) by (now apply inv_set_lbl_orphan).
    pose proof (sp_some_top (set_lbl s c l) c p f I1) as H. unfold post_assign in H.
    destruct (SP f (set_lbl s c l) c (Some p)) as [s1 r1]. cbn [fst snd] in H.
    destruct r1 as [|e|]; [exact H | right; reflexivity | contradiction].
  - destruct np as [q|]; [|now apply sp_none_top].
    destruct (is_comp kindof c && negb (is_comp kindof q)) eqn:E.
    + apply andb_true_iff in E. destruct E as [Cc _]. now apply (ac_top s c q (Some "parent"%string) None).
    + apply post_of_assign with c q; [assumption | now apply sp_some_top].
  - destruct (is_comp kindof p); [apply rc_top; assumption | reflexivity].
  - destruct (is_comp kindof p); [apply rc_top; assumption | reflexivity].
  - destruct (is_comp kindof p) eqn:Cp; [|reflexivity]. now apply rp_top.
  - destruct (is_comp kindof p) eqn:Cp; [|reflexivity]. now apply rp_top.
  - destruct (is_comp kindof p && val_mem c (kids s p) && negb (memn c (strt s p))) eqn:E; [|reflexivity].
    apply andb_true_iff in E. destruct E as [E E3]. apply andb_true_iff in E. destruct E as [_ E2].
    apply val_mem_true in E2. destruct E2 as [k Hk].
    unfold post; cbn [fst snd]. apply inv_start_append with k; [assumption | assumption |].
    intros H. apply memn_In in H. rewrite H in E3. discriminate.
Qed.

(* the invariant is preserved by every operation outside the guards (and within the fuel) *)
Theorem step_inv s o f : INV s -> RISKY s o = false -> is_rec (snd (STEP f s o)) = false ->
  INV (fst (STEP f s o)).
Proof.
  intros I Hr Hn. pose proof (step_post s o f I Hr) as H. unfold post in H.
  destruct (snd (STEP f s o)) as [|e|]; [assumption | | now rewrite H].
  destruct H as [H|H]; [subst e; discriminate | now rewrite H].
Qed.

(* a refused operation outside the guards changes nothing at all *)
Theorem step_noop s o f s' e : INV s -> RISKY s o = false -> STEP f s o = (s', Err e) -> e <> ERecursion ->
  s' = s.
Proof.
  intros I Hr E Hn. pose proof (step_post s o f I Hr) as H. unfold post in H. rewrite E in H. cbn [fst snd] in H.
  destruct H as [H|H]; [contradiction | assumption].
Qed.

Theorem run_inv f : forall ops s, INV s -> safe kindof strictof reserved N pfuel f s ops = true ->
  INV (run kindof strictof reserved N pfuel f s ops).
Proof.
  induction ops as [|o r IH]; intros s I Hs; simpl in *; [assumption|].
  apply andb_true_iff in Hs. destruct Hs as [Hs H3]. apply andb_true_iff in Hs. destruct Hs as [H1 H2].
  apply negb_true_iff in H1, H2. apply IH; [|assumption]. now apply step_inv.
Qed.

Lemma init_inv labels : (forall n, has_slash (labels n) = false) -> INV (init_state labels).
Proof.
  clear strictof N pfuel. intros H. constructor; unfold init_state; cbn; try tauto.
  - intros p k c. split; [contradiction | intros [E _]; discriminate].
  - constructor.
  - intros n. now apply rooted_root.
  - constructor.
Qed.

(* consequences spelled out: one owner, one label *)
Lemma inv_one_owner s p p' k k' c : INV s -> In (k, c) (kids s p) -> In (k', c) (kids s p') -> p = p' /\ k = k'.
Proof.
  intros I H1 H2. apply (inv_agree _ _ _ I) in H1, H2. destruct H1 as [A B], H2 as [A' B']. split; congruence.
Qed.
End Proofs.

(* ---- the guards are needed: witnesses (found by the correspondence check on the real code) ----- *)
Definition nores (k : kind) (l : string) : bool := false.
Definition kinds_of (ks : list kind) (n : nat) : kind := nth n ks Leaf.
Definition labels_of (ls : list string) (n : nat) : string := nth n ls ""%string.
Definition all_strict (n : nat) : bool := true.

Definition bad_agree (kindof : nat -> kind) (s : state) : Prop :=
  exists p k c, ~ (In (k, c) (kids s p) <-> (par s c = Some p /\ lbl s c = k)).

Lemma bad_agree_not_inv kindof reserved s : bad_agree kindof s -> ~ Inv kindof reserved s.
Proof. intros (p & k & c & H) I. apply H. apply (inv_agree _ _ _ I). Qed.

(* K1: c.parent = q where q already has a child labelled like c *)
Definition k1_kinds := kinds_of [Wf; Wf; Leaf; Leaf].
Definition k1_labels := labels_of ["p"; "q"; "a"; "a"]%string.
Definition k1_ops := [AddChild 0 2 None None; AddChild 1 3 None None; SetParent 2 (Some 1)].

Lemma k1_refuted :
  (forall n, has_slash (k1_labels n) = false) /\
  let s := run k1_kinds all_strict nores 4 10 10 (init_state k1_labels) k1_ops in
  snd (step k1_kinds all_strict nores 4 10 10
         (run k1_kinds all_strict nores 4 10 10 (init_state k1_labels) (firstn 2 k1_ops)) (SetParent 2 (Some 1)))
    = Err EAttribute /\
  par s 2 = Some 1 /\ kids s 1 = [("a"%string, 3)] /\ kids s 0 = [] /\
  ~ Inv k1_kinds nores s.
Proof.
  split; [intros n; do 5 (destruct n as [|n]; [reflexivity|]); reflexivity|].
  cbv zeta. repeat split; try (vm_compute; reflexivity).
  apply bad_agree_not_inv. exists 1, "a"%string, 2. vm_compute.
  intros [_ H]. destruct (H (conj eq_refl eq_refl)) as [E|[]]. discriminate E.
Qed.

(* K2: a workflow offered as a child *)
Definition k2_kinds := kinds_of [Macro; Wf].
Definition k2_labels := labels_of ["m"; "w"]%string.
Definition k2_ops := [AddChild 0 1 None None].

Lemma k2_refuted :
  (forall n, has_slash (k2_labels n) = false) /\
  let s := run k2_kinds all_strict nores 2 10 10 (init_state k2_labels) k2_ops in
  snd (step k2_kinds all_strict nores 2 10 10 (init_state k2_labels) (AddChild 0 1 None None)) = Err EParentMost /\
  kids s 0 = [("w"%string, 1)] /\ par s 1 = None /\
  ~ Inv k2_kinds nores s.
Proof.
  split; [intros n; do 3 (destruct n as [|n]; [reflexivity|]); reflexivity|].
  cbv zeta. repeat split; try (vm_compute; reflexivity).
  apply bad_agree_not_inv. exists 0, "w"%string, 1. vm_compute.
  intros [H _]. destruct (H (or_introl eq_refl)) as [E _]. discriminate E.
Qed.

(* K4: an orphan is re-labelled on adoption to the label of the adopting composite's root *)
Definition k4_kinds := kinds_of [Wf; Macro; Leaf].
Definition k4_labels := labels_of ["a"; "m"; "x"]%string.
Definition k4_ops := [AddChild 0 1 None None; AddChild 1 2 (Some "a"%string) None].

Lemma k4_refuted :
  (forall n, has_slash (k4_labels n) = false) /\
  let s := run k4_kinds all_strict nores 3 10 10 (init_state k4_labels) k4_ops in
  snd (step k4_kinds all_strict nores 3 10 10
         (run k4_kinds all_strict nores 3 10 10 (init_state k4_labels) (firstn 1 k4_ops))
         (AddChild 1 2 (Some "a"%string) None)) = Err ECyclic /\
  kids s 1 = [("a"%string, 2)] /\ par s 2 = None /\ lbl s 2 = "a"%string /\
  ~ Inv k4_kinds nores s.
Proof.
  split; [intros n; do 4 (destruct n as [|n]; [reflexivity|]); reflexivity|].
  cbv zeta. repeat split; try (vm_compute; reflexivity).
  apply bad_agree_not_inv. exists 1, "a"%string, 2. vm_compute.
  intros [H _]. destruct (H (or_introl eq_refl)) as [E _]. discriminate E.
Qed.

(* K3: replace_child removes the child and swaps the labels before add_child refuses *)
Definition k3_kinds := kinds_of [Macro; Macro; Macro].
Definition k3_labels := labels_of ["R"; "M"; "x"]%string.
Definition k3_ops := [AddChild 0 1 None None; AddChild 1 2 None None].

Lemma k3_refuted :
  (forall n, has_slash (k3_labels n) = false) /\
  let s := run k3_kinds all_strict nores 3 10 10 (init_state k3_labels) k3_ops in
  let x := step k3_kinds all_strict nores 3 10 10 s (ReplaceI 1 2 0) in
  Inv k3_kinds nores s /\ snd x = Err ECyclic /\
  par s 2 = Some 1 /\ par (fst x) 2 = None /\ lbl s 0 = "R"%string /\ lbl (fst x) 0 = "x"%string /\ fst x <> s.
Proof.
  assert (L : forall n, has_slash (k3_labels n) = false)
    by (intros n; do 4 (destruct n as [|n]; [reflexivity|]); reflexivity).
  split; [exact L|]. cbv zeta.
  split; [apply (run_inv k3_kinds all_strict nores 3 10 10 k3_ops (init_state k3_labels)); [apply init_inv; exact L | vm_compute; reflexivity]|].
  repeat split; try (vm_compute; reflexivity).
  intros E. apply (f_equal (fun s => par s 2)) in E. vm_compute in E. discriminate E.
Qed.

(* non-vacuity: a history with nesting, a move between parents, re-labelling, a replacement and
   five refused operations lies within the guards *)
Definition ex_kinds := kinds_of [Wf; Macro; Macro; Leaf; Leaf; Leaf; Wf].
Definition ex_labels := labels_of ["w"; "m"; "n"; "a"; "a"; "b"; "v"]%string.
Definition ex_strict (n : nat) : bool := negb (n =? 1).
Definition ex_res (k : kind) (l : string) : bool := mems l ["run"; "parent"; "inputs"]%string.
Definition ex_ops :=
  [ AddChild 0 1 None None;                 (* w/m *)
    NewNode 3 "a" 1;                        (* w/m/a built with parent= *)
    AddChild 1 4 None None;                 (* non-strict: second "a" becomes a0 *)
    SetAttr 0 "n" 2;                        (* w.n = macro *)
    AddChild 2 3 None None;                 (* refused: a belongs to m *)
    SetParent 3 (Some 2);                   (* moved from m to n *)
    AddChild 2 5 (Some "a"%string) (Some true);   (* refused: clash in n *)
    AddChild 2 5 (Some "run"%string) None;  (* refused: reserved *)
    SetParent 2 (Some 1);                   (* n moves below m *)
    SetParent 1 (Some 2);                   (* refused: cyclic *)
    SetParent 0 (Some 1);                   (* refused: workflow *)
    SetStart 2 3;
    ReplaceI 2 3 5;                         (* b takes a's place (and its starting status) *)
    AddChild 1 4 (Some "z"%string) None;    (* re-label through adoption *)
    RemoveL 1 "z";
    SetParent 2 None ].

Lemma ex_safe :
  let s := run ex_kinds ex_strict ex_res 7 20 12 (init_state ex_labels) ex_ops in
  (forall n, has_slash (ex_labels n) = false) /\
  safe ex_kinds ex_strict ex_res 7 20 12 (init_state ex_labels) ex_ops = true /\
  map (fun k => snd (step ex_kinds ex_strict ex_res 7 20 12
                       (run ex_kinds ex_strict ex_res 7 20 12 (init_state ex_labels) (firstn k ex_ops))
                       (nth k ex_ops (SetStart 0 0))))
      [4; 6; 7; 9; 10] = [Err EValue; Err EAttribute; Err EAttribute; Err ECyclic; Err EParentMost] /\
  kids s 0 = [("m", 1)]%string /\ kids s 1 = [] /\ kids s 2 = [("a", 5)]%string /\ strt s 2 = [5] /\
  par s 2 = None /\ lbl s 3 = "b"%string /\ par s 4 = None /\ lbl s 4 = "z"%string /\
  path 20 s 5 = Some "/n/a"%string.
Proof.
  cbv zeta. split; [intros n; do 8 (destruct n as [|n]; [reflexivity|]); reflexivity|].
  repeat split; vm_compute; reflexivity.
Qed.
