(* LexProofs.v -- proofs about Lex.v: the tree invariant is preserved by EVERY operation and a
   refused operation changes nothing, whatever the bounds of the model. *)
From PW Require Import Base Lex.
From Coq Require Import DecimalString Ascii.
Open Scope nat_scope.

(* ---- strings ------------------------------------------------------------------------ *)
Lemma has_slash_app a b : has_slash (a +++ b) = has_slash a || has_slash b.
Proof. induction a as [|x a IH]; simpl; [reflexivity | now rewrite IH, orb_assoc]. Qed.

Lemma has_slash_uint d : has_slash (NilEmpty.string_of_uint d) = false.
Proof. induction d; simpl; auto. Qed.

Lemma has_slash_nat_str i : has_slash (nat_str i) = false.
Proof. apply has_slash_uint. Qed.

(* ---- the bidict ----------------------------------------------------------------------- *)
Lemma key_get_In k c l : key_get k l = Some c -> In (k, c) l.
Proof.
  induction l as [|[k' v] r IH]; simpl; [discriminate|].
  destruct (String.eqb_spec k k'); intros H.
  - injection H as <-; subst; now left.
  - right; auto.
Qed.

Lemma In_key_get k c l : NoDup (map fst l) -> In (k, c) l -> key_get k l = Some c.
Proof.
  induction l as [|[k' v] r IH]; simpl; intros ND H; [contradiction|].
  inversion ND as [|? ? Hn ND']; subst.
  destruct H as [H|H].
  - injection H as -> ->. now rewrite String.eqb_refl.
  - destruct (String.eqb_spec k k'); [subst|auto].
    exfalso; apply Hn. change k' with (fst (k', c)). now apply in_map.
Qed.

Lemma key_get_None k l : key_get k l = None <-> ~ In k (map fst l).
Proof.
  induction l as [|[k' v] r IH]; simpl; [tauto|].
  destruct (String.eqb_spec k k'); [subst; split; [discriminate | tauto]|].
  rewrite IH. split; [intros H [E|E]; congruence | tauto].
Qed.

Lemma val_key_In k c l : val_key c l = Some k -> In (k, c) l.
Proof.
  induction l as [|[k' v] r IH]; simpl; [discriminate|].
  destruct (Nat.eqb_spec v c); intros H.
  - injection H as <-; subst; now left.
  - right; auto.
Qed.

Lemma val_key_None c l : val_key c l = None <-> ~ In c (map snd l).
Proof.
  induction l as [|[k' v] r IH]; simpl; [tauto|].
  destruct (Nat.eqb_spec v c); [subst; split; [discriminate | tauto]|].
  rewrite IH. split; [intros H [E|E]; congruence | tauto].
Qed.

Lemma val_mem_true c l : val_mem c l = true <-> exists k, In (k, c) l.
Proof.
  unfold val_mem. destruct (val_key c l) as [k|] eqn:E.
  - split; [intros _; exists k; now apply val_key_In | reflexivity].
  - split; [discriminate|]. intros [k H]. apply val_key_None in E. exfalso; apply E.
    change c with (snd (k, c)). now apply in_map.
Qed.

Lemma val_mem_false c l : val_mem c l = false <-> ~ In c (map snd l).
Proof.
  unfold val_mem. rewrite <- val_key_None. destruct (val_key c l); split; congruence.
Qed.

Lemma key_mem_true k l : key_mem k l = true <-> In k (map fst l).
Proof.
  unfold key_mem. destruct (key_get k l) as [c|] eqn:E.
  - split; [intros _|reflexivity]. apply key_get_In in E. change k with (fst (k, c)). now apply in_map.
  - apply key_get_None in E. split; [discriminate | contradiction].
Qed.

Lemma val_pop_In x c l : NoDup (map snd l) -> (In x (val_pop c l) <-> In x l /\ snd x <> c).
Proof.
  induction l as [|[k v] r IH]; simpl; intros ND; [tauto|].
  inversion ND as [|? ? Hn ND']; subst.
  destruct (Nat.eqb_spec v c).
  - subst. split.
    + intros H; split; [now right|]. intros E. apply Hn. rewrite <- E. now apply in_map.
    + intros [[H|H] Hx]; [subst; simpl in Hx; congruence | exact H].
  - simpl. rewrite IH by assumption. split.
    + intros [H|[H Hx]]; [subst; simpl; split; [now left | assumption] | split; [now right | assumption]].
    + intros [[H|H] Hx]; [now left | right; now split].
Qed.

Lemma key_pop_val_pop k c l : NoDup (map fst l) -> In (k, c) l -> key_pop k l = val_pop c l \/ ~ NoDup (map snd l).
Proof.
  induction l as [|[k' v] r IH]; simpl; intros ND H; [contradiction|].
  inversion ND as [|? ? Hn ND']; subst.
  destruct H as [H|H].
  - injection H as -> ->. rewrite String.eqb_refl, Nat.eqb_refl. now left.
  - destruct (String.eqb_spec k k').
    + subst. exfalso; apply Hn. change k' with (fst (k', c)). now apply in_map.
    + destruct (Nat.eqb_spec v c).
      * subst. right. intros ND2. inversion ND2 as [|? ? Hn2 _]; subst. apply Hn2.
        change c with (snd (k, c)). now apply in_map.
      * destruct (IH ND' H) as [E|E]; [left; now rewrite E|].
        right. intros ND2. inversion ND2; subst. auto.
Qed.

Lemma map_fst_val_pop c l : incl (map fst (val_pop c l)) (map fst l).
Proof.
  induction l as [|[k v] r IH]; simpl; [apply incl_refl|].
  destruct (v =? c); [apply incl_tl, incl_refl|].
  simpl. apply incl_cons; [now left | now apply incl_tl].
Qed.

Lemma NoDup_fst_val_pop c l : NoDup (map fst l) -> NoDup (map fst (val_pop c l)).
Proof.
  induction l as [|[k v] r IH]; simpl; intros ND; [constructor|].
  inversion ND as [|? ? Hn ND']; subst.
  destruct (v =? c); [assumption|]. simpl. constructor; [|auto].
  intros H. apply Hn. now apply (map_fst_val_pop c r).
Qed.

Lemma NoDup_app_one {A} (l : list A) x : NoDup l -> ~ In x l -> NoDup (l ++ [x]).
Proof.
  induction l as [|y r IH]; simpl; intros ND H; [constructor; [tauto | constructor]|].
  inversion ND; subst. constructor.
  - rewrite in_app_iff; simpl. intuition.
  - apply IH; tauto.
Qed.

Lemma remove1_In x y l : NoDup l -> (In x (remove1 Nat.eqb y l) <-> In x l /\ x <> y).
Proof.
  induction l as [|z r IH]; simpl; intros ND; [tauto|].
  inversion ND as [|? ? Hn ND']; subst.
  destruct (Nat.eqb_spec y z).
  - subst. split; [intros H; split; [now right | intros ->; contradiction] | intros [[H|H] Hx]; congruence].
  - simpl. rewrite IH by assumption. split.
    + intros [H|[H Hx]]; [subst; split; [now left | congruence] | split; [now right | assumption]].
    + intros [[H|H] Hx]; [now left | right; now split].
Qed.

Lemma NoDup_remove1 y l : NoDup l -> NoDup (remove1 Nat.eqb y l).
Proof.
  induction l as [|z r IH]; simpl; intros ND; [constructor|].
  inversion ND as [|? ? Hn ND']; subst.
  destruct (Nat.eqb_spec y z); [assumption|]. constructor; [|auto].
  rewrite remove1_In by assumption. tauto.
Qed.

(* ---- ancestors, paths, the cyclic test ---------------------------------------------------- *)
Inductive anc (s : state) (a : nat) : nat -> Prop :=
| anc_par n : par s n = Some a -> anc s a n
| anc_up n m : par s n = Some m -> anc s a m -> anc s a n.

Definition aos (s : state) (m n : nat) : Prop := m = n \/ anc s m n.

Lemma aos_up s m n p : par s n = Some p -> aos s m p -> anc s m n.
Proof. intros H [->|A]; [now apply anc_par | now apply anc_up with p]. Qed.

Lemma rooted_cut s s' c : par s' c = None -> (forall n, n <> c -> par s' n = par s n) ->
  forall n, rooted s n -> rooted s' n.
Proof.
  intros Hc Ho n R. induction R as [n Hn | n p Hn R IH].
  - destruct (Nat.eq_dec n c) as [->|D]; [now apply rooted_root|]. apply rooted_root. now rewrite Ho.
  - destruct (Nat.eq_dec n c) as [->|D]; [now apply rooted_root|].
    apply rooted_step with p; [now rewrite Ho | assumption].
Qed.

Lemma rooted_graft s s' c p : par s' c = Some p -> (forall n, n <> c -> par s' n = par s n) ->
  ~ aos s c p -> (forall n, rooted s n) -> forall n, rooted s' n.
Proof.
  intros Hc Ho NA R.
  assert (Rp : forall n, rooted s n -> ~ aos s c n -> rooted s' n).
  { intros n Rn. induction Rn as [n Hn | n q Hn Rq IH]; intros Na.
    - apply rooted_root. rewrite Ho; [assumption|]. intros ->. apply Na. now left.
    - apply rooted_step with q.
      + rewrite Ho; [assumption|]. intros ->. apply Na. now left.
      + apply IH. intros A. apply Na. right. now apply aos_up with q. }
  intros n. specialize (R n) as Rn. induction Rn as [n Hn | n q Hn Rq IH].
  - destruct (Nat.eq_dec n c) as [->|D].
    + apply rooted_step with p; [assumption | now apply Rp].
    + apply rooted_root. now rewrite Ho.
  - destruct (Nat.eq_dec n c) as [->|D].
    + apply rooted_step with p; [assumption | now apply Rp].
    + apply rooted_step with q; [now rewrite Ho | assumption].
Qed.

Lemma rooted_same_par s s' : (forall n, par s' n = par s n) -> forall n, rooted s n -> rooted s' n.
Proof.
  intros H n R. induction R as [n Hn | n p Hn R IH].
  - apply rooted_root. now rewrite H.
  - apply rooted_step with p; [now rewrite H | assumption].
Qed.

Lemma anc_same_par s s' a : (forall n, par s' n = par s n) -> forall n, anc s a n -> anc s' a n.
Proof.
  intros H n A. induction A as [n Hn | n m Hn A IH].
  - apply anc_par. now rewrite H.
  - apply anc_up with m; [now rewrite H | assumption].
Qed.

(* a rooted node is not its own ancestor *)
Lemma anc_trans s a b c : anc s a b -> anc s b c -> anc s a c.
Proof.
  intros Hab Hbc. induction Hbc as [n Hn | n m Hn A IH].
  - now apply anc_up with b.
  - apply anc_up with m; [assumption | now apply IH].
Qed.

Lemma rooted_not_anc_self s n : rooted s n -> ~ anc s n n.
Proof.
  intros R. induction R as [n Hn | n p Hn R IH]; intros A.
  - inversion A; congruence.
  - apply IH. inversion A as [x Hx | x m Hx Am]; subst.
    + rewrite Hn in Hx. injection Hx as Hx. subst p. now apply anc_par.
    + rewrite Hn in Hx. injection Hx as Hx. subst m.
      apply anc_trans with n; [now apply anc_par | assumption].
Qed.

Lemma NoDup_snd_of_fst (l : bd) : NoDup (map fst l) ->
  (forall k k' c, In (k, c) l -> In (k', c) l -> k = k') -> NoDup (map snd l).
Proof.
  induction l as [|[k v] r IH]; simpl; intros ND H; [constructor|].
  inversion ND as [|? ? Hn ND']; subst. constructor.
  - intros Hv. apply in_map_iff in Hv. destruct Hv as [[k' v'] [E Hin]]. simpl in E; subst v'.
    assert (k = k') by (apply (H k k' v); [now left | now right]). subst k'.
    apply Hn. change k with (fst (k, v)). now apply in_map.
  - apply IH; [assumption|]. intros a b c Ha Hb. apply (H a b c); now right.
Qed.

Lemma anc_transport s s1 c : (forall m, m <> c -> par s1 m = par s m) -> par s1 c = None ->
  forall q, anc s1 c q -> anc s c q.
Proof.
  intros H Hc q A. induction A as [n Hn | n m Hn A IH].
  - apply anc_par. rewrite <- H; [assumption|]. intros ->. congruence.
  - apply anc_up with m; [|assumption]. rewrite <- H; [assumption|]. intros ->. congruence.
Qed.


(* ---- the cyclic test: a walk up the parent pointers ------------------------------------------ *)
Definition aos_opt (s : state) (m : nat) (a : option nat) : Prop :=
  match a with Some x => aos s m x | None => False end.

Lemma walk_ext s s' c : forall g a,
  (forall m, aos_opt s m a -> par s' m = par s m) -> walk g s' a c = walk g s a c.
Proof.
  induction g as [|g IH]; intros [x|] H; simpl; try reflexivity.
  destruct (x =? c); [reflexivity|].
  rewrite (H x (or_introl eq_refl)). apply IH.
  intros m A. apply H. destruct (par s x) as [y|] eqn:E; [|contradiction].
  right. now apply aos_up with y.
Qed.

Lemma walk_false_not_aos s c : forall g p, walk g s (Some p) c = Some false -> ~ aos s c p.
Proof.
  induction g as [|g IH]; intros p H; simpl in H; [discriminate|].
  destruct (Nat.eqb_spec p c) as [E0|D]; [discriminate H|].
  intros [E|A]; [congruence|].
  destruct (par s p) as [m|] eqn:Ep.
  - apply (IH m H). inversion A as [n Hn | n m' Hn Am]; subst.
    + left. congruence.
    + right. congruence.
  - inversion A; congruence.
Qed.

Lemma cyclic_none pf s p c : cyclic pf s (Some p) c = None -> p <> c /\ ~ anc s c p.
Proof.
  unfold cyclic. destruct (walk pf s (Some p) c) as [[|]|] eqn:E; try discriminate. intros _.
  apply walk_false_not_aos in E. split; intros H; apply E; [left; congruence | now right].
Qed.

Lemma cyclic_root pf s c : cyclic pf s None c = None.
Proof. unfold cyclic. now destruct pf. Qed.

(* under a well-founded parent chain the walk ends: enough fuel exists for every start *)
Lemma walk_terminates s c x : rooted s x -> exists g0, forall g, g0 <= g -> walk g s (Some x) c <> None.
Proof.
  induction 1 as [n Hn | n p Hn R [g0 IH]].
  - exists 1. intros [|g] L; [lia|]. simpl. rewrite Hn. destruct (n =? c); [discriminate | now destruct g].
  - exists (S g0). intros [|g] L; [lia|]. simpl. rewrite Hn. destruct (n =? c); [discriminate|].
    apply IH. lia.
Qed.

Lemma cyclic_ext pf s s' p c : (forall m, aos s m p -> par s' m = par s m) ->
  cyclic pf s' (Some p) c = cyclic pf s (Some p) c.
Proof. intros H. unfold cyclic. now rewrite (walk_ext s s' c pf (Some p) H). Qed.

Section Proofs.
Variable kindof : nat -> kind.
Variable strictof : nat -> bool.
Variable reserved : kind -> string -> bool.
Variable N : nat.
Variable pfuel : nat.

Notation INV := (Inv kindof reserved).

Lemma inv_vals s p : INV s -> NoDup (map snd (kids s p)).
Proof.
  intros I. apply NoDup_snd_of_fst; [apply (inv_keys _ _ _ I)|].
  intros k k' c H1 H2. apply (inv_agree _ _ _ I) in H1, H2. destruct H1, H2; congruence.
Qed.

Lemma inv_listed_comp s p k c : INV s -> In (k, c) (kids s p) -> kindof p <> Leaf.
Proof. intros I H E. destruct (inv_leaf _ _ _ I p E) as [K _]. rewrite K in H. contradiction. Qed.

Lemma inv_child_not_aos s p k c : INV s -> In (k, c) (kids s p) -> ~ aos s c p.
Proof.
  intros I H A. apply (inv_agree _ _ _ I) in H. destruct H as [Hp _].
  apply (rooted_not_anc_self s c (inv_rooted _ _ _ I c)).
  destruct A as [->|A]; [now apply anc_par | now apply anc_up with p].
Qed.

Lemma inv_orphan_unlisted s c : INV s -> par s c = None -> forall p k, ~ In (k, c) (kids s p).
Proof. intros I H p k Hin. apply (inv_agree _ _ _ I) in Hin. destruct Hin; congruence. Qed.

Definition same (s s' : state) : Prop :=
  (forall n, lbl s n = lbl s' n) /\ (forall n, par s n = par s' n) /\
  (forall n, kids s n = kids s' n) /\ (forall n, strt s n = strt s' n).

Lemma Inv_same s s' : same s s' -> INV s -> INV s'.
Proof.
  intros (L & P & K & S) I. constructor.
  - intros p k c. rewrite <- K, <- P, <- L. apply (inv_agree _ _ _ I).
  - intros p. rewrite <- K. apply (inv_keys _ _ _ I).
  - intros p k c. rewrite <- K. apply (inv_reserved _ _ _ I).
  - intros n. apply rooted_same_par with s; [intros m; now rewrite P | apply (inv_rooted _ _ _ I)].
  - intros n. rewrite <- P. apply (inv_wf _ _ _ I).
  - intros p c. rewrite <- S, <- K. apply (inv_start _ _ _ I).
  - intros p. rewrite <- S. apply (inv_start_nodup _ _ _ I).
  - intros p. rewrite <- K, <- S. apply (inv_leaf _ _ _ I).
  - intros n. rewrite <- L. apply (inv_slash _ _ _ I).
Qed.

Lemma same_refl s : same s s.
Proof. repeat split. Qed.

Lemma same_sym s s' : same s s' -> same s' s.
Proof. intros (L & P & K & S). repeat split; intros; symmetry; auto. Qed.

Lemma same_trans s s' s'' : same s s' -> same s' s'' -> same s s''.
Proof. intros (L & P & K & S) (L' & P' & K' & S'). repeat split; intros; etransitivity; eauto. Qed.

(* ---- the four state transformers the operations perform ---------------------------------- *)
Definition detach (s : state) (p c : nat) : state :=
  set_strt (set_par (set_kids s p (val_pop c (kids s p))) c None) p (remove1 Nat.eqb c (strt s p)).

Definition attach (s : state) (p c : nat) (l : string) : state :=
  set_par (set_kids (set_lbl s c l) p (kids s p ++ [(l, c)])) c (Some p).

Definition relabel (s : state) (p c : nat) (l : string) : state :=
  set_kids (set_lbl s c l) p (val_pop c (kids s p) ++ [(l, c)]).

Lemma inv_detach s p k c : INV s -> In (k, c) (kids s p) -> INV (detach s p c).
Proof.
  intros I Hin. pose proof (inv_vals s p I) as NDv.
  pose proof (proj1 (inv_agree _ _ _ I p k c) Hin) as [Hpc Hlc].
  constructor; unfold detach; cbn [lbl par kids strt set_lbl set_par set_kids set_strt].
  - intros p' k' c'. destruct (Nat.eqb_spec p' p) as [->|Dp].
    + rewrite val_pop_In by assumption. simpl. rewrite (inv_agree _ _ _ I).
      destruct (Nat.eqb_spec c' c) as [->|Dc]; [split; [tauto | intros [? _]; discriminate] | tauto].
    + rewrite (inv_agree _ _ _ I).
      destruct (Nat.eqb_spec c' c) as [->|Dc]; [|tauto].
      split; [intros [? _]; congruence | intros [? _]; discriminate].
  - intros p'. destruct (Nat.eqb_spec p' p) as [->|Dp]; [apply NoDup_fst_val_pop|]; apply (inv_keys _ _ _ I).
  - intros p' k' c'. destruct (Nat.eqb_spec p' p) as [->|Dp].
    + rewrite val_pop_In by assumption. intros [H _]. now apply (inv_reserved _ _ _ I) in H.
    + apply (inv_reserved _ _ _ I).
  - intros n. apply rooted_cut with s c; cbn; [now rewrite Nat.eqb_refl | | apply (inv_rooted _ _ _ I)].
    intros m D. now destruct (Nat.eqb_spec m c).
  - intros n W. destruct (Nat.eqb_spec n c); [reflexivity | now apply (inv_wf _ _ _ I)].
  - intros p' c'. destruct (Nat.eqb_spec p' p) as [->|Dp].
    + rewrite remove1_In by apply (inv_start_nodup _ _ _ I). intros [H D].
      destruct (inv_start _ _ _ I _ _ H) as [k' Hk]. exists k'. rewrite val_pop_In by assumption. now split.
    + apply (inv_start _ _ _ I).
  - intros p'. destruct (Nat.eqb_spec p' p) as [->|Dp]; [apply NoDup_remove1|]; apply (inv_start_nodup _ _ _ I).
  - intros p' L. destruct (inv_leaf _ _ _ I p' L) as [K S].
    destruct (Nat.eqb_spec p' p) as [->|Dp]; [rewrite K in Hin; contradiction | now split].
  - apply (inv_slash _ _ _ I).
Qed.

Lemma inv_attach s p c l : INV s -> par s c = None -> kindof c <> Wf -> kindof p <> Leaf ->
  ~ aos s c p -> ~ In l (map fst (kids s p)) -> reserved (kindof p) l = false -> has_slash l = false ->
  INV (attach s p c l).
Proof.
  intros I Hc Wc Lp NA Fr Rs Sl.
  pose proof (inv_orphan_unlisted s c I Hc) as Un.
  constructor; unfold attach; cbn [lbl par kids strt set_lbl set_par set_kids set_strt].
  - intros p' k' c'. destruct (Nat.eqb_spec p' p) as [->|Dp].
    + rewrite in_app_iff. simpl. destruct (Nat.eqb_spec c' c) as [->|Dc].
      * split; [intros [H|[H|[]]]; [now apply Un in H | injection H as ->; now split] | intros [_ ->]; right; now left].
      * rewrite (inv_agree _ _ _ I). split; [intros [H|[H|[]]]; [assumption | congruence] | now left].
    + destruct (Nat.eqb_spec c' c) as [->|Dc].
      * split; [intros H; now apply Un in H | intros [H _]; congruence].
      * apply (inv_agree _ _ _ I).
  - intros p'. destruct (Nat.eqb_spec p' p) as [->|Dp]; [|apply (inv_keys _ _ _ I)].
    rewrite map_app. simpl. apply NoDup_app_one; [apply (inv_keys _ _ _ I) | assumption].
  - intros p' k' c'. destruct (Nat.eqb_spec p' p) as [->|Dp]; [|apply (inv_reserved _ _ _ I)].
    rewrite in_app_iff. simpl. intros [H|[H|[]]]; [now apply (inv_reserved _ _ _ I) in H | now injection H as <- _].
  - apply rooted_graft with s c p; cbn; [now rewrite Nat.eqb_refl | | assumption | apply (inv_rooted _ _ _ I)].
    intros m D. now destruct (Nat.eqb_spec m c).
  - intros n W. destruct (Nat.eqb_spec n c) as [->|D]; [contradiction | now apply (inv_wf _ _ _ I)].
  - intros p' c' H. destruct (inv_start _ _ _ I _ _ H) as [k' Hk]. exists k'.
    destruct (Nat.eqb_spec p' p) as [->|Dp]; [rewrite in_app_iff; now left | assumption].
  - apply (inv_start_nodup _ _ _ I).
  - intros p' L. destruct (inv_leaf _ _ _ I p' L) as [K S].
    destruct (Nat.eqb_spec p' p) as [->|Dp]; [contradiction | now split].
  - intros n. destruct (Nat.eqb_spec n c); [assumption | apply (inv_slash _ _ _ I)].
Qed.

Lemma inv_relabel s p k c l : INV s -> In (k, c) (kids s p) ->
  ~ In l (map fst (kids s p)) -> reserved (kindof p) l = false -> has_slash l = false ->
  INV (relabel s p c l).
Proof.
  intros I Hin Fr Rs Sl. pose proof (inv_vals s p I) as NDv.
  pose proof (proj1 (inv_agree _ _ _ I p k c) Hin) as [Hpc Hlc].
  constructor; unfold relabel; cbn [lbl par kids strt set_lbl set_par set_kids set_strt].
  - intros p' k' c'. destruct (Nat.eqb_spec p' p) as [->|Dp].
    + rewrite in_app_iff, val_pop_In by assumption. simpl. destruct (Nat.eqb_spec c' c) as [->|Dc].
      * split; [intros [[_ H]|[H|[]]]; [congruence | injection H as ->; now split] | intros [_ ->]; right; now left].
      * rewrite (inv_agree _ _ _ I). split; [intros [[H _]|[H|[]]]; [assumption | congruence] | intros H; left; now split].
    + rewrite (inv_agree _ _ _ I). destruct (Nat.eqb_spec c' c) as [->|Dc]; [|tauto].
      split; intros [H _]; congruence.
  - intros p'. destruct (Nat.eqb_spec p' p) as [->|Dp]; [|apply (inv_keys _ _ _ I)].
    rewrite map_app. simpl. apply NoDup_app_one; [apply NoDup_fst_val_pop, (inv_keys _ _ _ I)|].
    intros H. apply Fr. now apply (map_fst_val_pop c).
  - intros p' k' c'. destruct (Nat.eqb_spec p' p) as [->|Dp]; [|apply (inv_reserved _ _ _ I)].
    rewrite in_app_iff, val_pop_In by assumption. simpl.
    intros [[H _]|[H|[]]]; [now apply (inv_reserved _ _ _ I) in H | now injection H as <- _].
  - intros n. apply rooted_same_par with s; [reflexivity | apply (inv_rooted _ _ _ I)].
  - apply (inv_wf _ _ _ I).
  - intros p' c' H. destruct (inv_start _ _ _ I _ _ H) as [k' Hk].
    destruct (Nat.eqb_spec p' p) as [->|Dp]; [|now exists k'].
    destruct (Nat.eq_dec c' c) as [->|Dc].
    + exists l. rewrite in_app_iff. right. now left.
    + exists k'. rewrite in_app_iff, val_pop_In by assumption. left. now split.
  - apply (inv_start_nodup _ _ _ I).
  - intros p' L. destruct (inv_leaf _ _ _ I p' L) as [K S].
    destruct (Nat.eqb_spec p' p) as [->|Dp]; [rewrite K in Hin; contradiction | now split].
  - intros n. destruct (Nat.eqb_spec n c); [assumption | apply (inv_slash _ _ _ I)].
Qed.

Lemma inv_set_lbl_orphan s a l : INV s -> par s a = None -> has_slash l = false -> INV (set_lbl s a l).
Proof.
  intros I Ha Sl. pose proof (inv_orphan_unlisted s a I Ha) as Un.
  constructor; cbn [lbl par kids strt set_lbl].
  - intros p k c. destruct (Nat.eqb_spec c a) as [->|D]; [|apply (inv_agree _ _ _ I)].
    split; [intros H; now apply Un in H | intros [H _]; congruence].
  - apply (inv_keys _ _ _ I).
  - apply (inv_reserved _ _ _ I).
  - intros n. apply rooted_same_par with s; [reflexivity | apply (inv_rooted _ _ _ I)].
  - apply (inv_wf _ _ _ I).
  - apply (inv_start _ _ _ I).
  - apply (inv_start_nodup _ _ _ I).
  - apply (inv_leaf _ _ _ I).
  - intros n. destruct (Nat.eqb_spec n a); [assumption | apply (inv_slash _ _ _ I)].
Qed.

Lemma inv_start_append s p k c : INV s -> In (k, c) (kids s p) -> ~ In c (strt s p) ->
  INV (set_strt s p (strt s p ++ [c])).
Proof.
  intros I Hin Nin. constructor; cbn [lbl par kids strt set_strt].
  - apply (inv_agree _ _ _ I).
  - apply (inv_keys _ _ _ I).
  - apply (inv_reserved _ _ _ I).
  - intros n. apply rooted_same_par with s; [reflexivity | apply (inv_rooted _ _ _ I)].
  - apply (inv_wf _ _ _ I).
  - intros p' c'. destruct (Nat.eqb_spec p' p) as [->|Dp]; [|apply (inv_start _ _ _ I)].
    rewrite in_app_iff. simpl. intros [H|[<-|[]]]; [now apply (inv_start _ _ _ I) | now exists k].
  - intros p'. destruct (Nat.eqb_spec p' p) as [->|Dp]; [|apply (inv_start_nodup _ _ _ I)].
    apply NoDup_app_one; [apply (inv_start_nodup _ _ _ I) | assumption].
  - intros p' L. destruct (inv_leaf _ _ _ I p' L) as [K S].
    destruct (Nat.eqb_spec p' p) as [->|Dp]; [rewrite K in Hin; contradiction | now split].
  - apply (inv_slash _ _ _ I).
Qed.




(* ---- executions ---------------------------------------------------------------------------- *)
Notation SP := (sp kindof strictof reserved pfuel).
Notation AC := (ac kindof strictof reserved pfuel).
Notation RC := (rc kindof strictof reserved pfuel).
Notation RP := (rp kindof strictof reserved pfuel).
Notation CYC := (cyclic pfuel).
Notation UL := (unique_label kindof reserved pfuel).

Lemma sp_S f s c np : SP (S f) s c np = sp_body kindof strictof reserved pfuel (RC f) (AC f) s c np.
Proof. reflexivity. Qed.
Lemma ac_S f s p c lb sn : AC (S f) s p c lb sn = ac_body kindof strictof reserved pfuel (SP f) s p c lb sn.
Proof. reflexivity. Qed.
Lemma rc_S f s p x : RC (S f) s p x = rc_body (SP f) s p x.
Proof. reflexivity. Qed.

Lemma val_mem_val_pop c l : NoDup (map snd l) -> val_mem c (val_pop c l) = false.
Proof.
  intros ND. apply val_mem_false. intros H. apply in_map_iff in H. destruct H as [[k v] [E H]].
  simpl in E; subst v. apply val_pop_In in H; [|assumption]. destruct H as [_ H]. now apply H.
Qed.

Lemma key_not_in_val_pop k c l : NoDup (map fst l) -> NoDup (map snd l) -> In (k, c) l ->
  ~ In k (map fst (val_pop c l)).
Proof.
  intros NDk NDv H Hk. apply in_map_iff in Hk. destruct Hk as [[k' v] [E Hv]]. simpl in E; subst k'.
  apply val_pop_In in Hv; [|assumption]. destruct Hv as [Hv D]. simpl in D.
  apply (In_key_get _ _ _ NDk) in H, Hv. congruence.
Qed.

Lemma wf_of_par s c p : INV s -> par s c = Some p -> is_wf kindof c = false.
Proof.
  intros I H. unfold is_wf. destruct (kindof c) eqn:E; try reflexivity.
  rewrite (inv_wf _ _ _ I c E) in H. discriminate.
Qed.

Lemma is_comp_not_leaf p : is_comp kindof p = true -> kindof p <> Leaf.
Proof. unfold is_comp. destruct (kindof p); congruence. Qed.

Lemma is_wf_false_not_wf c : is_wf kindof c = false -> kindof c <> Wf.
Proof. unfold is_wf. destruct (kindof c); congruence. Qed.

Lemma child_labels_keys s p : INV s -> child_labels s p = map fst (kids s p).
Proof.
  intros I. unfold child_labels. apply map_ext_in. intros [k c] H. simpl.
  apply (inv_agree _ _ _ I) in H. now destruct H.
Qed.

Lemma mems_key_mem l ks : mems l (map fst ks) = key_mem l ks.
Proof.
  destruct (key_mem l ks) eqn:E.
  - apply mems_In. now apply key_mem_true.
  - destruct (mems l (map fst ks)) eqn:E2; [|reflexivity].
    apply mems_In, key_mem_true in E2. congruence.
Qed.

Lemma suffix_fresh g s p l : forall i cur x,
  suffix kindof reserved g s p l i cur = Some x -> in_dir kindof reserved s p x = false.
Proof.
  induction g as [|g IH]; intros i cur x; simpl; destruct (in_dir kindof reserved s p cur) eqn:E;
    try discriminate; try (intros H; injection H as <-; assumption).
  apply IH.
Qed.

Lemma unique_label_fresh s p l st l' :
  unique_label kindof reserved pfuel s p l st = inl l' -> in_dir kindof reserved s p l' = false.
Proof.
  unfold unique_label. destruct (in_dir kindof reserved s p l) eqn:E.
  - destruct (mems l (child_labels s p)); [|discriminate]. destruct st; [discriminate|].
    destruct (suffix kindof reserved pfuel s p l 0 l) as [x|] eqn:Es; [|discriminate].
    intros H; injection H as <-. now apply suffix_fresh in Es.
  - intros H; injection H as <-. assumption.
Qed.

Lemma in_dir_false s p l : in_dir kindof reserved s p l = false ->
  reserved (kindof p) l = false /\ ~ In l (map fst (kids s p)).
Proof.
  unfold in_dir. intros H. apply orb_false_iff in H. destruct H as [H1 H2]. split; [assumption|].
  intros H. apply key_mem_true in H. congruence.
Qed.

Lemma already_here_unlisted s p c l : INV s -> (forall k, ~ In (k, c) (kids s p)) ->
  already_here s p c l = inl false.
Proof.
  intros I Un. unfold already_here.
  destruct (String.eqb l (lbl s c) && mems l (child_labels s p)) eqn:E; [|reflexivity].
  apply andb_true_iff in E. destruct E as [_ E]. rewrite (child_labels_keys s p I), mems_key_mem in E.
  unfold key_mem in E. destruct (key_get l (kids s p)) as [v|] eqn:Ek; [|discriminate].
  apply key_get_In in Ek. destruct (Nat.eqb_spec v c) as [->|D]; [now apply Un in Ek | reflexivity].
Qed.

Lemma already_here_listed s p c : INV s -> In (lbl s c, c) (kids s p) -> already_here s p c (lbl s c) = inl true.
Proof.
  intros I H. unfold already_here. rewrite String.eqb_refl, (child_labels_keys s p I), mems_key_mem.
  unfold key_mem. rewrite (In_key_get _ _ _ (inv_keys _ _ _ I p) H). simpl. now rewrite Nat.eqb_refl.
Qed.

Definition dflt {A} (o : option A) (d : A) : A := match o with Some x => x | None => d end.


Lemma oeqb_eq a b : oeqb a b = true -> a = b.
Proof. destruct a, b; simpl; try discriminate; [intros H; apply Nat.eqb_eq in H; now subst | reflexivity]. Qed.

Lemma suffix_ext s s' p : kids s' p = kids s p -> forall g l i cur,
  suffix kindof reserved g s' p l i cur = suffix kindof reserved g s p l i cur.
Proof.
  intros K. induction g as [|g IH]; intros l i cur; simpl; unfold in_dir; rewrite K; [reflexivity|].
  now rewrite IH.
Qed.

Lemma unique_label_ext s s' p l st : kids s' p = kids s p -> (forall n, lbl s' n = lbl s n) ->
  UL s' p l st = UL s p l st.
Proof.
  intros K Lb. unfold unique_label, in_dir, child_labels. rewrite K, (suffix_ext s s' p K).
  replace (map (fun kc => lbl s' (snd kc)) (kids s p)) with (map (fun kc => lbl s (snd kc)) (kids s p));
    [reflexivity|]. apply map_ext. intros a. now rewrite Lb.
Qed.

Lemma suffix_slash g s p l : has_slash l = false -> forall i cur x, has_slash cur = false ->
  suffix kindof reserved g s p l i cur = Some x -> has_slash x = false.
Proof.
  intros Hl. induction g as [|g IH]; intros i cur x Hc; simpl; destruct (in_dir kindof reserved s p cur);
    try discriminate; try (intros H; injection H as <-; assumption).
  apply IH. now rewrite has_slash_app, Hl, has_slash_nat_str.
Qed.

Lemma unique_label_slash s p l st l' : UL s p l st = inl l' -> has_slash l = false -> has_slash l' = false.
Proof.
  unfold unique_label. destruct (in_dir kindof reserved s p l).
  - destruct (mems l (child_labels s p)); [|discriminate]. destruct st; [discriminate|].
    destruct (suffix kindof reserved pfuel s p l 0 l) as [x|] eqn:Es; [|discriminate].
    intros H Hl; injection H as <-. now apply (suffix_slash _ _ _ _ Hl _ _ _ Hl Es).
  - intros H; now injection H as <-.
Qed.

Lemma rc_listed s p k c f : INV s -> In (k, c) (kids s p) ->
  RC (S (S f)) s p (inr c) = (detach s p c, Ok).
Proof.
  intros I Hin. pose proof (inv_vals s p I) as NDv.
  pose proof (proj1 (inv_agree _ _ _ I p k c) Hin) as [Hpc Hlc].
  assert (Hm : val_mem c (kids s p) = true) by (apply val_mem_true; now exists k).
  rewrite rc_S. unfold rc_body. rewrite Hm, sp_S.
  unfold sp_body. rewrite (wf_of_par s c p I Hpc).
  cbn [lbl par kids strt set_lbl set_par set_kids set_strt]. rewrite Hpc. cbn [oeqb].
  rewrite cyclic_root, Nat.eqb_refl, (val_mem_val_pop c _ NDv). reflexivity.
Qed.

Lemma put_fresh l c ks : ~ In l (map fst ks) -> (forall k, ~ In (k, c) ks) -> bd_put l c ks = inl (ks ++ [(l, c)]).
Proof.
  intros Fr Un. unfold bd_put. rewrite (proj2 (key_get_None l ks) Fr).
  assert (Hv : val_key c ks = None).
  { apply val_key_None. intros H. apply in_map_iff in H. destruct H as [[k v] [E H]]. simpl in E; subst v.
    now apply Un in H. }
  now rewrite Hv.
Qed.

Lemma key_get_app_fresh l c ks : ~ In l (map fst ks) -> key_get l (ks ++ [(l, c)]) = Some c.
Proof.
  induction ks as [|[k v] r IH]; simpl; intros Fr.
  - now rewrite String.eqb_refl.
  - destruct (String.eqb_spec l k); [subst; tauto | apply IH; tauto].
Qed.

Lemma unlisted_val_mem c ks : (forall k, ~ In (k, c) ks) -> val_mem c ks = false.
Proof.
  intros Un. apply val_mem_false. intros H. apply in_map_iff in H. destruct H as [[k v] [E H]].
  simpl in E; subst v. now apply Un in H.
Qed.

(* adoption of an orphan: everything after the checks *)
Lemma ac_orphan s p c lb sn l' f :
  INV s -> is_comp kindof p = true -> is_wf kindof c = false -> par s c = None ->
  CYC s (Some p) c = None ->
  UL s p (dflt lb (lbl s c)) (dflt sn (strictof p)) = inl l' -> has_slash l' = false ->
  AC (S (S (S f))) s p c lb sn = (attach s p c l', Ok).
Proof.
  intros I Cp Wc Hc Hcy Hu Hs.
  pose proof (inv_orphan_unlisted s c I Hc) as Un.
  destruct (cyclic_none _ _ _ _ Hcy) as (Dpc & NA).
  destruct (in_dir_false _ _ _ (unique_label_fresh _ _ _ _ _ Hu)) as [Rs Fr].
  rewrite ac_S. unfold ac_body. rewrite Wc, Hcy, Hc.
  change (match lb with Some l => l | None => lbl s c end) with (dflt lb (lbl s c)).
  change (match sn with Some b => b | None => strictof p end) with (dflt sn (strictof p)).
  rewrite (already_here_unlisted s p c _ I (Un p)), Hu, Hs, (unlisted_val_mem c _ (Un p)).
  cbn [andb]. cbn [lbl par kids strt set_lbl set_par set_kids set_strt].
  rewrite (put_fresh l' c (kids s p) Fr (Un p)).
  set (s3 := set_kids (set_lbl s c l') p (kids s p ++ [(l', c)])).
  assert (H3c : par s3 c = None) by exact Hc.
  assert (Hk3 : kids s3 p = kids s p ++ [(l', c)]) by (unfold s3; cbn; now rewrite Nat.eqb_refl).
  rewrite sp_S. unfold sp_body. rewrite Wc, H3c. cbn [oeqb]. rewrite Cp. cbn [negb].
  rewrite (cyclic_ext pfuel s s3 p c) by reflexivity. rewrite Hcy.
  assert (Hm3 : val_mem c (kids s3 p) = true).
  { apply val_mem_true. exists l'. rewrite Hk3, in_app_iff. right. now left. }
  rewrite Hm3.
  set (s4 := set_par s3 c (Some p)).
  assert (H4c : par s4 c = Some p) by (unfold s4; cbn; now rewrite Nat.eqb_refl).
  rewrite ac_S. unfold ac_body. rewrite Wc.
  rewrite (cyclic_ext pfuel s s4 p c).
  2:{ intros m A. unfold s4, s3; cbn. destruct (Nat.eqb_spec m c) as [->|]; [|reflexivity].
      exfalso. destruct A as [E|A]; [congruence | contradiction]. }
  rewrite Hcy, H4c, Nat.eqb_refl. cbn [negb].
  assert (Hl4 : lbl s4 c = l') by (unfold s4, s3; cbn; now rewrite Nat.eqb_refl).
  assert (Hah : already_here s4 p c (lbl s4 c) = inl true).
  { unfold already_here. rewrite String.eqb_refl, Hl4.
    assert (Hk : kids s4 p = kids s p ++ [(l', c)]) by exact Hk3.
    rewrite Hk.
    assert (Hm : mems l' (child_labels s4 p) = true).
    { apply mems_In. unfold child_labels. rewrite Hk, map_app, in_app_iff. right. simpl. left. exact Hl4. }
    rewrite Hm. simpl. now rewrite (key_get_app_fresh l' c _ Fr), Nat.eqb_refl. }
  rewrite Hah. reflexivity.
Qed.

(* what an operation must establish: accepted => invariant; refused => nothing changed *)
Definition post (s : state) (x : state * result) : Prop :=
  match snd x with
  | Ok => INV (fst x)
  | Skip => fst x = s
  | Err e => fst x = s
  end.

Lemma ac_top s p c lb sn f : INV s -> is_comp kindof p = true -> 3 <= f -> post s (AC f s p c lb sn).
Proof.
  intros I Cp Hf. destruct f as [|[|[|f]]]; try (exfalso; lia). clear Hf.
  destruct (is_wf kindof c) eqn:Wc; [rewrite ac_S; unfold ac_body; rewrite Wc; reflexivity|].
  destruct (CYC s (Some p) c) as [e|] eqn:Hcy; [rewrite ac_S; unfold ac_body; rewrite Wc, Hcy; reflexivity|].
  destruct (par s c) as [o|] eqn:Hc.
  - (* c has a parent *)
    destruct (Nat.eqb_spec o p) as [->|D].
    2:{ rewrite ac_S; unfold ac_body. rewrite Wc, Hcy, Hc. apply Nat.eqb_neq in D. rewrite D. reflexivity. }
    assert (Hin : In (lbl s c, c) (kids s p)) by (apply (inv_agree _ _ _ I); now split).
    pose proof (inv_vals s p I) as NDv.
    rewrite ac_S; unfold ac_body. rewrite Wc, Hcy, Hc, Nat.eqb_refl. cbn [negb].
    change (match lb with Some l => l | None => lbl s c end) with (dflt lb (lbl s c)).
    change (match sn with Some b => b | None => strictof p end) with (dflt sn (strictof p)).
    destruct (already_here s p c (dflt lb (lbl s c))) as [[|]|e] eqn:Hah; [exact I | | reflexivity].
    destruct (UL s p (dflt lb (lbl s c)) (dflt sn (strictof p))) as [l'|e] eqn:Hu; [|reflexivity].
    destruct (has_slash l') eqn:Hs; [reflexivity|].
    destruct (in_dir_false _ _ _ (unique_label_fresh _ _ _ _ _ Hu)) as [Rs Fr].
    destruct (String.eqb_spec l' (lbl s c)) as [E|Dl].
    { exfalso. apply Fr. rewrite E. change (lbl s c) with (fst (lbl s c, c)). now apply in_map. }
    assert (Hm : val_mem c (kids s p) = true) by (apply val_mem_true; now exists (lbl s c)).
    rewrite Hm. cbn [negb andb]. cbn [lbl par kids strt set_lbl set_par set_kids set_strt]. rewrite Nat.eqb_refl.
    assert (Hput : bd_put l' c (val_pop c (kids s p)) = inl (val_pop c (kids s p) ++ [(l', c)])).
    { apply put_fresh.
      - intros H. apply Fr. now apply (map_fst_val_pop c).
      - intros k H. apply val_pop_In in H; [|assumption]. destruct H as [_ H]. now apply H. }
    rewrite Hput.
    rewrite sp_S. unfold sp_body. rewrite Wc.
    cbn [lbl par kids strt set_lbl set_par set_kids set_strt]. rewrite Hc. cbn [oeqb]. rewrite Nat.eqb_refl.
    unfold post. cbn [fst snd].
    apply Inv_same with (relabel s p c l'); [|now apply inv_relabel with (lbl s c)].
    unfold relabel, same; cbn. repeat split; intros n; try reflexivity.
    destruct (Nat.eqb_spec n p); reflexivity.
  - (* c is an orphan *)
    pose proof (inv_orphan_unlisted s c I Hc) as Un.
    destruct (UL s p (dflt lb (lbl s c)) (dflt sn (strictof p))) as [l'|e] eqn:Hu.
    2:{ rewrite ac_S; unfold ac_body. rewrite Wc, Hcy, Hc.
        change (match lb with Some l => l | None => lbl s c end) with (dflt lb (lbl s c)).
        change (match sn with Some b => b | None => strictof p end) with (dflt sn (strictof p)).
        rewrite (already_here_unlisted s p c _ I (Un p)), Hu. reflexivity. }
    destruct (has_slash l') eqn:Hs.
    { rewrite ac_S; unfold ac_body. rewrite Wc, Hcy, Hc.
      change (match lb with Some l => l | None => lbl s c end) with (dflt lb (lbl s c)).
      change (match sn with Some b => b | None => strictof p end) with (dflt sn (strictof p)).
      rewrite (already_here_unlisted s p c _ I (Un p)), Hu, Hs. reflexivity. }
    destruct (cyclic_none _ _ _ _ Hcy) as (Dpc & NA).
    destruct (in_dir_false _ _ _ (unique_label_fresh _ _ _ _ _ Hu)) as [Rs Fr].
    rewrite (ac_orphan s p c lb sn l' f I Cp Wc Hc Hcy Hu Hs).
    unfold post; cbn [fst snd].
    apply inv_attach; try assumption.
    + now apply is_wf_false_not_wf.
    + now apply is_comp_not_leaf.
    + intros [E|A]; [congruence | contradiction].
Qed.

Lemma sp_none_top s c f : INV s -> 3 <= f -> post s (SP f s c None).
Proof.
  intros I Hf. destruct f as [|[|[|f]]]; try (exfalso; lia). clear Hf.
  rewrite sp_S. unfold sp_body. destruct (is_wf kindof c); [exact I|].
  destruct (par s c) as [o|] eqn:Hc; cbn [oeqb]; [|exact I].
  assert (Hin : In (lbl s c, c) (kids s o)) by (apply (inv_agree _ _ _ I); now split).
  assert (Hm : val_mem c (kids s o) = true) by (apply val_mem_true; now exists (lbl s c)).
  rewrite cyclic_root, Hm, (rc_listed s o _ c f I Hin).
  unfold post; cbn [fst snd].
  apply Inv_same with (detach s o c); [|now apply inv_detach with (lbl s c)].
  unfold detach, same; cbn. repeat split; intros n; try reflexivity.
  destruct (Nat.eqb_spec n c); reflexivity.
Qed.

Lemma rc_top s p x f : INV s -> 2 <= f -> post s (RC f s p x).
Proof.
  intros I Hf. destruct f as [|[|f]]; try (exfalso; lia). clear Hf.
  assert (G : forall c, post s (RC (S (S f)) s p (inr c))).
  { intros c. destruct (val_mem c (kids s p)) eqn:Hm.
    - apply val_mem_true in Hm. destruct Hm as [k Hin].
      rewrite (rc_listed s p k c f I Hin). unfold post; cbn [fst snd]. now apply inv_detach with k.
    - rewrite rc_S. unfold rc_body. rewrite Hm. reflexivity. }
  destruct x as [l|c]; [|apply G].
  destruct (key_get l (kids s p)) as [c|] eqn:Hk.
  - assert (E : RC (S (S f)) s p (inl l) = RC (S (S f)) s p (inr c)).
    { rewrite !rc_S. unfold rc_body. rewrite Hk.
      pose proof (key_get_In _ _ _ Hk) as Hin.
      assert (Hm : val_mem c (kids s p) = true) by (apply val_mem_true; now exists l).
      rewrite Hm.
      destruct (key_pop_val_pop l c (kids s p) (inv_keys _ _ _ I p) Hin) as [->|H]; [reflexivity|].
      exfalso; apply H. now apply inv_vals. }
    rewrite E. apply G.
  - rewrite rc_S. unfold rc_body. rewrite Hk. reflexivity.
Qed.

(* ---- parent assignment: c.parent = q ---------------------------------------------------------- *)
(* the tail q.add_child(c) once c has been released and names q as its parent *)
Lemma assign_tail s1 c q l' f :
  INV s1 -> par s1 c = None -> is_wf kindof c = false -> is_comp kindof q = true ->
  CYC s1 (Some q) c = None -> UL s1 q (lbl s1 c) (strictof q) = inl l' ->
  let s2 := set_par s1 c (Some q) in
  let s3 := set_kids (set_lbl s2 c l') q (kids s1 q ++ [(l', c)]) in
  AC (S (S f)) s2 q c None None = (s3, Ok) /\ INV s3.
Proof.
  intros I1 Hc1 Wc Cq Hcy Hu s2 s3.
  pose proof (inv_orphan_unlisted s1 c I1 Hc1) as Un.
  destruct (cyclic_none _ _ _ _ Hcy) as (Dqc & NA).
  destruct (in_dir_false _ _ _ (unique_label_fresh _ _ _ _ _ Hu)) as [Rs Fr].
  pose proof (unique_label_slash _ _ _ _ _ Hu (inv_slash _ _ _ I1 c)) as Hs.
  assert (H2c : par s2 c = Some q) by (unfold s2; cbn; now rewrite Nat.eqb_refl).
  split.
  - rewrite ac_S. unfold ac_body. rewrite Wc.
    rewrite (cyclic_ext pfuel s1 s2 q c).
    2:{ intros m A. unfold s2; cbn. destruct (Nat.eqb_spec m c) as [->|]; [|reflexivity].
        exfalso. destruct A as [E|A]; [congruence | contradiction]. }
    rewrite Hcy, H2c, Nat.eqb_refl. cbn [negb].
    change (lbl s2 c) with (lbl s1 c).
    change (already_here s2 q c (lbl s1 c)) with (already_here s1 q c (lbl s1 c)).
    rewrite (already_here_unlisted s1 q c _ I1 (Un q)).
    rewrite (unique_label_ext s1 s2 q) by reflexivity. rewrite Hu, Hs.
    change (kids s2 q) with (kids s1 q). rewrite (unlisted_val_mem c _ (Un q)). cbn [andb].
    change (kids (set_lbl s2 c l') q) with (kids s1 q).
    rewrite (put_fresh l' c (kids s1 q) Fr (Un q)).
    rewrite sp_S. unfold sp_body. rewrite Wc.
    cbn [lbl par kids strt set_lbl set_par set_kids set_strt]. unfold s2; cbn [par set_par].
    rewrite Nat.eqb_refl. cbn [oeqb]. rewrite Nat.eqb_refl. reflexivity.
  - apply Inv_same with (attach s1 q c l').
    + unfold attach, same, s3, s2; cbn. repeat split; intros n; reflexivity.
    + apply inv_attach; try assumption.
      * now apply is_wf_false_not_wf.
      * now apply is_comp_not_leaf.
      * intros [E|A]; [congruence | contradiction].
Qed.

Lemma sp_some_top s c q f : INV s -> 4 <= f -> post s (SP f s c (Some q)).
Proof.
  intros I Hf. destruct f as [|[|[|[|f]]]]; try (exfalso; lia). clear Hf.
  rewrite sp_S. unfold sp_body.
  destruct (is_wf kindof c) eqn:Wc; [reflexivity|].
  destruct (oeqb (Some q) (par s c)) eqn:Hq; [exact I|].
  destruct (is_comp kindof q) eqn:Cq; cbn [negb]; [|reflexivity].
  destruct (CYC s (Some q) c) as [e|] eqn:Hcy; [reflexivity|].
  destruct (cyclic_none _ _ _ _ Hcy) as (Dqc & NA).
  assert (Hnq : par s c <> Some q) by (intros E; rewrite E in Hq; cbn in Hq; now rewrite Nat.eqb_refl in Hq).
  assert (Unq : forall k, ~ In (k, c) (kids s q)).
  { intros k H. apply (inv_agree _ _ _ I) in H. now destruct H. }
  rewrite (unlisted_val_mem c _ Unq).
  destruct (UL s q (lbl s c) (strictof q)) as [l'|e] eqn:Hu; [|reflexivity].
  (* the state after the release from the old parent *)
  assert (REL : forall s1, INV s1 -> par s1 c = None ->
            (forall m, m <> c -> par s1 m = par s m) -> (forall n, lbl s1 n = lbl s n) ->
            kids s1 q = kids s q ->
            post s (AC (S (S (S f))) (set_par s1 c (Some q)) q c None None)).
  { intros s1 I1 Hc1 Hoff Hl1 Hk1.
    assert (Hcy1 : CYC s1 (Some q) c = None).
    { rewrite (cyclic_ext pfuel s s1 q c); [assumption|].
      intros m A. apply Hoff. intros ->. destruct A as [E|A]; [congruence | contradiction]. }
    assert (Hu1 : UL s1 q (lbl s1 c) (strictof q) = inl l').
    { rewrite (unique_label_ext s s1 q _ _ Hk1 Hl1), Hl1. exact Hu. }
    destruct (assign_tail s1 c q l' (S f) I1 Hc1 Wc Cq Hcy1 Hu1) as [E I3].
    rewrite E. exact I3. }
  destruct (par s c) as [o|] eqn:Hc.
  - assert (Hin : In (lbl s c, c) (kids s o)) by (apply (inv_agree _ _ _ I); now split).
    assert (Hm : val_mem c (kids s o) = true) by (apply val_mem_true; now exists (lbl s c)).
    rewrite Hm, (rc_listed s o _ c (S f) I Hin).
    assert (Dqo : q <> o) by congruence.
    apply REL.
    + now apply inv_detach with (lbl s c).
    + unfold detach; cbn. now rewrite Nat.eqb_refl.
    + intros m D. unfold detach; cbn. now destruct (Nat.eqb_spec m c).
    + reflexivity.
    + unfold detach; cbn. now destruct (Nat.eqb_spec q o).
  - apply REL; try assumption; reflexivity.
Qed.

Lemma rp_top s p x r f : INV s -> is_comp kindof p = true -> 3 <= f -> post s (RP f s p x r).
Proof.
  intros I Cp Hf. destruct f as [|[|[|f]]]; try (exfalso; lia). clear Hf. unfold rp.
  destruct (match x with inl l => key_get l (kids s p) | inr o => Some o end) as [o|]; [|reflexivity].
  destruct (oeqb (par s o) (Some p)) eqn:Ho; cbn [negb]; [|reflexivity].
  destruct (oeqb (par s r) None) eqn:Hrp; cbn [negb]; [|reflexivity].
  apply oeqb_eq in Ho, Hrp.
  destruct (is_wf kindof r) eqn:Wr; [reflexivity|].
  destruct (CYC s (Some p) r) as [e|] eqn:Ecy; [reflexivity|].
  destruct (cyclic_none _ _ _ _ Ecy) as (Dpr & NA).
  assert (Dro : r <> o) by (intros ->; congruence).
  assert (Hin : In (lbl s o, o) (kids s p)) by (apply (inv_agree _ _ _ I); now split).
  pose proof (inv_vals s p I) as NDv.
  rewrite (rc_listed s p _ o (S f) I Hin). cbv beta iota zeta.
  set (s1 := detach s p o).
  assert (I1 : INV s1) by (now apply inv_detach with (lbl s o)).
  assert (H1r : par s1 r = None).
  { unfold s1, detach; cbn. destruct (Nat.eqb_spec r o); [reflexivity | assumption]. }
  assert (H1o : par s1 o = None) by (unfold s1, detach; cbn; now rewrite Nat.eqb_refl).
  change (lbl s1 o) with (lbl s o). change (lbl s1 r) with (lbl s r).
  set (s2 := set_lbl (set_lbl s1 r (lbl s o)) o (lbl s r)).
  assert (I2 : INV s2).
  { unfold s2. apply inv_set_lbl_orphan; [apply inv_set_lbl_orphan| |]; try assumption;
      apply (inv_slash _ _ _ I). }
  assert (H2r : par s2 r = None) by exact H1r.
  assert (H2l : lbl s2 r = lbl s o).
  { unfold s2; cbn. destruct (Nat.eqb_spec r o); [contradiction | now rewrite Nat.eqb_refl]. }
  assert (Hcy2 : CYC s2 (Some p) r = None).
  { rewrite (cyclic_ext pfuel s s2 p r); [assumption|].
    intros m A. unfold s2, s1, detach; cbn. destruct (Nat.eqb_spec m o) as [->|]; [|reflexivity].
    exfalso. now apply (inv_child_not_aos s p _ o I Hin). }
  assert (Hk2 : kids s2 p = val_pop o (kids s p)).
  { unfold s2, s1, detach; cbn. now rewrite Nat.eqb_refl. }
  assert (Fr : ~ In (lbl s o) (map fst (kids s2 p))).
  { rewrite Hk2. apply key_not_in_val_pop; [apply (inv_keys _ _ _ I) | assumption | assumption]. }
  assert (Rs : reserved (kindof p) (lbl s o) = false) by (apply (inv_reserved _ _ _ I p _ o Hin)).
  assert (Hu : UL s2 p (dflt None (lbl s2 r)) (dflt None (strictof p)) = inl (lbl s o)).
  { unfold unique_label, dflt. rewrite H2l. unfold in_dir. rewrite Rs.
    destruct (key_mem (lbl s o) (kids s2 p)) eqn:E; [apply key_mem_true in E; contradiction | reflexivity]. }
  rewrite (ac_orphan s2 p r None None (lbl s o) f I2 Cp Wr H2r Hcy2 Hu (inv_slash _ _ _ I o)).
  assert (I3 : INV (attach s2 p r (lbl s o))).
  { destruct (cyclic_none _ _ _ _ Hcy2) as (_ & NA2).
    apply inv_attach; try assumption.
    - now apply is_wf_false_not_wf.
    - now apply is_comp_not_leaf.
    - intros [E|A]; [congruence | contradiction].
    - apply (inv_slash _ _ _ I). }
  unfold post. cbn [fst snd].
  destruct (memn o (strt s p)); [|exact I3].
  apply inv_start_append with (lbl s o); [exact I3 | |].
  - unfold attach; cbn. rewrite Nat.eqb_refl, in_app_iff. right. now left.
  - unfold attach, s2, s1, detach; cbn. rewrite Nat.eqb_refl.
    rewrite remove1_In by apply (inv_start_nodup _ _ _ I). intros [Hs _].
    destruct (inv_start _ _ _ I _ _ Hs) as [k Hk]. apply (inv_agree _ _ _ I) in Hk. destruct Hk; congruence.
Qed.

(* ---- every operation ----------------------------------------------------------------------------- *)
Notation STEP := (step kindof strictof reserved N pfuel).

Lemma step_post s o f : INV s -> 4 <= f -> post s (STEP f s o).
Proof.
  intros I Hf. destruct o as [p c lb sn | p k c | c l p | c np | p c | p l | p o r | p l r | p c]; cbn [step].
  - destruct (is_comp kindof p) eqn:Cp; [|reflexivity]. apply ac_top; [assumption | assumption | lia].
  - destruct (is_comp kindof p) eqn:Cp; cbn [negb]; [|reflexivity].
    destruct (is_comp kindof c && String.eqb k "parent"); [now apply sp_some_top|].
    destruct (is_comp kindof c && String.eqb k "_parent"); [reflexivity|].
    apply ac_top; [assumption | assumption | lia].
  - destruct (fresh_ok kindof N s c && negb (p =? c) && negb (is_comp kindof c && negb (is_comp kindof p))) eqn:Fo;
      [|reflexivity].
    destruct (has_slash l) eqn:Sl; [reflexivity|].
    apply andb_true_iff in Fo. destruct Fo as [Fo _].
    apply andb_true_iff in Fo. destruct Fo as [Fo _]. unfold fresh_ok in Fo.
    apply andb_true_iff in Fo. destruct Fo as [Fo _]. apply andb_true_iff in Fo. destruct Fo as [Fo _].
    apply andb_true_iff in Fo. destruct Fo as [Fo _]. apply andb_true_iff in Fo. destruct Fo as [_ Hc].
    apply oeqb_eq in Hc.
    assert (I1 : INV (set_lbl s c l)) by (now apply inv_set_lbl_orphan).
    pose proof (sp_some_top (set_lbl s c l) c p f I1 Hf) as H. unfold post in H.
    destruct (SP f (set_lbl s c l) c (Some p)) as [s1 r1]. cbn [fst snd] in H.
    destruct r1 as [|e|]; [exact H | reflexivity | reflexivity].
  - destruct np as [q|]; [|apply sp_none_top; [assumption | lia]].
    destruct (is_comp kindof c && negb (is_comp kindof q)) eqn:E.
    + apply andb_true_iff in E. destruct E as [Cc _]. apply ac_top; [assumption | assumption | lia].
    + now apply sp_some_top.
  - destruct (is_comp kindof p); [apply rc_top; [assumption | lia] | reflexivity].
  - destruct (is_comp kindof p); [apply rc_top; [assumption | lia] | reflexivity].
  - destruct (is_comp kindof p) eqn:Cp; [|reflexivity]. apply rp_top; [assumption | assumption | lia].
  - destruct (is_comp kindof p) eqn:Cp; [|reflexivity]. apply rp_top; [assumption | assumption | lia].
  - destruct (is_comp kindof p && val_mem c (kids s p) && negb (memn c (strt s p))) eqn:E; [|reflexivity].
    apply andb_true_iff in E. destruct E as [E E3]. apply andb_true_iff in E. destruct E as [_ E2].
    apply val_mem_true in E2. destruct E2 as [k Hk].
    unfold post; cbn [fst snd]. apply inv_start_append with k; [assumption | assumption |].
    intros H. apply memn_In in H. rewrite H in E3. discriminate.
Qed.

(* the invariant is preserved by every operation, accepted or refused *)
Theorem step_inv s o f : INV s -> 4 <= f -> INV (fst (STEP f s o)).
Proof.
  intros I Hf. pose proof (step_post s o f I Hf) as H. unfold post in H.
  destruct (snd (STEP f s o)) as [|e|]; [assumption | now rewrite H | now rewrite H].
Qed.

(* a refused operation changes nothing at all *)
Theorem step_noop s o f s' e : INV s -> 4 <= f -> STEP f s o = (s', Err e) -> s' = s.
Proof.
  intros I Hf E. pose proof (step_post s o f I Hf) as H. unfold post in H. now rewrite E in H.
Qed.

Theorem run_inv f : 4 <= f -> forall ops s, INV s -> INV (run kindof strictof reserved N pfuel f s ops).
Proof.
  intros Hf. induction ops as [|o r IH]; intros s I; simpl; [assumption|].
  apply IH. now apply step_inv.
Qed.

Lemma init_inv labels : (forall n, has_slash (labels n) = false) -> INV (init_state labels).
Proof.
  clear strictof N pfuel. intros H. constructor; unfold init_state; cbn; try tauto.
  - intros p k c. split; [contradiction | intros [E _]; discriminate].
  - constructor.
  - intros n. now apply rooted_root.
  - constructor.
Qed.

(* consequences spelled out: one owner, one label *)
Lemma inv_one_owner s p p' k k' c : INV s -> In (k, c) (kids s p) -> In (k', c) (kids s p') -> p = p' /\ k = k'.
Proof.
  intros I H1 H2. apply (inv_agree _ _ _ I) in H1, H2. destruct H1 as [A B], H2 as [A' B']. split; congruence.
Qed.
End Proofs.

(* ---- concrete histories ------------------------------------------------------------------------ *)
Definition nores (k : kind) (l : string) : bool := false.
Definition kinds_of (ks : list kind) (n : nat) : kind := nth n ks Leaf.
Definition labels_of (ls : list string) (n : nat) : string := nth n ls ""%string.
Definition all_strict (n : nat) : bool := true.

(* the four situations in which the code violated the property before the fix commits
   (K1..K4 of the first round): now refused before anything is touched *)
Definition k1_kinds := kinds_of [Wf; Wf; Leaf; Leaf].
Definition k1_labels := labels_of ["p"; "q"; "a"; "a"]%string.
Definition k1_ops := [AddChild 0 2 None None; AddChild 1 3 None None; SetParent 2 (Some 1)].
Definition k2_kinds := kinds_of [Macro; Wf].
Definition k2_labels := labels_of ["m"; "w"]%string.
Definition k2_ops := [AddChild 0 1 None None].
Definition k3_kinds := kinds_of [Macro; Macro; Macro].
Definition k3_labels := labels_of ["R"; "M"; "x"]%string.
Definition k3_ops := [AddChild 0 1 None None; AddChild 1 2 None None; ReplaceI 1 2 0].
Definition k4_kinds := kinds_of [Wf; Macro; Leaf].
Definition k4_labels := labels_of ["a"; "m"; "x"]%string.
Definition k4_ops := [AddChild 0 1 None None; AddChild 1 2 (Some "a"%string) None].

Definition last_result kindof strictof res n (labels : nat -> string) (ops : list op) : result :=
  snd (step kindof strictof res n 10 10
         (run kindof strictof res n 10 10 (init_state labels) (removelast ops)) (last ops (SetStart 0 0))).

Lemma former_findings :
  (* K1: a.parent = q with a clash in q: refused, a stays in p *)
  (let s := run k1_kinds all_strict nores 4 10 10 (init_state k1_labels) k1_ops in
   last_result k1_kinds all_strict nores 4 k1_labels k1_ops = Err EAttribute /\
   par s 2 = Some 0 /\ kids s 0 = [("a"%string, 2)] /\ kids s 1 = [("a"%string, 3)]) /\
  (* K2: macro.add_child(workflow): refused, nothing listed *)
  (let s := run k2_kinds all_strict nores 2 10 10 (init_state k2_labels) k2_ops in
   last_result k2_kinds all_strict nores 2 k2_labels k2_ops = Err EParentMost /\ kids s 0 = []) /\
  (* K3: M.replace_child(x, R) with R the root of M: refused, x stays, labels kept *)
  (let s := run k3_kinds all_strict nores 3 10 10 (init_state k3_labels) k3_ops in
   last_result k3_kinds all_strict nores 3 k3_labels k3_ops = Err ECyclic /\
   kids s 1 = [("x"%string, 2)] /\ par s 2 = Some 1 /\ lbl s 0 = "R"%string) /\
  (* K4: m (inside workflow "a") adopts x under the label "a": accepted, no false positive *)
  (let s := run k4_kinds all_strict nores 3 10 10 (init_state k4_labels) k4_ops in
   last_result k4_kinds all_strict nores 3 k4_labels k4_ops = Ok /\
   kids s 1 = [("a"%string, 2)] /\ par s 2 = Some 1 /\ path 10 s 2 = Some "/a/m/a"%string).
Proof. cbv zeta. repeat split; vm_compute; reflexivity. Qed.

(* a history with nesting, a move between parents, suffixing, re-labelling, a replacement and
   five refused operations, and the tree it ends in *)
Definition ex_kinds := kinds_of [Wf; Macro; Macro; Leaf; Leaf; Leaf; Wf].
Definition ex_labels := labels_of ["w"; "m"; "n"; "a"; "a"; "b"; "v"]%string.
Definition ex_strict (n : nat) : bool := negb (n =? 1).
Definition ex_res (k : kind) (l : string) : bool := mems l ["run"; "parent"; "inputs"]%string.
Definition ex_ops :=
  [ AddChild 0 1 None None;                 (* w/m *)
    NewNode 3 "a" 1;                        (* w/m/a built with parent= *)
    AddChild 1 4 None None;                 (* non-strict: second "a" becomes a0 *)
    SetAttr 0 "n" 2;                        (* w.n = macro *)
    AddChild 2 3 None None;                 (* refused: a belongs to m *)
    SetParent 3 (Some 2);                   (* moved from m to n *)
    AddChild 2 5 (Some "a"%string) (Some true);   (* refused: clash in n *)
    AddChild 2 5 (Some "run"%string) None;  (* refused: reserved *)
    SetParent 2 (Some 1);                   (* n moves below m *)
    SetParent 1 (Some 2);                   (* refused: cyclic *)
    SetParent 0 (Some 1);                   (* refused: workflow *)
    SetStart 2 3;
    ReplaceI 2 3 5;                         (* b takes a's place (and its starting status) *)
    AddChild 1 4 (Some "z"%string) None;    (* re-label through adoption *)
    RemoveL 1 "z";
    SetParent 4 (Some 1);                   (* non-strict parent assignment: z comes back *)
    SetParent 2 None ].

Lemma ex_history :
  let s := run ex_kinds ex_strict ex_res 7 20 12 (init_state ex_labels) ex_ops in
  (forall n, has_slash (ex_labels n) = false) /\
  map (fun k => snd (step ex_kinds ex_strict ex_res 7 20 12
                       (run ex_kinds ex_strict ex_res 7 20 12 (init_state ex_labels) (firstn k ex_ops))
                       (nth k ex_ops (SetStart 0 0))))
      [4; 6; 7; 9; 10] = [Err EValue; Err EAttribute; Err EAttribute; Err ECyclic; Err EParentMost] /\
  kids s 0 = [("m", 1)]%string /\ kids s 1 = [("z", 4)]%string /\ kids s 2 = [("a", 5)]%string /\ strt s 2 = [5] /\
  par s 2 = None /\ lbl s 3 = "b"%string /\ par s 4 = Some 1 /\
  path 20 s 5 = Some "/n/a"%string /\ path 20 s 4 = Some "/w/m/z"%string.
Proof.
  cbv zeta. split; [intros n; do 8 (destruct n as [|n]; [reflexivity|]); reflexivity|].
  repeat split; vm_compute; reflexivity.
Qed.
