(* HintsConn.v -- the channel-level guards that call the comparison:
   DataChannel._valid_connection and the value_receiver setter's hint test. *)
From PW Require Import Base Hints HintsGen.

Record dchan := { d_hint : option hint; d_strict : bool }.

(* channels.py DataChannel._valid_connection (out = the OutputData side, inp = InputData) *)
Definition valid_connection (fuel : nat) (out inp : dchan) : option bool :=
  match d_hint out, d_hint inp with
  | Some ho, Some hi => if d_strict inp then more_specific fuel ho hi else Some true
  | _, _ => Some true
  end.

(* channels.py value_receiver.setter: refused iff both typed, partner strict, not as-specific *)
Definition receiver_ok (fuel : nat) (sender partner : dchan) : option bool :=
  match d_hint sender, d_hint partner with
  | Some hs, Some hp => if d_strict partner then more_specific fuel hs hp else Some true
  | _, _ => Some true
  end.
