(* Remote.v -- executable model of what happens when a pyiron_workflow node is run on an executor:

     mixin/run.py    Runnable.run / _run        readiness gate, running := True, submit self.on_run
                                                (a bound method: the NODE ITSELF is pickled), done-callback
                     Runnable._finish_run       running := False, result() | exception -> failed := True,
                                                process_run_result, _run_finally
                     Runnable.__getstate__      future := None, live executor := None (instructions stay)
     node.py         Node.data_input_locked     = running
                     Node._before_run           inputs.fetch() FIRST (so a second run() of a node that is out
                                                trips over the lock), then the readiness gate
                     Node._run_finally          emit `ran` / `failed` (here: parent not running -> direct calls)
     channels.py     InputData.value setter     owner.data_input_locked() -> RuntimeError; forward to the
                                                value receiver through the same setter; store
                     Channel.connect/disconnect prepend on both sides / remove on both sides
                     Channel.__getstate__       connections := [] ; DataChannel: _value_receiver := None;
                                                `owner` stays a reference INSIDE the pickled object graph
     mixin/lexical   Lexical.__getstate__       _parent := None, _detached_parent_path := parent.lexical_path
                                                (raises ValueError when parent and detached path are both set)
                     LexicalParent.__setstate__ children re-adopted (child.parent = self: released from the
                                                previous parent through Composite.remove_child, which
                                                DISCONNECTS the child, detached path := None)
     nodes/composite Composite.__getstate__/__setstate__   connections among children as label pairs, data
                                                restored in REVERSED order, signals in stored order
                     Composite.process_run_result / _parse_remotely_executed_self / _get_state_from_remote_other
                                                (for EVERY composite: executor, _parent and the detached path stay
                                                local; the local connection lists are grafted onto the FRESH IO
                                                channels of the panels the object holds itself, which are re-owned,
                                                the neighbours re-pointed, value links across the boundary re-forged)
     nodes/macro     Macro.__setstate__         re-forges the value links to the children
     nodes/for_loop  For                        static IO like a macro, same merge

   The state is a HEAP of node and channel objects with identities (nat): "the neighbour points at the live
   channel object" and "the channel is owned by the node" are statements about identities.  A pickle round
   trip allocates fresh identities; both sides of the boundary live in the same heap and never share an id.

   Not modelled (by construction of the scenarios): type hints, the cache (fresh graphs / use_cache off on the
   driven node), manual execution flow, failures inside a locally run composite, the construction of a For
   node's body.  Mode [Unpatched] additionally leaves out what pickle does with a node whose channels are
   owned by another object. *)
From PW Require Import Base.

(* ------------------------------------------------------------------ vocabulary *)
Inductive panel := PIn | POut | SIn | SOut.
Inductive lfun := FLin | FChk | FChkx | FId.
Inductive nkind := KLeaf (f : lfun) | KMacro | KWf | KFor.
Inductive exset := ExNone | ExInst (i : nat) | ExInstr (i : nat).   (* executor setting: live instance / instructions *)
(* merge discipline: [AsWritten] = the code as it is since the fix of Composite._parse_remotely_executed_self
   (grafting for every composite, fresh channels re-owned, local detached path kept, value links across the
   boundary re-forged); [Unpatched] = the code before that fix, kept so that the regression stays expressible *)
Inductive mmode := Unpatched | AsWritten.

Record chan := mkChan { c_owner : nat; c_label : string; c_panel : panel; c_conns : list nat;
                        c_val : option Z; c_recv : option nat }.
Record node := mkNode { n_label : string; n_kind : nkind; n_parent : option nat; n_detached : option string;
                        n_exec : exset; n_running : bool; n_failed : bool;
                        n_children : list nat; n_chans : list nat; n_starting : list nat }.
(* h_log: the nodes that were handed to an executor, latest first (bookkeeping for the observation only) *)
Record heap := mkHeap { h_nodes : list (nat * node); h_chans : list (nat * chan); h_next : nat; h_log : list nat }.

Definition panel_eqb (a b : panel) : bool :=
  match a, b with PIn, PIn | POut, POut | SIn, SIn | SOut, SOut => true | _, _ => false end.
Definition panel_code (p : panel) : Z := match p with PIn => 0%Z | POut => 1%Z | SIn => 2%Z | SOut => 3%Z end.
Definition is_comp (k : nkind) : bool := match k with KLeaf _ => false | _ => true end.
Definition has_links (k : nkind) : bool := match k with KMacro | KFor => true | _ => false end.

Definition dnode : node := mkNode "" KWf None None ExNone false false [] [] [].
Definition dchan : chan := mkChan 0 "" PIn [] None None.

Definition nd (h : heap) (i : nat) : node := match assoc Nat.eqb i (h_nodes h) with Some n => n | None => dnode end.
Definition ch (h : heap) (c : nat) : chan := match assoc Nat.eqb c (h_chans h) with Some x => x | None => dchan end.
Definition setn (h : heap) (i : nat) (n : node) : heap := mkHeap (upd Nat.eqb i n (h_nodes h)) (h_chans h) (h_next h) (h_log h).
Definition setc (h : heap) (c : nat) (x : chan) : heap := mkHeap (h_nodes h) (upd Nat.eqb c x (h_chans h)) (h_next h) (h_log h).
Definition note (h : heap) (i : nat) : heap := mkHeap (h_nodes h) (h_chans h) (h_next h) (i :: h_log h).

(* field updates *)
Definition c_with_conns (x : chan) (l : list nat) := mkChan (c_owner x) (c_label x) (c_panel x) l (c_val x) (c_recv x).
Definition c_with_val (x : chan) (v : option Z) := mkChan (c_owner x) (c_label x) (c_panel x) (c_conns x) v (c_recv x).
Definition c_with_recv (x : chan) (r : option nat) := mkChan (c_owner x) (c_label x) (c_panel x) (c_conns x) (c_val x) r.
Definition c_with_owner (x : chan) (o : nat) := mkChan o (c_label x) (c_panel x) (c_conns x) (c_val x) (c_recv x).
Definition n_with_parent (n : node) (p : option nat) (d : option string) :=
  mkNode (n_label n) (n_kind n) p d (n_exec n) (n_running n) (n_failed n) (n_children n) (n_chans n) (n_starting n).
Definition n_with_flags (n : node) (r f : bool) :=
  mkNode (n_label n) (n_kind n) (n_parent n) (n_detached n) (n_exec n) r f (n_children n) (n_chans n) (n_starting n).
Definition n_with_children (n : node) (k s : list nat) :=
  mkNode (n_label n) (n_kind n) (n_parent n) (n_detached n) (n_exec n) (n_running n) (n_failed n) k (n_chans n) s.

Definition set_conns h c l := setc h c (c_with_conns (ch h c) l).
Definition set_flags h i r f := setn h i (n_with_flags (nd h i) r f).

(* which executors put a pickle boundary between submit and result (harness numbering:
   0 manual, 1 pickle-boundary, 2 pickle-boundary by instructions, 3 thread, 4 process, 5 cloudpickle
   process, 6 thread by instructions, 7 cloudpickle process by instructions) *)
Definition crosses (e : exset) : bool :=
  match e with ExNone => false | ExInst i | ExInstr i => memn i [1; 2; 4; 5; 7] end.
Definition has_exec (e : exset) : bool := match e with ExNone => false | _ => true end.

Infix "+++" := String.append (at level 60, right associativity).

(* ------------------------------------------------------------------ lexical path (mixin/lexical.py) *)
Fixpoint lpath (fuel : nat) (h : heap) (i : nat) : option string :=
  match fuel with
  | 0 => None
  | S f =>
      let n := nd h i in
      match n_parent n, n_detached n with
      | None, None => Some ("/" +++ n_label n)
      | None, Some d => Some (d +++ "/" +++ n_label n)
      | Some p, None => match lpath f h p with Some pp => Some (pp +++ "/" +++ n_label n) | None => None end
      | Some _, Some _ => None                          (* ValueError: parent and detached path both set *)
      end
  end.
Definition PFUEL := 40.

(* ------------------------------------------------------------------ channels *)
Definition chans_of (h : heap) (i : nat) (p : panel) : list nat :=
  filter (fun c => panel_eqb (c_panel (ch h c)) p) (n_chans (nd h i)).

Definition find_chan (h : heap) (i : nat) (p : panel) (l : string) : option nat :=
  find (fun c => panel_eqb (c_panel (ch h c)) p && String.eqb (c_label (ch h c)) l) (n_chans (nd h i)).

Definition find_child (h : heap) (i : nat) (l : string) : option nat :=
  find (fun k => String.eqb (n_label (nd h k)) l) (n_children (nd h i)).

(* Channel.connect for one partner: present -> nothing, else prepend on both sides *)
Definition connect (h : heap) (a b : nat) : heap :=
  if memn b (c_conns (ch h a)) then h
  else let h1 := set_conns h a (b :: c_conns (ch h a)) in set_conns h1 b (a :: c_conns (ch h1 b)).

(* Channel.disconnect for one partner *)
Definition disconnect (h : heap) (a b : nat) : heap :=
  if memn b (c_conns (ch h a))
  then let h1 := set_conns h a (remove1 Nat.eqb b (c_conns (ch h a))) in
       set_conns h1 b (remove1 Nat.eqb a (c_conns (ch h1 b)))
  else h.

Definition disconnect_all (h : heap) (a : nat) : heap := fold_left (fun h b => disconnect h a b) (c_conns (ch h a)) h.
(* HasIO.disconnect: every channel of the node *)
Definition node_disconnect (h : heap) (i : nat) : heap := fold_left disconnect_all (n_chans (nd h i)) h.

Definition is_data_in (x : chan) : bool := panel_eqb (c_panel x) PIn.

(* data_input_locked of the channel's OWNER -- whoever that is *)
Definition locked (h : heap) (c : nat) : bool := is_data_in (ch h c) && n_running (nd h (c_owner (ch h c))).

(* the value setter: None = RuntimeError (locked); the receiver chain goes first, then the store *)
Fixpoint set_val (fuel : nat) (h : heap) (c : nat) (v : option Z) : option heap :=
  match fuel with
  | 0 => Some h
  | S f =>
      if locked h c then None
      else match c_recv (ch h c) with
           | Some r => match set_val f h r v with
                       | Some h1 => Some (setc h1 c (c_with_val (ch h1 c) v))
                       | None => None
                       end
           | None => Some (setc h c (c_with_val (ch h c) v))
           end
  end.
Definition VFUEL := 12.
(* the channels an assignment to c walks through: c, its receiver, that one's receiver ... *)
Fixpoint chain (fuel : nat) (h : heap) (c : nat) : list nat :=
  match fuel with
  | 0 => []
  | S f => c :: match c_recv (ch h c) with Some r => chain f h r | None => [] end
  end.
Definition set_val' h c v := match set_val VFUEL h c v with Some h1 => h1 | None => h end.

(* value_receiver setter: push the sender's value into the new partner, then couple *)
Definition set_receiver (h : heap) (a b : nat) : heap :=
  let h1 := set_val' h b (c_val (ch h a)) in setc h1 a (c_with_recv (ch h1 a) (Some b)).

(* InputData.fetch for every input of the node: first connection holding data wins; None = locked *)
Definition fetch_one (h : heap) (c : nat) : option heap :=
  match find (fun o => match c_val (ch h o) with Some _ => true | None => false end) (c_conns (ch h c)) with
  | Some o => set_val VFUEL h c (c_val (ch h o))
  | None => Some h
  end.
Fixpoint fetch_list (h : heap) (cs : list nat) : option heap :=
  match cs with
  | [] => Some h
  | c :: r => match fetch_one h c with Some h1 => fetch_list h1 r | None => None end
  end.
Definition fetch (h : heap) (i : nat) : option heap := fetch_list h (chans_of h i PIn).

(* ------------------------------------------------------------------ node functions *)
Definition MOD : Z := 1000003%Z.
Fixpoint wsum (k : Z) (l : list Z) : Z := match l with [] => 0%Z | a :: r => (k * a + wsum (k + 1) r)%Z end.
Definition lin (vals : list Z) : Z :=
  match vals with _ :: k :: args => ((k + wsum 1 args) mod MOD)%Z | _ => 0%Z end.
Definition any_neg (vals : list Z) : bool :=
  match vals with _ :: _ :: args => existsb (fun a => (a <? 0)%Z) args | _ => false end.
(* None = the function raises *)
Definition apply_fun (f : lfun) (vals : list Z) : option Z :=
  match f with
  | FLin => Some (lin vals)
  | FChk => if any_neg vals then None else Some (lin vals)
  | FChkx => if any_neg vals then None else Some ((lin vals + 1000) mod MOD)%Z
  | FId => Some (hd 0%Z vals)
  end.

Fixpoint all_some (l : list (option Z)) : option (list Z) :=
  match l with
  | [] => Some []
  | Some v :: r => match all_some r with Some vs => Some (v :: vs) | None => None end
  | None :: _ => None
  end.
Definition input_vals (h : heap) (i : nat) : option (list Z) := all_some (map (fun c => c_val (ch h c)) (chans_of h i PIn)).
Definition inputs_ready (h : heap) (i : nat) : bool := match input_vals h i with Some _ => true | None => false end.

(* ------------------------------------------------------------------ what crosses the boundary *)
Definition cref := (string * string)%type.
Inductive sdata :=
| SD (label : string) (kind : nkind) (detached : option string) (exec : exset) (running failed : bool)
     (chans : list (string * panel * option Z)) (kids : list sdata)
     (dconns sconns : list (cref * cref)) (starting : list string)
     (lin_ : list (string * cref)) (lout : list (cref * string)).

Definition sd_label (s : sdata) : string := match s with SD l _ _ _ _ _ _ _ _ _ _ _ _ => l end.
Definition sd_chans (s : sdata) := match s with SD _ _ _ _ _ _ c _ _ _ _ _ _ => c end.
Definition sd_kind (s : sdata) := match s with SD _ k _ _ _ _ _ _ _ _ _ _ _ => k end.

Definition strip_exec (e : exset) : exset := match e with ExInst _ => ExNone | _ => e end.

(* Composite._get_connections_as_strings: for child, for inp in panel, for out in inp.connections *)
Definition conn_strings (h : heap) (kids : list nat) (p : panel) : list (cref * cref) :=
  flat_map (fun k => flat_map (fun c => map (fun o => ((n_label (nd h k), c_label (ch h c)),
                                                       (n_label (nd h (c_owner (ch h o))), c_label (ch h o))))
                                            (c_conns (ch h c)))
                              (chans_of h k p)) kids.

(* Macro._input_value_links (None: an input without receiver -> AttributeError) / _output_value_links *)
Fixpoint links_in (h : heap) (cs : list nat) : option (list (string * cref)) :=
  match cs with
  | [] => Some []
  | c :: r => match c_recv (ch h c), links_in h r with
              | Some t, Some rest => Some ((c_label (ch h c), (n_label (nd h (c_owner (ch h t))), c_label (ch h t))) :: rest)
              | _, _ => None
              end
  end.
Definition links_out (h : heap) (kids : list nat) : list (cref * string) :=
  flat_map (fun k => flat_map (fun c => match c_recv (ch h c) with
                                        | Some t => [((n_label (nd h k), c_label (ch h c)), c_label (ch h t))]
                                        | None => [] end) (chans_of h k POut)) kids.

Fixpoint dump_list (dump : nat -> option sdata) (l : list nat) : option (list sdata) :=
  match l with
  | [] => Some []
  | k :: r => match dump k, dump_list dump r with Some a, Some b => Some (a :: b) | _, _ => None end
  end.

(* the __getstate__ chain, recursively through the children.  None = an exception while pickling *)
Fixpoint dump (fuel : nat) (h : heap) (i : nat) : option sdata :=
  match fuel with
  | 0 => None
  | S f =>
      let n := nd h i in
      let det := match n_parent n with
                 | Some p => match lpath PFUEL h p with Some s => Some (Some s) | None => None end
                 | None => Some (n_detached n)
                 end in
      let li := if has_links (n_kind n) then links_in h (chans_of h i PIn) else Some [] in
      match det, dump_list (dump f h) (n_children n), li with
      | Some d, Some kids, Some lin =>
          Some (SD (n_label n) (n_kind n) d (strip_exec (n_exec n)) (n_running n) (n_failed n)
                   (map (fun c => (c_label (ch h c), c_panel (ch h c), c_val (ch h c))) (n_chans n))
                   kids
                   (conn_strings h (n_children n) PIn) (conn_strings h (n_children n) SIn)
                   (map (fun s => n_label (nd h s)) (n_starting n))
                   lin (if has_links (n_kind n) then links_out h (n_children n) else []))
      | _, _, _ => None
      end
  end.
Definition DFUEL := 12.

(* allocation *)
Definition alloc_node (h : heap) (n : node) : heap * nat :=
  (mkHeap ((h_next h, n) :: h_nodes h) (h_chans h) (S (h_next h)) (h_log h), h_next h).
Definition alloc_chan (h : heap) (x : chan) : heap * nat :=
  (mkHeap (h_nodes h) ((h_next h, x) :: h_chans h) (S (h_next h)) (h_log h), h_next h).

Fixpoint alloc_chans (h : heap) (owner : nat) (l : list (string * panel * option Z)) : heap * list nat :=
  match l with
  | [] => (h, [])
  | (lab, p, v) :: r =>
      let (h1, c) := alloc_chan h (mkChan owner lab p [] v None) in
      let (h2, cs) := alloc_chans h1 owner r in (h2, c :: cs)
  end.

Definition connect_by_labels (pi po : panel) (h : heap) (i : nat) (io : cref * cref) : heap :=
  match find_child h i (fst (fst io)), find_child h i (fst (snd io)) with
  | Some ki, Some ko =>
      match find_chan h ki pi (snd (fst io)), find_chan h ko po (snd (snd io)) with
      | Some a, Some b => connect h a b
      | _, _ => h
      end
  | _, _ => h
  end.

(* Composite._restore_data_connections_from_strings (REVERSED) / _restore_signal_connections_from_strings *)
Definition restore_conns (h : heap) (i : nat) (dconns sconns : list (cref * cref)) : heap :=
  let h1 := fold_left (fun h io => connect_by_labels PIn POut h i io) (rev dconns) h in
  fold_left (fun h io => connect_by_labels SIn SOut h i io) sconns h1.

(* Macro.__setstate__ / For.__setstate__: re-forge the value links *)
Definition forge_in (h : heap) (i : nat) (l : string * cref) : heap :=
  match find_chan h i PIn (fst l), find_child h i (fst (snd l)) with
  | Some a, Some k => match find_chan h k PIn (snd (snd l)) with Some b => set_receiver h a b | None => h end
  | _, _ => h
  end.
Definition forge_out (h : heap) (i : nat) (l : cref * string) : heap :=
  match find_child h i (fst (fst l)), find_chan h i POut (snd l) with
  | Some k, Some b => match find_chan h k POut (snd (fst l)) with Some a => set_receiver h a b | None => h end
  | _, _ => h
  end.
Definition forge_links (h : heap) (i : nat) (lin_ : list (string * cref)) (lout : list (cref * string)) : heap :=
  fold_left (fun h l => forge_out h i l) lout (fold_left (fun h l => forge_in h i l) lin_ h).

Definition lookup_children (h : heap) (kids : list nat) (labels : list string) : list nat :=
  flat_map (fun l => match find (fun k => String.eqb (n_label (nd h k)) l) kids with Some k => [k] | None => [] end) labels.

(* unpickling: fresh objects, the __setstate__ chain *)
Fixpoint restore (h : heap) (s : sdata) : heap * nat :=
  match s with
  | SD label kind det ex run fail chans kids dconns sconns starting lin_ lout =>
      let (h0, i) := alloc_node h (mkNode label kind None det ex run fail [] [] []) in
      let (h1, cs) := alloc_chans h0 i chans in
      let (h2, ks) := (fix go (h : heap) (l : list sdata) {struct l} : heap * list nat :=
                         match l with
                         | [] => (h, [])
                         | k :: r => let (ha, a) := restore h k in let (hb, b) := go ha r in (hb, a :: b)
                         end) h1 kids in
      (* LexicalParent.__setstate__: child.parent = self (parent was None): detached path cleared *)
      let h3 := fold_left (fun h k => setn h k (n_with_parent (nd h k) (Some i) None)) ks h2 in
      let h4 := setn h3 i (mkNode label kind None det ex run fail ks cs (lookup_children h3 ks starting)) in
      let h5 := restore_conns h4 i dconns sconns in
      (if has_links kind then forge_links h5 i lin_ lout else h5, i)
  end.

(* ------------------------------------------------------------------ merging the returned copy *)
(* Composite.remove_child as reached from child.parent = self when the child still belongs to the copy *)
Definition release_from (h : heap) (old k : nat) : heap :=
  let o := nd h old in
  let h1 := setn h old (n_with_children o (remove1 Nat.eqb k (n_children o)) (remove1 Nat.eqb k (n_starting o))) in
  let h2 := setn h1 k (n_with_parent (nd h1 k) None None) in
  node_disconnect h2 k.

(* child.parent = self (Lexical._set_parent): nothing at all when it already is the parent *)
Definition adopt (h : heap) (i k : nat) : heap :=
  match n_parent (nd h k) with
  | Some old =>
      if Nat.eqb old i then h
      else let h1 := if memn k (n_children (nd h old)) then release_from h old k else h in
           setn h1 k (n_with_parent (nd h1 k) (Some i) None)
  | None => setn h k (n_with_parent (nd h k) (Some i) None)
  end.

(* Macro._parse_remotely_executed_self, second half: graft the local connection lists onto the fresh
   channels and re-point the neighbours (channel.connections = [new if c is old else c ...]) *)
Definition graft_one (h : heap) (i : nat) (old : nat * string * panel * list nat) : heap :=
  match old with
  | (orig, lab, p, conns) =>
      match find_chan h i p lab with
      | None => h                                        (* KeyError in the code; IO labels of a copy never change *)
      | Some new =>
          let h1 := set_conns h new conns in
          fold_left (fun h o => set_conns h o (map (fun c => if Nat.eqb c orig then new else c) (c_conns (ch h o)))) conns h1
      end
  end.

(* (patched discipline only) value links that cross the merged node's boundary live in the parent's scope:
   an output's receiver among the parent's channels is given to the fresh channel, a parent channel whose
   receiver is the old channel is pointed at the fresh one (both through the value_receiver setter) *)
(* the code re-points the parent's channel by plain assignment of _value_receiver ([false], since build/c10_fix2.diff);
   [true] = through the value_receiver SETTER, which pushed the parent's current value into what the returned node
   shows (the regression stays expressible) *)
Definition RELINK_PUSH : bool := false.

Definition relink_one (h : heap) (i : nat) (old : nat * string * panel * list nat) : heap :=
  match old with
  | (orig, lab, p, _) =>
      match find_chan h i p lab with
      | None => h
      | Some new =>
          let par := n_parent (nd h i) in
          let h1 := match c_recv (ch h orig), par with
                    | Some r, Some pp => if Nat.eqb (c_owner (ch h r)) pp then set_receiver h new r else h
                    | _, _ => h
                    end in
          match par with
          | Some pp =>
              if has_links (n_kind (nd h1 pp)) then
                fold_left (fun h pc => match c_recv (ch h pc) with
                                       | Some r => if Nat.eqb r orig then
                                                     (if RELINK_PUSH then set_receiver h pc new
                                                      else setc h pc (c_with_recv (ch h pc) (Some new)))
                                                   else h
                                       | None => h
                                       end) (chans_of h1 pp PIn ++ chans_of h1 pp POut) h1
              else h1
          | None => h1
          end
      end
  end.

Definition merge_remote (mode : mmode) (h : heap) (i c2 : nat) : heap :=
  let n := nd h i in
  let local := map (fun c => (c, c_label (ch h c), c_panel (ch h c), c_conns (ch h c))) (n_chans n) in
  (* un-parent the existing children before ditching them *)
  let h1 := fold_left (fun h k => setn h k (n_with_parent (nd h k) None None)) (n_children n) h in
  (* other_self.running = False *)
  let h2 := set_flags h1 c2 false (n_failed (nd h1 c2)) in
  let o := nd h2 c2 in
  (* state = other_self.__getstate__(): the strings are computed now; executor and _parent are popped *)
  let dconns := conn_strings h2 (n_children o) PIn in
  let sconns := conn_strings h2 (n_children o) SIn in
  let starting := map (fun s => n_label (nd h2 s)) (n_starting o) in
  let lin_ := if has_links (n_kind o) then match links_in h2 (chans_of h2 c2 PIn) with Some l => l | None => [] end else [] in
  let lout := if has_links (n_kind o) then links_out h2 (n_children o) else [] in
  let det := match mode with Unpatched => n_detached o | AsWritten => n_detached n end in
  (* self.__dict__.update(state): children, IO panels, flags, label, detached path come from the copy *)
  let kids := n_children o in
  let h3 := setn h2 i (mkNode (n_label o) (n_kind n) (n_parent n) det (n_exec n) (n_running o) (n_failed o)
                              kids (n_chans o) (lookup_children h2 kids starting)) in
  (* for child in self: child.parent = self *)
  let h4 := fold_left (fun h k => adopt h i k) kids h3 in
  let h5 := restore_conns h4 i dconns sconns in
  let h6 := if has_links (n_kind n) then forge_links h5 i lin_ lout else h5 in
  let h7 := match n_kind n, mode with
            | KMacro, _ => fold_left (fun h o => graft_one h i o) local h6
            | _, AsWritten => fold_left (fun h o => graft_one h i o) local h6
            | _, Unpatched => h6
            end in
  match mode with
  | Unpatched => h7
  | AsWritten =>
      let h8 := fold_left (fun h c => setc h c (c_with_owner (ch h c) i)) (n_chans (nd h7 i)) h7 in
      fold_left (fun h o => relink_one h i o) local h8
  end.

(* ------------------------------------------------------------------ when is a heap fit for a merge: the hypotheses of the
   merge theorem, decidably (proved sound in RemoteProofs.v; evaluated on the states the harness reflects) *)
Definition kidchans (h : heap) (c2 : nat) : list nat :=
  flat_map (fun k => n_chans (nd h k)) (n_children (nd h c2)).
Definition ckey (h : heap) (c : nat) : panel * string := (c_panel (ch h c), c_label (ch h c)).
Definition key_eqb (a b : panel * string) : bool := panel_eqb (fst a) (fst b) && String.eqb (snd a) (snd b).
Definition notin (x : nat) (l : list nat) : bool := negb (memn x l).
Definition merge_preb (h : heap) (i c2 : nat) : bool :=
  let kids := n_children (nd h c2) in
  let origs := n_chans (nd h i) in
  let news := n_chans (nd h c2) in
  let KS := kidchans h c2 in
  negb (Nat.eqb i c2) && notin c2 kids && notin i kids &&
  forallb (fun k => negb (Nat.eqb k i) && negb (Nat.eqb k c2) && notin k kids) (n_children (nd h i)) &&
  forallb (fun k => match n_parent (nd h k) with Some p => Nat.eqb p c2 | None => false end) kids &&
  forallb (fun a => forallb (fun b => memn b KS) (c_conns (ch h a))) KS &&
  forallb (fun o => notin o KS && notin o news) origs &&
  forallb (fun n => notin n KS) news &&
  forallb (fun o => forallb (fun x => notin x KS && notin x news && notin x origs) (c_conns (ch h o))) origs &&
  forallb (fun o => forallb (fun x => negb (memn o (c_conns (ch h x))) || memn x (c_conns (ch h o)))
                            (map fst (h_chans h))) origs &&
  forallb (fun o => match find_chan h c2 (c_panel (ch h o)) (c_label (ch h o)) with Some _ => true | None => false end) origs &&
  nodupb key_eqb (map (ckey h) origs).

(* ------------------------------------------------------------------ running (big step) *)
Inductive outcome := ROk | RFail | RRefused | RSubmitErr.

(* the data-upstream siblings of every child, read off BEFORE anything runs (the run signals were wired from
   this relation; a merge changes who owns the fresh channels, not the wiring) *)
Definition upstreams (h : heap) (kids : list nat) : list (nat * list nat) :=
  map (fun k => (k, flat_map (fun c => map (fun o => c_owner (ch h o)) (c_conns (ch h c))) (chans_of h k PIn))) kids.
Definition upstream_done (ups : list (nat * list nat)) (done : list nat) (k : nat) : bool :=
  match assoc Nat.eqb k ups with Some us => forallb (fun u => memn u done) us | None => true end.

(* process_run_result of a function node: the single output *)
Definition set_outputs (h : heap) (i : nat) (v : Z) : heap :=
  match chans_of h i POut with c :: _ => set_val' h c (Some v) | [] => h end.

Section Run.
  Variable mode : mmode.

  (* run_node: Node.run() of a child whose parent drives it (or of the far-side children);
     body: on_run on the object itself *)
  Fixpoint run_node (fuel : nat) (h : heap) (i : nat) : heap * outcome :=
    match fuel with
    | 0 => (h, RRefused)
    | S f =>
        match fetch h i with
        | None => (h, RRefused)                               (* RuntimeError from the lock *)
        | Some h1 =>
            let n := nd h1 i in
            if n_running n || n_failed n || negb (inputs_ready h1 i) then (h1, RRefused)
            else
              let h2 := if has_exec (n_exec n) then note (set_flags h1 i true false) i else set_flags h1 i true false in
              if crosses (n_exec n) then
                match dump DFUEL h2 i with
                | None => (h2, RSubmitErr)                    (* pickling at submit raised: stays running *)
                | Some sd =>
                    let (h3, c1) := restore h2 sd in
                    let (h4, r) := body f h3 c1 in
                    match r with
                    | ROk =>
                        if is_comp (n_kind n) then
                          match dump DFUEL h4 c1 with
                          | Some sd2 => let (h5, c2) := restore h4 sd2 in
                                        (merge_remote mode (set_flags h5 i false false) i c2, ROk)
                          | None => (set_flags h4 i false true, RFail)     (* the result cannot be pickled back *)
                          end
                        else
                          (* a function node returns its value; the copy is dropped *)
                          (set_outputs (set_flags h4 i false false) i
                             (match chans_of h4 c1 POut with c :: _ => match c_val (ch h4 c) with Some v => v | None => 0%Z end
                                                           | [] => 0%Z end), ROk)
                    | _ => (set_flags h4 i false true, RFail)
                    end
                end
              else
                let (h3, r) := body f h2 i in
                match r with
                | ROk => (set_flags h3 i false false, ROk)
                | _ => (set_flags h3 i false true, RFail)
                end
        end
    end
  with body (fuel : nat) (h : heap) (i : nat) : heap * outcome :=
    match fuel with
    | 0 => (h, RFail)
    | S f =>
        match n_kind (nd h i) with
        | KLeaf fn =>
            match input_vals h i with
            | Some vals => match apply_fun fn vals with
                           | Some v => (set_outputs h i v, ROk)
                           | None => (h, RFail)
                           end
            | None => (h, RFail)
            end
        | _ =>
            (* Composite._on_run for a DAG-wired graph: every child once, upstream first (C01) *)
            let ups := upstreams h (n_children (nd h i)) in
            (fix loop (rounds : nat) (h : heap) (done skip : list nat) (bad : bool) : heap * outcome :=
               match rounds with
               | 0 => (h, if bad then RFail else ROk)
               | S r =>
                   match find (fun k => negb (memn k done) && negb (memn k skip) && upstream_done ups done k) (n_children (nd h i)) with
                   | None => (h, if bad then RFail else ROk)
                   | Some k =>
                       let (h1, o) := run_node f h k in
                       match o with
                       | ROk => loop r h1 (k :: done) skip bad
                       | RFail =>
                           (* the job of a child on an executor fails inside its done-callback: the exception is
                              swallowed there (cf. C06/S6) and the parent goes on without it; the exception of a
                              local child is raised in the parent's loop *)
                           if has_exec (n_exec (nd h k)) then loop r h1 done (k :: skip) bad
                           else if memn k (n_starting (nd h i)) then (h1, RFail) else loop r h1 done (k :: skip) true
                       | _ =>
                           (* run() itself raised (not ready / submit failed): a starting node ends the parent's run at
                              once, any other child is recorded and reported when the queue has drained *)
                           if memn k (n_starting (nd h i)) then (h1, RFail) else loop r h1 done (k :: skip) true
                       end
                   end
               end) (List.length (n_children (nd h i))) h [] [] false
        end
    end.

  Definition RFUEL := 14.

  (* emit `ran` when the parent is not running: direct calls through the signal connections *)
  Fixpoint emit_ran (fuel : nat) (h : heap) (i : nat) : heap :=
    match fuel with
    | 0 => h
    | S f =>
        match find_chan h i SOut "ran" with
        | None => h
        | Some r =>
            fold_left (fun h c =>
                         let x := ch h c in
                         let fires := String.eqb (c_label x) "run" ||
                                      (String.eqb (c_label x) "accumulate_and_run" && Nat.eqb (List.length (c_conns x)) 1) in
                         if fires then
                           let t := c_owner x in
                           let (h1, o) := run_node RFUEL h t in
                           match o with ROk => emit_ran f h1 t | _ => h1 end
                         else h) (c_conns (ch h r)) h
        end
    end.
End Run.

(* ------------------------------------------------------------------ the run cycle of one driven node *)
Inductive job := JSame (i : nat) | JPick (i : nat) (s : sdata).
(* OSet: assignment to an input of the driven node; OSetOn: to an input of ANOTHER node (e.g. the enclosing macro,
   whose input forwards into the driven node through a value link) *)
(* ORunX: run(check_readiness=False) -- fetches, but skips the readiness gate (a node whose sticky failed flag is still set
   goes out again); OExec: execute() -- neither fetch nor gate (nor a `ran` emission: used where `ran` is unconnected) *)
Inductive op := OSet (l : string) (v : Z) | ORun | OComplete | OClear | OSetOn (i : nat) (l : string) (v : Z)
              | ORunX | OExec.
Record cst := mkC { c_heap : heap; c_jobs : list job; c_log : list obs }.

Definition log (s : cst) (h : heap) (jobs : list job) (x : string) : cst := mkC h jobs (c_log s ++ [OS x]).

Section Cycle.
  Variable mode : mmode.
  Variable X : nat.

  (* Node.emitting_channels: `failed` (unconnected here) when the failed flag is set -- also after a SUCCESSFUL run
     that went out past the gate with the flag still set -- else `ran` *)
  Definition finish_ok (h : heap) : heap := if n_failed (nd h X) then h else emit_ran mode 4 h X.

  (* the value a function node's copy computed on the far side *)
  Definition copy_value (h : heap) (c1 : nat) : Z :=
    match chans_of h c1 POut with
    | c :: _ => match c_val (ch h c) with Some v => v | None => 0%Z end
    | [] => 0%Z
    end.

  (* what the done-callback (Runnable._finish_run) does with a finished job, before any signal is emitted:
     running := False; the result is processed (merge / outputs) or failed := True; a success does NOT clear a
     failed flag that was already set (it is sticky) *)
  Definition complete_job (h : heap) (j : job) : heap * bool :=
    match j with
    | JSame i =>
        let (h1, r) := body mode RFUEL h i in
        match r with
        | ROk => (set_flags h1 i false (n_failed (nd h1 i)), true)
        | _ => (set_flags h1 i false true, false)
        end
    | JPick i sd =>
        let (h1, c1) := restore h sd in
        let (h2, r) := body mode RFUEL h1 c1 in
        match r with
        | ROk =>
            if is_comp (n_kind (nd h2 i)) then
              match dump DFUEL h2 c1 with
              | Some sd2 => let (h3, c2) := restore h2 sd2 in
                            (merge_remote mode (set_flags h3 i false false) i c2, true)
              | None => (set_flags h2 i false true, false)
              end
            else (set_outputs (set_flags h2 i false (n_failed (nd h2 i))) i (copy_value h2 c1), true)
        | _ => (set_flags h2 i false true, false)
        end
    end.

  (* Node.run() up to the submit.  do_fetch: fetch_input; do_gate: check_readiness.  The gate is the ONLY place that
     looks at `failed`; run() sets running := True and leaves failed as it is *)
  Definition submit_with (do_fetch do_gate : bool) (s : cst) : cst :=
    let h := c_heap s in
    match (if do_fetch then fetch h X else Some h) with
    | None => log s h (c_jobs s) "RuntimeError"
    | Some h1 =>
        let n := nd h1 X in
        if do_gate && (n_running n || n_failed n || negb (inputs_ready h1 X)) then log s h1 (c_jobs s) "ReadinessError"
        else
          let h2 := set_flags h1 X true (n_failed n) in
          if has_exec (n_exec n) then
            if crosses (n_exec n) then
              match dump DFUEL h2 X with
              | Some sd => log s h2 (c_jobs s ++ [JPick X sd]) "Future"
              | None => log s h2 (c_jobs s) "ValueError"
              end
            else log s h2 (c_jobs s ++ [JSame X]) "Future"
          else
            let (h3, ok) := complete_job h2 (JSame X) in
            if ok then log s (finish_ok h3) (c_jobs s) "value" else log s h3 (c_jobs s) "UserExc"
    end.
  Definition submit := submit_with true true.

  Definition step (s : cst) (o : op) : cst :=
    let h := c_heap s in
    match o with
    | OSet l v =>
        match find_chan h X PIn l with
        | None => log s h (c_jobs s) "KeyError"
        | Some c => match set_val VFUEL h c (Some v) with
                    | Some h1 => log s h1 (c_jobs s) "ok"
                    | None => log s h (c_jobs s) "RuntimeError"
                    end
        end
    | OSetOn i l v =>
        match find_chan h i PIn l with
        | None => log s h (c_jobs s) "KeyError"
        | Some c => match set_val VFUEL h c (Some v) with
                    | Some h1 => log s h1 (c_jobs s) "ok"
                    | None => log s h (c_jobs s) "RuntimeError"
                    end
        end
    | OClear => log s (set_flags h X (n_running (nd h X)) false) (c_jobs s) "ok"
    | ORun => submit s
    | ORunX => submit_with true false s
    | OExec => submit_with false false s
    | OComplete =>
        match c_jobs s with
        | [] => log s h [] "none"
        | j :: rest =>
            let (h1, ok) := complete_job h j in
            log s (if ok then finish_ok h1 else h1) rest "done"
        end
    end.

  Definition run_ops (h : heap) (ops : list op) : cst := fold_left step ops (mkC h [] []).

  (* does the state in which a job's result is merged meet the hypotheses of the merge theorem? *)
  Definition job_pre (h : heap) (j : job) : bool :=
    match j with
    | JSame _ => true
    | JPick i sd =>
        let (h1, c1) := restore h sd in
        let (h2, r) := body mode RFUEL h1 c1 in
        match r with
        | ROk =>
            if is_comp (n_kind (nd h2 i)) then
              match dump DFUEL h2 c1 with
              | Some sd2 => let (h3, c2) := restore h2 sd2 in merge_preb (set_flags h3 i false false) i c2
              | None => true
              end
            else true
        | _ => true
        end
    end.

  Fixpoint pre_trace (s : cst) (ops : list op) : list obs :=
    match ops with
    | [] => []
    | o :: r =>
        (match o, c_jobs s with
         | OComplete, j :: _ => [ob (job_pre (c_heap s) j)]
         | _, _ => []
         end) ++ pre_trace (step s o) r
    end.
End Cycle.

(* ------------------------------------------------------------------ rendering (the harness renders the real
   object graph the same way) *)
Definition live_entry := (nat * (string * panel * string))%type.

Fixpoint live (fuel : nat) (h : heap) (i : nat) (path : string) : list live_entry :=
  match fuel with
  | 0 => []
  | S f =>
      map (fun c => (c, (path, c_panel (ch h c), c_label (ch h c)))) (n_chans (nd h i)) ++
      flat_map (fun k => live f h k (path +++ "/" +++ n_label (nd h k))) (n_children (nd h i))
  end.

Definition count_nat (x : nat) (l : list nat) : nat := List.length (filter (Nat.eqb x) l).

Definition kind_name (k : nkind) : string :=
  match k with
  | KWf => "wf" | KMacro => "macro" | KFor => "for"
  | KLeaf FLin => "lin" | KLeaf FChk => "chk" | KLeaf FChkx => "chkx" | KLeaf FId => "id"
  end.

Definition ex_obs (e : exset) : obs :=
  match e with ExNone => OL [OZ 0; OZ 0] | ExInst i => OL [OZ 1; on i] | ExInstr i => OL [OZ 2; on i] end.

Definition oz_opt (v : option Z) : obs := match v with Some z => OZ z | None => OL [] end.

Definition where_obs (lv : list live_entry) (h : heap) (c : nat) : list obs :=
  match assoc Nat.eqb c lv with
  | Some (p, pn, l) => [OS p; OZ (panel_code pn); OS l]
  | None => [OS "DEAD"; OS (n_label (nd h (c_owner (ch h c)))); OS (c_label (ch h c))]
  end.

Definition chan_obs (lv : list live_entry) (h : heap) (i c : nat) : obs :=
  let x := ch h c in
  let conns := map (fun o => OL (where_obs lv h o ++ [on (count_nat c (c_conns (ch h o)))])) (c_conns x) in
  let base := [OZ (panel_code (c_panel x)); OS (c_label x); ob (Nat.eqb (c_owner x) i); OL conns] in
  match c_panel x with
  | PIn | POut => OL (base ++ [oz_opt (c_val x);
                               match c_recv x with Some r => OL (where_obs lv h r) | None => OL [] end])
  | _ => OL base
  end.

Fixpoint node_obs (fuel : nat) (lv : list live_entry) (h : heap) (i : nat) (path : string) (parent : option nat) : obs :=
  match fuel with
  | 0 => OL []
  | S f =>
      let n := nd h i in
      OL [OS (n_label n); OS (kind_name (n_kind n)); OL [ob (n_running n); ob (n_failed n)]; ex_obs (n_exec n);
          ob (match n_parent n, parent with
              | Some a, Some b => Nat.eqb a b | None, None => true | _, _ => false end);
          match lpath PFUEL h i with
          | Some p => if String.eqb p path then OZ 1 else OL [OS "WRONG"; OS p]
          | None => OZ 0 end;
          match n_detached n with Some d => OS d | None => OL [] end;
          OL (map (chan_obs lv h i) (n_chans n));
          OL (map (fun k => node_obs f lv h k (path +++ "/" +++ n_label (nd h k)) (Some i)) (n_children n));
          OL (map (fun s => OS (n_label (nd h s))) (n_starting n))]
  end.

Definition render (h : heap) (root : nat) : obs :=
  let path := "/" +++ n_label (nd h root) in
  node_obs 8 (live 8 h root path) h root path None.

(* ---- flow scenarios: root.run() with everything completed; probes = input assignments tried while out *)
(* the nodes of the LOCAL tree that go out on an executor during the run (not below a node that is shipped) *)
Fixpoint out_nodes (fuel : nat) (h : heap) (i : nat) (path : string) : list (nat * string) :=
  match fuel with
  | 0 => []
  | S f =>
      (if has_exec (n_exec (nd h i)) then [(i, path)] else []) ++
      (if crosses (n_exec (nd h i)) then []
       else flat_map (fun k => out_nodes f h k (path +++ "/" +++ n_label (nd h k))) (n_children (nd h i)))
  end.

(* "its inputs": the data input panel; for a workflow the open inputs of its children *)
Definition shown_inputs (h : heap) (i : nat) : list nat :=
  match n_kind (nd h i) with
  | KWf => flat_map (fun k => filter (fun c => match c_conns (ch h c) with [] => true | _ => false end) (chans_of h k PIn))
                    (n_children (nd h i))
  | _ => chans_of h i PIn
  end.

Definition io_label (h : heap) (i c : nat) : string :=
  match n_kind (nd h i) with
  | KWf => n_label (nd h (c_owner (ch h c))) +++ "__" +++ c_label (ch h c)
  | _ => c_label (ch h c)
  end.

(* the probe happens while node i is out: running := true there *)
Definition probes_of (h : heap) (ip : nat * string) : list (string * string * string) :=
  let (i, path) := ip in
  let h1 := set_flags h i true false in
  map (fun c => (path, io_label h i c, if locked h1 c then "RuntimeError" else "ok")) (shown_inputs h i).

Definition triple_leb (a b : string * string * string) : bool :=
  match a, b with (a1, a2, a3), (b1, b2, b3) =>
    match String.compare a1 b1 with
    | Lt => true | Gt => false
    | Eq => match String.compare a2 b2 with Lt => true | Gt => false | Eq => String.leb a3 b3 end
    end
  end.
Fixpoint insert_t (x : string * string * string) (l : list (string * string * string)) :=
  match l with [] => [x] | y :: r => if triple_leb x y then x :: l else y :: insert_t x r end.
Definition sort_t (l : list (string * string * string)) := fold_right insert_t [] l.

(* the children a shipped composite had BEFORE the run: afterwards they must not claim it any more *)
Definition orphan_obs (h0 h1 : heap) (ip : nat * string) : list obs :=
  let (i, path) := ip in
  if crosses (n_exec (nd h0 i)) && is_comp (n_kind (nd h0 i))
  then [OL [OS path; OL (map (fun k => OL [OS (n_label (nd h0 k));
                                            ob (match n_parent (nd h1 k) with None => true | Some _ => false end);
                                            ob (match n_detached (nd h1 k) with None => true | Some _ => false end);
                                            ob (memn k (n_children (nd h1 i)))])
                              (n_children (nd h0 i)))]]
  else [].

Definition flow_obs (mode : mmode) (h : heap) (root : nat) (probe : bool) : obs :=
  let path := "/" +++ n_label (nd h root) in
  let outs := out_nodes 8 h root path in
  let (h1, _) := run_node mode RFUEL h root in
  (* probed: the nodes that really went out during this run *)
  let pr := if probe then sort_t (flat_map (probes_of h) (filter (fun ip => memn (fst ip) (h_log h1)) outs)) else [] in
  OL [render h1 root; OL (map (fun t => match t with (a, b, c) => OL [OS a; OS b; OS c] end) pr);
      OL (flat_map (orphan_obs h h1) outs)].

Definition cycle_obs (mode : mmode) (h : heap) (root X : nat) (ops : list op) : obs :=
  let s := run_ops mode X h ops in
  OL [render (c_heap s) root; OL (c_log s); OL (pre_trace mode X (mkC h [] []) ops)].
