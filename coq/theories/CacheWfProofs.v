(* CacheWfProofs.v -- C05 for a Workflow of function nodes (CacheWf.v).
   Stage 1: inside one run of the workflow's body the children's caches are transparent -- for EVERY
   workflow (any number of children, any forward wiring, any constants, any state of outputs and flags)
   whose child caches are valid, the body with caching on and the body with caching off do the same thing
   to everything but the caches.  Stage 2 statements about the workflow-level key are examples/refutations
   evaluated on the model (the two known findings, and the history of the defect fixed by 4d10bb8). *)
From PW Require Import Base CacheWf.

(* erasure of the remembered inputs: what the uncached twin carries *)
Definition er_child (c : child) : child :=
  {| ck := ck c; own := own c; src := src c; out := out c; ccache := None; cfailed := cfailed c |}.
Definition er (st : wstate) : wstate :=
  {| kids := map er_child (kids st); wcache := None; wfailed := wfailed st |}.

(* a child's remembered input, when present, is the input its output was computed from *)
Definition cvalid (c : child) : Prop :=
  forall x, ccache c = Some x -> out c = Some (ck c + x)%Z /\ (0 <= x)%Z.
Definition Valid (st : wstate) : Prop := forall c, In c (kids st) -> cvalid c.

Lemma kid_er st i : kid (er st) i = er_child (kid st i).
Proof.
  unfold kid, er; cbn. change dchild with (er_child dchild) at 1. apply map_nth.
Qed.

Lemma set_nth_map {A B} (f : A -> B) l n x : map f (set_nth l n x) = set_nth (map f l) n (f x).
Proof. revert n; induction l as [|y r IH]; intros [|n]; cbn; try reflexivity. f_equal. apply IH. Qed.

Lemma er_set_kid st i c : er (set_kid st i c) = set_kid (er st) i (er_child c).
Proof. unfold er, set_kid; cbn. f_equal. apply set_nth_map. Qed.

Lemma fetched_er st c : fetched (er st) (er_child c) = fetched st c.
Proof. unfold fetched. cbn [src er_child own]. destruct (src c) as [j|]; [rewrite kid_er; cbn [out er_child]|]; reflexivity. Qed.

Lemma in_set_nth {A} (l : list A) n x y : In y (set_nth l n x) -> y = x \/ In y l.
Proof.
  revert n; induction l as [|z r IH]; intros [|n]; cbn; try tauto.
  - intros [H|H]; [left; symmetry; exact H | right; right; exact H].
  - intros [H|H]; [right; left; exact H | destruct (IH n H) as [E|E]; [left; exact E | right; right; exact E]].
Qed.

Lemma valid_set_kid st i c : Valid st -> cvalid c -> Valid (set_kid st i c).
Proof.
  intros V Hc d Hd. unfold set_kid in Hd; cbn in Hd. destruct (in_set_nth _ _ _ _ Hd) as [E|E]; [subst; exact Hc | apply V; exact E].
Qed.

Lemma kid_valid st i : Valid st -> cvalid (kid st i).
Proof.
  intros V. unfold kid. destruct (nth_in_or_default i (kids st) dchild) as [H|H]; [apply V; exact H|].
  rewrite H. intros x Hx. discriminate.
Qed.

(* one child: with a valid cache, caching on and off agree on everything but the cache *)
Lemma run_child_twin st i : Valid st ->
  let '(s1, x1) := run_child true st i in
  let '(s2, x2) := run_child false (er st) i in
  er s1 = s2 /\ x1 = x2 /\ Valid s1.
Proof.
  intros V. unfold run_child. rewrite kid_er. rewrite fetched_er. cbn [cfailed er_child ccache ck own src out].
  pose proof (kid_valid st i V) as Hv. set (c := kid st i) in *. set (a := fetched st c).
  destruct (cfailed c) eqn:Ef.
  - rewrite er_set_kid. split; [reflexivity | split; [reflexivity|]].
    apply valid_set_kid; [exact V|]. intros x Hx. cbn in *. apply Hv. exact Hx.
  - cbn [andb]. destruct (ccache c) as [x|] eqn:Ec.
    + destruct (Z.eqb x a) eqn:Ex.
      * (* hit: the uncached twin recomputes the very same output *)
        apply Z.eqb_eq in Ex. destruct (Hv x Ec) as [Ho Hx]. subst x.
        assert (Hneg : (a <? 0)%Z = false) by (apply Z.ltb_ge; exact Hx). rewrite Hneg.
        rewrite er_set_kid. cbn [er_child ck own src out ccache cfailed]. rewrite Ho.
        split; [reflexivity | split; [reflexivity|]].
        apply valid_set_kid; [exact V|]. intros y Hy. cbn in Hy |- *. inversion Hy; subst. split; [reflexivity | exact Hx].
      * destruct (a <? 0)%Z eqn:En; rewrite er_set_kid; cbn [er_child ck own src out ccache cfailed];
          (split; [reflexivity | split; [reflexivity|]]); (apply valid_set_kid; [exact V|]);
          intros y Hy; cbn in *; [discriminate|]. inversion Hy; subst. split; [reflexivity | apply Z.ltb_ge; exact En].
    + destruct (a <? 0)%Z eqn:En; rewrite er_set_kid; cbn [er_child ck own src out ccache cfailed];
        (split; [reflexivity | split; [reflexivity|]]); (apply valid_set_kid; [exact V|]);
        intros y Hy; cbn in *; [discriminate|]. inversion Hy; subst. split; [reflexivity | apply Z.ltb_ge; exact En].
Qed.

Lemma start_twin is : forall st ran, Valid st ->
  let '(s1, r1, x1) := start_phase true st is ran in
  let '(s2, r2, x2) := start_phase false (er st) is ran in
  er s1 = s2 /\ r1 = r2 /\ x1 = x2 /\ Valid s1.
Proof.
  induction is as [|i r IH]; intros st ran V; cbn [start_phase].
  - split; [reflexivity | split; [reflexivity | split; [reflexivity | exact V]]].
  - rewrite kid_er. cbn [src er_child]. destruct (src (kid st i)) as [j|].
    + apply IH. exact V.
    + pose proof (run_child_twin st i V) as H.
      destruct (run_child true st i) as [s1 x1]. destruct (run_child false (er st) i) as [s2 x2].
      destruct H as (E & X & V1). subst s2 x2.
      destruct x1; [apply IH; exact V1 | |]; (split; [reflexivity | split; [reflexivity | split; [reflexivity | exact V1]]]).
Qed.

Lemma loop_twin is : forall st ran ok, Valid st ->
  let '(s1, o1) := loop_phase true st is ran ok in
  let '(s2, o2) := loop_phase false (er st) is ran ok in
  er s1 = s2 /\ o1 = o2 /\ Valid s1.
Proof.
  induction is as [|i r IH]; intros st ran ok V; cbn [loop_phase].
  - split; [reflexivity | split; [reflexivity | exact V]].
  - rewrite kid_er. cbn [src er_child]. destruct (src (kid st i)) as [j|]; [|apply IH; exact V].
    destruct (memn j ran); [|apply IH; exact V].
    pose proof (run_child_twin st i V) as H.
    destruct (run_child true st i) as [s1 x1]. destruct (run_child false (er st) i) as [s2 x2].
    destruct H as (E & X & V1). subst s2 x2. destruct x1; apply IH; exact V1.
Qed.

Lemma er_length st : List.length (kids (er st)) = List.length (kids st).
Proof. unfold er; cbn. apply map_length. Qed.

Theorem body_twin st : Valid st ->
  let '(s1, r1) := body true st in
  let '(s2, r2) := body false (er st) in
  er s1 = s2 /\ r1 = r2 /\ Valid s1.
Proof.
  intros V. unfold body. rewrite er_length.
  pose proof (start_twin (seq 0 (List.length (kids st))) st [] V) as H.
  destruct (start_phase true st (seq 0 (List.length (kids st))) []) as [[s1 r1] x1].
  destruct (start_phase false (er st) (seq 0 (List.length (kids st))) []) as [[s2 r2] x2].
  destruct H as (E & R & X & V1). subst s2 r2 x2.
  destruct x1; try (split; [reflexivity | split; [reflexivity | exact V1]]).
  pose proof (loop_twin (seq 0 (List.length (kids st))) s1 r1 true V1) as H.
  destruct (loop_phase true s1 (seq 0 (List.length (kids st))) r1 true) as [s3 o3].
  destruct (loop_phase false (er s1) (seq 0 (List.length (kids st))) r1 true) as [s4 o4].
  destruct H as (E & O & V3). subst s4 o4. split; [reflexivity | split; [reflexivity | exact V3]].
Qed.

(* the edits keep the child caches valid *)
Lemma valid_init ks : Valid (winit ks).
Proof.
  intros c Hc. unfold winit in Hc; cbn in Hc. apply in_map_iff in Hc. destruct Hc as [p [E _]]. subst c.
  intros x Hx. discriminate.
Qed.

(* ---- the workflow-level key: what is FALSE of the code, and what the fix 4d10bb8 repaired ------------ *)
Definition ks3 : list (Z * Z) := [(3, 1); (13, 2); (23, 3)]%Z.

(* S5 at workflow level: re-wiring an input that stays connected keeps the key *)
Theorem wf_twin_refuted_rewire :
  let ops := [WConnect 2 0; WRun; WConnect 2 1; WRun] in
  wtrace true (winit ks3) ops <> wtrace false (winit ks3) ops.
Proof. vm_compute. discriminate. Qed.

(* a run served from the workflow's cache does not re-fetch a connected child input *)
Theorem wf_twin_refuted_skipped_fetch :
  let ops := [WConnect 1 0; WRun; WAssign 1 (-2); WRun; WDisconnect 1; WRun] in
  wtrace true (winit ks3) ops <> wtrace false (winit ks3) ops.
Proof. vm_compute. discriminate. Qed.

(* the history of the defect repaired by 4d10bb8 (a failed run that re-ran children, inputs restored, flag
   cleared): with the key forgotten on failure the twins agree *)
Example wf_twin_after_failed_run :
  let ops := [WConnect 1 0; WRun; WAssign 2 (-2); WAssign 0 5; WRun; WAssign 2 3; WAssign 0 1; WClear; WRun] in
  wtrace true (winit ks3) ops = wtrace false (winit ks3) ops.
Proof. vm_compute. reflexivity. Qed.

(* every state the cached workflow can reach has valid child caches *)
Lemma valid_same_kids st st' : kids st' = kids st -> Valid st -> Valid st'.
Proof. intros E V c Hc. rewrite E in Hc. apply V. exact Hc. Qed.

Lemma valid_upd st i f : (forall c, cvalid c -> cvalid (f c)) -> Valid st -> Valid (upd_kid st i f).
Proof.
  intros Hf V. unfold upd_kid. destruct (Nat.ltb i (List.length (kids st))); [|exact V].
  apply valid_set_kid; [exact V | apply Hf; apply kid_valid; exact V].
Qed.

Lemma valid_step st o : Valid st -> Valid (fst (wstep true st o)).
Proof.
  intros V. destruct o as [i v|d s|d| |]; cbn [wstep fst].
  - apply valid_upd; [|exact V]. intros c Hc x Hx. cbn in *. apply Hc. exact Hx.
  - destruct (Nat.ltb s d); [|exact V]. apply valid_upd; [|exact V]. intros c Hc x Hx. cbn in *. apply Hc. exact Hx.
  - apply valid_upd; [|exact V]. intros c Hc x Hx. cbn in *. apply Hc. exact Hx.
  - unfold run_wf. destruct (wfailed st); [exact V|].
    destruct (true && match wcache st with Some k => key_eqb k (key st) | None => false end); [exact V|].
    pose proof (body_twin st V) as H. destruct (body true st) as [s1 r1]. destruct (body false (er st)) as [s2 r2].
    destruct H as (_ & _ & V1). destruct r1; cbn [fst]; (eapply valid_same_kids; [|exact V1]); reflexivity.
  - intros c Hc. cbn in Hc. apply in_map_iff in Hc. destruct Hc as [c0 [E Hc0]]. subst c.
    intros x Hx. cbn in *. apply (V c0 Hc0). exact Hx.
Qed.

Fixpoint wexec (uc : bool) (st : wstate) (ops : list wop) : wstate :=
  match ops with [] => st | o :: r => wexec uc (fst (wstep uc st o)) r end.

Theorem valid_reachable ks ops : Valid (wexec true (winit ks) ops).
Proof.
  assert (H : forall st, Valid st -> Valid (wexec true st ops)).
  { induction ops as [|o r IH]; intros st V; cbn; [exact V | apply IH; apply valid_step; exact V]. }
  apply H. apply valid_init.
Qed.

(* a run that is NOT served from the workflow's own cache is the uncached twin's run *)
Theorem run_miss_twin st : Valid st ->
  (match wcache st with Some k => key_eqb k (key st) | None => false end) = false ->
  let '(s1, r1) := run_wf true st in
  let '(s2, r2) := run_wf false (er st) in
  er s1 = s2 /\ r1 = r2.
Proof.
  intros V Hm. unfold run_wf. cbn [wfailed er]. destruct (wfailed st) eqn:Ef; [split; reflexivity|].
  rewrite Hm. cbn [andb].
  pose proof (body_twin st V) as H. destruct (body true st) as [s1 r1]. destruct (body false (er st)) as [s2 r2].
  destruct H as (E & R & _). subst s2 r2. destruct r1; split; reflexivity.
Qed.

(* ---- Stage 2 (a): what a hit relies on -- re-running a SETTLED workflow changes nothing ------------- *)
(* a settled workflow: every child has run on the inputs it shows and nothing has been touched since *)
Definition settled_child (st : wstate) (i : nat) : Prop :=
  let c := kid st i in
  cfailed c = false /\ (0 <= own c)%Z /\ out c = Some (ck c + own c)%Z /\
  match src c with Some j => j < i /\ out (kid st j) = Some (own c) | None => True end.
Definition Settled (st : wstate) : Prop := forall i, i < List.length (kids st) -> settled_child st i.

Lemma set_nth_same {A} (l : list A) i d : i < List.length l -> set_nth l i (nth i l d) = l.
Proof.
  revert i; induction l as [|x r IH]; intros [|i] H; cbn in *; try lia; [reflexivity|]. f_equal. apply IH. lia.
Qed.

Lemma run_child_settled st i : i < List.length (kids st) -> settled_child st i -> run_child false st i = (st, CRan).
Proof.
  intros Hi (Hf & Hp & Ho & Hs). unfold run_child. remember (kid st i) as c eqn:Ec.
  assert (Ha : fetched st c = own c).
  { unfold fetched. destruct (src c) as [j|]; [|reflexivity]. destruct Hs as [_ Hj]. rewrite Hj. reflexivity. }
  rewrite Ha, Hf. cbn [andb]. assert (Hn : (own c <? 0)%Z = false) by (apply Z.ltb_ge; exact Hp). rewrite Hn.
  assert (Er : {| ck := ck c; own := own c; src := src c; out := Some (ck c + own c)%Z; ccache := ccache c; cfailed := false |} = c).
  { rewrite <- Ho, <- Hf. destruct c; reflexivity. }
  rewrite Er. f_equal. subst c. unfold set_kid, kid. destruct st as [ks wc wf]. cbn in *. f_equal.
  apply set_nth_same. exact Hi.
Qed.

Lemma start_settled st : Settled st -> forall is ran, (forall i, In i is -> i < List.length (kids st)) ->
  start_phase false st is ran = (st, rev (filter (fun i => match src (kid st i) with None => true | Some _ => false end) is) ++ ran, CRan).
Proof.
  intros S. induction is as [|i r IH]; intros ran Hb; cbn [start_phase filter rev app]; [reflexivity|].
  assert (Hi : i < List.length (kids st)) by (apply Hb; left; reflexivity).
  assert (Hr : forall j, In j r -> j < List.length (kids st)) by (intros j Hj; apply Hb; right; exact Hj).
  destruct (src (kid st i)) as [j|] eqn:Es.
  - apply IH. exact Hr.
  - rewrite (run_child_settled st i Hi (S i Hi)). rewrite (IH (i :: ran) Hr). cbn [rev]. rewrite <- app_assoc. reflexivity.
Qed.

Lemma loop_settled st : Settled st -> forall n a ran,
  a + n = List.length (kids st) ->
  (forall j, j < List.length (kids st) -> src (kid st j) = None -> In j ran) ->
  (forall j, j < a -> In j ran) ->
  loop_phase false st (seq a n) ran true = (st, true).
Proof.
  intros S. induction n as [|n IH]; intros a ran Hl Hu Hc; cbn [seq loop_phase]; [reflexivity|].
  assert (Ha : a < List.length (kids st)) by lia.
  destruct (src (kid st a)) as [j|] eqn:Es.
  - destruct (S a Ha) as (_ & _ & _ & Hs). rewrite Es in Hs. destruct Hs as [Hj _].
    assert (Hm : memn j ran = true) by (apply memn_In; apply Hc; exact Hj). rewrite Hm.
    rewrite (run_child_settled st a Ha (S a Ha)). apply IH; [lia | | ].
    + intros x Hx Hs. right. apply Hu; assumption.
    + intros x Hx. destruct (Nat.eq_dec x a) as [E|E]; [left; symmetry; exact E | right; apply Hc; lia].
  - apply IH; [lia | exact Hu |].
    intros x Hx. destruct (Nat.eq_dec x a) as [E|E]; [subst; apply Hu; assumption | apply Hc; lia].
Qed.

Theorem settled_rerun_is_identity st : Settled st -> body false st = (st, WValue).
Proof.
  intros S. unfold body.
  rewrite (start_settled st S (seq 0 (List.length (kids st))) []); [|intros i Hi; apply in_seq in Hi; lia].
  rewrite (loop_settled st S (List.length (kids st)) 0); try reflexivity; try lia.
  intros j Hj Hs. apply in_or_app. left. apply -> in_rev. apply filter_In. split; [apply in_seq; lia | rewrite Hs; reflexivity].
Qed.

(* hence a hit on a settled workflow returns exactly what the uncached twin computes *)
Theorem hit_on_settled_equals_twin st : Settled st -> wfailed st = false ->
  fst (run_wf false st) = st /\ snd (run_wf false st) = WValue.
Proof.
  intros S Hf. unfold run_wf. rewrite Hf. cbn [andb]. rewrite (settled_rerun_is_identity st S). cbn.
  destruct st as [ks wc wf]. cbn in *. subst. split; reflexivity.
Qed.

(* ---- Stage 2 (b): a successful body leaves a settled workflow ------------------------------------------ *)
Definition Forward (st : wstate) : Prop := forall i j, src (kid st i) = Some j -> j < i.

Lemma nth_set_nth_eq {A} (l : list A) i x d : i < List.length l -> nth i (set_nth l i x) d = x.
Proof. revert i; induction l as [|y r IH]; intros [|i] H; cbn in *; try lia; [reflexivity | apply IH; lia]. Qed.
Lemma nth_set_nth_neq {A} (l : list A) i j x d : i <> j -> nth j (set_nth l i x) d = nth j l d.
Proof.
  revert i j; induction l as [|y r IH]; intros [|i] [|j] H; cbn; try reflexivity; try congruence. apply IH. congruence.
Qed.
Lemma set_nth_length {A} (l : list A) i x : List.length (set_nth l i x) = List.length l.
Proof. revert i; induction l as [|y r IH]; intros [|i]; cbn; try reflexivity. f_equal. apply IH. Qed.

Lemma kid_set_eq st i c : i < List.length (kids st) -> kid (set_kid st i c) i = c.
Proof. intros H. unfold kid, set_kid; cbn. apply nth_set_nth_eq. exact H. Qed.
Lemma kid_set_neq st i j c : i <> j -> kid (set_kid st i c) j = kid st j.
Proof. intros H. unfold kid, set_kid; cbn. apply nth_set_nth_neq. exact H. Qed.

(* what one child's run does to the rest: nothing; to the structure: nothing *)
Lemma run_child_frame uc st i : i < List.length (kids st) ->
  let s1 := fst (run_child uc st i) in
  List.length (kids s1) = List.length (kids st) /\
  (forall j, j <> i -> kid s1 j = kid st j) /\
  src (kid s1 i) = src (kid st i) /\ ck (kid s1 i) = ck (kid st i).
Proof.
  intros Hi. unfold run_child.
  assert (G : forall c', src c' = src (kid st i) -> ck c' = ck (kid st i) ->
              List.length (kids (set_kid st i c')) = List.length (kids st) /\
              (forall j, j <> i -> kid (set_kid st i c') j = kid st j) /\
              src (kid (set_kid st i c') i) = src (kid st i) /\ ck (kid (set_kid st i c') i) = ck (kid st i)).
  { intros c' H1 H2. split; [unfold set_kid; cbn; apply set_nth_length|].
    split; [intros j Hj; apply kid_set_neq; congruence|]. rewrite kid_set_eq by exact Hi. split; assumption. }
  destruct (cfailed (kid st i)); [cbn [fst]; apply G; reflexivity|].
  destruct (uc && match ccache (kid st i) with Some x => Z.eqb x (fetched st (kid st i)) | None => false end);
    [cbn [fst]; apply G; reflexivity|].
  destruct (fetched st (kid st i) <? 0)%Z; cbn [fst]; apply G; reflexivity.
Qed.

(* a child that ran (with a valid cache, after a settled upstream) is settled *)
Lemma run_child_settles uc st i : i < List.length (kids st) -> Valid st ->
  (forall j, src (kid st i) = Some j -> j < i /\ exists v, out (kid st j) = Some v) ->
  snd (run_child uc st i) = CRan -> settled_child (fst (run_child uc st i)) i.
Proof.
  intros Hi V Hs. pose proof (kid_valid st i V) as Hv. unfold run_child, settled_child.
  remember (kid st i) as c eqn:Ec. set (a := fetched st c).
  assert (Hlink : match src c with Some j => j < i /\ out (kid st j) = Some a | None => True end).
  { destruct (src c) as [j|] eqn:Es; [|exact I]. destruct (Hs j eq_refl) as [Hj [v Hv']]. split; [exact Hj|].
    unfold a, fetched. rewrite Es, Hv'. reflexivity. }
  destruct (cfailed c) eqn:Ef; [cbn; discriminate|].
  destruct (uc && match ccache c with Some x => Z.eqb x a | None => false end) eqn:Eh.
  - cbn [fst snd]. intros _. rewrite kid_set_eq by exact Hi. cbn.
    apply andb_true_iff in Eh. destruct Eh as [_ Eh]. destruct (ccache c) as [x|] eqn:Ecc; [|discriminate].
    apply Z.eqb_eq in Eh. subst x. destruct (Hv a Ecc) as [Ho Hp].
    repeat split; try assumption.
    destruct (src c) as [j|]; [|exact I]. destruct Hlink as [Hj Ho']. split; [exact Hj|].
    rewrite nth_set_nth_neq by lia. exact Ho'.
  - destruct (a <? 0)%Z eqn:En; [cbn; discriminate|]. cbn [fst snd]. intros _. rewrite kid_set_eq by exact Hi. cbn.
    repeat split; try reflexivity; [apply Z.ltb_ge; exact En|].
    destruct (src c) as [j|]; [|exact I]. destruct Hlink as [Hj Ho']. split; [exact Hj|].
    rewrite nth_set_nth_neq by lia. exact Ho'.
Qed.

(* settledness of an already settled child survives the run of ANOTHER child that is not its upstream *)
Lemma settled_child_frame uc st i k : k < List.length (kids st) -> k <> i ->
  (forall j, src (kid st i) = Some j -> j <> k) ->
  settled_child st i -> settled_child (fst (run_child uc st k)) i.
Proof.
  intros Hk Hne Hup (Hf & Hp & Ho & Hs). destruct (run_child_frame uc st k Hk) as (_ & Hfr & _ & _).
  unfold settled_child. rewrite (Hfr i) by congruence. repeat split; try assumption.
  destruct (src (kid st i)) as [j|] eqn:Es; [|exact I]. destruct Hs as [Hj Hoj]. split; [exact Hj|].
  rewrite (Hfr j); [exact Hoj | apply Hup; reflexivity].
Qed.

(* the two phases: everything in [ran] is settled with its upstream in [ran]; nothing outside [ran] has run *)
Definition RanInv (st : wstate) (ran : list nat) : Prop :=
  forall i, In i ran -> i < List.length (kids st) /\ settled_child st i /\
                        (forall j, src (kid st i) = Some j -> In j ran).

Lemma raninv_step uc st ran k : Valid st -> Forward st -> RanInv st ran -> k < List.length (kids st) -> ~ In k ran ->
  (forall j, src (kid st k) = Some j -> In j ran) ->
  snd (run_child uc st k) = CRan -> RanInv (fst (run_child uc st k)) (k :: ran).
Proof.
  intros V F R Hk Hn Hup Hr i [E|Hi].
  - subst i. destruct (run_child_frame uc st k Hk) as (Hl & _ & Hsrc & _). split; [rewrite Hl; exact Hk|]. split.
    + apply run_child_settles; try assumption. intros j Hj. split; [apply (F k j Hj)|].
      destruct (R j (Hup j Hj)) as (_ & (_ & _ & Ho & _) & _). eexists. exact Ho.
    + intros j Hj. right. apply Hup. rewrite <- Hsrc. exact Hj.
  - destruct (R i Hi) as (Hil & Hs & Hu). destruct (run_child_frame uc st k Hk) as (Hl & Hfr & _ & _).
    assert (Hik : i <> k) by (intros E; subst; contradiction).
    split; [rewrite Hl; exact Hil|]. split.
    + apply settled_child_frame; try assumption; [congruence|]. intros j Hj E. subst j. apply Hn. apply Hu. exact Hj.
    + intros j Hj. right. apply Hu. rewrite <- (Hfr i) by congruence. exact Hj.
Qed.

Lemma forward_frame uc st k : k < List.length (kids st) -> Forward st -> Forward (fst (run_child uc st k)).
Proof.
  intros Hk F i j Hs. destruct (run_child_frame uc st k Hk) as (_ & Hfr & Hsrc & _).
  destruct (Nat.eq_dec i k) as [E|E]; [subst; rewrite Hsrc in Hs; apply F; exact Hs | rewrite (Hfr i) in Hs by congruence; apply F; exact Hs].
Qed.


Definition SameShape (s1 st : wstate) : Prop :=
  List.length (kids s1) = List.length (kids st) /\ forall j, src (kid s1 j) = src (kid st j).

Lemma sameshape_refl st : SameShape st st.
Proof. split; [reflexivity | intros j; reflexivity]. Qed.
Lemma sameshape_trans a b c : SameShape a b -> SameShape b c -> SameShape a c.
Proof. intros [L1 S1] [L2 S2]. split; [congruence | intros j; rewrite S1; apply S2]. Qed.
Lemma sameshape_run uc st k : k < List.length (kids st) -> SameShape (fst (run_child uc st k)) st.
Proof.
  intros Hk. destruct (run_child_frame uc st k Hk) as (Hl & Hfr & Hs & _). split; [exact Hl|].
  intros j. destruct (Nat.eq_dec j k) as [E|E]; [subst; exact Hs | rewrite (Hfr j) by exact E; reflexivity].
Qed.

Lemma valid_run_true st k : Valid st -> Valid (fst (run_child true st k)).
Proof.
  intros V. pose proof (run_child_twin st k V) as H.
  destruct (run_child true st k) as [s1 x1]. destruct (run_child false (er st) k) as [s2 x2]. destruct H as (_ & _ & V1). exact V1.
Qed.

Lemma start_true_inv : forall is st ran, Valid st -> Forward st -> RanInv st ran -> NoDup is ->
  (forall i, In i is -> i < List.length (kids st) /\ ~ In i ran) ->
  forall s1 r1, start_phase true st is ran = (s1, r1, CRan) ->
  Valid s1 /\ Forward s1 /\ RanInv s1 r1 /\ SameShape s1 st /\
  (forall i, In i ran -> In i r1) /\
  (forall i, In i is -> src (kid st i) = None -> In i r1) /\
  (forall i, In i r1 -> In i ran \/ (In i is /\ src (kid st i) = None)).
Proof.
  induction is as [|k r IH]; intros st ran V F R Hnd Hb s1 r1 E; cbn [start_phase] in E.
  - inversion E; subst. split; [exact V|]. split; [exact F|]. split; [exact R|]. split; [apply sameshape_refl|].
    split; [intros i Hi; exact Hi|]. split; [intros i []|]. intros i Hi. left. exact Hi.
  - inversion Hnd as [|? ? Hk Hr]; subst.
    destruct (Hb k (or_introl eq_refl)) as [Hkl Hkn].
    destruct (src (kid st k)) as [j|] eqn:Es.
    + destruct (IH st ran V F R Hr (fun i Hi => Hb i (or_intror Hi)) s1 r1 E) as (A & B & C & D & E1 & E2 & E3).
      split; [exact A|]. split; [exact B|]. split; [exact C|]. split; [exact D|]. split; [exact E1|]. split.
      * intros i [Ei|Hi] Hs; [subst; congruence | apply E2; assumption].
      * intros i Hi. destruct (E3 i Hi) as [H|[H1 H2]]; [left; exact H | right; split; [right; exact H1 | exact H2]].
    + destruct (run_child true st k) as [st1 x] eqn:Er. destruct x; try discriminate.
      assert (V1 : Valid st1) by (pose proof (valid_run_true st k V) as H; rewrite Er in H; exact H).
      assert (F1 : Forward st1) by (pose proof (forward_frame true st k Hkl F) as H; rewrite Er in H; exact H).
      assert (Sh : SameShape st1 st) by (pose proof (sameshape_run true st k Hkl) as H; rewrite Er in H; exact H).
      assert (R1 : RanInv st1 (k :: ran)).
      { pose proof (raninv_step true st ran k V F R Hkl Hkn) as H. rewrite Er in H. apply H; [|reflexivity].
        intros j Hj. congruence. }
      destruct Sh as [Hl Hsrc].
      destruct (IH st1 (k :: ran) V1 F1 R1 Hr) with (s1 := s1) (r1 := r1) as (A & B & C & D & E1 & E2 & E3); [| exact E |].
      * intros i Hi. destruct (Hb i (or_intror Hi)) as [H1 H2]. split; [rewrite Hl; exact H1|].
        intros [Ei|Hin]; [subst; contradiction | contradiction].
      * split; [exact A|]. split; [exact B|]. split; [exact C|]. split; [|split; [|split]].
        -- eapply sameshape_trans; [exact D | split; assumption].
        -- intros i Hi. apply E1. right. exact Hi.
        -- intros i [Ei|Hi] Hs; [subst; apply E1; left; reflexivity | apply E2; [exact Hi | rewrite Hsrc; exact Hs]].
        -- intros i Hi. destruct (E3 i Hi) as [[Ei|H]|[H1 H2]].
           ++ subst. right. split; [left; reflexivity | exact Es].
           ++ left. exact H.
           ++ right. split; [right; exact H1 | rewrite <- Hsrc; exact H2].
Qed.

Lemma loop_false_stays uc is : forall st ran, snd (loop_phase uc st is ran false) = false.
Proof.
  induction is as [|i r IH]; intros st ran; cbn [loop_phase]; [reflexivity|].
  destruct (src (kid st i)) as [j|]; [|apply IH]. destruct (memn j ran); [|apply IH].
  destruct (run_child uc st i) as [s1 x]. destruct x; apply IH.
Qed.

Lemma loop_true_inv : forall n a st ran, a + n = List.length (kids st) ->
  Valid st -> Forward st -> RanInv st ran ->
  (forall j, j < List.length (kids st) -> src (kid st j) = None -> In j ran) ->
  (forall j, j < a -> In j ran) ->
  (forall i, In i ran -> src (kid st i) <> None -> i < a) ->
  forall s1, loop_phase true st (seq a n) ran true = (s1, true) ->
  SameShape s1 st /\ forall i, i < List.length (kids s1) -> settled_child s1 i.
Proof.
  induction n as [|n IH]; intros a st ran Hl V F R Hu Hc Hlt s1 E; cbn [seq loop_phase] in E.
  - inversion E; subst. split; [apply sameshape_refl|]. intros i Hi. apply R. apply Hc. lia.
  - assert (Ha : a < List.length (kids st)) by lia.
    destruct (src (kid st a)) as [j|] eqn:Es.
    + assert (Hj : In j ran) by (apply Hc; apply (F a j Es)).
      assert (Hm : memn j ran = true) by (apply memn_In; exact Hj). rewrite Hm in E.
      destruct (run_child true st a) as [st1 x] eqn:Er.
      destruct x; try (exfalso; pose proof (loop_false_stays true (seq (S a) n) st1 ran) as Hf; rewrite E in Hf; discriminate).
      assert (Hna : ~ In a ran).
      { intros Hin. assert (a < a) by (apply Hlt; [exact Hin | congruence]). lia. }
      assert (V1 : Valid st1) by (pose proof (valid_run_true st a V) as H; rewrite Er in H; exact H).
      assert (F1 : Forward st1) by (pose proof (forward_frame true st a Ha F) as H; rewrite Er in H; exact H).
      assert (Sh : SameShape st1 st) by (pose proof (sameshape_run true st a Ha) as H; rewrite Er in H; exact H).
      assert (R1 : RanInv st1 (a :: ran)).
      { pose proof (raninv_step true st ran a V F R Ha Hna) as H. rewrite Er in H. apply H; [|reflexivity].
        intros j' Hj'. rewrite Es in Hj'. inversion Hj'; subst. exact Hj. }
      destruct Sh as [Hl1 Hsrc].
      destruct (IH (S a) st1 (a :: ran)) with (s1 := s1) as [D S']; try assumption; try lia.
      * intros x Hx Hs. right. apply Hu; [lia | rewrite <- Hsrc; exact Hs].
      * intros x Hx. destruct (Nat.eq_dec x a) as [Ex|Ex]; [left; symmetry; exact Ex | right; apply Hc; lia].
      * intros i [Ei|Hi] Hs; [subst; lia|]. assert (i < a) by (apply Hlt; [exact Hi | rewrite <- Hsrc; exact Hs]). lia.
      * split; [eapply sameshape_trans; [exact D | split; assumption] | exact S'].
    + destruct (IH (S a) st ran) with (s1 := s1) as [D S']; try assumption; try lia.
      * intros x Hx. destruct (Nat.eq_dec x a) as [Ex|Ex]; [subst; apply Hu; assumption | apply Hc; lia].
      * intros i Hi Hs. assert (i < a) by (apply Hlt; assumption). lia.
      * split; assumption.
Qed.

Theorem body_success_settles st s1 : Valid st -> Forward st -> body true st = (s1, WValue) -> Settled s1 /\ SameShape s1 st.
Proof.
  intros V F E. unfold body in E.
  destruct (start_phase true st (seq 0 (List.length (kids st))) []) as [[st1 ran] x] eqn:Es.
  destruct x; try discriminate.
  assert (R0 : RanInv st []) by (intros i []).
  destruct (start_true_inv (seq 0 (List.length (kids st))) st [] V F R0 (seq_NoDup _ _)) with (s1 := st1) (r1 := ran)
    as (V1 & F1 & R1 & [Hl Hsrc] & _ & E2 & E3); [| exact Es |].
  { intros i Hi. apply in_seq in Hi. split; [lia | intros []]. }
  destruct (loop_phase true st1 (seq 0 (List.length (kids st))) ran true) as [st2 ok] eqn:El.
  destruct ok; [|discriminate]. inversion E; subst s1.
  rewrite <- Hl in El.
  destruct (loop_true_inv (List.length (kids st1)) 0 st1 ran) with (s1 := st2) as [D S']; try assumption; try lia.
  - intros j Hj Hs. apply E2; [apply in_seq; lia | rewrite <- Hsrc; exact Hs].
  - intros i Hi Hs. destruct (E3 i Hi) as [[]|[_ H]]. exfalso. apply Hs. rewrite Hsrc. exact H.
  - split; [exact S' | eapply sameshape_trans; [exact D | split; assumption]].
Qed.

(* ---- the shape (length, wiring) of a workflow only changes by connect / disconnect -------------------- *)
Lemma start_shape uc is : forall st ran, (forall i, In i is -> i < List.length (kids st)) ->
  SameShape (fst (fst (start_phase uc st is ran))) st.
Proof.
  induction is as [|k r IH]; intros st ran Hb; cbn [start_phase]; [apply sameshape_refl|].
  assert (Hk : k < List.length (kids st)) by (apply Hb; left; reflexivity).
  destruct (src (kid st k)); [apply IH; intros i Hi; apply Hb; right; exact Hi|].
  pose proof (sameshape_run uc st k Hk) as Sh. destruct (run_child uc st k) as [s1 x]. cbn [fst] in Sh.
  destruct x; cbn [fst]; try exact Sh.
  eapply sameshape_trans; [apply IH | exact Sh]. intros i Hi. destruct Sh as [Hl _]. rewrite Hl. apply Hb. right. exact Hi.
Qed.

Lemma loop_shape uc is : forall st ran ok, (forall i, In i is -> i < List.length (kids st)) ->
  SameShape (fst (loop_phase uc st is ran ok)) st.
Proof.
  induction is as [|k r IH]; intros st ran ok Hb; cbn [loop_phase]; [apply sameshape_refl|].
  assert (Hk : k < List.length (kids st)) by (apply Hb; left; reflexivity).
  assert (Hr : forall i, In i r -> i < List.length (kids st)) by (intros i Hi; apply Hb; right; exact Hi).
  destruct (src (kid st k)) as [j|]; [|apply IH; exact Hr]. destruct (memn j ran); [|apply IH; exact Hr].
  pose proof (sameshape_run uc st k Hk) as Sh. destruct (run_child uc st k) as [s1 x]. cbn [fst] in Sh.
  assert (Hr1 : forall i, In i r -> i < List.length (kids s1)) by (intros i Hi; destruct Sh as [Hl _]; rewrite Hl; apply Hr; exact Hi).
  destruct x; (eapply sameshape_trans; [apply IH; exact Hr1 | exact Sh]).
Qed.

Lemma body_shape uc st : SameShape (fst (body uc st)) st.
Proof.
  unfold body. pose proof (start_shape uc (seq 0 (List.length (kids st))) st []) as H1.
  destruct (start_phase uc st (seq 0 (List.length (kids st))) []) as [[s1 ran] x]. cbn [fst] in H1.
  assert (Sh1 : SameShape s1 st) by (apply H1; intros i Hi; apply in_seq in Hi; lia).
  destruct x; cbn [fst]; try exact Sh1.
  pose proof (loop_shape uc (seq 0 (List.length (kids st))) s1 ran true) as H2.
  destruct (loop_phase uc s1 (seq 0 (List.length (kids st))) ran true) as [s2 ok]. cbn [fst] in *.
  eapply sameshape_trans; [apply H2 | exact Sh1]. intros i Hi. apply in_seq in Hi. destruct Sh1 as [Hl _]. lia.
Qed.

Lemma forward_shape s1 st : SameShape s1 st -> Forward st -> Forward s1.
Proof. intros [_ Hs] F i j H. rewrite Hs in H. apply F. exact H. Qed.

Lemma kid_default st i : List.length (kids st) <= i -> kid st i = dchild.
Proof. intros H. unfold kid. apply nth_overflow. exact H. Qed.

Lemma forward_step st o : Forward st -> Forward (fst (wstep true st o)).
Proof.
  intros F. destruct o as [i v|d s|d| |]; cbn [wstep fst].
  - unfold upd_kid. destruct (Nat.ltb i (List.length (kids st))) eqn:El; [|exact F]. apply Nat.ltb_lt in El.
    intros a b H. destruct (Nat.eq_dec a i) as [E|E];
      [subst; rewrite kid_set_eq in H by exact El; cbn in H; apply F; exact H | rewrite kid_set_neq in H by congruence; apply F; exact H].
  - destruct (Nat.ltb s d) eqn:Es; [|exact F]. apply Nat.ltb_lt in Es.
    unfold upd_kid. destruct (Nat.ltb d (List.length (kids st))) eqn:El; [|exact F]. apply Nat.ltb_lt in El.
    intros a b H. destruct (Nat.eq_dec a d) as [E|E];
      [subst; rewrite kid_set_eq in H by exact El; cbn in H; inversion H; subst; exact Es | rewrite kid_set_neq in H by congruence; apply F; exact H].
  - unfold upd_kid. destruct (Nat.ltb d (List.length (kids st))) eqn:El; [|exact F]. apply Nat.ltb_lt in El.
    intros a b H. destruct (Nat.eq_dec a d) as [E|E];
      [subst; rewrite kid_set_eq in H by exact El; cbn in H; discriminate | rewrite kid_set_neq in H by congruence; apply F; exact H].
  - unfold run_wf. destruct (wfailed st); [exact F|].
    destruct (true && match wcache st with Some k => key_eqb k (key st) | None => false end); [exact F|].
    pose proof (body_shape true st) as Sh. destruct (body true st) as [s1 r]. cbn [fst] in Sh.
    assert (F1 : Forward s1) by (apply (forward_shape s1 st Sh F)).
    destruct r; cbn [fst]; intros a b H; apply (F1 a b); exact H.
  - intros a b H. unfold kid in H. cbn in H.
    change dchild with ((fun c => {| ck := ck c; own := own c; src := src c; out := out c; ccache := ccache c; cfailed := false |}) dchild) in H.
    rewrite map_nth in H. cbn in H. apply F. exact H.
Qed.

Theorem forward_reachable ks ops : Forward (wexec true (winit ks) ops).
Proof.
  assert (H : forall st, Forward st -> Forward (wexec true st ops)).
  { induction ops as [|o r IH]; intros st F; cbn; [exact F | apply IH; apply forward_step; exact F]. }
  apply H. intros i j Hs. unfold kid, winit in Hs. cbn in Hs.
  destruct (nth_in_or_default i (map (fun p : Z * Z => {| ck := fst p; own := snd p; src := None; out := None; ccache := None; cfailed := false |}) ks) dchild) as [Hin|Hd].
  - apply in_map_iff in Hin. destruct Hin as [p [E _]]. rewrite <- E in Hs. discriminate.
  - rewrite Hd in Hs. discriminate.
Qed.

Lemma key_eqb_refl k : key_eqb k k = true.
Proof. induction k as [|[i x] r IH]; cbn; [reflexivity|]. rewrite Nat.eqb_refl, Z.eqb_refl, IH. reflexivity. Qed.

Lemma settled_er st : Settled st -> Settled (er st).
Proof.
  intros S i Hi. rewrite er_length in Hi. destruct (S i Hi) as (Hf & Hp & Ho & Hs).
  unfold settled_child. rewrite kid_er. cbn [er_child cfailed own out ck src]. repeat split; try assumption.
  destruct (src (kid st i)) as [j|]; [|exact I]. destruct Hs as [Hj Hoj]. split; [exact Hj|]. rewrite kid_er. exact Hoj.
Qed.

(* Every successful run that was really executed leaves a state in which running AGAIN, nothing touched, is
   (i) served from the workflow's cache and (ii) exactly what the uncached twin does: nothing changes. *)
Theorem repeat_run_sound ks ops s1 :
  let st := wexec true (winit ks) ops in
  (match wcache st with Some k => key_eqb k (key st) | None => false end) = false ->
  run_wf true st = (s1, WValue) ->
  run_wf true s1 = (s1, WValue) /\ run_wf false (er s1) = (er s1, WValue).
Proof.
  intros st Hm E. unfold run_wf in E. destruct (wfailed st) eqn:Ef; [discriminate|]. rewrite Hm in E. cbn [andb] in E.
  destruct (body true st) as [st1 r] eqn:Eb. destruct r; try discriminate. inversion E; subst s1. clear E.
  destruct (body_success_settles st st1 (valid_reachable ks ops) (forward_reachable ks ops) Eb) as [S _].
  split.
  - unfold run_wf. cbn [wfailed wcache andb]. unfold key at 1. cbn [kids]. fold (key st1). rewrite key_eqb_refl. reflexivity.
  - set (s1 := {| kids := kids st1; wcache := Some (key st1); wfailed := false |}).
    assert (S1 : Settled s1) by (intros i Hi; apply (S i Hi)).
    pose proof (hit_on_settled_equals_twin (er s1) (settled_er s1 S1) eq_refl) as [H1 H2].
    destruct (run_wf false (er s1)) as [a b]. cbn in H1, H2. subst. reflexivity.
Qed.

(* ---- Stage 2 (c): the twin theorem over whole histories, under the guard "every hit happens in a settled
   state" (the two known findings are exactly the histories that break it) ------------------------------ *)
Definition is_hit (st : wstate) : bool :=
  negb (wfailed st) && match wcache st with Some k => key_eqb k (key st) | None => false end.

Fixpoint hits_settled (st : wstate) (ops : list wop) : Prop :=
  match ops with
  | [] => True
  | o :: r => (o = WRun -> is_hit st = true -> Settled st) /\ hits_settled (fst (wstep true st o)) r
  end.

Lemma er_upd_kid st i f g : (forall c, er_child (f c) = g (er_child c)) ->
  er (upd_kid st i f) = upd_kid (er st) i g.
Proof.
  intros H. unfold upd_kid. rewrite er_length. destruct (Nat.ltb i (List.length (kids st))); [|reflexivity].
  rewrite er_set_kid, H, kid_er. reflexivity.
Qed.

Lemma visible_er st : visible (er st) = visible st.
Proof.
  unfold visible, er; cbn. rewrite !map_map. reflexivity.
Qed.

Lemma step_twin st o : Valid st -> (o = WRun -> is_hit st = true -> Settled st) ->
  let '(s1, r1) := wstep true st o in
  let '(s2, r2) := wstep false (er st) o in
  er s1 = s2 /\ r1 = r2.
Proof.
  intros V G. destruct o as [i v|d s|d| |]; cbn [wstep].
  - split; [|reflexivity]. apply er_upd_kid. intros c. reflexivity.
  - split; [|reflexivity]. destruct (Nat.ltb s d); [|reflexivity]. apply er_upd_kid. intros c. reflexivity.
  - split; [|reflexivity]. apply er_upd_kid. intros c. reflexivity.
  - destruct (is_hit st) eqn:Eh.
    + (* served from the cache, in a settled state: the twin's run changes nothing either *)
      pose proof (G eq_refl eq_refl) as S. unfold is_hit in Eh. apply andb_true_iff in Eh. destruct Eh as [Ef Ek].
      apply negb_true_iff in Ef. unfold run_wf at 1. rewrite Ef, Ek. cbn [andb].
      destruct (hit_on_settled_equals_twin (er st) (settled_er st S) Ef) as [H1 H2].
      destruct (run_wf false (er st)) as [a b]. cbn in H1, H2. subst. split; reflexivity.
    + unfold is_hit in Eh. destruct (wfailed st) eqn:Ef.
      * unfold run_wf. cbn [wfailed er]. rewrite Ef. split; reflexivity.
      * cbn [negb andb] in Eh. apply (run_miss_twin st V Eh).
  - split; [|reflexivity]. unfold er; cbn. f_equal. rewrite !map_map. reflexivity.
Qed.

Theorem twin_if_hits_settled ops : forall st, Valid st -> hits_settled st ops ->
  wtrace true st ops = wtrace false (er st) ops.
Proof.
  induction ops as [|o r IH]; intros st V H; cbn [wtrace]; [reflexivity|].
  destruct H as [G Hr]. pose proof (step_twin st o V G) as T. pose proof (valid_step st o V) as V1.
  destruct (wstep true st o) as [s1 r1]. destruct (wstep false (er st) o) as [s2 r2]. cbn [fst] in *.
  destruct T as [E R]. subst s2 r2. rewrite visible_er. f_equal. apply IH; assumption.
Qed.

Lemma er_init ks : er (winit ks) = winit ks.
Proof. unfold er, winit; cbn. f_equal. rewrite map_map. reflexivity. Qed.

Theorem wf_twin_if_hits_settled ks ops : hits_settled (winit ks) ops ->
  wtrace true (winit ks) ops = wtrace false (winit ks) ops.
Proof. intros H. rewrite <- (er_init ks) at 2. apply twin_if_hits_settled; [apply valid_init | exact H]. Qed.

(* a boolean checker for the guard, sound (used for the worked examples) *)
Definition settled_childb (st : wstate) (i : nat) : bool :=
  let c := kid st i in
  negb (cfailed c) && (0 <=? own c)%Z &&
  match out c with Some v => (v =? ck c + own c)%Z | None => false end &&
  match src c with
  | Some j => Nat.ltb j i && match out (kid st j) with Some v => (v =? own c)%Z | None => false end
  | None => true
  end.
Definition settledb (st : wstate) : bool := forallb (settled_childb st) (seq 0 (List.length (kids st))).

Lemma settledb_sound st : settledb st = true -> Settled st.
Proof.
  unfold settledb. rewrite forallb_forall. intros H i Hi. specialize (H i).
  assert (Hin : In i (seq 0 (List.length (kids st)))) by (apply in_seq; lia). specialize (H Hin).
  unfold settled_childb in H. unfold settled_child.
  apply andb_true_iff in H. destruct H as [H H4]. apply andb_true_iff in H. destruct H as [H H3].
  apply andb_true_iff in H. destruct H as [H1 H2].
  apply negb_true_iff in H1. apply Z.leb_le in H2.
  destruct (out (kid st i)) as [v|] eqn:Eo; [|discriminate]. apply Z.eqb_eq in H3. subst v.
  repeat split; try assumption.
  destruct (src (kid st i)) as [j|]; [|exact I]. apply andb_true_iff in H4. destruct H4 as [Hj Hv]. apply Nat.ltb_lt in Hj.
  split; [exact Hj|]. destruct (out (kid st j)) as [v|]; [|discriminate]. apply Z.eqb_eq in Hv. subst. reflexivity.
Qed.

Fixpoint hits_settledb (st : wstate) (ops : list wop) : bool :=
  match ops with
  | [] => true
  | o :: r => (match o with WRun => if is_hit st then settledb st else true | _ => true end) &&
              hits_settledb (fst (wstep true st o)) r
  end.

Lemma hits_settledb_sound ops : forall st, hits_settledb st ops = true -> hits_settled st ops.
Proof.
  induction ops as [|o r IH]; intros st H; cbn [hits_settledb hits_settled] in *; [exact I|].
  apply andb_true_iff in H. destruct H as [H1 H2]. split; [|apply IH; exact H2].
  intros Eo Eh. subst o. rewrite Eh in H1. apply settledb_sound. exact H1.
Qed.
