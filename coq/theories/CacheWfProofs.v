(* CacheWfProofs.v -- C05 for a Workflow of function nodes (CacheWf.v).
   Stage 1: inside one run of the workflow's body the children's caches are transparent -- for EVERY
   workflow (any number of children, any forward wiring, any constants, any state of outputs and flags)
   whose child caches are valid, the body with caching on and the body with caching off do the same thing
   to everything but the caches.  Stage 2 statements about the workflow-level key are examples/refutations
   evaluated on the model (the two known findings, and the history of the defect fixed by 4d10bb8). *)
From PW Require Import Base CacheWf.

(* erasure of the remembered inputs: what the uncached twin carries *)
Definition er_child (c : child) : child :=
  {| ck := ck c; own := own c; src := src c; out := out c; ccache := None; cfailed := cfailed c |}.
Definition er (st : wstate) : wstate :=
  {| kids := map er_child (kids st); wcache := None; wfailed := wfailed st |}.

(* a child's remembered input, when present, is the input its output was computed from *)
Definition cvalid (c : child) : Prop :=
  forall x, ccache c = Some x -> out c = Some (ck c + x)%Z /\ (0 <= x)%Z.
Definition Valid (st : wstate) : Prop := forall c, In c (kids st) -> cvalid c.

Lemma kid_er st i : kid (er st) i = er_child (kid st i).
Proof.
  unfold kid, er; cbn. change dchild with (er_child dchild) at 1. apply map_nth.
Qed.

Lemma set_nth_map {A B} (f : A -> B) l n x : map f (set_nth l n x) = set_nth (map f l) n (f x).
Proof. revert n; induction l as [|y r IH]; intros [|n]; cbn; try reflexivity. f_equal. apply IH. Qed.

Lemma er_set_kid st i c : er (set_kid st i c) = set_kid (er st) i (er_child c).
Proof. unfold er, set_kid; cbn. f_equal. apply set_nth_map. Qed.

Lemma fetched_er st c : fetched (er st) (er_child c) = fetched st c.
Proof. unfold fetched. cbn [src er_child own]. destruct (src c) as [j|]; [rewrite kid_er; cbn [out er_child]|]; reflexivity. Qed.

Lemma in_set_nth {A} (l : list A) n x y : In y (set_nth l n x) -> y = x \/ In y l.
Proof.
  revert n; induction l as [|z r IH]; intros [|n]; cbn; try tauto.
  - intros [H|H]; [left; symmetry; exact H | right; right; exact H].
  - intros [H|H]; [right; left; exact H | destruct (IH n H) as [E|E]; [left; exact E | right; right; exact E]].
Qed.

Lemma valid_set_kid st i c : Valid st -> cvalid c -> Valid (set_kid st i c).
Proof.
  intros V Hc d Hd. unfold set_kid in Hd; cbn in Hd. destruct (in_set_nth _ _ _ _ Hd) as [E|E]; [subst; exact Hc | apply V; exact E].
Qed.

Lemma kid_valid st i : Valid st -> cvalid (kid st i).
Proof.
  intros V. unfold kid. destruct (nth_in_or_default i (kids st) dchild) as [H|H]; [apply V; exact H|].
  rewrite H. intros x Hx. discriminate.
Qed.

(* one child: with a valid cache, caching on and off agree on everything but the cache *)
Lemma run_child_twin st i : Valid st ->
  let '(s1, x1) := run_child true st i in
  let '(s2, x2) := run_child false (er st) i in
  er s1 = s2 /\ x1 = x2 /\ Valid s1.
Proof.
  intros V. unfold run_child. rewrite kid_er. rewrite fetched_er. cbn [cfailed er_child ccache ck own src out].
  pose proof (kid_valid st i V) as Hv. set (c := kid st i) in *. set (a := fetched st c).
  destruct (cfailed c) eqn:Ef.
  - rewrite er_set_kid. split; [reflexivity | split; [reflexivity|]].
    apply valid_set_kid; [exact V|]. intros x Hx. cbn in *. apply Hv. exact Hx.
  - cbn [andb]. destruct (ccache c) as [x|] eqn:Ec.
    + destruct (Z.eqb x a) eqn:Ex.
      * (* hit: the uncached twin recomputes the very same output *)
        apply Z.eqb_eq in Ex. destruct (Hv x Ec) as [Ho Hx]. subst x.
        assert (Hneg : (a <? 0)%Z = false) by (apply Z.ltb_ge; exact Hx). rewrite Hneg.
        rewrite er_set_kid. cbn [er_child ck own src out ccache cfailed]. rewrite Ho.
        split; [reflexivity | split; [reflexivity|]].
        apply valid_set_kid; [exact V|]. intros y Hy. cbn in Hy |- *. inversion Hy; subst. split; [reflexivity | exact Hx].
      * destruct (a <? 0)%Z eqn:En; rewrite er_set_kid; cbn [er_child ck own src out ccache cfailed];
          (split; [reflexivity | split; [reflexivity|]]); (apply valid_set_kid; [exact V|]);
          intros y Hy; cbn in *; [discriminate|]. inversion Hy; subst. split; [reflexivity | apply Z.ltb_ge; exact En].
    + destruct (a <? 0)%Z eqn:En; rewrite er_set_kid; cbn [er_child ck own src out ccache cfailed];
        (split; [reflexivity | split; [reflexivity|]]); (apply valid_set_kid; [exact V|]);
        intros y Hy; cbn in *; [discriminate|]. inversion Hy; subst. split; [reflexivity | apply Z.ltb_ge; exact En].
Qed.

Lemma start_twin is : forall st ran, Valid st ->
  let '(s1, r1, x1) := start_phase true st is ran in
  let '(s2, r2, x2) := start_phase false (er st) is ran in
  er s1 = s2 /\ r1 = r2 /\ x1 = x2 /\ Valid s1.
Proof.
  induction is as [|i r IH]; intros st ran V; cbn [start_phase].
  - split; [reflexivity | split; [reflexivity | split; [reflexivity | exact V]]].
  - rewrite kid_er. cbn [src er_child]. destruct (src (kid st i)) as [j|].
    + apply IH. exact V.
    + pose proof (run_child_twin st i V) as H.
      destruct (run_child true st i) as [s1 x1]. destruct (run_child false (er st) i) as [s2 x2].
      destruct H as (E & X & V1). subst s2 x2.
      destruct x1; [apply IH; exact V1 | |]; (split; [reflexivity | split; [reflexivity | split; [reflexivity | exact V1]]]).
Qed.

Lemma loop_twin is : forall st ran ok, Valid st ->
  let '(s1, o1) := loop_phase true st is ran ok in
  let '(s2, o2) := loop_phase false (er st) is ran ok in
  er s1 = s2 /\ o1 = o2 /\ Valid s1.
Proof.
  induction is as [|i r IH]; intros st ran ok V; cbn [loop_phase].
  - split; [reflexivity | split; [reflexivity | exact V]].
  - rewrite kid_er. cbn [src er_child]. destruct (src (kid st i)) as [j|]; [|apply IH; exact V].
    destruct (memn j ran); [|apply IH; exact V].
    pose proof (run_child_twin st i V) as H.
    destruct (run_child true st i) as [s1 x1]. destruct (run_child false (er st) i) as [s2 x2].
    destruct H as (E & X & V1). subst s2 x2. destruct x1; apply IH; exact V1.
Qed.

Lemma er_length st : List.length (kids (er st)) = List.length (kids st).
Proof. unfold er; cbn. apply map_length. Qed.

Theorem body_twin st : Valid st ->
  let '(s1, r1) := body true st in
  let '(s2, r2) := body false (er st) in
  er s1 = s2 /\ r1 = r2 /\ Valid s1.
Proof.
  intros V. unfold body. rewrite er_length.
  pose proof (start_twin (seq 0 (List.length (kids st))) st [] V) as H.
  destruct (start_phase true st (seq 0 (List.length (kids st))) []) as [[s1 r1] x1].
  destruct (start_phase false (er st) (seq 0 (List.length (kids st))) []) as [[s2 r2] x2].
  destruct H as (E & R & X & V1). subst s2 r2 x2.
  destruct x1; try (split; [reflexivity | split; [reflexivity | exact V1]]).
  pose proof (loop_twin (seq 0 (List.length (kids st))) s1 r1 true V1) as H.
  destruct (loop_phase true s1 (seq 0 (List.length (kids st))) r1 true) as [s3 o3].
  destruct (loop_phase false (er s1) (seq 0 (List.length (kids st))) r1 true) as [s4 o4].
  destruct H as (E & O & V3). subst s4 o4. split; [reflexivity | split; [reflexivity | exact V3]].
Qed.

(* the edits keep the child caches valid *)
Lemma valid_init ks : Valid (winit ks).
Proof.
  intros c Hc. unfold winit in Hc; cbn in Hc. apply in_map_iff in Hc. destruct Hc as [p [E _]]. subst c.
  intros x Hx. discriminate.
Qed.

(* ---- the workflow-level key: what is FALSE of the code, and what the fix 4d10bb8 repaired ------------ *)
Definition ks3 : list (Z * Z) := [(3, 1); (13, 2); (23, 3)]%Z.

(* S5 at workflow level: re-wiring an input that stays connected keeps the key *)
Theorem wf_twin_refuted_rewire :
  let ops := [WConnect 2 0; WRun; WConnect 2 1; WRun] in
  wtrace true (winit ks3) ops <> wtrace false (winit ks3) ops.
Proof. vm_compute. discriminate. Qed.

(* a run served from the workflow's cache does not re-fetch a connected child input *)
Theorem wf_twin_refuted_skipped_fetch :
  let ops := [WConnect 1 0; WRun; WAssign 1 (-2); WRun; WDisconnect 1; WRun] in
  wtrace true (winit ks3) ops <> wtrace false (winit ks3) ops.
Proof. vm_compute. discriminate. Qed.

(* the history of the defect repaired by 4d10bb8 (a failed run that re-ran children, inputs restored, flag
   cleared): with the key forgotten on failure the twins agree *)
Example wf_twin_after_failed_run :
  let ops := [WConnect 1 0; WRun; WAssign 2 (-2); WAssign 0 5; WRun; WAssign 2 3; WAssign 0 1; WClear; WRun] in
  wtrace true (winit ks3) ops = wtrace false (winit ks3) ops.
Proof. vm_compute. reflexivity. Qed.

(* every state the cached workflow can reach has valid child caches *)
Lemma valid_same_kids st st' : kids st' = kids st -> Valid st -> Valid st'.
Proof. intros E V c Hc. rewrite E in Hc. apply V. exact Hc. Qed.

Lemma valid_upd st i f : (forall c, cvalid c -> cvalid (f c)) -> Valid st -> Valid (upd_kid st i f).
Proof.
  intros Hf V. unfold upd_kid. destruct (Nat.ltb i (List.length (kids st))); [|exact V].
  apply valid_set_kid; [exact V | apply Hf; apply kid_valid; exact V].
Qed.

Lemma valid_step st o : Valid st -> Valid (fst (wstep true st o)).
Proof.
  intros V. destruct o as [i v|d s|d| |]; cbn [wstep fst].
  - apply valid_upd; [|exact V]. intros c Hc x Hx. cbn in *. apply Hc. exact Hx.
  - destruct (Nat.ltb s d); [|exact V]. apply valid_upd; [|exact V]. intros c Hc x Hx. cbn in *. apply Hc. exact Hx.
  - apply valid_upd; [|exact V]. intros c Hc x Hx. cbn in *. apply Hc. exact Hx.
  - unfold run_wf. destruct (wfailed st); [exact V|].
    destruct (true && match wcache st with Some k => key_eqb k (key st) | None => false end); [exact V|].
    pose proof (body_twin st V) as H. destruct (body true st) as [s1 r1]. destruct (body false (er st)) as [s2 r2].
    destruct H as (_ & _ & V1). destruct r1; cbn [fst]; (eapply valid_same_kids; [|exact V1]); reflexivity.
  - intros c Hc. cbn in Hc. apply in_map_iff in Hc. destruct Hc as [c0 [E Hc0]]. subst c.
    intros x Hx. cbn in *. apply (V c0 Hc0). exact Hx.
Qed.

Fixpoint wexec (uc : bool) (st : wstate) (ops : list wop) : wstate :=
  match ops with [] => st | o :: r => wexec uc (fst (wstep uc st o)) r end.

Theorem valid_reachable ks ops : Valid (wexec true (winit ks) ops).
Proof.
  assert (H : forall st, Valid st -> Valid (wexec true st ops)).
  { induction ops as [|o r IH]; intros st V; cbn; [exact V | apply IH; apply valid_step; exact V]. }
  apply H. apply valid_init.
Qed.

(* a run that is NOT served from the workflow's own cache is the uncached twin's run *)
Theorem run_miss_twin st : Valid st ->
  (match wcache st with Some k => key_eqb k (key st) | None => false end) = false ->
  let '(s1, r1) := run_wf true st in
  let '(s2, r2) := run_wf false (er st) in
  er s1 = s2 /\ r1 = r2.
Proof.
  intros V Hm. unfold run_wf. cbn [wfailed er]. destruct (wfailed st) eqn:Ef; [split; reflexivity|].
  rewrite Hm. cbn [andb].
  pose proof (body_twin st V) as H. destruct (body true st) as [s1 r1]. destruct (body false (er st)) as [s2 r2].
  destruct H as (E & R & _). subst s2 r2. destruct r1; split; reflexivity.
Qed.
