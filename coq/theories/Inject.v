(* Inject.v -- executable model of operator injection on output channels (C18).

   Mirrors, step by step,
     pyiron_workflow/mixin/injection.py   OutputDataWithInjection
         _other_label, _get_injection_label, _node_injection and every entry point
         (__getattr__, __getitem__ incl. the Slice break-up, comparisons, eq/bool/len/
          contains, arithmetic, __rmul__, bitwise, unary, int/float/__round__)
     pyiron_workflow/mixin/single_output.py  ExploitsSingleOutput (.channel, delegation)
     pyiron_workflow/nodes/standard.py     the operator node classes (function + operand
         order + output label), the Slice node function
     Node.__init__(autorun=True) / Node.run / Node.pull as far as injected nodes see them.

   External behaviour is a Section variable: CPython's operators [pyop], [repr()] / [str()] of a raw
   operand, and [hash] of the nominal label.  Stdlib only. *)
From PW Require Import Base.

(* ---- the operator node classes of nodes/standard.py used by injection ------------- *)
Inductive cls :=
| CGetAttr | CGetItem | CSlice
| CLessThan | CLessThanEquals | CEquals | CNotEquals | CGreaterThan | CGreaterThanEquals
| CBool | CLength | CContains
| CAdd | CSubtract | CMultiply | CRightMultiply | CMatrixMultiply | CDivide | CFloorDivide
| CModulo | CPower | CAnd | CXOr | COr
| CNegative | CPositive | CAbsolute | CInvert | CInt | CFloat | CRound.

Definition all_cls : list cls :=
  [CGetAttr; CGetItem; CSlice; CLessThan; CLessThanEquals; CEquals; CNotEquals; CGreaterThan;
   CGreaterThanEquals; CBool; CLength; CContains; CAdd; CSubtract; CMultiply; CRightMultiply;
   CMatrixMultiply; CDivide; CFloorDivide; CModulo; CPower; CAnd; CXOr; COr; CNegative;
   CPositive; CAbsolute; CInvert; CInt; CFloat; CRound].

(* injection_class.__name__ *)
Definition cname (c : cls) : string :=
  match c with
  | CGetAttr => "GetAttr" | CGetItem => "GetItem" | CSlice => "Slice"
  | CLessThan => "LessThan" | CLessThanEquals => "LessThanEquals" | CEquals => "Equals"
  | CNotEquals => "NotEquals" | CGreaterThan => "GreaterThan"
  | CGreaterThanEquals => "GreaterThanEquals"
  | CBool => "Bool" | CLength => "Length" | CContains => "Contains"
  | CAdd => "Add" | CSubtract => "Subtract" | CMultiply => "Multiply"
  | CRightMultiply => "RightMultiply" | CMatrixMultiply => "MatrixMultiply"
  | CDivide => "Divide" | CFloorDivide => "FloorDivide" | CModulo => "Modulo"
  | CPower => "Power" | CAnd => "And" | CXOr => "XOr" | COr => "Or"
  | CNegative => "Negative" | CPositive => "Positive" | CAbsolute => "Absolute"
  | CInvert => "Invert" | CInt => "Int" | CFloat => "Float" | CRound => "Round"
  end.

(* the single output label given to @as_function_node("...") *)
Definition out_label (c : cls) : string :=
  match c with
  | CGetAttr => "getattr" | CGetItem => "getitem" | CSlice => "slice"
  | CLessThan => "lt" | CLessThanEquals => "le" | CEquals => "eq" | CNotEquals => "neq"
  | CGreaterThan => "gt" | CGreaterThanEquals => "ge"
  | CBool => "bool" | CLength => "len" | CContains => "in"
  | CAdd => "add" | CSubtract => "sub" | CMultiply => "mul" | CRightMultiply => "rmul"
  | CMatrixMultiply => "matmul" | CDivide => "truediv" | CFloorDivide => "floordiv"
  | CModulo => "mod" | CPower => "pow" | CAnd => "and" | CXOr => "xor" | COr => "or"
  | CNegative => "neg" | CPositive => "pos" | CAbsolute => "abs" | CInvert => "invert"
  | CInt => "int" | CFloat => "float" | CRound => "round"
  end.

(* CPython operations, named after the functions of the [operator] module / builtins:
   PContains a b = (b in a), PTruth a = bool(a), PSliceCtor = slice(...) *)
Inductive pyfun :=
| PGetattr | PGetitem | PLt | PLe | PEq | PNe | PGt | PGe | PTruth | PLen | PContains
| PAdd | PSub | PMul | PMatmul | PTruediv | PFloordiv | PMod | PPow | PAnd | PXor | POr
| PNeg | PPos | PAbs | PInvert | PInt | PFloat | PRound | PSliceCtor
| PChildAccess.   (* what a composite's child lookup raises for a key that names no child: {}[key] with its
                     KeyError turned into AttributeError (TypeError if the key is unhashable) *)

Definition pyname (f : pyfun) : string :=
  match f with
  | PGetattr => "getattr" | PGetitem => "getitem" | PLt => "lt" | PLe => "le" | PEq => "eq"
  | PNe => "ne" | PGt => "gt" | PGe => "ge" | PTruth => "truth" | PLen => "len"
  | PContains => "contains" | PAdd => "add" | PSub => "sub" | PMul => "mul"
  | PMatmul => "matmul" | PTruediv => "truediv" | PFloordiv => "floordiv" | PMod => "mod"
  | PPow => "pow" | PAnd => "and" | PXor => "xor" | POr => "or" | PNeg => "neg"
  | PPos => "pos" | PAbs => "abs" | PInvert => "invert" | PInt => "int" | PFloat => "float"
  | PRound => "round" | PSliceCtor => "slice" | PChildAccess => "childaccess"
  end.

(* in which order the node function hands (obj, other) to the Python operator *)
Inductive order := Straight | Swapped.

Definition arrange {A} (o : order) (l : list A) : list A :=
  match o, l with
  | Swapped, [a; b] => [b; a]
  | _, _ => l
  end.

(* nodes/standard.py: the body of each node function ([None] = Slice, library logic) *)
Definition cls_fun (c : cls) : option (pyfun * order) :=
  match c with
  | CGetAttr => Some (PGetattr, Straight)          (* getattr(obj, name) *)
  | CGetItem => Some (PGetitem, Straight)          (* obj[item] *)
  | CSlice => None
  | CLessThan => Some (PLt, Straight)
  | CLessThanEquals => Some (PLe, Straight)
  | CEquals => Some (PEq, Straight)
  | CNotEquals => Some (PNe, Straight)
  | CGreaterThan => Some (PGt, Straight)
  | CGreaterThanEquals => Some (PGe, Straight)
  | CBool => Some (PTruth, Straight)
  | CLength => Some (PLen, Straight)
  | CContains => Some (PContains, Straight)        (* other in obj *)
  | CAdd => Some (PAdd, Straight)
  | CSubtract => Some (PSub, Straight)
  | CMultiply => Some (PMul, Straight)
  | CRightMultiply => Some (PMul, Swapped)         (* other * obj *)
  | CMatrixMultiply => Some (PMatmul, Straight)
  | CDivide => Some (PTruediv, Straight)
  | CFloorDivide => Some (PFloordiv, Straight)
  | CModulo => Some (PMod, Straight)
  | CPower => Some (PPow, Straight)
  | CAnd => Some (PAnd, Straight)
  | CXOr => Some (PXor, Straight)
  | COr => Some (POr, Straight)
  | CNegative => Some (PNeg, Straight)
  | CPositive => Some (PPos, Straight)
  | CAbsolute => Some (PAbs, Straight)
  | CInvert => Some (PInvert, Straight)
  | CInt => Some (PInt, Straight)
  | CFloat => Some (PFloat, Straight)
  | CRound => Some (PRound, Straight)
  end.

(* number of input channels of the node function *)
Definition cls_arity (c : cls) : nat :=
  match c with
  | CSlice => 3
  | CBool | CLength | CNegative | CPositive | CAbsolute | CInvert | CInt | CFloat | CRound => 1
  | _ => 2
  end.

(* ---- entry points: what the user can write on a channel ---------------------------- *)
Inductive entry :=
| EGetattr | EGetitem | ELt | ELe | EEq | ENe | EGt | EGe | EBool | ELen | EContains
| EAdd | ESub | EMul | ERmul | EMatmul | ETruediv | EFloordiv | EMod | EPow | EAnd | EXor | EOr
| ENeg | EPos | EAbs | EInvert | EInt | EFloat | ERound.

Definition all_entries : list entry :=
  [EGetattr; EGetitem; ELt; ELe; EEq; ENe; EGt; EGe; EBool; ELen; EContains; EAdd; ESub; EMul;
   ERmul; EMatmul; ETruediv; EFloordiv; EMod; EPow; EAnd; EXor; EOr; ENeg; EPos; EAbs; EInvert;
   EInt; EFloat; ERound].

(* injection.py: which node class each dunder / helper method injects *)
Definition entry_cls (e : entry) : cls :=
  match e with
  | EGetattr => CGetAttr | EGetitem => CGetItem
  | ELt => CLessThan | ELe => CLessThanEquals | EEq => CEquals | ENe => CNotEquals
  | EGt => CGreaterThan | EGe => CGreaterThanEquals
  | EBool => CBool | ELen => CLength | EContains => CContains
  | EAdd => CAdd | ESub => CSubtract | EMul => CMultiply | ERmul => CRightMultiply
  | EMatmul => CMatrixMultiply | ETruediv => CDivide | EFloordiv => CFloorDivide
  | EMod => CModulo | EPow => CPower | EAnd => CAnd | EXor => CXOr | EOr => COr
  | ENeg => CNegative | EPos => CPositive | EAbs => CAbsolute | EInvert => CInvert
  | EInt => CInt | EFloat => CFloat | ERound => CRound
  end.

(* how many operands besides the receiver the entry point takes *)
Definition entry_arity (e : entry) : nat :=
  match e with
  | EBool | ELen | ENeg | EPos | EAbs | EInvert | EInt | EFloat | ERound => 0
  | _ => 1
  end.

(* single_output.py: the node-level method calls this channel-level method *)
Definition node_delegate (e : entry) : option entry := Some e.

(* what the written operation MEANS in Python (receiver first, then the operand):
   x.attr, x[i], x<o, ..., x.eq(o) = (x == o), x.bool() = bool(x), x.contains(o) = (o in x),
   o * x for __rmul__, ... -- the specification side of C18_table *)
Definition spec (e : entry) : pyfun * order :=
  match e with
  | EGetattr => (PGetattr, Straight) | EGetitem => (PGetitem, Straight)
  | ELt => (PLt, Straight) | ELe => (PLe, Straight) | EEq => (PEq, Straight)
  | ENe => (PNe, Straight) | EGt => (PGt, Straight) | EGe => (PGe, Straight)
  | EBool => (PTruth, Straight) | ELen => (PLen, Straight) | EContains => (PContains, Straight)
  | EAdd => (PAdd, Straight) | ESub => (PSub, Straight) | EMul => (PMul, Straight)
  | ERmul => (PMul, Swapped)
  | EMatmul => (PMatmul, Straight) | ETruediv => (PTruediv, Straight)
  | EFloordiv => (PFloordiv, Straight) | EMod => (PMod, Straight) | EPow => (PPow, Straight)
  | EAnd => (PAnd, Straight) | EXor => (PXor, Straight) | EOr => (POr, Straight)
  | ENeg => (PNeg, Straight) | EPos => (PPos, Straight) | EAbs => (PAbs, Straight)
  | EInvert => (PInvert, Straight) | EInt => (PInt, Straight) | EFloat => (PFloat, Straight)
  | ERound => (PRound, Straight)
  end.

Definition cls_eqb (a b : cls) : bool := String.eqb (cname a) (cname b).

Definition pyfun_eqb (a b : pyfun) : bool := String.eqb (pyname a) (pyname b).
Definition order_eqb (a b : order) : bool :=
  match a, b with Straight, Straight | Swapped, Swapped => true | _, _ => false end.

(* one row of C18_table, as a boolean *)
Definition table_row_ok (e : entry) : bool :=
  match cls_fun (entry_cls e), node_delegate e with
  | Some (f, o), Some e' =>
      pyfun_eqb f (fst (spec e)) && order_eqb o (snd (spec e))
      && Nat.eqb (cls_arity (entry_cls e)) (S (entry_arity e))
      && cls_eqb (entry_cls e') (entry_cls e)
  | _, _ => false
  end.

(* ---- strings ------------------------------------------------------------------------ *)
Fixpoint join (sep : string) (l : list string) : string :=
  match l with
  | [] => ""
  | [x] => x
  | x :: r => x ++ sep ++ join sep r
  end.

Fixpoint prefixb (a b : string) : bool :=     (* a is a prefix of b *)
  match a, b with
  | EmptyString, _ => true
  | String x a', String y b' => Ascii.eqb x y && prefixb a' b'
  | _, _ => false
  end.

(* ---- graph state --------------------------------------------------------------------- *)
Inductive chan :=
| CU (u j : nat)        (* j-th output channel of user node u *)
| CN (n : nat).         (* the single output channel of injected node n *)

Definition chan_eqb (a b : chan) : bool :=
  match a, b with
  | CU u j, CU u' j' => Nat.eqb u u' && Nat.eqb j j'
  | CN n, CN n' => Nat.eqb n n'
  | _, _ => false
  end.

(* owners of channels *)
Inductive owner := UOwner (u : nat) | NOwner (n : nat).

Definition owner_eqb (a b : owner) : bool :=
  match a, b with
  | UOwner u, UOwner u' => Nat.eqb u u'
  | NOwner n, NOwner n' => Nat.eqb n n'
  | _, _ => false
  end.

Definition same_set (a b : list owner) : bool :=
  subsetb owner_eqb a b && subsetb owner_eqb b a.

Section Model.
  Variable val : Type.
  Variable pyop : pyfun -> list val -> val + string.   (* CPython: value or exception class *)
  Variable py_str : val -> string.                     (* str(v): only to read an attribute name *)
  Variable py_repr : val -> string.                    (* repr(v) *)
  Variable none_val : val.                             (* None *)
  Variable hash : string -> string.                    (* str(hash(s)).replace("-", "m") *)

  Inductive operand :=
  | OC (c : chan)        (* HasChannel: a channel or a single-output node -> connection *)
  | OR (v : val).        (* anything else -> value *)

  Record urec := mkU { u_label : string; u_chans : list (string * val); u_ran : bool }.

  Record nrec := mkN {
    n_label : string;
    n_cls : cls;
    n_in : list operand;          (* the input channels in order: connection or value *)
    n_out : option val;           (* None = NOT_DATA *)
    n_failed : bool }.

  Record state := mkS {
    s_parent : bool;              (* do the nodes live in a Workflow? *)
    s_users : list urec;
    s_nodes : list nrec;          (* injected nodes in creation order; with a parent these
                                     are parent.children beyond the user nodes, keyed by label *)
    s_wfcache : option (list owner) }.
      (* the parent's own input cache (the parent is a cached node too).  Its inputs are the
         children's unconnected inputs under keys "<child label>__<channel>"; their values never
         change here, but run_data_tree temporarily renames every node of the pulled data tree
         (label + id) and the dict is recorded during that renaming.  So the cache is identified by
         WHICH value-holding children were in the data tree of the last successful pull.
         None = never ran, or a child was added since (Composite.add_child resets it). *)

  Definition nchildren (st : state) : nat :=
    if s_parent st then List.length (s_users st) + List.length (s_nodes st) else 0.

  (* Channel.scoped_label = f"{owner.label}__{label}" *)
  Definition scoped (st : state) (c : chan) : string :=
    match c with
    | CU u j =>
        match nth_error (s_users st) u with
        | Some r => match nth_error (u_chans r) j with
                    | Some (l, _) => u_label r ++ "__" ++ l
                    | None => "?"
                    end
        | None => "?"
        end
    | CN n =>
        match nth_error (s_nodes st) n with
        | Some r => n_label r ++ "__" ++ out_label (n_cls r)
        | None => "?"
        end
    end.

  (* the channel's current value: NOT_DATA until its owner has run *)
  Definition chan_value (st : state) (c : chan) : option val :=
    match c with
    | CU u j =>
        match nth_error (s_users st) u with
        | Some r => if u_ran r then option_map snd (nth_error (u_chans r) j) else None
        | None => None
        end
    | CN n =>
        match nth_error (s_nodes st) n with
        | Some r => n_out r
        | None => None
        end
    end.

  (* ---- _other_label / _get_injection_label ------------------------------------------ *)
  Definition other_label (st : state) (o : operand) : string :=
    match o with
    | OC c => scoped st c          (* other.channel.scoped_label *)
    | OR v => py_repr v            (* repr(other) *)
    end.

  Record request := mkQ {
    q_cls : cls;
    q_self : chan;
    q_others : list operand;
    q_inject_self : bool }.

  (* the pieces that are glued with "_" *)
  Definition pieces (st : state) (q : request) : list string :=
    scoped st (q_self q) :: cname (q_cls q) :: map (other_label st) (q_others q).

  (* f"{self.scoped_label}_{cls}{suffix}", suffix = "_" + "_".join(others) if any *)
  Definition nominal (st : state) (q : request) : string :=
    scoped st (q_self q) ++ "_" ++ cname (q_cls q) ++
    match q_others q with
    | [] => ""
    | _ => "_" ++ join "_" (map (other_label st) (q_others q))
    end.

  Definition label_of (c : cls) (nom : string) : string :=
    "injected_" ++ cname c ++ "_" ++ hash nom.

  Definition inj_label (st : state) (q : request) : string := label_of (q_cls q) (nominal st q).

  (* parent.children[label] restricted to injected nodes *)
  Fixpoint find_label (l : string) (ns : list nrec) (i : nat) : option nat :=
    match ns with
    | [] => None
    | r :: rest => if String.eqb l (n_label r) then Some i else find_label l rest (S i)
    end.

  (* ---- running one node ---------------------------------------------------------------- *)
  Definition operand_value (st : state) (o : operand) : option val :=
    match o with
    | OC c => chan_value st c      (* fetch: the connected channel's value, if it holds data *)
    | OR v => Some v
    end.

  (* the default of the i-th parameter of the node function: an input whose connection holds
     no data yet keeps it.  Only Slice(start=None, stop=NOT_DATA, step=None) has any. *)
  Definition default_in (c : cls) (i : nat) : option val :=
    match c, i with
    | CSlice, 0 | CSlice, 2 => Some none_val
    | _, _ => None
    end.

  Fixpoint input_values_from (st : state) (c : cls) (i : nat) (ins : list operand)
    : option (list val) :=
    match ins with
    | [] => Some []
    | o :: r =>
        match (match operand_value st o with Some v => Some v | None => default_in c i end),
              input_values_from st c (S i) r with
        | Some v, Some vs => Some (v :: vs)
        | _, _ => None
        end
    end.

  Definition input_values (st : state) (c : cls) (ins : list operand) : option (list val) :=
    input_values_from st c 0 ins.

  (* nodes/standard.py Slice: return slice(start, stop, step) *)
  Definition slice_fun (vals : list val) : val + string :=
    match vals with
    | [start; stop; step] => pyop PSliceCtor [start; stop; step]
    | _ => inr "TypeError"
    end.

  Definition node_apply (c : cls) (vals : list val) : val + string :=
    match cls_fun c with
    | Some (f, o) => pyop f (arrange o vals)
    | None => slice_fun vals
    end.

  Fixpoint set_nth {A} (l : list A) (i : nat) (x : A) : list A :=
    match l, i with
    | [], _ => []
    | _ :: r, O => x :: r
    | y :: r, S i' => y :: set_nth r i' x
    end.

  Definition set_node (st : state) (n : nat) (r : nrec) : state :=
    mkS (s_parent st) (s_users st) (set_nth (s_nodes st) n r) (s_wfcache st).

  Inductive rres := RVal (v : val) | RNotReady | RRaise (x : string).

  (* Node.run() of an injected node: fetch, readiness gate, function, outputs / failed *)
  Definition run_own (st : state) (n : nat) : state * rres :=
    match nth_error (s_nodes st) n with
    | None => (st, RNotReady)
    | Some r =>
        if n_failed r then (st, RNotReady)
        else match input_values st (n_cls r) (n_in r) with
             | None => (st, RNotReady)
             | Some vals =>
                 match node_apply (n_cls r) vals with
                 | inl v => (set_node st n (mkN (n_label r) (n_cls r) (n_in r) (Some v) false), RVal v)
                 | inr x => (set_node st n (mkN (n_label r) (n_cls r) (n_in r) (n_out r) true), RRaise x)
                 end
             end
    end.

  (* ---- _node_injection ------------------------------------------------------------------ *)
  Inductive outcome := Done | Raised (x : string).

  (* arg.channel.value is not NOT_DATA for every HasChannel argument *)
  Definition holds_data (st : state) (ins : list operand) : bool :=
    forallb (fun o => match o with
                      | OC c => match chan_value st c with Some _ => true | None => false end
                      | OR _ => true
                      end) ins.

  Definition inject (st : state) (q : request) : state * nat * outcome :=
    let l := inj_label st q in
    match (if s_parent st then find_label l (s_nodes st) 0 else None) with
    | Some n => (st, n, Done)                 (* return self.owner.parent.children[label] *)
    | None =>                                 (* AttributeError (no parent) / KeyError *)
        let n := List.length (s_nodes st) in
        let ins := (if q_inject_self q then [OC (q_self q)] else []) ++ q_others q in
        let st1 := mkS (s_parent st) (s_users st)
                       (s_nodes st ++ [mkN l (q_cls q) ins None false])
                       None in     (* Composite.add_child resets the parent's cache *)
        (* autorun only if every channel-like argument already holds data; then run(): a
           ReadinessError is suppressed, anything else escapes *)
        match (if holds_data st1 ins then run_own st1 n else (st1, RNotReady)) with
        | (st2, RRaise x) => (st2, n, Raised x)
        | (st2, _) => (st2, n, Done)
        end
    end.

  (* ---- pull(): run everything upstream, then the node itself ---------------------------- *)
  Definition mark_ran (st : state) (u : nat) : state :=
    match nth_error (s_users st) u with
    | Some r => mkS (s_parent st) (set_nth (s_users st) u (mkU (u_label r) (u_chans r) true)) (s_nodes st)
                    (s_wfcache st)
    | None => st
    end.

  Definition operand_chans (ins : list operand) : list chan :=
    flat_map (fun o => match o with OC c => [c] | OR _ => [] end) ins.

  Fixpoint ensure (fuel : nat) (st : state) (c : chan) : state * bool :=
    match fuel with
    | O => (st, false)
    | S f =>
        match c with
        | CU u _ => (mark_ran st u, true)
        | CN m =>
            match nth_error (s_nodes st) m with
            | None => (st, false)
            | Some r =>
                let '(st1, ok) :=
                  fold_left (fun (acc : state * bool) c' => if snd acc then ensure f (fst acc) c' else acc)
                            (operand_chans (n_in r)) (st, true) in
                if ok then
                  match run_own st1 m with
                  | (st2, RVal _) => (st2, true)
                  | (st2, _) => (st2, false)
                  end
                else (st1, false)
            end
        end
    end.

  Inductive pres := PVal (v : val) | POwn (x : string) | PUp.

  Definition set_cache (st : state) (c : option (list owner)) : state :=
    mkS (s_parent st) (s_users st) (s_nodes st) c.

  (* get_nodes_in_data_tree: the owners upstream of a channel (with repetitions) *)
  Fixpoint tree_owners (fuel : nat) (st : state) (c : chan) : list owner :=
    match fuel with
    | O => []
    | S f =>
        match c with
        | CU u _ => [UOwner u]
        | CN m =>
            match nth_error (s_nodes st) m with
            | Some r => NOwner m :: flat_map (tree_owners f st) (operand_chans (n_in r))
            | None => []
            end
        end
    end.

  (* does the node own an unconnected input (user nodes always do; an injected node iff it has a
     raw operand) *)
  Definition has_value_input (st : state) (o : owner) : bool :=
    match o with
    | UOwner _ => true
    | NOwner m =>
        match nth_error (s_nodes st) m with
        | Some r => existsb (fun o => match o with OR _ => true | OC _ => false end) (n_in r)
        | None => false
        end
    end.

  Definition pull_keys (st : state) (n : nat) : list owner :=
    filter (has_value_input st) (tree_owners (S (List.length (s_nodes st))) st (CN n)).

  (* Node.pull = run_data_tree (through parent.run() when there is a parent -- which is itself a
     cached node: should its remembered inputs match, NOTHING upstream is executed) and then the node's
     own run.  run_data_tree ends (finally:) with parent._cached_inputs = None: only the upstream children
     ran, so what the parent remembers must not pass for a run of all its children.  Hence the parent's
     cache is always empty when a pull starts and every pull re-executes the upstream closure. *)
  Definition wf_cache_hit (st : state) (keys : list owner) : bool :=
    s_parent st && match s_wfcache st with Some k => same_set k keys | None => false end.

  (* run_data_tree of node n with record r: (state, did everything upstream succeed) *)
  Definition pull_upstream (st : state) (n : nat) (r : nrec) : state * bool :=
    let keys := pull_keys st n in
    if wf_cache_hit st keys then (set_cache st None, true)   (* parent.run() is a cache hit: nothing runs *)
    else
      let fuel := S (List.length (s_nodes st)) in
      let '(st1, ok) :=
        fold_left (fun (acc : state * bool) c' => if snd acc then ensure fuel (fst acc) c' else acc)
                  (operand_chans (n_in r)) (st, true) in
      (* a successful parent.run() records the parent's inputs (Some keys); the finally: block of
         run_data_tree then drops them again, whatever happened *)
      (if s_parent st then set_cache st1 None else st1, ok).

  Definition pull (st : state) (n : nat) : state * pres :=
    match nth_error (s_nodes st) n with
    | None => (st, PUp)
    | Some r =>
        let '(st1, ok) := pull_upstream st n r in
        if ok then
          match run_own st1 n with
          | (st2, RVal v) => (st2, PVal v)
          | (st2, RNotReady) => (st2, if n_failed r then POwn "ReadinessError" else PUp)
          | (st2, RRaise x) => (st2, POwn x)
          end
        else (st1, PUp)
    end.

  (* ---- entry points ----------------------------------------------------------------------- *)
  Inductive ref :=
  | RChan (u j : nat)      (* node.outputs.<label> *)
  | RNode (u : nat)        (* the user node itself *)
  | RComp (u : nat)        (* the user node itself, and it is a single-output COMPOSITE (macro) *)
  | RRaw (v : val)
  | RRes (k : nat).        (* the node returned by step k (or its .channel) *)

  Inductive step :=
  | SOp (e : entry) (recv : ref) (others : list ref) (pl : nat)
      (* pl: 0 = the node is not pulled; S k = pulled, and if its own run raises, the failed flag is
         cleared (the documented recovery) and it is pulled again, up to k times *)
  | SSlice (recv a b c : ref) (pl : nat)       (* recv[a:b:c], at least one member channel-like *)
  | SUnsup (recv other : ref).                 (* raw + x etc.: no reflected dunder exists *)

  Inductive resolved := ResChan (c : chan) | ResRaw (v : val) | ResAmbiguous | ResMissing.

  (* ExploitsSingleOutput.channel / HasChannel *)
  Definition resolve (st : state) (results : list (option nat)) (r : ref) : resolved :=
    match r with
    | RChan u j => ResChan (CU u j)
    | RNode u | RComp u =>
        match nth_error (s_users st) u with
        | Some ur => if Nat.eqb (List.length (u_chans ur)) 1 then ResChan (CU u 0) else ResAmbiguous
        | None => ResMissing
        end
    | RRaw v => ResRaw v
    | RRes k =>
        match nth_error results k with
        | Some (Some n) => ResChan (CN n)
        | _ => ResMissing
        end
    end.

  Inductive eres :=
  | ENode (n : nat)                 (* the expression evaluated to this node *)
  | ERaise (x : string)
  | ESkip.

  Definition to_operand (r : resolved) : option operand :=
    match r with
    | ResChan c => Some (OC c)
    | ResRaw v => Some (OR v)
    | _ => None
    end.

  Fixpoint to_operands (rs : list resolved) : option (list operand) :=
    match rs with
    | [] => Some []
    | r :: rest =>
        match to_operand r, to_operands rest with
        | Some o, Some os => Some (o :: os)
        | _, _ => None
        end
    end.

  Definition is_missing (r : resolved) := match r with ResMissing => true | _ => false end.
  Definition is_ambiguous (r : resolved) := match r with ResAmbiguous => true | _ => false end.
  Definition is_chanlike (r : resolved) :=
    match r with ResChan _ | ResAmbiguous => true | _ => false end.

  (* the guards of OutputDataWithInjection.__getattr__ *)
  Definition getattr_refused (name : string) : bool :=
    String.eqb name "to_hdf" || prefixb "_" name.

  Definition is_comp (r : ref) : bool := match r with RComp _ => true | _ => false end.
  Definition child_access (e : entry) : bool :=
    match e with EGetattr | EGetitem => true | _ => false end.

  (* evaluate one written operation; returns the new state, the result, and the nominal
     labels that were hashed on the way (in order) *)
  Definition eval_step (st : state) (results : list (option nat)) (s : step)
    : state * eres * list string :=
    match s with
    | SUnsup recv other =>
        if is_missing (resolve st results recv) || is_missing (resolve st results other)
        then (st, ESkip, []) else (st, ERaise "TypeError", [])
    | SOp e recv others _ =>
        let rr := resolve st results recv in
        let ro := map (resolve st results) others in
        if is_missing rr || existsb is_missing ro then (st, ESkip, [])
        else if is_comp recv && child_access e then
          (* node.attr / node[item] on a composite never reach ExploitsSingleOutput: they are the
             composite's child lookup (LexicalParent.__getattr__, Composite.__getitem__), which raises
             for a key that names no child *)
          match ro with
          | [ResRaw v] => match pyop PChildAccess [v] with
                          | inr x => (st, ERaise x, [])
                          | inl _ => (st, ESkip, [])
                          end
          | _ => (st, ERaise "AttributeError", [])   (* a node or channel as key: hashable, no such child *)
          end
        else match rr with
        | ResChan self =>
            if negb (Nat.eqb (List.length others) (entry_arity e)) then (st, ERaise "TypeError", [])
            else if existsb is_ambiguous ro then (st, ERaise "AmbiguousOutputError", [])
            else match to_operands ro with
            | None => (st, ESkip, [])
            | Some os =>
                let refused :=
                  match e, os with
                  | EGetattr, [OR v] => getattr_refused (py_str v)
                  | _, _ => false
                  end in
                if refused then (st, ERaise "AttributeError", [])
                else
                  let q := mkQ (entry_cls e) self os true in
                  let nom := nominal st q in
                  match inject st q with
                  | (st', n, Done) => (st', ENode n, [nom])
                  | (st', n, Raised x) => (st', ERaise x, [nom])
                  end
            end
        | ResAmbiguous => (st, ERaise "AmbiguousOutputError", [])
        | _ => (st, ESkip, [])
        end
    | SSlice recv a b c _ =>
        let rr := resolve st results recv in
        let ro := map (resolve st results) [a; b; c] in
        if is_missing rr || existsb is_missing ro then (st, ESkip, [])
        else if is_comp recv then
          (* child lookup by a slice object: hashable iff its members are *)
          (st, ERaise (if existsb (fun r => match r with
                                            | ResRaw v => match pyop PChildAccess [v] with
                                                          | inr "TypeError" => true
                                                          | _ => false
                                                          end
                                            | _ => false
                                            end) ro
                       then "TypeError" else "AttributeError"), [])
        else match rr with
        | ResChan self =>
            if negb (existsb is_chanlike ro) then
              (* no channel inside: python's own slice object is an ordinary raw item *)
              match ro with
              | [ResRaw va; ResRaw vb; ResRaw vc] =>
                  match pyop PSliceCtor [va; vb; vc] with
                  | inl sl =>
                      let q := mkQ CGetItem self [OR sl] true in
                      let nom := nominal st q in
                      match inject st q with
                      | (st', n, Done) => (st', ENode n, [nom])
                      | (st', n, Raised x) => (st', ERaise x, [nom])
                      end
                  | inr x => (st, ERaise x, [])
                  end
              | _ => (st, ESkip, [])
              end
            else if existsb is_ambiguous ro then (st, ERaise "AmbiguousOutputError", [])
            else match to_operands ro with
            | None => (st, ESkip, [])
            | Some os =>
                let q1 := mkQ CSlice self os false in
                let nom1 := nominal st q1 in
                match inject st q1 with
                | (st1, _, Raised x) => (st1, ERaise x, [nom1])
                | (st1, ns, Done) =>
                    let q2 := mkQ CGetItem self [OC (CN ns)] true in
                    let nom2 := nominal st1 q2 in
                    match inject st1 q2 with
                    | (st2, n, Done) => (st2, ENode n, [nom1; nom2])
                    | (st2, n, Raised x) => (st2, ERaise x, [nom1; nom2])
                    end
                end
            end
        | ResAmbiguous => (st, ERaise "AmbiguousOutputError", [])
        | _ => (st, ESkip, [])
        end
    end.

  Definition step_pull (s : step) : nat :=
    match s with SOp _ _ _ p => p | SSlice _ _ _ _ p => p | SUnsup _ _ => 0 end.

  (* ---- observations ------------------------------------------------------------------------ *)
  Variable vobs : val -> obs.
  Variable nobs : string -> obs.       (* how a nominal label is shown *)

  Fixpoint first_seen (results : list (option nat)) (n : nat) (i : nat) : option nat :=
    match results with
    | [] => None
    | Some m :: r => if Nat.eqb m n then Some i else first_seen r n (S i)
    | None :: r => first_seen r n (S i)
    end.

  Definition flat_operand_obs (results : list (option nat)) (o : operand) : obs :=
    match o with
    | OC (CU u j) => OL [OS "u"; on u; on j]
    | OC (CN m) => match first_seen results m 0 with
                   | Some k => OL [OS "r"; on k]
                   | None => OL [OS "s"]
                   end
    | OR v => OL [OS "v"; vobs v]
    end.

  (* input wiring; a Slice node that no step returned is shown inline *)
  Definition operand_obs (st : state) (results : list (option nat)) (o : operand) : obs :=
    match o with
    | OC (CN m) =>
        match first_seen results m 0, nth_error (s_nodes st) m with
        | None, Some r => OL (OS "s" :: OS (cname (n_cls r)) :: map (flat_operand_obs results) (n_in r))
        | _, _ => flat_operand_obs results o
        end
    | _ => flat_operand_obs results o
    end.

  Definition node_obs (st : state) (results : list (option nat)) (n : nat) : obs :=
    match nth_error (s_nodes st) n with
    | Some r => OL (map (operand_obs st results) (n_in r))
    | None => OL []
    end.

  Definition pres_obs (p : pres) : obs :=
    match p with
    | PVal v => OL [OS "val"; vobs v]
    | POwn x => OL [OS "own"; OS x]
    | PUp => OL [OS "up"]
    end.

  (* node.failed = False: the documented way to make a failed node runnable again *)
  Definition clear_failed (st : state) (n : nat) : state :=
    match nth_error (s_nodes st) n with
    | Some r => set_node st n (mkN (n_label r) (n_cls r) (n_in r) (n_out r) false)
    | None => st
    end.

  (* pull again after clearing the flag, as long as the node's own run keeps raising *)
  Fixpoint retries (k : nat) (st : state) (n : nat) : state * list obs :=
    match k with
    | O => (st, [])
    | S k' =>
        match pull (clear_failed st n) n with
        | (st1, POwn x) => let '(st2, l) := retries k' st1 n in (st2, pres_obs (POwn x) :: l)
        | (st1, p) => (st1, [pres_obs p])
        end
    end.

  (* run a whole case: steps in order; after a pull that raised the scenario stops *)
  Fixpoint exec (st : state) (results : list (option nat)) (stopped : bool) (ss : list step)
    : list obs :=
    match ss with
    | [] => []
    | s :: rest =>
        if stopped then OL [OS "stopped"] :: exec st results true rest
        else
          let '(st1, er, noms) := eval_step st results s in
          match er with
          | ENode n =>
              let results1 := results ++ [Some n] in
              let k := match first_seen results1 n 0 with Some k => k | None => 0 end in
              let cn := match nth_error (s_nodes st1) n with Some r => cname (n_cls r) | None => "?" end in
              let head := OL [OS "node"; OS cn; on k] in
              let wiring := node_obs st1 results1 n in
              match step_pull s with
              | S k =>
                  let '(st2, p) := pull st1 n in
                  match p with
                  | PVal _ =>
                      OL [head; OL (map nobs noms); on (nchildren st1); wiring; pres_obs p]
                        :: exec st2 results1 false rest
                  | POwn x =>
                      let '(st3, rs) := retries k st2 n in
                      OL [head; OL (map nobs noms); on (nchildren st1); wiring; OL (OS "own" :: OS x :: rs)]
                        :: exec st3 results1 true rest
                  | PUp =>
                      OL [head; OL (map nobs noms); on (nchildren st1); wiring; pres_obs p]
                        :: exec st2 results1 true rest
                  end
              | O =>
                  OL [head; OL (map nobs noms); on (nchildren st1); wiring; OL []]
                    :: exec st1 results1 false rest
              end
          | ERaise x =>
              OL [OL [OS "raise"; OS x]; OL (map nobs noms); on (nchildren st1); OL []; OL []]
                :: exec st1 (results ++ [None]) false rest
          | ESkip =>
              OL [OL [OS "skip"]; OL []; on (nchildren st1); OL []; OL []]
                :: exec st1 (results ++ [None]) false rest
          end
    end.

  (* ---- the same program written inside a macro definition -------------------------------------------
     graph_creator writes the steps on the macro's input nodes (UserInput children that hold no data
     yet, so nothing runs while the graph is defined); macro.run() then runs every child, and the
     macro's output is the channel of the returned node *)
  Fixpoint build (st : state) (results : list (option nat)) (ss : list step)
    : state * list (option nat) :=
    match ss with
    | [] => (st, results)
    | s :: rest =>
        let '(st1, er, _) := eval_step st results s in
        build st1 (results ++ [match er with ENode n => Some n | _ => None end]) rest
    end.

  Fixpoint run_children (st : state) (k : nat) (todo : nat) : state * bool :=
    match todo with
    | O => (st, true)
    | S t =>
        match pull st k with
        | (st1, PVal _) => run_children st1 (S k) t
        | (st1, _) => (st1, false)
        end
    end.

  Definition run_macro (users : list urec) (ss : list step) (out : nat) : obs :=
    let '(st, results) := build (mkS true users [] None) [] ss in
    let '(st1, ok) := run_children st 0 (List.length (s_nodes st)) in
    match ok, nth_error results out with
    | true, Some (Some n) =>
        match chan_value st1 (CN n) with
        | Some v => OL [OS "val"; vobs v]
        | None => OL [OS "err"]
        end
    | _, _ => OL [OS "err"]
    end.

  Definition run_case (parent : bool) (users : list urec) (ss : list step) : obs :=
    OL (exec (mkS parent users [] None) [] false ss).

End Model.

Arguments OC {val} c.
Arguments OR {val} v.
Arguments mkU {val} u_label u_chans u_ran.
Arguments RChan {val} u j.
Arguments RNode {val} u.
Arguments RComp {val} u.
Arguments RRaw {val} v.
Arguments RRes {val} k.
Arguments SOp {val} e recv others pl.
Arguments SSlice {val} recv a b c pl.
Arguments SUnsup {val} recv other.
Arguments mkQ {val} q_cls q_self q_others q_inject_self.
Arguments RVal {val} v.
Arguments RNotReady {val}.
Arguments RRaise {val} x.
Arguments PVal {val} v.
Arguments POwn {val} x.
Arguments PUp {val}.

(* ---- the concrete instance the harness evaluates ---------------------------------------------
   Values are canonical strings (type-tagged repr); CPython's operators, str() and hash are
   handed over by the harness as finite tables computed by the REAL interpreter for the values
   the case can reach; [hash] is the identity on the pre-hash string. *)
Definition tval := string.

Fixpoint list_string_eqb (a b : list string) : bool :=
  match a, b with
  | [], [] => true
  | x :: a', y :: b' => String.eqb x y && list_string_eqb a' b'
  | _, _ => false
  end.

(* a row: (function name, argument encodings, is-exception, result encoding / class name) *)
Definition pyrow := (string * list string * bool * string)%type.

Fixpoint tbl_pyop (t : list pyrow) (f : pyfun) (args : list tval) : tval + string :=
  match t with
  | [] => inr "MISSING-TABLE-ROW"
  | (g, a, isx, r) :: rest =>
      if String.eqb g (pyname f) && list_string_eqb a args
      then (if isx then inr r else inl r)
      else tbl_pyop rest f args
  end.

Definition tbl_str (t : list (string * string)) (v : tval) : string :=
  match assoc String.eqb v t with Some s => s | None => "MISSING-STR" end.

(* nominal labels are compared by a digest (keeps the generated case files small) *)
Fixpoint digest (s : string) (h : Z) : Z :=
  match s with
  | EmptyString => h
  | String a r => digest r ((h * 131 + Z.of_nat (Ascii.nat_of_ascii a)) mod 2305843009213693951)%Z
  end.

Definition t_run (t : list pyrow) (strs reprs : list (string * string)) (parent : bool)
           (users : list (urec tval)) (ss : list (step tval)) : obs :=
  run_case tval (tbl_pyop t) (tbl_str strs) (tbl_str reprs) "NoneType:None" (fun s => s) OS
           (fun s => OZ (digest s 7)) parent users ss.

(* the same with the nominal labels in clear (debugging, witnesses) *)
Definition t_run_clear (t : list pyrow) (strs reprs : list (string * string)) (parent : bool)
           (users : list (urec tval)) (ss : list (step tval)) : obs :=
  run_case tval (tbl_pyop t) (tbl_str strs) (tbl_str reprs) "NoneType:None" (fun s => s) OS OS parent users ss.

Definition t_macro (t : list pyrow) (strs reprs : list (string * string))
           (users : list (urec tval)) (ss : list (step tval)) (out : nat) : obs :=
  run_macro tval (tbl_pyop t) (tbl_str strs) (tbl_str reprs) "NoneType:None" (fun s => s) OS users ss out.
