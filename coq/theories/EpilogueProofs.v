From PW Require Import Base Epilogue.

(* quantification over the ten flags by a nested boolean conjunction *)
Definition fb (p : bool -> bool) : bool := p true && p false.
Lemma fb_spec p : fb p = true -> forall b, p b = true.
Proof. unfold fb. intros H b. apply andb_true_iff in H. destruct H, b; assumption. Qed.

Definition all_flagsb (P : flags -> bool) : bool :=
  fb (fun a => fb (fun b => fb (fun c => fb (fun d => fb (fun e => fb (fun f => fb (fun g => fb (fun h => fb (fun i =>
  fb (fun j => P (Build_flags a b c d e f g h i j))))))))))).

Definition beforeb (a b : effect) (l : list effect) : bool :=
  match index_of a l, index_of b l with Some i, Some j => Nat.ltb i j | _, _ => true end.

Lemma beforeb_before a b l : beforeb a b l = true -> before a b l.
Proof.
  unfold beforeb, before. intros H i j Ha Hb. rewrite Ha, Hb in H. now apply Nat.ltb_lt.
Qed.

(* a finite sweep over the 2^10 flag vectors, lifted to every flag record *)
Lemma sweep (P : flags -> bool) : all_flagsb P = true -> forall f, P f = true.
Proof.
  intros H [a b c d e f g h i j]. unfold all_flagsb in H.
  pose proof (fb_spec _ H a) as H1. cbv beta in H1.
  pose proof (fb_spec _ H1 b) as H2. cbv beta in H2.
  pose proof (fb_spec _ H2 c) as H3. cbv beta in H3.
  pose proof (fb_spec _ H3 d) as H4. cbv beta in H4.
  pose proof (fb_spec _ H4 e) as H5. cbv beta in H5.
  pose proof (fb_spec _ H5 f) as H6. cbv beta in H6.
  pose proof (fb_spec _ H6 g) as H7. cbv beta in H7.
  pose proof (fb_spec _ H7 h) as H8. cbv beta in H8.
  pose proof (fb_spec _ H8 i) as H9. cbv beta in H9.
  exact (fb_spec _ H9 j).
Qed.

Definition mem (e : effect) (l : list effect) : bool := existsb (effect_eqb e) l.

Theorem enqueue_before_unregister : forall f, before EEnqueue EUnregister (epilogue f).
Proof. intros f. apply beforeb_before. revert f. apply sweep. vm_compute. reflexivity. Qed.

Theorem enqueued_is_unregistered : forall f, mem EEnqueue (epilogue f) = true -> mem EUnregister (epilogue f) = true.
Proof.
  intros f. generalize (sweep (fun f => implb (mem EEnqueue (epilogue f)) (mem EUnregister (epilogue f))) eq_refl f).
  destruct (mem EEnqueue (epilogue f)); cbn; [auto|discriminate].
Qed.

Theorem cache_before_checkpoint : forall f,
  before ECacheWrite ECheckpoint (epilogue f) /\ before ECacheClear ECheckpoint (epilogue f).
Proof.
  intros f. split; apply beforeb_before; revert f; apply sweep; vm_compute; reflexivity.
Qed.

Theorem cache_written_iff : forall f,
  mem ECacheWrite (epilogue f) = use_cache f && negb (failed f) /\
  mem ECacheClear (epilogue f) = failed f.
Proof.
  intros f. split.
  - generalize (sweep (fun f => Bool.eqb (mem ECacheWrite (epilogue f)) (use_cache f && negb (failed f))) eq_refl f).
    apply Bool.eqb_prop.
  - generalize (sweep (fun f => Bool.eqb (mem ECacheClear (epilogue f)) (failed f)) eq_refl f). apply Bool.eqb_prop.
Qed.

Theorem recovery_saved_iff : forall f,
  mem ERecoverySave (epilogue f) = failed f && raise_exc f && has_recovery f && is_root f.
Proof.
  intros f. generalize (sweep (fun f => Bool.eqb (mem ERecoverySave (epilogue f))
                                          (failed f && raise_exc f && has_recovery f && is_root f)) eq_refl f).
  apply Bool.eqb_prop.
Qed.

(* signals leave exactly once when asked for: through the running parent's queue, or directly -- never both, never neither *)
Theorem signals_leave_once : forall f,
  emit_ran f = true -> xorb (mem EEnqueue (epilogue f)) (mem EEmit (epilogue f)) = true.
Proof.
  intros f. generalize (sweep (fun f => implb (emit_ran f) (xorb (mem EEnqueue (epilogue f)) (mem EEmit (epilogue f)))) eq_refl f).
  destruct (emit_ran f); cbn; auto. discriminate.
Qed.

Theorem no_signal_unless_asked : forall f,
  emit_ran f = false -> mem EEnqueue (epilogue f) = false /\ mem EEmit (epilogue f) = false.
Proof.
  intros f H. split.
  - generalize (sweep (fun f => implb (negb (emit_ran f)) (negb (mem EEnqueue (epilogue f)))) eq_refl f). rewrite H. cbn.
    destruct (mem EEnqueue (epilogue f)); cbn; auto.
  - generalize (sweep (fun f => implb (negb (emit_ran f)) (negb (mem EEmit (epilogue f)))) eq_refl f). rewrite H. cbn.
    destruct (mem EEmit (epilogue f)); cbn; auto.
Qed.

(* deciding equality of effect lists, for the regenerated epilogue *)
Fixpoint effects_eqb (a b : list effect) : bool :=
  match a, b with
  | [], [] => true
  | x :: r, y :: s => effect_eqb x y && effects_eqb r s
  | _, _ => false
  end.

Lemma effect_eqb_eq x y : effect_eqb x y = true -> x = y.
Proof. destruct x, y; intros H; try reflexivity; discriminate H. Qed.

Lemma effects_eqb_eq a : forall b, effects_eqb a b = true -> a = b.
Proof.
  induction a as [|x r IH]; intros [|y s] H; cbn in H; try discriminate; [reflexivity|].
  apply andb_true_iff in H. destruct H as [H1 H2]. apply effect_eqb_eq in H1. apply IH in H2. congruence.
Qed.

Lemma same_on_all_flags (g : flags -> list effect) :
  all_flagsb (fun f => effects_eqb (g f) (epilogue f)) = true -> forall f, g f = epilogue f.
Proof. intros H f. apply effects_eqb_eq. exact (sweep (fun f => effects_eqb (g f) (epilogue f)) H f). Qed.
