(* WfIO.v -- executable model of the living IO of pyiron_workflow.workflow.Workflow (C15).

   What is mirrored, in source order:
     Workflow._sanitize_map / _deduplicate_nones / bidict(new_map)   -> sanitize
     Workflow.inputs_map / outputs_map setters                       -> set_map
     Workflow._build_io  (children loop, channel loop, map lookup FIRST, then the
       `connected` test; IO.__setitem__ on a key that is already present tries to
       CONNECT the two channels, which raises TypeError for two channels of one
       direction)                                                    -> build_io
     IO.__setitem__ through the workflow panel (value / channel)     -> assign, wconnect
     Node.run -> set_input_values -> cache test -> children -> process_run_result ->
       _outputs_to_run_return, cache written on success only         -> run_wf
     Composite.add_child / remove_child (cache reset, disconnect)    -> add_child, remove_child
     Channel.connect / disconnect / disconnect_all (prepend, no-op when present)

   Channels are identified by ids (nat) handed out at creation: the workflow panel holds
   the children's OWN ids -- the model's rendering of "the panel holds the child channel
   objects themselves".  Children are function nodes of a small fixed table of kinds (the
   same table as harness/props/c15.py). Stdlib only; no axioms. *)
From PW Require Import Base.
Open Scope string_scope.

Inductive dir := DIn | DOut.

(* ---- node kinds (argument names with defaults, output labels, the function) -------- *)
Record kspec := { k_ins : list (string * Z); k_outs : list string; k_fun : list Z -> list Z }.

Definition zn (l : list Z) (i : nat) : Z := nth i l 0%Z.

Definition kind_raw (k : nat) : kspec :=
  match k with
  | 0 => {| k_ins := [("x", 0%Z)]; k_outs := ["y"]; k_fun := fun a => [zn a 0 + 1]%Z |}
  | 1 => {| k_ins := [("x", 1%Z); ("y", 2%Z)]; k_outs := ["s"; "d"];
            k_fun := fun a => [2 * zn a 0 + 3 * zn a 1 + 5; zn a 0 - zn a 1]%Z |}
  | 2 => {| k_ins := [("b__c", 3%Z)]; k_outs := ["c"]; k_fun := fun a => [7 * zn a 0 + 1]%Z |}
  | 3 => {| k_ins := [("c", 4%Z)]; k_outs := ["b__c"]; k_fun := fun a => [5 * zn a 0 + 2]%Z |}
  | 4 => {| k_ins := []; k_outs := ["y"]; k_fun := fun _ => [11%Z] |}
  | 5 => {| k_ins := [("a__b", 5%Z); ("c", 6%Z)]; k_outs := ["c"; "a__b"];
            k_fun := fun a => [zn a 0 + 10 * zn a 1 + 3; 3 * zn a 0 - zn a 1]%Z |}
  | 6 => {| k_ins := [("x", 1%Z)]; k_outs := ["x"]; k_fun := fun a => [2 * zn a 0 + 1]%Z |}
  | 7 => {| k_ins := [("_b", 2%Z)]; k_outs := ["y"]; k_fun := fun a => [zn a 0 + 13]%Z |}
  | 8 => {| k_ins := [("b", 1%Z)]; k_outs := ["_y"]; k_fun := fun a => [3 * zn a 0 + 4]%Z |}
  (* channel names that are also attributes of the IO panels themselves (items, labels, ready,
     fetch, connected, to_list): only ITEM access panel[name] reaches such a channel *)
  | 9 => {| k_ins := [("items", 2%Z)]; k_outs := ["labels"]; k_fun := fun a => [4 * zn a 0 + 2]%Z |}
  | 10 => {| k_ins := [("ready", 1%Z); ("fetch", 3%Z)]; k_outs := ["connected"; "to_list"];
             k_fun := fun a => [zn a 0 + zn a 1; zn a 0 - 2 * zn a 1]%Z |}
  | _ => {| k_ins := []; k_outs := []; k_fun := fun _ => [] |}
  end.

(* Channel values carry their Python type: a value is ONE number 3*z + tag with tag 0 = int,
   1 = bool, 2 = float (only integer-valued floats occur).  bool and int operands give an int,
   any float operand makes every result a float -- what +, -, * do in Python.  Equality of
   values (dict == dict in the cache test) is Python's ==: the numbers, not the types. *)
Definition enc (tag z : Z) : Z := (3 * z + tag)%Z.
Definition dec_z (e : Z) : Z := (e / 3)%Z.
Definition dec_tag (e : Z) : Z := (e mod 3)%Z.

Definition lift_fun (f : list Z -> list Z) (args : list Z) : list Z :=
  let tag := if existsb (fun e => Z.eqb (dec_tag e) 2) args then 2%Z else 0%Z in
  map (enc tag) (f (map dec_z args)).

Definition kind_spec (k : nat) : kspec :=
  let r := kind_raw k in
  {| k_ins := map (fun lv => (fst lv, enc 0 (snd lv))) (k_ins r); k_outs := k_outs r;
     k_fun := lift_fun (k_fun r) |}.

(* ---- state ------------------------------------------------------------------------------ *)
Record child := { c_label : string; c_kind : nat;
                  c_ins : list (string * nat); c_outs : list (string * nat) }.

(* a stored map value: a name, or the tuple (None, "<key> disabled") of _deduplicate_nones *)
Inductive mval := MName (s : string) | MOff (k : string).
Definition kmap := option (list (string * mval)).      (* None = no map was given *)

Record wf := { w_children : list child;
               w_conns : list (nat * nat);              (* (input id, output id), newest first *)
               w_imap : kmap; w_omap : kmap;
               w_vals : list (nat * Z);                 (* absent = NOT_DATA *)
               w_next : nat;
               w_cache : option (list (string * option Z));
               w_shelf : list child }.                  (* removed node objects still held by the user, newest first *)

Definition init_wf (im om : kmap) : wf :=
  {| w_children := []; w_conns := []; w_imap := im; w_omap := om; w_vals := []; w_next := 0;
     w_cache := None; w_shelf := [] |}.

Definition set_children st cs := {| w_children := cs; w_conns := w_conns st; w_imap := w_imap st;
  w_omap := w_omap st; w_vals := w_vals st; w_next := w_next st; w_cache := w_cache st; w_shelf := w_shelf st |}.
Definition set_conns st cn := {| w_children := w_children st; w_conns := cn; w_imap := w_imap st;
  w_omap := w_omap st; w_vals := w_vals st; w_next := w_next st; w_cache := w_cache st; w_shelf := w_shelf st |}.
Definition set_vals st vs := {| w_children := w_children st; w_conns := w_conns st; w_imap := w_imap st;
  w_omap := w_omap st; w_vals := vs; w_next := w_next st; w_cache := w_cache st; w_shelf := w_shelf st |}.
Definition set_next st n := {| w_children := w_children st; w_conns := w_conns st; w_imap := w_imap st;
  w_omap := w_omap st; w_vals := w_vals st; w_next := n; w_cache := w_cache st; w_shelf := w_shelf st |}.
Definition set_cache st c := {| w_children := w_children st; w_conns := w_conns st; w_imap := w_imap st;
  w_omap := w_omap st; w_vals := w_vals st; w_next := w_next st; w_cache := c; w_shelf := w_shelf st |}.
Definition set_shelf st sh := {| w_children := w_children st; w_conns := w_conns st; w_imap := w_imap st;
  w_omap := w_omap st; w_vals := w_vals st; w_next := w_next st; w_cache := w_cache st; w_shelf := sh |}.
Definition set_kmap st (d : dir) (m : kmap) :=
  match d with
  | DIn => {| w_children := w_children st; w_conns := w_conns st; w_imap := m; w_omap := w_omap st;
              w_vals := w_vals st; w_next := w_next st; w_cache := w_cache st; w_shelf := w_shelf st |}
  | DOut => {| w_children := w_children st; w_conns := w_conns st; w_imap := w_imap st; w_omap := m;
               w_vals := w_vals st; w_next := w_next st; w_cache := w_cache st; w_shelf := w_shelf st |}
  end.

Definition chans (d : dir) (c : child) : list (string * nat) :=
  match d with DIn => c_ins c | DOut => c_outs c end.
Definition kmap_of (st : wf) (d : dir) : kmap := match d with DIn => w_imap st | DOut => w_omap st end.
Definition val (st : wf) (id : nat) : option Z := assoc Nat.eqb id (w_vals st).
Definition set_val (st : wf) (id : nat) (v : Z) : wf := set_vals st (upd Nat.eqb id v (w_vals st)).

(* Channel.connected: len(connections) > 0 *)
Definition touches (id : nat) (p : nat * nat) : bool := Nat.eqb (fst p) id || Nat.eqb (snd p) id.
Definition connected (st : wf) (id : nat) : bool := existsb (touches id) (w_conns st).

(* Channel.scoped_label *)
Definition scoped (c l : string) : string := c ++ "__" ++ l.

(* ---- the maps ------------------------------------------------------------------------- *)
Definition mval_eqb (a b : mval) : bool :=
  match a, b with
  | MName x, MName y => String.eqb x y
  | MOff x, MOff y => String.eqb x y
  | _, _ => false
  end.

(* _deduplicate_nones on the user's dict (a list of pairs with distinct keys) *)
Definition dedup_nones (m : list (string * option string)) : list (string * mval) :=
  map (fun kv => (fst kv, match snd kv with Some s => MName s | None => MOff (fst kv) end)) m.

(* _sanitize_map: None stays None; otherwise bidict(...) raises ValueDuplicationError when
   two keys carry one value.  Result None = that exception. *)
Definition sanitize (m : option (list (string * option string))) : option kmap :=
  match m with
  | None => Some None
  | Some l => let l' := dedup_nones l in
              if nodupb mval_eqb (map snd l') then Some (Some l') else None
  end.

Definition lookup_map (m : kmap) (k : string) : option mval :=
  match m with None => None | Some l => assoc String.eqb k l end.

(* ---- _build_io ------------------------------------------------------------------------- *)
Definition panel := list (string * nat).

(* io[key] = channel on the panel under construction: a key already present sends the
   assignment to channel_dict[key].connect(channel), which raises TypeError *)
Definition panel_set (p : panel) (k : string) (id : nat) : option panel :=
  if mems k (map fst p) then None else Some (p ++ [(k, id)])%list.

Fixpoint build_chans (st : wf) (m : kmap) (cl : string) (chs : list (string * nat)) (p : panel)
  : option panel :=
  match chs with
  | [] => Some p
  | (l, id) :: r =>
      match lookup_map m (scoped cl l) with
      | Some (MName s) =>
          match panel_set p s id with Some p' => build_chans st m cl r p' | None => None end
      | Some (MOff _) => build_chans st m cl r p
      | None =>
          if connected st id then build_chans st m cl r p
          else match panel_set p (scoped cl l) id with
               | Some p' => build_chans st m cl r p'
               | None => None
               end
      end
  end.

Fixpoint build_children (st : wf) (d : dir) (m : kmap) (cs : list child) (p : panel) : option panel :=
  match cs with
  | [] => Some p
  | c :: r => match build_chans st m (c_label c) (chans d c) p with
              | Some p' => build_children st d m r p'
              | None => None
              end
  end.

(* None = the access raises TypeError *)
Definition build_io (st : wf) (d : dir) : option panel :=
  build_children st d (kmap_of st d) (w_children st) [].

(* DataIO.to_value_dict *)
Definition value_dict (st : wf) (p : panel) : list (string * option Z) :=
  map (fun e => (fst e, val st (snd e))) p.

(* ---- results ---------------------------------------------------------------------------- *)
Inductive exc := TypeErr | ValueErr | AttrErr | KeyErr | DupErr | NoRef | CycleErr | Skip | KVDupErr.
Inductive res := ROk | RExc (e : exc) | RRet (l : list (string * option Z)).

(* ---- editing the graph ------------------------------------------------------------------- *)
Fixpoint number (n : nat) (ls : list string) : list (string * nat) :=
  match ls with [] => [] | l :: r => (l, n) :: number (S n) r end.

Fixpoint find_child (l : string) (cs : list child) : option child :=
  match cs with [] => None | c :: r => if String.eqb l (c_label c) then Some c else find_child l r end.

Definition find_chan (st : wf) (d : dir) (c l : string) : option nat :=
  match find_child c (w_children st) with
  | None => None
  | Some ch => assoc String.eqb l (chans d ch)
  end.

Fixpoint set_defaults (ids : list (string * nat)) (defs : list (string * Z)) (vs : list (nat * Z))
  : list (nat * Z) :=
  match ids, defs with
  | (_, id) :: r, (_, v) :: r' => set_defaults r r' (upd Nat.eqb id v vs)
  | _, _ => vs
  end.

(* Composite.add_child: the cache is dropped first; an existing label is refused *)
Definition add_child (st : wf) (kind : nat) (label : string) : wf * res :=
  let st0 := set_cache st None in
  if mems label (map c_label (w_children st)) then (st0, RExc AttrErr)
  else
    let sp := kind_spec kind in
    let n := w_next st in
    let ins := number n (map fst (k_ins sp)) in
    let outs := number (n + List.length (k_ins sp)) (k_outs sp) in
    let c := {| c_label := label; c_kind := kind; c_ins := ins; c_outs := outs |} in
    let st1 := set_children st0 (w_children st ++ [c])%list in
    let st2 := set_vals st1 (set_defaults ins (k_ins sp) (w_vals st)) in
    (set_next st2 (n + List.length (k_ins sp) + List.length (k_outs sp)), ROk).

Definition child_ids (c : child) : list nat := (map snd (c_ins c) ++ map snd (c_outs c))%list.

(* children.pop(label) / list.remove: the first child carrying the label, and the others *)
Fixpoint take_child (l : string) (cs : list child) : option (child * list child) :=
  match cs with
  | [] => None
  | c :: r => if String.eqb l (c_label c) then Some (c, r)
              else match take_child l r with Some (x, r') => Some (x, c :: r') | None => None end
  end.

Definition relabel (c : child) (l : string) : child :=
  {| c_label := l; c_kind := c_kind c; c_ins := c_ins c; c_outs := c_outs c |}.

(* Composite.remove_child: pop (KeyError), child.disconnect(), cache dropped; the caller keeps
   the node object (shelf) *)
Definition remove_child (st : wf) (label : string) : wf * res :=
  match take_child label (w_children st) with
  | None => (st, RExc KeyErr)
  | Some (c, cs) =>
      let ids := child_ids c in
      let cn := filter (fun p => negb (memn (fst p) ids || memn (snd p) ids)) (w_conns st) in
      (set_shelf (set_cache (set_conns (set_children st cs) cn) None) (c :: w_shelf st), ROk)
  end.

(* node.parent = None / node.parent = another_workflow for a current child: Lexical._set_parent
   calls the old parent's remove_child, so the node leaves exactly as above *)
Definition leave (st : wf) (label : string) : wf * res :=
  match take_child label (w_children st) with
  | None => (st, RExc NoRef)
  | Some _ => remove_child st label
  end.

(* wf.add_child(node, label=nl) for a node object removed earlier (found by its current label) *)
Definition readd (st : wf) (sl : string) (nl : option string) : wf * res :=
  match take_child sl (w_shelf st) with
  | None => (st, RExc NoRef)
  | Some (c, rest) =>
      let st0 := set_cache st None in
      let l := match nl with Some x => x | None => c_label c end in
      if mems l (map c_label (w_children st)) then (st0, RExc AttrErr)
      else (set_shelf (set_children st0 (w_children st ++ [relabel c l])%list) rest, ROk)
  end.

(* wf.add_child(wf.children[cur], label=new): LexicalParent.add_child pops the child from the
   bidict and stores it again under the new label, i.e. at the END; connections stay *)
Definition relabel_child (st : wf) (cur new : string) : wf * res :=
  match take_child cur (w_children st) with
  | None => (st, RExc NoRef)
  | Some (c, rest) =>
      let st0 := set_cache st None in
      if String.eqb cur new then (st0, ROk)
      else if mems new (map c_label (w_children st)) then (st0, RExc AttrErr)
      else (set_children st0 (rest ++ [relabel c new])%list, ROk)
  end.

(* Workflow.replace_child(cur, node), in the region the driver exercises: the replaced child has
   no data connection, the replacement is of the same kind (a fresh node labelled "spare" or a
   node removed earlier), both panels can be read and expose no connected channel (otherwise
   _rebuild_data_io is entered: C14).  Then: copy_io copies the old values, the old child is
   removed (and kept by the caller under the replacement's label), the replacement is adopted
   under the old label at the END of the children, the cache is dropped. *)
Fixpoint copy_vals (st : wf) (from to : list (string * nat)) (vs : list (nat * Z)) : list (nat * Z) :=
  match from, to with
  | (_, f) :: r, (_, t) :: r' =>
      copy_vals st r r' (match val st f with Some v => upd Nat.eqb t v vs | None => vs end)
  | _, _ => vs
  end.

Definition exposes_connected (st : wf) (p : panel) : bool := existsb (fun e => connected st (snd e)) p.

Definition replace_child (st : wf) (cur : string) (src : option string) : wf * res :=
  match take_child cur (w_children st) with
  | None => (st, RExc NoRef)
  | Some (c, rest) =>
      let repl :=
        match src with
        | None =>
            let sp := kind_spec (c_kind c) in
            let n := w_next st in
            let ins := number n (map fst (k_ins sp)) in
            let outs := number (n + List.length (k_ins sp)) (k_outs sp) in
            Some ({| c_label := "spare"; c_kind := c_kind c; c_ins := ins; c_outs := outs |},
                  w_shelf st, set_defaults ins (k_ins sp) (w_vals st),
                  n + List.length (k_ins sp) + List.length (k_outs sp))
        | Some sl =>
            match take_child sl (w_shelf st) with
            | Some (r, sh) => Some (r, sh, w_vals st, w_next st)
            | None => None
            end
        end in
      match repl with
      | None => (st, RExc NoRef)
      | Some (r, sh, vs, nx) =>
          let ok := Nat.eqb (c_kind c) (c_kind r)
                    && negb (existsb (connected st) (child_ids c))
                    && match build_io st DIn, build_io st DOut with
                       | Some pi, Some po => negb (exposes_connected st pi) && negb (exposes_connected st po)
                       | _, _ => false
                       end in
          if negb ok then (st, RExc Skip)
          else
            let vs1 := copy_vals st (c_ins c) (c_ins r) vs in
            let vs2 := copy_vals st (c_outs c) (c_outs r) vs1 in
            let st1 := set_children st (rest ++ [relabel r (c_label c)])%list in
            (set_shelf (set_cache (set_next (set_vals st1 vs2) nx) None) (relabel c (c_label r) :: sh), ROk)
      end
  end.

Definition pair_eqb (a b : nat * nat) : bool := Nat.eqb (fst a) (fst b) && Nat.eqb (snd a) (snd b).

(* Channel.connect: already there -> nothing; else prepend *)
Definition connect_ids (st : wf) (i o : nat) : wf :=
  if memb pair_eqb (i, o) (w_conns st) then st else set_conns st ((i, o) :: w_conns st).

Definition connect (st : wf) (ic il oc ol : string) : wf * res :=
  match find_chan st DIn ic il, find_chan st DOut oc ol with
  | Some i, Some o => (connect_ids st i o, ROk)
  | _, _ => (st, RExc NoRef)
  end.

Definition disconnect (st : wf) (ic il oc ol : string) : wf * res :=
  match find_chan st DIn ic il, find_chan st DOut oc ol with
  | Some i, Some o => (set_conns st (filter (fun p => negb (pair_eqb p (i, o))) (w_conns st)), ROk)
  | _, _ => (st, RExc NoRef)
  end.

Definition disconnect_all (st : wf) (d : dir) (c l : string) : wf * res :=
  match find_chan st d c l with
  | Some id => (set_conns st (filter (fun p => negb (touches id p)) (w_conns st)), ROk)
  | None => (st, RExc NoRef)
  end.

(* the map setters: the assignment happens only when _sanitize_map returns *)
Definition set_map (st : wf) (d : dir) (m : option (list (string * option string))) : wf * res :=
  match sanitize m with
  | Some km => (set_kmap st d km, ROk)
  | None => (st, RExc DupErr)
  end.

(* ---- editing a stored map in place: wf.inputs_map[key] = value, del ..., .update(...) --------
   The getter hands out the stored bidict itself (after _deduplicate_nones), so these go
   through bidict's own checks (on_dup: an existing key is overwritten where it stands, a value
   held by ANOTHER key raises and changes nothing; update is all-or-nothing, item by item).
   A None value is stored raw and turned into the "<key> disabled" tuple by the next access
   of the property -- before anything can look at it -- so it is modelled as MOff key. *)
Fixpoint put_at (l : list (string * mval)) (k : string) (v : mval) : list (string * mval) :=
  match l with
  | [] => [(k, v)]
  | (k', v') :: r => if String.eqb k k' then (k, v) :: del String.eqb k r else (k', v') :: put_at r k v
  end.

Definition mv (k : string) (v : option string) : mval :=
  match v with Some s => MName s | None => MOff k end.

(* None = bidict raises; the flag tells KeyAndValueDuplicationError from ValueDuplicationError *)
Definition put (l : list (string * mval)) (k : string) (v : mval) : list (string * mval) + bool :=
  if memb mval_eqb v (map snd (del String.eqb k l)) then inr (mems k (map fst l))
  else inl (put_at l k v).

Definition dup_exc (key_present : bool) : exc := if key_present then KVDupErr else DupErr.

Definition map_setitem (st : wf) (d : dir) (k : string) (v : option string) : wf * res :=
  match kmap_of st d with
  | None => (st, RExc TypeErr)
  | Some l => match put l k (mv k v) with
              | inl l' => (set_kmap st d (Some l'), ROk)
              | inr kp => (st, RExc (dup_exc kp))
              end
  end.

Definition map_delitem (st : wf) (d : dir) (k : string) : wf * res :=
  match kmap_of st d with
  | None => (st, RExc TypeErr)
  | Some l => if mems k (map fst l) then (set_kmap st d (Some (del String.eqb k l)), ROk)
              else (st, RExc KeyErr)
  end.

Fixpoint put_all (l : list (string * mval)) (ps : list (string * option string))
  : list (string * mval) + bool :=
  match ps with
  | [] => inl l
  | (k, v) :: r => match put l k (mv k v) with inl l' => put_all l' r | inr kp => inr kp end
  end.

Definition map_update (st : wf) (d : dir) (ps : list (string * option string)) : wf * res :=
  match kmap_of st d with
  | None => (st, RExc AttrErr)
  | Some l => match put_all l ps with
              | inl l' => (set_kmap st d (Some l'), ROk)
              | inr kp => (st, RExc (dup_exc kp))
              end
  end.

(* wf.inputs[key] = value *)
Definition assign (st : wf) (key : string) (v : Z) : wf * res :=
  match build_io st DIn with
  | None => (st, RExc TypeErr)
  | Some p => match assoc String.eqb key p with
              | None => (st, RExc TypeErr)
              | Some id => (set_val st id v, ROk)
              end
  end.

(* wf.inputs[key].value = v: the channel is fetched by ITEM access (IO.__getitem__ goes straight
   to __getattr__, i.e. to channel_dict: AttributeError when absent), then assigned *)
Definition item_assign (st : wf) (key : string) (v : Z) : wf * res :=
  match build_io st DIn with
  | None => (st, RExc TypeErr)
  | Some p => match assoc String.eqb key p with
              | None => (st, RExc AttrErr)
              | Some id => (set_val st id v, ROk)
              end
  end.

(* wf.inputs[key] = wf.children[oc].outputs[ol] *)
Definition wconnect (st : wf) (key oc ol : string) : wf * res :=
  match find_chan st DOut oc ol with
  | None => (st, RExc NoRef)
  | Some o =>
      match build_io st DIn with
      | None => (st, RExc TypeErr)
      | Some p => match assoc String.eqb key p with
                  | None => (st, RExc TypeErr)
                  | Some id => (connect_ids st id o, ROk)
                  end
      end
  end.

(* wf.inputs[key] = wf.outputs[okey]: both ends through the workflow's panels, the source by item *)
Definition wconnect2 (st : wf) (key okey : string) : wf * res :=
  match build_io st DOut with
  | None => (st, RExc TypeErr)
  | Some po =>
      match assoc String.eqb okey po with
      | None => (st, RExc AttrErr)
      | Some o =>
          match build_io st DIn with
          | None => (st, RExc TypeErr)
          | Some p => match assoc String.eqb key p with
                      | None => (st, RExc TypeErr)
                      | Some id => (connect_ids st id o, ROk)
                      end
          end
      end
  end.

(* ---- running ------------------------------------------------------------------------------ *)
Definition stored (st : wf) (id : nat) : Z := match val st id with Some z => z | None => 0%Z end.

Fixpoint first_conn (cn : list (nat * nat)) (i : nat) : option nat :=
  match cn with [] => None | (a, b) :: r => if Nat.eqb a i then Some b else first_conn r i end.

Fixpoint index_of (id : nat) (l : list (string * nat)) (n : nat) : option nat :=
  match l with [] => None | (_, x) :: r => if Nat.eqb x id then Some n else index_of id r (S n) end.

Fixpoint owner_out (cs : list child) (oid : nat) : option (child * nat) :=
  match cs with
  | [] => None
  | c :: r => match index_of oid (c_outs c) 0 with Some i => Some (c, i) | None => owner_out r oid end
  end.

(* value an output holds once every child of an acyclic graph has run in data order: the
   function of the fetched inputs; an input fetches from its newest connection *)
Fixpoint out_val (fuel : nat) (st : wf) (oid : nat) {struct fuel} : Z :=
  match fuel with
  | 0 => 0%Z
  | S f =>
      match owner_out (w_children st) oid with
      | None => 0%Z
      | Some (c, idx) =>
          let args := map (fun e => match first_conn (w_conns st) (snd e) with
                                    | Some o => out_val f st o
                                    | None => stored st (snd e)
                                    end) (c_ins c) in
          zn (k_fun (kind_spec (c_kind c)) args) idx
      end
  end.

Definition in_val (fuel : nat) (st : wf) (iid : nat) : Z :=
  match first_conn (w_conns st) iid with Some o => out_val fuel st o | None => stored st iid end.

Definition exec_child (fuel : nat) (st0 : wf) (vs : list (nat * Z)) (c : child) : list (nat * Z) :=
  let vs1 := fold_left (fun acc e => upd Nat.eqb (snd e) (in_val fuel st0 (snd e)) acc) (c_ins c) vs in
  fold_left (fun acc e => upd Nat.eqb (snd e) (out_val fuel st0 (snd e)) acc) (c_outs c) vs1.

(* Composite._on_run on an acyclic data graph: only channel values change *)
Definition execute (st : wf) : wf :=
  let fuel := S (List.length (w_children st)) in
  set_vals st (fold_left (exec_child fuel st) (w_children st) (w_vals st)).

Definition optz_eqb (a b : option Z) : bool :=      (* Python ==: False == 0 == 0.0 *)
  match a, b with Some x, Some y => Z.eqb (dec_z x) (dec_z y) | None, None => true | _, _ => false end.

(* dict == dict *)
Definition dict_eqb (a b : list (string * option Z)) : bool :=
  Nat.eqb (List.length a) (List.length b) &&
  forallb (fun kv => match assoc String.eqb (fst kv) b with
                     | Some v => optz_eqb v (snd kv) | None => false end) a.

Fixpoint assign_all (st : wf) (p : panel) (kw : list (string * Z)) : wf :=
  match kw with
  | [] => st
  | (k, v) :: r => match assoc String.eqb k p with
                   | Some id => assign_all (set_val st id v) p r
                   | None => assign_all st p r
                   end
  end.

(* Workflow._before_run -> set_run_signals_to_dag_execution refuses cyclic data graphs *)
Fixpoint owner_label (d : dir) (cs : list child) (id : nat) : option string :=
  match cs with
  | [] => None
  | c :: r => if memn id (map snd (chans d c)) then Some (c_label c) else owner_label d r id
  end.

Definition edges (st : wf) : list (string * string) :=      (* (downstream, upstream) *)
  flat_map (fun p => match owner_label DIn (w_children st) (fst p), owner_label DOut (w_children st) (snd p) with
                     | Some a, Some b => [(a, b)]
                     | _, _ => []
                     end) (w_conns st).

Fixpoint reaches (fuel : nat) (es : list (string * string)) (a b : string) : bool :=
  match fuel with
  | 0 => false
  | S f => existsb (fun e => String.eqb (fst e) a && (String.eqb (snd e) b || reaches f es (snd e) b)) es
  end.

Definition cyclic (st : wf) : bool :=
  existsb (fun c => reaches (List.length (w_children st)) (edges st) (c_label c) (c_label c)) (w_children st).

(* wf.set_input_values with keyword arguments kw: the first part of run, alone *)
Definition set_inputs (st : wf) (kw : list (string * Z)) : wf * res :=
  match build_io st DIn with
  | None => (st, RExc TypeErr)
  | Some p =>
      if negb (forallb (fun kv => mems (fst kv) (map fst p)) kw) then (st, RExc ValueErr)
      else (assign_all st p kw, ROk)
  end.

(* Workflow.run with keyword arguments kw, with use_cache on, on an acyclic graph of ready children:
   set_input_values (panel built: TypeError; unknown key: ValueError; then assignments),
   automatic DAG wiring (cyclic data: CircularDataFlowError),
   cache test (hit: return the outputs' value dict without running anything),
   children run, process_run_result -> _outputs_to_run_return, cache := inputs' values *)
Definition run_wf (st : wf) (kw : list (string * Z)) : wf * res :=
  match build_io st DIn with
  | None => (st, RExc TypeErr)
  | Some p =>
      if negb (forallb (fun kv => mems (fst kv) (map fst p)) kw) then (st, RExc ValueErr)
      else
        let st1 := assign_all st p kw in
        if cyclic st1 then (st1, RExc CycleErr) else
        let hit := match w_cache st1 with
                   | Some c => dict_eqb (value_dict st1 p) c
                   | None => false
                   end in
        if hit then
          match build_io st1 DOut with
          | None => (st1, RExc TypeErr)
          | Some po => (st1, RRet (value_dict st1 po))
          end
        else
          let st2 := execute st1 in
          match build_io st2 DOut with
          | None => (set_cache st2 None, RExc TypeErr)   (* failed: the remembered inputs are dropped *)
          | Some po => (set_cache st2 (Some (value_dict st2 p)), RRet (value_dict st2 po))
          end
  end.

(* ---- pulling one child: child.pull() / child() ---------------------------------------------
   Node.run_data_tree: the upstream closure of the child (itself included) gets TEMPORARY labels
   (label ++ str(id(node)); any suffix no label can carry does here), the parent workflow is run
   with the upstream-most nodes as starters and the pulled child unhooked, labels are restored, the
   parent forgets its remembered inputs; then the child fetches and runs.  During the parent's
   inner run its panels are built from the temporary labels, so its cache test compares THAT
   value dict with the remembered one: on a hit nothing upstream runs.  child() first lets the
   workflow fetch its own (exposed) inputs -- a connected channel exposed by the map takes the value
   of its newest connection holding data.  Modelled where the driver performs it: acyclic data,
   both panels readable. *)
Definition fetch_stored (st : wf) (iid : nat) : Z :=
  match find (fun o => match val st o with Some _ => true | None => false end) (map snd (filter (fun p => Nat.eqb (fst p) iid) (w_conns st))) with
  | Some o => stored st o
  | None => stored st iid
  end.

Definition fetch_ids (st : wf) (ids : list nat) : wf :=
  set_vals st (fold_left (fun acc i => upd Nat.eqb i (fetch_stored st i) acc) ids (w_vals st)).

Definition in_tree (st : wf) (root : string) (c : child) : bool :=
  String.eqb root (c_label c) || reaches (List.length (w_children st)) (edges st) root (c_label c).

Definition run_self (st : wf) (c : child) : wf :=
  let st1 := fetch_ids st (map snd (c_ins c)) in
  let outs := k_fun (kind_spec (c_kind c)) (map (fun e => stored st1 (snd e)) (c_ins c)) in
  set_vals st1 (snd (fold_left (fun acc e => (S (fst acc), upd Nat.eqb (snd e) (zn outs (fst acc)) (snd acc)))
                               (c_outs c) (0, w_vals st1))).

Definition pull (st : wf) (label : string) (with_parent : bool) : wf * res :=
  match find_child label (w_children st) with
  | None => (st, RExc NoRef)
  | Some c =>
      match build_io st DIn, build_io st DOut with
      | Some pin, Some _ =>
          if cyclic st then (st, RExc Skip)
          else
            let st0 := if with_parent then fetch_ids st (map snd pin) else st in
            let ups := filter (fun x => negb (String.eqb label (c_label x)) && in_tree st0 label x)
                              (w_children st0) in
            let st1 :=
              match ups with
              | [] => st0
              | _ =>
                  let tmp := set_children st0
                               (map (fun x => if in_tree st0 label x then relabel x (c_label x ++ "#") else x)
                                    (w_children st0)) in
                  let hit := match build_io tmp DIn, w_cache st0 with
                             | Some p, Some cd => dict_eqb (value_dict st0 p) cd
                             | _, _ => false
                             end in
                  if hit then st0
                  else set_vals st0 (fold_left (exec_child (S (List.length (w_children st0))) st0) ups (w_vals st0))
              end in
            (set_cache (run_self st1 c) None, ROk)
      | _, _ => (st, RExc Skip)
      end
  end.

(* ---- histories ------------------------------------------------------------------------------ *)
Inductive op :=
| OAdd (kind : nat) (label : string)
| ORemove (label : string)
| OConnect (ic il oc ol : string)
| ODisconnect (ic il oc ol : string)
| ODisconnectAll (d : dir) (c l : string)
| OSetMap (d : dir) (m : option (list (string * option string)))
| OAssign (key : string) (v : Z)
| OWConnect (key oc ol : string)
| ORun (kw : list (string * Z))
| OReadd (shelf_label : string) (new_label : option string)
| ORelabel (cur new : string)
| OReplace (cur : string) (src : option string)
| OMapSet (d : dir) (k : string) (v : option string)
| OMapDel (d : dir) (k : string)
| OMapUpdate (d : dir) (ps : list (string * option string))
| OOrphan (label : string)
| OMoveAway (label : string)
| OSetInputs (kw : list (string * Z))
| OPull (label : string) (with_parent : bool)
| OItemAssign (key : string) (v : Z)
| OWConnect2 (key okey : string).

Definition step (st : wf) (o : op) : wf * res :=
  match o with
  | OAdd k l => add_child st k l
  | ORemove l => remove_child st l
  | OConnect ic il oc ol => connect st ic il oc ol
  | ODisconnect ic il oc ol => disconnect st ic il oc ol
  | ODisconnectAll d c l => disconnect_all st d c l
  | OSetMap d m => set_map st d m
  | OAssign k v => assign st k v
  | OWConnect k oc ol => wconnect st k oc ol
  | ORun kw => run_wf st kw
  | OReadd sl nl => readd st sl nl
  | ORelabel c n => relabel_child st c n
  | OReplace c src => replace_child st c src
  | OMapSet d k v => map_setitem st d k v
  | OMapDel d k => map_delitem st d k
  | OMapUpdate d ps => map_update st d ps
  | OOrphan l => leave st l
  | OMoveAway l => leave st l
  | OSetInputs kw => set_inputs st kw
  | OPull l wp => pull st l wp
  | OItemAssign k v => item_assign st k v
  | OWConnect2 k ok => wconnect2 st k ok
  end.

Fixpoint run_ops (st : wf) (ops : list op) : wf :=
  match ops with [] => st | o :: r => run_ops (fst (step st o)) r end.

(* ---- observations (the format harness/props/c15.py prints) --------------------------------- *)
Definition tag_name (e : Z) : string :=
  if Z.eqb (dec_tag e) 1 then "b" else if Z.eqb (dec_tag e) 2 then "f" else "i".
Definition ov (o : option Z) : obs :=
  match o with Some e => OL [OS (tag_name e); OZ (dec_z e)] | None => OS "ND" end.

(* channel.connections as ids, in the channel's own order (newest first) *)
Definition conns_of (st : wf) (d : dir) (id : nat) : list nat :=
  match d with
  | DIn => map snd (filter (fun p => Nat.eqb (fst p) id) (w_conns st))
  | DOut => map fst (filter (fun p => Nat.eqb (snd p) id) (w_conns st))
  end.

Definition chan_obs (st : wf) (d : dir) (e : string * nat) : obs :=
  OL [OS (fst e); on (snd e); OL (map on (conns_of st d (snd e))); ov (val st (snd e))].

Definition child_obs (st : wf) (c : child) : obs :=
  OL [OS (c_label c); OL (map (chan_obs st DIn) (c_ins c)); OL (map (chan_obs st DOut) (c_outs c))].

Definition map_obs (m : kmap) : obs :=
  match m with
  | None => OS "nomap"
  | Some l => OL (map (fun kv => OL [OS (fst kv);
                                     match snd kv with MName s => OS s | MOff _ => OL [] end]) l)
  end.

Definition snapshot (st : wf) : obs :=
  OL [OL (map (child_obs st) (w_children st)); map_obs (w_imap st); map_obs (w_omap st);
      OL (map (fun c => OS (c_label c)) (w_shelf st))].

Definition panel_obs (st : wf) (d : dir) : obs :=
  match build_io st d with
  | None => OL [OS "TypeError"]
  | Some p => OL [OS "ok"; OL (map (fun e => OL [OS (fst e); on (snd e)]) p);
                  OL (map (fun e => on (snd e)) p)]       (* what panel[key] (item access) returns *)
  end.

Definition exc_name (e : exc) : string :=
  match e with
  | TypeErr => "TypeError" | ValueErr => "ValueError" | AttrErr => "AttributeError"
  | KeyErr => "KeyError" | DupErr => "ValueDuplicationError" | NoRef => "noref"
  | CycleErr => "CircularDataFlowError" | Skip => "skip"
  | KVDupErr => "KeyAndValueDuplicationError"
  end.

Definition res_obs (r : res) : obs :=
  match r with
  | ROk => OS "ok"
  | RExc e => OS (exc_name e)
  | RRet l => OL [OS "ok"; OL (map (fun kv => OL [OS (fst kv); ov (snd kv)]) l)]
  end.

Definition look (st : wf) : list obs := [snapshot st; panel_obs st DIn; panel_obs st DOut].

Fixpoint steps_obs (st : wf) (ops : list op) : list obs :=
  match ops with
  | [] => []
  | o :: r => let sr := step st o in OL (res_obs (snd sr) :: look (fst sr)) :: steps_obs (fst sr) r
  end.

(* Workflow(label, inputs_map=im, outputs_map=om) then the history *)
Definition history_obs (im om : option (list (string * option string))) (ops : list op) : obs :=
  match sanitize im, sanitize om with
  | Some i, Some o => let st := init_wf i o in OL (OL (OS "ok" :: look st) :: steps_obs st ops)
  | _, _ => OL [OL [OS "ValueDuplicationError"]]
  end.

(* the same observation, one number per step (a literal observation tree of every step is
   too slow for coqc to read back): a polynomial hash on 61 bits, computed by the same
   recipe in harness/props/c15.py *)
Definition HM : Z := 2305843009213693951%Z.          (* 2^61 - 1, used as a bit mask *)

Fixpoint shash (s : string) (h : Z) : Z :=
  match s with
  | EmptyString => h
  | String a r => shash r (Z.land (h * 131 + Z.of_N (Ascii.N_of_ascii a)) HM)
  end.

Fixpoint ohash (o : obs) : Z :=
  match o with
  | OZ z => Z.land (z * 3 + 1) HM
  | OS s => Z.land (shash s 5381 * 3 + 2) HM
  | OL l => Z.land ((fix go (l : list obs) (h : Z) : Z :=
                match l with
                | [] => h
                | x :: r => go r (Z.land (h * 1000003 + ohash x) HM)
                end) l 7 * 3) HM
  end%Z.

Definition history_hash (im om : option (list (string * option string))) (ops : list op) : obs :=
  match history_obs im om ops with
  | OL steps => OL (map (fun s => OZ (ohash s)) steps)
  | o => o
  end.
