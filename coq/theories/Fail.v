(* Fail.v -- a composite whose children may raise (C06, local execution).
   The loop of Composite._on_run / _run_while_children_or_signals_exist with
   Runnable._run / _run_exception / Node._run_finally for children that run locally:
     * a child whose function raises ends failed and not running, keeps its outputs, and
       emits its `failed` signal instead of `ran` (Node.emitting_channels);
     * a raise out of a STARTING node propagates at once (the loop is not entered);
     * a raise while delivering a queued signal is recorded in the parent's error
       dictionary, the loop goes on, and FailedChildError is raised at the end (with the
       cause attached iff exactly one receiver erred);
     * a failed child that is triggered again is refused (ReadinessError, recorded alike).
   Caches are not part of this layer (C02 proves the cached loop equal to the uncached). *)
From PW Require Import Base.

Inductive osig := ORan | OFailed | OTrue | OFalse.
Inductive isig := IRun | IAcc.
Inductive kind := KChk (k : Z) | KIf.        (* KChk raises when an argument is negative *)

Record finput := { fi_init : option Z; fi_conns : list nat }.
Record fnode := { f_kind : kind; f_ins : list finput; f_sig : list (osig * list (nat * isig)) }.
Definition flow := list fnode.

Definition osig_eqb a b := match a, b with ORan, ORan | OFailed, OFailed | OTrue, OTrue | OFalse, OFalse => true | _, _ => false end.
Definition isig_eqb a b := match a, b with IRun, IRun | IAcc, IAcc => true | _, _ => false end.
Definition em_eqb (a b : nat * osig) := Nat.eqb (fst a) (fst b) && osig_eqb (snd a) (snd b).
Definition rc_eqb (a b : nat * isig) := Nat.eqb (fst a) (fst b) && isig_eqb (snd a) (snd b).

Definition MODULUS : Z := 1000003.
Fixpoint lin_sum (i : Z) (args : list Z) : Z :=
  match args with [] => 0 | a :: r => (i * a + lin_sum (i + 1) r)%Z end.

Inductive res := RVal (z : Z) | RRaise.
Definition sem (k : kind) (args : list Z) : res :=
  match k with
  | KChk c => if existsb (fun a => (a <? 0)%Z) args then RRaise else RVal ((c + lin_sum 1 args) mod MODULUS)%Z
  | KIf => match args with a :: _ => RVal (if (a =? 0)%Z then 0 else 1) | [] => RVal 0 end%Z
  end.

Fixpoint set_nth {A} (l : list A) (n : nat) (x : A) : list A :=
  match l, n with [], _ => [] | _ :: r, O => x :: r | y :: r, S m => y :: set_nth r m x end.

Definition default_node : fnode := {| f_kind := KChk 0; f_ins := []; f_sig := [] |}.
Definition node (g : flow) (n : nat) : fnode := nth n g default_node.
Definition sig_conns (g : flow) (n : nat) (s : osig) : list (nat * isig) :=
  match assoc osig_eqb s (f_sig (node g n)) with Some l => l | None => [] end.
Definition acc_conns (g : flow) (n : nat) : list (nat * osig) :=
  flat_map (fun m => flat_map (fun sc : osig * list (nat * isig) =>
                                  if memb rc_eqb (n, IAcc) (snd sc) then [(m, fst sc)] else [])
                               (f_sig (node g m)))
           (seq 0 (List.length g)).

Inductive logev :=
| LOk (n : nat)            (* the child's function returned              *)
| LRaise (n : nat)         (* the child's function raised                *)
| LRefuse (n : nat).       (* the child refused to run (ReadinessError)  *)

Record fstate := { outv : list (option Z); inv : list (list (option Z)); failedv : list bool;
                   recv : list (list (nat * osig)); queue : list ((nat * osig) * (nat * isig));
                   sent : list ((nat * osig) * (nat * isig));    (* every pair ever enqueued (ghost) *)
                   log : list logev; errs : list (nat * isig) }.

Definition init_state (g : flow) : fstate :=
  {| outv := map (fun _ => None) g; inv := map (fun nd => map fi_init (f_ins nd)) g; failedv := map (fun _ => false) g;
     recv := map (fun _ => []) g; queue := []; sent := []; log := []; errs := [] |}.

Fixpoint first_data (outs : list (option Z)) (conns : list nat) : option Z :=
  match conns with [] => None | u :: r => match nth u outs None with Some v => Some v | None => first_data outs r end end.
Definition fetch1 (outs : list (option Z)) (own : option Z) (i : finput) : option Z :=
  match first_data outs (fi_conns i) with Some v => Some v | None => own end.
Fixpoint fetch_all (outs owns : list (option Z)) (ins : list finput) : list (option Z) :=
  match ins, owns with
  | i :: ir, o :: or => fetch1 outs o i :: fetch_all outs or ir
  | i :: ir, [] => fetch1 outs None i :: fetch_all outs [] ir
  | [], _ => []
  end.
Fixpoint all_some (l : list (option Z)) : option (list Z) :=
  match l with
  | [] => Some []
  | Some v :: r => match all_some r with Some vs => Some (v :: vs) | None => None end
  | None :: _ => None
  end.

(* Node.emitting_channels / If.emitting_channels *)
Definition emitting (g : flow) (outs : list (option Z)) (isfailed : bool) (n : nat) : list osig :=
  if isfailed then [OFailed]          (* a failed If announces only its failure, whatever truth it still holds *)
  else ORan ::
  match f_kind (node g n) with
  | KIf => match nth n outs None with None => [] | Some v => if (v =? 0)%Z then [OFalse] else [OTrue] end
  | _ => []
  end.
Definition emissions (g : flow) (outs : list (option Z)) (isfailed : bool) (n : nat) :=
  flat_map (fun s => map (fun r => ((n, s), r)) (sig_conns g n s)) (emitting g outs isfailed n).

Inductive runres := Ran | Raised | Refused.

Definition run_node (g : flow) (s : fstate) (n : nat) : fstate * runres :=
  let ivals := fetch_all (outv s) (nth n (inv s) []) (f_ins (node g n)) in
  let inv' := set_nth (inv s) n ivals in
  if nth n (failedv s) false then
    ({| outv := outv s; inv := inv'; failedv := failedv s; recv := recv s; queue := queue s; sent := sent s;
        log := log s ++ [LRefuse n]; errs := errs s |}, Refused)
  else match all_some ivals with
  | None => ({| outv := outv s; inv := inv'; failedv := failedv s; recv := recv s; queue := queue s; sent := sent s;
                log := log s ++ [LRefuse n]; errs := errs s |}, Refused)
  | Some args =>
      match sem (f_kind (node g n)) args with
      | RVal v =>
          let outs' := set_nth (outv s) n (Some v) in
          let em := emissions g outs' false n in
          ({| outv := outs'; inv := inv'; failedv := failedv s; recv := recv s; queue := queue s ++ em; sent := sent s ++ em;
              log := log s ++ [LOk n]; errs := errs s |}, Ran)
      | RRaise =>
          let fl := set_nth (failedv s) n true in
          let em := emissions g (outv s) true n in
          ({| outv := outv s; inv := inv'; failedv := fl; recv := recv s; queue := queue s ++ em; sent := sent s ++ em;
              log := log s ++ [LRaise n]; errs := errs s |}, Raised)
      end
  end.

Definition note_err (p : fstate * runres) (r : nat * isig) : fstate :=
  let '(s, x) := p in
  match x with
  | Ran => s
  | _ => {| outv := outv s; inv := inv s; failedv := failedv s; recv := recv s; queue := queue s; sent := sent s;
            log := log s; errs := errs s ++ [r] |}
  end.

Definition subset_em (a b : list (nat * osig)) : bool := forallb (fun x => memb em_eqb x b) a.

Definition deliver (g : flow) (s : fstate) (e : nat * osig) (r : nat * isig) : fstate :=
  let n := fst r in
  match snd r with
  | IRun => note_err (run_node g s n) r
  | IAcc =>
      let got := nth n (recv s) [] in
      let got' := if memb em_eqb e got then got else e :: got in
      if subset_em (acc_conns g n) got' then
        note_err (run_node g {| outv := outv s; inv := inv s; failedv := failedv s; recv := set_nth (recv s) n [];
                                queue := queue s; sent := sent s; log := log s; errs := errs s |} n) r
      else {| outv := outv s; inv := inv s; failedv := failedv s; recv := set_nth (recv s) n got'; queue := queue s;
              sent := sent s; log := log s; errs := errs s |}
  end.

Fixpoint loop (g : flow) (fuel : nat) (s : fstate) : option fstate :=
  match queue s with
  | [] => Some s
  | (e, r) :: q =>
      match fuel with
      | O => None
      | S fuel' => loop g fuel' (deliver g {| outv := outv s; inv := inv s; failedv := failedv s; recv := recv s; queue := q;
                                              sent := sent s; log := log s; errs := errs s |} e r)
      end
  end.

Fixpoint start (g : flow) (s : fstate) (starting : list nat) : fstate * option (nat * runres) :=
  match starting with
  | [] => (s, None)
  | n :: r => let '(s1, x) := run_node g s n in
              match x with Ran => start g s1 r | _ => (s1, Some (n, x)) end
  end.

(* how the run of the composite ends for its caller *)
Inductive verdict :=
| VOk                          (* returned normally                                                   *)
| VUser (n : nat)              (* the user's exception of starting node n reached the caller as it is *)
| VReadiness (n : nat)         (* a starting node refused                                             *)
| VFailedChild (one : bool)    (* FailedChildError; [one]: exactly one receiver erred (cause attached) *)
| VDiverged.

Fixpoint nodup_rc (l : list (nat * isig)) : list (nat * isig) :=
  match l with [] => [] | x :: r => if memb rc_eqb x r then nodup_rc r else x :: nodup_rc r end.

Definition run (g : flow) (fuel : nat) (starting : list nat) : option fstate * verdict :=
  match start g (init_state g) starting with
  | (s1, Some (n, Raised)) => (Some s1, VUser n)
  | (s1, Some (n, _)) => (Some s1, VReadiness n)
  | (s1, None) =>
      match loop g fuel s1 with
      | None => (None, VDiverged)
      | Some s => (Some s, match List.length (nodup_rc (errs s)) with O => VOk | 1 => VFailedChild true | _ => VFailedChild false end)
      end
  end.

Definition parent_failed (v : verdict) : bool := match v with VOk => false | _ => true end.

(* ---- observations ------------------------------------------------------------------------------- *)
Definition obs_slot (o : option Z) : obs := match o with None => OS "nd" | Some z => OZ z end.
Definition obs_verdict (v : verdict) : obs :=
  match v with
  | VOk => OS "ok" | VUser n => OL [OS "UserExc"; on n] | VReadiness n => OL [OS "Readiness"; on n]
  | VFailedChild b => OL [OS "FailedChild"; ob b] | VDiverged => OS "diverged"
  end.
Definition obs_log (l : list logev) : obs :=
  OL (map (fun e => match e with LOk n => OL [OS "ok"; on n] | LRaise n => OL [OS "raise"; on n] | LRefuse n => OL [OS "refuse"; on n] end) l).
Definition started (l : list logev) : list nat :=
  flat_map (fun e => match e with LOk n | LRaise n => [n] | LRefuse _ => [] end) l.
Definition obs_run (g : flow) (fuel : nat) (starting : list nat) : obs :=
  match run g fuel starting with
  | (Some s, v) => OL [obs_verdict v; OL (map on (started (log s))); OL (map obs_slot (outv s)); OL (map ob (failedv s));
                       ob (parent_failed v)]
  | (None, v) => OL [obs_verdict v]
  end.
