(* HintsProofs.v -- lemmas about the GENERATED comparison function (HintsGen.v).
   These proofs are re-checked against whatever tools/py2gallina.py produced from the
   current /repo/pyiron_workflow/type_hinting.py. *)
From PW Require Import Base Hints HintsGen.

(* ---- a usable induction principle for the nested type ----------------------------- *)
Section HintInd.
  Variable P : hint -> Prop.
  Hypothesis Pcls : forall c, P (HCls c).
  Hypothesis Pval : forall v, P (HVal v).
  Hypothesis Pspec : forall s, P (HSpec s).
  Hypothesis Ppar : forall l, Forall P l -> P (HPar l).
  Hypothesis Pnew : forall l, Forall P l -> P (HNew l).
  Hypothesis Pold : forall l, Forall P l -> P (HOld l).
  Hypothesis Plit : forall l, P (HLit l).
  Hypothesis Pann : forall h, P h -> P (HAnn h).
  Hypothesis Pgen : forall o l, Forall P l -> P (HGen o l).

  Fixpoint hint_ind' (h : hint) : P h :=
    let fix all (l : list hint) : Forall P l :=
        match l with [] => Forall_nil _ | x :: r => Forall_cons _ (hint_ind' x) (all r) end in
    match h with
    | HCls c => Pcls c
    | HVal v => Pval v
    | HSpec s => Pspec s
    | HPar l => Ppar l (all l)
    | HNew l => Pnew l (all l)
    | HOld l => Pold l (all l)
    | HLit l => Plit l
    | HAnn x => Pann x (hint_ind' x)
    | HGen o l => Pgen o l (all l)
    end.
End HintInd.

(* ---- option-valued all/any ---------------------------------------------------------- *)
Lemma all_opt_total {A} (f : A -> option bool) l :
  (forall x, In x l -> exists b, f x = Some b) -> exists b, all_opt f l = Some b.
Proof.
  induction l as [|x r IH]; simpl; intros H; [eauto|].
  destruct (H x (or_introl eq_refl)) as [b Hb]; rewrite Hb.
  destruct b; [apply IH; intros y Hy; apply H; right; exact Hy | eauto].
Qed.

Lemma any_opt_total {A} (f : A -> option bool) l :
  (forall x, In x l -> exists b, f x = Some b) -> exists b, any_opt f l = Some b.
Proof.
  induction l as [|x r IH]; simpl; intros H; [eauto|].
  destruct (H x (or_introl eq_refl)) as [b Hb]; rewrite Hb.
  destruct b; [eauto | apply IH; intros y Hy; apply H; right; exact Hy].
Qed.

Lemma all_opt_true {A} (f : A -> option bool) l :
  all_opt f l = Some true -> forall x, In x l -> f x = Some true.
Proof.
  induction l as [|y r IH]; simpl; intros H x Hx; [contradiction|].
  destruct (f y) as [[|]|] eqn:E; try discriminate.
  destruct Hx as [->|Hx]; [exact E | apply IH; assumption].
Qed.

Lemma any_opt_true {A} (f : A -> option bool) l :
  any_opt f l = Some true -> exists x, In x l /\ f x = Some true.
Proof.
  induction l as [|y r IH]; simpl; intros H; [discriminate|].
  destruct (f y) as [[|]|] eqn:E; try discriminate.
  - exists y; auto.
  - destruct (IH H) as [x [Hx Hf]]; exists x; auto.
Qed.

Lemma all_opt_intro {A} (f : A -> option bool) l :
  (forall x, In x l -> f x = Some true) -> all_opt f l = Some true.
Proof.
  induction l as [|y r IH]; simpl; intros H; [reflexivity|].
  rewrite (H y (or_introl eq_refl)). apply IH; intros x Hx; apply H; right; exact Hx.
Qed.

Lemma any_opt_intro {A} (f : A -> option bool) l x :
  In x l -> f x = Some true -> (forall y, In y l -> exists b, f y = Some b) ->
  any_opt f l = Some true.
Proof.
  induction l as [|y r IH]; simpl; intros Hx Hf Ht; [contradiction|].
  destruct (Ht y (or_introl eq_refl)) as [b Hb]. rewrite Hb. destruct b; [reflexivity|].
  destruct Hx as [->|Hx]; [congruence|].
  apply IH; auto.
Qed.

(* ---- sizes ------------------------------------------------------------------------------ *)
Lemma hsize_pos h : 1 <= hsize h.
Proof. destruct h; simpl; lia. Qed.

Lemma hsum_in x l : In x l -> hsize x <= hsum l.
Proof.
  induction l as [|y r IH]; simpl; intros H; [contradiction|].
  destruct H as [->|H]; [lia | specialize (IH H); lia].
Qed.

Lemma hsize_sum l : (fix sum (l : list hint) : nat := match l with [] => 0 | x :: r => hsize x + sum r end) l = hsum l.
Proof. induction l; simpl; auto. Qed.

Lemma get_args_smaller h x : In x (get_args h) -> hsize x < hsize h.
Proof.
  destruct h; simpl; try contradiction; rewrite ?hsize_sum; intros H.
  - apply hsum_in in H; lia.
  - apply hsum_in in H; lia.
  - apply in_map_iff in H. destruct H as [v [<- Hv]]. simpl.
    destruct l; [contradiction | simpl; lia].
  - destruct H as [<-|[<-|[]]]; simpl; [lia | pose proof (hsize_pos h); lia].
  - apply hsum_in in H; lia.
Qed.

Definition is_union (h : hint) : bool :=
  match h with HNew _ | HOld _ => true | _ => false end.

Lemma gth_spec h : forall ho ht, _get_type_hints h = (ho, ht) ->
  ho = get_origin ht /\ hsize ht <= hsize h.
Proof.
  intros ho ht. unfold _get_type_hints.
  destruct h; simpl; intros E; inversion E; subst; simpl; split; auto; lia.
Qed.

Lemma tuple_member x y : In y (type_hint_to_tuple x) ->
  (is_union x = true /\ hsize y < hsize x) \/ (is_union x = false /\ y = x).
Proof.
  unfold type_hint_to_tuple.
  destruct x; simpl; intros H; try (right; split; [reflexivity|]; destruct H as [<-|[]]; reflexivity).
  - left; split; [reflexivity|]. rewrite hsize_sum. apply hsum_in in H. lia.
  - left; split; [reflexivity|]. rewrite hsize_sum. apply hsum_in in H. lia.
Qed.

Lemma union_origin ht :
  sets_intersect [get_origin ht] [HSpec SUnionType; HSpec STypingUnion] = is_union ht.
Proof. destruct ht; reflexivity. Qed.

Lemma sets_intersect2 a b :
  sets_intersect [get_origin a; get_origin b] [HSpec SUnionType; HSpec STypingUnion]
  = is_union a || is_union b.
Proof. destruct a, b; reflexivity. Qed.

(* ---- totality: the comparison always answers, given fuel above the joint size ---------- *)
Lemma ms_total : forall fuel h o, hsize h + hsize o < fuel ->
  exists b, more_specific fuel h o = Some b.
Proof.
  unfold more_specific.
  induction fuel as [|fuel IH]; intros h o Hlt; [lia|].
  cbn [type_hint_is_as_or_more_specific_than].
  destruct (_get_type_hints h) as [ho ht] eqn:Eh.
  destruct (_get_type_hints o) as [oo ot] eqn:Eo.
  destruct (gth_spec _ _ _ Eh) as [-> Hsh]. destruct (gth_spec _ _ _ Eo) as [-> Hso].
  rewrite sets_intersect2.
  destruct (is_union ht || is_union ot) eqn:EU.
  - apply all_opt_total; intros x Hx. apply any_opt_total; intros y Hy. apply IH.
    destruct (tuple_member _ _ Hx) as [[Ux Sx]|[Ux ->]];
    destruct (tuple_member _ _ Hy) as [[Uy Sy]|[Uy ->]]; try lia.
    rewrite Ux, Uy in EU; discriminate.
  - repeat match goal with
           | |- exists b, (if ?c then _ else _) = Some b => destruct c eqn:?
           | |- exists b, Some _ = Some b => eexists; reflexivity
           | |- exists b, (let _ := _ in _) = Some b => cbv zeta
           end.
    + apply all_opt_total; intros [y x] Hxy. apply IH.
      unfold zip in Hxy. pose proof (in_combine_l _ _ _ _ Hxy) as Hy.
      pose proof (in_combine_r _ _ _ _ Hxy) as Hx.
      apply get_args_smaller in Hx. apply get_args_smaller in Hy. lia.
    + apply all_opt_total; intros x Hx. apply any_opt_total; intros y Hy. apply IH.
      apply get_args_smaller in Hx. apply get_args_smaller in Hy. lia.
Qed.

(* ---- one-step facts about the generated function ----------------------------------------- *)
Lemma cls_eqb_refl c : cls_eqb c c = true.
Proof. destruct c; reflexivity. Qed.

Lemma cls_eqb_eq a b : cls_eqb a b = true -> a = b.
Proof. destruct a, b; simpl; intros H; try discriminate; reflexivity. Qed.

Lemma subclass_refl c : subclass c c = true.
Proof. unfold subclass. rewrite cls_eqb_refl. reflexivity. Qed.

Lemma subclass_trans a b c : subclass a b = true -> subclass b c = true -> subclass a c = true.
Proof. destruct a, b, c; simpl; intros H1 H2; try discriminate; reflexivity. Qed.

Lemma lit_pyeq_refl v : lit_pyeq v v = true.
Proof. destruct v; simpl; auto using Z.eqb_refl, String.eqb_refl. destruct b; reflexivity. Qed.

Lemma ms_ann_l f x o : is_ann x = false ->
  more_specific (S f) (HAnn x) o = more_specific (S f) x o.
Proof. intros Hx. destruct x; try discriminate; reflexivity. Qed.

Lemma ms_ann_r f h x : is_ann x = false ->
  more_specific (S f) h (HAnn x) = more_specific (S f) h x.
Proof.
  intros Hx. unfold more_specific. cbn [type_hint_is_as_or_more_specific_than].
  destruct (_get_type_hints h) as [ho ht].
  destruct x; try discriminate; reflexivity.
Qed.

Lemma ms_val f a b :
  more_specific (S f) (HVal a) (HVal b) = Some (lit_same a b).
Proof.
  unfold more_specific, lit_same. cbn. destruct a, b; reflexivity.
Qed.

Lemma ms_cls f a b :
  more_specific (S f) (HCls a) (HCls b) = Some (subclass a b).
Proof. reflexivity. Qed.

Lemma lit_same_refl v : lit_same v v = true.
Proof. unfold lit_same. rewrite lit_pyeq_refl, cls_eqb_refl. reflexivity. Qed.

Lemma wf_all_spec l : (fix all (l : list hint) : bool := match l with [] => true | x :: r => wf x && all r end) l = wf_all l.
Proof. induction l; simpl; auto. Qed.

Lemma wf_all_in l x : wf_all l = true -> In x l -> wf x = true.
Proof.
  induction l as [|y r IH]; simpl; intros H Hx; [contradiction|].
  apply andb_true_iff in H. destruct H as [Hy Hr]. destruct Hx as [->|Hx]; auto.
Qed.

Lemma in_combine_same {A} (l : list A) x y : In (x, y) (combine l l) -> x = y /\ In x l.
Proof.
  induction l as [|z r IH]; simpl; intros H; [contradiction|].
  destruct H as [H|H]; [inversion H; subst; auto|]. destruct (IH H); auto.
Qed.

(* ---- reflexivity ----------------------------------------------------------------------------- *)
Lemma ms_refl : forall h, wf h = true -> forall fuel, 2 * hsize h < fuel ->
  more_specific fuel h h = Some true.
Proof.
  induction h as [c|v|s|l IH|l IH|l IH|l|x IH|o l IH] using hint_ind'; intros Hwf fuel Hf;
    try discriminate; (destruct fuel as [|f]; [lia|]).
  - rewrite ms_cls, subclass_refl. reflexivity.
  - (* X | Y *)
    simpl in Hwf. rewrite wf_all_spec in Hwf. simpl in Hf. rewrite hsize_sum in Hf.
    unfold more_specific. cbn.
    apply all_opt_intro; intros x Hx. rewrite Forall_forall in IH.
    pose proof (hsum_in _ _ Hx) as Sx.
    apply any_opt_intro with (x := x); auto.
    + apply IH; auto. eapply wf_all_in; eauto. lia.
    + intros y Hy. pose proof (hsum_in _ _ Hy). apply ms_total. lia.
  - (* typing.Union *)
    simpl in Hwf. rewrite wf_all_spec in Hwf. simpl in Hf. rewrite hsize_sum in Hf.
    unfold more_specific. cbn.
    apply all_opt_intro; intros x Hx. rewrite Forall_forall in IH.
    pose proof (hsum_in _ _ Hx) as Sx.
    apply any_opt_intro with (x := x); auto.
    + apply IH; auto. eapply wf_all_in; eauto. lia.
    + intros y Hy. pose proof (hsum_in _ _ Hy). apply ms_total. lia.
  - (* Literal *)
    unfold more_specific. cbn. simpl in Hf.
    match goal with |- (if ?c then _ else _) = _ =>
      assert (Hc : c = false) by (destruct l; reflexivity); rewrite Hc; clear Hc end.
    apply all_opt_intro; intros x Hx.
    apply in_map_iff in Hx. destruct Hx as [v [<- Hv]].
    destruct f as [|f]; [destruct l; [contradiction|simpl in Hf; lia]|].
    apply any_opt_intro with (x := HVal v).
    + apply in_map; exact Hv.
    + fold more_specific. rewrite ms_val, lit_same_refl. reflexivity.
    + intros y Hy. apply in_map_iff in Hy. destruct Hy as [w [<- _]]. fold more_specific.
      rewrite ms_val. eauto.
  - (* Annotated *)
    simpl in Hwf. apply andb_true_iff in Hwf. destruct Hwf as [Hw Ha].
    apply negb_true_iff in Ha.
    rewrite ms_ann_l, ms_ann_r by assumption. apply IH; auto. simpl in Hf. lia.
  - (* generics *)
    rewrite Forall_forall in IH. simpl in Hf. rewrite hsize_sum in Hf.
    destruct o; try discriminate; simpl in Hwf.
    + (* list *) destruct l as [|a [|? ?]]; try discriminate.
      unfold more_specific; cbn. fold more_specific. simpl in Hf.
      rewrite IH; simpl; auto; lia.
    + (* dict *) destruct l as [|k [|v [|? ?]]]; try discriminate.
      apply andb_true_iff in Hwf. destruct Hwf as [Hk Hv].
      unfold more_specific; cbn. fold more_specific. simpl in Hf.
      rewrite (IH k); simpl; auto; try lia. rewrite (IH v); simpl; auto; lia.
    + (* tuple *) rewrite wf_all_spec in Hwf.
      unfold more_specific; cbn. fold more_specific.
      destruct l as [|a r]; [reflexivity|].
      cbn [List.length Nat.eqb andb]. rewrite Nat.eqb_refl.
      apply all_opt_intro. intros [y x] Hxy. apply in_combine_same in Hxy. destruct Hxy as [-> Hx].
      pose proof (hsum_in _ _ Hx). apply IH; auto. eapply wf_all_in; eauto. lia.
    + (* set *) destruct l as [|a [|? ?]]; try discriminate.
      unfold more_specific; cbn. fold more_specific. simpl in Hf.
      rewrite IH; simpl; auto; lia.
    + (* type *) destruct l as [|[c| | | | | | | |] [|? ?]]; try discriminate.
      unfold more_specific; cbn. fold more_specific.
      destruct f as [|f]; [simpl in Hf; lia|]. rewrite ms_cls, subclass_refl. reflexivity.
Qed.

(* ---- soundness on the wf fragment ---------------------------------------------------------- *)
Definition strip (h : hint) : hint := match h with HAnn x => x | _ => h end.

Fixpoint each (hs : list hint) (vs : list val) : bool :=
  match hs, vs with
  | [], [] => true
  | h :: hs', v :: vs' => admits h v && each hs' vs'
  | _, _ => false
  end.

Lemma admits_new l v : admits (HNew l) v = existsb (fun x => admits x v) l.
Proof. induction l as [|a r IH]; [reflexivity|]. simpl in *. rewrite IH. reflexivity. Qed.

Lemma admits_old l v : admits (HOld l) v = existsb (fun x => admits x v) l.
Proof. induction l as [|a r IH]; [reflexivity|]. simpl in *. rewrite IH. reflexivity. Qed.

Lemma admits_each_spec hs vs :
  (fix admits_each (hs : list hint) (vs : list val) {struct hs} : bool :=
     match hs, vs with
     | [], [] => true
     | h :: hs', v :: vs' => admits h v && admits_each hs' vs'
     | _, _ => false
     end) hs vs = each hs vs.
Proof. revert vs; induction hs as [|h r IH]; intros [|v vs]; simpl; auto; try (rewrite IH; reflexivity). Qed.

Lemma wf_not_val x : wf x = true -> forall v, x <> HVal v.
Proof. intros H v ->. discriminate. Qed.

Lemma admits_tuple hs v : wf_all hs = true ->
  admits (HGen TupleC hs) v = match v with VTuple l => each hs l | _ => false end.
Proof.
  intros Hwf.
  destruct hs as [|a [|b r]].
  - destruct v; try reflexivity; destruct l; reflexivity.
  - destruct v; try reflexivity; simpl; destruct l as [|x [|? ?]]; simpl; rewrite ?andb_true_r, ?andb_false_r; reflexivity.
  - simpl in Hwf. apply andb_true_iff in Hwf. destruct Hwf as [_ Hb].
    apply andb_true_iff in Hb. destruct Hb as [Hb _].
    destruct b; try discriminate; destruct v; try reflexivity;
      cbn [admits]; rewrite admits_each_spec; reflexivity.
Qed.

Lemma strip_wf h : wf h = true -> wf (strip h) = true /\ is_ann (strip h) = false.
Proof.
  destruct h; simpl; intros H; try (split; [exact H|reflexivity]).
  apply andb_true_iff in H. destruct H as [H1 H2]. apply negb_true_iff in H2. auto.
Qed.

Lemma strip_ms f h o : wf h = true -> wf o = true ->
  more_specific (S f) h o = more_specific (S f) (strip h) (strip o).
Proof.
  intros Hh Ho.
  destruct (strip_wf _ Hh) as [_ Ah]. destruct (strip_wf _ Ho) as [_ Ao].
  destruct h, o; simpl strip in *; rewrite ?ms_ann_l, ?ms_ann_r by assumption; reflexivity.
Qed.

Lemma strip_admits h v : admits h v = admits (strip h) v.
Proof. destruct h; reflexivity. Qed.

Lemma strip_net h : no_empty_tuple h = true -> no_empty_tuple (strip h) = true.
Proof. destruct h; auto. Qed.

Lemma net_all_spec l : (fix all (l : list hint) : bool := match l with [] => true | x :: r => no_empty_tuple x && all r end) l = net_all l.
Proof. induction l; simpl; auto. Qed.

Lemma net_all_in l x : net_all l = true -> In x l -> no_empty_tuple x = true.
Proof.
  induction l as [|y r IH]; simpl; intros H Hx; [contradiction|].
  apply andb_true_iff in H. destruct H as [Hy Hr]. destruct Hx as [->|Hx]; auto.
Qed.

(* members of a (possibly non-) union, as type_hint_to_tuple sees them *)
Lemma tuple_union_admits x v : wf x = true -> is_ann x = false ->
  admits x v = existsb (fun y => admits y v) (type_hint_to_tuple x).
Proof.
  intros Hw Ha. destruct x; try discriminate; unfold type_hint_to_tuple;
    cbn [is_uniontype get_origin py_is orb get_args special_eqb PyNone];
    rewrite ?admits_new, ?admits_old; try reflexivity;
    cbn [existsb]; rewrite orb_false_r; reflexivity.
Qed.

Lemma tuple_union_wf x y : wf x = true -> In y (type_hint_to_tuple x) -> wf y = true.
Proof.
  intros Hw Hy. destruct x; unfold type_hint_to_tuple in Hy;
    cbn [is_uniontype get_origin py_is orb get_args special_eqb PyNone] in Hy;
    try (destruct Hy as [<-|[]]; exact Hw);
    simpl in Hw; rewrite wf_all_spec in Hw; eapply wf_all_in; eauto.
Qed.

Lemma tuple_union_net x y : no_empty_tuple x = true -> In y (type_hint_to_tuple x) -> no_empty_tuple y = true.
Proof.
  intros Hw Hy. destruct x; unfold type_hint_to_tuple in Hy;
    cbn [is_uniontype get_origin py_is orb get_args special_eqb PyNone] in Hy;
    try (destruct Hy as [<-|[]]; exact Hw);
    simpl in Hw; rewrite net_all_spec in Hw; eapply net_all_in; eauto.
Qed.

Lemma lit_matches_same v a b : lit_matches v a = true -> lit_same a b = true -> lit_matches v b = true.
Proof.
  unfold lit_same. intros H1 H2. apply andb_true_iff in H2. destruct H2 as [H2 H3].
  destruct v, a; simpl in H1; try discriminate; destruct b; simpl in H2, H3; try discriminate; simpl; auto.
  - apply Bool.eqb_prop in H1. subst. exact H2.
  - apply Z.eqb_eq in H1. subst. exact H2.
  - apply String.eqb_eq in H1. subst. exact H2.
Qed.

Lemma admits_gen_type o l v : wf (HGen o l) = true -> admits (HGen o l) v = true ->
  admits (HCls o) v = true.
Proof.
  intros Hw Ha.
  destruct o; try discriminate.
  - destruct l as [|a [|? ?]]; try discriminate. destruct v; try discriminate; reflexivity.
  - destruct l as [|a [|b [|? ?]]]; try discriminate. destruct v; try discriminate; reflexivity.
  - simpl in Hw. rewrite wf_all_spec in Hw. rewrite admits_tuple in Ha by assumption.
    destruct v; try discriminate; reflexivity.
  - destruct l as [|a [|? ?]]; try discriminate. destruct v; try discriminate; reflexivity.
  - destruct l as [|[c| | | | | | | |] [|? ?]]; try discriminate. destruct v; try discriminate; reflexivity.
Qed.

Lemma admits_cls_sub a b v : subclass a b = true -> admits (HCls a) v = true -> admits (HCls b) v = true.
Proof.
  simpl. intros Hs. destruct v; try (intros H; eapply subclass_trans; eassumption).
  destruct a; try discriminate. destruct b; try discriminate. auto.
Qed.

Lemma each_sound f hs os vs :
  (forall h o, In (o, h) (combine os hs) -> more_specific f h o = Some true ->
     forall v, admits h v = true -> admits o v = true) ->
  List.length os = List.length hs ->
  all_opt (fun '(o, h) => more_specific f h o) (zip os hs) = Some true ->
  each hs vs = true -> each os vs = true.
Proof.
  revert os vs. induction hs as [|h hs IH]; intros [|o os] vs Hs Hl Hall He; simpl in *; try discriminate; auto.
  destruct vs as [|v vs]; try discriminate.
  destruct (more_specific f h o) as [[|]|] eqn:E; try discriminate.
  apply andb_true_iff in He. destruct He as [Hv He].
  rewrite (Hs h o (or_introl eq_refl) E v Hv). simpl.
  apply IH; auto.
  intros h0 o0 Hin. apply Hs. right. exact Hin.
Qed.

Ltac step H := unfold more_specific in H; cbn [type_hint_is_as_or_more_specific_than] in H; cbn in H;
               fold more_specific in H.

Lemma ms_sound : forall fuel h o, wf h = true -> wf o = true -> no_empty_tuple o = true ->
  more_specific fuel h o = Some true -> forall v, admits h v = true -> admits o v = true.
Proof.
  induction fuel as [|f IH]; intros h o Hh Ho Hn Hms v Hv; [discriminate|].
  rewrite strip_ms in Hms by assumption.
  rewrite strip_admits in Hv. rewrite strip_admits.
  destruct (strip_wf _ Hh) as [Wh Ah]. destruct (strip_wf _ Ho) as [Wo Ao].
  apply strip_net in Hn.
  remember (strip h) as h' eqn:Eh'. remember (strip o) as o' eqn:Eo'. clear Eh' Eo' h o Hh Ho.
  destruct (is_union h' || is_union o') eqn:EU.
  - (* some side is a union: all members of h' are below some member of o' *)
    assert (Hbody : all_opt (fun x => any_opt (fun y => more_specific f x y) (type_hint_to_tuple o'))
                            (type_hint_to_tuple h') = Some true).
    { destruct h'; try discriminate; destruct o'; try discriminate; step Hms; try exact Hms;
        simpl in EU; discriminate. }
    rewrite (tuple_union_admits h') in Hv by assumption.
    rewrite (tuple_union_admits o') by assumption.
    apply existsb_exists in Hv. destruct Hv as [x [Hx Hxv]].
    pose proof (all_opt_true _ _ Hbody x Hx) as Hany.
    apply any_opt_true in Hany. destruct Hany as [y [Hy Hxy]].
    apply existsb_exists. exists y. split; [exact Hy|].
    apply (IH x y); [exact (tuple_union_wf h' x Wh Hx) | exact (tuple_union_wf o' y Wo Hy)
                    | exact (tuple_union_net o' y Hn Hy) | exact Hxy | exact Hxv].
  - apply orb_false_iff in EU. destruct EU as [Uh Uo].
    destruct h' as [a| | | | | |lh| |oh lh]; try discriminate;
    destruct o' as [b| | | | | |lo| |oo lo]; try discriminate.
    + (* class, class *)
      step Hms. injection Hms as Hs. eapply admits_cls_sub; eauto.
    + (* literal, literal *)
      step Hms.
      match type of Hms with (if ?c then _ else _) = _ => destruct c; [discriminate|] end.
      simpl in Hv |- *. apply existsb_exists in Hv. destruct Hv as [a [Ha Hva]].
      pose proof (all_opt_true _ _ Hms (HVal a) (in_map _ _ _ Ha)) as Hany.
      apply any_opt_true in Hany. destruct Hany as [y [Hy Hay]].
      apply in_map_iff in Hy. destruct Hy as [b [<- Hb]].
      destruct f as [|f']; [discriminate|]. rewrite ms_val in Hay. injection Hay as Hs.
      apply existsb_exists. exists b. split; [exact Hb|]. eapply lit_matches_same; eauto.
    + (* generic, class *)
      step Hms. injection Hms as Hs. apply cls_eqb_eq in Hs. subst.
      eapply admits_gen_type; eauto.
    + (* generic, generic *)
      destruct (cls_eqb oh oo) eqn:Eoo;
        [apply cls_eqb_eq in Eoo; subst oo | step Hms; rewrite Eoo in Hms; discriminate].
      destruct oh; try discriminate.
      * (* list *)
        destruct lh as [|x [|? ?]]; try discriminate. destruct lo as [|y [|? ?]]; try discriminate.
        step Hms. destruct (more_specific f x y) as [[|]|] eqn:E; try discriminate.
        destruct v; try discriminate. destruct l as [|w ?]; [reflexivity|]. simpl in Hv |- *.
        simpl in Wh, Wo, Hn. rewrite andb_true_r in Hn.
        exact (IH x y Wh Wo Hn E w Hv).
      * (* dict *)
        destruct lh as [|k1 [|v1 [|? ?]]]; try discriminate. destruct lo as [|k2 [|v2 [|? ?]]]; try discriminate.
        simpl in Wh, Wo, Hn. apply andb_true_iff in Wh, Wo. destruct Wh, Wo.
        rewrite andb_true_r in Hn. apply andb_true_iff in Hn. destruct Hn.
        step Hms.
        destruct (more_specific f k1 k2) as [[|]|] eqn:E1; try discriminate.
        destruct (more_specific f v1 v2) as [[|]|] eqn:E2; try discriminate.
        destruct v; try discriminate. destruct l as [|[kv xv] ?]; [reflexivity|]. simpl in Hv |- *.
        apply andb_true_iff in Hv. destruct Hv as [Hk Hx].
        rewrite (IH k1 k2) with (v := kv); auto. rewrite (IH v1 v2) with (v := xv); auto.
      * (* tuple *)
        pose proof Wh as Wh'. pose proof Wo as Wo'. simpl in Wh', Wo'. rewrite wf_all_spec in Wh', Wo'.
        rewrite admits_tuple in Hv by assumption. rewrite admits_tuple by assumption.
        destruct v; try discriminate.
        destruct lo as [|y lo']; [discriminate|].
        pose proof Hn as Hn'. simpl in Hn'. rewrite net_all_spec in Hn'.
        step Hms.
        destruct lh as [|x lh']; [discriminate|].
        cbn [List.length Nat.eqb andb] in Hms.
        match type of Hms with (if ?c then _ else _) = _ => destruct c eqn:El; [|discriminate] end.
        apply Nat.eqb_eq in El.
        change ((y, x) :: combine lo' lh') with (zip (y :: lo') (x :: lh')) in Hms.
        apply (each_sound f (x :: lh') (y :: lo') l); [| simpl; lia | exact Hms | exact Hv].
        intros h o Hin Hm w Hw. apply (IH h o); auto.
        -- eapply wf_all_in; [exact Wh'|]. eapply in_combine_r; eauto.
        -- eapply wf_all_in; [exact Wo'|]. eapply in_combine_l; eauto.
        -- apply (net_all_in (y :: lo')); [exact Hn'|eapply in_combine_l; eauto].
      * (* set *)
        destruct lh as [|x [|? ?]]; try discriminate. destruct lo as [|y [|? ?]]; try discriminate.
        step Hms. destruct (more_specific f x y) as [[|]|] eqn:E; try discriminate.
        destruct v; try discriminate. destruct l as [|w ?]; [reflexivity|]. simpl in Hv |- *.
        simpl in Wh, Wo, Hn. rewrite andb_true_r in Hn.
        exact (IH x y Wh Wo Hn E w Hv).
      * (* type *)
        destruct lh as [|[c1| | | | | | | |] [|? ?]]; try discriminate.
        destruct lo as [|[c2| | | | | | | |] [|? ?]]; try discriminate.
        step Hms. destruct f as [|f']; [discriminate|]. rewrite ms_cls in Hms.
        destruct (subclass c1 c2) eqn:Es; try discriminate.
        destruct v; try discriminate. simpl in Hv |- *. eapply subclass_trans; eauto.
Qed.
