(* Base.v -- shared vocabulary of the pyiron_workflow model: observation trees (the
   canonical form both the implementation driver and the model print), association
   lists, small list utilities.  Stdlib only; no axioms. *)
From Coq Require Export List ZArith String Bool Arith Lia.
Export ListNotations.
Open Scope string_scope.
Open Scope list_scope.

(* ---- observation trees -------------------------------------------------------- *)
Inductive obs : Type :=
| OZ (z : Z)
| OS (s : string)
| OL (l : list obs).

Fixpoint obs_eqb (a b : obs) {struct a} : bool :=
  match a, b with
  | OZ x, OZ y => Z.eqb x y
  | OS x, OS y => String.eqb x y
  | OL xs, OL ys =>
      (fix go (xs ys : list obs) {struct xs} : bool :=
         match xs, ys with
         | [], [] => true
         | x :: xs', y :: ys' => obs_eqb x y && go xs' ys'
         | _, _ => false
         end) xs ys
  | _, _ => false
  end.

Definition ob (b : bool) : obs := OZ (if b then 1 else 0)%Z.
Definition on (n : nat) : obs := OZ (Z.of_nat n).
Definition oopt {A} (f : A -> obs) (o : option A) : obs :=
  match o with None => OL [] | Some a => OL [f a] end.

(* indices of the cases whose two observations differ (the correspondence verdict) *)
Fixpoint mismatches (i : nat) (cs : list (obs * obs)) : list nat :=
  match cs with
  | [] => []
  | (a, b) :: r => if obs_eqb a b then mismatches (S i) r else i :: mismatches (S i) r
  end.

(* ---- generic helpers ---------------------------------------------------------- *)
Fixpoint memb {A} (eqb : A -> A -> bool) (x : A) (l : list A) : bool :=
  match l with [] => false | y :: r => eqb x y || memb eqb x r end.

Definition memn := memb Nat.eqb.
Definition mems := memb String.eqb.

Fixpoint remove1 {A} (eqb : A -> A -> bool) (x : A) (l : list A) : list A :=
  match l with [] => [] | y :: r => if eqb x y then r else y :: remove1 eqb x r end.

Fixpoint assoc {A B} (eqb : A -> A -> bool) (k : A) (l : list (A * B)) : option B :=
  match l with [] => None | (k', v) :: r => if eqb k k' then Some v else assoc eqb k r end.

Fixpoint upd {A B} (eqb : A -> A -> bool) (k : A) (v : B) (l : list (A * B)) : list (A * B) :=
  match l with
  | [] => [(k, v)]
  | (k', v') :: r => if eqb k k' then (k, v) :: r else (k', v') :: upd eqb k v r
  end.

Fixpoint del {A B} (eqb : A -> A -> bool) (k : A) (l : list (A * B)) : list (A * B) :=
  match l with
  | [] => []
  | (k', v') :: r => if eqb k k' then del eqb k r else (k', v') :: del eqb k r
  end.

Fixpoint nodupb {A} (eqb : A -> A -> bool) (l : list A) : bool :=
  match l with [] => true | x :: r => negb (memb eqb x r) && nodupb eqb r end.

Definition subsetb {A} (eqb : A -> A -> bool) (a b : list A) : bool :=
  forallb (fun x => memb eqb x b) a.

Lemma memn_In x l : memn x l = true <-> In x l.
Proof.
  unfold memn; induction l as [|y r IH]; simpl; [split; [discriminate|tauto]|].
  rewrite orb_true_iff, IH, Nat.eqb_eq. split; intros [H|H]; auto.
Qed.

Lemma mems_In x l : mems x l = true <-> In x l.
Proof.
  unfold mems; induction l as [|y r IH]; simpl; [split; [discriminate|tauto]|].
  rewrite orb_true_iff, IH, String.eqb_eq. split; intros [H|H]; auto.
Qed.

Fixpoint obs_eqb_refl (a : obs) : obs_eqb a a = true.
Proof.
  destruct a as [z|s|l]; simpl.
  - apply Z.eqb_refl.
  - apply String.eqb_refl.
  - induction l as [|x r IHr]; [reflexivity|].
    rewrite (obs_eqb_refl x); exact IHr.
Qed.
