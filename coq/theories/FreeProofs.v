(* FreeProofs.v -- C06 for parentless hand-wired flows (Free.v): whatever the wiring (cycles through failure
   handlers included) and whatever the fuel, a depth-first run that RETURNS NORMALLY to its caller has called no
   function that raised and triggered no node that refused; a run that ends with a user exception names a node
   whose function raised in this very run; and the invariant of Fail.v (completion signals are only ever sent by
   nodes whose function returned, `failed` only by nodes whose function raised, a node is marked failed only
   if its function raised) holds all along. *)
From PW Require Import Base Fail FailProofs Free.

Section FreeProofs.
Variable g : flow.

Definition quiet (l : list logev) : Prop := forall m, ~ In (LRaise m) l /\ ~ In (LRefuse m) l.

(* what one (possibly nested) delivery did, as seen by whoever waits for it *)
Definition Good (s s' : fstate) (r : fres) : Prop :=
  Inv s' /\ exists l, log s' = log s ++ l /\
    (r = FOk -> quiet l) /\
    (forall m, r = FExc m -> In (LRaise m) l) /\
    (forall m, r = FReady m -> In (LRefuse m) l).

Lemma good_intro s s' r l : Inv s' -> log s' = log s ++ l -> (r = FOk -> quiet l) ->
  (forall m, r = FExc m -> In (LRaise m) l) -> (forall m, r = FReady m -> In (LRefuse m) l) -> Good s s' r.
Proof. intros A B C D E. split; [exact A|]. exists l. auto. Qed.

Lemma quiet_nil : quiet [].
Proof. intros m. split; intros []. Qed.

Lemma with_recv_inv s n got : Inv s -> Inv (with_recv s n got).
Proof. intros [A B C]. constructor; cbn; auto. Qed.

Lemma good_refl s : Inv s -> Good s s FOk.
Proof.
  intros H. apply (good_intro s s FOk []); [exact H | rewrite app_nil_r; reflexivity | intros _; apply quiet_nil | discriminate | discriminate].
Qed.

Lemma quiet_app l1 l2 : quiet l1 -> quiet l2 -> quiet (l1 ++ l2).
Proof.
  intros H1 H2 m. split; intros H; apply in_app_iff in H; destruct H as [H|H].
  - apply (proj1 (H1 m)), H.
  - apply (proj1 (H2 m)), H.
  - apply (proj2 (H1 m)), H.
  - apply (proj2 (H2 m)), H.
Qed.

Lemma good_trans s s1 s' r : Good s s1 FOk -> Good s1 s' r -> Good s s' r.
Proof.
  intros [_ [l1 [E1 [Q1 _]]]] [HI [l2 [E2 [Q2 [X2 R2]]]]]. split; [exact HI|].
  exists (l1 ++ l2). split; [rewrite E2, E1, app_assoc; reflexivity|]. split; [|split].
  - intros ->. apply quiet_app; [apply Q1; reflexivity | apply Q2; reflexivity].
  - intros m E. apply in_app_iff. right. apply X2, E.
  - intros m E. apply in_app_iff. right. apply R2, E.
Qed.

Section Deliver.
  Variable exec : fstate -> nat -> fstate * fres.
  Hypothesis exec_good : forall s n s' r, Inv s -> exec s n = (s', r) -> Good s s' r.

  Lemma with_recv_good s n got s' r : Inv s -> exec (with_recv s n got) n = (s', r) -> Good s s' r.
  Proof.
    intros HI E. apply (exec_good _ _ _ _ (with_recv_inv s n got HI)) in E.
    destruct E as [HI' [l [El Rest]]]. split; [exact HI'|]. exists l. cbn in El. auto.
  Qed.

  Lemma fdeliver_good s e r s' x : Inv s -> fdeliver g exec s e r = (s', x) -> Good s s' x.
  Proof.
    intros HI. unfold fdeliver. destruct (snd r).
    - apply exec_good, HI.
    - destruct (subset_em _ _).
      + apply with_recv_good, HI.
      + intros E. inversion E; subst.
        apply (good_intro s _ FOk []); [apply with_recv_inv, HI | cbn; rewrite app_nil_r; reflexivity | intros _; apply quiet_nil | discriminate | discriminate].
  Qed.

  Lemma fdeliver_all_good ems : forall s s' x, Inv s -> fdeliver_all g exec s ems = (s', x) -> Good s s' x.
  Proof.
    induction ems as [|[e r] rest IH]; intros s s' x HI; cbn [fdeliver_all].
    - intros E. inversion E; subst. apply good_refl, HI.
    - destruct (fdeliver g exec s e r) as [s1 y] eqn:Ed. pose proof (fdeliver_good _ _ _ _ _ HI Ed) as G1.
      destruct y; try (intros E; inversion E; subst; exact G1).
      intros E. eapply good_trans; [exact G1|]. apply IH; [apply G1 | exact E].
  Qed.
End Deliver.

Theorem fexec_good : forall fuel s n s' r, Inv s -> fexec g fuel s n = (s', r) -> Good s s' r.
Proof.
  induction fuel as [|fuel IH]; intros s n s' r HI; cbn [fexec].
  - intros E. inversion E; subst.
    apply (good_intro s' s' FFuel []); [exact HI | rewrite app_nil_r; reflexivity | discriminate | discriminate | discriminate].
  - destruct (run_node g s n) as [s1 x] eqn:Er.
    destruct (run_node_contained g _ _ _ _ HI Er) as [HI1 Hx].
    destruct x.
    + (* the function returned: whatever happens below passes through *)
      destruct Hx as [_ [Hl _]]. intros E.
      pose proof (fdeliver_all_good (fexec g fuel) IH _ _ _ _ HI1 E) as G.
      destruct G as [HI' [l [El [Q [X R]]]]].
      apply (good_intro s s' r (LOk n :: l)); [exact HI' | rewrite El, Hl, <- app_assoc; reflexivity | | |].
      * intros Er' m. split; (intros [H|H]; [discriminate|]).
        -- apply (proj1 (Q Er' m)), H.
        -- apply (proj2 (Q Er' m)), H.
      * intros m E'. right. apply X, E'.
      * intros m E'. right. apply R, E'.
    + (* the function raised: the handlers run, then the exception (or a handler's) reaches the caller *)
      destruct Hx as [_ [_ [_ [Hl _]]]].
      destruct (fdeliver_all g (fexec g fuel) s1 (emissions g (outv s1) true n)) as [s2 y] eqn:Ed.
      pose proof (fdeliver_all_good (fexec g fuel) IH _ _ _ _ HI1 Ed) as G.
      intros E. inversion E; subst s' r. clear E.
      destruct G as [HI' [l [El [Q [X R]]]]].
      apply (good_intro s s2 _ (LRaise n :: l)); [exact HI' | rewrite El, Hl, <- app_assoc; reflexivity | | |].
      * destruct y; discriminate.
      * intros m E'. destruct y; try discriminate E'.
        -- inversion E'; subst. left. reflexivity.
        -- right. apply X, E'.
      * intros m E'. destruct y; try discriminate E'. right. apply R, E'.
    + (* refused *)
      destruct Hx as [_ [_ [_ Hl]]]. intros E. inversion E; subst.
      apply (good_intro s s' (FReady n) [LRefuse n]); [exact HI1 | exact Hl | discriminate | discriminate |].
      intros m E'. inversion E'; subst. left. reflexivity.
Qed.

(* the caller's whole session: every starting node run in turn *)
Theorem fruns_reported fuel : forall starting s s' xs, Inv s -> fruns g fuel s starting = (s', xs) ->
  Inv s' /\ List.length xs = List.length starting /\
  (Forall (fun x => x = FOk) xs -> exists l, log s' = log s ++ l /\ quiet l).
Proof.
  induction starting as [|n rest IH]; intros s s' xs HI; cbn [fruns].
  - intros E. inversion E; subst. split; [exact HI|]. split; [reflexivity|]. intros _. exists []. rewrite app_nil_r.
    split; [reflexivity | apply quiet_nil].
  - destruct (fexec g fuel s n) as [s1 x] eqn:E1. destruct (fruns g fuel s1 rest) as [s2 ys] eqn:E2.
    intros E. inversion E; subst s' xs. clear E.
    destruct (fexec_good _ _ _ _ _ HI E1) as [HI1 [l1 [El1 [Q1 _]]]].
    destruct (IH _ _ _ HI1 E2) as [HI2 [Hlen Hq]]. split; [exact HI2|]. split; [cbn; rewrite Hlen; reflexivity|].
    intros HF. inversion HF as [|? ? Hx Hys]; subst.
    destruct (Hq Hys) as [l2 [El2 Q2]]. exists (l1 ++ l2). split; [rewrite El2, El1, app_assoc; reflexivity|].
    apply quiet_app; [apply Q1; reflexivity | exact Q2].
Qed.

End FreeProofs.
