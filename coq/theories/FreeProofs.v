(* FreeProofs.v -- C06 for parentless hand-wired flows (Free.v): whatever the wiring (cycles through failure
   handlers included) and whatever the fuel, a depth-first run that RETURNS NORMALLY to its caller has called no
   function that raised and triggered no node that refused; a run that ends with a user exception names a node
   whose function raised in this very run; and the invariant of Fail.v (completion signals are only ever sent by
   nodes whose function returned, `failed` only by nodes whose function raised, a node is marked failed only
   if its function raised) holds all along. *)
From PW Require Import Base Fail FailProofs Free.

Section FreeProofs.
Variable g : flow.

Definition quiet (l : list logev) : Prop := forall m, ~ In (LRaise m) l /\ ~ In (LRefuse m) l.

(* what one (possibly nested) delivery did, as seen by whoever waits for it *)
Definition Good (s s' : fstate) (r : fres) : Prop :=
  Inv s' /\ exists l, log s' = log s ++ l /\
    (r = FOk -> quiet l) /\
    (forall m, r = FExc m -> In (LRaise m) l) /\
    (forall m, r = FReady m -> In (LRefuse m) l).

Lemma good_intro s s' r l : Inv s' -> log s' = log s ++ l -> (r = FOk -> quiet l) ->
  (forall m, r = FExc m -> In (LRaise m) l) -> (forall m, r = FReady m -> In (LRefuse m) l) -> Good s s' r.
Proof. intros A B C D E. split; [exact A|]. exists l. auto. Qed.

Lemma quiet_nil : quiet [].
Proof. intros m. split; intros []. Qed.

Lemma with_recv_inv s n got : Inv s -> Inv (with_recv s n got).
Proof. intros [A B C]. constructor; cbn; auto. Qed.

Lemma good_refl s : Inv s -> Good s s FOk.
Proof.
  intros H. apply (good_intro s s FOk []); [exact H | rewrite app_nil_r; reflexivity | intros _; apply quiet_nil | discriminate | discriminate].
Qed.

Lemma quiet_app l1 l2 : quiet l1 -> quiet l2 -> quiet (l1 ++ l2).
Proof.
  intros H1 H2 m. split; intros H; apply in_app_iff in H; destruct H as [H|H].
  - apply (proj1 (H1 m)), H.
  - apply (proj1 (H2 m)), H.
  - apply (proj2 (H1 m)), H.
  - apply (proj2 (H2 m)), H.
Qed.

Lemma good_trans s s1 s' r : Good s s1 FOk -> Good s1 s' r -> Good s s' r.
Proof.
  intros [_ [l1 [E1 [Q1 _]]]] [HI [l2 [E2 [Q2 [X2 R2]]]]]. split; [exact HI|].
  exists (l1 ++ l2). split; [rewrite E2, E1, app_assoc; reflexivity|]. split; [|split].
  - intros ->. apply quiet_app; [apply Q1; reflexivity | apply Q2; reflexivity].
  - intros m E. apply in_app_iff. right. apply X2, E.
  - intros m E. apply in_app_iff. right. apply R2, E.
Qed.

Section Deliver.
  Variable exec : fstate -> nat -> fstate * fres.
  Hypothesis exec_good : forall s n s' r, Inv s -> exec s n = (s', r) -> Good s s' r.

  Lemma with_recv_good s n got s' r : Inv s -> exec (with_recv s n got) n = (s', r) -> Good s s' r.
  Proof.
    intros HI E. apply (exec_good _ _ _ _ (with_recv_inv s n got HI)) in E.
    destruct E as [HI' [l [El Rest]]]. split; [exact HI'|]. exists l. cbn in El. auto.
  Qed.

  Lemma fdeliver_good s e r s' x : Inv s -> fdeliver g exec s e r = (s', x) -> Good s s' x.
  Proof.
    intros HI. unfold fdeliver. destruct (snd r).
    - apply exec_good, HI.
    - destruct (subset_em _ _).
      + apply with_recv_good, HI.
      + intros E. inversion E; subst.
        apply (good_intro s _ FOk []); [apply with_recv_inv, HI | cbn; rewrite app_nil_r; reflexivity | intros _; apply quiet_nil | discriminate | discriminate].
  Qed.

  Lemma fdeliver_all_good ems : forall s s' x, Inv s -> fdeliver_all g exec s ems = (s', x) -> Good s s' x.
  Proof.
    induction ems as [|[e r] rest IH]; intros s s' x HI; cbn [fdeliver_all].
    - intros E. inversion E; subst. apply good_refl, HI.
    - destruct (fdeliver g exec s e r) as [s1 y] eqn:Ed. pose proof (fdeliver_good _ _ _ _ _ HI Ed) as G1.
      destruct y; try (intros E; inversion E; subst; exact G1).
      intros E. eapply good_trans; [exact G1|]. apply IH; [apply G1 | exact E].
  Qed.
End Deliver.

Theorem fexec_good : forall fuel s n s' r, Inv s -> fexec g fuel s n = (s', r) -> Good s s' r.
Proof.
  induction fuel as [|fuel IH]; intros s n s' r HI; cbn [fexec].
  - intros E. inversion E; subst.
    apply (good_intro s' s' FFuel []); [exact HI | rewrite app_nil_r; reflexivity | discriminate | discriminate | discriminate].
  - destruct (run_node g s n) as [s1 x] eqn:Er.
    destruct (run_node_contained g _ _ _ _ HI Er) as [HI1 Hx].
    destruct x.
    + (* the function returned: whatever happens below passes through *)
      destruct Hx as [_ [Hl _]]. intros E.
      pose proof (fdeliver_all_good (fexec g fuel) IH _ _ _ _ HI1 E) as G.
      destruct G as [HI' [l [El [Q [X R]]]]].
      apply (good_intro s s' r (LOk n :: l)); [exact HI' | rewrite El, Hl, <- app_assoc; reflexivity | | |].
      * intros Er' m. split; (intros [H|H]; [discriminate|]).
        -- apply (proj1 (Q Er' m)), H.
        -- apply (proj2 (Q Er' m)), H.
      * intros m E'. right. apply X, E'.
      * intros m E'. right. apply R, E'.
    + (* the function raised: the handlers run, then the exception (or a handler's) reaches the caller *)
      destruct Hx as [_ [_ [_ [Hl _]]]].
      destruct (fdeliver_all g (fexec g fuel) s1 (emissions g (outv s1) true n)) as [s2 y] eqn:Ed.
      pose proof (fdeliver_all_good (fexec g fuel) IH _ _ _ _ HI1 Ed) as G.
      intros E. inversion E; subst s' r. clear E.
      destruct G as [HI' [l [El [Q [X R]]]]].
      apply (good_intro s s2 _ (LRaise n :: l)); [exact HI' | rewrite El, Hl, <- app_assoc; reflexivity | | |].
      * destruct y; discriminate.
      * intros m E'. destruct y; try discriminate E'.
        -- inversion E'; subst. left. reflexivity.
        -- right. apply X, E'.
      * intros m E'. destruct y; try discriminate E'. right. apply R, E'.
    + (* refused *)
      destruct Hx as [_ [_ [_ Hl]]]. intros E. inversion E; subst.
      apply (good_intro s s' (FReady n) [LRefuse n]); [exact HI1 | exact Hl | discriminate | discriminate |].
      intros m E'. inversion E'; subst. left. reflexivity.
Qed.

(* the caller's whole session: every starting node run in turn *)
Theorem fruns_reported fuel : forall starting s s' xs, Inv s -> fruns g fuel s starting = (s', xs) ->
  Inv s' /\ List.length xs = List.length starting /\
  (Forall (fun x => x = FOk) xs -> exists l, log s' = log s ++ l /\ quiet l).
Proof.
  induction starting as [|n rest IH]; intros s s' xs HI; cbn [fruns].
  - intros E. inversion E; subst. split; [exact HI|]. split; [reflexivity|]. intros _. exists []. rewrite app_nil_r.
    split; [reflexivity | apply quiet_nil].
  - destruct (fexec g fuel s n) as [s1 x] eqn:E1. destruct (fruns g fuel s1 rest) as [s2 ys] eqn:E2.
    intros E. inversion E; subst s' xs. clear E.
    destruct (fexec_good _ _ _ _ _ HI E1) as [HI1 [l1 [El1 [Q1 _]]]].
    destruct (IH _ _ _ HI1 E2) as [HI2 [Hlen Hq]]. split; [exact HI2|]. split; [cbn; rewrite Hlen; reflexivity|].
    intros HF. inversion HF as [|? ? Hx Hys]; subst.
    destruct (Hq Hys) as [l2 [El2 Q2]]. exists (l1 ++ l2). split; [rewrite El2, El1, app_assoc; reflexivity|].
    apply quiet_app; [apply Q1; reflexivity | exact Q2].
Qed.

End FreeProofs.

(* ---- who may execute: every node a depth-first run executes, other than the node the caller ran, was triggered by a
   signal that had really been sent -- and by FailProofs.Inv a completion-type signal is only ever sent by a node whose
   function returned, `failed` only by one whose function raised.  Hence no node runs on the strength of the completion
   of a node that failed. ---- *)
Section Triggered.
Variable g : flow.

Lemma run_node_sent s n s1 x : run_node g s n = (s1, x) ->
  match x with
  | Ran => sent s1 = sent s ++ emissions g (outv s1) false n
  | Raised => sent s1 = sent s ++ emissions g (outv s1) true n
  | Refused => sent s1 = sent s
  end.
Proof.
  unfold run_node. destruct (nth n (failedv s) false); [intros E; inversion E; reflexivity|].
  destruct (all_some _); [|intros E; inversion E; reflexivity].
  destruct (sem _ _); intros E; inversion E; reflexivity.
Qed.

(* the nodes whose function was called in a stretch of the log *)
Definition called (l : list logev) : list nat := started l.

Definition Trig (s s' : fstate) (root : option nat) : Prop :=
  incl (sent s) (sent s') /\
  exists l, log s' = log s ++ l /\
    forall m, In m (called l) -> Some m = root \/ exists e r, In (e, r) (sent s') /\ fst r = m.

Lemma called_app l1 l2 m : In m (called (l1 ++ l2)) <-> In m (called l1) \/ In m (called l2).
Proof. unfold called, started. rewrite flat_map_app, in_app_iff. reflexivity. Qed.

Lemma trig_refl s root : Trig s s root.
Proof. split; [apply incl_refl|]. exists []. rewrite app_nil_r. split; [reflexivity|]. intros m []. Qed.

Lemma trig_weaken_sent s s1 s' root : Trig s s1 root -> incl (sent s1) (sent s') ->
  forall l, log s1 = log s ++ l -> forall m, In m (called l) -> Some m = root \/ exists e r, In (e, r) (sent s') /\ fst r = m.
Proof.
  intros [_ [l0 [E0 H0]]] Hi l El m Hm. assert (l = l0) as -> by (rewrite E0 in El; apply app_inv_head in El; auto).
  destruct (H0 m Hm) as [A|[e [r [A B]]]]; [left; exact A|]. right. exists e, r. split; [apply Hi, A | exact B].
Qed.

Lemma trig_trans s s1 s' root : Trig s s1 root -> Trig s1 s' None -> Trig s s' root.
Proof.
  intros T1 [I2 [l2 [E2 H2]]]. pose proof T1 as [I1 [l1 [E1 H1]]].
  split; [eapply incl_tran; eauto|]. exists (l1 ++ l2). split; [rewrite E2, E1, app_assoc; reflexivity|].
  intros m Hm. apply called_app in Hm. destruct Hm as [Hm|Hm].
  - apply (trig_weaken_sent s s1 s' root T1 I2 l1 E1 m Hm).
  - destruct (H2 m Hm) as [A|A]; [discriminate A | right; exact A].
Qed.

Section DeliverT.
  Variable exec : fstate -> nat -> fstate * fres.
  Hypothesis exec_trig : forall s n s' r, exec s n = (s', r) -> Trig s s' (Some n).

  Lemma with_recv_exec_trig s n got s' r : exec (with_recv s n got) n = (s', r) -> Trig s s' (Some n).
  Proof. intros E. apply exec_trig in E. exact E. Qed.

  (* a delivery of an emission that was sent: whatever executes was triggered by something sent *)
  Lemma fdeliver_trig s e r s' x : In (e, r) (sent s) -> fdeliver g exec s e r = (s', x) -> Trig s s' None.
  Proof.
    intros Hin. unfold fdeliver.
    assert (K : forall s0, sent s0 = sent s -> log s0 = log s -> exec s0 (fst r) = (s', x) -> Trig s s' None).
    { intros s0 Es El E. apply exec_trig in E. destruct E as [I [l [El' H]]].
      split; [rewrite <- Es; exact I|]. exists l. split; [rewrite El', El; reflexivity|].
      intros m Hm. right. destruct (H m Hm) as [A|A]; [|exact A].
      inversion A; subst. exists e, r. split; [apply I; rewrite Es; exact Hin | reflexivity]. }
    destruct (snd r).
    - apply K; reflexivity.
    - destruct (subset_em _ _).
      + apply K; reflexivity.
      + intros E. inversion E; subst. split; [cbn; apply incl_refl|]. exists []. cbn. rewrite app_nil_r.
        split; [reflexivity|]. intros m [].
  Qed.

  Lemma fdeliver_all_trig ems : forall s s' x, incl ems (sent s) -> fdeliver_all g exec s ems = (s', x) -> Trig s s' None.
  Proof.
    induction ems as [|[e r] rest IH]; intros s s' x Hi; cbn [fdeliver_all].
    - intros E. inversion E; subst. apply trig_refl.
    - destruct (fdeliver g exec s e r) as [s1 y] eqn:Ed.
      pose proof (fdeliver_trig s e r s1 y (Hi _ (or_introl eq_refl)) Ed) as T1.
      destruct y; try (intros E; inversion E; subst; exact T1).
      intros E. eapply trig_trans; [exact T1|]. apply (IH s1 s' x); [|exact E].
      intros p Hp. apply T1. apply Hi. right. exact Hp.
  Qed.
End DeliverT.

Theorem fexec_trig : forall fuel s n s' r, fexec g fuel s n = (s', r) -> Trig s s' (Some n).
Proof.
  induction fuel as [|fuel IH]; intros s n s' r; cbn [fexec].
  - intros E. inversion E; subst. apply trig_refl.
  - destruct (run_node g s n) as [s1 x] eqn:Er. pose proof (run_node_sent _ _ _ _ Er) as Hs.
    assert (Hl : exists ev, log s1 = log s ++ [ev] /\ forall m, In m (called [ev]) -> m = n).
    { unfold run_node in Er. destruct (nth n (failedv s) false).
      - inversion Er; subst. exists (LRefuse n). split; [reflexivity|]. intros m [].
      - destruct (all_some _).
        + destruct (sem _ _); inversion Er; subst; cbn.
          * exists (LOk n). split; [reflexivity|]. intros m [H|[]]. symmetry; exact H.
          * exists (LRaise n). split; [reflexivity|]. intros m [H|[]]. symmetry; exact H.
        + inversion Er; subst. exists (LRefuse n). split; [reflexivity|]. intros m []. }
    destruct Hl as [ev [Hl Hev]].
    assert (T0 : Trig s s1 (Some n)).
    { split; [destruct x; rewrite Hs; [apply incl_appl, incl_refl | apply incl_appl, incl_refl | apply incl_refl]|].
      exists [ev]. split; [exact Hl|]. intros m Hm. left. rewrite (Hev m Hm). reflexivity. }
    destruct x.
    + intros E. eapply trig_trans; [exact T0|]. eapply (fdeliver_all_trig (fexec g fuel) IH); [|exact E].
      rewrite Hs. apply incl_appr, incl_refl.
    + destruct (fdeliver_all g (fexec g fuel) s1 (emissions g (outv s1) true n)) as [s2 y] eqn:Ed.
      intros E. inversion E; subst s' r. eapply trig_trans; [exact T0|].
      eapply (fdeliver_all_trig (fexec g fuel) IH); [|exact Ed]. rewrite Hs. apply incl_appr, incl_refl.
    + intros E. inversion E; subst. exact T0.
Qed.

End Triggered.

Theorem fexec_triggered_soundly (g : flow) fuel s n s' r : Inv s -> fexec g fuel s n = (s', r) ->
  exists l, log s' = log s ++ l /\
    forall m, In m (started l) -> m = n \/
      exists e rc, fst rc = m /\ In (e, rc) (sent s') /\
        (snd e = OFailed -> In (LRaise (fst e)) (log s')) /\ (snd e <> OFailed -> In (LOk (fst e)) (log s')).
Proof.
  intros HI E. destruct (fexec_good g _ _ _ _ _ HI E) as [HI' _].
  destruct (fexec_trig g _ _ _ _ _ E) as [_ [l [El H]]]. exists l. split; [exact El|].
  intros m Hm. destruct (H m Hm) as [A|[e [rc [A B]]]].
  - left. inversion A. reflexivity.
  - right. exists e, rc. split; [exact B|]. split; [exact A|]. apply (inv_sent _ HI' e rc A).
Qed.
