(* SerialProofs.v -- proofs about Serial.v (no axioms, stdlib only). *)
From PW Require Import Base Serial.
From Coq Require Import Permutation.

Set Implicit Arguments.

(* =================================================================== 0. basics *)
Lemma cref_eqb_eq a b : cref_eqb a b = true <-> a = b.
Proof.
  unfold cref_eqb. destruct a as [a1 a2], b as [b1 b2]; simpl.
  rewrite andb_true_iff, !String.eqb_eq. split; [intros [-> ->]; reflexivity | intros H; inversion H; auto].
Qed.
Lemma cref_eqb_refl a : cref_eqb a a = true.
Proof. apply cref_eqb_eq; reflexivity. Qed.
Lemma cref_eqb_neq a b : cref_eqb a b = false <-> a <> b.
Proof.
  split; intros H.
  - intros E; apply cref_eqb_eq in E; congruence.
  - destruct (cref_eqb a b) eqn:E; [apply cref_eqb_eq in E; contradiction | reflexivity].
Qed.
Lemma cref_eqb_sym a b : cref_eqb a b = cref_eqb b a.
Proof.
  destruct (cref_eqb a b) eqn:E.
  - apply cref_eqb_eq in E; subst; symmetry; apply cref_eqb_refl.
  - symmetry; apply cref_eqb_neq; apply cref_eqb_neq in E; congruence.
Qed.
Lemma cref_pair_eqb a b c d :
  cref_eqb (a, b) (c, d) = String.eqb a c && String.eqb b d.
Proof. reflexivity. Qed.

Lemma memb_In_c x l : memb cref_eqb x l = true <-> In x l.
Proof.
  induction l as [|y r IH]; simpl; [split; [discriminate|tauto]|].
  rewrite orb_true_iff, IH, cref_eqb_eq. split; intros [H|H]; auto.
Qed.
Lemma memb_nIn_c x l : memb cref_eqb x l = false <-> ~ In x l.
Proof.
  split; intros H.
  - intros I; apply memb_In_c in I; congruence.
  - destruct (memb cref_eqb x l) eqn:E; [apply memb_In_c in E; contradiction|reflexivity].
Qed.

Lemma nodupb_c l : nodupb cref_eqb l = true <-> NoDup l.
Proof.
  induction l as [|x r IH]; simpl; [split; [constructor|reflexivity]|].
  rewrite andb_true_iff, negb_true_iff, IH, memb_nIn_c. split.
  - intros [A B]; constructor; auto.
  - intros H; inversion H; auto.
Qed.
Lemma mems_nIn x l : mems x l = false <-> ~ In x l.
Proof.
  split; intros H.
  - intros I; apply mems_In in I; congruence.
  - destruct (mems x l) eqn:E; [apply mems_In in E; contradiction|reflexivity].
Qed.
Lemma nodupb_s l : nodupb String.eqb l = true <-> NoDup l.
Proof.
  induction l as [|x r IH]; simpl; [split; [constructor|reflexivity]|].
  rewrite andb_true_iff, negb_true_iff, IH. fold (mems x r). rewrite mems_nIn. split.
  - intros [A B]; constructor; auto.
  - intros H; inversion H; auto.
Qed.

Fixpoint obs_eqb_true (a b : obs) {struct a} : obs_eqb a b = true -> a = b.
Proof.
  destruct a as [x|x|xs], b as [y|y|ys]; simpl; try discriminate.
  - intros H; apply Z.eqb_eq in H; congruence.
  - intros H; apply String.eqb_eq in H; congruence.
  - intros H. f_equal. revert ys H. induction xs as [|x r IH]; intros [|y ys]; try discriminate; auto.
    intros H. apply andb_true_iff in H. destruct H as [H1 H2].
    f_equal; [apply obs_eqb_true; exact H1 | apply IH; exact H2].
Qed.
Lemma slot_eqb_true a b : slot_eqb a b = true -> a = b.
Proof.
  destruct a, b; simpl; try discriminate; auto. intros H; apply obs_eqb_true in H; congruence.
Qed.
Lemma slot_eqb_refl a : slot_eqb a a = true.
Proof. destruct a; simpl; auto. apply obs_eqb_refl. Qed.

(* monadic map *)
Fixpoint mapM {A B} (f : A -> res B) (l : list A) : res (list B) :=
  match l with
  | [] => Ok []
  | x :: r => match f x with
              | Ok y => match mapM f r with Ok t => Ok (y :: t) | Err e => Err e end
              | Err e => Err e
              end
  end.

Lemma mapM_ok {A B} (f : A -> res B) (g : A -> B) l :
  (forall x, In x l -> f x = Ok (g x)) -> mapM f l = Ok (map g l).
Proof.
  induction l as [|x r IH]; simpl; intros H; [reflexivity|].
  rewrite (H x (or_introl eq_refl)), IH; auto.
Qed.

(* =================================================================== 1. unfolding the nested fixpoints *)
Section NodeInd.
  Variable P : node -> Prop.
  Hypothesis H : forall lab kd cls fl rn ex ins outs sin sout kids start prov,
      Forall P kids -> P (Node lab kd cls fl rn ex ins outs sin sout kids start prov).
  Fixpoint node_ind' (n : node) : P n :=
    match n with
    | Node lab kd cls fl rn ex ins outs sin sout kids start prov =>
        H lab kd cls fl rn ex ins outs sin sout start prov
          ((fix all (l : list node) : Forall P l :=
              match l with [] => Forall_nil _ | x :: r => Forall_cons _ (node_ind' x) (all r) end) kids)
    end.
End NodeInd.

Lemma node_eta n :
  n = Node (nlab n) (nkind n) (ncls n) (nfailed n) (nrunning n) (nexe n) (nins n) (nouts n) (nsin n) (nsout n)
           (nkids n) (nstart n) (nprov n).
Proof. destruct n; reflexivity. Qed.

Definition dump_node (det : option string) (path : string) (n : node) (sk : list snode)
           (il : list (string * cref)) (ol : list (cref * string)) : snode :=
  SNode (nlab n) (nkind n) (ncls n) (nfailed n) (nrunning n) (drop_live (nexe n)) det
        (map (fun c => (dlab c, dval c)) (nins n)) (map (fun c => (dlab c, dval c)) (nouts n))
        (map (fun c => (slab c, srcvd c)) (nsin n)) (map slab (nsout n))
        sk
        (if is_comp (nkind n) then pairs (din (nkids n)) else [])
        (if is_comp (nkind n) then pairs (sinv (nkids n)) else [])
        (nstart n) (nprov n) il ol.

Lemma dump_eq det path n :
  dump det path n =
  match mapM (fun k => dump (Some path) (slash path (nlab k)) k) (nkids n) with
  | Err e => Err e
  | Ok sk =>
      if is_linked (nkind n) then
        match ilinks_of (nins n) with
        | Ok il => Ok (dump_node det path n sk il (olinks_of (nkids n)))
        | Err e => Err e
        end
      else Ok (dump_node det path n sk [] [])
  end.
Proof.
  destruct n as [lab kd cls fl rn ex ins outs sin sout kids start prov]. cbn [dump nkids nkind nins].
  match goal with |- match ?a with _ => _ end = match ?b with _ => _ end => assert (E : a = b) end.
  { clear. induction kids as [|k r IH]; [reflexivity|]. cbn [mapM]. rewrite <- IH. reflexivity. }
  rewrite E. reflexivity.
Qed.

Definition restore_node (s : snode) (kids0 : list node) : node :=
  Node (s_lab s) (s_kind s) (s_cls s) (s_failed s) (s_running s) (s_exe s)
       (map (fun c => mkD (fst c) (snd c) [] RNone) (s_ins s))
       (map (fun c => mkD (fst c) (snd c) [] RNone) (s_outs s))
       (map (fun c => mkS (fst c) [] (snd c)) (s_sin s))
       (map (fun c => mkS c [] []) (s_sout s))
       kids0 (s_start s) (s_prov s).

Lemma restore_eq s :
  restore s =
  match mapM restore (s_kids s) with
  | Err e => Err e
  | Ok kids0 => setstate_level (restore_node s kids0) (s_dconns s) (s_sconns s) (s_ilinks s) (s_olinks s)
  end.
Proof.
  destruct s as [lab kd cls fl rn ex det ins outs sin sout skids dconns sconns start prov il ol].
  cbn [restore s_kids].
  match goal with |- match ?a with _ => _ end = match ?b with _ => _ end => assert (E : a = b) end.
  { clear. induction skids as [|k r IH]; [reflexivity|]. cbn [mapM]. rewrite <- IH. reflexivity. }
  rewrite E. reflexivity.
Qed.

Lemma push_in_eq n l v :
  push_in n l v =
  if nrunning n then Err Locked else
  match findd l (nins n) with
  | None => Err AttrErr
  | Some c =>
      match drcv c with
      | RChild c2 l2 =>
          match (fix go (ks : list node) : res (list node) :=
                   match ks with
                   | [] => Ok []
                   | k :: r =>
                       if String.eqb (nlab k) c2
                       then match push_in k l2 v with Ok k' => Ok (k' :: r) | Err e => Err e end
                       else match go r with Ok r' => Ok (k :: r') | Err e => Err e end
                   end) (nkids n) with
          | Ok kids' => Ok (set_nkids (set_nins n (setval l v (nins n))) kids')
          | Err e => Err e
          end
      | _ => Ok (set_nins n (setval l v (nins n)))
      end
  end.
Proof. destruct n; reflexivity. Qed.

Lemma chain_eq n l :
  chain n l =
  match findd l (nins n) with
  | None => []
  | Some c => (nrunning n, dval c) ::
              match drcv c with RChild c2 l2 => chain_kid (nkids n) c2 l2 | _ => [] end
  end.
Proof.
  destruct n as [lab kd cls fl rn ex ins outs sin sout kids start prov]. cbn [chain nins nrunning nkids].
  destruct (findd l ins) as [c|]; [|reflexivity]. f_equal.
  destruct (drcv c) as [|c2 l2|]; try reflexivity.
  unfold chain_kid, findn. induction kids as [|k r IH]; [reflexivity|].
  cbn [find]. destruct (String.eqb (nlab k) c2); [reflexivity|exact IH].
Qed.

Lemma wfb_eq n :
  wfb n = forallb wfb (nkids n) && level_ok (nkids n) && nodupb String.eqb (map nlab (nkids n))
          && forallb (fun l => mems l (map nlab (nkids n))) (nstart n)
          && (is_comp (nkind n) || match nkids n with [] => true | _ => false end).
Proof.
  destruct n as [lab kd cls fl rn ex ins outs sin sout kids start prov]. reflexivity.
Qed.

Lemma allb_eq p n : allb p n = p n && forallb (allb p) (nkids n).
Proof.
  destruct n as [lab kd cls fl rn ex ins outs sin sout kids start prov]. reflexivity.
Qed.

(* =================================================================== 2. connection lists set by a function of the channel key *)
Definition putk (fi fo gi go : cref -> list cref) (k : node) : node :=
  Node (nlab k) (nkind k) (ncls k) (nfailed k) (nrunning k) (nexe k)
       (map (fun c => set_dcon c (fi (nlab k, dlab c))) (nins k))
       (map (fun c => set_dcon c (fo (nlab k, dlab c))) (nouts k))
       (map (fun c => set_scon c (gi (nlab k, slab c))) (nsin k))
       (map (fun c => set_scon c (go (nlab k, slab c))) (nsout k))
       (nkids k) (nstart k) (nprov k).
Definition put fi fo gi go (K : list node) : list node := map (putk fi fo gi go) K.
Definition bumpf (f : cref -> list cref) (i o : cref) (x : cref) : list cref :=
  if cref_eqb x i then o :: f x else f x.

Lemma put_ext fi fo gi go fi' fo' gi' go' K :
  (forall k c, In k K -> In c (nins k) -> fi (nlab k, dlab c) = fi' (nlab k, dlab c)) ->
  (forall k c, In k K -> In c (nouts k) -> fo (nlab k, dlab c) = fo' (nlab k, dlab c)) ->
  (forall k c, In k K -> In c (nsin k) -> gi (nlab k, slab c) = gi' (nlab k, slab c)) ->
  (forall k c, In k K -> In c (nsout k) -> go (nlab k, slab c) = go' (nlab k, slab c)) ->
  put fi fo gi go K = put fi' fo' gi' go' K.
Proof.
  intros A B C D. unfold put. apply map_ext_in. intros k Hk. unfold putk.
  f_equal; apply map_ext_in; intros c Hc; f_equal; auto.
Qed.

Lemma put_ext_all fi fo gi go fi' fo' gi' go' K :
  (forall x, fi x = fi' x) -> (forall x, fo x = fo' x) -> (forall x, gi x = gi' x) -> (forall x, go x = go' x) ->
  put fi fo gi go K = put fi' fo' gi' go' K.
Proof. intros; apply put_ext; auto. Qed.

Lemma put_upd_din fi fo gi go K i o :
  upd_din (put fi fo gi go K) i o = put (bumpf fi i o) fo gi go K.
Proof.
  unfold upd_din, put. rewrite map_map. apply map_ext. intros k. destruct i as [i1 i2].
  cbn [putk nlab fst snd]. destruct (String.eqb (nlab k) i1) eqn:E.
  - unfold set_nins, putk. cbn. f_equal. rewrite map_map. apply map_ext. intros c. cbn.
    unfold bumpf. rewrite cref_pair_eqb, E. cbn. destruct (String.eqb (dlab c) i2); reflexivity.
  - unfold putk. f_equal. apply map_ext. intros c. unfold bumpf. rewrite cref_pair_eqb, E. reflexivity.
Qed.
Lemma put_upd_dout fi fo gi go K o i :
  upd_dout (put fi fo gi go K) o i = put fi (bumpf fo o i) gi go K.
Proof.
  unfold upd_dout, put. rewrite map_map. apply map_ext. intros k. destruct o as [o1 o2].
  cbn [putk nlab fst snd]. destruct (String.eqb (nlab k) o1) eqn:E.
  - unfold set_nouts, putk. cbn. f_equal. rewrite map_map. apply map_ext. intros c. cbn.
    unfold bumpf. rewrite cref_pair_eqb, E. cbn. destruct (String.eqb (dlab c) o2); reflexivity.
  - unfold putk. f_equal. apply map_ext. intros c. unfold bumpf. rewrite cref_pair_eqb, E. reflexivity.
Qed.
Lemma put_upd_sin fi fo gi go K i o :
  upd_sin (put fi fo gi go K) i o = put fi fo (bumpf gi i o) go K.
Proof.
  unfold upd_sin, put. rewrite map_map. apply map_ext. intros k. destruct i as [i1 i2].
  cbn [putk nlab fst snd]. destruct (String.eqb (nlab k) i1) eqn:E.
  - unfold set_nsin, putk. cbn. f_equal. rewrite map_map. apply map_ext. intros c. cbn.
    unfold bumpf. rewrite cref_pair_eqb, E. cbn. destruct (String.eqb (slab c) i2); reflexivity.
  - unfold putk. f_equal. apply map_ext. intros c. unfold bumpf. rewrite cref_pair_eqb, E. reflexivity.
Qed.
Lemma put_upd_sout fi fo gi go K o i :
  upd_sout (put fi fo gi go K) o i = put fi fo gi (bumpf go o i) K.
Proof.
  unfold upd_sout, put. rewrite map_map. apply map_ext. intros k. destruct o as [o1 o2].
  cbn [putk nlab fst snd]. destruct (String.eqb (nlab k) o1) eqn:E.
  - unfold set_nsout, putk. cbn. f_equal. rewrite map_map. apply map_ext. intros c. cbn.
    unfold bumpf. rewrite cref_pair_eqb, E. cbn. destruct (String.eqb (slab c) o2); reflexivity.
  - unfold putk. f_equal. apply map_ext. intros c. unfold bumpf. rewrite cref_pair_eqb, E. reflexivity.
Qed.

Definition refill (f : cref -> list cref) (E : table) : table := map (fun e => (fst e, f (fst e))) E.

Lemma din_put fi fo gi go K : din (put fi fo gi go K) = refill fi (din K).
Proof.
  unfold din, put, refill. induction K as [|k r IH]; [reflexivity|]. cbn [map flat_map].
  rewrite IH, map_app. f_equal. cbn. rewrite !map_map. apply map_ext. reflexivity.
Qed.
Lemma dout_put fi fo gi go K : dout (put fi fo gi go K) = refill fo (dout K).
Proof.
  unfold dout, put, refill. induction K as [|k r IH]; [reflexivity|]. cbn [map flat_map].
  rewrite IH, map_app. f_equal. cbn. rewrite !map_map. apply map_ext. reflexivity.
Qed.
Lemma sinv_put fi fo gi go K : sinv (put fi fo gi go K) = refill gi (sinv K).
Proof.
  unfold sinv, put, refill. induction K as [|k r IH]; [reflexivity|]. cbn [map flat_map].
  rewrite IH, map_app. f_equal. cbn. rewrite !map_map. apply map_ext. reflexivity.
Qed.
Lemma soutv_put fi fo gi go K : soutv (put fi fo gi go K) = refill go (soutv K).
Proof.
  unfold soutv, put, refill. induction K as [|k r IH]; [reflexivity|]. cbn [map flat_map].
  rewrite IH, map_app. f_equal. cbn. rewrite !map_map. apply map_ext. reflexivity.
Qed.

Lemma assoc_refill f E k :
  assoc cref_eqb k (refill f E) = if has_key E k then Some (f k) else None.
Proof.
  unfold has_key, refill. induction E as [|[k' v] r IH]; [reflexivity|]. cbn [map assoc fst].
  destruct (cref_eqb k k') eqn:E1; [apply cref_eqb_eq in E1; subst; reflexivity | exact IH].
Qed.
Lemma has_key_In E k : has_key E k = true <-> In k (keys E).
Proof.
  unfold has_key, keys. induction E as [|[k' v] r IH]; cbn [assoc map fst]; [split; [discriminate|intros []]|].
  destruct (cref_eqb k k') eqn:E1.
  - apply cref_eqb_eq in E1; subst. split; auto. intros _; left; reflexivity.
  - rewrite IH. apply cref_eqb_neq in E1. split; [intros H; right; exact H|]. intros [H|H]; [congruence|exact H].
Qed.

Definition outs_of (P : list (cref * cref)) (i : cref) : list cref :=
  map snd (filter (fun p => cref_eqb (fst p) i) P).
Definition ins_of (P : list (cref * cref)) (o : cref) : list cref :=
  map fst (filter (fun p => cref_eqb (snd p) o) P).

Lemma connect_d_put fi fo gi go K i o :
  has_key (din K) i = true -> has_key (dout K) o = true -> ~ In o (fi i) ->
  connect_d (put fi fo gi go K) (i, o) = Ok (put (bumpf fi i o) (bumpf fo o i) gi go K).
Proof.
  intros Hi Ho Hn. unfold connect_d. cbn [fst snd].
  rewrite din_put, dout_put, !assoc_refill, Hi, Ho.
  apply memb_nIn_c in Hn. rewrite Hn. rewrite put_upd_din, put_upd_dout. reflexivity.
Qed.
Lemma connect_s_put fi fo gi go K i o :
  has_key (sinv K) i = true -> has_key (soutv K) o = true -> ~ In o (gi i) ->
  connect_s (put fi fo gi go K) (i, o) = Ok (put fi fo (bumpf gi i o) (bumpf go o i) K).
Proof.
  intros Hi Ho Hn. unfold connect_s. cbn [fst snd].
  rewrite sinv_put, soutv_put, !assoc_refill, Hi, Ho.
  apply memb_nIn_c in Hn. rewrite Hn. rewrite put_upd_sin, put_upd_sout. reflexivity.
Qed.

Lemma relink_put_d gi go K : forall P fi fo,
  (forall p, In p P -> has_key (din K) (fst p) = true /\ has_key (dout K) (snd p) = true) ->
  NoDup P -> (forall p, In p P -> ~ In (snd p) (fi (fst p))) ->
  relink connect_d P (put fi fo gi go K) =
  Ok (put (fun x => rev (outs_of P x) ++ fi x) (fun y => rev (ins_of P y) ++ fo y) gi go K).
Proof.
  induction P as [|[i o] r IH]; intros fi fo Hk Hnd Hfr.
  - reflexivity.
  - cbn [relink]. destruct (Hk (i, o) (or_introl eq_refl)) as [Hi Ho]. cbn [fst snd] in Hi, Ho.
    rewrite connect_d_put; auto; [|exact (Hfr (i, o) (or_introl eq_refl))].
    inversion Hnd as [|? ? Hnin Hnd']; subst.
    rewrite IH; auto.
    + f_equal. apply put_ext_all; try reflexivity; intros x; unfold outs_of, ins_of, bumpf; cbn [filter fst snd].
      * rewrite (cref_eqb_sym x i). destruct (cref_eqb i x); [|reflexivity].
        cbn [map rev]. rewrite <- app_assoc. reflexivity.
      * rewrite (cref_eqb_sym x o). destruct (cref_eqb o x); [|reflexivity].
        cbn [map rev]. rewrite <- app_assoc. reflexivity.
    + intros p Hp; apply Hk; right; exact Hp.
    + intros [i' o'] Hp. cbn [fst snd]. unfold bumpf. destruct (cref_eqb i' i) eqn:E.
      * apply cref_eqb_eq in E; subst i'. intros [H|H].
        -- subst o'. contradiction.
        -- exact (Hfr (i, o') (or_intror Hp) H).
      * exact (Hfr (i', o') (or_intror Hp)).
Qed.

Lemma relink_put_s fi fo K : forall P gi go,
  (forall p, In p P -> has_key (sinv K) (fst p) = true /\ has_key (soutv K) (snd p) = true) ->
  NoDup P -> (forall p, In p P -> ~ In (snd p) (gi (fst p))) ->
  relink connect_s P (put fi fo gi go K) =
  Ok (put fi fo (fun x => rev (outs_of P x) ++ gi x) (fun y => rev (ins_of P y) ++ go y) K).
Proof.
  induction P as [|[i o] r IH]; intros gi go Hk Hnd Hfr.
  - reflexivity.
  - cbn [relink]. destruct (Hk (i, o) (or_introl eq_refl)) as [Hi Ho]. cbn [fst snd] in Hi, Ho.
    rewrite connect_s_put; auto; [|exact (Hfr (i, o) (or_introl eq_refl))].
    inversion Hnd as [|? ? Hnin Hnd']; subst.
    rewrite IH; auto.
    + f_equal. apply put_ext_all; try reflexivity; intros x; unfold outs_of, ins_of, bumpf; cbn [filter fst snd].
      * rewrite (cref_eqb_sym x i). destruct (cref_eqb i x); [|reflexivity].
        cbn [map rev]. rewrite <- app_assoc. reflexivity.
      * rewrite (cref_eqb_sym x o). destruct (cref_eqb o x); [|reflexivity].
        cbn [map rev]. rewrite <- app_assoc. reflexivity.
    + intros p Hp; apply Hk; right; exact Hp.
    + intros [i' o'] Hp. cbn [fst snd]. unfold bumpf. destruct (cref_eqb i' i) eqn:E.
      * apply cref_eqb_eq in E; subst i'. intros [H|H].
        -- subst o'. contradiction.
        -- exact (Hfr (i, o') (or_intror Hp) H).
      * exact (Hfr (i', o') (or_intror Hp)).
Qed.

(* =================================================================== 3. tables, stored pairs, canonical fan-out *)
Lemma nodup_app {A} (a b : list A) :
  NoDup a -> NoDup b -> (forall x, In x a -> ~ In x b) -> NoDup (a ++ b).
Proof.
  induction a as [|x r IH]; intros Ha Hb Hd; [exact Hb|]. cbn. inversion Ha; subst. constructor.
  - rewrite in_app_iff. intros [H|H]; [contradiction|]. exact (Hd x (or_introl eq_refl) H).
  - apply IH; auto. intros y Hy; apply Hd; right; exact Hy.
Qed.

Lemma filter_rev' {A} (f : A -> bool) l : filter f (rev l) = rev (filter f l).
Proof.
  induction l as [|x r IH]; [reflexivity|]. cbn [rev filter]. rewrite filter_app, IH. cbn [filter].
  destruct (f x); cbn [rev]; [reflexivity | rewrite app_nil_r; reflexivity].
Qed.
Lemma outs_of_rev P i : outs_of (rev P) i = rev (outs_of P i).
Proof. unfold outs_of. rewrite filter_rev', map_rev. reflexivity. Qed.
Lemma ins_of_rev P o : ins_of (rev P) o = rev (ins_of P o).
Proof. unfold ins_of. rewrite filter_rev', map_rev. reflexivity. Qed.

Lemma in_pairs E p : In p (pairs E) <-> exists l, In (fst p, l) E /\ In (snd p) l.
Proof.
  unfold pairs. rewrite in_flat_map. split.
  - intros [[k l] [He Hp]]. cbn [fst snd] in Hp. apply in_map_iff in Hp. destruct Hp as [o [<- Ho]].
    exists l. cbn. auto.
  - intros [l [He Ho]]. exists (fst p, l). split; [exact He|]. cbn [fst snd]. apply in_map_iff.
    exists (snd p). split; [destruct p; reflexivity | exact Ho].
Qed.

Lemma assoc_In E k l : NoDup (keys E) -> In (k, l) E -> assoc cref_eqb k E = Some l.
Proof.
  unfold keys. induction E as [|[k' l'] r IH]; intros Hn Hi; [contradiction|]. cbn [assoc].
  cbn [map fst] in Hn. inversion Hn as [|? ? Hnin Hn']; subst.
  destruct Hi as [Hi|Hi].
  - inversion Hi; subst. rewrite cref_eqb_refl. reflexivity.
  - destruct (cref_eqb k k') eqn:E1.
    + apply cref_eqb_eq in E1; subst. exfalso. apply Hnin. apply in_map_iff. exists (k', l). auto.
    + apply IH; auto.
Qed.
Lemma assoc_Some_In (E : table) k l : assoc cref_eqb k E = Some l -> In (k, l) E.
Proof.
  induction E as [|[k' l'] r IH]; cbn [assoc]; [discriminate|].
  destruct (cref_eqb k k') eqn:E1.
  - apply cref_eqb_eq in E1; subst. intros H; inversion H; subst. left; reflexivity.
  - intros H; right; auto.
Qed.
Lemma look_In E k l : NoDup (keys E) -> In (k, l) E -> look E k = l.
Proof. intros Hn Hi. unfold look. rewrite (assoc_In _ _ _ Hn Hi). reflexivity. Qed.
Lemma look_nokey E k : ~ In k (keys E) -> look E k = [].
Proof.
  intros H. unfold look. destruct (assoc cref_eqb k E) as [l|] eqn:A; [|reflexivity].
  exfalso. apply H. apply assoc_Some_In in A. unfold keys. apply in_map_iff. exists (k, l). auto.
Qed.

Lemma outs_of_nokey E i : ~ In i (keys E) -> outs_of (pairs E) i = [].
Proof.
  unfold outs_of, pairs, keys. induction E as [|[k l] r IH]; intros Hn; [reflexivity|].
  cbn [flat_map fst snd]. rewrite filter_app, map_app, IH.
  - rewrite app_nil_r. cbn [map fst] in Hn.
    assert (Hk : cref_eqb k i = false) by (apply cref_eqb_neq; intros ->; apply Hn; left; reflexivity).
    clear -Hk. induction l as [|x t IHl]; [reflexivity|]. cbn [map filter fst]. rewrite Hk. exact IHl.
  - intros H; apply Hn; right; exact H.
Qed.

Lemma outs_of_pairs E i : NoDup (keys E) -> outs_of (pairs E) i = look E i.
Proof.
  unfold keys. induction E as [|[k l] r IH]; intros Hn; [reflexivity|].
  cbn [map fst] in Hn. inversion Hn as [|? ? Hnin Hn']; subst.
  unfold outs_of, pairs in *. cbn [flat_map fst snd]. rewrite filter_app, map_app.
  unfold look. cbn [assoc]. rewrite (cref_eqb_sym i k). destruct (cref_eqb k i) eqn:E1.
  - apply cref_eqb_eq in E1; subst i.
    fold (pairs r). fold (outs_of (pairs r) k). rewrite (outs_of_nokey r k Hnin), app_nil_r.
    clear. induction l as [|x t IHl]; [reflexivity|]. cbn [map filter fst snd]. rewrite cref_eqb_refl.
    cbn [map snd]. f_equal. exact IHl.
  - rewrite IH; auto. unfold look.
    assert (Hl : map snd (filter (fun p : cref * cref => cref_eqb (fst p) i) (map (pair k) l)) = []).
    { clear -E1. induction l as [|x t IHl]; [reflexivity|]. cbn [map filter fst]. rewrite E1. exact IHl. }
    rewrite Hl. reflexivity.
Qed.

Lemma ins_one k l o : NoDup l ->
  map fst (filter (fun p : cref * cref => cref_eqb (snd p) o) (map (pair k) l)) =
  if memb cref_eqb o l then [k] else [].
Proof.
  induction l as [|x t IH]; intros Hn; [reflexivity|]. inversion Hn as [|? ? Hnin Hn']; subst.
  cbn [map filter snd memb]. rewrite (cref_eqb_sym o x). destruct (cref_eqb x o) eqn:E1.
  - apply cref_eqb_eq in E1; subst x. cbn [orb map fst]. rewrite IH; auto.
    apply memb_nIn_c in Hnin. rewrite Hnin. reflexivity.
  - cbn [orb]. apply IH; auto.
Qed.

Lemma ins_of_pairs E o : (forall e, In e E -> NoDup (snd e)) -> ins_of (pairs E) o = canon E o.
Proof.
  unfold ins_of, pairs, canon. induction E as [|[k l] r IH]; intros Hn; [reflexivity|].
  cbn [flat_map fst snd filter]. rewrite filter_app, map_app, IH.
  - rewrite ins_one; [|exact (Hn (k, l) (or_introl eq_refl))].
    destruct (memb cref_eqb o l); reflexivity.
  - intros e He; apply Hn; right; exact He.
Qed.

Lemma table_ok_spec E : table_ok E = true <-> NoDup (keys E) /\ forall e, In e E -> NoDup (snd e).
Proof.
  unfold table_ok. rewrite andb_true_iff, nodupb_c, forallb_forall.
  split; intros [A B]; split; auto; intros e He; apply nodupb_c; auto.
Qed.

Lemma nodup_pairs E : NoDup (keys E) -> (forall e, In e E -> NoDup (snd e)) -> NoDup (pairs E).
Proof.
  unfold keys, pairs. induction E as [|[k l] r IH]; intros Hk Hl; [constructor|].
  cbn [map fst] in Hk. inversion Hk as [|? ? Hnin Hk']; subst. cbn [flat_map fst snd].
  apply nodup_app.
  - pose proof (Hl (k, l) (or_introl eq_refl)) as Hn. cbn in Hn. clear -Hn.
    induction Hn as [|x t Hx Hn IHn]; [constructor|]. cbn [map]. constructor; [|exact IHn].
    rewrite in_map_iff. intros [y [Hy Hin]]. inversion Hy; subst. contradiction.
  - apply IH; auto. intros e He; apply Hl; right; exact He.
  - intros p Hp Hq. apply in_map_iff in Hp. destruct Hp as [o [<- _]].
    fold (pairs r) in Hq. apply in_pairs in Hq. destruct Hq as [l' [He _]]. cbn [fst] in He.
    apply Hnin. apply in_map_iff. exists (k, l'). auto.
Qed.

Lemma in_canon E o i : In i (canon E o) <-> exists l, In (i, l) E /\ In o l.
Proof.
  unfold canon. rewrite in_map_iff. split.
  - intros [[k l] [<- H]]. apply filter_In in H. destruct H as [He Hm]. cbn [snd] in Hm.
    apply memb_In_c in Hm. exists l. auto.
  - intros [l [He Ho]]. exists (i, l). split; [reflexivity|]. apply filter_In. split; [exact He|].
    cbn [snd]. apply memb_In_c. exact Ho.
Qed.
Lemma nodup_canon E o : NoDup (keys E) -> NoDup (canon E o).
Proof.
  unfold keys, canon. induction E as [|[k l] r IH]; intros Hk; [constructor|].
  cbn [map fst] in Hk. inversion Hk as [|? ? Hnin Hk']; subst. cbn [filter snd].
  destruct (memb cref_eqb o l); [|auto]. cbn [map fst]. constructor; [|auto].
  intros H. apply Hnin. apply in_map_iff in H. destruct H as [e [<- He]]. apply filter_In in He.
  apply in_map_iff. exists e. tauto.
Qed.

Lemma sym_half_spec E F :
  sym_half E F = true <->
  forall i l o, In (i, l) E -> In o l -> exists l', assoc cref_eqb o F = Some l' /\ In i l'.
Proof.
  unfold sym_half. rewrite forallb_forall. split.
  - intros H i l o He Ho. specialize (H (i, l) He). cbn [fst snd] in H. rewrite forallb_forall in H.
    specialize (H o Ho). destruct (assoc cref_eqb o F) as [l'|]; [|discriminate].
    exists l'. split; [reflexivity|]. apply memb_In_c. exact H.
  - intros H [i l] He. cbn [fst snd]. rewrite forallb_forall. intros o Ho.
    destruct (H i l o He Ho) as [l' [A B]]. rewrite A. apply memb_In_c. exact B.
Qed.
