(* SerialProofs.v -- proofs about Serial.v (no axioms, stdlib only). *)
From PW Require Import Base Serial.
From Coq Require Import Permutation.

Set Implicit Arguments.

(* =================================================================== 0. basics *)
Lemma cref_eqb_eq a b : cref_eqb a b = true <-> a = b.
Proof.
  unfold cref_eqb. destruct a as [a1 a2], b as [b1 b2]; simpl.
  rewrite andb_true_iff, !String.eqb_eq. split; [intros [-> ->]; reflexivity | intros H; inversion H; auto].
Qed.
Lemma cref_eqb_refl a : cref_eqb a a = true.
Proof. apply cref_eqb_eq; reflexivity. Qed.
Lemma cref_eqb_neq a b : cref_eqb a b = false <-> a <> b.
Proof.
  split; intros H.
  - intros E; apply cref_eqb_eq in E; congruence.
  - destruct (cref_eqb a b) eqn:E; [apply cref_eqb_eq in E; contradiction | reflexivity].
Qed.
Lemma cref_eqb_sym a b : cref_eqb a b = cref_eqb b a.
Proof.
  destruct (cref_eqb a b) eqn:E.
  - apply cref_eqb_eq in E; subst; symmetry; apply cref_eqb_refl.
  - symmetry; apply cref_eqb_neq; apply cref_eqb_neq in E; congruence.
Qed.
Lemma cref_pair_eqb a b c d :
  cref_eqb (a, b) (c, d) = String.eqb a c && String.eqb b d.
Proof. reflexivity. Qed.

Lemma memb_In_c x l : memb cref_eqb x l = true <-> In x l.
Proof.
  induction l as [|y r IH]; simpl; [split; [discriminate|tauto]|].
  rewrite orb_true_iff, IH, cref_eqb_eq. split; intros [H|H]; auto.
Qed.
Lemma memb_nIn_c x l : memb cref_eqb x l = false <-> ~ In x l.
Proof.
  split; intros H.
  - intros I; apply memb_In_c in I; congruence.
  - destruct (memb cref_eqb x l) eqn:E; [apply memb_In_c in E; contradiction|reflexivity].
Qed.

Lemma nodupb_c l : nodupb cref_eqb l = true <-> NoDup l.
Proof.
  induction l as [|x r IH]; simpl; [split; [constructor|reflexivity]|].
  rewrite andb_true_iff, negb_true_iff, IH, memb_nIn_c. split.
  - intros [A B]; constructor; auto.
  - intros H; inversion H; auto.
Qed.
Lemma mems_nIn x l : mems x l = false <-> ~ In x l.
Proof.
  split; intros H.
  - intros I; apply mems_In in I; congruence.
  - destruct (mems x l) eqn:E; [apply mems_In in E; contradiction|reflexivity].
Qed.
Lemma nodupb_s l : nodupb String.eqb l = true <-> NoDup l.
Proof.
  induction l as [|x r IH]; simpl; [split; [constructor|reflexivity]|].
  rewrite andb_true_iff, negb_true_iff, IH. fold (mems x r). rewrite mems_nIn. split.
  - intros [A B]; constructor; auto.
  - intros H; inversion H; auto.
Qed.

Fixpoint obs_eqb_true (a b : obs) {struct a} : obs_eqb a b = true -> a = b.
Proof.
  destruct a as [x|x|xs], b as [y|y|ys]; simpl; try discriminate.
  - intros H; apply Z.eqb_eq in H; congruence.
  - intros H; apply String.eqb_eq in H; congruence.
  - intros H. f_equal. revert ys H. induction xs as [|x r IH]; intros [|y ys]; try discriminate; auto.
    intros H. apply andb_true_iff in H. destruct H as [H1 H2].
    f_equal; [apply obs_eqb_true; exact H1 | apply IH; exact H2].
Qed.
Lemma slot_eqb_true a b : slot_eqb a b = true -> a = b.
Proof.
  destruct a, b; simpl; try discriminate; auto. intros H; apply obs_eqb_true in H; congruence.
Qed.
Lemma slot_eqb_refl a : slot_eqb a a = true.
Proof. destruct a; simpl; auto. apply obs_eqb_refl. Qed.

(* monadic map *)
Fixpoint mapM {A B} (f : A -> res B) (l : list A) : res (list B) :=
  match l with
  | [] => Ok []
  | x :: r => match f x with
              | Ok y => match mapM f r with Ok t => Ok (y :: t) | Err e => Err e end
              | Err e => Err e
              end
  end.

Lemma mapM_ok {A B} (f : A -> res B) (g : A -> B) l :
  (forall x, In x l -> f x = Ok (g x)) -> mapM f l = Ok (map g l).
Proof.
  induction l as [|x r IH]; simpl; intros H; [reflexivity|].
  rewrite (H x (or_introl eq_refl)), IH; auto.
Qed.

(* =================================================================== 1. unfolding the nested fixpoints *)
Section NodeInd.
  Variable P : node -> Prop.
  Hypothesis H : forall lab kd cls fl rn ex ins outs sin sout kids start prov,
      Forall P kids -> P (Node lab kd cls fl rn ex ins outs sin sout kids start prov).
  Fixpoint node_ind' (n : node) : P n :=
    match n with
    | Node lab kd cls fl rn ex ins outs sin sout kids start prov =>
        H lab kd cls fl rn ex ins outs sin sout start prov
          ((fix all (l : list node) : Forall P l :=
              match l with [] => Forall_nil _ | x :: r => Forall_cons _ (node_ind' x) (all r) end) kids)
    end.
End NodeInd.

Lemma node_eta n :
  n = Node (nlab n) (nkind n) (ncls n) (nfailed n) (nrunning n) (nexe n) (nins n) (nouts n) (nsin n) (nsout n)
           (nkids n) (nstart n) (nprov n).
Proof. destruct n; reflexivity. Qed.

Definition dump_node (det : option string) (path : string) (n : node) (sk : list snode)
           (il : list (string * cref)) (ol : list (cref * string)) : snode :=
  SNode (nlab n) (nkind n) (ncls n) (nfailed n) (nrunning n) (drop_live (nexe n)) det
        (map (fun c => (dlab c, dval c)) (nins n)) (map (fun c => (dlab c, dval c)) (nouts n))
        (map (fun c => (slab c, srcvd c)) (nsin n)) (map (fun c => (slab c, srcvd c)) (nsout n))
        sk
        (if is_comp (nkind n) then pairs (din (nkids n)) else [])
        (if is_comp (nkind n) then pairs (sinv (nkids n)) else [])
        (nstart n) (nprov n) il ol.

Lemma dump_eq det path n :
  dump det path n =
  match mapM (fun k => dump (Some path) (slash path (nlab k)) k) (nkids n) with
  | Err e => Err e
  | Ok sk =>
      if is_linked (nkind n) then
        match ilinks_of (nins n) with
        | Ok il => Ok (dump_node det path n sk il (olinks_of (nkids n)))
        | Err e => Err e
        end
      else Ok (dump_node det path n sk [] [])
  end.
Proof.
  destruct n as [lab kd cls fl rn ex ins outs sin sout kids start prov]. cbn [dump nkids nkind nins].
  match goal with |- match ?a with _ => _ end = match ?b with _ => _ end => assert (E : a = b) end.
  { clear. induction kids as [|k r IH]; [reflexivity|]. cbn [mapM]. rewrite <- IH. reflexivity. }
  rewrite E. reflexivity.
Qed.

Definition restore_node (s : snode) (kids0 : list node) : node :=
  Node (s_lab s) (s_kind s) (s_cls s) (s_failed s) (s_running s) (s_exe s)
       (map (fun c => mkD (fst c) (snd c) [] RNone) (s_ins s))
       (map (fun c => mkD (fst c) (snd c) [] RNone) (s_outs s))
       (map (fun c => mkS (fst c) [] (snd c)) (s_sin s))
       (map (fun c => mkS (fst c) [] (snd c)) (s_sout s))
       kids0 (s_start s) (s_prov s).

Lemma restore_eq s :
  restore s =
  match mapM restore (s_kids s) with
  | Err e => Err e
  | Ok kids0 => setstate_level (restore_node s kids0) (s_dconns s) (s_sconns s) (s_ilinks s) (s_olinks s)
  end.
Proof.
  destruct s as [lab kd cls fl rn ex det ins outs sin sout skids dconns sconns start prov il ol].
  cbn [restore s_kids].
  match goal with |- match ?a with _ => _ end = match ?b with _ => _ end => assert (E : a = b) end.
  { clear. induction skids as [|k r IH]; [reflexivity|]. cbn [mapM]. rewrite <- IH. reflexivity. }
  rewrite E. reflexivity.
Qed.

Lemma push_in_eq n l v :
  push_in n l v =
  if nrunning n then Err Locked else
  match findd l (nins n) with
  | None => Err AttrErr
  | Some c =>
      match drcv c with
      | RChild c2 l2 =>
          match (fix go (ks : list node) : res (list node) :=
                   match ks with
                   | [] => Ok []
                   | k :: r =>
                       if String.eqb (nlab k) c2
                       then match push_in k l2 v with Ok k' => Ok (k' :: r) | Err e => Err e end
                       else match go r with Ok r' => Ok (k :: r') | Err e => Err e end
                   end) (nkids n) with
          | Ok kids' => Ok (set_nkids (set_nins n (setval l v (nins n))) kids')
          | Err e => Err e
          end
      | _ => Ok (set_nins n (setval l v (nins n)))
      end
  end.
Proof. destruct n; reflexivity. Qed.

Lemma chain_eq n l :
  chain n l =
  match findd l (nins n) with
  | None => []
  | Some c => (nrunning n, dval c) ::
              match drcv c with RChild c2 l2 => chain_kid (nkids n) c2 l2 | _ => [] end
  end.
Proof.
  destruct n as [lab kd cls fl rn ex ins outs sin sout kids start prov]. cbn [chain nins nrunning nkids].
  destruct (findd l ins) as [c|]; [|reflexivity]. f_equal.
  destruct (drcv c) as [|c2 l2|]; try reflexivity.
  unfold chain_kid, findn. induction kids as [|k r IH]; [reflexivity|].
  cbn [find]. destruct (String.eqb (nlab k) c2); [reflexivity|exact IH].
Qed.

Lemma wfb_eq n :
  wfb n = forallb wfb (nkids n) && level_ok (nkids n) && nodupb String.eqb (map nlab (nkids n))
          && forallb (fun l => mems l (map nlab (nkids n))) (nstart n)
          && (is_comp (nkind n) || match nkids n with [] => true | _ => false end).
Proof.
  destruct n as [lab kd cls fl rn ex ins outs sin sout kids start prov]. reflexivity.
Qed.

Lemma allb_eq p n : allb p n = p n && forallb (allb p) (nkids n).
Proof.
  destruct n as [lab kd cls fl rn ex ins outs sin sout kids start prov]. reflexivity.
Qed.

(* =================================================================== 2. connection lists set by a function of the channel key *)
Definition putk (fi fo gi go : cref -> list cref) (k : node) : node :=
  Node (nlab k) (nkind k) (ncls k) (nfailed k) (nrunning k) (nexe k)
       (map (fun c => set_dcon c (fi (nlab k, dlab c))) (nins k))
       (map (fun c => set_dcon c (fo (nlab k, dlab c))) (nouts k))
       (map (fun c => set_scon c (gi (nlab k, slab c))) (nsin k))
       (map (fun c => set_scon c (go (nlab k, slab c))) (nsout k))
       (nkids k) (nstart k) (nprov k).
Definition put fi fo gi go (K : list node) : list node := map (putk fi fo gi go) K.
Definition bumpf (f : cref -> list cref) (i o : cref) (x : cref) : list cref :=
  if cref_eqb x i then o :: f x else f x.

Lemma put_ext fi fo gi go fi' fo' gi' go' K :
  (forall k c, In k K -> In c (nins k) -> fi (nlab k, dlab c) = fi' (nlab k, dlab c)) ->
  (forall k c, In k K -> In c (nouts k) -> fo (nlab k, dlab c) = fo' (nlab k, dlab c)) ->
  (forall k c, In k K -> In c (nsin k) -> gi (nlab k, slab c) = gi' (nlab k, slab c)) ->
  (forall k c, In k K -> In c (nsout k) -> go (nlab k, slab c) = go' (nlab k, slab c)) ->
  put fi fo gi go K = put fi' fo' gi' go' K.
Proof.
  intros A B C D. unfold put. apply map_ext_in. intros k Hk. unfold putk.
  f_equal; apply map_ext_in; intros c Hc; f_equal; auto.
Qed.

Lemma put_ext_all fi fo gi go fi' fo' gi' go' K :
  (forall x, fi x = fi' x) -> (forall x, fo x = fo' x) -> (forall x, gi x = gi' x) -> (forall x, go x = go' x) ->
  put fi fo gi go K = put fi' fo' gi' go' K.
Proof. intros; apply put_ext; auto. Qed.

Lemma put_upd_din fi fo gi go K i o :
  upd_din (put fi fo gi go K) i o = put (bumpf fi i o) fo gi go K.
Proof.
  unfold upd_din, put. rewrite map_map. apply map_ext. intros k. destruct i as [i1 i2].
  cbn [putk nlab fst snd]. destruct (String.eqb (nlab k) i1) eqn:E.
  - unfold set_nins, putk. cbn. f_equal. rewrite map_map. apply map_ext. intros c. cbn.
    unfold bumpf. rewrite cref_pair_eqb, E. cbn. destruct (String.eqb (dlab c) i2); reflexivity.
  - unfold putk. f_equal. apply map_ext. intros c. unfold bumpf. rewrite cref_pair_eqb, E. reflexivity.
Qed.
Lemma put_upd_dout fi fo gi go K o i :
  upd_dout (put fi fo gi go K) o i = put fi (bumpf fo o i) gi go K.
Proof.
  unfold upd_dout, put. rewrite map_map. apply map_ext. intros k. destruct o as [o1 o2].
  cbn [putk nlab fst snd]. destruct (String.eqb (nlab k) o1) eqn:E.
  - unfold set_nouts, putk. cbn. f_equal. rewrite map_map. apply map_ext. intros c. cbn.
    unfold bumpf. rewrite cref_pair_eqb, E. cbn. destruct (String.eqb (dlab c) o2); reflexivity.
  - unfold putk. f_equal. apply map_ext. intros c. unfold bumpf. rewrite cref_pair_eqb, E. reflexivity.
Qed.
Lemma put_upd_sin fi fo gi go K i o :
  upd_sin (put fi fo gi go K) i o = put fi fo (bumpf gi i o) go K.
Proof.
  unfold upd_sin, put. rewrite map_map. apply map_ext. intros k. destruct i as [i1 i2].
  cbn [putk nlab fst snd]. destruct (String.eqb (nlab k) i1) eqn:E.
  - unfold set_nsin, putk. cbn. f_equal. rewrite map_map. apply map_ext. intros c. cbn.
    unfold bumpf. rewrite cref_pair_eqb, E. cbn. destruct (String.eqb (slab c) i2); reflexivity.
  - unfold putk. f_equal. apply map_ext. intros c. unfold bumpf. rewrite cref_pair_eqb, E. reflexivity.
Qed.
Lemma put_upd_sout fi fo gi go K o i :
  upd_sout (put fi fo gi go K) o i = put fi fo gi (bumpf go o i) K.
Proof.
  unfold upd_sout, put. rewrite map_map. apply map_ext. intros k. destruct o as [o1 o2].
  cbn [putk nlab fst snd]. destruct (String.eqb (nlab k) o1) eqn:E.
  - unfold set_nsout, putk. cbn. f_equal. rewrite map_map. apply map_ext. intros c. cbn.
    unfold bumpf. rewrite cref_pair_eqb, E. cbn. destruct (String.eqb (slab c) o2); reflexivity.
  - unfold putk. f_equal. apply map_ext. intros c. unfold bumpf. rewrite cref_pair_eqb, E. reflexivity.
Qed.

Definition refill (f : cref -> list cref) (E : table) : table := map (fun e => (fst e, f (fst e))) E.

Lemma din_put fi fo gi go K : din (put fi fo gi go K) = refill fi (din K).
Proof.
  unfold din, put, refill. induction K as [|k r IH]; [reflexivity|]. cbn [map flat_map].
  rewrite IH, map_app. f_equal. cbn. rewrite !map_map. apply map_ext. reflexivity.
Qed.
Lemma dout_put fi fo gi go K : dout (put fi fo gi go K) = refill fo (dout K).
Proof.
  unfold dout, put, refill. induction K as [|k r IH]; [reflexivity|]. cbn [map flat_map].
  rewrite IH, map_app. f_equal. cbn. rewrite !map_map. apply map_ext. reflexivity.
Qed.
Lemma sinv_put fi fo gi go K : sinv (put fi fo gi go K) = refill gi (sinv K).
Proof.
  unfold sinv, put, refill. induction K as [|k r IH]; [reflexivity|]. cbn [map flat_map].
  rewrite IH, map_app. f_equal. cbn. rewrite !map_map. apply map_ext. reflexivity.
Qed.
Lemma soutv_put fi fo gi go K : soutv (put fi fo gi go K) = refill go (soutv K).
Proof.
  unfold soutv, put, refill. induction K as [|k r IH]; [reflexivity|]. cbn [map flat_map].
  rewrite IH, map_app. f_equal. cbn. rewrite !map_map. apply map_ext. reflexivity.
Qed.

Lemma assoc_refill f E k :
  assoc cref_eqb k (refill f E) = if has_key E k then Some (f k) else None.
Proof.
  unfold has_key, refill. induction E as [|[k' v] r IH]; [reflexivity|]. cbn [map assoc fst].
  destruct (cref_eqb k k') eqn:E1; [apply cref_eqb_eq in E1; subst; reflexivity | exact IH].
Qed.
Lemma has_key_In E k : has_key E k = true <-> In k (keys E).
Proof.
  unfold has_key, keys. induction E as [|[k' v] r IH]; cbn [assoc map fst]; [split; [discriminate|intros []]|].
  destruct (cref_eqb k k') eqn:E1.
  - apply cref_eqb_eq in E1; subst. split; auto. intros _; left; reflexivity.
  - rewrite IH. apply cref_eqb_neq in E1. split; [intros H; right; exact H|]. intros [H|H]; [congruence|exact H].
Qed.

Definition outs_of (P : list (cref * cref)) (i : cref) : list cref :=
  map snd (filter (fun p => cref_eqb (fst p) i) P).
Definition ins_of (P : list (cref * cref)) (o : cref) : list cref :=
  map fst (filter (fun p => cref_eqb (snd p) o) P).

Lemma connect_d_put fi fo gi go K i o :
  has_key (din K) i = true -> has_key (dout K) o = true -> ~ In o (fi i) ->
  connect_d (put fi fo gi go K) (i, o) = Ok (put (bumpf fi i o) (bumpf fo o i) gi go K).
Proof.
  intros Hi Ho Hn. unfold connect_d. cbn [fst snd].
  rewrite din_put, dout_put, !assoc_refill, Hi, Ho.
  apply memb_nIn_c in Hn. rewrite Hn. rewrite put_upd_din, put_upd_dout. reflexivity.
Qed.
Lemma connect_s_put fi fo gi go K i o :
  has_key (sinv K) i = true -> has_key (soutv K) o = true -> ~ In o (gi i) ->
  connect_s (put fi fo gi go K) (i, o) = Ok (put fi fo (bumpf gi i o) (bumpf go o i) K).
Proof.
  intros Hi Ho Hn. unfold connect_s. cbn [fst snd].
  rewrite sinv_put, soutv_put, !assoc_refill, Hi, Ho.
  apply memb_nIn_c in Hn. rewrite Hn. rewrite put_upd_sin, put_upd_sout. reflexivity.
Qed.

Lemma relink_put_d gi go K : forall P fi fo,
  (forall p, In p P -> has_key (din K) (fst p) = true /\ has_key (dout K) (snd p) = true) ->
  NoDup P -> (forall p, In p P -> ~ In (snd p) (fi (fst p))) ->
  relink connect_d P (put fi fo gi go K) =
  Ok (put (fun x => rev (outs_of P x) ++ fi x) (fun y => rev (ins_of P y) ++ fo y) gi go K).
Proof.
  induction P as [|[i o] r IH]; intros fi fo Hk Hnd Hfr.
  - reflexivity.
  - cbn [relink]. destruct (Hk (i, o) (or_introl eq_refl)) as [Hi Ho]. cbn [fst snd] in Hi, Ho.
    rewrite connect_d_put; auto; [|exact (Hfr (i, o) (or_introl eq_refl))].
    inversion Hnd as [|? ? Hnin Hnd']; subst.
    rewrite IH; auto.
    + f_equal. apply put_ext_all; try reflexivity; intros x; unfold outs_of, ins_of, bumpf; cbn [filter fst snd].
      * rewrite (cref_eqb_sym x i). destruct (cref_eqb i x); [|reflexivity].
        cbn [map rev]. rewrite <- app_assoc. reflexivity.
      * rewrite (cref_eqb_sym x o). destruct (cref_eqb o x); [|reflexivity].
        cbn [map rev]. rewrite <- app_assoc. reflexivity.
    + intros p Hp; apply Hk; right; exact Hp.
    + intros [i' o'] Hp. cbn [fst snd]. unfold bumpf. destruct (cref_eqb i' i) eqn:E.
      * apply cref_eqb_eq in E; subst i'. intros [H|H].
        -- subst o'. contradiction.
        -- exact (Hfr (i, o') (or_intror Hp) H).
      * exact (Hfr (i', o') (or_intror Hp)).
Qed.

Lemma relink_put_s fi fo K : forall P gi go,
  (forall p, In p P -> has_key (sinv K) (fst p) = true /\ has_key (soutv K) (snd p) = true) ->
  NoDup P -> (forall p, In p P -> ~ In (snd p) (gi (fst p))) ->
  relink connect_s P (put fi fo gi go K) =
  Ok (put fi fo (fun x => rev (outs_of P x) ++ gi x) (fun y => rev (ins_of P y) ++ go y) K).
Proof.
  induction P as [|[i o] r IH]; intros gi go Hk Hnd Hfr.
  - reflexivity.
  - cbn [relink]. destruct (Hk (i, o) (or_introl eq_refl)) as [Hi Ho]. cbn [fst snd] in Hi, Ho.
    rewrite connect_s_put; auto; [|exact (Hfr (i, o) (or_introl eq_refl))].
    inversion Hnd as [|? ? Hnin Hnd']; subst.
    rewrite IH; auto.
    + f_equal. apply put_ext_all; try reflexivity; intros x; unfold outs_of, ins_of, bumpf; cbn [filter fst snd].
      * rewrite (cref_eqb_sym x i). destruct (cref_eqb i x); [|reflexivity].
        cbn [map rev]. rewrite <- app_assoc. reflexivity.
      * rewrite (cref_eqb_sym x o). destruct (cref_eqb o x); [|reflexivity].
        cbn [map rev]. rewrite <- app_assoc. reflexivity.
    + intros p Hp; apply Hk; right; exact Hp.
    + intros [i' o'] Hp. cbn [fst snd]. unfold bumpf. destruct (cref_eqb i' i) eqn:E.
      * apply cref_eqb_eq in E; subst i'. intros [H|H].
        -- subst o'. contradiction.
        -- exact (Hfr (i, o') (or_intror Hp) H).
      * exact (Hfr (i', o') (or_intror Hp)).
Qed.

(* =================================================================== 3. tables, stored pairs, canonical fan-out *)
Lemma nodup_app {A} (a b : list A) :
  NoDup a -> NoDup b -> (forall x, In x a -> ~ In x b) -> NoDup (a ++ b).
Proof.
  induction a as [|x r IH]; intros Ha Hb Hd; [exact Hb|]. cbn. inversion Ha; subst. constructor.
  - rewrite in_app_iff. intros [H|H]; [contradiction|]. exact (Hd x (or_introl eq_refl) H).
  - apply IH; auto. intros y Hy; apply Hd; right; exact Hy.
Qed.

Lemma nodup_app_l {A} (a b : list A) : NoDup (a ++ b) -> NoDup a.
Proof.
  induction a as [|x r IH]; intros H; [constructor|]. cbn in H. inversion H; subst. constructor.
  - intros Hin. apply H2. apply in_or_app. left. exact Hin.
  - auto.
Qed.
Lemma nodup_app_r {A} (a b : list A) : NoDup (a ++ b) -> NoDup b.
Proof. induction a as [|x r IH]; intros H; [exact H|]. cbn in H. inversion H; subst. auto. Qed.

Lemma filter_rev' {A} (f : A -> bool) l : filter f (rev l) = rev (filter f l).
Proof.
  induction l as [|x r IH]; [reflexivity|]. cbn [rev filter]. rewrite filter_app, IH. cbn [filter].
  destruct (f x); cbn [rev]; [reflexivity | rewrite app_nil_r; reflexivity].
Qed.
Lemma outs_of_rev P i : outs_of (rev P) i = rev (outs_of P i).
Proof. unfold outs_of. rewrite filter_rev', map_rev. reflexivity. Qed.
Lemma ins_of_rev P o : ins_of (rev P) o = rev (ins_of P o).
Proof. unfold ins_of. rewrite filter_rev', map_rev. reflexivity. Qed.

Lemma in_pairs E p : In p (pairs E) <-> exists l, In (fst p, l) E /\ In (snd p) l.
Proof.
  unfold pairs. rewrite in_flat_map. split.
  - intros [[k l] [He Hp]]. cbn [fst snd] in Hp. apply in_map_iff in Hp. destruct Hp as [o [<- Ho]].
    exists l. cbn. auto.
  - intros [l [He Ho]]. exists (fst p, l). split; [exact He|]. cbn [fst snd]. apply in_map_iff.
    exists (snd p). split; [destruct p; reflexivity | exact Ho].
Qed.

Lemma assoc_In E k l : NoDup (keys E) -> In (k, l) E -> assoc cref_eqb k E = Some l.
Proof.
  unfold keys. induction E as [|[k' l'] r IH]; intros Hn Hi; [contradiction|]. cbn [assoc].
  cbn [map fst] in Hn. inversion Hn as [|? ? Hnin Hn']; subst.
  destruct Hi as [Hi|Hi].
  - inversion Hi; subst. rewrite cref_eqb_refl. reflexivity.
  - destruct (cref_eqb k k') eqn:E1.
    + apply cref_eqb_eq in E1; subst. exfalso. apply Hnin. apply in_map_iff. exists (k', l). auto.
    + apply IH; auto.
Qed.
Lemma assoc_Some_In (E : table) k l : assoc cref_eqb k E = Some l -> In (k, l) E.
Proof.
  induction E as [|[k' l'] r IH]; cbn [assoc]; [discriminate|].
  destruct (cref_eqb k k') eqn:E1.
  - apply cref_eqb_eq in E1; subst. intros H; inversion H; subst. left; reflexivity.
  - intros H; right; auto.
Qed.
Lemma look_In E k l : NoDup (keys E) -> In (k, l) E -> look E k = l.
Proof. intros Hn Hi. unfold look. rewrite (assoc_In _ _ _ Hn Hi). reflexivity. Qed.
Lemma look_nokey E k : ~ In k (keys E) -> look E k = [].
Proof.
  intros H. unfold look. destruct (assoc cref_eqb k E) as [l|] eqn:A; [|reflexivity].
  exfalso. apply H. apply assoc_Some_In in A. unfold keys. apply in_map_iff. exists (k, l). auto.
Qed.

Lemma outs_of_nokey E i : ~ In i (keys E) -> outs_of (pairs E) i = [].
Proof.
  unfold outs_of, pairs, keys. induction E as [|[k l] r IH]; intros Hn; [reflexivity|].
  cbn [flat_map fst snd]. rewrite filter_app, map_app, IH.
  - rewrite app_nil_r. cbn [map fst] in Hn.
    assert (Hk : cref_eqb k i = false) by (apply cref_eqb_neq; intros ->; apply Hn; left; reflexivity).
    clear -Hk. induction l as [|x t IHl]; [reflexivity|]. cbn [map filter fst]. rewrite Hk. exact IHl.
  - intros H; apply Hn; right; exact H.
Qed.

Lemma outs_of_pairs E i : NoDup (keys E) -> outs_of (pairs E) i = look E i.
Proof.
  unfold keys. induction E as [|[k l] r IH]; intros Hn; [reflexivity|].
  cbn [map fst] in Hn. inversion Hn as [|? ? Hnin Hn']; subst.
  unfold outs_of, pairs in *. cbn [flat_map fst snd]. rewrite filter_app, map_app.
  unfold look. cbn [assoc]. rewrite (cref_eqb_sym i k). destruct (cref_eqb k i) eqn:E1.
  - apply cref_eqb_eq in E1; subst i.
    fold (pairs r). fold (outs_of (pairs r) k). rewrite (outs_of_nokey r k Hnin), app_nil_r.
    clear. induction l as [|x t IHl]; [reflexivity|]. cbn [map filter fst snd]. rewrite cref_eqb_refl.
    cbn [map snd]. f_equal. exact IHl.
  - rewrite IH; auto. unfold look.
    assert (Hl : map snd (filter (fun p : cref * cref => cref_eqb (fst p) i) (map (pair k) l)) = []).
    { clear -E1. induction l as [|x t IHl]; [reflexivity|]. cbn [map filter fst]. rewrite E1. exact IHl. }
    rewrite Hl. reflexivity.
Qed.

Lemma ins_one k l o : NoDup l ->
  map fst (filter (fun p : cref * cref => cref_eqb (snd p) o) (map (pair k) l)) =
  if memb cref_eqb o l then [k] else [].
Proof.
  induction l as [|x t IH]; intros Hn; [reflexivity|]. inversion Hn as [|? ? Hnin Hn']; subst.
  cbn [map filter snd memb]. rewrite (cref_eqb_sym o x). destruct (cref_eqb x o) eqn:E1.
  - apply cref_eqb_eq in E1; subst x. cbn [orb map fst]. rewrite IH; auto.
    apply memb_nIn_c in Hnin. rewrite Hnin. reflexivity.
  - cbn [orb]. apply IH; auto.
Qed.

Lemma ins_of_pairs E o : (forall e, In e E -> NoDup (snd e)) -> ins_of (pairs E) o = canon E o.
Proof.
  unfold ins_of, pairs, canon. induction E as [|[k l] r IH]; intros Hn; [reflexivity|].
  cbn [flat_map fst snd filter]. rewrite filter_app, map_app, IH.
  - rewrite ins_one; [|exact (Hn (k, l) (or_introl eq_refl))].
    destruct (memb cref_eqb o l); reflexivity.
  - intros e He; apply Hn; right; exact He.
Qed.

Lemma table_ok_spec E : table_ok E = true <-> NoDup (keys E) /\ forall e, In e E -> NoDup (snd e).
Proof.
  unfold table_ok. rewrite andb_true_iff, nodupb_c, forallb_forall.
  split; intros [A B]; split; auto; intros e He; apply nodupb_c; auto.
Qed.

Lemma nodup_pairs E : NoDup (keys E) -> (forall e, In e E -> NoDup (snd e)) -> NoDup (pairs E).
Proof.
  unfold keys, pairs. induction E as [|[k l] r IH]; intros Hk Hl; [constructor|].
  cbn [map fst] in Hk. inversion Hk as [|? ? Hnin Hk']; subst. cbn [flat_map fst snd].
  apply nodup_app.
  - pose proof (Hl (k, l) (or_introl eq_refl)) as Hn. cbn in Hn. clear -Hn.
    induction Hn as [|x t Hx Hn IHn]; [constructor|]. cbn [map]. constructor; [|exact IHn].
    rewrite in_map_iff. intros [y [Hy Hin]]. inversion Hy; subst. contradiction.
  - apply IH; auto. intros e He; apply Hl; right; exact He.
  - intros p Hp Hq. apply in_map_iff in Hp. destruct Hp as [o [<- _]].
    fold (pairs r) in Hq. apply in_pairs in Hq. destruct Hq as [l' [He _]]. cbn [fst] in He.
    apply Hnin. apply in_map_iff. exists (k, l'). auto.
Qed.

Lemma in_canon E o i : In i (canon E o) <-> exists l, In (i, l) E /\ In o l.
Proof.
  unfold canon. rewrite in_map_iff. split.
  - intros [[k l] [<- H]]. apply filter_In in H. destruct H as [He Hm]. cbn [snd] in Hm.
    apply memb_In_c in Hm. exists l. auto.
  - intros [l [He Ho]]. exists (i, l). split; [reflexivity|]. apply filter_In. split; [exact He|].
    cbn [snd]. apply memb_In_c. exact Ho.
Qed.
Lemma nodup_canon E o : NoDup (keys E) -> NoDup (canon E o).
Proof.
  unfold keys, canon. induction E as [|[k l] r IH]; intros Hk; [constructor|].
  cbn [map fst] in Hk. inversion Hk as [|? ? Hnin Hk']; subst. cbn [filter snd].
  destruct (memb cref_eqb o l); [|auto]. cbn [map fst]. constructor; [|auto].
  intros H. apply Hnin. apply in_map_iff in H. destruct H as [e [<- He]]. apply filter_In in He.
  apply in_map_iff. exists e. tauto.
Qed.

Lemma sym_half_spec E F :
  sym_half E F = true <->
  forall i l o, In (i, l) E -> In o l -> exists l', assoc cref_eqb o F = Some l' /\ In i l'.
Proof.
  unfold sym_half. rewrite forallb_forall. split.
  - intros H i l o He Ho. specialize (H (i, l) He). cbn [fst snd] in H. rewrite forallb_forall in H.
    specialize (H o Ho). destruct (assoc cref_eqb o F) as [l'|]; [|discriminate].
    exists l'. split; [reflexivity|]. apply memb_In_c. exact H.
  - intros H [i l] He. cbn [fst snd]. rewrite forallb_forall. intros o Ho.
    destruct (H i l o He Ho) as [l' [A B]]. rewrite A. apply memb_In_c. exact B.
Qed.

(* =================================================================== 4. re-linking one level *)
Lemma level_ok_spec K : level_ok K = true ->
  (table_ok (din K) = true /\ table_ok (dout K) = true /\ table_ok (sinv K) = true /\ table_ok (soutv K) = true)
  /\ (sym_half (din K) (dout K) = true /\ sym_half (dout K) (din K) = true)
  /\ (sym_half (sinv K) (soutv K) = true /\ sym_half (soutv K) (sinv K) = true).
Proof. unfold level_ok. rewrite !andb_true_iff. tauto. Qed.

Lemma put_empty K : put (fun _ => []) (fun _ => []) (fun _ => []) (fun _ => []) K = map clear_own K.
Proof. reflexivity. Qed.

Lemma has_key_keys E E' k : keys E = keys E' -> has_key E k = has_key E' k.
Proof.
  intros H. destruct (has_key E k) eqn:A.
  - symmetry. apply has_key_In. rewrite <- H. apply has_key_In. exact A.
  - destruct (has_key E' k) eqn:B; [|reflexivity]. apply has_key_In in B. rewrite <- H in B.
    apply has_key_In in B. congruence.
Qed.

(* the two restore passes of Composite.__setstate__ on children K0 that carry no connections,
   from the strings of the children K: closed form of every connection list *)
Lemma relink_level K K0 :
  level_ok K = true -> map clear_own K0 = K0 ->
  keys (din K0) = keys (din K) -> keys (dout K0) = keys (dout K) ->
  keys (sinv K0) = keys (sinv K) -> keys (soutv K0) = keys (soutv K) ->
  exists K1, relink connect_d (rev (pairs (din K))) K0 = Ok K1 /\
             relink connect_s (pairs (sinv K)) K1 =
             Ok (put (look (din K)) (canon (din K))
                     (fun i => rev (look (sinv K) i)) (fun o => rev (canon (sinv K) o)) K0).
Proof.
  intros Hl Hc Kdi Kdo Ksi Kso.
  destruct (level_ok_spec _ Hl) as [[Tdi [Tdo [Tsi Tso]]] [[Sd1 Sd2] [Ss1 Ss2]]].
  apply table_ok_spec in Tdi, Tdo, Tsi, Tso.
  destruct Tdi as [Ndi Ldi], Tdo as [Ndo Ldo], Tsi as [Nsi Lsi], Tso as [Nso Lso].
  rewrite sym_half_spec in Sd1, Sd2, Ss1, Ss2.
  assert (E0 : put (fun _ => []) (fun _ => []) (fun _ => []) (fun _ => []) K0 = K0)
    by (rewrite put_empty; exact Hc).
  pose proof (@relink_put_d (fun _ => []) (fun _ => []) K0 (rev (pairs (din K))) (fun _ => []) (fun _ => [])) as R1.
  rewrite E0 in R1. rewrite R1; clear R1.
  - eexists. split; [reflexivity|].
    rewrite relink_put_s.
    + f_equal. apply put_ext_all; intros x.
      * rewrite app_nil_r, outs_of_rev, rev_involutive. apply outs_of_pairs; auto.
      * rewrite app_nil_r, ins_of_rev, rev_involutive. apply ins_of_pairs; auto.
      * rewrite app_nil_r, outs_of_pairs; auto.
      * rewrite app_nil_r, ins_of_pairs; auto.
    + intros p Hp. apply in_pairs in Hp. destruct Hp as [l [He Ho]].
      rewrite (has_key_keys _ _ _ Ksi), (has_key_keys _ _ _ Kso). split.
      * apply has_key_In. unfold keys. apply in_map_iff. exists (fst p, l). auto.
      * destruct (Ss1 _ _ _ He Ho) as [l' [A _]]. unfold has_key. rewrite A. reflexivity.
    + apply nodup_pairs; auto.
    + intros p _ H. exact H.
  - intros p Hp. apply in_rev in Hp. apply in_pairs in Hp. destruct Hp as [l [He Ho]].
    rewrite (has_key_keys _ _ _ Kdi), (has_key_keys _ _ _ Kdo). split.
    + apply has_key_In. unfold keys. apply in_map_iff. exists (fst p, l). auto.
    + destruct (Sd1 _ _ _ He Ho) as [l' [A _]]. unfold has_key. rewrite A. reflexivity.
  - apply NoDup_rev. apply nodup_pairs; auto.
  - intros p _ H. exact H.
Qed.

(* =================================================================== 5. the closed form of a round trip *)
Definition relevel (K' : list node) : list node :=
  put (look (din K')) (canon (din K')) (fun i => rev (look (sinv K') i)) (fun o => rev (canon (sinv K') o)) K'.

Fixpoint inner (n : node) : node :=
  match n with
  | Node lab kd cls fl rn ex ins outs sin sout kids start prov =>
      Node lab kd cls fl rn (drop_live ex) ins outs sin sout
           (relevel ((fix go (ks : list node) : list node :=
                        match ks with [] => [] | k :: r => inner k :: go r end) kids))
           start prov
  end.

Lemma inner_eq n :
  inner n = Node (nlab n) (nkind n) (ncls n) (nfailed n) (nrunning n) (drop_live (nexe n))
                 (nins n) (nouts n) (nsin n) (nsout n) (relevel (map inner (nkids n))) (nstart n) (nprov n).
Proof. destruct n; reflexivity. Qed.

(* a node as it comes back on its own: no connections of its own, no link into a parent *)
Definition strip_root (n : node) : node :=
  Node (nlab n) (nkind n) (ncls n) (nfailed n) (nrunning n) (nexe n)
       (map (fun c => set_dcon c []) (nins n))
       (map (fun c => set_drcv (set_dcon c []) RNone) (nouts n))
       (map (fun c => set_scon c []) (nsin n)) (map (fun c => set_scon c []) (nsout n))
       (nkids n) (nstart n) (nprov n).
Definition ref (n : node) : node := strip_root (inner n).

Definition orecv_clear (x : node) : node := set_nouts x (map (fun c => set_drcv c RNone) (nouts x)).

Lemma clear_own_strip x : clear_own (strip_root x) = strip_root x.
Proof. unfold clear_own, strip_root. cbn. rewrite !map_map. reflexivity. Qed.

Lemma putk_strip fi fo gi go x : putk fi fo gi go (strip_root x) = orecv_clear (putk fi fo gi go x).
Proof. unfold putk, strip_root, orecv_clear, set_nouts. cbn. rewrite !map_map. reflexivity. Qed.

(* tables only depend on labels and own channels *)
Lemma din_map_pres (g : node -> node) K :
  (forall k, nlab (g k) = nlab k /\ nins (g k) = nins k) -> din (map g K) = din K.
Proof.
  intros H. unfold din. induction K as [|k r IH]; [reflexivity|]. cbn [map flat_map].
  destruct (H k) as [A B]. rewrite A, B, IH. reflexivity.
Qed.
Lemma dout_map_pres (g : node -> node) K :
  (forall k, nlab (g k) = nlab k /\ nouts (g k) = nouts k) -> dout (map g K) = dout K.
Proof.
  intros H. unfold dout. induction K as [|k r IH]; [reflexivity|]. cbn [map flat_map].
  destruct (H k) as [A B]. rewrite A, B, IH. reflexivity.
Qed.
Lemma sinv_map_pres (g : node -> node) K :
  (forall k, nlab (g k) = nlab k /\ nsin (g k) = nsin k) -> sinv (map g K) = sinv K.
Proof.
  intros H. unfold sinv. induction K as [|k r IH]; [reflexivity|]. cbn [map flat_map].
  destruct (H k) as [A B]. rewrite A, B, IH. reflexivity.
Qed.
Lemma soutv_map_pres (g : node -> node) K :
  (forall k, nlab (g k) = nlab k /\ nsout (g k) = nsout k) -> soutv (map g K) = soutv K.
Proof.
  intros H. unfold soutv. induction K as [|k r IH]; [reflexivity|]. cbn [map flat_map].
  destruct (H k) as [A B]. rewrite A, B, IH. reflexivity.
Qed.

Lemma inner_lab k : nlab (inner k) = nlab k. Proof. destruct k; reflexivity. Qed.
Lemma inner_ins k : nins (inner k) = nins k. Proof. destruct k; reflexivity. Qed.
Lemma inner_outs k : nouts (inner k) = nouts k. Proof. destruct k; reflexivity. Qed.
Lemma inner_sin k : nsin (inner k) = nsin k. Proof. destruct k; reflexivity. Qed.
Lemma inner_sout k : nsout (inner k) = nsout k. Proof. destruct k; reflexivity. Qed.

Lemma din_inner K : din (map inner K) = din K.
Proof. apply din_map_pres. intros k; split; [apply inner_lab|apply inner_ins]. Qed.
Lemma dout_inner K : dout (map inner K) = dout K.
Proof. apply dout_map_pres. intros k; split; [apply inner_lab|apply inner_outs]. Qed.
Lemma sinv_inner K : sinv (map inner K) = sinv K.
Proof. apply sinv_map_pres. intros k; split; [apply inner_lab|apply inner_sin]. Qed.
Lemma soutv_inner K : soutv (map inner K) = soutv K.
Proof. apply soutv_map_pres. intros k; split; [apply inner_lab|apply inner_sout]. Qed.

Lemma keys_refill f E : keys (refill f E) = keys E.
Proof. unfold keys, refill. rewrite map_map. reflexivity. Qed.

Lemma strip_as_put x :
  strip_root x = orecv_clear (putk (fun _ => []) (fun _ => []) (fun _ => []) (fun _ => []) x).
Proof. unfold strip_root, orecv_clear, putk, set_nouts. cbn. rewrite !map_map. reflexivity. Qed.

Lemma map_ref K : map ref K = map strip_root (map inner K).
Proof. rewrite map_map. reflexivity. Qed.

Lemma keys_din_ref K : keys (din (map ref K)) = keys (din K).
Proof.
  rewrite map_ref. rewrite <- (din_inner K). generalize (map inner K) as X. intros X.
  unfold din, keys. induction X as [|x r IH]; [reflexivity|]. cbn [map flat_map].
  rewrite !map_app. f_equal; [cbn; rewrite !map_map; reflexivity | exact IH].
Qed.
Lemma keys_dout_ref K : keys (dout (map ref K)) = keys (dout K).
Proof.
  rewrite map_ref. rewrite <- (dout_inner K). generalize (map inner K) as X. intros X.
  unfold dout, keys. induction X as [|x r IH]; [reflexivity|]. cbn [map flat_map].
  rewrite !map_app. f_equal; [cbn; rewrite !map_map; reflexivity | exact IH].
Qed.
Lemma keys_sinv_ref K : keys (sinv (map ref K)) = keys (sinv K).
Proof.
  rewrite map_ref. rewrite <- (sinv_inner K). generalize (map inner K) as X. intros X.
  unfold sinv, keys. induction X as [|x r IH]; [reflexivity|]. cbn [map flat_map].
  rewrite !map_app. f_equal; [cbn; rewrite !map_map; reflexivity | exact IH].
Qed.
Lemma keys_soutv_ref K : keys (soutv (map ref K)) = keys (soutv K).
Proof.
  rewrite map_ref. rewrite <- (soutv_inner K). generalize (map inner K) as X. intros X.
  unfold soutv, keys. induction X as [|x r IH]; [reflexivity|]. cbn [map flat_map].
  rewrite !map_app. f_equal; [cbn; rewrite !map_map; reflexivity | exact IH].
Qed.

(* ---- lookups through label-preserving maps *)
Lemma findn_map (g : node -> node) K c :
  (forall k, nlab (g k) = nlab k) -> findn c (map g K) = option_map g (findn c K).
Proof.
  intros H. unfold findn. induction K as [|k r IH]; [reflexivity|]. cbn [map find]. rewrite H.
  destruct (String.eqb (nlab k) c); [reflexivity|exact IH].
Qed.
Lemma findd_map (g : dchan -> dchan) cs l :
  (forall c, dlab (g c) = dlab c) -> findd l (map g cs) = option_map g (findd l cs).
Proof.
  intros H. unfold findd. induction cs as [|c r IH]; [reflexivity|]. cbn [map find]. rewrite H.
  destruct (String.eqb (dlab c) l); [reflexivity|exact IH].
Qed.
Lemma findn_In c K k : findn c K = Some k -> In k K /\ nlab k = c.
Proof.
  unfold findn. intros H. apply find_some in H. destruct H as [A B]. apply String.eqb_eq in B. auto.
Qed.
Lemma findd_In l cs c : findd l cs = Some c -> In c cs /\ dlab c = l.
Proof.
  unfold findd. intros H. apply find_some in H. destruct H as [A B]. apply String.eqb_eq in B. auto.
Qed.
Lemma findd_nodup cs c : NoDup (map dlab cs) -> In c cs -> findd (dlab c) cs = Some c.
Proof.
  unfold findd. induction cs as [|x r IH]; intros Hn Hi; [contradiction|]. cbn [find].
  cbn [map] in Hn. inversion Hn as [|? ? Hnin Hn']; subst. destruct Hi as [->|Hi].
  - rewrite String.eqb_refl. reflexivity.
  - destruct (String.eqb (dlab x) (dlab c)) eqn:E.
    + apply String.eqb_eq in E. exfalso. apply Hnin. rewrite E. apply in_map. exact Hi.
    + apply IH; auto.
Qed.
Lemma findn_nodup K k : NoDup (map nlab K) -> In k K -> findn (nlab k) K = Some k.
Proof.
  unfold findn. induction K as [|x r IH]; intros Hn Hi; [contradiction|]. cbn [find].
  cbn [map] in Hn. inversion Hn as [|? ? Hnin Hn']; subst. destruct Hi as [->|Hi].
  - rewrite String.eqb_refl. reflexivity.
  - destruct (String.eqb (nlab x) (nlab k)) eqn:E.
    + apply String.eqb_eq in E. exfalso. apply Hnin. rewrite E. apply in_map. exact Hi.
    + apply IH; auto.
Qed.

(* ---- the hops of a pushed value do not depend on connections, executors or output links *)
Lemma chain_putk fi fo gi go k l : chain (putk fi fo gi go k) l = chain k l.
Proof.
  rewrite !chain_eq. cbn [putk nins nrunning nkids].
  rewrite findd_map by reflexivity. destruct (findd l (nins k)); reflexivity.
Qed.
Lemma chain_orecv k l : chain (orecv_clear k) l = chain k l.
Proof. rewrite !chain_eq. destruct k; reflexivity. Qed.

Lemma chain_kid_map (g : node -> node) K c l :
  (forall k, nlab (g k) = nlab k) -> (forall k, In k K -> chain (g k) l = chain k l) ->
  chain_kid (map g K) c l = chain_kid K c l.
Proof.
  intros Hl Hc. unfold chain_kid. rewrite findn_map by exact Hl.
  destruct (findn c K) as [k|] eqn:F; [|reflexivity]. cbn. apply Hc. apply findn_In in F. tauto.
Qed.

Lemma chain_inner : forall k l, chain (inner k) l = chain k l.
Proof.
  induction k as [lab kd cls fl rn ex ins outs sin sout kids start prov IH] using node_ind'.
  intros l. rewrite inner_eq, !chain_eq. cbn [nins nrunning nkids].
  destruct (findd l ins) as [c|]; [|reflexivity]. f_equal.
  destruct (drcv c) as [|c2 l2|]; try reflexivity.
  unfold relevel, put. rewrite map_map. apply chain_kid_map.
  - intros k. cbn. apply inner_lab.
  - intros k Hk. rewrite chain_putk. rewrite Forall_forall in IH. apply IH. exact Hk.
Qed.

Lemma chain_strip k l : chain (strip_root k) l = chain k l.
Proof. rewrite strip_as_put, chain_orecv, chain_putk. reflexivity. Qed.
Lemma chain_ref k l : chain (ref k) l = chain k l.
Proof. unfold ref. rewrite chain_strip. apply chain_inner. Qed.

(* =================================================================== 6. re-forging value links is the identity on quiet links *)
Definition insokb (m : node) : bool := nodupb String.eqb (map dlab (nins m)).
Definition quiet (v : slot) (hs : list (bool * slot)) : bool :=
  forallb (fun h => negb (fst h) && slot_eqb (snd h) v) hs.

Lemma setval_same cs l v c :
  NoDup (map dlab cs) -> findd l cs = Some c -> dval c = v -> setval l v cs = cs.
Proof.
  intros Hn Hf Hv. apply findd_In in Hf. destruct Hf as [Hi Hl]. subst l.
  unfold setval. rewrite <- (map_id cs) at 2. apply map_ext_in. intros c' Hc'.
  destruct (String.eqb (dlab c') (dlab c)) eqn:E; [|reflexivity]. apply String.eqb_eq in E.
  assert (c' = c).
  { pose proof (findd_nodup _ _ Hn Hc') as A. pose proof (findd_nodup _ _ Hn Hi) as B. rewrite E in A. congruence. }
  subst c'. unfold set_dval. rewrite <- Hv. destruct c; reflexivity.
Qed.

Lemma set_same n : set_nkids (set_nins n (nins n)) (nkids n) = n.
Proof. destruct n; reflexivity. Qed.
Lemma set_nins_same n : set_nins n (nins n) = n.
Proof. destruct n; reflexivity. Qed.

Lemma go_quiet kids c2 l2 v k2 :
  findn c2 kids = Some k2 -> push_in k2 l2 v = Ok k2 ->
  (fix go (ks : list node) : res (list node) :=
     match ks with
     | [] => Ok []
     | k :: r =>
         if String.eqb (nlab k) c2
         then match push_in k l2 v with Ok k' => Ok (k' :: r) | Err e => Err e end
         else match go r with Ok r' => Ok (k :: r') | Err e => Err e end
     end) kids = Ok kids.
Proof.
  unfold findn. induction kids as [|k r IH]; cbn [find]; [discriminate|].
  destruct (String.eqb (nlab k) c2).
  - intros H P. inversion H; subst. rewrite P. reflexivity.
  - intros H P. rewrite (IH H P). reflexivity.
Qed.

Lemma forallb_In {A} (f : A -> bool) l x : forallb f l = true -> In x l -> f x = true.
Proof. intros H. rewrite forallb_forall in H. auto. Qed.

Lemma push_quiet : forall k, allb insokb k = true -> allb resolve_here k = true ->
  forall l v c, findd l (nins k) = Some c -> quiet v (chain k l) = true -> push_in k l v = Ok k.
Proof.
  induction k as [lab kd cls fl rn ex ins outs sin sout kids start prov IH] using node_ind'.
  intros Hi Hr l v c Hf Hq. rewrite allb_eq in Hi, Hr. apply andb_true_iff in Hi, Hr.
  destruct Hi as [Hi Hik], Hr as [Hr Hrk]. cbn [nkids] in Hik, Hrk.
  rewrite push_in_eq. rewrite chain_eq in Hq. cbn [nins nrunning nkids] in *. rewrite Hf in *.
  unfold quiet in Hq. cbn [forallb fst snd] in Hq. apply andb_true_iff in Hq. destruct Hq as [Hq0 Hq].
  apply andb_true_iff in Hq0. destruct Hq0 as [Hrn Hv]. apply negb_true_iff in Hrn. subst rn.
  apply slot_eqb_true in Hv.
  unfold insokb in Hi. cbn [nins] in Hi. apply nodupb_s in Hi.
  assert (Hs : setval l v ins = ins) by (eapply setval_same; eauto).
  destruct (drcv c) as [|c2 l2|] eqn:Er; rewrite Hs; try reflexivity.
  (* forwarded to a child *)
  unfold resolve_here in Hr. cbn [nkind nins nkids nouts] in Hr.
  apply findd_In in Hf. destruct Hf as [Hcin _].
  destruct (is_linked kd).
  - apply andb_true_iff in Hr. destruct Hr as [Hr _]. pose proof (forallb_In _ _ _ Hr Hcin) as Hc. cbn in Hc.
    rewrite Er in Hc. unfold has_in in Hc.
    destruct (findn c2 kids) as [k2|] eqn:F2; [|discriminate].
    destruct (findd l2 (nins k2)) as [c'|] eqn:F3; [|discriminate].
    rewrite (@go_quiet kids c2 l2 v k2 F2).
    + reflexivity.
    + rewrite Forall_forall in IH. pose proof (findn_In _ _ F2) as [Hk2 _].
      eapply IH; eauto.
      * exact (forallb_In _ _ _ Hik Hk2).
      * exact (forallb_In _ _ _ Hrk Hk2).
      * unfold chain_kid in Hq. rewrite F2 in Hq. exact Hq.
  - apply andb_true_iff in Hr. destruct Hr as [Hr _]. pose proof (forallb_In _ _ _ Hr Hcin) as Hc. cbn in Hc.
    rewrite Er in Hc. discriminate.
Qed.

Lemma push_kid_quiet kids c l v x :
  findn c kids = Some x -> push_in x l v = Ok x -> push_kid kids c l v = Ok kids.
Proof.
  unfold findn. induction kids as [|k r IH]; cbn [find push_kid]; [discriminate|].
  destruct (String.eqb (nlab k) c).
  - intros H P. inversion H; subst. rewrite P. reflexivity.
  - intros H P. rewrite (IH H P). reflexivity.
Qed.

(* Macro.__setstate__, input links: on a node whose own inputs were just rebuilt blank *)
Definition blank (c : dchan) : dchan := mkD (dlab c) (dval c) [] RNone.
Definition il_of (ins : list dchan) : list (string * cref) :=
  map (fun c => (dlab c, match drcv c with RChild k l => (k, l) | _ => ("", "") end)) ins.

Lemma ilinks_of_ok ins :
  (forall c, In c ins -> exists k l, drcv c = RChild k l) -> ilinks_of ins = Ok (il_of ins).
Proof.
  induction ins as [|c r IH]; intros H; [reflexivity|]. cbn [ilinks_of il_of map].
  destruct (H c (or_introl eq_refl)) as [k [l E]]. rewrite E.
  rewrite IH; [reflexivity|]. intros c' Hc'. apply H. right. exact Hc'.
Qed.

Lemma setrcv_notin l r cs : ~ In l (map dlab cs) -> setrcv l r cs = cs.
Proof.
  intros H. unfold setrcv. rewrite <- (map_id cs) at 2. apply map_ext_in. intros c Hc.
  destruct (String.eqb (dlab c) l) eqn:E; [|reflexivity]. apply String.eqb_eq in E.
  exfalso. apply H. rewrite <- E. apply in_map. exact Hc.
Qed.
Lemma findd_app_notin l a b : ~ In l (map dlab a) -> findd l (a ++ b) = findd l b.
Proof.
  unfold findd. induction a as [|c r IH]; intros H; [reflexivity|]. cbn [app find].
  destruct (String.eqb (dlab c) l) eqn:E.
  - apply String.eqb_eq in E. exfalso. apply H. left. exact E.
  - apply IH. intros Hin. apply H. right. exact Hin.
Qed.

Lemma set_set_ins n A K B K' :
  set_nkids (set_nins (set_nkids (set_nins n A) K) B) K' = set_nkids (set_nins n B) K'.
Proof. destruct n; reflexivity. Qed.

Lemma forge_ins_exact (n : node) kids : forall todo done,
  NoDup (map dlab (done ++ todo)) ->
  (forall c, In c todo -> exists k l x, drcv c = RChild k l /\ findn k kids = Some x /\
                                        (exists c', findd l (nins x) = Some c') /\ push_in x l (dval c) = Ok x) ->
  forge_ins (set_nkids (set_nins n (map (fun c => set_dcon c []) done ++ map blank todo)) kids) (il_of todo) =
  Ok (set_nkids (set_nins n (map (fun c => set_dcon c []) (done ++ todo))) kids).
Proof.
  induction todo as [|c r IH]; intros done Hn Hq.
  - cbn [il_of map forge_ins]. rewrite !app_nil_r. reflexivity.
  - change (il_of (c :: r)) with ((dlab c, match drcv c with RChild k l => (k, l) | _ => ("", "") end) :: il_of r).
    cbn [forge_ins].
    destruct (Hq c (or_introl eq_refl)) as [k [l [x [Er [Fk [[c' Fc] Pq]]]]]].
    assert (Hnc : ~ In (dlab c) (map dlab done)).
    { rewrite map_app in Hn. apply NoDup_remove_2 in Hn. intros H. apply Hn. apply in_or_app. left.
      cbn [map]. exact H. }
    assert (Hnr : ~ In (dlab c) (map dlab r)).
    { rewrite map_app in Hn. apply NoDup_remove_2 in Hn. intros H. apply Hn. apply in_or_app. right. exact H. }
    unfold forge_in. cbn [fst snd]. rewrite Er.
    assert (Ei : nins (set_nkids (set_nins n (map (fun c0 => set_dcon c0 []) done ++ map blank (c :: r))) kids)
                 = map (fun c0 => set_dcon c0 []) done ++ map blank (c :: r)) by (destruct n; reflexivity).
    assert (Ek : nkids (set_nkids (set_nins n (map (fun c0 => set_dcon c0 []) done ++ map blank (c :: r))) kids) = kids)
      by (destruct n; reflexivity).
    rewrite Ei, Ek.
    rewrite findd_app_notin by (rewrite map_map; exact Hnc).
    cbn [map]. unfold findd at 1. cbn [find blank dlab]. rewrite String.eqb_refl.
    cbn [fst snd]. rewrite Fk. rewrite Fc. change (dval (blank c)) with (dval c).
    rewrite (@push_kid_quiet kids k l (dval c) x Fk Pq).
    assert (Es : setrcv (dlab c) (RChild k l) (map (fun c0 => set_dcon c0 []) done ++ blank c :: map blank r)
                 = map (fun c0 => set_dcon c0 []) (done ++ [c]) ++ map blank r).
    { unfold setrcv at 1. rewrite map_app. fold (setrcv (dlab c) (RChild k l) (map (fun c0 => set_dcon c0 []) done)).
      rewrite setrcv_notin by (rewrite map_map; exact Hnc).
      cbn [map]. cbn [blank dlab]. rewrite String.eqb_refl.
      fold (setrcv (dlab c) (RChild k l) (map blank r)).
      rewrite setrcv_notin by (rewrite map_map; exact Hnr).
      rewrite map_app, <- app_assoc. cbn [map app]. do 2 f_equal.
      unfold set_drcv, set_dcon. cbn. rewrite Er. reflexivity. }
    rewrite Es.
    rewrite set_set_ins.
    rewrite (IH (done ++ [c])).
    + rewrite <- app_assoc. reflexivity.
    + rewrite <- app_assoc. exact Hn.
    + intros c0 Hc0. apply Hq. right. exact Hc0.
Qed.

(* Macro.__setstate__, output links: children's outputs lost their receivers when pickled *)
Definition putr (h : cref -> recv) (X : list node) : list node :=
  map (fun k => set_nouts k (map (fun c => set_drcv c (h (nlab k, dlab c))) (nouts k))) X.
Definition override (h : cref -> recv) (key : cref) (out : string) (x : cref) : recv :=
  if cref_eqb x key then RParent out else h x.
Fixpoint hfold (h : cref -> recv) (L : list (cref * string)) : cref -> recv :=
  match L with [] => h | p :: r => hfold (override h (fst p) (snd p)) r end.

Lemma orecv_as_putr X : map orecv_clear X = putr (fun _ => RNone) X.
Proof. reflexivity. Qed.

Lemma set_nouts_lab k x : nlab (set_nouts k x) = nlab k. Proof. destruct k; reflexivity. Qed.
Lemma set_nouts_outs k x : nouts (set_nouts k x) = x. Proof. destruct k; reflexivity. Qed.

Lemma set_nouts_twice k a b : set_nouts (set_nouts k a) b = set_nouts k b.
Proof. destruct k; reflexivity. Qed.

Lemma putr_step h X kc cl out :
  map (fun k' => if String.eqb (nlab k') kc
                 then set_nouts k' (setrcv cl (RParent out) (nouts k')) else k') (putr h X)
  = putr (override h (kc, cl) out) X.
Proof.
  unfold putr. rewrite map_map. apply map_ext. intros k. rewrite set_nouts_lab.
  destruct (String.eqb (nlab k) kc) eqn:E.
  - rewrite set_nouts_outs. rewrite set_nouts_twice. apply f_equal. unfold setrcv. rewrite map_map.
    apply map_ext. intros c. cbn [set_drcv dlab]. unfold override. rewrite cref_pair_eqb, E. cbn [andb].
    destruct (String.eqb (dlab c) cl); reflexivity.
  - f_equal. apply map_ext. intros c. unfold override. rewrite cref_pair_eqb, E. reflexivity.
Qed.

Lemma set_out_same n K K' : set_nkids (set_nouts (set_nkids n K) (nouts n)) K' = set_nkids n K'.
Proof. destruct n; reflexivity. Qed.

Lemma forge_out_step n h X kc cl out k c c' :
  NoDup (map dlab (nouts n)) ->
  findn kc X = Some k -> findd cl (nouts k) = Some c -> findd out (nouts n) = Some c' -> dval c' = dval c ->
  forge_out (set_nkids n (putr h X)) ((kc, cl), out) = Ok (set_nkids n (putr (override h (kc, cl) out) X)).
Proof.
  intros Hn Fk Fc Fo Hv. unfold forge_out. cbn [fst snd].
  replace (nkids (set_nkids n (putr h X))) with (putr h X) by (destruct n; reflexivity).
  replace (nouts (set_nkids n (putr h X))) with (nouts n) by (destruct n; reflexivity).
  unfold putr at 1. rewrite findn_map by (intros; apply set_nouts_lab). rewrite Fk. cbn [option_map].
  rewrite set_nouts_outs. rewrite findd_map by reflexivity. rewrite Fc. cbn [option_map]. rewrite Fo.
  rewrite putr_step. change (dval (set_drcv c (h (nlab k, dlab c)))) with (dval c).
  rewrite (@setval_same (nouts n) out (dval c) c' Hn Fo Hv). rewrite set_out_same. reflexivity.
Qed.

Lemma forge_outs_fold n X : forall L h,
  NoDup (map dlab (nouts n)) ->
  (forall p, In p L -> exists k c c', findn (fst (fst p)) X = Some k /\ findd (snd (fst p)) (nouts k) = Some c /\
                                      findd (snd p) (nouts n) = Some c' /\ dval c' = dval c) ->
  forge_outs (set_nkids n (putr h X)) L = Ok (set_nkids n (putr (hfold h L) X)).
Proof.
  induction L as [|[[kc cl] out] r IH]; intros h Hn Hq; [reflexivity|]. cbn [forge_outs hfold fst snd].
  destruct (Hq _ (or_introl eq_refl)) as [k [c [c' [Fk [Fc [Fo Hv]]]]]]. cbn [fst snd] in *.
  rewrite (@forge_out_step n h X kc cl out k c c' Hn Fk Fc Fo Hv). apply IH; auto.
  intros p Hp. apply Hq. right. exact Hp.
Qed.

Lemma find_app' {A} (f : A -> bool) a b :
  find f (a ++ b) = match find f a with Some x => Some x | None => find f b end.
Proof. induction a as [|x r IH]; [reflexivity|]. cbn. destruct (f x); [reflexivity|exact IH]. Qed.

Lemma hfold_spec : forall L h key,
  hfold h L key = match find (fun p => cref_eqb (fst p) key) (rev L) with
                  | Some p => RParent (snd p) | None => h key end.
Proof.
  induction L as [|p r IH]; intros h key; [reflexivity|]. cbn [hfold rev]. rewrite IH.
  rewrite find_app'. destruct (find (fun p0 => cref_eqb (fst p0) key) (rev r)); [reflexivity|].
  cbn [find]. unfold override. rewrite (cref_eqb_sym key (fst p)). destruct (cref_eqb (fst p) key); reflexivity.
Qed.

Definition otab (X : list node) : list (cref * dchan) :=
  flat_map (fun k => map (fun c => ((nlab k, dlab c), c)) (nouts k)) X.
Lemma keys_otab X : map fst (otab X) = keys (dout X).
Proof.
  unfold otab, dout, keys. induction X as [|k r IH]; [reflexivity|]. cbn [flat_map].
  rewrite !map_app. f_equal; [rewrite !map_map; reflexivity | exact IH].
Qed.
Lemma in_otab X key c : In (key, c) (otab X) <-> exists k, In k X /\ In c (nouts k) /\ key = (nlab k, dlab c).
Proof.
  unfold otab. rewrite in_flat_map. split.
  - intros [k [Hk Hc]]. apply in_map_iff in Hc. destruct Hc as [c0 [E Hc0]]. inversion E; subst. eauto.
  - intros [k [Hk [Hc E]]]. exists k. split; [exact Hk|]. apply in_map_iff. exists c. subst. auto.
Qed.
Lemma nodup_fst_fun {A B} (T : list (A * B)) a b b' :
  NoDup (map fst T) -> In (a, b) T -> In (a, b') T -> b = b'.
Proof.
  induction T as [|[x y] r IH]; intros Hn H1 H2; [contradiction|]. cbn [map fst] in Hn.
  inversion Hn as [|? ? Hnin Hn']; subst.
  destruct H1 as [H1|H1], H2 as [H2|H2].
  - congruence.
  - inversion H1; subst. exfalso. apply Hnin. apply in_map_iff. exists (a, b'). auto.
  - inversion H2; subst. exfalso. apply Hnin. apply in_map_iff. exists (a, b). auto.
  - eapply IH; eauto.
Qed.

Lemma in_olinks X key l :
  In (key, l) (olinks_of X) <->
  exists k c, In k X /\ In c (nouts k) /\ key = (nlab k, dlab c) /\ recv_label (drcv c) = Some l.
Proof.
  unfold olinks_of. rewrite in_flat_map. split.
  - intros [k [Hk H]]. apply in_flat_map in H. destruct H as [c [Hc H]].
    destruct (recv_label (drcv c)) as [l0|] eqn:E; [|contradiction].
    destruct H as [H|[]]. inversion H; subst. exists k, c. auto.
  - intros [k [c [Hk [Hc [E R]]]]]. exists k. split; [exact Hk|]. apply in_flat_map. exists c.
    split; [exact Hc|]. rewrite R. left. subst. reflexivity.
Qed.

Lemma forge_outs_exact n X :
  NoDup (keys (dout X)) -> NoDup (map nlab X) -> NoDup (map dlab (nouts n)) ->
  (forall k c, In k X -> In c (nouts k) ->
               drcv c = RNone \/ exists o c', drcv c = RParent o /\ findd o (nouts n) = Some c' /\ dval c' = dval c) ->
  forge_outs (set_nkids n (map orecv_clear X)) (olinks_of X) = Ok (set_nkids n X).
Proof.
  intros Hk Hl Hn Hr. rewrite orecv_as_putr.
  assert (Hkl : forall k, In k X -> NoDup (map dlab (nouts k))).
  { intros k Hin. clear -Hk Hin. unfold dout, keys in Hk. induction X as [|x r IH]; [contradiction|].
    cbn [flat_map] in Hk. rewrite map_app in Hk. destruct Hin as [->|Hin].
    - apply nodup_app_l in Hk. rewrite map_map in Hk. cbn [fst] in Hk.
      clear -Hk. induction (nouts k) as [|c t IHt]; [constructor|]. cbn [map] in *.
      inversion Hk as [|? ? Hnin Hk']; subst. constructor; [|auto].
      intros H. apply Hnin. apply in_map_iff in H. destruct H as [c' [E Hc']]. apply in_map_iff. exists c'.
      rewrite E. auto.
    - apply nodup_app_r in Hk. auto. }
  rewrite forge_outs_fold; auto.
  - f_equal. f_equal. unfold putr. rewrite <- (map_id X) at 2. apply map_ext_in. intros k Hin.
    transitivity (set_nouts k (nouts k)); [|destruct k; reflexivity].
    apply f_equal. rewrite <- (map_id (nouts k)) at 2. apply map_ext_in. intros c Hc.
    assert (E : hfold (fun _ => RNone) (olinks_of X) (nlab k, dlab c) = drcv c).
    { rewrite hfold_spec.
      destruct (find (fun p => cref_eqb (fst p) (nlab k, dlab c)) (rev (olinks_of X))) as [[key l]|] eqn:F.
      - apply find_some in F. destruct F as [Fi Fe]. cbn [fst] in Fe. apply cref_eqb_eq in Fe. subst key.
        apply in_rev in Fi. apply in_olinks in Fi. destruct Fi as [k' [c' [Hk' [Hc' [Ek Rl]]]]].
        assert (c' = c).
        { apply (nodup_fst_fun (otab X) (nlab k, dlab c)).
          - rewrite keys_otab. exact Hk.
          - apply in_otab. exists k'. auto.
          - apply in_otab. exists k. auto. }
        subst c'. cbn [snd]. destruct (Hr k c Hin Hc) as [R|[o [c'' [R _]]]]; rewrite R in Rl; cbn in Rl.
        + discriminate.
        + inversion Rl; subst. symmetry. exact R.
      - destruct (Hr k c Hin Hc) as [R|[o [c'' [R _]]]]; [symmetry; exact R|].
        exfalso. pose proof (find_none _ _ F ((nlab k, dlab c), o)) as Hnone.
        cbn [fst] in Hnone. rewrite cref_eqb_refl in Hnone.
        assert (Hin' : In ((nlab k, dlab c), o) (rev (olinks_of X))).
        { apply -> in_rev. apply in_olinks. exists k, c. rewrite R. auto. }
        specialize (Hnone Hin'). discriminate. }
    rewrite E. destruct c; reflexivity.
  - intros [[kc cl] out] Hp. cbn [fst snd]. apply in_olinks in Hp.
    destruct Hp as [k [c [Hin [Hc [Ek Rl]]]]]. inversion Ek; subst kc cl.
    destruct (Hr k c Hin Hc) as [R|[o [c' [R [Fo Hv]]]]]; rewrite R in Rl; cbn in Rl; [discriminate|].
    inversion Rl; subst o. exists k, c, c'. repeat split; auto.
    + apply findn_nodup; auto.
    + apply findd_nodup; auto.
Qed.

(* =================================================================== 7. the guards do not look at connections *)
Lemma forallb_map {A B} (f : B -> bool) (g : A -> B) l : forallb f (map g l) = forallb (fun x => f (g x)) l.
Proof. induction l as [|x r IH]; [reflexivity|]. cbn. rewrite IH. reflexivity. Qed.
Lemma forallb_ext_in {A} (f g : A -> bool) l : (forall x, In x l -> f x = g x) -> forallb f l = forallb g l.
Proof.
  induction l as [|x r IH]; intros H; [reflexivity|]. cbn. rewrite (H x (or_introl eq_refl)), IH; auto.
  intros y Hy; apply H; right; exact Hy.
Qed.

Lemma putk_kids fi fo gi go k : nkids (putk fi fo gi go k) = nkids k. Proof. reflexivity. Qed.
Lemma putk_lab fi fo gi go k : nlab (putk fi fo gi go k) = nlab k. Proof. reflexivity. Qed.
Lemma orecv_kids k : nkids (orecv_clear k) = nkids k. Proof. destruct k; reflexivity. Qed.
Lemma orecv_lab k : nlab (orecv_clear k) = nlab k. Proof. destruct k; reflexivity. Qed.
Lemma orecv_ins k : nins (orecv_clear k) = nins k. Proof. destruct k; reflexivity. Qed.
Lemma orecv_kind k : nkind (orecv_clear k) = nkind k. Proof. destruct k; reflexivity. Qed.
Lemma orecv_outs k : nouts (orecv_clear k) = map (fun c => set_drcv c RNone) (nouts k). Proof. destruct k; reflexivity. Qed.
Lemma inner_kids k : nkids (inner k) = relevel (map inner (nkids k)). Proof. destruct k; reflexivity. Qed.
Lemma inner_kind k : nkind (inner k) = nkind k. Proof. destruct k; reflexivity. Qed.
Lemma inner_running k : nrunning (inner k) = nrunning k. Proof. destruct k; reflexivity. Qed.
Lemma inner_start k : nstart (inner k) = nstart k. Proof. destruct k; reflexivity. Qed.

Lemma has_d_map (g : dchan -> dchan) cs l : (forall c, dlab (g c) = dlab c) -> has_d (map g cs) l = has_d cs l.
Proof. intros H. unfold has_d. rewrite findd_map by exact H. destruct (findd l cs); reflexivity. Qed.

Lemma has_in_map (g : node -> node) K c l :
  (forall k, nlab (g k) = nlab k) -> (forall k, map dlab (nins (g k)) = map dlab (nins k)) ->
  has_in (map g K) c l = has_in K c l.
Proof.
  intros Hl Hi. unfold has_in. rewrite findn_map by exact Hl. destruct (findn c K) as [k|]; [|reflexivity]. cbn.
  specialize (Hi k). unfold findd. revert Hi. generalize (nins (g k)) (nins k).
  induction l0 as [|a r IH]; intros [|b t] H; try discriminate; [reflexivity|].
  cbn in H. inversion H as [[E1 E2]]. cbn [find]. rewrite E1. destruct (String.eqb (dlab b) l); [reflexivity|].
  apply IH. exact E2.
Qed.

Definition tk (F : (cref -> list cref) * (cref -> list cref) * (cref -> list cref) * (cref -> list cref)) (k : node) : node :=
  putk (fst (fst (fst F))) (snd (fst (fst F))) (snd (fst F)) (snd F) (inner k).

Lemma relevel_as_map K : exists F, relevel (map inner K) = map (tk F) K.
Proof.
  eexists (_, _, _, _). unfold relevel, put. rewrite map_map. reflexivity.
Qed.

(* facts about one transformed child *)
Lemma tk_lab F k : nlab (tk F k) = nlab k. Proof. unfold tk. rewrite putk_lab. apply inner_lab. Qed.
Lemma tk_ins_labs F k : map dlab (nins (tk F k)) = map dlab (nins k).
Proof. unfold tk, putk. cbn [nins]. rewrite map_map, inner_ins. reflexivity. Qed.
Lemma tk_chain F k l : chain (tk F k) l = chain k l.
Proof. unfold tk. rewrite chain_putk. apply chain_inner. Qed.

Lemma chain_kid_tk F K c l : chain_kid (map (tk F) K) c l = chain_kid K c l.
Proof. apply chain_kid_map; [apply tk_lab | intros; apply tk_chain]. Qed.
Lemma has_in_tk F K c l : has_in (map (tk F) K) c l = has_in K c l.
Proof. apply has_in_map; [apply tk_lab | apply tk_ins_labs]. Qed.

Lemma outs_pred_tk F (g : dchan -> bool) K :
  (forall c l, g (set_dcon c l) = g c) ->
  forallb (fun k => forallb g (nouts k)) (map (tk F) K) = forallb (fun k => forallb g (nouts k)) K.
Proof.
  intros Hg. rewrite forallb_map. apply forallb_ext_in. intros k _. unfold tk, putk. cbn [nouts].
  rewrite forallb_map, inner_outs. apply forallb_ext_in. intros c _. apply Hg.
Qed.

Lemma resolve_inner k : resolve_here (inner k) = resolve_here k.
Proof.
  unfold resolve_here. rewrite inner_kind, inner_ins, inner_outs, inner_kids.
  destruct (relevel_as_map (nkids k)) as [F ->].
  destruct (is_linked (nkind k)).
  - f_equal.
    + apply forallb_ext_in. intros c _. destruct (drcv c); try reflexivity. apply has_in_tk.
    + apply outs_pred_tk. intros c l. reflexivity.
  - f_equal. apply outs_pred_tk. intros c l. reflexivity.
Qed.
Lemma unlocked_inner k : unlocked_here (inner k) = unlocked_here k.
Proof.
  unfold unlocked_here. rewrite inner_ins, inner_kids. destruct (relevel_as_map (nkids k)) as [F ->].
  apply forallb_ext_in. intros c _. destruct (drcv c); try reflexivity. rewrite chain_kid_tk. reflexivity.
Qed.
Lemma synced_inner k : synced_here (inner k) = synced_here k.
Proof.
  unfold synced_here. rewrite inner_ins, inner_outs, inner_kids. destruct (relevel_as_map (nkids k)) as [F ->].
  f_equal.
  - apply forallb_ext_in. intros c _. destruct (drcv c); try reflexivity. rewrite chain_kid_tk. reflexivity.
  - apply outs_pred_tk. intros c l. reflexivity.
Qed.
Lemma insok_inner k : insokb (inner k) = insokb k.
Proof. unfold insokb. rewrite inner_ins. reflexivity. Qed.

(* own connections / own output links are invisible to the *_here predicates *)
Lemma resolve_putk fi fo gi go k : resolve_here (putk fi fo gi go k) = resolve_here k.
Proof.
  unfold resolve_here. cbn [putk nkind nins nouts nkids]. destruct (is_linked (nkind k)).
  - f_equal.
    + rewrite forallb_map. reflexivity.
    + apply forallb_ext_in. intros x _. apply forallb_ext_in. intros c _.
      destruct (drcv c); try reflexivity. apply has_d_map. reflexivity.
  - f_equal. rewrite forallb_map. reflexivity.
Qed.
Lemma unlocked_putk fi fo gi go k : unlocked_here (putk fi fo gi go k) = unlocked_here k.
Proof. unfold unlocked_here. cbn [putk nins nkids]. rewrite forallb_map. reflexivity. Qed.
Lemma synced_putk fi fo gi go k : synced_here (putk fi fo gi go k) = synced_here k.
Proof.
  unfold synced_here. cbn [putk nins nouts nkids]. f_equal.
  - rewrite forallb_map. reflexivity.
  - apply forallb_ext_in. intros x _. apply forallb_ext_in. intros c _. destruct (drcv c); try reflexivity.
    rewrite findd_map by reflexivity. destruct (findd l (nouts k)); reflexivity.
Qed.
Lemma insok_putk fi fo gi go k : insokb (putk fi fo gi go k) = insokb k.
Proof. unfold insokb. cbn [putk nins]. rewrite map_map. reflexivity. Qed.

Lemma resolve_orecv k : resolve_here (orecv_clear k) = resolve_here k.
Proof.
  unfold resolve_here. rewrite orecv_kind, orecv_ins, orecv_kids, orecv_outs. destruct (is_linked (nkind k)); [|reflexivity].
  f_equal. apply forallb_ext_in. intros x _. apply forallb_ext_in. intros c _.
  destruct (drcv c); try reflexivity. apply has_d_map. reflexivity.
Qed.
Lemma unlocked_orecv k : unlocked_here (orecv_clear k) = unlocked_here k.
Proof. unfold unlocked_here. rewrite orecv_ins, orecv_kids. reflexivity. Qed.
Lemma synced_orecv k : synced_here (orecv_clear k) = synced_here k.
Proof.
  unfold synced_here. rewrite orecv_ins, orecv_kids, orecv_outs. f_equal.
  apply forallb_ext_in. intros x _. apply forallb_ext_in. intros c _. destruct (drcv c); try reflexivity.
  rewrite findd_map by reflexivity. destruct (findd l (nouts k)); reflexivity.
Qed.
Lemma insok_orecv k : insokb (orecv_clear k) = insokb k.
Proof. unfold insokb. rewrite orecv_ins. reflexivity. Qed.

Section AllbInv.
  Variable p : node -> bool.
  Hypothesis p_inner : forall k, p (inner k) = p k.
  Hypothesis p_putk : forall fi fo gi go k, p (putk fi fo gi go k) = p k.
  Hypothesis p_orecv : forall k, p (orecv_clear k) = p k.

  Lemma allb_putk fi fo gi go k : allb p (putk fi fo gi go k) = allb p k.
  Proof. rewrite !allb_eq, p_putk, putk_kids. reflexivity. Qed.
  Lemma allb_orecv k : allb p (orecv_clear k) = allb p k.
  Proof. rewrite !allb_eq, p_orecv, orecv_kids. reflexivity. Qed.
  Lemma allb_inner : forall k, allb p (inner k) = allb p k.
  Proof.
    induction k as [lab kd cls fl rn ex ins outs sin sout kids start prov IH] using node_ind'.
    rewrite !allb_eq, p_inner, inner_kids. cbn [nkids]. f_equal.
    destruct (relevel_as_map kids) as [F ->]. rewrite forallb_map. apply forallb_ext_in. intros k Hk.
    unfold tk. rewrite allb_putk. rewrite Forall_forall in IH. apply IH. exact Hk.
  Qed.
  Lemma allb_strip k : allb p (strip_root k) = allb p k.
  Proof. rewrite strip_as_put, allb_orecv, allb_putk. reflexivity. Qed.
  Lemma allb_ref k : allb p (ref k) = allb p k.
  Proof. unfold ref. rewrite allb_strip. apply allb_inner. Qed.
  Lemma allb_tk F k : allb p (tk F k) = allb p k.
  Proof. unfold tk. rewrite allb_putk. apply allb_inner. Qed.
End AllbInv.

Definition resolve_ref := allb_ref resolve_here resolve_inner resolve_putk resolve_orecv.
Definition unlocked_ref := allb_ref unlocked_here unlocked_inner unlocked_putk unlocked_orecv.
Definition synced_ref := allb_ref synced_here synced_inner synced_putk synced_orecv.
Definition insok_ref := allb_ref insokb insok_inner insok_putk insok_orecv.

(* =================================================================== 8. __setstate__ of one node, exactly *)
Lemma ref_eq n :
  ref n = Node (nlab n) (nkind n) (ncls n) (nfailed n) (nrunning n) (drop_live (nexe n))
               (map (fun c => set_dcon c []) (nins n))
               (map (fun c => set_drcv (set_dcon c []) RNone) (nouts n))
               (map (fun c => set_scon c []) (nsin n)) (map (fun c => set_scon c []) (nsout n))
               (relevel (map inner (nkids n))) (nstart n) (nprov n).
Proof. destruct n; reflexivity. Qed.

Lemma kid_ins_nodup K k : NoDup (keys (din K)) -> In k K -> NoDup (map dlab (nins k)).
Proof.
  intros Hk Hin. unfold din, keys in Hk. induction K as [|x r IH]; [contradiction|].
  cbn [flat_map] in Hk. rewrite map_app in Hk. destruct Hin as [->|Hin].
  - apply nodup_app_l in Hk. rewrite map_map in Hk. cbn [fst] in Hk.
    clear -Hk. induction (nins k) as [|c t IHt]; [constructor|]. cbn [map] in *.
    inversion Hk as [|? ? Hnin Hk']; subst. constructor; [|auto].
    intros H. apply Hnin. apply in_map_iff in H. destruct H as [c' [E Hc']]. apply in_map_iff. exists c'.
    rewrite E. auto.
  - apply nodup_app_r in Hk. auto.
Qed.
Lemma kid_outs_nodup K k : NoDup (keys (dout K)) -> In k K -> NoDup (map dlab (nouts k)).
Proof.
  intros Hk Hin. unfold dout, keys in Hk. induction K as [|x r IH]; [contradiction|].
  cbn [flat_map] in Hk. rewrite map_app in Hk. destruct Hin as [->|Hin].
  - apply nodup_app_l in Hk. rewrite map_map in Hk. cbn [fst] in Hk.
    clear -Hk. induction (nouts k) as [|c t IHt]; [constructor|]. cbn [map] in *.
    inversion Hk as [|? ? Hnin Hk']; subst. constructor; [|auto].
    intros H. apply Hnin. apply in_map_iff in H. destruct H as [c' [E Hc']]. apply in_map_iff. exists c'.
    rewrite E. auto.
  - apply nodup_app_r in Hk. auto.
Qed.

Lemma wfb_parts n : wfb n = true ->
  forallb wfb (nkids n) = true /\ level_ok (nkids n) = true /\ NoDup (map nlab (nkids n)) /\
  (forall l, In l (nstart n) -> In l (map nlab (nkids n))) /\
  (is_comp (nkind n) = false -> nkids n = []).
Proof.
  rewrite wfb_eq, !andb_true_iff. intros [[[[A B] C] D] E]. repeat split; auto.
  - apply nodupb_s. exact C.
  - intros l Hl. apply mems_In. exact (forallb_In _ _ _ D Hl).
  - intros Hc. rewrite Hc in E. cbn in E. destruct (nkids n); [reflexivity|discriminate].
Qed.

Lemma level_keys K : level_ok K = true ->
  NoDup (keys (din K)) /\ NoDup (keys (dout K)) /\ NoDup (keys (sinv K)) /\ NoDup (keys (soutv K)).
Proof.
  intros H. destruct (level_ok_spec _ H) as [[A [B [C D]]] _].
  apply table_ok_spec in A, B, C, D. tauto.
Qed.

Lemma wfb_insok : forall n, wfb n = true -> insokb n = true -> allb insokb n = true.
Proof.
  induction n as [lab kd cls fl rn ex ins outs sin sout kids start prov IH] using node_ind'.
  intros Hw Hi. rewrite allb_eq, Hi. cbn [andb nkids]. apply forallb_forall. intros k Hk.
  destruct (wfb_parts _ Hw) as [Wk [Lk _]]. cbn [nkids] in *. rewrite Forall_forall in IH. apply IH; auto.
  - exact (forallb_In _ _ _ Wk Hk).
  - unfold insokb. apply nodupb_s. destruct (level_keys _ Lk) as [A _]. eapply kid_ins_nodup; eauto.
Qed.

Lemma findn_mem l K : In l (map nlab K) -> exists k, findn l K = Some k.
Proof.
  unfold findn. induction K as [|x r IH]; intros H; [contradiction|]. cbn [find].
  destruct (String.eqb (nlab x) l) eqn:E; [eauto|]. destruct H as [H|H].
  - rewrite H, String.eqb_refl in E. discriminate.
  - auto.
Qed.

Lemma orecv_clear_id x : (forall c, In c (nouts x) -> drcv c = RNone) -> orecv_clear x = x.
Proof.
  intros H. unfold orecv_clear. transitivity (set_nouts x (nouts x)); [|destruct x; reflexivity].
  apply f_equal. rewrite <- (map_id (nouts x)) at 2. apply map_ext_in. intros c Hc.
  unfold set_drcv. rewrite <- (H c Hc). destruct c; reflexivity.
Qed.

Lemma ref_lab k : nlab (ref k) = nlab k. Proof. destruct k; reflexivity. Qed.

Lemma relink_ref K :
  level_ok K = true ->
  exists K1, relink connect_d (rev (pairs (din K))) (map ref K) = Ok K1 /\
             relink connect_s (pairs (sinv K)) K1 = Ok (map orecv_clear (relevel (map inner K))).
Proof.
  intros Hl.
  destruct (@relink_level K (map ref K) Hl) as [K1 [R1 R2]].
  - rewrite map_ref, map_map. apply map_ext. intros x. apply clear_own_strip.
  - apply keys_din_ref.
  - apply keys_dout_ref.
  - apply keys_sinv_ref.
  - apply keys_soutv_ref.
  - exists K1. split; [exact R1|]. rewrite R2. f_equal.
    unfold relevel. rewrite din_inner, sinv_inner. unfold put. rewrite map_ref, !map_map.
    apply map_ext. intros x. apply putk_strip.
Qed.

Definition own_blank (n : node) : node :=
  Node (nlab n) (nkind n) (ncls n) (nfailed n) (nrunning n) (drop_live (nexe n))
       (map blank (nins n)) (map blank (nouts n))
       (map (fun c => set_scon c []) (nsin n)) (map (fun c => set_scon c []) (nsout n))
       (map ref (nkids n)) (nstart n) (nprov n).

Lemma setstate_ref n :
  wfb n = true -> own_ok n = true ->
  resolve_here n = true -> unlocked_here n = true -> synced_here n = true ->
  (forall k, In k (nkids n) -> allb resolve_here k = true) ->
  setstate_level (own_blank n)
                 (if is_comp (nkind n) then pairs (din (nkids n)) else [])
                 (if is_comp (nkind n) then pairs (sinv (nkids n)) else [])
                 (if is_linked (nkind n) then il_of (nins n) else [])
                 (if is_linked (nkind n) then olinks_of (nkids n) else [])
  = Ok (ref n).
Proof.
  intros Hw Ho Hr Hu Hs Hrk.
  destruct (wfb_parts _ Hw) as [Wk [Lk [Nk [Sk Ek]]]].
  unfold own_ok in Ho. apply andb_true_iff in Ho. destruct Ho as [Oi Oo]. apply nodupb_s in Oi, Oo.
  unfold setstate_level. change (nkind (own_blank n)) with (nkind n).
  change (nkids (own_blank n)) with (map ref (nkids n)). change (nstart (own_blank n)) with (nstart n).
  destruct (is_comp (nkind n)) eqn:Ec.
  2:{ (* a leaf *)
    rewrite (Ek eq_refl) in *. rewrite ref_eq. unfold own_blank. rewrite (Ek eq_refl). cbn [map].
    f_equal. f_equal.
    - apply map_ext_in. intros c Hc. unfold resolve_here in Hr.
      assert (Hl : is_linked (nkind n) = false) by (destruct (nkind n); try discriminate; reflexivity).
      rewrite Hl in Hr. apply andb_true_iff in Hr. destruct Hr as [Hr _].
      pose proof (forallb_In _ _ _ Hr Hc) as R. cbn in R. unfold blank, set_dcon.
      destruct (drcv c); try discriminate. reflexivity. }
  (* a composite *)
  assert (Hst : forallb (fun l => match findn l (map ref (nkids n)) with Some _ => true | None => false end) (nstart n) = true).
  { apply forallb_forall. intros l Hl. rewrite findn_map by apply ref_lab.
    destruct (findn_mem _ _ (Sk l Hl)) as [k ->]. reflexivity. }
  rewrite Hst. destruct (relink_ref _ Lk) as [K1 [R1 R2]]. rewrite R1, R2.
  set (X := relevel (map inner (nkids n))).
  destruct (level_keys _ Lk) as [Ndi [Ndo _]].
  destruct (relevel_as_map (nkids n)) as [F EX]. fold X in EX.
  assert (Xouts : forall x, In x X -> exists k, In k (nkids n) /\ nlab x = nlab k /\
                                            map (fun c => (dlab c, dval c, drcv c)) (nouts x) =
                                            map (fun c => (dlab c, dval c, drcv c)) (nouts k)).
  { intros x Hx. rewrite EX in Hx. apply in_map_iff in Hx. destruct Hx as [k [<- Hk]]. exists k.
    split; [exact Hk|]. split; [apply tk_lab|]. unfold tk, putk. cbn [nouts]. rewrite map_map, inner_outs. reflexivity. }
  destruct (is_linked (nkind n)) eqn:El.
  2:{ (* Workflow / plain composite: nothing to forge; no child carries an output link *)
    rewrite ref_eq. unfold own_blank, set_nkids. cbn. fold X. f_equal. f_equal.
    - apply map_ext_in. intros c Hc. unfold resolve_here in Hr. rewrite El in Hr.
      apply andb_true_iff in Hr. destruct Hr as [Hr _].
      pose proof (forallb_In _ _ _ Hr Hc) as R. cbn in R. unfold blank, set_dcon.
      destruct (drcv c); try discriminate. reflexivity.
    - rewrite <- (map_id X) at 2. apply map_ext_in. intros x Hx. apply orecv_clear_id.
      intros c Hc. destruct (Xouts x Hx) as [k [Hk [_ Eo]]].
      unfold resolve_here in Hr. rewrite El in Hr. apply andb_true_iff in Hr. destruct Hr as [_ Hr].
      pose proof (forallb_In _ _ _ Hr Hk) as Rk. cbn in Rk.
      assert (In (dlab c, dval c, drcv c) (map (fun c => (dlab c, dval c, drcv c)) (nouts k))).
      { rewrite <- Eo. apply in_map_iff. exists c. auto. }
      apply in_map_iff in H. destruct H as [c0 [E0 Hc0]]. injection E0 as E1 E2 E3.
      pose proof (forallb_In _ _ _ Rk Hc0) as R0. cbn in R0. rewrite E3 in R0.
      destruct (drcv c); try discriminate. reflexivity. }
  (* Macro / For: re-forge the links *)
  set (base := Node (nlab n) (nkind n) (ncls n) (nfailed n) (nrunning n) (drop_live (nexe n))
                    (map blank (nins n)) (map blank (nouts n))
                    (map (fun c => set_scon c []) (nsin n)) (map (fun c => set_scon c []) (nsout n))
                    (map ref (nkids n)) (nstart n) (nprov n)).
  change (set_nkids (own_blank n) (map orecv_clear X))
    with (set_nkids (set_nins base (map (fun c => set_dcon c []) [] ++ map blank (nins n))) (map orecv_clear X)).
  rewrite (@forge_ins_exact base (map orecv_clear X) (nins n) []).
  - (* output links *)
    cbn [app].
    assert (Eol : olinks_of (nkids n) = olinks_of X).
    { rewrite EX. unfold olinks_of. rewrite flat_map_concat_map, flat_map_concat_map, map_map. f_equal.
      apply map_ext. intros k. rewrite tk_lab. unfold tk, putk. cbn [nouts]. rewrite inner_outs.
      rewrite !flat_map_concat_map, map_map. reflexivity. }
    rewrite Eol.
    set (n2 := set_nins base (map (fun c => set_dcon c []) (nins n))).
    rewrite (@forge_outs_exact n2 X).
    + rewrite ref_eq. fold X. reflexivity.
    + unfold X. unfold relevel. rewrite dout_put, keys_refill, dout_inner. exact Ndo.
    + rewrite EX, map_map. erewrite map_ext; [exact Nk|]. intros k. apply tk_lab.
    + unfold n2, base. cbn [set_nins nouts]. rewrite map_map. exact Oo.
    + intros x c Hx Hc. destruct (Xouts x Hx) as [k [Hk [_ Eo]]].
      assert (Hin : In (dlab c, dval c, drcv c) (map (fun c => (dlab c, dval c, drcv c)) (nouts k))).
      { rewrite <- Eo. apply in_map_iff. exists c. auto. }
      apply in_map_iff in Hin. destruct Hin as [c0 [E0 Hc0]]. injection E0 as E1 E2 E3.
      unfold resolve_here in Hr. rewrite El in Hr. apply andb_true_iff in Hr. destruct Hr as [_ Hr].
      pose proof (forallb_In _ _ _ (forallb_In _ _ _ Hr Hk) Hc0) as R0. cbn in R0. rewrite E3 in R0.
      unfold synced_here in Hs. apply andb_true_iff in Hs. destruct Hs as [_ Hs].
      pose proof (forallb_In _ _ _ (forallb_In _ _ _ Hs Hk) Hc0) as S0. cbn in S0. rewrite E3 in S0.
      destruct (drcv c) as [| |o]; [left; reflexivity|discriminate|]. right.
      unfold has_d in R0. destruct (findd o (nouts n)) as [c'|] eqn:Fo; [|discriminate].
      apply slot_eqb_true in S0.
      exists o, (blank c'). split; [reflexivity|]. split.
      * unfold n2, base. cbn [set_nins nouts]. rewrite findd_map by reflexivity. rewrite Fo. reflexivity.
      * cbn [blank dval]. congruence.
  - cbn [app]. exact Oi.
  - intros c Hc. unfold resolve_here in Hr. rewrite El in Hr. apply andb_true_iff in Hr. destruct Hr as [Hr _].
    pose proof (forallb_In _ _ _ Hr Hc) as R. cbn in R.
    destruct (drcv c) as [|k l|] eqn:Er; try discriminate.
    unfold has_in in R. destruct (findn k (nkids n)) as [k0|] eqn:Fk; [|discriminate].
    destruct (findd l (nins k0)) as [c0|] eqn:Fc; [|discriminate].
    pose proof (findn_In _ _ Fk) as [Hk0 _].
    exists k, l, (orecv_clear (tk F k0)). split; [reflexivity|]. split.
    { rewrite EX, map_map. rewrite findn_map by (intros; rewrite orecv_lab; apply tk_lab). rewrite Fk. reflexivity. }
    assert (Fc' : exists c', findd l (nins (orecv_clear (tk F k0))) = Some c').
    { rewrite orecv_ins. unfold tk, putk. cbn [nins]. rewrite findd_map by reflexivity. rewrite inner_ins, Fc.
      eexists; reflexivity. }
    split; [exact Fc'|]. destruct Fc' as [c' Fc'].
    eapply push_quiet; [| |exact Fc'|].
    + rewrite (allb_orecv insokb insok_orecv), (allb_tk insokb insok_inner insok_putk).
      apply wfb_insok; [exact (forallb_In _ _ _ Wk Hk0)|].
      unfold insokb. apply nodupb_s. eapply kid_ins_nodup; eauto.
    + rewrite (allb_orecv resolve_here resolve_orecv), (allb_tk resolve_here resolve_inner resolve_putk).
      apply Hrk. exact Hk0.
    + rewrite chain_orecv, tk_chain. unfold quiet.
      unfold unlocked_here in Hu. pose proof (forallb_In _ _ _ Hu Hc) as U. cbn in U. rewrite Er in U.
      unfold synced_here in Hs. apply andb_true_iff in Hs. destruct Hs as [Hs _].
      pose proof (forallb_In _ _ _ Hs Hc) as S. cbn in S. rewrite Er in S.
      unfold chain_kid in U, S. rewrite Fk in U, S.
      apply forallb_forall. intros h Hh. rewrite (forallb_In _ _ _ U Hh), (forallb_In _ _ _ S Hh). reflexivity.
Qed.

(* =================================================================== 9. one round trip, exactly *)
Lemma mapM_ex {A B} (f : A -> res B) (Q : A -> B -> Prop) l :
  (forall x, In x l -> exists y, f x = Ok y /\ Q x y) -> exists ys, mapM f l = Ok ys /\ Forall2 Q l ys.
Proof.
  induction l as [|x r IH]; intros H.
  - exists []. split; [reflexivity|constructor].
  - destruct (H x (or_introl eq_refl)) as [y [Ey Qy]].
    destruct IH as [ys [Eys Qys]]; [intros z Hz; apply H; right; exact Hz|].
    exists (y :: ys). cbn [mapM]. rewrite Ey, Eys. split; [reflexivity|constructor; auto].
Qed.
Lemma mapM_restore K sk : Forall2 (fun k s => restore s = Ok (ref k)) K sk -> mapM restore sk = Ok (map ref K).
Proof. induction 1 as [|k s K' sk' H _ IH]; [reflexivity|]. cbn [mapM map]. rewrite H, IH. reflexivity. Qed.

Lemma kid_own_ok n k : wfb n = true -> In k (nkids n) -> own_ok k = true.
Proof.
  intros Hw Hk. destruct (wfb_parts _ Hw) as [_ [Lk _]]. destruct (level_keys _ Lk) as [A [B _]].
  unfold own_ok. apply andb_true_iff. split; apply nodupb_s.
  - eapply kid_ins_nodup; eauto.
  - eapply kid_outs_nodup; eauto.
Qed.

Theorem restore_dump : forall n,
  wfb n = true -> own_ok n = true ->
  links_resolve n = true -> links_unlocked n = true -> links_synced n = true ->
  forall det path, exists s, dump det path n = Ok s /\ s_det s = det /\ restore s = Ok (ref n).
Proof.
  induction n as [lab kd cls fl rn ex ins outs sin sout kids start prov IH] using node_ind'.
  intros Hw Ho Hr Hu Hs det path.
  set (n := Node lab kd cls fl rn ex ins outs sin sout kids start prov) in *.
  unfold links_resolve, links_unlocked, links_synced in Hr, Hu, Hs. rewrite allb_eq in Hr, Hu, Hs.
  apply andb_true_iff in Hr, Hu, Hs. destruct Hr as [Hr Hrk], Hu as [Hu Huk], Hs as [Hs Hsk].
  destruct (wfb_parts _ Hw) as [Wk _].
  change (nkids n) with kids in *.
  destruct (@mapM_ex _ _ (fun k => dump (Some path) (slash path (nlab k)) k)
                     (fun k s => restore s = Ok (ref k)) kids) as [sk [Esk Qsk]].
  { intros k Hk. rewrite Forall_forall in IH.
    destruct (IH k Hk (forallb_In _ _ _ Wk Hk) (kid_own_ok n k Hw Hk)
                 (forallb_In _ _ _ Hrk Hk) (forallb_In _ _ _ Huk Hk) (forallb_In _ _ _ Hsk Hk)
                 (Some path) (slash path (nlab k))) as [s [E1 [_ E2]]].
    exists s. auto. }
  rewrite dump_eq. change (nkids n) with kids. rewrite Esk.
  assert (Hset := @setstate_ref n Hw Ho Hr Hu Hs (fun k Hk => forallb_In _ _ _ Hrk Hk)).
  assert (Erest : forall il ol, restore_node (dump_node det path n sk il ol) (map ref kids) = own_blank n).
  { intros il ol. unfold restore_node, dump_node, own_blank. cbn. rewrite !map_map. reflexivity. }
  destruct (is_linked (nkind n)) eqn:El.
  - rewrite ilinks_of_ok.
    + eexists. split; [reflexivity|]. split; [reflexivity|].
      rewrite restore_eq. change (s_kids (dump_node det path n sk (il_of (nins n)) (olinks_of kids))) with sk.
      rewrite (mapM_restore Qsk). rewrite Erest. exact Hset.
    + intros c Hc. unfold resolve_here in Hr. rewrite El in Hr. apply andb_true_iff in Hr. destruct Hr as [Hr _].
      pose proof (forallb_In _ _ _ Hr Hc) as R. cbn in R. destruct (drcv c) as [|k l|]; try discriminate. eauto.
  - eexists. split; [reflexivity|]. split; [reflexivity|].
    rewrite restore_eq. change (s_kids (dump_node det path n sk [] [])) with sk.
    rewrite (mapM_restore Qsk). rewrite Erest. exact Hset.
Qed.

(* =================================================================== 10. the invariant survives a round trip *)
Definition gperm (g : list cref -> list cref) : Prop :=
  (forall l x, In x (g l) <-> In x l) /\ (forall l, NoDup l -> NoDup (g l)).
Lemma gperm_id : gperm (fun l => l). Proof. split; [tauto|auto]. Qed.
Lemma gperm_rev : gperm (@rev cref).
Proof. split; [intros l x; symmetry; apply in_rev | intros l H; apply NoDup_rev; exact H]. Qed.

Lemma in_refill f E k l : In (k, l) (refill f E) <-> (l = f k /\ In k (keys E)).
Proof.
  unfold refill, keys. rewrite in_map_iff. split.
  - intros [[k' l'] [E1 H]]. cbn [fst] in E1. inversion E1; subst. split; [reflexivity|].
    apply in_map_iff. exists (k, l'). auto.
  - intros [-> H]. apply in_map_iff in H. destruct H as [[k' l'] [E1 H]]. cbn [fst] in E1. subst k'.
    exists (k, l'). auto.
Qed.

Lemma resym g E F :
  gperm g -> table_ok E = true -> table_ok F = true -> sym_half E F = true -> sym_half F E = true ->
  let E1 := refill (fun i => g (look E i)) E in
  let F1 := refill (fun o => g (canon E o)) F in
  table_ok E1 = true /\ table_ok F1 = true /\ sym_half E1 F1 = true /\ sym_half F1 E1 = true.
Proof.
  intros [Gi Gn] TE TF S1 S2 E1 F1.
  apply table_ok_spec in TE, TF. destruct TE as [NE LE], TF as [NF LF].
  rewrite sym_half_spec in S1, S2.
  repeat split.
  - apply table_ok_spec. unfold E1. rewrite keys_refill. split; [exact NE|].
    intros [k l] H. apply in_refill in H. destruct H as [-> Hk]. cbn [snd]. apply Gn.
    unfold keys in Hk. apply in_map_iff in Hk. destruct Hk as [[k' l'] [Ek Hin]]. cbn [fst] in Ek. subst k'.
    rewrite (look_In _ _ _ NE Hin). exact (LE _ Hin).
  - apply table_ok_spec. unfold F1. rewrite keys_refill. split; [exact NF|].
    intros [k l] H. apply in_refill in H. destruct H as [-> Hk]. cbn [snd]. apply Gn. apply nodup_canon. exact NE.
  - apply sym_half_spec. intros i l o Hil Ho. unfold E1 in Hil. apply in_refill in Hil. destruct Hil as [-> Hk].
    apply (proj1 (Gi _ _)) in Ho. unfold keys in Hk. apply in_map_iff in Hk. destruct Hk as [[k' l'] [Ek Hin]]. cbn [fst] in Ek. subst k'.
    rewrite (look_In _ _ _ NE Hin) in Ho. destruct (S1 _ _ _ Hin Ho) as [l'' [A B]].
    exists (g (canon E o)). split.
    + unfold F1. rewrite assoc_refill. unfold has_key. rewrite A. reflexivity.
    + apply Gi. apply in_canon. exists l'. auto.
  - apply sym_half_spec. intros o l i Hol Hi. unfold F1 in Hol. apply in_refill in Hol. destruct Hol as [-> Hk].
    apply (proj1 (Gi _ _)) in Hi. apply in_canon in Hi. destruct Hi as [l' [Hin Ho]].
    exists (g (look E i)). split.
    + unfold E1. rewrite assoc_refill. unfold has_key. rewrite (assoc_In _ _ _ NE Hin). reflexivity.
    + apply Gi. rewrite (look_In _ _ _ NE Hin). exact Ho.
Qed.

Lemma refill_look E : NoDup (keys E) -> refill (look E) E = E.
Proof.
  intros Hn. unfold refill. rewrite <- (map_id E) at 2. apply map_ext_in. intros [k l] Hin. cbn [fst].
  rewrite (look_In _ _ _ Hn Hin). reflexivity.
Qed.

Lemma level_ok_relevel K : level_ok K = true -> level_ok (relevel K) = true.
Proof.
  intros Hl. destruct (level_ok_spec _ Hl) as [[Tdi [Tdo [Tsi Tso]]] [[Sd1 Sd2] [Ss1 Ss2]]].
  destruct (@resym (fun l => l) (din K) (dout K) gperm_id Tdi Tdo Sd1 Sd2) as [A1 [A2 [A3 A4]]].
  destruct (@resym (@rev cref) (sinv K) (soutv K) gperm_rev Tsi Tso Ss1 Ss2) as [B1 [B2 [B3 B4]]].
  unfold level_ok, relevel. rewrite din_put, dout_put, sinv_put, soutv_put.
  rewrite !andb_true_iff. repeat split; assumption.
Qed.

Lemma putk_wfb fi fo gi go k : wfb (putk fi fo gi go k) = wfb k.
Proof. rewrite !wfb_eq. reflexivity. Qed.

Lemma wfb_inner : forall n, wfb n = true -> wfb (inner n) = true.
Proof.
  induction n as [lab kd cls fl rn ex ins outs sin sout kids start prov IH] using node_ind'.
  intros Hw. set (n := Node lab kd cls fl rn ex ins outs sin sout kids start prov) in *.
  destruct (wfb_parts _ Hw) as [Wk [Lk [Nk [Sk Ek]]]]. change (nkids n) with kids in *.
  rewrite wfb_eq, inner_kids, inner_start, inner_kind. change (nkids n) with kids.
  assert (Lab : map nlab (relevel (map inner kids)) = map nlab kids).
  { unfold relevel, put. rewrite !map_map. apply map_ext. intros k. apply inner_lab. }
  rewrite Lab. rewrite !andb_true_iff. repeat split.
  - unfold relevel, put. rewrite forallb_map. apply forallb_forall. intros x Hx.
    apply in_map_iff in Hx. destruct Hx as [k [<- Hk]]. rewrite putk_wfb.
    rewrite Forall_forall in IH. apply IH; auto. exact (forallb_In _ _ _ Wk Hk).
  - apply level_ok_relevel. unfold level_ok. rewrite din_inner, dout_inner, sinv_inner, soutv_inner. exact Lk.
  - apply nodupb_s. exact Nk.
  - apply forallb_forall. intros l Hl. apply mems_In. apply Sk. exact Hl.
  - destruct (is_comp (nkind n)) eqn:Ec; [reflexivity|]. rewrite (Ek eq_refl). reflexivity.
Qed.

Lemma wfb_strip n : wfb (strip_root n) = wfb n.
Proof. rewrite !wfb_eq. reflexivity. Qed.
Lemma wfb_ref n : wfb n = true -> wfb (ref n) = true.
Proof. intros H. unfold ref. rewrite wfb_strip. apply wfb_inner. exact H. Qed.
Lemma own_ok_ref n : own_ok (ref n) = own_ok n.
Proof. rewrite ref_eq. unfold own_ok. cbn [nins nouts]. rewrite !map_map. reflexivity. Qed.

(* =================================================================== 11. "observationally identical" as the property words it *)
Definition dshell (c : dchan) := (dlab c, dval c, drcv c).
Definition sshell (c : schan) := (slab c, srcvd c).
Definition tperm (E E' : table) : Prop :=
  Forall2 (fun e e' => fst e = fst e' /\ Permutation (snd e) (snd e')) E E'.

(* same labels / classes / nesting, values (NotData is a constructor of its own), flags, executor
   instructions, value links, starting nodes; every INPUT consults the same connections in the
   same order; data fan-out and signal connections are the same sets per channel.
   A node's own connections (they live in its parent's scope) are not compared here. *)
Fixpoint same (n n' : node) {struct n} : Prop :=
  match n with
  | Node lab kd cls fl rn ex ins outs sin sout kids start prov =>
      lab = nlab n' /\ kd = nkind n' /\ cls = ncls n' /\ fl = nfailed n' /\ rn = nrunning n' /\
      drop_live ex = nexe n' /\
      map dshell ins = map dshell (nins n') /\ map dshell outs = map dshell (nouts n') /\
      map sshell sin = map sshell (nsin n') /\ map sshell sout = map sshell (nsout n') /\
      (fix all2 (ks ks' : list node) {struct ks} : Prop :=
         match ks, ks' with
         | [], [] => True
         | k :: r, k' :: r' => same k k' /\ all2 r r'
         | _, _ => False
         end) kids (nkids n') /\
      din (nkids n') = din kids /\
      tperm (dout kids) (dout (nkids n')) /\ tperm (sinv kids) (sinv (nkids n')) /\
      tperm (soutv kids) (soutv (nkids n')) /\
      start = nstart n' /\ prov = nprov n'
  end.

Lemma same_eq n n' :
  same n n' <->
  (nlab n = nlab n' /\ nkind n = nkind n' /\ ncls n = ncls n' /\ nfailed n = nfailed n' /\
   nrunning n = nrunning n' /\ drop_live (nexe n) = nexe n' /\
   map dshell (nins n) = map dshell (nins n') /\ map dshell (nouts n) = map dshell (nouts n') /\
   map sshell (nsin n) = map sshell (nsin n') /\ map sshell (nsout n) = map sshell (nsout n') /\
   Forall2 same (nkids n) (nkids n') /\
   din (nkids n') = din (nkids n) /\
   tperm (dout (nkids n)) (dout (nkids n')) /\ tperm (sinv (nkids n)) (sinv (nkids n')) /\
   tperm (soutv (nkids n)) (soutv (nkids n')) /\
   nstart n = nstart n' /\ nprov n = nprov n').
Proof.
  destruct n as [lab kd cls fl rn ex ins outs sin sout kids start prov]. cbn [same nlab nkind ncls nfailed nrunning nexe nins nouts nsin nsout nkids nstart nprov].
  assert (A : forall ks ks',
             (fix all2 (ks ks' : list node) {struct ks} : Prop :=
                match ks, ks' with
                | [], [] => True
                | k :: r, k' :: r' => same k k' /\ all2 r r'
                | _, _ => False
                end) ks ks' <-> Forall2 same ks ks').
  { induction ks as [|k r IH]; intros [|k' r'].
    - split; intros; constructor.
    - split; intros H; [contradiction | inversion H].
    - split; intros H; [contradiction | inversion H].
    - split.
      + intros [H1 H2]. constructor; [exact H1 | apply IH; exact H2].
      + intros H. inversion H; subst. split; [assumption | apply IH; assumption]. }
  rewrite A. tauto.
Qed.

Lemma tperm_refl E : tperm E E.
Proof. unfold tperm. induction E; constructor; auto. Qed.
Lemma tperm_trans A B C : tperm A B -> tperm B C -> tperm A C.
Proof.
  unfold tperm. intros H. revert C. induction H as [|a b A' B' [K1 P1] _ IH]; intros C HC; inversion HC; subst; constructor.
  - destruct H1 as [K2 P2]. split; [congruence|]. eapply Permutation_trans; eauto.
  - apply IH. assumption.
Qed.

Lemma same_trans : forall a b c, same a b -> same b c -> same a c.
Proof.
  induction a as [lab kd cls fl rn ex ins outs sin sout kids start prov IH] using node_ind'.
  intros b c Hab Hbc. rewrite same_eq in *.
  destruct Hab as [A1 [A2 [A3 [A4 [A5 [A6 [A7 [A8 [A9 [A10 [A11 [A12 [A13 [A14 [A15 [A16 A17]]]]]]]]]]]]]]]].
  destruct Hbc as [B1 [B2 [B3 [B4 [B5 [B6 [B7 [B8 [B9 [B10 [B11 [B12 [B13 [B14 [B15 [B16 B17]]]]]]]]]]]]]]]].
  cbn [nlab nkind ncls nfailed nrunning nexe nins nouts nsin nsout nkids nstart nprov] in *.
  repeat split; try congruence.
  - rewrite <- B6, <- A6. destruct ex; reflexivity.
  - clear -IH A11 B11. revert IH. generalize dependent (nkids c). induction A11 as [|x y X Y Hxy _ IHF]; intros C HC IH; inversion HC; subst; constructor.
    + inversion IH; subst. eauto.
    + inversion IH; subst. apply IHF; auto.
  - eapply tperm_trans; eauto.
  - eapply tperm_trans; eauto.
  - eapply tperm_trans; eauto.
Qed.

(* own connections and own output links of the second node are not looked at ... *)
Lemma same_putk a b fi fo gi go : same a (putk fi fo gi go b) <-> same a b.
Proof.
  rewrite !same_eq. cbn [putk nlab nkind ncls nfailed nrunning nexe nins nouts nsin nsout nkids nstart nprov].
  rewrite !map_map. cbn. tauto.
Qed.

Lemma tperm_refill_l (g : cref -> list cref) E :
  (forall k l, In (k, l) E -> Permutation l (g k)) -> tperm E (refill g E).
Proof.
  unfold tperm, refill. induction E as [|[k l] r IH]; intros H; [constructor|]. cbn [map]. constructor.
  - cbn. split; [reflexivity|]. apply H. left. reflexivity.
  - apply IH. intros k' l' Hin. apply H. right. exact Hin.
Qed.

Lemma perm_canon E F o l :
  table_ok E = true -> table_ok F = true -> sym_half E F = true -> sym_half F E = true ->
  In (o, l) F -> Permutation l (canon E o).
Proof.
  intros TE TF S1 S2 Hin. apply table_ok_spec in TE, TF. destruct TE as [NE LE], TF as [NF LF].
  rewrite sym_half_spec in S1, S2.
  apply NoDup_Permutation.
  - exact (LF _ Hin).
  - apply nodup_canon. exact NE.
  - intros i. rewrite in_canon. split.
    + intros Hi. destruct (S2 _ _ _ Hin Hi) as [l' [A B]]. exists l'. split; [apply assoc_Some_In; exact A|exact B].
    + intros [l' [Hil Ho]]. destruct (S1 _ _ _ Hil Ho) as [l'' [A B]].
      rewrite (assoc_In _ _ _ NF Hin) in A. inversion A; subst. exact B.
Qed.

Lemma forall2_tk K f1 f2 f3 f4 :
  (forall k, In k K -> same k (inner k)) ->
  Forall2 same K (map (fun x => putk f1 f2 f3 f4 (inner x)) K).
Proof.
  induction K as [|k r IH]; intros H; [constructor|]. cbn [map]. constructor.
  - apply same_putk. apply H. left. reflexivity.
  - apply IH. intros x Hx. apply H. right. exact Hx.
Qed.

Lemma same_inner : forall n, wfb n = true -> same n (inner n).
Proof.
  induction n as [lab kd cls fl rn ex ins outs sin sout kids start prov IH] using node_ind'.
  intros Hw. set (n := Node lab kd cls fl rn ex ins outs sin sout kids start prov) in *.
  destruct (wfb_parts _ Hw) as [Wk [Lk _]]. change (nkids n) with kids in *.
  destruct (level_ok_spec _ Lk) as [[Tdi [Tdo [Tsi Tso]]] [[Sd1 Sd2] [Ss1 Ss2]]].
  destruct (level_keys _ Lk) as [Ndi [Ndo [Nsi Nso]]].
  rewrite same_eq. rewrite inner_eq.
  cbn [nlab nkind ncls nfailed nrunning nexe nins nouts nsin nsout nkids nstart nprov].
  change (nkids n) with kids.
  repeat split; try reflexivity.
  - unfold relevel, put. rewrite map_map. apply forall2_tk.
    intros k Hk. rewrite Forall_forall in IH. apply IH; [exact Hk|]. exact (forallb_In _ _ _ Wk Hk).
  - unfold relevel. rewrite din_put, !din_inner. apply refill_look. exact Ndi.
  - unfold relevel. rewrite dout_put, din_inner, dout_inner. apply tperm_refill_l.
    intros k l Hin. exact (@perm_canon (din kids) (dout kids) k l Tdi Tdo Sd1 Sd2 Hin).
  - unfold relevel. rewrite sinv_put, !sinv_inner. apply tperm_refill_l.
    intros k l Hin. rewrite (look_In _ _ _ Nsi Hin). apply Permutation_rev.
  - unfold relevel. rewrite soutv_put, sinv_inner, soutv_inner. apply tperm_refill_l.
    intros k l Hin. eapply Permutation_trans;
      [exact (@perm_canon (sinv kids) (soutv kids) k l Tsi Tso Ss1 Ss2 Hin) | apply Permutation_rev].
Qed.

Lemma same_strip a b : same a b -> same (strip_root a) (strip_root b).
Proof.
  rewrite !same_eq. unfold strip_root.
  cbn [nlab nkind ncls nfailed nrunning nexe nins nouts nsin nsout nkids nstart nprov].
  intros [A1 [A2 [A3 [A4 [A5 [A6 [A7 [A8 [A9 [A10 R]]]]]]]]]].
  repeat split; try tauto.
  - rewrite !map_map. exact A7.
  - rewrite !map_map. unfold dshell in *. cbn [set_drcv set_dcon dlab dval drcv].
    revert A8. generalize (nouts a) (nouts b). induction l as [|x r IH]; intros [|y t] H; try discriminate; [reflexivity|].
    cbn [map] in *. injection H as H1 H2 H3 H4. f_equal; [congruence | apply IH; exact H4].
  - rewrite !map_map. exact A9.
  - rewrite !map_map. exact A10.
Qed.

Theorem same_ref n : wfb n = true -> same (strip_root n) (ref n).
Proof. intros H. unfold ref. apply same_strip. apply same_inner. exact H. Qed.

Definition no_own_conns (n : node) : Prop :=
  (forall c, In c (nins n) -> dcon c = []) /\ (forall c, In c (nouts n) -> dcon c = [] /\ drcv c = RNone) /\
  (forall c, In c (nsin n) -> scon c = []) /\ (forall c, In c (nsout n) -> scon c = []).
Lemma ref_no_own n : no_own_conns (ref n).
Proof.
  rewrite ref_eq. unfold no_own_conns. cbn [nins nouts nsin nsout].
  split; [|split; [|split]]; intros c H; apply in_map_iff in H; destruct H as [c0 [<- _]]; try split; reflexivity.
Qed.
Lemma strip_idem n : strip_root (strip_root n) = strip_root n.
Proof. unfold strip_root. cbn. rewrite !map_map. reflexivity. Qed.
Lemma strip_ref n : strip_root (ref n) = ref n.
Proof. unfold ref. apply strip_idem. Qed.

(* =================================================================== 12. repeated pickle round trips *)
Fixpoint iter_ref (k : nat) (n : node) : node := match k with O => n | S k' => iter_ref k' (ref n) end.

Theorem trip_pickle_exact' c n :
  wfb n = true -> own_ok n = true ->
  links_resolve n = true -> links_unlocked n = true -> links_synced n = true -> ghost_fails c n = false ->
  trip_pickle (c, n) = Ok (mkC None (root_det c) (cown c), ref n).
Proof.
  intros Hw Ho Hr Hu Hs Hc. unfold trip_pickle, dump_root. cbn [fst snd].
  destruct (@restore_dump n Hw Ho Hr Hu Hs (root_det c) (slash (root_prefix c) (nlab n))) as [s [E1 [E2 E3]]].
  rewrite E1, Hc, E3, E2. reflexivity.
Qed.

Theorem trip_pickle_exact c n :
  wfb n = true -> own_ok n = true ->
  links_resolve n = true -> links_unlocked n = true -> links_synced n = true -> cown c = true ->
  trip_pickle (c, n) = Ok (mkC None (root_det c) true, ref n).
Proof.
  intros Hw Ho Hr Hu Hs Hc. rewrite trip_pickle_exact'; auto.
  - rewrite Hc. reflexivity.
  - unfold ghost_fails. rewrite Hc. reflexivity.
Qed.

Theorem trips_pickle_exact : forall k c n,
  wfb n = true -> own_ok n = true ->
  links_resolve n = true -> links_unlocked n = true -> links_synced n = true -> cown c = true ->
  trips (S k) BPickle (c, n) = Ok (mkC None (root_det c) true, iter_ref (S k) n).
Proof.
  induction k as [|k IH]; intros c n Hw Ho Hr Hu Hs Hc.
  - cbn [trips trip iter_ref]. rewrite trip_pickle_exact; auto.
  - change (trips (S (S k)) BPickle (c, n))
      with (match trip BPickle (c, n) with Ok cn' => trips (S k) BPickle cn' | Err e => Err e end).
    cbn [trip]. rewrite trip_pickle_exact; auto.
    rewrite IH.
    + reflexivity.
    + apply wfb_ref; exact Hw.
    + rewrite own_ok_ref; exact Ho.
    + unfold links_resolve. rewrite resolve_ref. exact Hr.
    + unfold links_unlocked. rewrite unlocked_ref. exact Hu.
    + unfold links_synced. rewrite synced_ref. exact Hs.
    + reflexivity.
Qed.

Lemma same_iter : forall k n, wfb n = true -> same (strip_root n) (iter_ref (S k) n).
Proof.
  induction k as [|k IH]; intros n Hw.
  - apply same_ref; exact Hw.
  - change (iter_ref (S (S k)) n) with (iter_ref (S k) (ref n)).
    eapply same_trans; [apply same_ref; exact Hw|].
    pose proof (IH (ref n) (wfb_ref n Hw)) as H. rewrite strip_ref in H. exact H.
Qed.
Lemma iter_no_own : forall k n, no_own_conns (iter_ref (S k) n).
Proof.
  induction k as [|k IH]; intros n; [apply ref_no_own|].
  change (iter_ref (S (S k)) n) with (iter_ref (S k) (ref n)). apply IH.
Qed.

(* =================================================================== 13. re-running *)
Lemma forallb_rev {A} (f : A -> bool) l : forallb f (rev l) = forallb f l.
Proof.
  induction l as [|x r IH]; [reflexivity|]. cbn [rev forallb]. rewrite forallb_app, IH. cbn. rewrite andb_true_r, andb_comm.
  reflexivity.
Qed.

Definition acc_eq (W W' : wiring) : Prop :=
  forall r rc, forallb (fun e => mems (scoped e) rc) (look (w_sin W) r) =
               forallb (fun e => mems (scoped e) rc) (look (w_sin W') r).

Section ExecInv.
  Variables (d s : table) (sh : list (string * list string)) (si si' : table).
  Let W := mkW d s si sh.
  Let W' := mkW d s si' sh.
  Hypothesis Hacc : acc_eq W W'.

  Lemma run_kid_inv st c : run_kid W st c = run_kid W' st c.
  Proof. reflexivity. Qed.
  Lemma deliver_inv st fr : deliver W st fr = deliver W' st fr.
  Proof.
    unfold deliver. destruct fr as [f r]. destruct (String.eqb (snd r) "run"); [reflexivity|].
    destruct (String.eqb (snd r) "accumulate_and_run"); [|reflexivity].
    rewrite (Hacc r). reflexivity.
  Qed.
  Lemma loop_inv : forall fuel st, loop fuel W st = loop fuel W' st.
  Proof.
    induction fuel as [|f IH]; intros st; cbn [loop]; destruct (st_q st) as [|fr q]; try reflexivity.
    rewrite deliver_inv. destruct (deliver W' _ fr) as [st'|[|]]; auto.
  Qed.
  Lemma starts_inv : forall ls st, starts W st ls = starts W' st ls.
  Proof.
    induction ls as [|c r IH]; intros st; [reflexivity|]. cbn [starts]. rewrite run_kid_inv.
    destruct (run_kid W' st c); [apply IH|reflexivity].
  Qed.
End ExecInv.

Lemma look_refill f E k : look (refill f E) k = if has_key E k then f k else [].
Proof. unfold look. rewrite assoc_refill. destruct (has_key E k); reflexivity. Qed.

Lemma list_eqb_c a b : list_eqb cref_eqb a b = true -> a = b.
Proof.
  revert b. induction a as [|x r IH]; intros [|y t]; cbn; try discriminate; [reflexivity|].
  intros H. apply andb_true_iff in H. destruct H as [H1 H2]. apply cref_eqb_eq in H1. f_equal; auto.
Qed.

Lemma canon_sig_eq K : NoDup (keys (soutv K)) -> sig_canon_level K = true ->
  refill (fun o => rev (canon (sinv K) o)) (soutv K) = soutv K.
Proof.
  intros Hn Hc. unfold sig_canon_level in Hc. unfold refill. rewrite <- (map_id (soutv K)) at 2.
  apply map_ext_in. intros [k l] Hin. cbn [fst].
  pose proof (forallb_In _ _ _ Hc Hin) as E. cbn [fst snd] in E. apply list_eqb_c in E. rewrite <- E. reflexivity.
Qed.

Lemma vals_in_tk F K : vals_in (map (tk F) K) = vals_in K.
Proof.
  unfold vals_in. induction K as [|k r IH]; [reflexivity|]. cbn [map flat_map]. rewrite IH. f_equal.
  rewrite tk_lab. unfold tk, putk. cbn [nins]. rewrite map_map, inner_ins. reflexivity.
Qed.
Lemma vals_out_tk F K : vals_out (map (tk F) K) = vals_out K.
Proof.
  unfold vals_out. induction K as [|k r IH]; [reflexivity|]. cbn [map flat_map]. rewrite IH. f_equal.
  rewrite tk_lab. unfold tk, putk. cbn [nouts]. rewrite map_map, inner_outs. reflexivity.
Qed.
Lemma rcvd_tk F K : rcvd_of (map (tk F) K) = rcvd_of K.
Proof.
  unfold rcvd_of. induction K as [|k r IH]; [reflexivity|]. cbn [map flat_map]. rewrite IH. f_equal.
  rewrite tk_lab. unfold tk, putk. cbn [nsin]. rewrite map_map, inner_sin. reflexivity.
Qed.
Lemma shape_tk F K : map (fun k => (nlab k, map dlab (nins k))) (map (tk F) K) = map (fun k => (nlab k, map dlab (nins k))) K.
Proof. rewrite map_map. apply map_ext. intros k. rewrite tk_lab, tk_ins_labs. reflexivity. Qed.

Lemma root_ready_relevel K : NoDup (keys (din K)) -> root_ready (relevel (map inner K)) = root_ready K.
Proof.
  intros Hn. unfold root_ready, relevel, put. rewrite map_map, forallb_map. apply forallb_ext_in. intros k Hk.
  unfold putk. cbn [nins]. rewrite forallb_map, inner_ins, inner_lab. apply forallb_ext_in. intros c Hc.
  cbn [set_dcon dcon dval]. rewrite din_inner.
  assert (E : look (din K) (nlab k, dlab c) = dcon c).
  { apply look_In; [exact Hn|]. unfold din. apply in_flat_map. exists k. split; [exact Hk|].
    apply in_map_iff. exists c. auto. }
  rewrite E. reflexivity.
Qed.

Theorem exec_ref fuel n :
  wfb n = true -> sig_canon_level (nkids n) = true -> exec fuel (ref n) = exec fuel n.
Proof.
  intros Hw Hc. destruct (wfb_parts _ Hw) as [_ [Lk _]]. destruct (level_keys _ Lk) as [Ndi [Ndo [Nsi Nso]]].
  unfold exec. rewrite ref_eq. cbn [nkids nstart].
  rewrite (root_ready_relevel _ Ndi). destruct (root_ready (nkids n)); [|reflexivity].
  destruct (relevel_as_map (nkids n)) as [F EX].
  assert (E1 : vals_in (relevel (map inner (nkids n))) = vals_in (nkids n)) by (rewrite EX; apply vals_in_tk).
  assert (E2 : vals_out (relevel (map inner (nkids n))) = vals_out (nkids n)) by (rewrite EX; apply vals_out_tk).
  assert (E3 : rcvd_of (relevel (map inner (nkids n))) = rcvd_of (nkids n)) by (rewrite EX; apply rcvd_tk).
  assert (EW : wiring_of (relevel (map inner (nkids n))) =
               mkW (din (nkids n)) (soutv (nkids n)) (refill (fun i => rev (look (sinv (nkids n)) i)) (sinv (nkids n)))
                   (map (fun k => (nlab k, map dlab (nins k))) (nkids n))).
  { unfold wiring_of. rewrite EX at 4. rewrite shape_tk.
    unfold relevel. rewrite din_put, soutv_put, sinv_put, !din_inner, !sinv_inner, soutv_inner.
    rewrite (@refill_look _ Ndi). rewrite (@canon_sig_eq _ Nso Hc). reflexivity. }
  rewrite E1, E2, EW. unfold wiring_of.
  assert (Hacc : acc_eq (mkW (din (nkids n)) (soutv (nkids n)) (refill (fun i => rev (look (sinv (nkids n)) i)) (sinv (nkids n)))
                             (map (fun k => (nlab k, map dlab (nins k))) (nkids n)))
                        (mkW (din (nkids n)) (soutv (nkids n)) (sinv (nkids n))
                             (map (fun k => (nlab k, map dlab (nins k))) (nkids n)))).
  { intros r rc. cbn [w_sin]. rewrite look_refill. destruct (has_key (sinv (nkids n)) r) eqn:Hk.
    - apply forallb_rev.
    - rewrite look_nokey; [reflexivity|]. intros H. apply has_key_In in H. congruence. }
  rewrite (@starts_inv _ _ _ _ (sinv (nkids n))).
  destruct (starts _ _ (nstart n)) as [st|[|]]; try reflexivity.
  apply (@loop_inv _ _ _ _ _ Hacc).
Qed.

Lemma canon_refill_mem g E o :
  (forall k l, In (k, l) E -> memb cref_eqb o (g k) = memb cref_eqb o l) -> canon (refill g E) o = canon E o.
Proof.
  unfold canon, refill. induction E as [|[k l] r IH]; intros H; [reflexivity|]. cbn [map filter fst snd].
  rewrite (H k l (or_introl eq_refl)). destruct (memb cref_eqb o l); cbn [map fst]; rewrite IH; auto;
    intros k' l' Hin; apply H; right; exact Hin.
Qed.

Lemma sig_canon_relevel K : level_ok K = true -> sig_canon_level (relevel K) = true.
Proof.
  intros Hl. destruct (level_keys _ Hl) as [_ [_ [Nsi Nso]]].
  unfold sig_canon_level, relevel. rewrite soutv_put, sinv_put. apply forallb_forall. intros [k l] Hin.
  apply in_refill in Hin. destruct Hin as [-> _]. cbn [fst snd].
  rewrite canon_refill_mem.
  - clear. generalize (rev (canon (sinv K) k)). induction l as [|x r IH]; [reflexivity|]. cbn. rewrite cref_eqb_refl, IH. reflexivity.
  - intros k' l' Hin'. rewrite (look_In _ _ _ Nsi Hin').
    destruct (memb cref_eqb k l') eqn:M.
    + apply memb_In_c. apply -> in_rev. apply memb_In_c. exact M.
    + apply memb_nIn_c. intros H. apply in_rev in H. apply memb_In_c in H. congruence.
Qed.

Lemma sig_canon_ref n : wfb n = true -> sig_canon_level (nkids (ref n)) = true.
Proof.
  intros Hw. destruct (wfb_parts _ Hw) as [_ [Lk _]]. rewrite ref_eq. cbn [nkids].
  apply sig_canon_relevel. unfold level_ok. rewrite din_inner, dout_inner, sinv_inner, soutv_inner. exact Lk.
Qed.

Theorem exec_iter fuel : forall k n,
  wfb n = true -> sig_canon_level (nkids n) = true -> exec fuel (iter_ref k n) = exec fuel n.
Proof.
  induction k as [|k IH]; intros n Hw Hc; [reflexivity|]. cbn [iter_ref].
  rewrite IH; [apply exec_ref; auto | apply wfb_ref; exact Hw | apply sig_canon_ref; exact Hw].
Qed.

(* =================================================================== 13b. Node.load: the second, top-level get/set cycle *)
Definition adopted (m : node) : node :=
  Node (nlab m) (nkind m) (ncls m) (nfailed m) (nrunning m) (drop_live (nexe m))
       (nins m) (nouts m) (nsin m) (nsout m) (relevel (nkids m)) (nstart m) (nprov m).

Lemma setrcv_same cs l r c :
  NoDup (map dlab cs) -> findd l cs = Some c -> drcv c = r -> setrcv l r cs = cs.
Proof.
  intros Hn Hf Hv. apply findd_In in Hf. destruct Hf as [Hi Hl]. subst l.
  unfold setrcv. rewrite <- (map_id cs) at 2. apply map_ext_in. intros c' Hc'.
  destruct (String.eqb (dlab c') (dlab c)) eqn:E; [|reflexivity]. apply String.eqb_eq in E.
  assert (c' = c).
  { pose proof (findd_nodup _ _ Hn Hc') as A. pose proof (findd_nodup _ _ Hn Hi) as B. rewrite E in A. congruence. }
  subst c'. unfold set_drcv. rewrite <- Hv. destruct c; reflexivity.
Qed.

Lemma forge_ins_idem n : forall L : list (string * cref),
  NoDup (map dlab (nins n)) ->
  (forall lk : string * cref, In lk L -> exists c x c',
      findd (fst lk) (nins n) = Some c /\ drcv c = RChild (fst (snd lk)) (snd (snd lk)) /\
      findn (fst (snd lk)) (nkids n) = Some x /\ findd (snd (snd lk)) (nins x) = Some c' /\
      push_in x (snd (snd lk)) (dval c) = Ok x) ->
  forge_ins n L = Ok n.
Proof.
  induction L as [|lk r IH]; intros Hn Hq; [reflexivity|]. cbn [forge_ins].
  destruct (Hq lk (or_introl eq_refl)) as [c [x [c' [Fc [Er [Fk [Fc' Pq]]]]]]].
  unfold forge_in. rewrite Fc, Fk, Fc'.
  rewrite (@push_kid_quiet (nkids n) (fst (snd lk)) (snd (snd lk)) (dval c) x Fk Pq).
  rewrite (@setrcv_same (nins n) (fst lk) _ c Hn Fc Er). rewrite set_same.
  apply IH; auto. intros lk' H'. apply Hq. right. exact H'.
Qed.

Lemma set_out_kids_same n : set_nkids (set_nouts n (nouts n)) (nkids n) = n.
Proof. destruct n; reflexivity. Qed.

Lemma forge_outs_idem n : forall L : list (cref * string),
  NoDup (map dlab (nouts n)) -> NoDup (map nlab (nkids n)) ->
  (forall k, In k (nkids n) -> NoDup (map dlab (nouts k))) ->
  (forall lk : cref * string, In lk L -> exists k c c',
      findn (fst (fst lk)) (nkids n) = Some k /\ findd (snd (fst lk)) (nouts k) = Some c /\
      drcv c = RParent (snd lk) /\ findd (snd lk) (nouts n) = Some c' /\ dval c' = dval c) ->
  forge_outs n L = Ok n.
Proof.
  induction L as [|lk r IH]; intros Hn Hk Hko Hq; [reflexivity|]. cbn [forge_outs].
  destruct (Hq lk (or_introl eq_refl)) as [k [c [c' [Fk [Fc [Er [Fo Hv]]]]]]].
  unfold forge_out. rewrite Fk, Fc, Fo.
  rewrite (@setval_same (nouts n) (snd lk) (dval c) c' Hn Fo Hv).
  assert (Ek : map (fun k' => if String.eqb (nlab k') (fst (fst lk))
                              then set_nouts k' (setrcv (snd (fst lk)) (RParent (snd lk)) (nouts k')) else k') (nkids n)
               = nkids n).
  { rewrite <- (map_id (nkids n)) at 2. apply map_ext_in. intros k' Hk'.
    destruct (String.eqb (nlab k') (fst (fst lk))) eqn:E; [|reflexivity]. apply String.eqb_eq in E.
    pose proof (findn_In _ _ Fk) as [Hkin Hkl].
    assert (k' = k).
    { pose proof (findn_nodup _ _ Hk Hk') as A. pose proof (findn_nodup _ _ Hk Hkin) as B. rewrite E, <- Hkl in A. congruence. }
    subst k'. rewrite (@setrcv_same (nouts k) (snd (fst lk)) _ c (Hko k Hkin) Fc Er). destruct k; reflexivity. }
  rewrite Ek, set_out_kids_same. apply IH; auto. intros lk' H'. apply Hq. right. exact H'.
Qed.

Lemma put_put fi fo gi go fi' fo' gi' go' K :
  put fi fo gi go (put fi' fo' gi' go' K) = put fi fo gi go K.
Proof.
  unfold put. rewrite map_map. apply map_ext. intros k. unfold putk. cbn. rewrite !map_map. reflexivity.
Qed.

Lemma relevel_putk_lab K : map nlab (relevel K) = map nlab K.
Proof. unfold relevel, put. rewrite map_map. reflexivity. Qed.

Theorem adopt_exact m :
  wfb m = true -> own_ok m = true ->
  resolve_here m = true -> unlocked_here m = true -> synced_here m = true ->
  (forall k, In k (nkids m) -> allb resolve_here k = true) ->
  adopt m = Ok (adopted m).
Proof.
  intros Hw Ho Hr Hu Hs Hrk.
  destruct (wfb_parts _ Hw) as [Wk [Lk [Nk [Sk Ek]]]].
  destruct (level_keys _ Lk) as [Ndi [Ndo _]].
  unfold own_ok in Ho. apply andb_true_iff in Ho. destruct Ho as [Oi Oo]. apply nodupb_s in Oi, Oo.
  set (n0 := Node (nlab m) (nkind m) (ncls m) (nfailed m) (nrunning m) (drop_live (nexe m))
                  (nins m) (nouts m) (nsin m) (nsout m) (map clear_own (nkids m)) (nstart m) (nprov m)).
  assert (Hlev : forall il ol,
            (is_linked (nkind m) = true -> il = il_of (nins m) /\ ol = olinks_of (nkids m)) ->
            setstate_level n0 (if is_comp (nkind m) then pairs (din (nkids m)) else [])
                           (if is_comp (nkind m) then pairs (sinv (nkids m)) else []) il ol = Ok (adopted m)).
  { intros il ol Hil. unfold setstate_level. change (nkind n0) with (nkind m).
    change (nkids n0) with (map clear_own (nkids m)). change (nstart n0) with (nstart m).
    destruct (is_comp (nkind m)) eqn:Ec.
    2:{ unfold n0, adopted. rewrite (Ek eq_refl). reflexivity. }
    assert (Hst : forallb (fun l => match findn l (map clear_own (nkids m)) with Some _ => true | None => false end) (nstart m) = true).
    { apply forallb_forall. intros l Hl. rewrite findn_map by reflexivity.
      destruct (findn_mem _ _ (Sk l Hl)) as [k ->]. reflexivity. }
    rewrite Hst.
    destruct (@relink_level (nkids m) (map clear_own (nkids m)) Lk) as [K1 [R1 R2]].
    - rewrite map_map. apply map_ext. intros k. unfold clear_own. cbn. rewrite !map_map. reflexivity.
    - rewrite <- put_empty, din_put. apply keys_refill.
    - rewrite <- put_empty, dout_put. apply keys_refill.
    - rewrite <- put_empty, sinv_put. apply keys_refill.
    - rewrite <- put_empty, soutv_put. apply keys_refill.
    - rewrite R1, R2. rewrite <- put_empty, put_put. fold (relevel (nkids m)).
      change (set_nkids n0 (relevel (nkids m))) with (adopted m).
      destruct (is_linked (nkind m)) eqn:El; [|reflexivity].
      destruct (Hil eq_refl) as [-> ->].
      assert (Xk : forall c x, findn c (nkids m) = Some x ->
                   findn c (relevel (nkids m)) =
                   Some (putk (look (din (nkids m))) (canon (din (nkids m))) (fun i => rev (look (sinv (nkids m)) i))
                              (fun o => rev (canon (sinv (nkids m)) o)) x)).
      { intros c x F. unfold relevel, put. rewrite findn_map by reflexivity. rewrite F. reflexivity. }
      rewrite forge_ins_idem.
      + apply forge_outs_idem.
        * exact Oo.
        * change (nkids (adopted m)) with (relevel (nkids m)). rewrite relevel_putk_lab. exact Nk.
        * change (nkids (adopted m)) with (relevel (nkids m)). intros x Hx. unfold relevel, put in Hx.
          apply in_map_iff in Hx. destruct Hx as [k [<- Hk]]. unfold putk. cbn [nouts]. rewrite map_map.
          eapply kid_outs_nodup; eauto.
        * intros [[kc cl] out] Hlk. cbn [fst snd]. apply in_olinks in Hlk.
          destruct Hlk as [k [c [Hk [Hc [Ekey Rl]]]]]. inversion Ekey; subst kc cl.
          unfold resolve_here in Hr. rewrite El in Hr. apply andb_true_iff in Hr. destruct Hr as [_ Hr].
          pose proof (forallb_In _ _ _ (forallb_In _ _ _ Hr Hk) Hc) as R0. cbn in R0.
          unfold synced_here in Hs. apply andb_true_iff in Hs. destruct Hs as [_ Hs].
          pose proof (forallb_In _ _ _ (forallb_In _ _ _ Hs Hk) Hc) as S0. cbn in S0.
          destruct (drcv c) as [| |o] eqn:Er; cbn in Rl; try discriminate. inversion Rl; subst o.
          unfold has_d in R0. destruct (findd out (nouts m)) as [c'|] eqn:Fo; [|discriminate].
          apply slot_eqb_true in S0.
          eexists _, _, c'. change (nkids (adopted m)) with (relevel (nkids m)).
          split; [apply Xk; apply findn_nodup; eauto|].
          split; [unfold putk; cbn [nouts]; rewrite findd_map by reflexivity;
                  rewrite (findd_nodup _ _ (kid_outs_nodup _ _ Ndo Hk) Hc); reflexivity|].
          cbn [set_dcon drcv dval]. repeat split; auto.
      + exact Oi.
      + intros lk Hlk. unfold il_of in Hlk. apply in_map_iff in Hlk. destruct Hlk as [c [<- Hc]]. cbn [fst snd].
        unfold resolve_here in Hr. rewrite El in Hr. apply andb_true_iff in Hr. destruct Hr as [Hr _].
        pose proof (forallb_In _ _ _ Hr Hc) as R. cbn in R.
        destruct (drcv c) as [|k l|] eqn:Er; try discriminate. cbn [fst snd].
        unfold has_in in R. destruct (findn k (nkids m)) as [k0|] eqn:Fk; [|discriminate].
        destruct (findd l (nins k0)) as [c0|] eqn:Fc; [|discriminate].
        pose proof (findn_In _ _ Fk) as [Hk0 _].
        eexists c, _, (set_dcon c0 _). change (nins (adopted m)) with (nins m).
        change (nkids (adopted m)) with (relevel (nkids m)).
        split; [apply findd_nodup; auto|]. split; [exact Er|]. split; [apply Xk; exact Fk|].
        split; [unfold putk; cbn [nins]; rewrite findd_map by reflexivity; rewrite Fc; reflexivity|].
        eapply push_quiet.
        * rewrite (allb_putk insokb insok_putk). apply wfb_insok; [exact (forallb_In _ _ _ Wk Hk0)|].
          unfold insokb. apply nodupb_s. eapply kid_ins_nodup; eauto.
        * rewrite (allb_putk resolve_here resolve_putk). apply Hrk. exact Hk0.
        * unfold putk. cbn [nins]. rewrite findd_map by reflexivity. rewrite Fc. reflexivity.
        * rewrite chain_putk. unfold quiet.
          unfold unlocked_here in Hu. pose proof (forallb_In _ _ _ Hu Hc) as U. cbn in U. rewrite Er in U.
          unfold synced_here in Hs. apply andb_true_iff in Hs. destruct Hs as [Hs _].
          pose proof (forallb_In _ _ _ Hs Hc) as S. cbn in S. rewrite Er in S.
          unfold chain_kid in U, S. rewrite Fk in U, S.
          apply forallb_forall. intros h Hh. rewrite (forallb_In _ _ _ U Hh), (forallb_In _ _ _ S Hh). reflexivity. }
  unfold adopt. fold n0. destruct (is_linked (nkind m)) eqn:El.
  - rewrite ilinks_of_ok.
    + apply Hlev. auto.
    + intros c Hc. unfold resolve_here in Hr. rewrite El in Hr. apply andb_true_iff in Hr. destruct Hr as [Hr _].
      pose proof (forallb_In _ _ _ Hr Hc) as R. cbn in R. destruct (drcv c) as [|k l|]; try discriminate. eauto.
  - apply Hlev. discriminate.
Qed.

Lemma relevel_tables K : level_ok K = true ->
  din (relevel K) = din K /\ tperm (dout K) (dout (relevel K)) /\
  tperm (sinv K) (sinv (relevel K)) /\ tperm (soutv K) (soutv (relevel K)).
Proof.
  intros Lk. destruct (level_ok_spec _ Lk) as [[Tdi [Tdo [Tsi Tso]]] [[Sd1 Sd2] [Ss1 Ss2]]].
  destruct (level_keys _ Lk) as [Ndi [Ndo [Nsi Nso]]].
  unfold relevel. rewrite din_put, dout_put, sinv_put, soutv_put. repeat split.
  - apply refill_look. exact Ndi.
  - apply tperm_refill_l. intros k l Hin. exact (@perm_canon (din K) (dout K) k l Tdi Tdo Sd1 Sd2 Hin).
  - apply tperm_refill_l. intros k l Hin. rewrite (look_In _ _ _ Nsi Hin). apply Permutation_rev.
  - apply tperm_refill_l. intros k l Hin. eapply Permutation_trans;
      [exact (@perm_canon (sinv K) (soutv K) k l Tsi Tso Ss1 Ss2 Hin) | apply Permutation_rev].
Qed.

Lemma forall2_putk A B f1 f2 f3 f4 :
  Forall2 same A B -> Forall2 same A (map (putk f1 f2 f3 f4) B).
Proof. induction 1; cbn [map]; constructor; auto. apply same_putk. assumption. Qed.

Lemma same_adopted a m : same a m -> level_ok (nkids m) = true -> same a (adopted m).
Proof.
  intros S Lk. destruct (relevel_tables _ Lk) as [D [T1 [T2 T3]]].
  rewrite same_eq in *. unfold adopted.
  cbn [nlab nkind ncls nfailed nrunning nexe nins nouts nsin nsout nkids nstart nprov].
  destruct S as [A1 [A2 [A3 [A4 [A5 [A6 [A7 [A8 [A9 [A10 [A11 [A12 [A13 [A14 [A15 [A16 A17]]]]]]]]]]]]]]]].
  repeat split; auto.
  - rewrite <- A6. destruct (nexe a); reflexivity.
  - unfold relevel, put. apply forall2_putk. exact A11.
  - rewrite D. exact A12.
  - eapply tperm_trans; eauto.
  - eapply tperm_trans; eauto.
  - eapply tperm_trans; eauto.
Qed.

Lemma adopted_no_own m : no_own_conns m -> no_own_conns (adopted m).
Proof. intros H. exact H. Qed.

Theorem trip_file_exact c n :
  wfb n = true -> own_ok n = true ->
  links_resolve n = true -> links_unlocked n = true -> links_synced n = true -> cown c = true ->
  trip_file (c, n) = Ok (mkC None (root_det c) false, adopted (ref n)).
Proof.
  intros Hw Ho Hr Hu Hs Hc. unfold trip_file. rewrite trip_pickle_exact; auto.
  assert (Hr' : links_resolve (ref n) = true) by (unfold links_resolve; rewrite resolve_ref; exact Hr).
  assert (Hu' : links_unlocked (ref n) = true) by (unfold links_unlocked; rewrite unlocked_ref; exact Hu).
  assert (Hs' : links_synced (ref n) = true) by (unfold links_synced; rewrite synced_ref; exact Hs).
  unfold links_resolve, links_unlocked, links_synced in Hr', Hu', Hs'. rewrite allb_eq in Hr', Hu', Hs'.
  apply andb_true_iff in Hr', Hu', Hs'. destruct Hr' as [R1 R2], Hu' as [U1 _], Hs' as [S1 _].
  rewrite adopt_exact; auto.
  - apply wfb_ref; exact Hw.
  - rewrite own_ok_ref; exact Ho.
  - intros k Hk. exact (forallb_In _ _ _ R2 Hk).
Qed.

(* =================================================================== 13c. every graph built by the operations is well formed *)
Definition oview (k : node) :=
  (nlab k, map (fun c => (dlab c, dcon c)) (nins k), map (fun c => (dlab c, dcon c)) (nouts k),
   map (fun c => (slab c, scon c)) (nsin k), map (fun c => (slab c, scon c)) (nsout k)).

Lemma oview_tables K K' : map oview K = map oview K' ->
  din K = din K' /\ dout K = dout K' /\ sinv K = sinv K' /\ soutv K = soutv K' /\ map nlab K = map nlab K'.
Proof.
  revert K'. induction K as [|k r IH]; intros [|k' r'] H; try discriminate.
  - repeat split.
  - cbn [map] in H.
    pose proof (f_equal (fun l => hd (oview k) l) H) as H1. cbn [hd] in H1.
    pose proof (f_equal (@tl _) H) as H2. cbn [tl] in H2.
    destruct (IH _ H2) as [A [B [C [D E]]]].
    unfold oview in H1. injection H1 as L I O SI SO.
    unfold din, dout, sinv, soutv in *. cbn [flat_map map]. rewrite A, B, C, D, E, L.
    assert (X : forall (la lb : string) (a b : list dchan),
               map (fun c => (dlab c, dcon c)) a = map (fun c => (dlab c, dcon c)) b ->
               map (fun c => ((la, dlab c), dcon c)) a = map (fun c => ((la, dlab c), dcon c)) b).
    { intros la lb a. induction a as [|x t IHt]; intros [|y u] Hm; try discriminate; [reflexivity|].
      cbn [map] in *. injection Hm as M1 M2 M3. rewrite M1, M2. f_equal. apply IHt. exact M3. }
    assert (Y : forall (la : string) (a b : list schan),
               map (fun c => (slab c, scon c)) a = map (fun c => (slab c, scon c)) b ->
               map (fun c => ((la, slab c), scon c)) a = map (fun c => ((la, slab c), scon c)) b).
    { intros la a. induction a as [|x t IHt]; intros [|y u] Hm; try discriminate; [reflexivity|].
      cbn [map] in *. injection Hm as M1 M2 M3. rewrite M1, M2. f_equal. apply IHt. exact M3. }
    rewrite (X (nlab k') (nlab k') _ _ I), (X (nlab k') (nlab k') _ _ O), (Y (nlab k') _ _ SI), (Y (nlab k') _ _ SO).
    repeat split; reflexivity.
Qed.

Lemma level_ok_oview K K' : map oview K = map oview K' -> level_ok K = level_ok K'.
Proof. intros H. destruct (oview_tables _ _ H) as [A [B [C [D _]]]]. unfold level_ok. rewrite A, B, C, D. reflexivity. Qed.

Lemma oview_set_nkids n x : oview (set_nkids n x) = oview n. Proof. destruct n; reflexivity. Qed.

Lemma at_path_pres f :
  (forall m, wfb m = true -> wfb (f m) = true) -> (forall m, oview (f m) = oview m) ->
  forall path n, wfb n = true -> wfb (at_path path f n) = true /\ oview (at_path path f n) = oview n.
Proof.
  intros Hf Ho. induction path as [|l r IH]; intros n Hw; cbn [at_path]; [split; auto|].
  split; [|apply oview_set_nkids].
  destruct (wfb_parts _ Hw) as [Wk [Lk [Nk [Sk Ek]]]].
  set (g := fun k => if String.eqb (nlab k) l then at_path r f k else k).
  assert (G : forall k, In k (nkids n) -> wfb (g k) = true /\ oview (g k) = oview k).
  { intros k Hk. unfold g. destruct (String.eqb (nlab k) l); [|split; [exact (forallb_In _ _ _ Wk Hk)|reflexivity]].
    apply IH. exact (forallb_In _ _ _ Wk Hk). }
  assert (Ov : map oview (map g (nkids n)) = map oview (nkids n)).
  { rewrite map_map. apply map_ext_in. intros k Hk. apply G. exact Hk. }
  rewrite wfb_eq. replace (nkids (set_nkids n (map g (nkids n)))) with (map g (nkids n)) by (destruct n; reflexivity).
  replace (nstart (set_nkids n (map g (nkids n)))) with (nstart n) by (destruct n; reflexivity).
  replace (nkind (set_nkids n (map g (nkids n)))) with (nkind n) by (destruct n; reflexivity).
  destruct (oview_tables _ _ Ov) as [_ [_ [_ [_ Lab]]]]. rewrite Lab, (level_ok_oview _ _ Ov), Lk.
  rewrite !andb_true_iff. repeat split.
  - rewrite forallb_map. apply forallb_forall. intros k Hk. apply G. exact Hk.
  - apply nodupb_s. exact Nk.
  - apply forallb_forall. intros x Hx. apply mems_In. apply Sk. exact Hx.
  - destruct (is_comp (nkind n)) eqn:Ec; [reflexivity|]. rewrite (Ek eq_refl). reflexivity.
Qed.

(* a composite is the put of its own tables *)
Lemma self_put K : NoDup (keys (din K)) -> NoDup (keys (dout K)) -> NoDup (keys (sinv K)) -> NoDup (keys (soutv K)) ->
  put (look (din K)) (look (dout K)) (look (sinv K)) (look (soutv K)) K = K.
Proof.
  intros A B C D. unfold put. transitivity (map (fun x : node => x) K); [|apply map_id].
  apply map_ext_in. intros k Hk. unfold putk.
  transitivity (Node (nlab k) (nkind k) (ncls k) (nfailed k) (nrunning k) (nexe k) (nins k) (nouts k) (nsin k) (nsout k)
                     (nkids k) (nstart k) (nprov k)); [|symmetry; apply node_eta].
  f_equal.
  - rewrite <- (map_id (nins k)) at 2. apply map_ext_in. intros c Hc.
    rewrite (@look_In (din K) (nlab k, dlab c) (dcon c) A); [destruct c; reflexivity|].
    unfold din. apply in_flat_map. exists k. split; [exact Hk|]. apply in_map_iff. exists c. auto.
  - rewrite <- (map_id (nouts k)) at 2. apply map_ext_in. intros c Hc.
    rewrite (@look_In (dout K) (nlab k, dlab c) (dcon c) B); [destruct c; reflexivity|].
    unfold dout. apply in_flat_map. exists k. split; [exact Hk|]. apply in_map_iff. exists c. auto.
  - rewrite <- (map_id (nsin k)) at 2. apply map_ext_in. intros c Hc.
    rewrite (@look_In (sinv K) (nlab k, slab c) (scon c) C); [destruct c; reflexivity|].
    unfold sinv. apply in_flat_map. exists k. split; [exact Hk|]. apply in_map_iff. exists c. auto.
  - rewrite <- (map_id (nsout k)) at 2. apply map_ext_in. intros c Hc.
    rewrite (@look_In (soutv K) (nlab k, slab c) (scon c) D); [destruct c; reflexivity|].
    unfold soutv. apply in_flat_map. exists k. split; [exact Hk|]. apply in_map_iff. exists c. auto.
Qed.

Definition rmf (f : cref -> list cref) (i o : cref) (x : cref) : list cref :=
  if cref_eqb x i then remove1 cref_eqb o (f x) else f x.

(* the two sides of a table pair after one edit at (i, o) keep the invariant *)
Lemma in_remove1 x y (l : list cref) : In x (remove1 cref_eqb y l) -> In x l.
Proof.
  induction l as [|z r IH]; cbn [remove1]; [tauto|]. destruct (cref_eqb y z); [intros H; right; exact H|].
  intros [H|H]; [left; exact H | right; auto].
Qed.
Lemma in_remove1_neq x y (l : list cref) : x <> y -> In x l -> In x (remove1 cref_eqb y l).
Proof.
  intros Hn. induction l as [|z r IH]; cbn [remove1]; [tauto|]. destruct (cref_eqb y z) eqn:E.
  - apply cref_eqb_eq in E; subst z. intros [H|H]; [congruence|exact H].
  - intros [H|H]; [left; exact H | right; auto].
Qed.
Lemma nodup_remove1 y (l : list cref) : NoDup l -> NoDup (remove1 cref_eqb y l).
Proof.
  induction 1 as [|z r Hz Hn IH]; cbn [remove1]; [constructor|]. destruct (cref_eqb y z); [exact Hn|].
  constructor; [|exact IH]. intros H. apply Hz. eapply in_remove1; eauto.
Qed.
Lemma notin_remove1 y (l : list cref) : NoDup l -> ~ In y (remove1 cref_eqb y l).
Proof.
  induction 1 as [|z r Hz Hn IH]; cbn [remove1]; [tauto|]. destruct (cref_eqb y z) eqn:E.
  - apply cref_eqb_eq in E; subst z. exact Hz.
  - intros [H|H]; [subst; rewrite cref_eqb_refl in E; discriminate | auto].
Qed.

Section EditPair.
  Variables (E F : table) (i o : cref).
  Hypothesis TE : table_ok E = true.
  Hypothesis TF : table_ok F = true.
  Hypothesis S1 : sym_half E F = true.
  Hypothesis S2 : sym_half F E = true.

  Lemma look_entry T k l : NoDup (keys T) -> In (k, l) T -> look T k = l.
  Proof. apply look_In. Qed.

  Lemma edit_ok (ge gf : list cref -> list cref) :
    NoDup (ge (look E i)) -> NoDup (gf (look F o)) ->
    (* membership after the edit *)
    (forall x, In x (ge (look E i)) <-> (In x (look E i) /\ x <> o) \/ (x = o /\ In o (ge (look E i)))) ->
    (forall x, In x (gf (look F o)) <-> (In x (look F o) /\ x <> i) \/ (x = i /\ In i (gf (look F o)))) ->
    (In o (ge (look E i)) <-> In i (gf (look F o))) ->
    has_key E i = true -> has_key F o = true ->
    let E' := refill (fun x => if cref_eqb x i then ge (look E x) else look E x) E in
    let F' := refill (fun x => if cref_eqb x o then gf (look F x) else look F x) F in
    table_ok E' = true /\ table_ok F' = true /\ sym_half E' F' = true /\ sym_half F' E' = true.
  Proof.
    intros Ge Gf Me Mf Mx Ki Ko E' F'.
    apply table_ok_spec in TE, TF. destruct TE as [NE LE], TF as [NF LF].
    rewrite sym_half_spec in S1, S2.
    assert (LkE : forall k l, In (k, l) E -> look E k = l) by (intros; apply look_In; auto).
    assert (LkF : forall k l, In (k, l) F -> look F k = l) by (intros; apply look_In; auto).
    assert (KE : forall k, In k (keys E) -> exists l, In (k, l) E).
    { intros k Hk. unfold keys in Hk. apply in_map_iff in Hk. destruct Hk as [[k' l] [<- H]]. eauto. }
    assert (KF : forall k, In k (keys F) -> exists l, In (k, l) F).
    { intros k Hk. unfold keys in Hk. apply in_map_iff in Hk. destruct Hk as [[k' l] [<- H]]. eauto. }
    repeat split.
    - apply table_ok_spec. unfold E'. rewrite keys_refill. split; [exact NE|].
      intros [k l] H. apply in_refill in H. destruct H as [-> Hk]. cbn [snd].
      destruct (KE k Hk) as [l0 Hl0].
      destruct (cref_eqb k i) eqn:Eki; [apply cref_eqb_eq in Eki; subst k; exact Ge|].
      rewrite (LkE _ _ Hl0). exact (LE _ Hl0).
    - apply table_ok_spec. unfold F'. rewrite keys_refill. split; [exact NF|].
      intros [k l] H. apply in_refill in H. destruct H as [-> Hk]. cbn [snd].
      destruct (KF k Hk) as [l0 Hl0].
      destruct (cref_eqb k o) eqn:Eko; [apply cref_eqb_eq in Eko; subst k; exact Gf|].
      rewrite (LkF _ _ Hl0). exact (LF _ Hl0).
    - apply sym_half_spec. intros k l x Hkl Hx. unfold E' in Hkl. apply in_refill in Hkl. destruct Hkl as [-> Hk].
      destruct (KE k Hk) as [l0 Hl0].
      assert (Hx0 : (In x l0 /\ ~ (k = i /\ x = o)) \/ (k = i /\ x = o /\ In o (ge (look E i)))).
      { destruct (cref_eqb k i) eqn:Eki.
        - apply cref_eqb_eq in Eki. subst k. rewrite (LkE _ _ Hl0) in *. apply Me in Hx.
          destruct Hx as [[A B]|[A B]]; [left; split; [exact A|intros [_ C]; contradiction] | right; auto].
        - rewrite (LkE _ _ Hl0) in Hx. left. split; [exact Hx|]. apply cref_eqb_neq in Eki. intros [C _]; contradiction. }
      unfold F'. rewrite assoc_refill.
      destruct Hx0 as [[A B]|[A [B C]]].
      + destruct (S1 _ _ _ Hl0 A) as [l' [P Q]]. unfold has_key. rewrite P. eexists. split; [reflexivity|].
        pose proof (assoc_Some_In _ _ P) as Pin. rewrite (LkF _ _ Pin).
        destruct (cref_eqb x o) eqn:Exo; [|exact Q]. apply cref_eqb_eq in Exo. subst x.
        rewrite <- (LkF _ _ Pin). apply Mf. left. split; [rewrite (LkF _ _ Pin); exact Q|].
        intros ->. apply B. auto.
      + subst k x. rewrite Ko. eexists. split; [reflexivity|]. rewrite cref_eqb_refl. apply Mx. exact C.
    - apply sym_half_spec. intros k l x Hkl Hx. unfold F' in Hkl. apply in_refill in Hkl. destruct Hkl as [-> Hk].
      destruct (KF k Hk) as [l0 Hl0].
      assert (Hx0 : (In x l0 /\ ~ (k = o /\ x = i)) \/ (k = o /\ x = i /\ In i (gf (look F o)))).
      { destruct (cref_eqb k o) eqn:Eko.
        - apply cref_eqb_eq in Eko. subst k. rewrite (LkF _ _ Hl0) in *. apply Mf in Hx.
          destruct Hx as [[A B]|[A B]]; [left; split; [exact A|intros [_ C]; contradiction] | right; auto].
        - rewrite (LkF _ _ Hl0) in Hx. left. split; [exact Hx|]. apply cref_eqb_neq in Eko. intros [C _]; contradiction. }
      unfold E'. rewrite assoc_refill.
      destruct Hx0 as [[A B]|[A [B C]]].
      + destruct (S2 _ _ _ Hl0 A) as [l' [P Q]]. unfold has_key. rewrite P. eexists. split; [reflexivity|].
        pose proof (assoc_Some_In _ _ P) as Pin. rewrite (LkE _ _ Pin).
        destruct (cref_eqb x i) eqn:Exi; [|exact Q]. apply cref_eqb_eq in Exi. subst x.
        rewrite <- (LkE _ _ Pin). apply Me. left. split; [rewrite (LkE _ _ Pin); exact Q|].
        intros ->. apply B. auto.
      + subst k x. rewrite Ki. eexists. split; [reflexivity|]. rewrite cref_eqb_refl. apply Mx. exact C.
  Qed.
End EditPair.

(* ---- connect / disconnect on the tables ---- *)
Lemma put_disc_d fi fo gi go K i o :
  disc_d (put fi fo gi go K) i o = put (rmf fi i o) (rmf fo o i) gi go K.
Proof.
  unfold disc_d, put. rewrite map_map. apply map_ext. intros k. destruct i as [i1 i2], o as [o1 o2].
  cbn [fst snd]. unfold rm_con.
  transitivity (Node (nlab k) (nkind k) (ncls k) (nfailed k) (nrunning k) (nexe k)
                     (map (fun c => set_dcon c (rmf fi (i1, i2) (o1, o2) (nlab k, dlab c))) (nins k))
                     (map (fun c => set_dcon c (rmf fo (o1, o2) (i1, i2) (nlab k, dlab c))) (nouts k))
                     (map (fun c => set_scon c (gi (nlab k, slab c))) (nsin k))
                     (map (fun c => set_scon c (go (nlab k, slab c))) (nsout k))
                     (nkids k) (nstart k) (nprov k)); [|reflexivity].
  cbn [putk nlab]. destruct (String.eqb (nlab k) i1) eqn:E1;
    [replace (nlab (set_nins (putk fi fo gi go k) (map (fun c => if String.eqb (dlab c) i2 then set_dcon c (remove1 cref_eqb (o1, o2) (dcon c)) else c) (nins (putk fi fo gi go k))))) with (nlab k) by reflexivity|];
    destruct (String.eqb (nlab k) o1) eqn:E2;
    unfold set_nouts, set_nins, putk;
    cbn [nlab nkind ncls nfailed nrunning nexe nins nouts nsin nsout nkids nstart nprov];
    rewrite ?E2;
    cbn [nlab nkind ncls nfailed nrunning nexe nins nouts nsin nsout nkids nstart nprov];
    f_equal; rewrite ?map_map; apply map_ext; intros c; unfold rmf; rewrite !cref_pair_eqb, ?E1, ?E2;
    cbn [set_dcon dlab dcon andb];
    try (destruct (String.eqb (dlab c) i2)); try (destruct (String.eqb (dlab c) o2)); reflexivity.
Qed.
Lemma put_disc_s fi fo gi go K i o :
  disc_s (put fi fo gi go K) i o = put fi fo (rmf gi i o) (rmf go o i) K.
Proof.
  unfold disc_s, put. rewrite map_map. apply map_ext. intros k. destruct i as [i1 i2], o as [o1 o2].
  cbn [fst snd]. unfold rm_con.
  transitivity (Node (nlab k) (nkind k) (ncls k) (nfailed k) (nrunning k) (nexe k)
                     (map (fun c => set_dcon c (fi (nlab k, dlab c))) (nins k))
                     (map (fun c => set_dcon c (fo (nlab k, dlab c))) (nouts k))
                     (map (fun c => set_scon c (rmf gi (i1, i2) (o1, o2) (nlab k, slab c))) (nsin k))
                     (map (fun c => set_scon c (rmf go (o1, o2) (i1, i2) (nlab k, slab c))) (nsout k))
                     (nkids k) (nstart k) (nprov k)); [|reflexivity].
  cbn [putk nlab]. destruct (String.eqb (nlab k) i1) eqn:E1;
    [replace (nlab (set_nsin (putk fi fo gi go k) (map (fun c => if String.eqb (slab c) i2 then set_scon c (remove1 cref_eqb (o1, o2) (scon c)) else c) (nsin (putk fi fo gi go k))))) with (nlab k) by reflexivity|];
    destruct (String.eqb (nlab k) o1) eqn:E2;
    unfold set_nsout, set_nsin, putk;
    cbn [nlab nkind ncls nfailed nrunning nexe nins nouts nsin nsout nkids nstart nprov];
    rewrite ?E2;
    cbn [nlab nkind ncls nfailed nrunning nexe nins nouts nsin nsout nkids nstart nprov];
    f_equal; rewrite ?map_map; apply map_ext; intros c; unfold rmf; rewrite !cref_pair_eqb, ?E1, ?E2;
    cbn [set_scon slab scon andb];
    try (destruct (String.eqb (slab c) i2)); try (destruct (String.eqb (slab c) o2)); reflexivity.
Qed.

Lemma level_ok_put fi fo gi go K :
  table_ok (refill fi (din K)) = true -> table_ok (refill fo (dout K)) = true ->
  table_ok (refill gi (sinv K)) = true -> table_ok (refill go (soutv K)) = true ->
  sym_half (refill fi (din K)) (refill fo (dout K)) = true -> sym_half (refill fo (dout K)) (refill fi (din K)) = true ->
  sym_half (refill gi (sinv K)) (refill go (soutv K)) = true -> sym_half (refill go (soutv K)) (refill gi (sinv K)) = true ->
  level_ok (put fi fo gi go K) = true.
Proof.
  intros. unfold level_ok. rewrite din_put, dout_put, sinv_put, soutv_put.
  rewrite !andb_true_iff. repeat split; assumption.
Qed.

Lemma has_key_look_in (E : table) k : NoDup (keys E) -> has_key E k = true -> In (k, look E k) E.
Proof.
  intros Hn H. unfold has_key in H. destruct (assoc cref_eqb k E) as [l|] eqn:A; [|discriminate].
  unfold look. rewrite A. apply assoc_Some_In. exact A.
Qed.

Lemma sym_notin (E F : table) i o :
  table_ok F = true -> sym_half F E = true -> has_key E i = true -> NoDup (keys E) ->
  ~ In o (look E i) -> ~ In i (look F o).
Proof.
  intros TF S2 Ki NE Hn Hin. apply table_ok_spec in TF. destruct TF as [NF _]. rewrite sym_half_spec in S2.
  destruct (has_key F o) eqn:Ko.
  - pose proof (@has_key_look_in _ _ NF Ko) as Ho. destruct (S2 _ _ _ Ho Hin) as [l' [A B]].
    apply Hn. unfold look. rewrite A. exact B.
  - rewrite look_nokey in Hin; [contradiction|]. intros H. apply has_key_In in H. congruence.
Qed.

Lemma connect_d_level K i o K' : level_ok K = true -> connect_d K (i, o) = Ok K' -> level_ok K' = true.
Proof.
  intros Lk. destruct (level_ok_spec _ Lk) as [[Tdi [Tdo [Tsi Tso]]] [[Sd1 Sd2] [Ss1 Ss2]]].
  destruct (level_keys _ Lk) as [Ndi [Ndo [Nsi Nso]]].
  unfold connect_d. cbn [fst snd].
  destruct (assoc cref_eqb i (din K)) as [ci|] eqn:Ai; [|discriminate].
  destruct (assoc cref_eqb o (dout K)) as [co|] eqn:Ao; [|discriminate].
  destruct (memb cref_eqb o ci) eqn:M; intros H; inversion H; subst K'; [exact Lk|].
  assert (Ki : has_key (din K) i = true) by (unfold has_key; rewrite Ai; reflexivity).
  assert (Ko : has_key (dout K) o = true) by (unfold has_key; rewrite Ao; reflexivity).
  assert (Li : look (din K) i = ci) by (unfold look; rewrite Ai; reflexivity).
  apply memb_nIn_c in M.
  assert (Mi : ~ In o (look (din K) i)) by (rewrite Li; exact M).
  assert (Mo : ~ In i (look (dout K) o)) by (eapply sym_notin; eauto).
  rewrite <- (@self_put _ Ndi Ndo Nsi Nso) at 1. rewrite put_upd_din, put_upd_dout.
  apply table_ok_spec in Tdi as Tdi', Tdo as Tdo'. destruct Tdi' as [_ Ldi], Tdo' as [_ Ldo].
  destruct (@edit_ok (din K) (dout K) i o Tdi Tdo Sd1 Sd2 (cons o) (cons i)) as [A1 [A2 [A3 A4]]]; auto.
  - constructor; [exact Mi|]. exact (Ldi _ (@has_key_look_in _ _ Ndi Ki)).
  - constructor; [exact Mo|]. exact (Ldo _ (@has_key_look_in _ _ Ndo Ko)).
  - intros x. cbn [In]. split.
    + intros [<-|Hx]; [right; auto | left; split; [exact Hx|]]. intros ->. contradiction.
    + intros [[Hx _]|[-> _]]; auto.
  - intros x. cbn [In]. split.
    + intros [<-|Hx]; [right; auto | left; split; [exact Hx|]]. intros ->. contradiction.
    + intros [[Hx _]|[-> _]]; auto.
  - cbn [In]. tauto.
  - apply level_ok_put; try assumption.
    + rewrite (@refill_look _ Nsi). exact Tsi.
    + rewrite (@refill_look _ Nso). exact Tso.
    + rewrite (@refill_look _ Nsi), (@refill_look _ Nso). exact Ss1.
    + rewrite (@refill_look _ Nsi), (@refill_look _ Nso). exact Ss2.
Qed.

Lemma connect_s_level K i o K' : level_ok K = true -> connect_s K (i, o) = Ok K' -> level_ok K' = true.
Proof.
  intros Lk. destruct (level_ok_spec _ Lk) as [[Tdi [Tdo [Tsi Tso]]] [[Sd1 Sd2] [Ss1 Ss2]]].
  destruct (level_keys _ Lk) as [Ndi [Ndo [Nsi Nso]]].
  unfold connect_s. cbn [fst snd].
  destruct (assoc cref_eqb i (sinv K)) as [ci|] eqn:Ai; [|discriminate].
  destruct (assoc cref_eqb o (soutv K)) as [co|] eqn:Ao; [|discriminate].
  destruct (memb cref_eqb o ci) eqn:M; intros H; inversion H; subst K'; [exact Lk|].
  assert (Ki : has_key (sinv K) i = true) by (unfold has_key; rewrite Ai; reflexivity).
  assert (Ko : has_key (soutv K) o = true) by (unfold has_key; rewrite Ao; reflexivity).
  assert (Li : look (sinv K) i = ci) by (unfold look; rewrite Ai; reflexivity).
  apply memb_nIn_c in M.
  assert (Mi : ~ In o (look (sinv K) i)) by (rewrite Li; exact M).
  assert (Mo : ~ In i (look (soutv K) o)) by (eapply sym_notin; eauto).
  rewrite <- (@self_put _ Ndi Ndo Nsi Nso) at 1. rewrite put_upd_sin, put_upd_sout.
  apply table_ok_spec in Tsi as Tsi', Tso as Tso'. destruct Tsi' as [_ Lsi], Tso' as [_ Lso].
  destruct (@edit_ok (sinv K) (soutv K) i o Tsi Tso Ss1 Ss2 (cons o) (cons i)) as [A1 [A2 [A3 A4]]]; auto.
  - constructor; [exact Mi|]. exact (Lsi _ (@has_key_look_in _ _ Nsi Ki)).
  - constructor; [exact Mo|]. exact (Lso _ (@has_key_look_in _ _ Nso Ko)).
  - intros x. cbn [In]. split.
    + intros [<-|Hx]; [right; auto | left; split; [exact Hx|]]. intros ->. contradiction.
    + intros [[Hx _]|[-> _]]; auto.
  - intros x. cbn [In]. split.
    + intros [<-|Hx]; [right; auto | left; split; [exact Hx|]]. intros ->. contradiction.
    + intros [[Hx _]|[-> _]]; auto.
  - cbn [In]. tauto.
  - apply level_ok_put; try assumption.
    + rewrite (@refill_look _ Ndi). exact Tdi.
    + rewrite (@refill_look _ Ndo). exact Tdo.
    + rewrite (@refill_look _ Ndi), (@refill_look _ Ndo). exact Sd1.
    + rewrite (@refill_look _ Ndi), (@refill_look _ Ndo). exact Sd2.
Qed.

Lemma remove_mem (L : list cref) y : NoDup L ->
  forall x, In x (remove1 cref_eqb y L) <-> (In x L /\ x <> y) \/ (x = y /\ In y (remove1 cref_eqb y L)).
Proof.
  intros Hn x. split.
  - intros Hx. left. split; [eapply in_remove1; eauto|]. intros ->. exact (notin_remove1 y Hn Hx).
  - intros [[Hx Hne]|[-> Hy]]; [apply in_remove1_neq; auto | exact Hy].
Qed.

Lemma disc_d_level K i o :
  level_ok K = true -> has_key (din K) i = true -> has_key (dout K) o = true -> level_ok (disc_d K i o) = true.
Proof.
  intros Lk Ki Ko. destruct (level_ok_spec _ Lk) as [[Tdi [Tdo [Tsi Tso]]] [[Sd1 Sd2] [Ss1 Ss2]]].
  destruct (level_keys _ Lk) as [Ndi [Ndo [Nsi Nso]]].
  rewrite <- (@self_put _ Ndi Ndo Nsi Nso) at 1. rewrite put_disc_d.
  apply table_ok_spec in Tdi as Tdi', Tdo as Tdo'. destruct Tdi' as [_ Ldi], Tdo' as [_ Ldo].
  pose proof (Ldi _ (@has_key_look_in _ _ Ndi Ki)) as Ni. pose proof (Ldo _ (@has_key_look_in _ _ Ndo Ko)) as No.
  cbn [snd] in Ni, No.
  destruct (@edit_ok (din K) (dout K) i o Tdi Tdo Sd1 Sd2 (remove1 cref_eqb o) (remove1 cref_eqb i)) as [A1 [A2 [A3 A4]]]; auto.
  - apply nodup_remove1. exact Ni.
  - apply nodup_remove1. exact No.
  - apply remove_mem. exact Ni.
  - apply remove_mem. exact No.
  - split; intros H; exfalso; [exact (notin_remove1 o Ni H) | exact (notin_remove1 i No H)].
  - apply level_ok_put; try assumption.
    + rewrite (@refill_look _ Nsi). exact Tsi.
    + rewrite (@refill_look _ Nso). exact Tso.
    + rewrite (@refill_look _ Nsi), (@refill_look _ Nso). exact Ss1.
    + rewrite (@refill_look _ Nsi), (@refill_look _ Nso). exact Ss2.
Qed.
Lemma disc_s_level K i o :
  level_ok K = true -> has_key (sinv K) i = true -> has_key (soutv K) o = true -> level_ok (disc_s K i o) = true.
Proof.
  intros Lk Ki Ko. destruct (level_ok_spec _ Lk) as [[Tdi [Tdo [Tsi Tso]]] [[Sd1 Sd2] [Ss1 Ss2]]].
  destruct (level_keys _ Lk) as [Ndi [Ndo [Nsi Nso]]].
  rewrite <- (@self_put _ Ndi Ndo Nsi Nso) at 1. rewrite put_disc_s.
  apply table_ok_spec in Tsi as Tsi', Tso as Tso'. destruct Tsi' as [_ Lsi], Tso' as [_ Lso].
  pose proof (Lsi _ (@has_key_look_in _ _ Nsi Ki)) as Ni. pose proof (Lso _ (@has_key_look_in _ _ Nso Ko)) as No.
  cbn [snd] in Ni, No.
  destruct (@edit_ok (sinv K) (soutv K) i o Tsi Tso Ss1 Ss2 (remove1 cref_eqb o) (remove1 cref_eqb i)) as [A1 [A2 [A3 A4]]]; auto.
  - apply nodup_remove1. exact Ni.
  - apply nodup_remove1. exact No.
  - apply remove_mem. exact Ni.
  - apply remove_mem. exact No.
  - split; intros H; exfalso; [exact (notin_remove1 o Ni H) | exact (notin_remove1 i No H)].
  - apply level_ok_put; try assumption.
    + rewrite (@refill_look _ Ndi). exact Tdi.
    + rewrite (@refill_look _ Ndo). exact Tdo.
    + rewrite (@refill_look _ Ndi), (@refill_look _ Ndo). exact Sd1.
    + rewrite (@refill_look _ Ndi), (@refill_look _ Ndo). exact Sd2.
Qed.

(* ---- the operations ---- *)
Lemma wfb_set_kids m K' :
  wfb m = true -> forallb wfb K' = true -> level_ok K' = true -> map nlab K' = map nlab (nkids m) ->
  wfb (set_nkids m K') = true.
Proof.
  intros Hw Wk Lk Lab. destruct (wfb_parts _ Hw) as [_ [_ [Nk [Sk Ek]]]].
  rewrite wfb_eq. replace (nkids (set_nkids m K')) with K' by (destruct m; reflexivity).
  replace (nstart (set_nkids m K')) with (nstart m) by (destruct m; reflexivity).
  replace (nkind (set_nkids m K')) with (nkind m) by (destruct m; reflexivity).
  rewrite Wk, Lk, Lab. rewrite !andb_true_iff. repeat split.
  - apply nodupb_s. exact Nk.
  - apply forallb_forall. intros x Hx. apply mems_In. apply Sk. exact Hx.
  - destruct (is_comp (nkind m)) eqn:Ec; [reflexivity|]. rewrite (Ek eq_refl) in Lab.
    destruct K'; [reflexivity|discriminate].
Qed.

Lemma put_wf fi fo gi go K : forallb wfb (put fi fo gi go K) = forallb wfb K.
Proof. unfold put. rewrite forallb_map. apply forallb_ext_in. intros k _. apply putk_wfb. Qed.
Lemma put_labs fi fo gi go K : map nlab (put fi fo gi go K) = map nlab K.
Proof. unfold put. rewrite map_map. reflexivity. Qed.

Lemma wfb_set_put m fi fo gi go :
  wfb m = true -> level_ok (put fi fo gi go (nkids m)) = true -> wfb (set_nkids m (put fi fo gi go (nkids m))) = true.
Proof.
  intros Hw Lk. destruct (wfb_parts _ Hw) as [Wk _]. apply wfb_set_kids; auto.
  - rewrite put_wf. exact Wk.
  - apply put_labs.
Qed.

Lemma connect_d_wf m i o : wfb m = true ->
  wfb (match connect_d (nkids m) (i, o) with Ok K => set_nkids m K | Err _ => m end) = true.
Proof.
  intros Hw. destruct (connect_d (nkids m) (i, o)) as [K'|] eqn:C; [|exact Hw].
  destruct (wfb_parts _ Hw) as [Wk [Lk _]]. destruct (level_keys _ Lk) as [Ndi [Ndo [Nsi Nso]]].
  pose proof (connect_d_level _ _ _ Lk C) as Lk'.
  unfold connect_d in C. cbn [fst snd] in C.
  destruct (assoc cref_eqb i (din (nkids m))); [|discriminate].
  destruct (assoc cref_eqb o (dout (nkids m))); [|discriminate].
  destruct (memb cref_eqb o l); inversion C; subst K'.
  - destruct m; exact Hw.
  - rewrite <- (@self_put _ Ndi Ndo Nsi Nso) in Lk' |- * at 1. rewrite put_upd_din, put_upd_dout in *.
    apply wfb_set_put; auto.
Qed.
Lemma connect_s_wf m i o : wfb m = true ->
  wfb (match connect_s (nkids m) (i, o) with Ok K => set_nkids m K | Err _ => m end) = true.
Proof.
  intros Hw. destruct (connect_s (nkids m) (i, o)) as [K'|] eqn:C; [|exact Hw].
  destruct (wfb_parts _ Hw) as [Wk [Lk _]]. destruct (level_keys _ Lk) as [Ndi [Ndo [Nsi Nso]]].
  pose proof (connect_s_level _ _ _ Lk C) as Lk'.
  unfold connect_s in C. cbn [fst snd] in C.
  destruct (assoc cref_eqb i (sinv (nkids m))); [|discriminate].
  destruct (assoc cref_eqb o (soutv (nkids m))); [|discriminate].
  destruct (memb cref_eqb o l); inversion C; subst K'.
  - destruct m; exact Hw.
  - rewrite <- (@self_put _ Ndi Ndo Nsi Nso) in Lk' |- * at 1. rewrite put_upd_sin, put_upd_sout in *.
    apply wfb_set_put; auto.
Qed.
Lemma disc_d_wf m i o : wfb m = true ->
  wfb (if has_key (din (nkids m)) i && has_key (dout (nkids m)) o then set_nkids m (disc_d (nkids m) i o) else m) = true.
Proof.
  intros Hw. destruct (has_key (din (nkids m)) i && has_key (dout (nkids m)) o) eqn:H; [|exact Hw].
  apply andb_true_iff in H. destruct H as [Ki Ko].
  destruct (wfb_parts _ Hw) as [Wk [Lk _]]. destruct (level_keys _ Lk) as [Ndi [Ndo [Nsi Nso]]].
  pose proof (disc_d_level _ _ _ Lk Ki Ko) as Lk'.
  rewrite <- (@self_put _ Ndi Ndo Nsi Nso) in Lk' |- * at 1. rewrite put_disc_d in *. apply wfb_set_put; auto.
Qed.
Lemma disc_s_wf m i o : wfb m = true ->
  wfb (if has_key (sinv (nkids m)) i && has_key (soutv (nkids m)) o then set_nkids m (disc_s (nkids m) i o) else m) = true.
Proof.
  intros Hw. destruct (has_key (sinv (nkids m)) i && has_key (soutv (nkids m)) o) eqn:H; [|exact Hw].
  apply andb_true_iff in H. destruct H as [Ki Ko].
  destruct (wfb_parts _ Hw) as [Wk [Lk _]]. destruct (level_keys _ Lk) as [Ndi [Ndo [Nsi Nso]]].
  pose proof (disc_s_level _ _ _ Lk Ki Ko) as Lk'.
  rewrite <- (@self_put _ Ndi Ndo Nsi Nso) in Lk' |- * at 1. rewrite put_disc_s in *. apply wfb_set_put; auto.
Qed.

(* adding a fresh, unconnected child *)
Lemma assoc_app_some (A B : table) k v : assoc cref_eqb k A = Some v -> assoc cref_eqb k (A ++ B) = Some v.
Proof.
  induction A as [|[k' v'] r IH]; cbn [assoc app]; [discriminate|]. destruct (cref_eqb k k'); auto.
Qed.
Lemma sym_half_app E E2 F F2 :
  sym_half E F = true -> (forall e, In e E2 -> snd e = []) -> sym_half (E ++ E2) (F ++ F2) = true.
Proof.
  intros S H2. unfold sym_half in *. rewrite forallb_app. apply andb_true_iff. split.
  - apply forallb_forall. intros e He. pose proof (forallb_In _ _ _ S He) as Se.
    cbv beta in Se. apply forallb_forall. intros o Ho. pose proof (forallb_In _ _ _ Se Ho) as So. cbv beta in So.
    destruct (assoc cref_eqb o F) as [l|] eqn:A; [|discriminate]. rewrite (@assoc_app_some F F2 o l A). exact So.
  - apply forallb_forall. intros e He. rewrite (H2 e He). reflexivity.
Qed.
Lemma table_ok_app E E2 :
  table_ok E = true -> NoDup (keys E2) -> (forall e, In e E2 -> snd e = []) ->
  (forall k, In k (keys E) -> ~ In k (keys E2)) -> table_ok (E ++ E2) = true.
Proof.
  intros T N2 H2 D. apply table_ok_spec in T. destruct T as [N L]. apply table_ok_spec. split.
  - unfold keys. rewrite map_app. apply nodup_app; auto.
  - intros e He. apply in_app_or in He. destruct He as [He|He]; [auto|]. rewrite (H2 e He). constructor.
Qed.

Lemma keys_lab_din K key : In key (keys (din K)) -> In (fst key) (map nlab K).
Proof.
  unfold keys, din. rewrite in_map_iff. intros [[k l] [<- H]]. apply in_flat_map in H. destruct H as [x [Hx Hc]].
  apply in_map_iff in Hc. destruct Hc as [c [E _]]. inversion E; subst. cbn. apply in_map. exact Hx.
Qed.
Lemma keys_lab_dout K key : In key (keys (dout K)) -> In (fst key) (map nlab K).
Proof.
  unfold keys, dout. rewrite in_map_iff. intros [[k l] [<- H]]. apply in_flat_map in H. destruct H as [x [Hx Hc]].
  apply in_map_iff in Hc. destruct Hc as [c [E _]]. inversion E; subst. cbn. apply in_map. exact Hx.
Qed.
Lemma keys_lab_sinv K key : In key (keys (sinv K)) -> In (fst key) (map nlab K).
Proof.
  unfold keys, sinv. rewrite in_map_iff. intros [[k l] [<- H]]. apply in_flat_map in H. destruct H as [x [Hx Hc]].
  apply in_map_iff in Hc. destruct Hc as [c [E _]]. inversion E; subst. cbn. apply in_map. exact Hx.
Qed.
Lemma keys_lab_soutv K key : In key (keys (soutv K)) -> In (fst key) (map nlab K).
Proof.
  unfold keys, soutv. rewrite in_map_iff. intros [[k l] [<- H]]. apply in_flat_map in H. destruct H as [x [Hx Hc]].
  apply in_map_iff in Hc. destruct Hc as [c [E _]]. inversion E; subst. cbn. apply in_map. exact Hx.
Qed.

Definition fresh_kid lab kd cls (ins outs : list (string * slot)) (sin sout : list string) : node :=
  Node lab kd cls false false ENone (map spec_d ins) (map spec_d outs) (map spec_s sin) (map spec_s sout) [] [] [].

Lemma nodup_pairlab (lab : string) (ls : list string) : NoDup ls -> NoDup (map (fun l => (lab, l)) ls).
Proof.
  induction 1 as [|x r Hx Hn IH]; cbn [map]; constructor; auto.
  rewrite in_map_iff. intros [y [E Hy]]. inversion E; subst. contradiction.
Qed.

Lemma level_ok_add K lab kd cls ins outs sin sout :
  level_ok K = true -> ~ In lab (map nlab K) ->
  NoDup (map fst ins) -> NoDup (map fst outs) -> NoDup sin -> NoDup sout ->
  level_ok (K ++ [fresh_kid lab kd cls ins outs sin sout]) = true.
Proof.
  intros Lk Hl Ni No Nsi Nso.
  destruct (level_ok_spec _ Lk) as [[Tdi [Tdo [Tsi Tso]]] [[Sd1 Sd2] [Ss1 Ss2]]].
  set (new := fresh_kid lab kd cls ins outs sin sout).
  assert (Edi : din (K ++ [new]) = din K ++ din [new]) by (unfold din; apply flat_map_app).
  assert (Edo : dout (K ++ [new]) = dout K ++ dout [new]) by (unfold dout; apply flat_map_app).
  assert (Esi : sinv (K ++ [new]) = sinv K ++ sinv [new]) by (unfold sinv; apply flat_map_app).
  assert (Eso : soutv (K ++ [new]) = soutv K ++ soutv [new]) by (unfold soutv; apply flat_map_app).
  assert (Zdi : forall e, In e (din [new]) -> snd e = []).
  { intros e He. unfold din, new, fresh_kid in He. cbn in He. rewrite app_nil_r, map_map in He.
    apply in_map_iff in He. destruct He as [x [<- _]]. reflexivity. }
  assert (Zdo : forall e, In e (dout [new]) -> snd e = []).
  { intros e He. unfold dout, new, fresh_kid in He. cbn in He. rewrite app_nil_r, map_map in He.
    apply in_map_iff in He. destruct He as [x [<- _]]. reflexivity. }
  assert (Zsi : forall e, In e (sinv [new]) -> snd e = []).
  { intros e He. unfold sinv, new, fresh_kid in He. cbn in He. rewrite app_nil_r, map_map in He.
    apply in_map_iff in He. destruct He as [x [<- _]]. reflexivity. }
  assert (Zso : forall e, In e (soutv [new]) -> snd e = []).
  { intros e He. unfold soutv, new, fresh_kid in He. cbn in He. rewrite app_nil_r, map_map in He.
    apply in_map_iff in He. destruct He as [x [<- _]]. reflexivity. }
  assert (Kdi : keys (din [new]) = map (fun l => (lab, l)) (map fst ins)).
  { unfold keys, din, new, fresh_kid. cbn. rewrite app_nil_r, !map_map. reflexivity. }
  assert (Kdo : keys (dout [new]) = map (fun l => (lab, l)) (map fst outs)).
  { unfold keys, dout, new, fresh_kid. cbn. rewrite app_nil_r, !map_map. reflexivity. }
  assert (Ksi : keys (sinv [new]) = map (fun l => (lab, l)) sin).
  { unfold keys, sinv, new, fresh_kid. cbn. rewrite app_nil_r, !map_map. reflexivity. }
  assert (Kso : keys (soutv [new]) = map (fun l => (lab, l)) sout).
  { unfold keys, soutv, new, fresh_kid. cbn. rewrite app_nil_r, !map_map. reflexivity. }
  assert (Fr : forall ls key, In (fst key) (map nlab K) -> ~ In key (map (fun l : string => (lab, l)) ls)).
  { intros ls key Hk Hin. apply in_map_iff in Hin. destruct Hin as [l [<- _]]. cbn in Hk. contradiction. }
  unfold level_ok. rewrite Edi, Edo, Esi, Eso. rewrite !andb_true_iff. repeat split.
  - apply table_ok_app; auto; [rewrite Kdi; apply nodup_pairlab; exact Ni|].
    intros k Hk. rewrite Kdi. apply Fr. apply keys_lab_din. exact Hk.
  - apply table_ok_app; auto; [rewrite Kdo; apply nodup_pairlab; exact No|].
    intros k Hk. rewrite Kdo. apply Fr. apply keys_lab_dout. exact Hk.
  - apply table_ok_app; auto; [rewrite Ksi; apply nodup_pairlab; exact Nsi|].
    intros k Hk. rewrite Ksi. apply Fr. apply keys_lab_sinv. exact Hk.
  - apply table_ok_app; auto; [rewrite Kso; apply nodup_pairlab; exact Nso|].
    intros k Hk. rewrite Kso. apply Fr. apply keys_lab_soutv. exact Hk.
  - apply sym_half_app; auto.
  - apply sym_half_app; auto.
  - apply sym_half_app; auto.
  - apply sym_half_app; auto.
Qed.

Lemma wfb_fresh lab kd cls ins outs sin sout : wfb (fresh_kid lab kd cls ins outs sin sout) = true.
Proof. rewrite wfb_eq. cbn. apply orb_true_r. Qed.

Lemma add_wf m lab kd cls ins outs sin sout : wfb m = true ->
  wfb (if fresh_ok lab ins outs sin sout m
       then set_nkids m (nkids m ++ [fresh_kid lab kd cls ins outs sin sout]) else m) = true.
Proof.
  intros Hw. destruct (fresh_ok lab ins outs sin sout m) eqn:F; [|exact Hw].
  unfold fresh_ok in F. rewrite !andb_true_iff in F. destruct F as [[[[[Fc Fl] Fi] Fo] Fsi] Fso].
  apply negb_true_iff in Fl. apply mems_nIn in Fl. apply nodupb_s in Fi, Fo, Fsi, Fso.
  destruct (wfb_parts _ Hw) as [Wk [Lk [Nk [Sk Ek]]]].
  rewrite wfb_eq. replace (nkids (set_nkids m (nkids m ++ [fresh_kid lab kd cls ins outs sin sout])))
    with (nkids m ++ [fresh_kid lab kd cls ins outs sin sout]) by (destruct m; reflexivity).
  replace (nstart (set_nkids m (nkids m ++ [fresh_kid lab kd cls ins outs sin sout]))) with (nstart m) by (destruct m; reflexivity).
  replace (nkind (set_nkids m (nkids m ++ [fresh_kid lab kd cls ins outs sin sout]))) with (nkind m) by (destruct m; reflexivity).
  rewrite forallb_app, Wk. cbn [forallb]. rewrite wfb_fresh. rewrite level_ok_add; auto. rewrite Fc.
  rewrite !andb_true_iff. repeat split.
  - apply nodupb_s. rewrite map_app. apply nodup_app; auto.
    + cbn. constructor; [tauto|constructor].
    + intros x Hx [H|[]]. cbn in H. subst x. contradiction.
  - apply forallb_forall. intros x Hx. apply mems_In. rewrite map_app. apply in_or_app. left. apply Sk. exact Hx.
Qed.

Lemma wfb_own_edit m ins' outs' sin' sout' fl rn ex prov' :
  wfb (Node (nlab m) (nkind m) (ncls m) fl rn ex ins' outs' sin' sout' (nkids m) (nstart m) prov') = wfb m.
Proof. rewrite !wfb_eq. reflexivity. Qed.

Lemma setval_view l v cs : map (fun c => (dlab c, dcon c)) (setval l v cs) = map (fun c => (dlab c, dcon c)) cs.
Proof. unfold setval. rewrite map_map. apply map_ext. intros c. destruct (String.eqb (dlab c) l); reflexivity. Qed.
Lemma setrcv_view l r cs : map (fun c => (dlab c, dcon c)) (setrcv l r cs) = map (fun c => (dlab c, dcon c)) cs.
Proof. unfold setrcv. rewrite map_map. apply map_ext. intros c. destruct (String.eqb (dlab c) l); reflexivity. Qed.

Lemma apply_op_wf o n : wfb n = true -> wfb (apply_op o n) = true.
Proof.
  intros Hw. destruct o; cbn [apply_op].
  - (* OAdd *) apply at_path_pres; [| |exact Hw].
    + intros m Hm. apply add_wf. exact Hm.
    + intros m. destruct (fresh_ok lab ins outs sin sout m); [apply oview_set_nkids|reflexivity].
  - (* OConnD *) apply at_path_pres; [| |exact Hw].
    + intros m Hm. apply connect_d_wf. exact Hm.
    + intros m. destruct (connect_d (nkids m) (i, o)); [apply oview_set_nkids|reflexivity].
  - (* ODiscD *) apply at_path_pres; [| |exact Hw].
    + intros m Hm. apply disc_d_wf. exact Hm.
    + intros m. destruct (has_key (din (nkids m)) i && has_key (dout (nkids m)) o); [apply oview_set_nkids|reflexivity].
  - (* OConnS *) apply at_path_pres; [| |exact Hw].
    + intros m Hm. apply connect_s_wf. exact Hm.
    + intros m. destruct (connect_s (nkids m) (i, o)); [apply oview_set_nkids|reflexivity].
  - (* ODiscS *) apply at_path_pres; [| |exact Hw].
    + intros m Hm. apply disc_s_wf. exact Hm.
    + intros m. destruct (has_key (sinv (nkids m)) i && has_key (soutv (nkids m)) o); [apply oview_set_nkids|reflexivity].
  - (* OSetIn *) apply at_path_pres; [| |exact Hw].
    + intros m Hm. destruct (nrunning m); [exact Hm|]. unfold set_nins. rewrite wfb_own_edit. exact Hm.
    + intros m. destruct (nrunning m); [reflexivity|]. unfold oview, set_nins. cbn. rewrite setval_view. reflexivity.
  - (* OSetOut *) apply at_path_pres; [| |exact Hw].
    + intros m Hm. unfold set_nouts. rewrite wfb_own_edit. exact Hm.
    + intros m. unfold oview, set_nouts. cbn. rewrite setval_view. reflexivity.
  - (* OFlags *) apply at_path_pres; [| |exact Hw].
    + intros m Hm. rewrite wfb_own_edit. exact Hm.
    + intros m. reflexivity.
  - (* OExe *) apply at_path_pres; [| |exact Hw].
    + intros m Hm. rewrite wfb_own_edit. exact Hm.
    + intros m. reflexivity.
  - (* ORcvd *) apply at_path_pres; [| |exact Hw].
    + intros m Hm. unfold set_nsin. rewrite wfb_own_edit. exact Hm.
    + intros m. unfold oview, set_nsin. cbn. rewrite map_map. f_equal. f_equal. apply map_ext. intros c.
      destruct (String.eqb (slab c) l); reflexivity.
  - (* OStart *) apply at_path_pres; [| |exact Hw].
    + intros m Hm. destruct (forallb (fun l => mems l (map nlab (nkids m))) ls) eqn:F; [|exact Hm].
      destruct (wfb_parts _ Hm) as [Wk [Lk [Nk [Sk Ek]]]]. rewrite wfb_eq. cbn [nkids nstart nkind].
      rewrite Wk, Lk, F. rewrite !andb_true_iff. repeat split.
      * apply nodupb_s. exact Nk.
      * destruct (is_comp (nkind m)) eqn:Ec; [reflexivity|]. rewrite (Ek eq_refl). reflexivity.
    + intros m. destruct (forallb (fun l => mems l (map nlab (nkids m))) ls); reflexivity.
  - (* OProv *) apply at_path_pres; [| |exact Hw].
    + intros m Hm. rewrite wfb_own_edit. exact Hm.
    + intros m. reflexivity.
  - (* OLinkIn *) apply at_path_pres; [| |exact Hw].
    + intros m Hm. unfold set_nins. rewrite wfb_own_edit. exact Hm.
    + intros m. unfold oview, set_nins. cbn. rewrite setrcv_view. reflexivity.
  - (* OLinkOut *) apply at_path_pres; [| |exact Hw].
    + intros m Hm. destruct (wfb_parts _ Hm) as [Wk [Lk _]]. apply wfb_set_kids; auto.
      * rewrite forallb_map. apply forallb_forall. intros k Hk. destruct (String.eqb (nlab k) c).
        -- unfold set_nouts. rewrite wfb_own_edit. exact (forallb_In _ _ _ Wk Hk).
        -- exact (forallb_In _ _ _ Wk Hk).
      * rewrite <- Lk. apply level_ok_oview. rewrite map_map. apply map_ext. intros k.
        destruct (String.eqb (nlab k) c); [|reflexivity]. unfold oview, set_nouts. cbn. rewrite setrcv_view. reflexivity.
      * rewrite map_map. apply map_ext. intros k. destruct (String.eqb (nlab k) c); [|reflexivity]. destruct k; reflexivity.
    + intros m. apply oview_set_nkids.
  - (* OUnlinkIn *) apply at_path_pres; [| |exact Hw].
    + intros m Hm. unfold set_nins. rewrite wfb_own_edit. exact Hm.
    + intros m. unfold oview, set_nins. cbn. rewrite setrcv_view. reflexivity.
Qed.

Theorem build_wf lab kd cls ins outs sin sout ops :
  wfb (build (root0 lab kd cls ins outs sin sout) ops) = true.
Proof.
  unfold build. assert (H0 : wfb (root0 lab kd cls ins outs sin sout) = true).
  { unfold root0. rewrite wfb_eq. cbn. apply orb_true_r. }
  revert H0. generalize (root0 lab kd cls ins outs sin sout). induction ops as [|o r IH]; intros n Hn; [exact Hn|].
  cbn [fold_left]. apply IH. apply apply_op_wf. exact Hn.
Qed.

Definition guards (n : node) : Prop :=
  wfb n = true /\ own_ok n = true /\
  links_resolve n = true /\ links_unlocked n = true /\ links_synced n = true.

(* ---- repeated save + load of a root that is not a Macro / For (a workflow, a function node) ---- *)
Lemma chain_kid_put fi fo gi go K c l : chain_kid (put fi fo gi go K) c l = chain_kid K c l.
Proof. unfold put. apply chain_kid_map; [reflexivity | intros; apply chain_putk]. Qed.
Lemma has_in_put fi fo gi go K c l : has_in (put fi fo gi go K) c l = has_in K c l.
Proof.
  unfold put. apply has_in_map; [reflexivity|]. intros k. unfold putk. cbn [nins]. rewrite map_map. reflexivity.
Qed.
Lemma outs_pred_put fi fo gi go (g : dchan -> bool) K :
  (forall c l, g (set_dcon c l) = g c) ->
  forallb (fun k => forallb g (nouts k)) (put fi fo gi go K) = forallb (fun k => forallb g (nouts k)) K.
Proof.
  intros Hg. unfold put. rewrite forallb_map. apply forallb_ext_in. intros k _. unfold putk. cbn [nouts].
  rewrite forallb_map. apply forallb_ext_in. intros c _. apply Hg.
Qed.

Lemma resolve_adopted m : resolve_here (adopted m) = resolve_here m.
Proof.
  unfold resolve_here, adopted. cbn [nkind nins nouts nkids]. unfold relevel.
  destruct (is_linked (nkind m)).
  - f_equal.
    + apply forallb_ext_in. intros c _. destruct (drcv c); try reflexivity. apply has_in_put.
    + apply outs_pred_put. intros c l. reflexivity.
  - f_equal. apply outs_pred_put. intros c l. reflexivity.
Qed.
Lemma unlocked_adopted m : unlocked_here (adopted m) = unlocked_here m.
Proof.
  unfold unlocked_here, adopted. cbn [nins nkids]. unfold relevel.
  apply forallb_ext_in. intros c _. destruct (drcv c); try reflexivity. rewrite chain_kid_put. reflexivity.
Qed.
Lemma synced_adopted m : synced_here (adopted m) = synced_here m.
Proof.
  unfold synced_here, adopted. cbn [nins nouts nkids]. unfold relevel. f_equal.
  - apply forallb_ext_in. intros c _. destruct (drcv c); try reflexivity. rewrite chain_kid_put. reflexivity.
  - apply outs_pred_put. intros c l. reflexivity.
Qed.

Lemma allb_adopted p m :
  (forall x, p (adopted x) = p x) -> (forall fi fo gi go k, p (putk fi fo gi go k) = p k) ->
  allb p (adopted m) = allb p m.
Proof.
  intros Ha Hp. rewrite !allb_eq, Ha. f_equal. unfold adopted. cbn [nkids]. unfold relevel, put.
  rewrite forallb_map. apply forallb_ext_in. intros k _. apply allb_putk. exact Hp.
Qed.

Lemma wfb_adopted m : wfb m = true -> wfb (adopted m) = true.
Proof.
  intros Hw. destruct (wfb_parts _ Hw) as [_ [Lk _]].
  replace (wfb (adopted m)) with (wfb (set_nkids m (relevel (nkids m)))) by (rewrite !wfb_eq; destruct m; reflexivity).
  unfold relevel. apply wfb_set_put; [exact Hw|]. apply level_ok_relevel. exact Lk.
Qed.

Lemma guards_adopted m : guards m -> guards (adopted m).
Proof.
  intros [Hw [Ho [Hr [Hu Hs]]]]. repeat split.
  - apply wfb_adopted. exact Hw.
  - exact Ho.
  - unfold links_resolve. rewrite (allb_adopted _ _ resolve_adopted resolve_putk). exact Hr.
  - unfold links_unlocked. rewrite (allb_adopted _ _ unlocked_adopted unlocked_putk). exact Hu.
  - unfold links_synced. rewrite (allb_adopted _ _ synced_adopted synced_putk). exact Hs.
Qed.
Lemma guards_ref n : guards n -> guards (ref n).
Proof.
  intros [Hw [Ho [Hr [Hu Hs]]]]. repeat split.
  - apply wfb_ref. exact Hw.
  - rewrite own_ok_ref. exact Ho.
  - unfold links_resolve. rewrite resolve_ref. exact Hr.
  - unfold links_unlocked. rewrite unlocked_ref. exact Hu.
  - unfold links_synced. rewrite synced_ref. exact Hs.
Qed.

Fixpoint iter_file (k : nat) (n : node) : node := match k with O => n | S k' => iter_file k' (adopted (ref n)) end.

Lemma kind_adopted_ref n : nkind (adopted (ref n)) = nkind n. Proof. destruct n; reflexivity. Qed.
Lemma strip_adopted_ref n : strip_root (adopted (ref n)) = adopted (ref n).
Proof. rewrite ref_eq. unfold strip_root, adopted. cbn. rewrite !map_map. reflexivity. Qed.

Theorem trip_file_exact' c n :
  guards n -> ghost_fails c n = false ->
  trip_file (c, n) = Ok (mkC None (root_det c) false, adopted (ref n)).
Proof.
  intros Hg Hc. pose proof Hg as [Hw [Ho [Hr [Hu Hs]]]]. unfold trip_file. rewrite trip_pickle_exact'; auto.
  destruct (guards_ref Hg) as [Hw' [Ho' [Hr' [Hu' Hs']]]].
  unfold links_resolve, links_unlocked, links_synced in Hr', Hu', Hs'. rewrite allb_eq in Hr', Hu', Hs'.
  apply andb_true_iff in Hr', Hu', Hs'. destruct Hr' as [R1 R2], Hu' as [U1 _], Hs' as [S1 _].
  rewrite adopt_exact; auto. intros k Hk. exact (forallb_In _ _ _ R2 Hk).
Qed.

Theorem trips_file_exact : forall k c n,
  guards n -> is_linked (nkind n) = false ->
  trips (S k) BFile (c, n) = Ok (mkC None (root_det c) false, iter_file (S k) n).
Proof.
  induction k as [|k IH]; intros c n Hg Hl.
  - cbn [trips trip iter_file]. rewrite trip_file_exact'; auto. unfold ghost_fails. rewrite Hl, andb_false_r. reflexivity.
  - change (trips (S (S k)) BFile (c, n))
      with (match trip BFile (c, n) with Ok cn' => trips (S k) BFile cn' | Err e => Err e end).
    cbn [trip]. rewrite trip_file_exact'; auto.
    + rewrite IH; [reflexivity | apply guards_adopted; apply guards_ref; exact Hg | rewrite kind_adopted_ref; exact Hl].
    + unfold ghost_fails. rewrite Hl, andb_false_r. reflexivity.
Qed.

Lemma same_file_step n : wfb n = true -> same (strip_root n) (adopted (ref n)).
Proof.
  intros Hw. apply same_adopted; [apply same_ref; exact Hw|].
  destruct (wfb_parts _ (wfb_ref n Hw)) as [_ [Lk _]]. exact Lk.
Qed.
Lemma same_iter_file : forall k n, guards n -> same (strip_root n) (iter_file (S k) n).
Proof.
  induction k as [|k IH]; intros n Hg; pose proof Hg as [Hw _].
  - apply same_file_step. exact Hw.
  - change (iter_file (S (S k)) n) with (iter_file (S k) (adopted (ref n))).
    eapply same_trans; [apply same_file_step; exact Hw|].
    pose proof (IH (adopted (ref n)) (guards_adopted (guards_ref Hg))) as H. rewrite strip_adopted_ref in H. exact H.
Qed.
Lemma iter_file_no_own : forall k n, no_own_conns (iter_file (S k) n).
Proof.
  induction k as [|k IH]; intros n; [apply adopted_no_own; apply ref_no_own|].
  change (iter_file (S (S k)) n) with (iter_file (S k) (adopted (ref n))). apply IH.
Qed.

(* ---- re-running after a file round trip ---- *)
Lemma vals_in_put fi fo gi go K : vals_in (put fi fo gi go K) = vals_in K.
Proof.
  unfold vals_in, put. induction K as [|k r IH]; [reflexivity|]. cbn [map flat_map]. rewrite IH. f_equal.
  unfold putk. cbn [nins nlab]. rewrite map_map. reflexivity.
Qed.
Lemma vals_out_put fi fo gi go K : vals_out (put fi fo gi go K) = vals_out K.
Proof.
  unfold vals_out, put. induction K as [|k r IH]; [reflexivity|]. cbn [map flat_map]. rewrite IH. f_equal.
  unfold putk. cbn [nouts nlab]. rewrite map_map. reflexivity.
Qed.
Lemma rcvd_put fi fo gi go K : rcvd_of (put fi fo gi go K) = rcvd_of K.
Proof.
  unfold rcvd_of, put. induction K as [|k r IH]; [reflexivity|]. cbn [map flat_map]. rewrite IH. f_equal.
  unfold putk. cbn [nsin nlab]. rewrite map_map. reflexivity.
Qed.
Lemma shape_put fi fo gi go K :
  map (fun k => (nlab k, map dlab (nins k))) (put fi fo gi go K) = map (fun k => (nlab k, map dlab (nins k))) K.
Proof. unfold put. rewrite map_map. apply map_ext. intros k. unfold putk. cbn [nlab nins]. rewrite map_map. reflexivity. Qed.
Lemma root_ready_relevel' K : NoDup (keys (din K)) -> root_ready (relevel K) = root_ready K.
Proof.
  intros Hn. unfold root_ready, relevel, put. rewrite forallb_map. apply forallb_ext_in. intros k Hk.
  unfold putk. cbn [nins]. rewrite forallb_map. apply forallb_ext_in. intros c Hc.
  cbn [set_dcon dcon dval].
  assert (E : look (din K) (nlab k, dlab c) = dcon c).
  { apply look_In; [exact Hn|]. unfold din. apply in_flat_map. exists k. split; [exact Hk|].
    apply in_map_iff. exists c. auto. }
  rewrite E. reflexivity.
Qed.

Theorem exec_adopted fuel m :
  wfb m = true -> sig_canon_level (nkids m) = true -> exec fuel (adopted m) = exec fuel m.
Proof.
  intros Hw Hc. destruct (wfb_parts _ Hw) as [_ [Lk _]]. destruct (level_keys _ Lk) as [Ndi [Ndo [Nsi Nso]]].
  unfold exec, adopted. cbn [nkids nstart].
  rewrite (root_ready_relevel' _ Ndi). destruct (root_ready (nkids m)); [|reflexivity].
  assert (E1 : vals_in (relevel (nkids m)) = vals_in (nkids m)) by apply vals_in_put.
  assert (E2 : vals_out (relevel (nkids m)) = vals_out (nkids m)) by apply vals_out_put.
  assert (E3 : rcvd_of (relevel (nkids m)) = rcvd_of (nkids m)) by apply rcvd_put.
  assert (EW : wiring_of (relevel (nkids m)) =
               mkW (din (nkids m)) (soutv (nkids m)) (refill (fun i => rev (look (sinv (nkids m)) i)) (sinv (nkids m)))
                   (map (fun k => (nlab k, map dlab (nins k))) (nkids m))).
  { unfold wiring_of, relevel. rewrite shape_put, din_put, soutv_put, sinv_put.
    rewrite (@refill_look _ Ndi). rewrite (@canon_sig_eq _ Nso Hc). reflexivity. }
  rewrite E1, E2, EW. unfold wiring_of.
  assert (Hacc : acc_eq (mkW (din (nkids m)) (soutv (nkids m)) (refill (fun i => rev (look (sinv (nkids m)) i)) (sinv (nkids m)))
                             (map (fun k => (nlab k, map dlab (nins k))) (nkids m)))
                        (mkW (din (nkids m)) (soutv (nkids m)) (sinv (nkids m))
                             (map (fun k => (nlab k, map dlab (nins k))) (nkids m)))).
  { intros r rc. cbn [w_sin]. rewrite look_refill. destruct (has_key (sinv (nkids m)) r) eqn:Hk.
    - apply forallb_rev.
    - rewrite look_nokey; [reflexivity|]. intros H. apply has_key_In in H. congruence. }
  rewrite (@starts_inv _ _ _ _ (sinv (nkids m))).
  destruct (starts _ _ (nstart m)) as [st|[|]]; try reflexivity.
  apply (@loop_inv _ _ _ _ _ Hacc).
Qed.

(* =================================================================== 14. property-level statements for pickle *)
Theorem roundtrip_pickle k c n :
  guards n -> cown c = true ->
  exists n', trips (S k) BPickle (c, n) = Ok (mkC None (root_det c) true, n') /\
             same (strip_root n) n' /\ no_own_conns n' /\ din (nkids n') = din (nkids n).
Proof.
  intros [Hw [Ho [Hr [Hu Hs]]]] Hc. exists (iter_ref (S k) n). split; [apply trips_pickle_exact; auto|].
  pose proof (same_iter k n Hw) as S. split; [exact S|]. split; [apply iter_no_own|].
  apply same_eq in S. destruct S as [_ [_ [_ [_ [_ [_ [_ [_ [_ [_ [_ [D _]]]]]]]]]]]]. exact D.
Qed.

Lemma guards_kid p k : guards p -> In k (nkids p) -> guards k.
Proof.
  intros [Hw [Ho [Hr [Hu Hs]]]] Hk. destruct (wfb_parts _ Hw) as [Wk _].
  unfold links_resolve, links_unlocked, links_synced in *. rewrite allb_eq in Hr, Hu, Hs.
  apply andb_true_iff in Hr, Hu, Hs. destruct Hr as [_ Hr], Hu as [_ Hu], Hs as [_ Hs].
  repeat split.
  - exact (forallb_In _ _ _ Wk Hk).
  - eapply kid_own_ok; eauto.
  - exact (forallb_In _ _ _ Hr Hk).
  - exact (forallb_In _ _ _ Hu Hk).
  - exact (forallb_In _ _ _ Hs Hk).
Qed.

(* a child (with whatever connections to its siblings and links into its parent) pickled on its own *)
Theorem child_alone p k ppath :
  guards p -> In k (nkids p) ->
  exists k', trip_pickle (mkC (Some ppath) None true, k) = Ok (mkC None (Some ppath) true, k') /\
             no_own_conns k' /\ same (strip_root k) k'.
Proof.
  intros Hg Hk. destruct (@guards_kid p k Hg Hk) as [Hw [Ho [Hr [Hu Hs]]]].
  exists (ref k). split; [|split; [apply ref_no_own | apply same_ref; exact Hw]].
  rewrite trip_pickle_exact; auto.
Qed.

Theorem rerun_pickle k c n fuel :
  guards n -> cown c = true -> sig_canon_level (nkids n) = true ->
  exists n', trips (S k) BPickle (c, n) = Ok (mkC None (root_det c) true, n') /\ exec fuel n' = exec fuel n.
Proof.
  intros [Hw [Ho [Hr [Hu Hs]]]] Hc Hsig. exists (iter_ref (S k) n). split; [apply trips_pickle_exact; auto|].
  apply exec_iter; auto.
Qed.

Theorem roundtrip_file c n :
  guards n -> cown c = true ->
  exists n', trips 1 BFile (c, n) = Ok (mkC None (root_det c) false, n') /\
             same (strip_root n) n' /\ no_own_conns n' /\ din (nkids n') = din (nkids n).
Proof.
  intros [Hw [Ho [Hr [Hu Hs]]]] Hc. exists (adopted (ref n)).
  split; [cbn [trips trip]; rewrite trip_file_exact; auto|].
  assert (S : same (strip_root n) (adopted (ref n))).
  { apply same_adopted; [apply same_ref; exact Hw|].
    destruct (wfb_parts _ (wfb_ref n Hw)) as [_ [Lk _]]. exact Lk. }
  split; [exact S|]. split; [apply adopted_no_own; apply ref_no_own|].
  apply same_eq in S. destruct S as [_ [_ [_ [_ [_ [_ [_ [_ [_ [_ [_ [D _]]]]]]]]]]]]. exact D.
Qed.

Theorem roundtrip_file_repeated k c n :
  guards n -> is_linked (nkind n) = false ->
  exists n', trips (S k) BFile (c, n) = Ok (mkC None (root_det c) false, n') /\
             same (strip_root n) n' /\ no_own_conns n' /\ din (nkids n') = din (nkids n).
Proof.
  intros Hg Hl. exists (iter_file (S k) n). split; [apply trips_file_exact; auto|].
  pose proof (same_iter_file k Hg) as S. split; [exact S|]. split; [apply iter_file_no_own|].
  apply same_eq in S. destruct S as [_ [_ [_ [_ [_ [_ [_ [_ [_ [_ [_ [D _]]]]]]]]]]]]. exact D.
Qed.

Theorem rerun_file c n fuel :
  guards n -> cown c = true -> sig_canon_level (nkids n) = true ->
  exists n', trips 1 BFile (c, n) = Ok (mkC None (root_det c) false, n') /\ exec fuel n' = exec fuel n.
Proof.
  intros Hg Hc Hsig. pose proof Hg as [Hw _]. exists (adopted (ref n)). split.
  - cbn [trips trip]. rewrite trip_file_exact'; auto. unfold ghost_fails. rewrite Hc. reflexivity.
  - rewrite exec_adopted; [apply exec_ref; auto | apply wfb_ref; exact Hw | apply sig_canon_ref; exact Hw].
Qed.

(* ---- witnesses ---------------------------------------------------------------------------------- *)
Definition sigs_in : list schan := [mkS "run" [] []; mkS "accumulate_and_run" [] []].
Definition sigs_out : list schan := [mkS "ran" [] []; mkS "failed" [] []].
Definition lin1 (lab : string) (a : slot) (outrcv : recv) : node :=
  Node lab KLeaf "Lin1" false false ENone
       [mkD "tag" (Data (OZ 1)) [] RNone; mkD "k" (Data (OZ 1)) [] RNone; mkD "a" a [] RNone]
       [mkD "y" NotData [] outrcv] sigs_in sigs_out [] [] [].
Definition ctx0 : ctx := mkC None None true.

(* a macro whose second input is not used by any child: its UI node was purged, the link dangles *)
Definition w_unused : node :=
  Node "m" KLinked "MUnused" false false ENone
       [mkD "x" (Data (OZ 1)) [] (RChild "p" "a"); mkD "unused" (Data (OZ 3)) [] (RChild "unused" "user_input")]
       [mkD "out" NotData [] RNone] sigs_in sigs_out
       [lin1 "p" (Data (OZ 1)) (RParent "out")] ["p"] [].
Lemma refuted_unused :
  wfb w_unused = true /\ own_ok w_unused = true /\ links_unlocked w_unused = true /\ links_synced w_unused = true /\
  links_resolve w_unused = false /\ trips 1 BPickle (ctx0, w_unused) = Err KeyErr.
Proof. vm_compute. repeat split; reflexivity. Qed.

(* a macro inside a macro, flagged running (a checkpoint image taken while it ran) *)
Definition w_inner (rn : bool) (v : slot) : node :=
  Node "inner" KLinked "MChain" false rn ENone
       [mkD "x" v [] (RChild "p" "a")] [mkD "out" NotData [] (RParent "out")] sigs_in sigs_out
       [lin1 "p" v (RParent "out")] ["p"] [].
Definition w_outer (rn : bool) (v : slot) : node :=
  Node "M" KLinked "MOuter" false rn ENone
       [mkD "x" (Data (OZ 1)) [] (RChild "inner" "x")] [mkD "out" NotData [] RNone] sigs_in sigs_out
       [w_inner rn v] ["inner"] [].
Lemma refuted_running :
  let n := w_outer true (Data (OZ 1)) in
  wfb n = true /\ own_ok n = true /\ links_resolve n = true /\ links_synced n = true /\
  links_unlocked n = false /\ trips 1 BPickle (ctx0, n) = Err Locked.
Proof. vm_compute. repeat split; reflexivity. Qed.

(* a child input edited directly below a value link: the macro's value is pushed over it *)
Lemma refuted_desync :
  let n := w_outer false (Data (OZ 7)) in
  wfb n = true /\ own_ok n = true /\ links_resolve n = true /\ links_unlocked n = true /\
  links_synced n = false /\
  exists c' n', trips 1 BPickle (ctx0, n) = Ok (c', n') /\
                vals_in (nkids n) = [(("inner", "x"), Data (OZ 7))] /\
                vals_in (nkids n') = [(("inner", "x"), Data (OZ 1))].
Proof.
  repeat (split; [vm_compute; reflexivity|]).
  eexists _, _. split; [vm_compute; reflexivity|]. split; vm_compute; reflexivity.
Qed.

(* hand-wired fan-out a.ran -> [b.run, c.run]: restore re-makes it as [c.run, b.run] *)
Definition lin0 (lab : string) (tag : Z) (run_from ran_to : list cref) : node :=
  Node lab KLeaf "Lin0" false false ENone
       [mkD "tag" (Data (OZ tag)) [] RNone; mkD "k" (Data (OZ 1)) [] RNone]
       [mkD "y" NotData [] RNone]
       [mkS "run" run_from []; mkS "accumulate_and_run" [] []]
       [mkS "ran" ran_to []; mkS "failed" [] []] [] [] [].
Definition w_fan : node :=
  Node "wf" KWf "Workflow" false false ENone [] [] sigs_in sigs_out
       [lin0 "a" 0 [] [("b", "run"); ("c", "run")]; lin0 "b" 1 [("a", "ran")] []; lin0 "c" 2 [("a", "ran")] []]
       ["a"] [].
Definition prov_of (r : xres) : list string := match r with XOk st => st_prov st | _ => [] end.
Lemma refuted_rerun :
  wfb w_fan = true /\ own_ok w_fan = true /\ links_ok w_fan = true /\ flatb w_fan = true /\
  sig_canon_level (nkids w_fan) = false /\
  exists c' n', trips 1 BPickle (ctx0, w_fan) = Ok (c', n') /\
                prov_of (exec 20 w_fan) = ["a"; "b"; "c"] /\ prov_of (exec 20 n') = ["a"; "c"; "b"].
Proof.
  repeat (split; [vm_compute; reflexivity|]).
  eexists _, _. split; [vm_compute; reflexivity|]. split; vm_compute; reflexivity.
Qed.

(* Node.load: the adopted channels are owned by the throw-away instance; a macro loaded that way
   cannot be saved and loaded again *)
Lemma refuted_file_owner :
  let n := w_outer false (Data (OZ 1)) in
  guards n /\ exists c' n', trips 1 BFile (ctx0, n) = Ok (c', n') /\ cown c' = false /\
                            trips 2 BFile (ctx0, n) = Err KeyErr.
Proof.
  split; [vm_compute; repeat split; reflexivity|].
  eexists _, _. split; [vm_compute; reflexivity|]. split; vm_compute; reflexivity.
Qed.

(* non-vacuity: the guards hold of a nested macro with multi-connection inputs *)
Definition w_multi : node :=
  Node "wf" KWf "Workflow" false false ENone [] [] sigs_in sigs_out
       [Node "a" KLeaf "Lin0" false false ENone
             [mkD "tag" (Data (OZ 0)) [] RNone; mkD "k" (Data (OZ 1)) [] RNone]
             [mkD "y" NotData [("c", "a"); ("b", "a")] RNone]
             [mkS "run" [] []; mkS "accumulate_and_run" [] []]
             [mkS "ran" [("c", "accumulate_and_run"); ("b", "run")] []; mkS "failed" [] []] [] [] [];
        Node "b" KLeaf "Lin1" false false (EInstr (OL [OS "instr"])) 
             [mkD "tag" (Data (OZ 1)) [] RNone; mkD "k" (Data (OZ 2)) [] RNone; mkD "a" NotData [("a", "y")] RNone]
             [mkD "y" (Data (OZ 5)) [("c", "a")] RNone]
             [mkS "run" [("a", "ran")] []; mkS "accumulate_and_run" [] []]
             [mkS "ran" [("c", "accumulate_and_run")] []; mkS "failed" [] []] [] [] [];
        Node "c" KLeaf "Lin1" true false ENone
             [mkD "tag" (Data (OZ 2)) [] RNone; mkD "k" (Data (OZ 3)) [] RNone; mkD "a" (Data (OZ 5)) [("b", "y"); ("a", "y")] RNone]
             [mkD "y" NotData [] RNone]
             [mkS "run" [] []; mkS "accumulate_and_run" [("a", "ran"); ("b", "ran")] ["a__ran"]]
             [mkS "ran" [] []; mkS "failed" [] []] [] [] [];
        w_outer false (Data (OZ 1))]
       ["a"] ["a"; "b"].
