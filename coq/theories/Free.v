(* Free.v -- C06 for hand-wired flows WITHOUT a parent (the `free` family).
   Nodes that have no parent deliver their signals themselves: Node._run_finally -> Node.emit calls every
   connected input signal in turn, and an input signal runs its owner at once.  So a run of a starting node is
   a depth-first walk:
     * Runnable._run: the function returns -> _finish_run stores the output and (in its `finally`) emits
       ran (and true/false for an If); an exception raised further down passes through this node WITHOUT
       marking it failed (it is raised inside `finally`, after the node finished);
     * the function raises -> _run_exception (failed, not running), _run_finally emits `failed` to the
       handlers, then the exception is re-raised; an exception out of a handler replaces it;
     * a failed (or not ready) node that is triggered refuses with ReadinessError, which propagates alike;
     * an exception ends the walk at once: the remaining receivers of every node on the way up hear nothing.
   The all-of trigger (AccumulatingInputSignal) is the one of Fail.v / Trig.v: it fires -- after forgetting
   what it heard -- when every connected emitter has been heard.
   The caller of the outermost run is whoever calls run() on a starting node; the harness runs every
   starting node in turn on the same objects. *)
From PW Require Import Base Fail.

Inductive fres := FOk | FExc (n : nat) | FReady (n : nat) | FFuel.

Definition with_recv (s : fstate) (n : nat) (got : list (nat * osig)) : fstate :=
  {| outv := outv s; inv := inv s; failedv := failedv s; recv := set_nth (recv s) n got; queue := queue s;
     sent := sent s; log := log s; errs := errs s |}.

Section Deliver.
  Variable g : flow.
  Variable exec : fstate -> nat -> fstate * fres.

  Definition fdeliver (s : fstate) (e : nat * osig) (r : nat * isig) : fstate * fres :=
    let n := fst r in
    match snd r with
    | IRun => exec s n
    | IAcc =>
        let got := nth n (recv s) [] in
        let got' := if memb em_eqb e got then got else e :: got in
        if subset_em (acc_conns g n) got' then exec (with_recv s n []) n
        else (with_recv s n got', FOk)
    end.

  Fixpoint fdeliver_all (s : fstate) (ems : list ((nat * osig) * (nat * isig))) : fstate * fres :=
    match ems with
    | [] => (s, FOk)
    | (e, r) :: rest =>
        let '(s1, x) := fdeliver s e r in
        match x with FOk => fdeliver_all s1 rest | _ => (s1, x) end
    end.
End Deliver.

(* run_node of Fail.v also files the emissions in the (here unused) queue; the ghost [sent] keeps them *)
Fixpoint fexec (g : flow) (fuel : nat) (s : fstate) (n : nat) : fstate * fres :=
  match fuel with
  | O => (s, FFuel)
  | S f =>
      let '(s1, x) := run_node g s n in
      match x with
      | Refused => (s1, FReady n)
      | Ran => fdeliver_all g (fexec g f) s1 (emissions g (outv s1) false n)
      | Raised =>
          let '(s2, r) := fdeliver_all g (fexec g f) s1 (emissions g (outv s1) true n) in
          (s2, match r with FOk => FExc n | _ => r end)
      end
  end.

(* the caller runs the starting nodes one after the other, whatever each run ends with *)
Fixpoint fruns (g : flow) (fuel : nat) (s : fstate) (starting : list nat) : fstate * list fres :=
  match starting with
  | [] => (s, [])
  | n :: r => let '(s1, x) := fexec g fuel s n in
              let '(s2, xs) := fruns g fuel s1 r in (s2, x :: xs)
  end.

Definition obs_fres (r : fres) : obs :=
  match r with
  | FOk => OS "ok" | FExc n => OL [OS "UserExc"; on n] | FReady _ => OL [OS "Readiness"] | FFuel => OS "diverged"
  end.

Definition obs_free (g : flow) (fuel : nat) (starting : list nat) : obs :=
  let '(s, xs) := fruns g fuel (init_state g) starting in
  OL [OL (map obs_fres xs); OL (map on (started (log s))); OL (map obs_slot (outv s)); OL (map ob (failedv s))].
