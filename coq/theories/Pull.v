(* Pull.v -- executable model of Node.pull / Node.__call__ / Node.run_data_tree (C11).

   Anchors (all in /repo/pyiron_workflow):
     node.py      Node.run_data_tree, Node.pull, Node.__call__, Node._before_run, Node.run
     topology.py  get_nodes_in_data_tree, nodes_to_data_digraph,
                  _set_new_run_connections_with_fallback_recovery,
                  _set_run_connections_according_to_linear_dag (toposort_flatten)
     channels.py  Channel.connect / disconnect / disconnect_all, InputSignal,
                  AccumulatingInputSignal.__call__, OutputSignal.__call__
     io.py        InputSignals.disconnect_run, HasIO.__rshift__
     nodes/composite.py  Composite._on_run, _run_while_children_or_signals_exist,
                  register_child_emitting
     mixin/run.py Runnable.run/_run/_finish_run (where exceptions leave, who is marked failed)

   A SCOPE is a set of sibling nodes (the children of one composite, or parentless nodes),
   numbered 0..; everything per node is a function of that number.  Connection lists are
   ORDERED exactly as the Python lists (new connections are prepended on both sides).
   A STACK lists the scopes from the target's scope (level 0) up to the root: the parent of
   the nodes of level i is the node [snd] of level i+1.

   Output signals are numbered: node v's `ran` is emitter [ran_of v = 2v], its `failed` is
   [fail_of v = 2v+1]; input connection lists hold emitters, [c_ran] is indexed by emitter.

   What is NOT modelled: data values (fetching, readiness of data, caches -- every node is
   fresh and triggered at most once, so it is a cache miss), executors actually running, composite siblings other than the enclosing
   ones, the iteration order of Python sets (the closure is processed in the order the
   model computes it; only the ORDER inside restored connection lists depends on it). *)
From PW Require Import Base.

Inductive isig := IRun | IAcc.
Inductive pkind := PNone | PWf | PMacro.
Inductive err := ECyclic | EExecutor | ENotSiblings | EReady | EUser | EFailedChild | EFuel.
Inductive res := Ok | Err (e : err).

Definition isig_eqb a b := match a, b with IRun, IRun | IAcc, IAcc => true | _, _ => false end.
Definition tgt_eqb (a b : nat * isig) := Nat.eqb (fst a) (fst b) && isig_eqb (snd a) (snd b).
Definition memt := memb tgt_eqb.

Record scope := mkScope {
  lbl : nat -> string;               (* label                                             *)
  ups : nat -> list nat;             (* owners of the data connections of all inputs      *)
  c_run : nat -> list nat;           (* signals.input.run.connections: EMITTERS           *)
  c_acc : nat -> list nat;           (* signals.input.accumulate_and_run.connections      *)
  c_ran : nat -> list (nat * isig);  (* connections of an output signal, by EMITTER number *)
  recv : nat -> list nat;            (* accumulate_and_run.received_signals (emitters)    *)
  exe : nat -> bool;                 (* node.executor is not None                         *)
  bad : nat -> bool;                 (* the node's function raises                        *)
  failed : nat -> bool;              (* node.failed                                       *)
  par : pkind;                       (* what the parent of these nodes is                 *)
  starting : list nat;               (* parent.starting_nodes                             *)
  automate : bool;                   (* parent.automate_execution (Workflow parents)      *)
  pfailed : bool;                    (* parent.failed for a (root) Workflow parent        *)
  own : nat -> nat                   (* who owns the node: data connections may reach nodes of
                                        another composite (a different number than the target's) *)
}.

(* output signals: ran / failed of node v *)
Definition ran_of (v : nat) : nat := v + v.
Definition fail_of (v : nat) : nat := S (v + v).

Definition fupd {A} (f : nat -> A) (i : nat) (v : A) : nat -> A :=
  fun j => if Nat.eqb j i then v else f j.

Definition set_lbl sc f := mkScope f (ups sc) (c_run sc) (c_acc sc) (c_ran sc) (recv sc) (exe sc) (bad sc)
                                   (failed sc) (par sc) (starting sc) (automate sc) (pfailed sc) (own sc).
Definition set_run sc f := mkScope (lbl sc) (ups sc) f (c_acc sc) (c_ran sc) (recv sc) (exe sc) (bad sc)
                                   (failed sc) (par sc) (starting sc) (automate sc) (pfailed sc) (own sc).
Definition set_acc sc f := mkScope (lbl sc) (ups sc) (c_run sc) f (c_ran sc) (recv sc) (exe sc) (bad sc)
                                   (failed sc) (par sc) (starting sc) (automate sc) (pfailed sc) (own sc).
Definition set_ran sc f := mkScope (lbl sc) (ups sc) (c_run sc) (c_acc sc) f (recv sc) (exe sc) (bad sc)
                                   (failed sc) (par sc) (starting sc) (automate sc) (pfailed sc) (own sc).
Definition set_recv sc f := mkScope (lbl sc) (ups sc) (c_run sc) (c_acc sc) (c_ran sc) f (exe sc) (bad sc)
                                    (failed sc) (par sc) (starting sc) (automate sc) (pfailed sc) (own sc).
Definition set_failed sc f := mkScope (lbl sc) (ups sc) (c_run sc) (c_acc sc) (c_ran sc) (recv sc) (exe sc) (bad sc)
                                      f (par sc) (starting sc) (automate sc) (pfailed sc) (own sc).
Definition set_starting sc l := mkScope (lbl sc) (ups sc) (c_run sc) (c_acc sc) (c_ran sc) (recv sc) (exe sc) (bad sc)
                                        (failed sc) (par sc) l (automate sc) (pfailed sc) (own sc).
Definition set_automate sc b := mkScope (lbl sc) (ups sc) (c_run sc) (c_acc sc) (c_ran sc) (recv sc) (exe sc) (bad sc)
                                        (failed sc) (par sc) (starting sc) b (pfailed sc) (own sc).
Definition set_pfailed sc b := mkScope (lbl sc) (ups sc) (c_run sc) (c_acc sc) (c_ran sc) (recv sc) (exe sc) (bad sc)
                                       (failed sc) (par sc) (starting sc) (automate sc) b (own sc).

(* ---- channels.py: connect / disconnect on signal channels ---------------------------- *)
Definition conns_in sc (r : nat) (s : isig) : list nat :=
  match s with IRun => c_run sc r | IAcc => c_acc sc r end.
Definition set_in sc (r : nat) (s : isig) (l : list nat) : scope :=
  match s with IRun => set_run sc (fupd (c_run sc) r l) | IAcc => set_acc sc (fupd (c_acc sc) r l) end.
Definition set_out sc (e : nat) (l : list (nat * isig)) : scope := set_ran sc (fupd (c_ran sc) e l).

(* a remembered (disconnected) pair: [true] = produced by the output side (ran.disconnect_all),
   so that re-connecting calls output.connect(input); [false] = input.connect(output) *)
Definition cpair := (bool * nat * (nat * isig))%type.      (* (from_out, emitter, (receiver, trigger)) *)

(* input(r,s).disconnect(ran of e): remove from own list, then other.disconnect(self) *)
Definition disc_from_in sc r s e : scope * list cpair :=
  if memn e (conns_in sc r s) then
    let sc1 := set_in sc r s (remove1 Nat.eqb e (conns_in sc r s)) in
    let sc2 := if memt (r, s) (c_ran sc1 e)
               then set_out sc1 e (remove1 tgt_eqb (r, s) (c_ran sc1 e)) else sc1 in
    (sc2, [(false, e, (r, s))])
  else (sc, []).

(* ran(e).disconnect(input (r,s)) *)
Definition disc_from_out sc e r s : scope * list cpair :=
  if memt (r, s) (c_ran sc e) then
    let sc1 := set_out sc e (remove1 tgt_eqb (r, s) (c_ran sc e)) in
    let sc2 := if memn e (conns_in sc1 r s)
               then set_in sc1 r s (remove1 Nat.eqb e (conns_in sc1 r s)) else sc1 in
    (sc2, [(true, e, (r, s))])
  else (sc, []).

(* channel.disconnect_all() = self.disconnect( *snapshot of self.connections ) *)
Fixpoint disc_in_list sc r s (snapshot : list nat) : scope * list cpair :=
  match snapshot with
  | [] => (sc, [])
  | e :: rest => let '(sc1, p1) := disc_from_in sc r s e in
                 let '(sc2, p2) := disc_in_list sc1 r s rest in (sc2, p1 ++ p2)
  end.
Fixpoint disc_out_list sc e (snapshot : list (nat * isig)) : scope * list cpair :=
  match snapshot with
  | [] => (sc, [])
  | (r, s) :: rest => let '(sc1, p1) := disc_from_out sc e r s in
                      let '(sc2, p2) := disc_out_list sc1 e rest in (sc2, p1 ++ p2)
  end.

(* InputSignals.disconnect_run: run.disconnect_all() then accumulate_and_run.disconnect_all() *)
Definition disconnect_run sc r : scope * list cpair :=
  let '(sc1, p1) := disc_in_list sc r IRun (c_run sc r) in
  let '(sc2, p2) := disc_in_list sc1 r IAcc (c_acc sc1 r) in (sc2, p1 ++ p2).
Definition ran_disconnect_all sc v : scope * list cpair := disc_out_list sc (ran_of v) (c_ran sc (ran_of v)).

(* Channel.connect for one `other`: already listed on MY side -> nothing; else prepend on both *)
Definition connect_in sc r s e : scope :=
  if memn e (conns_in sc r s) then sc
  else let sc1 := set_in sc r s (e :: conns_in sc r s) in set_out sc1 e ((r, s) :: c_ran sc1 e).
Definition connect_out sc e r s : scope :=
  if memt (r, s) (c_ran sc e) then sc
  else let sc1 := set_out sc e ((r, s) :: c_ran sc e) in set_in sc1 r s (e :: conns_in sc1 r s).
Definition reconnect sc (p : cpair) : scope :=
  let '(from_out, e, (r, s)) := p in if from_out then connect_out sc e r s else connect_in sc r s e.

(* ---- topology.py ----------------------------------------------------------------------- *)
Definition add_new (x : nat) (l : list nat) : list nat := if memn x l then l else l ++ [x].
Definition union (a b : list nat) : list nat := fold_left (fun acc x => add_new x acc) b a.

(* get_nodes_in_data_tree: plain recursion over all connections of all inputs; Python's
   RecursionError (-> CircularDataFlowError) is fuel exhaustion *)
Fixpoint closure (fuel : nat) (up : nat -> list nat) (k : nat) : option (list nat) :=
  match fuel with
  | 0 => None
  | S f => fold_left (fun acc u => match acc with
                                   | None => None
                                   | Some a => match closure f up u with
                                               | None => None
                                               | Some b => Some (union a b)
                                               end
                                   end) (up k) (Some [k])
  end.

(* sorted() of one toposort layer: by label (ties: by number; the harness keeps labels distinct) *)
Definition lab_le (lb : nat -> string) (a b : nat) : bool :=
  if String.eqb (lb a) (lb b) then Nat.leb a b else String.leb (lb a) (lb b).
Fixpoint insert_by (le : nat -> nat -> bool) (x : nat) (l : list nat) : list nat :=
  match l with [] => [x] | y :: r => if le x y then x :: l else y :: insert_by le x r end.
Definition sort_by (le : nat -> nat -> bool) (l : list nat) : list nat :=
  fold_right (insert_by le) [] l.

(* toposort_flatten(digraph, sort=True): repeatedly take the items without remaining
   dependencies, sorted; nothing to take while items remain -> CircularDependencyError *)
Fixpoint layers (fuel : nat) (up : nat -> list nat) (le : nat -> nat -> bool) (rem : list nat)
  : option (list nat) :=
  match rem with
  | [] => Some []
  | _ => match fuel with
         | 0 => None
         | S f =>
           let ready := filter (fun v => negb (existsb (fun u => memn u rem) (up v))) rem in
           match ready with
           | [] => None
           | _ => match layers f up le (filter (fun v => negb (memn v ready)) rem) with
                  | None => None
                  | Some o => Some (sort_by le ready ++ o)
                  end
           end
         end
  end.

(* nodes_to_data_digraph raises when a node is among its own dependencies *)
Definition self_dep sc (D : list nat) : bool := existsb (fun v => memn v (ups sc v)) D.

(* nodes_to_data_digraph first of all insists that the nodes all have the same parent *)
Definition siblings sc (k : nat) (D : list nat) : bool := forallb (fun v => Nat.eqb (own sc v) (own sc k)) D.

Definition linear_order sc (D : list nat) : option (list nat) :=
  if self_dep sc D then None else layers (S (List.length D)) (ups sc) (lab_le (lbl sc)) D.

(* for i, label in enumerate(order[:-1]): nodes[label] >> nodes[order[i+1]] *)
Fixpoint chain sc (order : list nat) : scope :=
  match order with
  | a :: ((b :: _) as rest) => chain (connect_in sc b IRun (ran_of a)) rest
  | _ => sc
  end.

(* _set_new_run_connections_with_fallback_recovery, first half: for every node
   disconnect_run() and ran.disconnect_all(), remembering the pairs *)
Fixpoint wrap_disconnect sc (D : list nat) : scope * list cpair :=
  match D with
  | [] => (sc, [])
  | v :: rest => let '(sc1, p1) := disconnect_run sc v in
                 let '(sc2, p2) := ran_disconnect_all sc1 v in
                 let '(sc3, p3) := wrap_disconnect sc2 rest in (sc3, p1 ++ p2 ++ p3)
  end.

Definition reconnect_all sc (pairs : list cpair) : scope := fold_left reconnect pairs sc.

(* ---- running --------------------------------------------------------------------------- *)
Definition entry := (nat * nat)%type.        (* (level, node): one call of a node's function *)

Definition mark_failed sc k := set_failed sc (fupd (failed sc) k true).

(* AccumulatingInputSignal.__call__(other): record, fire when every connection has signalled *)
Definition acc_deliver sc (r e : nat) : scope * bool :=
  let rc := if memn e (recv sc r) then recv sc r else e :: recv sc r in
  if forallb (fun c => memn c rc) (c_acc sc r)
  then (set_recv sc (fupd (recv sc) r []), true)
  else (set_recv sc (fupd (recv sc) r rc), false).

(* one Node.run() with default flags of a node that is NOT inside a running parent, given what
   emitting an output signal does: readiness gate, the call (logged), then emit `ran`; when the
   function raises: failed:=True, `failed` is emitted (Runnable._run: _run_exception,
   _run_finally, raise e), and an exception of a handler replaces the original one *)
Definition run_with (emit : scope -> nat -> scope * list entry * res) (lv : nat) sc (r : nat)
  : scope * list entry * res :=
  if failed sc r then (sc, [], Err EReady)
  else if bad sc r then
    let '(sc1, l, x) := emit (mark_failed sc r) (fail_of r) in
    (sc1, (lv, r) :: l, match x with Ok => Err EUser | Err _ => x end)
  else let '(sc1, l, x) := emit sc (ran_of r) in (sc1, (lv, r) :: l, x).

(* OutputSignal.__call__: for c in self.connections: c(self) -- depth first, exceptions leave *)
Fixpoint deliver_all (runf : scope -> nat -> scope * list entry * res) (e : nat)
         (conns : list (nat * isig)) sc : scope * list entry * res :=
  match conns with
  | [] => (sc, [], Ok)
  | (r, s) :: rest =>
    let '(sc1, go) := match s with IRun => (sc, true) | IAcc => acc_deliver sc r e end in
    if go then
      let '(sc2, l2, x2) := runf sc1 r in
      match x2 with
      | Ok => let '(sc3, l3, x3) := deliver_all runf e rest sc2 in (sc3, l2 ++ l3, x3)
      | Err _ => (sc2, l2, x2)
      end
    else deliver_all runf e rest sc1
  end.

(* calling the output signal (emitter) e outside a running parent *)
Fixpoint emit_dfs (fuel : nat) (lv : nat) sc (e : nat) : scope * list entry * res :=
  match fuel with
  | 0 => (sc, [], Err EFuel)
  | S f => deliver_all (run_with (emit_dfs f lv) lv) e (c_ran sc e) sc
  end.
Definition run_dfs fuel lv sc k := run_with (emit_dfs fuel lv) lv sc k.

(* inside a running parent: Node.run() registers and appends its signals to the parent's queue *)
Definition qitem := (nat * (nat * isig))%type.      (* (emitter, (receiver, trigger)) *)
Definition run_q (lv : nat) sc (r : nat) : scope * list entry * list qitem * res :=
  if failed sc r then (sc, [], [], Err EReady)
  else if bad sc r then (mark_failed sc r, [(lv, r)], map (fun t => (fail_of r, t)) (c_ran sc (fail_of r)), Err EUser)
  else (sc, [(lv, r)], map (fun t => (ran_of r, t)) (c_ran sc (ran_of r)), Ok).

(* Composite._run_while_children_or_signals_exist: pop(0), receiving(firing), errors collected *)
Fixpoint queue_loop (fuel : nat) (lv : nat) sc (q : list qitem) (errs : bool)
  : scope * list entry * res :=
  match q with
  | [] => (sc, [], if errs then Err EFailedChild else Ok)
  | (e, (r, s)) :: rest =>
    match fuel with
    | 0 => (sc, [], Err EFuel)
    | S f =>
      let '(sc1, go) := match s with IRun => (sc, true) | IAcc => acc_deliver sc r e end in
      if go then
        let '(sc2, l2, q2, x2) := run_q lv sc1 r in
        let '(sc3, l3, x3) := queue_loop f lv sc2 (rest ++ q2)
                                         (match x2 with Ok => errs | Err _ => true end) in
        (sc3, l2 ++ l3, x3)
      else queue_loop f lv sc1 rest errs
    end
  end.

(* Composite._on_run: for node in self.starting_nodes: node.run()  (an exception here leaves
   directly), then the queue loop *)
Fixpoint run_starters (lv : nat) sc (st : list nat) : scope * list entry * list qitem * res :=
  match st with
  | [] => (sc, [], [], Ok)
  | s :: rest =>
    let '(sc1, l1, q1, x1) := run_q lv sc s in
    match x1 with
    | Err _ => (sc1, l1, q1, x1)
    | Ok => let '(sc2, l2, q2, x2) := run_starters lv sc1 rest in (sc2, l1 ++ l2, q1 ++ q2, x2)
    end
  end.
Definition run_children fuel lv sc : scope * list entry * res :=
  let '(sc1, l1, q1, x1) := run_starters lv sc (starting sc) in
  match x1 with
  | Err _ => (sc1, l1, x1)
  | Ok => let '(sc2, l2, x2) := queue_loop fuel lv sc1 q1 false in (sc2, l1 ++ l2, x2)
  end.

(* self.parent.run() (a Workflow) / self.parent.run(emit_ran_signal=False) (any other parent):
   readiness of the parent, its children, parent.failed on an exception; the parent emits
   nothing *)
Definition upper := option (scope * nat).
Definition run_parent fuel lv sc (up : upper) : scope * upper * list entry * res :=
  let pf := match par sc, up with
            | PMacro, Some (usc, pk) => failed usc pk
            | PWf, _ => pfailed sc
            | _, _ => false
            end in
  if pf then (sc, up, [], Err EReady)
  else
    let '(sc1, l1, x1) := run_children fuel lv sc in
    match x1 with
    | Err _ =>
      match par sc, up with
      | PMacro, Some (usc, pk) => (sc1, Some (mark_failed usc pk, pk), l1, x1)
      | PWf, _ => (set_pfailed sc1 true, up, l1, x1)
      | _, _ => (sc1, up, l1, x1)
      end
    | Ok => (sc1, up, l1, x1)
    end.

(* ---- Node.run_data_tree in one scope --------------------------------------------------- *)
Definition relabel_tag : string := "#".
Definition relabel sc (D : list nat) : scope :=
  set_lbl sc (fun j => if memn j D then String.append (lbl sc j) relabel_tag else lbl sc j).
(* label_map[modified] -> original, looked up per node of the closure *)
Definition restore_labels sc (D : list nat) (label_map : nat -> string) : scope :=
  set_lbl sc (fun j => if memn j D then label_map j else lbl sc j).

Fixpoint disconnect_run_all sc (D : list nat) : scope :=
  match D with [] => sc | v :: rest => disconnect_run_all (fst (disconnect_run sc v)) rest end.

(* the `finally:` clause *)
Definition finally_restore sc (D : list nat) (label_map : nat -> string) (pairs : list cpair)
           (saved_starting : list nat) : scope :=
  let sc1 := restore_labels sc D label_map in
  let sc2 := disconnect_run_all sc1 D in
  let sc3 := reconnect_all sc2 pairs in
  match par sc3 with PNone => sc3 | _ => set_starting sc3 saved_starting end.

(* the body of the `try:` once the linear wiring is in place ([first] = the only starter) *)
Definition run_upstream (fuel lv : nat) sc3 (k first : nat) (up : upper) : scope * upper * list entry * res :=
  if Nat.eqb first k then (sc3, up, [], Ok)          (* nothing upstream *)
  else
    let sc3' := fst (disconnect_run sc3 k) in         (* self.signals.disconnect_run() *)
    match par sc3' with
    | PNone => let '(a, b, c) := run_dfs fuel lv sc3' first in (a, up, b, c)
    | PWf =>
      let old := automate sc3' in
      let '(a, u, b, c) := run_parent fuel lv (set_starting (set_automate sc3' false) [first]) up in
      (match c with Ok => set_automate a old | Err _ => a end, u, b, c)
    | PMacro => run_parent fuel lv (set_starting sc3' [first]) up
    end.

Definition level_pull (fuel lv : nat) sc (k : nat) (up : upper) : scope * upper * list entry * res :=
  match closure fuel (ups sc) k with
  | None => (sc, up, [], Err ECyclic)
  | Some D =>
    if existsb (exe sc) D then (sc, up, [], Err EExecutor)
    else
      let label_map := lbl sc in
      let sc1 := relabel sc D in
      let '(sc2, pairs) := wrap_disconnect sc1 D in
      match (if siblings sc k D then linear_order sc2 D else None) with
      | None =>       (* the helper re-connects what it broke, run_data_tree restores the labels;
                         the exception is the helper's: ValueError "must all be siblings" when a data
                         connection crosses composites, else CircularDataFlowError *)
        (restore_labels (reconnect_all sc2 pairs) D label_map, up, [],
         Err (if siblings sc k D then ECyclic else ENotSiblings))
      | Some order =>
        let sc3 := chain sc2 order in
        let saved := starting sc3 in
        let '(sc4, up4, l4, x4) := run_upstream fuel lv sc3 k (hd k order) up in
        (finally_restore sc4 D label_map pairs saved, up4, l4, x4)
      end
  end.

(* ---- the whole pull: parent scopes first (optionally), then this scope, then the node ---- *)
Definition stack := list (scope * nat).

Definition put_upper (rest : stack) (up : upper) : stack :=
  match rest, up with
  | _ :: r, Some u => u :: r
  | _, _ => rest
  end.

Fixpoint pull_tree (fuel : nat) (parents : bool) (lv : nat) (st : stack) : stack * list entry * res :=
  match st with
  | [] => ([], [], Ok)
  | (sc, k) :: rest =>
    let '(rest1, l0, x0) :=
        match par sc with
        | PMacro => if parents then pull_tree fuel parents (S lv) rest else (rest, [], Ok)
        | _ => (rest, [], Ok)      (* a Workflow parent's own data tree is itself: no effect *)
        end in
    match x0 with
    | Err _ => ((sc, k) :: rest1, l0, x0)
    | Ok =>
      let '(sc1, up1, l1, x1) := level_pull fuel lv sc k (hd_error rest1) in
      ((sc1, k) :: put_upper rest1 up1, l0 ++ l1, x1)
    end
  end.

(* Node.pull(run_parent_trees_too=parents); Node.__call__ = pull with parents = true.
   After the data tree the node itself runs (readiness, call) without emitting. *)
Definition pull (fuel : nat) (parents : bool) (st : stack) : stack * list entry * res :=
  let '(st1, l1, x1) := pull_tree fuel parents 0 st in
  match x1, st1 with
  | Ok, (sc, k) :: rest =>
    if failed sc k then (st1, l1, Err EReady)
    else if bad sc k then ((mark_failed sc k, k) :: rest, l1 ++ [(0, k)], Err EUser)
    else (st1, l1 ++ [(0, k)], Ok)
  | _, _ => (st1, l1, x1)
  end.

(* ---- observation (what the harness compares) ------------------------------------------- *)
Definition tgt_le (a b : nat * isig) : bool :=
  if Nat.eqb (fst a) (fst b) then (match snd a, snd b with IAcc, IRun => false | _, _ => true end)
  else Nat.leb (fst a) (fst b).
Fixpoint insert_t (x : nat * isig) (l : list (nat * isig)) :=
  match l with [] => [x] | y :: r => if tgt_le x y then x :: l else y :: insert_t x r end.
Definition sort_t l := fold_right insert_t [] l.
Definition sort_n := sort_by Nat.leb.

Definition obs_isig s := match s with IRun => OZ 0 | IAcc => OZ 1 end.
Definition obs_res (x : res) : obs :=
  match x with
  | Ok => OS "ok"
  | Err ECyclic => OS "CircularDataFlowError"
  | Err EExecutor => OS "ValueError"
  | Err ENotSiblings => OS "ValueError"
  | Err EReady => OS "ReadinessError"
  | Err EUser => OS "RuntimeError"
  | Err EFailedChild => OS "FailedChildError"
  | Err EFuel => OS "FUEL"
  end.
Definition obs_nats (l : list nat) := OL (map on l).
Definition obs_node (ordered : bool) sc (i : nat) : obs :=
  let sn := if ordered then (fun l => l) else sort_n in
  let st := if ordered then (fun l => l) else sort_t in
  OL [OS (lbl sc i); obs_nats (sn (c_run sc i)); obs_nats (sn (c_acc sc i));
      OL (map (fun t => OL [on (fst t); obs_isig (snd t)]) (st (c_ran sc (ran_of i))));
      OL (map (fun t => OL [on (fst t); obs_isig (snd t)]) (st (c_ran sc (fail_of i))));
      obs_nats (sort_n (recv sc i)); ob (failed sc i)].
Definition obs_scope (ordered : bool) (n : nat) sc : obs :=
  OL [OL (map (obs_node ordered sc) (seq 0 n)); obs_nats (starting sc); ob (automate sc); ob (pfailed sc)].
Definition obs_entry (e : entry) := OL [on (fst e); on (snd e)].

(* [sizes]: number of nodes of every level, bottom first *)
Definition obs_pull (ordered : bool) (sizes : list nat) (r : stack * list entry * res) : obs :=
  let '(st, l, x) := r in
  OL [obs_res x; OL (map obs_entry l);
      OL (map (fun p => obs_scope ordered (fst p) (fst (snd p))) (combine sizes st))].

(* table-driven construction used by the harness *)
Definition tbl {A} (d : A) (l : list A) : nat -> A := fun i => nth i l d.
