(* Edit.v -- executable model of the graph-editing code of pyiron_workflow (property C14).

   Mirrors, step by step and in source order (tree at 74b924f),
     channels.py   Channel.connect / _valid_connection / disconnect / disconnect_all /
                   copy_connections (undo log as written), DataChannel.value setter
                   (type check, forward to the value receiver, then store), value_receiver setter
     io.py         HasIO._copy_connections / _copy_values / _copy_panel / copy_io with their undo
                   logs AS WRITTEN, HasIO.disconnect, InputSignals.disconnect_run
     composite.py  Composite.remove_child / add_child (bookkeeping) / replace_child (checks,
                   copy_io, starting-node status, inbound / outbound value links, remove, label
                   swap, add, re-forging of the links), set_run_signals_to_dag_execution
     workflow.py   Workflow.replace_child / _rebuild_data_io (IO maps)
     topology.py   nodes_to_data_digraph, _set_new_run_connections_with_fallback_recovery,
                   _set_run_connections_according_to_dag / _linear_dag, get_nodes_in_data_tree
     node.py       Node.run_data_tree up to a refused flow derivation (temporary labels, restore)

   A world [W] is the static description of every channel; channel ids are positions in [W].
   The mutable graph: ordered partner list / value / value receiver per channel, parent and
   label per node, the ordered children and the starting nodes of THE composite being edited.
   Stores are total functions (pointwise reasoning, no extensionality needed).

   FAULT ORACLE.  Every transfer the edits are made of can be made to fail: the state carries
   three counters, [fc] for single connections (one tick per `other` of Channel.connect), [fv]
   for value assignments (one tick per call of the value setter), [fl] for value-link
   assignments (one tick per call of the value_receiver setter).  A counter k > 0 makes the
   k-th such transfer raise (once); 0 = never.  The harness injects exactly these failures into
   the real library.  Stdlib only. *)
From PW Require Import Base.

Inductive panel := PIn | POut | PSIn | PSOut.
Inductive htag := HInt | HStr | HIntStr.          (* int, str, int | str *)
Inductive val := VI (z : Z) | VS (z : Z).         (* an int, the string "s<z>" *)

Definition panel_eqb (a b : panel) : bool :=
  match a, b with PIn, PIn | POut, POut | PSIn, PSIn | PSOut, PSOut => true | _, _ => false end.

(* type_hint_is_as_or_more_specific_than on the three tags; valid_value (both validated against
   the real functions by the harness on every run) *)
Definition compat (o i : htag) : bool :=
  match o, i with
  | HInt, HInt | HStr, HStr | HIntStr, HIntStr | HInt, HIntStr | HStr, HIntStr => true
  | _, _ => false
  end.
Definition valid (v : val) (h : htag) : bool :=
  match v, h with
  | VI _, HInt | VI _, HIntStr | VS _, HStr | VS _, HIntStr => true
  | _, _ => false
  end.

Record cstat := mkc {
  c_owner : nat;            (* node index *)
  c_label : nat;            (* index in the harness' table of channel labels *)
  c_panel : panel;
  c_hint : option htag;     (* data channels only *)
  c_strict : bool           (* strict_hints *)
}.
Definition world := list cstat.

Definition L_RUN := 5.
Definition L_ACC := 6.
Definition L_RAN := 7.

Inductive exn :=
| TypeErr | ConnErr | ValueErr | AttrErr | KeyErr | ConnCopyErr | ValueCopyErr | CircErr
| Injected       (* the injected failure itself, when nothing wraps it *)
| RecErr.        (* RecursionError *)
Inductive res := Ok | Err (e : exn).

(* the k-th transfer fails: 0 = disarmed *)
Definition tick (k : nat) : nat * bool :=
  match k with 0 => (0, false) | 1 => (0, true) | S k' => (k', false) end.

Definition upd {A} (f : nat -> A) (k : nat) (v : A) : nat -> A :=
  fun c => if Nat.eqb c k then v else f c.

Definition cstore := nat -> list nat.          (* per channel: partners, newest first *)
Definition vstore := nat -> option val.        (* None = NOT_DATA *)
Definition rstore := nat -> option nat.        (* value_receiver *)

Definition opt_list {A} (o : option A) : list A := match o with Some a => [a] | None => [] end.
Definition optnat_eqb (a b : option nat) : bool :=
  match a, b with
  | None, None => true
  | Some x, Some y => Nat.eqb x y
  | _, _ => false
  end.

Fixpoint dedup (l : list nat) : list nat :=
  match l with [] => [] | x :: r => if memn x r then dedup r else x :: dedup r end.
Fixpoint dedup_first (seen l : list nat) : list nat :=
  match l with
  | [] => []
  | x :: r => if memn x seen then dedup_first seen r else x :: dedup_first (x :: seen) r
  end.
(* the members of [C], first those named by [order] (in that order, once), then the rest *)
Definition arrange (order C : list nat) : list nat :=
  filter (fun v => memn v C) (dedup_first [] order) ++ filter (fun v => negb (memn v order)) C.

Section Model.
Variable W : world.

Definition cget (c : nat) : option cstat := nth_error W c.
Definition owner_of (c : nat) : nat := match cget c with Some x => c_owner x | None => 0 end.
Definition clabel (c : nat) : nat := match cget c with Some x => c_label x | None => 0 end.

Definition conj_panel (p q : panel) : bool :=
  match p, q with PIn, POut | POut, PIn | PSIn, PSOut | PSOut, PSIn => true | _, _ => false end.

(* isinstance(other, self.connection_conjugate()) *)
Definition conjb (a b : nat) : bool :=
  match cget a, cget b with
  | Some x, Some y => conj_panel (c_panel x) (c_panel y)
  | _, _ => false
  end.

Definition hint_ok (o i : cstat) : bool :=
  match c_hint o, c_hint i with
  | Some ho, Some hi => if c_strict i then compat ho hi else true
  | _, _ => true
  end.

(* DataChannel._valid_connection (signals: always True) *)
Definition validb (a b : nat) : bool :=
  match cget a, cget b with
  | Some x, Some y =>
      match c_panel x with
      | PIn => hint_ok y x
      | POut => hint_ok x y
      | _ => true
      end
  | _, _ => false
  end.

(* ---- channels.py: connections ------------------------------------------------------- *)
Definition link_raw (s : cstore) (a b : nat) : cstore :=
  let s1 := upd s a (b :: s a) in             (* self.connections.insert(0, other) *)
  upd s1 b (a :: s1 b).                       (* other.connections.insert(0, self) *)

(* Channel.connect for one [other]; the fault wrapper ticks first *)
Definition connect1 (s : cstore) (k a b : nat) : cstore * nat * res :=
  let '(k', boom) := tick k in
  if boom then (s, k', Err Injected)
  else if memn b (s a) then (s, k', Ok)
  else if conjb a b then
    if validb a b then (link_raw s a b, k', Ok) else (s, k', Err ConnErr)
  else (s, k', Err TypeErr).

(* Channel.connect( *others): stops at the first exception *)
Fixpoint connect (s : cstore) (k a : nat) (bs : list nat) : cstore * nat * res * nat :=
  match bs with
  | [] => (s, k, Ok, 0)
  | b :: r => match connect1 s k a b with
              | (s', k', Ok) => let '(s2, k2, r2, n) := connect s' k' a r in (s2, k2, r2, S n)
              | (s', k', Err e) => (s', k', Err e, 0)
              end
  end.

(* one [other] of Channel.disconnect: `if other in self.connections: remove; other.disconnect(self)` *)
Fixpoint disc_rec (fuel : nat) (s : cstore) (a b : nat) : cstore :=
  match fuel with
  | 0 => s
  | S f => if memn b (s a)
           then disc_rec f (upd s a (remove1 Nat.eqb b (s a))) b a
           else s
  end.
Definition disc1 (s : cstore) (a b : nat) : cstore :=
  disc_rec (S (List.length (s a) + List.length (s b))) s a b.

(* Channel.disconnect( *others) -> destroyed (self, other) pairs *)
Fixpoint disconnect (s : cstore) (a : nat) (bs : list nat) : cstore * list (nat * nat) :=
  match bs with
  | [] => (s, [])
  | b :: r => if memn b (s a)
              then let '(s', ps) := disconnect (disc1 s a b) a r in (s', (a, b) :: ps)
              else disconnect s a r
  end.
Definition disconnect_all (s : cstore) (a : nat) := disconnect s a (s a).

(* Channel.copy_connections: `new_connections` also records the already-connected ones *)
Fixpoint copy_go (a : nat) (ts new : list nat) (s : cstore) (k : nat) : cstore * nat * res :=
  match ts with
  | [] => (s, k, Ok)
  | t :: r => match connect1 s k a t with
              | (s', k', Ok) => copy_go a r (new ++ [t]) s' k'
              | (s', k', Err e) => (fst (disconnect s' a new), k', Err e)
              end
  end.
Definition copy_conns (s : cstore) (k a o : nat) : cstore * nat * res := copy_go a (s o) [] s k.

(* ---- io.py: panels ------------------------------------------------------------------- *)
Definition ids : list nat := seq 0 (List.length W).
Definition in_panel (n : nat) (p : panel) (c : nat) : bool :=
  match cget c with
  | Some x => Nat.eqb (c_owner x) n && panel_eqb (c_panel x) p
  | None => false
  end.
Definition panel_chans (n : nat) (p : panel) : list nat := filter (in_panel n p) ids.
Definition has_label (l : nat) (c : nat) : bool := Nat.eqb (clabel c) l.
Definition find_chan (n : nat) (p : panel) (l : nat) : option nat := find (has_label l) (panel_chans n p).
(* _owned_io_panels *)
Definition all_chans (n : nat) : list nat :=
  panel_chans n PIn ++ panel_chans n POut ++ panel_chans n PSIn ++ panel_chans n PSOut.
(* my_panel[key] for the channel [ch] of the other object *)
Definition my_chan (n : nat) (ch : nat) : option nat :=
  match cget ch with Some x => find_chan n (c_panel x) (c_label x) | None => None end.

Fixpoint disconnect_all_list (s : cstore) (cs : list nat) : cstore * list (nat * nat) :=
  match cs with
  | [] => (s, [])
  | c :: r => let '(s1, p1) := disconnect_all s c in
              let '(s2, p2) := disconnect_all_list s1 r in (s2, p1 ++ p2)
  end.
(* HasIO.disconnect *)
Definition node_disconnect (s : cstore) (n : nat) := disconnect_all_list s (all_chans n).
(* InputSignals.disconnect_run *)
Definition run_chans (n : nat) : list nat :=
  opt_list (find_chan n PSIn L_RUN) ++ opt_list (find_chan n PSIn L_ACC).

(* `for this, that in new_connections: this.disconnect(that)` *)
Definition undo_pairs (s : cstore) (ps : list (nat * nat)) : cstore :=
  fold_left (fun s p => fst (disconnect s (fst p) [snd p])) ps s.

(* HasIO._copy_connections, innermost loop; [my] = my_panel[key] (None -> AttributeError in the try) *)
Fixpoint cc_targets (fh : bool) (my : option nat) (ts : list nat) (s : cstore) (k : nat)
         (new : list (nat * nat)) : cstore * nat * list (nat * nat) * bool :=
  match ts with
  | [] => (s, k, new, false)
  | t :: r =>
      match my with
      | None => if fh then (undo_pairs s new, k, new, true) else cc_targets fh my r s k new
      | Some c =>
          match connect1 s k c t with
          | (s', k', Ok) => cc_targets fh my r s' k' (new ++ [(c, t)])
          | (s', k', Err _) => if fh then (undo_pairs s' new, k', new, true) else cc_targets fh my r s' k' new
          end
      end
  end.

Fixpoint cc_channels (fh : bool) (n : nat) (chs : list nat) (s : cstore) (k : nat)
         (new : list (nat * nat)) : cstore * nat * list (nat * nat) * bool :=
  match chs with
  | [] => (s, k, new, false)
  | ch :: r =>
      let '(s1, k1, new1, raised) := cc_targets fh (my_chan n ch) (s ch) s k new in
      if raised then (s1, k1, new1, true) else cc_channels fh n r s1 k1 new1
  end.

Definition copy_connections_io (fh : bool) (n m : nat) (s : cstore) (k : nat) :=
  cc_channels fh n (all_chans m) s k [].

(* ---- channels.py: values and value links ---------------------------------------------- *)
(* DataChannel._type_check_new_value *)
Definition type_ok (c : nat) (x : option val) : bool :=
  match x, cget c with
  | Some y, Some st =>
      if c_strict st then match c_hint st with Some h => valid y h | None => true end else true
  | _, _ => true
  end.

(* the value setter: (fault wrapper,) type check, forward to the receiver, then store *)
Fixpoint set_value (fuel : nat) (r : rstore) (v : vstore) (k : nat) (c : nat) (x : option val)
  : vstore * nat * res :=
  match fuel with
  | 0 => (v, k, Err RecErr)
  | S f =>
      let '(k', boom) := tick k in
      if boom then (v, k', Err Injected)
      else if type_ok c x then
        match r c with
        | Some d => match set_value f r v k' d x with
                    | (v1, k1, Ok) => (upd v1 c x, k1, Ok)
                    | bad => bad
                    end
        | None => (upd v c x, k', Ok)
        end
      else (v, k', Err TypeErr)
  end.
Definition vfuel : nat := S (List.length W).

Definition is_data (c : nat) : bool :=
  match cget c with Some x => match c_panel x with PIn | POut => true | _ => false end | None => false end.
Definition same_class (a b : nat) : bool :=
  match cget a, cget b with
  | Some x, Some y => is_data a && panel_eqb (c_panel x) (c_panel y)
  | _, _ => false
  end.
Definition link_hint_bad (a b : nat) : bool :=
  match cget a, cget b with
  | Some x, Some y =>
      match c_hint x, c_hint y with
      | Some hx, Some hy => c_strict y && negb (compat hx hy)
      | _, _ => false
      end
  | _, _ => false
  end.

(* the value_receiver setter (new_partner is not None) *)
Definition set_receiver (r : rstore) (v : vstore) (kv kl : nat) (a b : nat)
  : rstore * vstore * nat * nat * res :=
  let '(kl', boom) := tick kl in
  if boom then (r, v, kv, kl', Err Injected)
  else if negb (same_class a b) then (r, v, kv, kl', Err TypeErr)
  else if Nat.eqb a b then (r, v, kv, kl', Err ValueErr)
  else if link_hint_bad a b then (r, v, kv, kl', Err ValueErr)
  else match set_value vfuel r v kv b (v a) with
       | (v1, kv1, Ok) => (upd r a (Some b), v1, kv1, kl', Ok)
       | (v1, kv1, Err e) => (r, v1, kv1, kl', Err e)
       end.

(* ---- io.py: _copy_panel / _copy_values ------------------------------------------------ *)
(* `for channel, value in old_values: channel.value = value`; an exception in here replaces the
   one being handled *)
Fixpoint undo_vals (r : rstore) (v : vstore) (k : nat) (old : list (nat * option val))
  : vstore * nat * res :=
  match old with
  | [] => (v, k, Ok)
  | (c, x) :: rest => match set_value vfuel r v k c x with
                      | (v1, k1, Ok) => undo_vals r v1 k1 rest
                      | bad => bad
                      end
  end.

(* the result of a copy that raised under fail_hard: the wrapped error if the undo ran through,
   otherwise whatever the undo raised *)
Definition after_undo (wrapped : exn) (u : vstore * nat * res) : vstore * nat * res :=
  match u with
  | (v, k, Ok) => (v, k, Err wrapped)
  | bad => bad
  end.

Fixpoint cp_go (fh : bool) (dst : nat) (p : panel) (chs : list nat) (r : rstore) (v : vstore) (k : nat)
         (old : list (nat * option val)) : vstore * nat * res :=
  match chs with
  | [] => (v, k, Ok)
  | ch :: rest =>
      match v ch with
      | None => cp_go fh dst p rest r v k old                   (* to_copy.value is NOT_DATA *)
      | Some x =>
          match find_chan dst p (clabel ch) with
          | None =>                                              (* my_panel[key]: AttributeError *)
              if fh then after_undo ValueCopyErr (undo_vals r v k old)
              else cp_go fh dst p rest r v k old
          | Some my =>
              match set_value vfuel r v k my (Some x) with
              | (v1, k1, Ok) => cp_go fh dst p rest r v1 k1 (old ++ [(my, v my)])
              | (v1, k1, Err _) =>
                  if fh then after_undo ValueCopyErr (undo_vals r v1 k1 old)
                  else cp_go fh dst p rest r v1 k1 old
              end
          end
      end
  end.
Definition copy_panel (fh : bool) (dst src : nat) (p : panel) (r : rstore) (v : vstore) (k : nat) :=
  cp_go fh dst p (panel_chans src p) r v k [].

(* _copy_values: the inputs panel, then the outputs panel, each with ITS OWN undo log.
   The bool says whether the failure came from the second (outputs) panel. *)
Definition copy_values (fh : bool) (dst src : nat) (r : rstore) (v : vstore) (k : nat)
  : vstore * nat * res * bool :=
  match copy_panel fh dst src PIn r v k with
  | (v1, k1, Ok) => (copy_panel fh dst src POut r v1 k1, true)
  | bad => (bad, false)
  end.

(* ---- the graph ---------------------------------------------------------------------------- *)
Record state := mks {
  cn : cstore;
  vl : vstore;
  rc : rstore;
  par : nat -> option nat;     (* node -> its parent composite *)
  lab : nat -> nat;            (* node -> label *)
  kids : list nat;             (* children of the composite, in `children` order *)
  start : list nat;            (* starting_nodes *)
  fc : nat; fv : nat; fl : nat (* fault counters *)
}.
Definition with_cn (st : state) (s : cstore) (k : nat) : state :=
  mks s (vl st) (rc st) (par st) (lab st) (kids st) (start st) k (fv st) (fl st).
Definition with_vl (st : state) (v : vstore) (k : nat) : state :=
  mks (cn st) v (rc st) (par st) (lab st) (kids st) (start st) (fc st) k (fl st).

(* where a copy_io failed *)
Inductive cphase := CConn | CValIn | CValOut.
Inductive cres := COk | CErr (e : exn) (ph : cphase).

(* HasIO.copy_io *)
Definition copy_io (st : state) (dst src : nat) (cfh vfh : bool) : state * cres :=
  let '(s1, k1, new, raised) := copy_connections_io cfh dst src (cn st) (fc st) in
  let st1 := with_cn st s1 k1 in
  if raised then (st1, CErr ConnCopyErr CConn)
  else
    match copy_values vfh dst src (rc st1) (vl st1) (fv st1) with
    | (v2, k2, Ok, _) => (with_vl st1 v2 k2, COk)
    | (v2, k2, Err e, second) =>
        let st2 := with_vl st1 v2 k2 in
        (with_cn st2 (undo_pairs (cn st2) new) (fc st2), CErr e (if second then CValOut else CValIn))
    end.

(* ---- composite.py ---------------------------------------------------------------------- *)
Definition connected (s : cstore) (n : nat) : bool :=
  existsb (fun c => match s c with [] => false | _ => true end) (all_chans n).

(* Composite.remove_child: Lexical bookkeeping, child.disconnect(), starting_nodes.remove *)
Definition remove_child (st : state) (n : nat) : state :=
  mks (fst (node_disconnect (cn st) n)) (vl st) (rc st)
      (upd (par st) n None) (lab st)
      (filter (fun k => negb (Nat.eqb k n)) (kids st))
      (remove1 Nat.eqb n (start st))
      (fc st) (fv st) (fl st).

Definition add_child (st : state) (comp n : nat) : state :=
  mks (cn st) (vl st) (rc st) (upd (par st) n (Some comp)) (lab st) (kids st ++ [n]) (start st)
      (fc st) (fv st) (fl st).

Definition swap_labels (st : state) (n m : nat) : state :=
  mks (cn st) (vl st) (rc st) (par st)
      (upd (upd (lab st) m (lab st n)) n (lab st m))
      (kids st) (start st) (fc st) (fv st) (fl st).

Definition add_start (st : state) (n : nat) : state :=
  mks (cn st) (vl st) (rc st) (par st) (lab st) (kids st) (start st ++ [n]) (fc st) (fv st) (fl st).

(* option-valued map: None as soon as one lookup fails *)
Fixpoint opt_map {A B} (f : A -> option B) (l : list A) : option (list B) :=
  match l with
  | [] => Some []
  | x :: r => match f x, opt_map f r with
              | Some y, Some ys => Some (y :: ys)
              | _, _ => None
              end
  end.

(* inbound_links: macro inputs whose value receiver is an input of the replaced node *)
Definition inbound (st : state) (comp old new : nat) : option (list (nat * nat)) :=
  opt_map (fun i => match rc st i with
                    | Some r => match find_chan new PIn (clabel r) with
                                | Some x => Some (i, x)
                                | None => None
                                end
                    | None => None
                    end)
          (filter (fun i => match rc st i with
                            | Some r => memn r (panel_chans old PIn)
                            | None => false
                            end) (panel_chans comp PIn)).

(* outbound_links: outputs of the replaced node whose value receiver is a macro output *)
Definition outbound (st : state) (comp old new : nat) : option (list (nat * nat)) :=
  opt_map (fun o => match rc st o, find_chan new POut (clabel o) with
                    | Some m, Some x => Some (x, m)
                    | _, _ => None
                    end)
          (filter (fun o => match rc st o with
                            | Some m => memn m (panel_chans comp POut)
                            | None => false
                            end) (panel_chans old POut)).

(* `for sending_channel, receiving_channel in inbound_links + outbound_links:
        sending_channel.value_receiver = receiving_channel` *)
Fixpoint reforge (st : state) (links : list (nat * nat)) : state * res :=
  match links with
  | [] => (st, Ok)
  | (a, b) :: rest =>
      let '(r1, v1, kv1, kl1, rs) := set_receiver (rc st) (vl st) (fv st) (fl st) a b in
      let st1 := mks (cn st) v1 r1 (par st) (lab st) (kids st) (start st) (fc st) kv1 kl1 in
      match rs with
      | Ok => reforge st1 rest
      | Err e => (st1, Err e)
      end
  end.

(* where a replace_child failed *)
Inductive rphase :=
| PhCheck       (* the guards before anything is touched *)
| PhCopy        (* copy_io raised (and unwound) *)
| PhLookup      (* a value-linked channel is missing on the replacement *)
| PhForge       (* re-forging a value link raised, after the swap *)
| PhRebuild.    (* Workflow._rebuild_data_io raised *)
Inductive rres := ROk | RErr (e : exn) (ph : rphase).

(* Composite.replace_child with a node instance *)
Definition replace_core (st : state) (comp old new : nat) : state * rres :=
  if negb (optnat_eqb (par st old) (Some comp)) then (st, RErr ValueErr PhCheck)
  else if negb (optnat_eqb (par st new) None) then (st, RErr ValueErr PhCheck)
  else if connected (cn st) new then (st, RErr ValueErr PhCheck)
  else
    match copy_io st new old true false with
    | (st1, CErr e _) => (st1, RErr e PhCopy)
    | (st1, COk) =>
        let is_start := memn old (start st1) in
        match inbound st1 comp old new with
        | None => (st1, RErr AttrErr PhLookup)
        | Some inb =>
            match outbound st1 comp old new with
            | None => (st1, RErr AttrErr PhLookup)
            | Some outb =>
                let st2 := remove_child st1 old in
                let st3 := swap_labels st2 old new in
                let st4 := add_child st3 comp new in
                let st5 := if is_start then add_start st4 new else st4 in
                match reforge st5 (inb ++ outb) with
                | (st6, Ok) => (st6, ROk)
                | (st6, Err e) => (st6, RErr e PhForge)
                end
            end
        end
    end.

(* ---- workflow.py: IO maps and _rebuild_data_io ------------------------------------------- *)
(* a map entry: (label of the node, label of the channel, is it an input, exposed key) *)
Definition wentry := (nat * nat * bool * nat)%type.

Definition map_key (st : state) (wm : list wentry) (inp : bool) (ch : nat) : option nat :=
  match find (fun e => match e with (nl, cl, i, _) =>
                         Nat.eqb nl (lab st (owner_of ch)) && Nat.eqb cl (clabel ch) && Bool.eqb i inp end) wm with
  | Some (_, _, _, key) => Some key
  | None => None
  end.

(* the mapped part of the IO panel, in panel order: (key, channel).  Unmapped channels are only
   exposed while unconnected and under a `node__channel` key no lookup below can hit. *)
Definition exposed (st : state) (wm : list wentry) (inp : bool) : list (nat * nat) :=
  flat_map (fun n => flat_map (fun ch => match map_key st wm inp ch with
                                         | Some key => [(key, ch)]
                                         | None => []
                                         end)
                              (panel_chans n (if inp then PIn else POut))) (kids st).

(* `for key, old_channel in old.items(): if old_channel.connected: new_channel = new[key];
   if new_channel is old_channel: continue; new_channel.copy_connections(old_channel);
   old_channel.disconnect_all()` (tree at a33e34e).  Both panels are built from the same children and the
   same map, so the channel found under the key is the old channel itself and nothing is ever moved; the
   other branches are kept so that a change of the lookup shows. *)
Fixpoint rebuild_go (pan todo : list (nat * nat)) (s : cstore) (k : nat) : cstore * nat * res :=
  match todo with
  | [] => (s, k, Ok)
  | (key, oc) :: rest =>
      match s oc with
      | [] => rebuild_go pan rest s k
      | _ =>
          match find (fun e => Nat.eqb (fst e) key) pan with
          | None => (s, k, Err AttrErr)                      (* new[key]: AttributeError *)
          | Some (_, nc) =>
              if Nat.eqb nc oc then rebuild_go pan rest s k  (* the same child channel exposed again *)
              else match copy_conns s k nc oc with
                   | (s1, k1, Ok) => rebuild_go pan rest (fst (disconnect_all s1 oc)) k1
                   | bad => bad
                   end
          end
      end
  end.

Definition rebuild (st : state) (wm : list wentry) : state * res :=
  let pin := exposed st wm true in
  let pout := exposed st wm false in
  match rebuild_go pin pin (cn st) (fc st) with
  | (s1, k1, Ok) =>
      let '(s2, k2, r) := rebuild_go pout pout s1 k1 in (with_cn st s2 k2, r)
  | (s1, k1, Err e) => (with_cn st s1 k1, Err e)
  end.

(* Workflow.replace_child: Composite.replace_child, then the rebuild; should the rebuild raise, the
   composite-level replacement is made in the other direction and the rebuild's exception re-raised *)
Definition replace_wf (st : state) (wm : list wentry) (comp old new : nat) : state * rres :=
  match replace_core st comp old new with
  | (st1, ROk) => match rebuild st1 wm with
                  | (st2, Ok) => (st2, ROk)
                  | (st2, Err e) => (fst (replace_core st2 comp new old), RErr e PhRebuild)
                  end
  | bad => bad
  end.

(* ---- topology.py ---------------------------------------------------------------------------- *)
(* owners of everything connected to the data inputs of [n], in iteration order *)
Definition ups (s : cstore) (n : nat) : list nat :=
  flat_map (fun c => map owner_of (s c)) (panel_chans n PIn).

(* first loop of _set_new_run_connections_with_fallback_recovery *)
Fixpoint disc_phase (s : cstore) (nodes : list nat) : cstore * list (nat * nat) :=
  match nodes with
  | [] => (s, [])
  | v :: r => let '(s1, p1) := disconnect_all_list s (run_chans v) in
              let '(s2, p2) := disconnect_all_list s1 (opt_list (find_chan v PSOut L_RAN)) in
              let '(s3, p3) := disc_phase s2 r in (s3, p1 ++ p2 ++ p3)
  end.

(* `for c1, c2 in disconnected_pairs: c1.connect(c2)`; a raising connect leaves the handler *)
Fixpoint restore (s : cstore) (k : nat) (ps : list (nat * nat)) : cstore * nat * res :=
  match ps with
  | [] => (s, k, Ok)
  | (a, b) :: r => match connect1 s k a b with
                   | (s', k', Ok) => restore s' k' r
                   | bad => bad
                   end
  end.

(* nodes_to_data_digraph: the first exception (if any) *)
Definition same_parents (st : state) (nodes : list nat) : bool :=
  match nodes with
  | [] => true
  | v :: _ => forallb (fun u => optnat_eqb (par st u) (par st v)) nodes
  end.
(* nodes[upstream.owner.label] / `is not upstream.owner` for one upstream owner *)
Definition up_check (st : state) (nodes : list nat) (u : nat) : option exn :=
  match find (fun k => Nat.eqb (lab st k) (lab st u)) nodes with
  | None => Some KeyErr
  | Some k => if Nat.eqb k u then None else Some ValueErr
  end.
Fixpoint first_exn (l : list (option exn)) : option exn :=
  match l with [] => None | Some e :: _ => Some e | None :: r => first_exn r end.
Fixpoint dg_nodes (st : state) (s : cstore) (nodes todo : list nat) : option exn :=
  match todo with
  | [] => None
  | v :: r =>
      match first_exn (map (up_check st nodes) (ups s v)) with
      | Some e => Some e
      | None => if memn v (ups s v) then Some CircErr else dg_nodes st s nodes r
      end
  end.
Definition digraph_check (st : state) (s : cstore) (nodes : list nat) : option exn :=
  if same_parents st nodes then dg_nodes st s nodes nodes else Some ValueErr.

(* toposort: does peeling off dependency-free nodes exhaust the graph? *)
Fixpoint acyclic (fuel : nat) (s : cstore) (rem done : list nat) : bool :=
  match rem with
  | [] => true
  | _ =>
      match fuel with
      | 0 => false
      | S f =>
          let ready := filter (fun v => forallb (fun d => memn d done) (ups s v)) rem in
          match ready with
          | [] => false
          | _ => acyclic f s (filter (fun v => negb (memn v ready)) rem) (done ++ ready)
          end
      end
  end.

(* second loop of _set_run_connections_according_to_dag; [order] = iteration order of the *set*
   of upstream nodes of one node.  Returns how many connections were made before an exception. *)
Fixpoint wire_all (s : cstore) (k : nat) (nodes : list nat) (orders : list (list nat)) (made : nat)
  : cstore * nat * res * nat :=
  match nodes with
  | [] => (s, k, Ok, made)
  | v :: r =>
      match find_chan v PSIn L_ACC with
      | None => wire_all s k r (tl orders) made
      | Some acc =>
          let rans := flat_map (fun u => opt_list (find_chan u PSOut L_RAN))
                               (arrange (hd [] orders) (dedup (ups s v))) in
          match connect s k acc rans with
          | (s1, k1, Ok, n) => wire_all s1 k1 r (tl orders) (made + n)
          | (s1, k1, Err e, n) => (s1, k1, Err e, made + n)
          end
      end
  end.

(* where a flow derivation failed *)
Inductive wphase :=
| WGraph                (* digraph / toposort refused; nothing new was connected *)
| WWire (made : nat)    (* a new connection raised after [made] had been made *)
| WRestore.             (* the restoring loop itself raised *)
Inductive wres := WOk | WErr (e : exn) (ph : wphase).

(* Composite.set_run_signals_to_dag_execution *)
Definition wire (st : state) (orders : list (list nat)) : state * wres :=
  match kids st with
  | [] => (st, WOk)
  | nodes =>
      let '(s1, pairs) := disc_phase (cn st) nodes in
      let fail (s : cstore) (k : nat) (e : exn) (ph : wphase) :=
          match restore s k pairs with
          | (s2, k2, Ok) => (with_cn st s2 k2, WErr e ph)
          | (s2, k2, Err e2) => (with_cn st s2 k2, WErr e2 WRestore)
          end in
      match digraph_check st s1 nodes with
      | Some e => fail s1 (fc st) e WGraph
      | None =>
          if acyclic (S (List.length nodes)) s1 nodes [] then
            match wire_all s1 (fc st) nodes orders 0 with
            | (s2, k2, Ok, _) =>
                let st2 := with_cn st s2 k2 in
                (mks (cn st2) (vl st2) (rc st2) (par st2) (lab st2) (kids st2)
                     (filter (fun v => match ups s1 v with [] => true | _ => false end) nodes)
                     (fc st2) (fv st2) (fl st2), WOk)
            | (s2, k2, Err e, made) => fail s2 k2 e (WWire made)
            end
          else fail s1 (fc st) CircErr WGraph
      end
  end.

(* ---- node.py: the flow derivation of a pull (Node.run_data_tree up to the point the upstream runs start) --- *)
(* get_nodes_in_data_tree as a set (work-list; enough fuel for every duplicate-free store) *)
Fixpoint closure (fuel : nat) (s : cstore) (front seen : list nat) : list nat :=
  match fuel with
  | 0 => seen
  | S f => match front with
           | [] => seen
           | v :: r => if memn v seen then closure f s r seen
                       else closure f s (r ++ ups s v) (seen ++ [v])
           end
  end.
Definition cfuel : nat := S (List.length W * List.length W + List.length W).
Definition data_tree (s : cstore) (n : nat) : list nat := closure cfuel s [n] [].
(* its recursion does not end (RecursionError -> CircularDataFlowError) iff a cycle is reachable upstream *)
Definition cyclic_up (s : cstore) (n : nat) : bool :=
  existsb (fun v => memn v (closure cfuel s (ups s v) [])) (data_tree s n).

(* run_data_tree: the data tree; every node of it gets the temporary label `label + str(id(node))` (unique, so
   every upstream owner is found under its label); set_run_connections_according_to_linear_dag: break the run /
   ran connections of the tree (in the iteration order [order] of the *set* of tree nodes), refuse a tree that is
   not a set of siblings (ValueError), restore; `except Exception`: give every node its label back.
   The temporary labels are not represented: they are gone again in every outcome modelled here.
   WOk = the derivation succeeded and the pull goes on to run nodes (not modelled). *)
Definition pull_derive (st : state) (target : nat) (order : list nat) : state * wres :=
  let s := cn st in
  if cyclic_up s target then (st, WErr CircErr WGraph)
  else
    let tree := arrange order (data_tree s target) in
    let '(s1, pairs) := disc_phase s tree in
    if same_parents st tree then (st, WOk)
    else match restore s1 (fc st) pairs with
         | (s2, k2, Ok) => (with_cn st s2 k2, WErr ValueErr WGraph)
         | (s2, k2, Err e2) => (with_cn st s2 k2, WErr e2 WRestore)
         end.

(* ---- observation ------------------------------------------------------------------------- *)
Definition exn_code (e : exn) : Z :=
  match e with
  | TypeErr => 1 | ConnErr => 2 | ValueErr => 3 | AttrErr => 4 | KeyErr => 5
  | ConnCopyErr => 6 | ValueCopyErr => 7 | CircErr => 8 | Injected => 10 | RecErr => 11
  end.

Definition val_obs (x : option val) : obs :=
  match x with
  | None => OL []
  | Some (VI z) => OL [OZ 1; OZ z]
  | Some (VS z) => OL [OZ 2; OZ z]
  end.
Definition optnat_obs (x : option nat) : obs :=
  match x with None => OZ (-1) | Some n => on n end.

(* the structural snapshot: children, labels, parents, starting nodes, ordered connection lists
   of every channel, values, value receivers, children keys *)
Definition snapshot (nn : nat) (st : state) : obs :=
  OL [OL (map on (kids st));
      OL (map (fun n => on (lab st n)) (seq 0 nn));
      OL (map (fun n => optnat_obs (par st n)) (seq 0 nn));
      OL (map on (start st));
      OL (map (fun c => OL (map on (cn st c))) ids);
      OL (map (fun c => val_obs (vl st c)) (filter is_data ids));
      OL (map (fun c => optnat_obs (rc st c)) (filter is_data ids));
      OL (map (fun n => on (lab st n)) (kids st))].       (* the keys the children are held under *)

End Model.

(* ---- cases --------------------------------------------------------------------------------- *)
Inductive op :=
| OCopyConns (a o : nat)                               (* a.copy_connections(o) *)
| OCopyIO (dst src : nat) (cfh vfh : bool)             (* dst.copy_io(src, cfh, vfh) *)
| OReplace (old new : nat) (cls : bool)                (* comp.replace_child(old, new | type(new)) *)
| OWire (orders : list (list nat))                     (* comp.set_run_signals_to_dag_execution() *)
| OPull (target : nat) (order : list nat).             (* target.pull(): the flow derivation of run_data_tree *)

Fixpoint assoc_fun {A} (l : list (nat * A)) (d : A) : nat -> A :=
  match l with
  | [] => fun _ => d
  | (k, v) :: r => upd (assoc_fun r d) k v
  end.

(* the initial graph: [edges] are the connect calls (a.connect(b)) in the order they were made *)
Definition init_state (edges : list (nat * nat)) (vals : list (nat * val)) (recv : list (nat * nat))
           (parents : list (nat * nat)) (labels : list nat) (children starting : list nat)
           (kc kv kl : nat) : state :=
  mks (fold_left (fun s e => link_raw s (fst e) (snd e)) edges (fun _ => []))
      (assoc_fun (map (fun e => (fst e, Some (snd e))) vals) None)
      (assoc_fun (map (fun e => (fst e, Some (snd e))) recv) None)
      (assoc_fun (map (fun e => (fst e, Some (snd e))) parents) None)
      (fun n => nth n labels n)
      children starting kc kv kl.

Definition res_obs (r : res) : obs := match r with Ok => OZ 0 | Err e => OZ (exn_code e) end.

(* [comp] = node index of the composite; [wm] = Some map for a workflow, None for a macro *)
Definition step (W : world) (comp : nat) (wm : option (list wentry)) (st : state) (o : op) : state * obs :=
  match o with
  | OCopyConns a b =>
      let '(s1, k1, r) := copy_conns W (cn st) (fc st) a b in (with_cn st s1 k1, res_obs r)
  | OCopyIO dst src cfh vfh =>
      match copy_io W st dst src cfh vfh with
      | (st1, COk) => (st1, OZ 0)
      | (st1, CErr e _) => (st1, OZ (exn_code e))
      end
  | OReplace old new cls =>
      (* a class is instantiated with the label of the node it replaces *)
      let st0 := if cls then mks (cn st) (vl st) (rc st) (par st) (upd (lab st) new (lab st old))
                                 (kids st) (start st) (fc st) (fv st) (fl st) else st in
      match (match wm with
             | Some m => replace_wf W st0 m comp old new
             | None => replace_core W st0 comp old new
             end) with
      | (st1, ROk) => (st1, OZ 0)
      | (st1, RErr e _) => (st1, OZ (exn_code e))
      end
  | OWire orders =>
      match wire W st orders with
      | (st1, WOk) => (st1, OZ 0)
      | (st1, WErr e _) => (st1, OZ (exn_code e))
      end
  | OPull target order =>
      match pull_derive W st target order with
      | (st1, WOk) => (st1, OZ 0)
      | (st1, WErr e _) => (st1, OZ (exn_code e))
      end
  end.

(* observation of a case: outcome, snapshot before, snapshot after *)
Definition run_case (W : world) (nn comp : nat) (wm : option (list wentry)) (st : state) (o : op) : obs :=
  let '(st1, code) := step W comp wm st o in
  match o, code with
  | _, OZ 11%Z => OL [code; snapshot W nn st]
  | OPull _ _, OZ 0%Z => OL [code; snapshot W nn st]      (* the derivation succeeded: what the run does is not modelled *)
  | _, _ => OL [code; snapshot W nn st; snapshot W nn st1]
  end.
